(* C09/IndexProofs.v -- index entries, row by row: statements and their undo keep every row's index entries
   complete (and its B-tree entries exact), as long as no index is created in between. *)
From Coq Require Import Permutation Sorted.
From NV.Common Require Import Base LockTable LockTableFacts.
From NV.C09 Require Import Model Proofs.
Open Scope N_scope.
Arguments N.add : simpl never.
Arguments N.sub : simpl never.
Arguments N.eqb : simpl never.
Arguments N.ltb : simpl never.
Arguments N.leb : simpl never.

(* columns are 0 (a) and 1 (b) *)
Definition WFcols (e : eng) : Prop := forall col, In col (hmeta e ++ bmeta e) -> col < 2.

Lemma getcol_setcol r col v col' : col < 2 -> col' < 2 ->
  getcol (setcol r col v) col' = if N.eqb col col' then v else getcol r col'.
Proof.
  intros H1 H2. unfold getcol, setcol.
  destruct (N.eqb_spec col 0) as [->|Hc], (N.eqb_spec col' 0) as [->|Hc']; cbn.
  - reflexivity.
  - destruct (N.eqb_spec 0 col'); [congruence|reflexivity].
  - destruct (N.eqb_spec col 0); [congruence|reflexivity].
  - assert (col = 1) by lia. assert (col' = 1) by lia. subst. reflexivity.
Qed.

(* the index entries of ONE row *)
Definition GoodRow (e : eng) (rid : N) : Prop :=
  match live (nth_row (rows e) rid) with
  | Some ab =>
      let r := R true (fst ab) (snd ab) in
      (forall col, In col (hmeta e) -> In (col, getcol r col, rid) (hent e)) /\
      (forall col, In col (bmeta e) -> In (col, getcol r col, rid) (bent e)) /\
      (forall col v, In (col, v, rid) (bent e) -> In col (bmeta e) /\ v = getcol r col)
  | None => forall col v, ~ In (col, v, rid) (bent e)
  end.

Definition EntAll (e : eng) : Prop := NoDup (hent e) /\ NoDup (bent e) /\ forall rid, GoodRow e rid.

Lemma live_scan e rid r : In (rid, r) (scan (rows e)) -> live (nth_row (rows e) rid) = Some (va r, vb r).
Proof. intros H. apply scan_spec in H. destruct H as [-> A]. cbn. now rewrite A. Qed.

Lemma getcol_R r col : getcol (R true (va r) (vb r)) col = getcol r col.
Proof. reflexivity. Qed.

(* row-by-row goodness gives the global conditions of select_index_eq_scan *)
Theorem EntAll_EntOK e : EntAll e -> EntOK e.
Proof.
  intros [Nh [Nb G]]. split; [exact Nh|]. split; [exact Nb|]. split; [split|].
  - intros col rid r Hc Hin. specialize (G rid). unfold GoodRow in G. rewrite (live_scan e rid r Hin) in G. cbn [fst snd] in G.
    destruct G as [G1 _]. rewrite <- getcol_R. now apply G1.
  - intros col rid r Hc Hin. specialize (G rid). unfold GoodRow in G. rewrite (live_scan e rid r Hin) in G. cbn [fst snd] in G.
    destruct G as [_ [G2 _]]. rewrite <- getcol_R. now apply G2.
  - intros col v rid r Hc Hin Hs. specialize (G rid). unfold GoodRow in G. rewrite (live_scan e rid r Hs) in G. cbn [fst snd] in G.
    destruct G as [_ [_ G3]]. destruct (G3 col v Hin) as [_ ->]. apply getcol_R.
Qed.

Lemma einit_EntAll l0 : EntAll (einit l0).
Proof.
  split; [constructor|]. split; [constructor|]. intros rid. unfold GoodRow.
  assert (nth_row (rows (einit l0)) rid = None) by (unfold nth_row; cbn; destruct (N.eqb rid 0); [reflexivity|destruct (N.to_nat (rid - 1)); reflexivity]).
  rewrite H. cbn. intros col v [].
Qed.

(* --- entry-list bookkeeping --- *)
Lemma eadd_NoDup x l : NoDup l -> NoDup (eadd x l).
Proof.
  intros H. unfold eadd. destruct (existsb (ent_eqb x) l) eqn:E; [exact H|].
  apply NoDup_app_intro; [exact H|constructor; [tauto|constructor]|]. intros y Hy [<-|[]].
  assert (existsb (ent_eqb x) l = true); [|congruence]. apply existsb_exists. exists x. split; [exact Hy|now apply ent_eqb_eq].
Qed.
Lemma eremove_NoDup x l : NoDup l -> NoDup (eremove x l).
Proof. intros. now apply NoDup_filter. Qed.
Lemma fold_eadd_NoDup {A} (f : A -> ent) xs : forall l, NoDup l -> NoDup (fold_left (fun l c => eadd (f c) l) xs l).
Proof. induction xs as [|c r IH]; intros l H; cbn; [exact H|]. apply IH. now apply eadd_NoDup. Qed.
Lemma fold_eremove_NoDup {A} (f : A -> ent) xs : forall l, NoDup l -> NoDup (fold_left (fun l c => eremove (f c) l) xs l).
Proof. induction xs as [|c r IH]; intros l H; cbn; [exact H|]. apply IH. now apply eremove_NoDup. Qed.
Lemma fold_eadd_In' {A} (f : A -> ent) xs : forall l y, In y (fold_left (fun l c => eadd (f c) l) xs l) <-> In y l \/ exists c, In c xs /\ y = f c.
Proof.
  induction xs as [|c r IH]; intros l y; cbn [fold_left].
  - split; [auto|intros [H|[c [[] _]]]; exact H].
  - rewrite IH, eadd_In. split.
    + intros [[->|H]|[c' [Hc ->]]]; [right; exists c; cbn; auto|auto|right; exists c'; cbn; auto].
    + intros [H|[c' [[<-|Hc] ->]]]; [auto|auto|right; eauto].
Qed.
Lemma fold_eremove_In {A} (f : A -> ent) xs : forall l y, In y (fold_left (fun l c => eremove (f c) l) xs l) <-> In y l /\ forall c, In c xs -> y <> f c.
Proof.
  induction xs as [|c r IH]; intros l y; cbn [fold_left].
  - split; [intros H; split; [exact H|intros c []]|tauto].
  - rewrite IH, eremove_In. split.
    + intros [[H1 H2] H3]. split; [exact H1|]. intros c' [<-|Hc]; auto.
    + intros [H1 H2]. split; [split; [exact H1|apply H2; now left]|]. intros c' Hc. apply H2. now right.
Qed.

(* --- GoodRow depends only on the row's own slot, its own index triples, and the index metadata --- *)
Definition same_triples (rid : N) (l l' : list ent) : Prop := forall col v, In (col, v, rid) l' <-> In (col, v, rid) l.

Lemma GoodRow_view e e' rid :
  live (nth_row (rows e') rid) = live (nth_row (rows e) rid) -> hmeta e' = hmeta e -> bmeta e' = bmeta e ->
  same_triples rid (hent e) (hent e') -> same_triples rid (bent e) (bent e') ->
  GoodRow e rid -> GoodRow e' rid.
Proof.
  intros Hl Hh Hb Th Tb G. unfold GoodRow in *. rewrite Hl, Hh, Hb.
  destruct (live (nth_row (rows e) rid)) as [ab|].
  - destruct G as [G1 [G2 G3]]. split; [|split].
    + intros col Hc. apply Th. auto.
    + intros col Hc. apply Tb. auto.
    + intros col v Hin. apply Tb in Hin. auto.
  - intros col v Hin. apply Tb in Hin. exact (G col v Hin).
Qed.

(* folds of entry operations that only mention row rid0 leave the triples of every other row alone *)
Lemma fold_ent_other {A} (f : list ent -> A -> list ent) (rid rid0 : N) xs :
  rid <> rid0 ->
  (forall l x col v, In (col, v, rid) (f l x) <-> In (col, v, rid) l) ->
  forall l, same_triples rid l (fold_left f xs l).
Proof.
  intros Hne Hf. induction xs as [|x r IH]; intros l col v; cbn [fold_left]; [tauto|].
  rewrite (IH (f l x) col v). apply Hf.
Qed.

Lemma eadd_other x rid l col v : snd x <> rid -> (In (col, v, rid) (eadd x l) <-> In (col, v, rid) l).
Proof. intros H. rewrite eadd_In. split; [intros [E|Hi]; [subst x; cbn in H; congruence|exact Hi]|auto]. Qed.
Lemma eremove_other x rid l col v : snd x <> rid -> (In (col, v, rid) (eremove x l) <-> In (col, v, rid) l).
Proof. intros H. rewrite eremove_In. split; [tauto|]. intros Hi. split; [exact Hi|]. intros E. subst x. cbn in H. congruence. Qed.

Section Guarded.
(* from here on: the undo adds B-tree entries only for columns that have a B-tree index (the repaired code) *)
Notation gb := true.

(* an undo entry of another row does not touch this row's view *)
Lemma apply_undo_other e u rid : u_rid u <> rid ->
  let e' := fst (apply_undo gb e u) in
  nth_row (rows e') rid = nth_row (rows e) rid /\ hmeta e' = hmeta e /\ bmeta e' = bmeta e /\
  same_triples rid (hent e) (hent e') /\ same_triples rid (bent e) (bent e').
Proof.
  intros Hne. cbn zeta. split.
  - rewrite apply_undo_slot. destruct (N.eqb_spec rid (u_rid u)); [congruence|reflexivity].
  - destruct u as [r0 ents|r0 oa ob chg|r0 oa ob ents]; cbn [u_rid] in Hne; cbn [apply_undo];
      (destruct (nth_row (rows e) r0) as [cur|]; [destruct (alive cur)|]); cbn [fst hmeta bmeta hent bent with_idx];
      (split; [reflexivity|split; [reflexivity|split]]);
      apply (fold_ent_other _ rid r0); try congruence; intros l x col v;
      unfold badd_guarded;
      repeat match goal with |- context [if ?c then _ else _] => destruct c end;
      rewrite ?eadd_other, ?eremove_other by (cbn; congruence); tauto.
Qed.
End Guarded.

(* ---------------------------------------------------------------- one undo step on its own row *)
(* the slot content an undo entry expects to find (= what its statement left behind), with the entry's index part
   computed from the index metadata of e *)
Definition PostOK (e : eng) (u : undo) (cur : option (N * N)) : Prop :=
  match u with
  | UIns _ ents => exists a b, cur = Some (a, b) /\ ents = map (fun c => (c, getcol (R true a b) c)) (hmeta e ++ bmeta e)
  | UUpd _ oa ob chg => exists col v, col < 2 /\
        cur = Some (va (setcol (R true oa ob) col v), vb (setcol (R true oa ob) col v)) /\
        chg = map (fun c => (c, getcol (R true oa ob) col, v)) (filter (N.eqb col) (hmeta e ++ bmeta e))
  | UDel _ oa ob ents => cur = None /\ ents = map (fun c => (c, getcol (R true oa ob) c)) (hmeta e ++ bmeta e)
  end.
Definition pre_of (u : undo) : option (N * N) :=
  match u with UIns _ _ => None | UUpd _ oa ob _ => Some (oa, ob) | UDel _ oa ob _ => Some (oa, ob) end.

(* k >= 1 repetitions of "remove the new triple, add the old one" *)
Lemma fold_swap_In (g : N * N * N -> list ent -> list ent) (To Tn : ent) chg c0 :
  (forall l x, In x (g c0 l) <-> x = To \/ (In x l /\ x <> Tn)) ->
  (forall c, In c chg -> c = c0) -> chg <> [] ->
  forall l x, In x (fold_left (fun l c => g c l) chg l) <-> x = To \/ (In x l /\ x <> Tn).
Proof.
  intros Hg. induction chg as [|c r IH]; intros Hc Hne l x; [congruence|]. cbn [fold_left].
  rewrite (Hc c (or_introl eq_refl)). destruct r as [|c' r'].
  - cbn. apply Hg.
  - rewrite IH; [|intros; apply Hc; now right|discriminate]. rewrite Hg. tauto.
Qed.
Lemma fold_remove_only_In (g : N * N * N -> list ent -> list ent) (Tn : ent) chg c0 :
  (forall l x, In x (g c0 l) <-> (In x l /\ x <> Tn)) ->
  (forall c, In c chg -> c = c0) ->
  forall l x, In x (fold_left (fun l c => g c l) chg l) -> In x l.
Proof.
  intros Hg. induction chg as [|c r IH]; intros Hc l x H; cbn [fold_left] in H; [exact H|].
  rewrite (Hc c (or_introl eq_refl)) in H. apply IH in H; [|intros; apply Hc; now right]. apply Hg in H. tauto.
Qed.

Lemma in_filter_eqb col l : In col l -> filter (N.eqb col) l <> [].
Proof.
  induction l as [|x r IH]; intros H; [destruct H|]. cbn. destruct (N.eqb_spec col x); [discriminate|].
  destruct H; [congruence|auto].
Qed.
Lemma filter_eqb_all col l c : In c (filter (N.eqb col) l) -> c = col.
Proof. intros H. apply filter_In in H. destruct H as [_ E]. apply N.eqb_eq in E. auto. Qed.

Lemma fold_badd_In e rid ents : forall l x,
  In x (fold_left (fun l cv => badd_guarded true e (fst cv) (snd cv) rid l) ents l) <->
  In x l \/ exists cv, In cv ents /\ In (fst cv) (bmeta e) /\ x = (fst cv, snd cv, rid).
Proof.
  induction ents as [|cv r IH]; intros l x; cbn [fold_left].
  - split; [auto|intros [H|[cv [[] _]]]; exact H].
  - rewrite IH. unfold badd_guarded. cbn [andb]. destruct (existsb (N.eqb (fst cv)) (bmeta e)) eqn:M; cbn [negb].
    + apply existsb_eqb_In in M. rewrite eadd_In. split.
      * intros [[->|H]|[cv' [Hc H]]]; [right; exists cv; cbn; auto|auto|right; exists cv'; cbn; tauto].
      * intros [H|[cv' [[<-|Hc] [Hb ->]]]]; [auto|auto|right; exists cv'; auto].
    + split.
      * intros [H|[cv' [Hc H]]]; [auto|right; exists cv'; cbn; tauto].
      * intros [H|[cv' [[<-|Hc] [Hb ->]]]]; [auto| |right; exists cv'; auto].
        apply existsb_eqb_In in Hb. congruence.
Qed.

Lemma slot_alive_vals e rid a b : live (nth_row (rows e) rid) = Some (a, b) ->
  exists c, nth_row (rows e) rid = Some c /\ alive c = true /\ va c = a /\ vb c = b.
Proof.
  destruct (nth_row (rows e) rid) as [c|]; cbn; [|discriminate]. destruct (alive c) eqn:A; [|discriminate].
  intros [= <- <-]. eauto.
Qed.
Lemma slot_dead e rid : nth_row (rows e) rid <> None -> live (nth_row (rows e) rid) = None ->
  exists c, nth_row (rows e) rid = Some c /\ alive c = false.
Proof.
  destruct (nth_row (rows e) rid) as [c|]; [|congruence]. cbn. destruct (alive c) eqn:A; [discriminate|]. eauto.
Qed.

(* undoing an entry on the row it belongs to, when the row is in the state the entry expects:
   the row returns to the entry's pre-image and its index entries are complete / exact again *)
Theorem undo_own_good e u : WFcols e ->
  nth_row (rows e) (u_rid u) <> None ->
  PostOK e u (live (nth_row (rows e) (u_rid u))) -> GoodRow e (u_rid u) ->
  let e' := fst (apply_undo true e u) in
  GoodRow e' (u_rid u) /\ live (nth_row (rows e') (u_rid u)) = pre_of u /\ hmeta e' = hmeta e /\ bmeta e' = bmeta e.
Proof.
  intros WF Hex HP G. cbv zeta. destruct u as [rid ents|rid oa ob chg|rid oa ob ents]; cbn [u_rid PostOK pre_of] in *.
  - (* UIns: the row goes away, with all its B-tree entries *)
    destruct HP as [a [b [Hcur Hents]]]. destruct (slot_alive_vals e rid a b Hcur) as [c [Gc [Ac [Ea Eb]]]].
    unfold GoodRow in G. rewrite Hcur in G. cbn [fst snd] in G. destruct G as [_ [_ G3]].
    cbn [apply_undo]. rewrite Gc, Ac. cbn [fst rows hmeta bmeta hent bent with_idx].
    assert (Hs : nth_row (set_row (rows e) rid (R false (va c) (vb c))) rid = Some (R false (va c) (vb c))) by (eapply nth_row_set_same; eauto).
    split; [|split; [try fold old; rewrite Hs; reflexivity|split; reflexivity]].
    unfold GoodRow. cbn [rows bent with_idx]. rewrite Hs. cbn [live alive]. intros col v Hin.
    apply (fold_eremove_In (fun cv : N * N => (fst cv, snd cv, rid))) in Hin. destruct Hin as [Hin Hno].
    destruct (G3 col v Hin) as [Hb ->]. apply (Hno (col, getcol (R true a b) col)); [|reflexivity].
    rewrite Hents. apply in_map_iff. exists col. split; [reflexivity|]. apply in_or_app. now right.
  - (* UUpd *)
    destruct HP as [col [v [Hcol [Hcur Hchg]]]].
    set (old := R true oa ob) in *. set (new := setcol old col v) in *.
    destruct (slot_alive_vals e rid _ _ Hcur) as [c [Gc [Ac [Ea Eb]]]].
    unfold GoodRow in G. rewrite Hcur in G. cbn [fst snd] in G.
    assert (Enew : R true (va new) (vb new) = new) by (unfold new, setcol, old; destruct (N.eqb col 0); reflexivity).
    rewrite Enew in G. destruct G as [G1 [G2 G3]].
    cbn [apply_undo]. rewrite Gc, Ac. cbn [fst rows hmeta bmeta hent bent with_idx].
    assert (Hs : nth_row (set_row (rows e) rid old) rid = Some old) by (eapply nth_row_set_same; eauto).
    split; [|split; [try fold old; rewrite Hs; reflexivity|split; reflexivity]].
    unfold GoodRow. cbn [rows hent bent hmeta bmeta with_idx]. fold old. rewrite Hs. cbn [live alive old va vb fst snd]. fold old.
    set (To := (col, getcol old col, rid)). set (Tn := (col, v, rid)).
    assert (Hall : forall c0, In c0 chg -> c0 = (col, getcol old col, v)).
    { intros c0 H0. rewrite Hchg in H0. apply in_map_iff in H0. destruct H0 as [c1 [<- H1]]. now rewrite (filter_eqb_all _ _ _ H1). }
    assert (Hother : forall c', c' < 2 -> c' <> col -> getcol new c' = getcol old c').
    { intros c' H2 Hne. unfold new. rewrite getcol_setcol by assumption. destruct (N.eqb_spec col c'); [congruence|reflexivity]. }
    assert (Hnewcol : getcol new col = v) by (unfold new; rewrite getcol_setcol by assumption; now rewrite N.eqb_refl).
    assert (Hh : forall l x, In x (eadd (fst (fst (col, getcol old col, v)), snd (fst (col, getcol old col, v)), rid)
                                  (eremove (fst (fst (col, getcol old col, v)), snd (col, getcol old col, v), rid) l))
                         <-> x = To \/ (In x l /\ x <> Tn)).
    { intros l x. cbn [fst snd]. rewrite eadd_In, eremove_In. fold To Tn. tauto. }
    split; [|split].
    + (* hash completeness *)
      intros c' Hc'. assert (c' < 2) by (apply WF; apply in_or_app; now left).
      destruct (N.eq_dec c' col) as [->|Hne].
      * assert (Hk : chg <> []) by (rewrite Hchg; intros E; apply map_eq_nil in E; revert E; apply in_filter_eqb; apply in_or_app; now left).
        apply (fold_swap_In (fun c l => eadd (fst (fst c), snd (fst c), rid) (eremove (fst (fst c), snd c, rid) l)) To Tn chg _ Hh Hall Hk). now left.
      * specialize (G1 c' Hc'). rewrite (Hother c' H Hne) in G1.
        destruct chg as [|c0 r0] eqn:Ec; [exact G1|].
        apply (fold_swap_In (fun c l => eadd (fst (fst c), snd (fst c), rid) (eremove (fst (fst c), snd c, rid) l)) To Tn (c0 :: r0) _ Hh Hall); [discriminate|].
        right. split; [exact G1|]. unfold Tn. congruence.
    + (* B-tree completeness *)
      intros c' Hc'. assert (c' < 2) by (apply WF; apply in_or_app; now right).
      destruct (N.eq_dec c' col) as [->|Hne].
      * assert (Hk : chg <> []) by (rewrite Hchg; intros E; apply map_eq_nil in E; revert E; apply in_filter_eqb; apply in_or_app; now right).
        assert (Hb : forall l x, In x (badd_guarded true e (fst (fst (col, getcol old col, v))) (snd (fst (col, getcol old col, v))) rid
                                      (eremove (fst (fst (col, getcol old col, v)), snd (col, getcol old col, v), rid) l))
                             <-> x = To \/ (In x l /\ x <> Tn)).
        { intros l x. unfold badd_guarded. cbn [fst snd andb]. apply existsb_eqb_In in Hc'. rewrite Hc'. cbn [negb].
          rewrite eadd_In, eremove_In. fold To Tn. tauto. }
        apply (fold_swap_In (fun c l => badd_guarded true e (fst (fst c)) (snd (fst c)) rid (eremove (fst (fst c), snd c, rid) l)) To Tn chg _ Hb Hall Hk). now left.
      * specialize (G2 c' Hc'). rewrite (Hother c' H Hne) in G2.
        destruct (existsb (N.eqb col) (bmeta e)) eqn:Mb.
        -- assert (Hb : forall l x, In x (badd_guarded true e (fst (fst (col, getcol old col, v))) (snd (fst (col, getcol old col, v))) rid
                                        (eremove (fst (fst (col, getcol old col, v)), snd (col, getcol old col, v), rid) l))
                               <-> x = To \/ (In x l /\ x <> Tn)).
           { intros l x. unfold badd_guarded. cbn [fst snd andb]. rewrite Mb. cbn [negb]. rewrite eadd_In, eremove_In. fold To Tn. tauto. }
           destruct chg as [|c0 r0] eqn:Ec; [exact G2|].
           apply (fold_swap_In (fun c l => badd_guarded true e (fst (fst c)) (snd (fst c)) rid (eremove (fst (fst c), snd c, rid) l)) To Tn (c0 :: r0) _ Hb Hall); [discriminate|].
           right. split; [exact G2|]. unfold Tn. congruence.
        -- (* col has no B-tree index: only removals of (col, v, rid) *)
           assert (Hb : forall l x, In x (badd_guarded true e (fst (fst (col, getcol old col, v))) (snd (fst (col, getcol old col, v))) rid
                                        (eremove (fst (fst (col, getcol old col, v)), snd (col, getcol old col, v), rid) l))
                               <-> (In x l /\ x <> Tn)).
           { intros l x. unfold badd_guarded. cbn [fst snd andb]. rewrite Mb. cbn [negb]. rewrite eremove_In. fold Tn. tauto. }
           clear Hh Hchg. revert G2. generalize (bent e) as l. induction chg as [|c0 r0 IHc]; intros l G2; cbn [fold_left]; [exact G2|].
           apply IHc; [intros; apply Hall; now right|]. rewrite (Hall c0 (or_introl eq_refl)). apply Hb. split; [exact G2|]. unfold Tn. congruence.
    + (* B-tree exactness *)
      intros c' w Hin.
      destruct (existsb (N.eqb col) (bmeta e)) eqn:Mb.
      * assert (Hb : forall l x, In x (badd_guarded true e (fst (fst (col, getcol old col, v))) (snd (fst (col, getcol old col, v))) rid
                                      (eremove (fst (fst (col, getcol old col, v)), snd (col, getcol old col, v), rid) l))
                             <-> x = To \/ (In x l /\ x <> Tn)).
        { intros l x. unfold badd_guarded. cbn [fst snd andb]. rewrite Mb. cbn [negb]. rewrite eadd_In, eremove_In. fold To Tn. tauto. }
        assert (Hk : chg <> []).
        { rewrite Hchg. intros E. apply map_eq_nil in E. revert E. apply in_filter_eqb. apply in_or_app. right. now apply existsb_eqb_In. }
        apply (fold_swap_In (fun c l => badd_guarded true e (fst (fst c)) (snd (fst c)) rid (eremove (fst (fst c), snd c, rid) l)) To Tn chg _ Hb Hall Hk) in Hin.
        destruct Hin as [E|[Hin Hne]].
        -- unfold To in E. injection E as -> ->. split; [now apply existsb_eqb_In|reflexivity].
        -- destruct (G3 c' w Hin) as [Hb' ->]. split; [exact Hb'|].
           assert (c' < 2) by (apply WF; apply in_or_app; now right).
           destruct (N.eq_dec c' col) as [->|Hnc]; [|now apply Hother].
           exfalso. apply Hne. unfold Tn. now rewrite Hnewcol.
      * assert (Hb : forall l x, In x (badd_guarded true e (fst (fst (col, getcol old col, v))) (snd (fst (col, getcol old col, v))) rid
                                      (eremove (fst (fst (col, getcol old col, v)), snd (col, getcol old col, v), rid) l))
                             <-> (In x l /\ x <> Tn)).
        { intros l x. unfold badd_guarded. cbn [fst snd andb]. rewrite Mb. cbn [negb]. rewrite eremove_In. fold Tn. tauto. }
        apply (fold_remove_only_In (fun c l => badd_guarded true e (fst (fst c)) (snd (fst c)) rid (eremove (fst (fst c), snd c, rid) l)) Tn chg _ Hb Hall) in Hin.
        destruct (G3 c' w Hin) as [Hb' ->]. split; [exact Hb'|].
        assert (c' < 2) by (apply WF; apply in_or_app; now right).
        destruct (N.eq_dec c' col) as [->|Hnc]; [|now apply Hother].
        exfalso. apply existsb_eqb_In in Hb'. congruence.
  - (* UDel: the row comes back with all its entries *)
    destruct HP as [Hcur Hents]. set (old := R true oa ob) in *.
    destruct (slot_dead e rid Hex Hcur) as [c [Gc Ac]].
    unfold GoodRow in G. rewrite Hcur in G.
    cbn [apply_undo]. rewrite Gc, Ac. cbn [fst rows hmeta bmeta hent bent with_idx].
    assert (Hs : nth_row (set_row (rows e) rid old) rid = Some old) by (eapply nth_row_set_same; eauto).
    split; [|split; [try fold old; rewrite Hs; reflexivity|split; reflexivity]].
    unfold GoodRow. cbn [rows hent bent hmeta bmeta with_idx]. fold old. rewrite Hs. cbn [live alive old va vb fst snd]. fold old.
    split; [|split].
    + intros c' Hc'. apply (fold_eadd_In' (fun cv : N * N => (fst cv, snd cv, rid))). right.
      exists (c', getcol old c'). split; [|reflexivity]. rewrite Hents. apply in_map_iff. exists c'. split; [reflexivity|]. apply in_or_app. now left.
    + intros c' Hc'. apply fold_badd_In. right. exists (c', getcol old c'). cbn [fst snd]. split; [|split; [exact Hc'|reflexivity]].
      rewrite Hents. apply in_map_iff. exists c'. split; [reflexivity|]. apply in_or_app. now right.
    + intros c' w Hin. apply fold_badd_In in Hin. destruct Hin as [Hin|[cv [Hcv [Hb E]]]]; [exfalso; exact (G c' w Hin)|].
      injection E as -> ->. split; [exact Hb|]. rewrite Hents in Hcv. apply in_map_iff in Hcv. destruct Hcv as [c1 [<- _]]. reflexivity.
Qed.

(* ---------------------------------------------------------------- statements keep every row good *)
Lemma R_eta r : alive r = true -> R true (va r) (vb r) = r.
Proof. destruct r as [al a b]. cbn. now intros ->. Qed.

Lemma live_current e rid r : nth_row (rows e) rid = Some r -> alive r = true -> live (nth_row (rows e) rid) = Some (va r, vb r).
Proof. intros -> A. cbn. now rewrite A. Qed.

Lemma upd_one_good tx col v e rid0 r : WFcols e -> col < 2 -> Current e (rid0, r) ->
  (forall rid, GoodRow e rid) -> forall rid, GoodRow (upd_one tx col v e (rid0, r)) rid.
Proof.
  intros WF Hcol [G0 A0] G rid. cbn [fst snd] in G0, A0.
  assert (H0 : rid0 <> 0) by (intros ->; unfold nth_row in G0; cbn in G0; discriminate).
  set (e' := upd_one tx col v e (rid0, r)).
  assert (R' : rows e' = set_row (rows e) rid0 (setcol r col v)) by (unfold e', upd_one; cbn [rows]; now rewrite G0, A0).
  assert (Hh : hent e' = if existsb (N.eqb col) (hmeta e) then eadd (col, v, rid0) (eremove (col, getcol r col, rid0) (hent e)) else hent e) by reflexivity.
  assert (Hb : bent e' = if existsb (N.eqb col) (bmeta e) then eadd (col, v, rid0) (eremove (col, getcol r col, rid0) (bent e)) else bent e) by reflexivity.
  assert (Mh : hmeta e' = hmeta e) by reflexivity. assert (Mb : bmeta e' = bmeta e) by reflexivity.
  destruct (N.eq_dec rid rid0) as [->|Hne].
  - (* the updated row *)
    specialize (G rid0). unfold GoodRow in *. rewrite (live_current e rid0 r G0 A0) in G. cbn [fst snd] in G. rewrite (R_eta r A0) in G.
    destruct G as [G1 [G2 G3]].
    assert (Ls : live (nth_row (rows e') rid0) = Some (va (setcol r col v), vb (setcol r col v))).
    { rewrite R'. erewrite nth_row_set_same by eauto. cbn. now rewrite setcol_alive, A0. }
    rewrite Ls, Mh, Mb. cbn [fst snd]. rewrite (R_eta (setcol r col v)) by (now rewrite setcol_alive).
    assert (Hother : forall c', c' < 2 -> c' <> col -> getcol (setcol r col v) c' = getcol r c').
    { intros c' H2 Hn. rewrite getcol_setcol by assumption. destruct (N.eqb_spec col c'); [congruence|reflexivity]. }
    assert (Hsame : getcol (setcol r col v) col = v) by (rewrite getcol_setcol by assumption; now rewrite N.eqb_refl).
    split; [|split].
    + intros c' Hc'. assert (c' < 2) by (apply WF; apply in_or_app; now left). rewrite Hh.
      destruct (N.eq_dec c' col) as [->|Hn].
      * apply existsb_eqb_In in Hc'. rewrite Hc', Hsame. apply eadd_In. now left.
      * rewrite (Hother c' H Hn). specialize (G1 c' Hc'). destruct (existsb (N.eqb col) (hmeta e)); [|exact G1].
        apply eadd_In. right. apply eremove_In. split; [exact G1|congruence].
    + intros c' Hc'. assert (c' < 2) by (apply WF; apply in_or_app; now right). rewrite Hb.
      destruct (N.eq_dec c' col) as [->|Hn].
      * apply existsb_eqb_In in Hc'. rewrite Hc', Hsame. apply eadd_In. now left.
      * rewrite (Hother c' H Hn). specialize (G2 c' Hc'). destruct (existsb (N.eqb col) (bmeta e)); [|exact G2].
        apply eadd_In. right. apply eremove_In. split; [exact G2|congruence].
    + intros c' w Hin. rewrite Hb in Hin. destruct (existsb (N.eqb col) (bmeta e)) eqn:M.
      * apply eadd_In in Hin. destruct Hin as [[= -> ->]|Hin]; [split; [now apply existsb_eqb_In|now rewrite Hsame]|].
        apply eremove_In in Hin. destruct Hin as [Hin Hn]. destruct (G3 c' w Hin) as [Hb' ->]. split; [exact Hb'|].
        assert (c' < 2) by (apply WF; apply in_or_app; now right).
        destruct (N.eq_dec c' col) as [->|Hn']; [congruence|now rewrite Hother].
      * destruct (G3 c' w Hin) as [Hb' ->]. split; [exact Hb'|].
        assert (c' < 2) by (apply WF; apply in_or_app; now right).
        destruct (N.eq_dec c' col) as [->|Hn']; [|now rewrite Hother].
        apply existsb_eqb_In in Hb'. congruence.
  - (* every other row: nothing of it moved *)
    apply (GoodRow_view e e' rid); auto.
    + rewrite R'. now rewrite nth_row_set_other by auto.
    + intros c' w. rewrite Hh. destruct (existsb (N.eqb col) (hmeta e)); [|tauto].
      rewrite eadd_other, eremove_other by (cbn; congruence). tauto.
    + intros c' w. rewrite Hb. destruct (existsb (N.eqb col) (bmeta e)); [|tauto].
      rewrite eadd_other, eremove_other by (cbn; congruence). tauto.
Qed.

Lemma del_one_good tx e rid0 r : Current e (rid0, r) ->
  (forall rid, GoodRow e rid) -> forall rid, GoodRow (del_one tx e (rid0, r)) rid.
Proof.
  intros [G0 A0] G rid. cbn [fst snd] in G0, A0.
  assert (H0 : rid0 <> 0) by (intros ->; unfold nth_row in G0; cbn in G0; discriminate).
  set (e' := del_one tx e (rid0, r)).
  assert (R' : rows e' = set_row (rows e) rid0 (R false (va r) (vb r))) by (unfold e', del_one; cbn [rows]; now rewrite G0).
  assert (Hh : hent e' = fold_left (fun l c => eremove (c, getcol r c, rid0) l) (hmeta e) (hent e)) by reflexivity.
  assert (Hb : bent e' = fold_left (fun l c => eremove (c, getcol r c, rid0) l) (bmeta e) (bent e)) by reflexivity.
  assert (Mh : hmeta e' = hmeta e) by reflexivity. assert (Mb : bmeta e' = bmeta e) by reflexivity.
  destruct (N.eq_dec rid rid0) as [->|Hne].
  - specialize (G rid0). unfold GoodRow in *. rewrite (live_current e rid0 r G0 A0) in G. cbn [fst snd] in G. rewrite (R_eta r A0) in G.
    destruct G as [_ [_ G3]].
    assert (Ls : live (nth_row (rows e') rid0) = None) by (rewrite R'; erewrite nth_row_set_same by eauto; reflexivity).
    rewrite Ls. intros c' w Hin. rewrite Hb in Hin.
    apply (fold_eremove_In (fun c : N => (c, getcol r c, rid0))) in Hin. destruct Hin as [Hin Hno].
    destruct (G3 c' w Hin) as [Hb' ->]. now apply (Hno c' Hb').
  - apply (GoodRow_view e e' rid); auto.
    + rewrite R'. now rewrite nth_row_set_other by auto.
    + rewrite Hh. apply (fold_ent_other _ rid rid0); [exact Hne|]. intros l c c' w. apply eremove_other. cbn. congruence.
    + rewrite Hb. apply (fold_ent_other _ rid rid0); [exact Hne|]. intros l c c' w. apply eremove_other. cbn. congruence.
Qed.

Lemma do_insert_good lk e tx a b : (forall rid, GoodRow e rid) -> forall rid, GoodRow (fst (do_insert lk e tx a b)) rid.
Proof.
  intros G rid. unfold do_insert. cbn [fst]. set (rid0 := N.of_nat (length (rows e)) + 1). set (r := R true a b).
  match goal with |- GoodRow ?E _ => set (e' := E) end.
  assert (R' : rows e' = rows e ++ [r]) by reflexivity.
  assert (Hh : hent e' = fold_left (fun l col => eadd (col, getcol r col, rid0) l) (hmeta e) (hent e)) by reflexivity.
  assert (Hb : bent e' = fold_left (fun l col => eadd (col, getcol r col, rid0) l) (bmeta e) (bent e)) by reflexivity.
  assert (Mh : hmeta e' = hmeta e) by reflexivity. assert (Mb : bmeta e' = bmeta e) by reflexivity.
  destruct (N.eq_dec rid rid0) as [->|Hne].
  - specialize (G rid0). unfold GoodRow in *.
    assert (G0 : nth_row (rows e) rid0 = None) by (unfold nth_row, rid0; destruct (N.eqb_spec (N.of_nat (length (rows e)) + 1) 0); [reflexivity|]; apply nth_error_None; lia).
    rewrite G0 in G. cbn [live] in G.
    assert (Ls : nth_row (rows e') rid0 = Some r).
    { rewrite R'. unfold nth_row, rid0. destruct (N.eqb_spec (N.of_nat (length (rows e)) + 1) 0); [lia|].
      rewrite nth_error_app2 by lia. replace (N.to_nat (N.of_nat (length (rows e)) + 1 - 1) - length (rows e))%nat with 0%nat by lia. reflexivity. }
    rewrite Ls, Mh, Mb. cbn [live alive r va vb fst snd]. fold r. split; [|split].
    + intros c' Hc'. rewrite Hh. apply (fold_eadd_In' (fun col : N => (col, getcol r col, rid0))). right. eauto.
    + intros c' Hc'. rewrite Hb. apply (fold_eadd_In' (fun col : N => (col, getcol r col, rid0))). right. eauto.
    + intros c' w Hin. rewrite Hb in Hin. apply (fold_eadd_In' (fun col : N => (col, getcol r col, rid0))) in Hin.
      destruct Hin as [Hin|[c1 [Hc1 E]]]; [exfalso; exact (G c' w Hin)|]. injection E as -> ->. auto.
  - apply (GoodRow_view e e' rid); auto.
    + rewrite R'. now rewrite nth_row_app_other.
    + rewrite Hh. apply (fold_ent_other _ rid rid0); [exact Hne|]. intros l c c' w. apply eadd_other. cbn. congruence.
    + rewrite Hb. apply (fold_ent_other _ rid rid0); [exact Hne|]. intros l c c' w. apply eadd_other. cbn. congruence.
Qed.

(* ---------------------------------------------------------------- whole statements and DDL *)
Definition AllGood (e : eng) : Prop := WFcols e /\ NoDup (hent e) /\ NoDup (bent e) /\ forall rid, GoodRow e rid.

Lemma AllGood_EntOK e : AllGood e -> EntOK e.
Proof. intros [_ [Nh [Nb G]]]. apply EntAll_EntOK. exact (conj Nh (conj Nb G)). Qed.

Lemma einit_AllGood l0 : AllGood (einit l0).
Proof. destruct (einit_EntAll l0) as [Nh [Nb G]]. split; [intros col []|exact (conj Nh (conj Nb G))]. Qed.

Lemma fold_AllGood (f : eng -> N * row -> eng) ms :
  (forall e ir, Current e ir -> AllGood e -> AllGood (f e ir)) ->
  (forall e rid r rid', rid <> rid' -> rid <> 0 -> nth_row (rows (f e (rid, r))) rid' = nth_row (rows e) rid') ->
  NoDup (map fst ms) -> ~ In 0 (map fst ms) ->
  forall e, (forall ir, In ir ms -> Current e ir) -> AllGood e -> AllGood (fold_left f ms e).
Proof.
  intros Hf Hr. induction ms as [|[rid0 r0] t IH]; intros ND H0 e Hc G; cbn [fold_left]; [exact G|].
  cbn in ND, H0. inversion ND as [|? ? Hn ND']; subst.
  apply IH; [exact ND'|tauto| |apply Hf; [apply Hc; now left|exact G]].
  intros [rid r] Hin. destruct (Hc (rid, r) (or_intror Hin)) as [Gc Ac]. split; [|exact Ac]. cbn [fst snd] in *.
  rewrite Hr; [exact Gc| |tauto]. intros ->. apply Hn. change rid with (fst (rid, r)). now apply in_map.
Qed.

Lemma upd_one_AllGood tx col v e ir : col < 2 -> Current e ir -> AllGood e -> AllGood (upd_one tx col v e ir).
Proof.
  intros Hcol Hc [WF [Nh [Nb G]]]. destruct ir as [rid0 r]. split; [exact WF|]. split; [|split].
  - unfold upd_one. cbn [hent]. destruct (existsb (N.eqb col) (hmeta e)); [apply eadd_NoDup, eremove_NoDup, Nh|exact Nh].
  - unfold upd_one. cbn [bent]. destruct (existsb (N.eqb col) (bmeta e)); [apply eadd_NoDup, eremove_NoDup, Nb|exact Nb].
  - now apply upd_one_good.
Qed.
Lemma del_one_AllGood tx e ir : Current e ir -> AllGood e -> AllGood (del_one tx e ir).
Proof.
  intros Hc [WF [Nh [Nb G]]]. destruct ir as [rid0 r]. split; [exact WF|]. split; [|split].
  - unfold del_one. cbn [hent]. now apply (fold_eremove_NoDup (fun c : N => (c, getcol r c, rid0))).
  - unfold del_one. cbn [bent]. now apply (fold_eremove_NoDup (fun c : N => (c, getcol r c, rid0))).
  - now apply del_one_good.
Qed.

Definition wf_op (o : rop) : Prop :=
  match o with RUpdate _ _ col _ => col < 2 | RCreateIndex col => col < 2 | RCreateBtree col => col < 2 | _ => True end.

Lemma with_txs_AllGood e ts lt : AllGood e -> AllGood (with_txs e ts lt).
Proof. intros H. exact H. Qed.

Theorem stmt_AllGood lk e tx o : wf_op o -> AllGood e -> AllGood (fst (stmt lk e tx o)).
Proof.
  intros Hw G. destruct o; cbn [stmt]; try exact G.
  - destruct G as [WF [Nh [Nb G]]]. split; [exact WF|]. split; [|split].
    + unfold do_insert. cbn [fst hent]. now apply (fold_eadd_NoDup (fun col : N => (col, getcol (R true a b) col, N.of_nat (length (rows e)) + 1))).
    + unfold do_insert. cbn [fst bent]. now apply (fold_eadd_NoDup (fun col : N => (col, getcol (R true a b) col, N.of_nat (length (rows e)) + 1))).
    + now apply do_insert_good.
  - cbn in Hw. destruct (do_write_cases e tx c (upd_one tx col v)) as [[o [k [E _]]]|[lt0 [E _]]]; rewrite E; cbn [fst]; [exact G|].
    apply fold_AllGood; auto.
    + intros e0 ir Hc H. now apply upd_one_AllGood.
    + intros. now apply upd_one_rows.
    + apply matching_NoDup.
    + apply matching_nonzero.
    + intros ir Hin. exact (matching_Current e c ir Hin).
  - destruct (do_write_cases e tx c (del_one tx)) as [[o [k [E _]]]|[lt0 [E _]]]; rewrite E; cbn [fst]; [exact G|].
    apply fold_AllGood; auto.
    + intros e0 ir Hc H. now apply del_one_AllGood.
    + intros. now apply del_one_rows.
    + apply matching_NoDup.
    + apply matching_nonzero.
    + intros ir Hin. exact (matching_Current e c ir Hin).
Qed.

Lemma create_index_AllGood e col : col < 2 -> AllGood e ->
  AllGood (E (rows e) (hmeta e ++ [col]) (bmeta e)
             (fold_left (fun l ir => eadd (col, getcol (snd ir) col, fst ir) l) (scan (rows e)) (hent e))
             (bent e) (txs e) (ltab e) (nexttx e) (enow e) (ltmo e)).
Proof.
  intros Hcol [WF [Nh [Nb G]]]. split; [|split; [|split]].
  - intros c Hc. cbn [hmeta bmeta] in Hc. rewrite <- app_assoc in Hc. apply in_app_iff in Hc. destruct Hc as [Hc|Hc].
    + apply WF. apply in_or_app. now left.
    + apply in_app_iff in Hc. destruct Hc as [[<-|[]]|Hc]; [exact Hcol|]. apply WF. apply in_or_app. now right.
  - cbn [hent]. now apply (fold_eadd_NoDup (fun ir : N * row => (col, getcol (snd ir) col, fst ir))).
  - exact Nb.
  - intros rid. specialize (G rid). unfold GoodRow in *. cbn [rows hmeta bmeta hent bent].
    destruct (live (nth_row (rows e) rid)) as [ab|] eqn:L; [|exact G]. destruct G as [G1 [G2 G3]]. split; [|split]; [|exact G2|exact G3].
    intros c Hc. apply (fold_eadd_In' (fun ir : N * row => (col, getcol (snd ir) col, fst ir))).
    apply in_app_iff in Hc. destruct Hc as [Hc|[<-|[]]]; [left; auto|]. right.
    destruct (nth_row (rows e) rid) as [r|] eqn:Gr; [|discriminate]. cbn in L. destruct (alive r) eqn:A; [|discriminate]. injection L as <-.
    exists (rid, r). split; [apply scan_spec; auto|reflexivity].
Qed.

Lemma create_btree_AllGood e col : col < 2 -> ~ In col (bmeta e) -> AllGood e ->
  AllGood (E (rows e) (hmeta e) (bmeta e ++ [col]) (hent e)
             (fold_left (fun l ir => eadd (col, getcol (snd ir) col, fst ir) l) (scan (rows e)) (bent e))
             (txs e) (ltab e) (nexttx e) (enow e) (ltmo e)).
Proof.
  intros Hcol Hnew [WF [Nh [Nb G]]]. split; [|split; [|split]].
  - intros c Hc. cbn [hmeta bmeta] in Hc. rewrite app_assoc in Hc. apply in_app_iff in Hc. destruct Hc as [Hc|[<-|[]]]; [now apply WF|exact Hcol].
  - exact Nh.
  - cbn [bent]. now apply (fold_eadd_NoDup (fun ir : N * row => (col, getcol (snd ir) col, fst ir))).
  - intros rid. specialize (G rid). unfold GoodRow in *. cbn [rows hmeta bmeta hent bent].
    destruct (nth_row (rows e) rid) as [r|] eqn:Gr.
    + cbn [live] in *. destruct (alive r) eqn:A.
      * cbn [fst snd] in *. rewrite (R_eta r A) in *. destruct G as [G1 [G2 G3]]. split; [exact G1|]. split.
        -- intros c Hc. apply (fold_eadd_In' (fun ir : N * row => (col, getcol (snd ir) col, fst ir))).
           apply in_app_iff in Hc. destruct Hc as [Hc|[<-|[]]]; [left; auto|]. right. exists (rid, r). split; [apply scan_spec; auto|reflexivity].
        -- intros c w Hin. apply (fold_eadd_In' (fun ir : N * row => (col, getcol (snd ir) col, fst ir))) in Hin.
           destruct Hin as [Hin|[[rid' r'] [Hs E]]].
           ++ destruct (G3 c w Hin). split; [apply in_or_app; now left|assumption].
           ++ cbn [fst snd] in E. injection E as -> -> <-. apply scan_spec in Hs. destruct Hs as [Hs _]. rewrite Gr in Hs. injection Hs as <-.
              split; [apply in_or_app; right; now left|reflexivity].
      * intros c w Hin. apply (fold_eadd_In' (fun ir : N * row => (col, getcol (snd ir) col, fst ir))) in Hin.
        destruct Hin as [Hin|[[rid' r'] [Hs E]]]; [exact (G c w Hin)|].
        cbn [fst snd] in E. injection E as _ _ <-. apply scan_spec in Hs. destruct Hs as [Hs As]. rewrite Gr in Hs. injection Hs as <-. congruence.
    + cbn [live] in *. intros c w Hin. apply (fold_eadd_In' (fun ir : N * row => (col, getcol (snd ir) col, fst ir))) in Hin.
      destruct Hin as [Hin|[[rid' r'] [Hs E]]]; [exact (G c w Hin)|].
      cbn [fst snd] in E. injection E as _ _ <-. apply scan_spec in Hs. destruct Hs as [Hs _]. congruence.
Qed.

(* ---------------------------------------------------------------- every operation except a rollback *)
Lemma AllGood_data e e' :
  rows e' = rows e -> hmeta e' = hmeta e -> bmeta e' = bmeta e -> hent e' = hent e -> bent e' = bent e -> AllGood e -> AllGood e'.
Proof.
  intros Hr Hh Hb He Hbe [WF [Nh [Nb G]]]. unfold AllGood, WFcols, GoodRow in *. rewrite Hr, Hh, Hb, He, Hbe. auto.
Qed.

Lemma stmt_refused_unchanged lk e tx o : is_ok (snd (stmt lk e tx o)) = false -> fst (stmt lk e tx o) = e.
Proof.
  destruct o; cbn [stmt]; try reflexivity.
  - unfold do_insert. cbn. discriminate.
  - destruct (do_write_cases e tx c (upd_one tx col v)) as [[o [k [E _]]]|[lt0 [E _]]]; rewrite E; cbn; [reflexivity|discriminate].
  - destruct (do_write_cases e tx c (del_one tx)) as [[o [k [E _]]]|[lt0 [E _]]]; rewrite E; cbn; [reflexivity|discriminate].
Qed.

Lemma internal_AllGood lk e o : wf_op o -> AllGood e ->
  AllGood (fst (let '(e0, t) := begin e in let '(e1, ret) := stmt lk e0 t o in
                if is_ok ret then (end_tx e1 t, ret)
                else (fst (do_rollback true e1 t (match aget (txs e1) t with Some l => l | None => [] end)), ret))).
Proof.
  intros Hw G. unfold begin. cbn zeta.
  set (e0 := E (rows e) (hmeta e) (bmeta e) (hent e) (bent e) (aset (txs e) (nexttx e) []) (ltab e) (nexttx e + 1) (enow e) (ltmo e)).
  assert (G0 : AllGood e0) by (apply (AllGood_data e); auto).
  pose proof (stmt_AllGood lk e0 (nexttx e) o Hw G0) as G1.
  pose proof (stmt_refused_unchanged lk e0 (nexttx e) o) as Hu.
  destruct (stmt lk e0 (nexttx e) o) as [e1 ret]. cbn [fst snd] in *.
  destruct (is_ok ret) eqn:Ok; cbn [fst].
  - apply (AllGood_data e1); auto.
  - rewrite (Hu eq_refl). cbn [txs e0]. rewrite aget_aset, N.eqb_refl.
    unfold do_rollback. cbn. apply (AllGood_data e0); auto.
Qed.

(* outside rollbacks every operation keeps every row's index entries complete and exact:
   after any rollback-free history, a query through an index answers exactly like the scan *)
Theorem rstep_AllGood lk e o : wf_op o -> (forall tx, o <> RRollback tx) -> AllGood e -> AllGood (fst (rstep lk true e o)).
Proof.
  intros Hw Hnr G. destruct o; cbn [rstep].
  - apply (AllGood_data e); auto.
  - destruct tx as [t|]; [destruct (aget (txs e) t); [now apply stmt_AllGood|exact G]|now apply internal_AllGood].
  - destruct tx as [t|]; [destruct (aget (txs e) t); [now apply stmt_AllGood|exact G]|now apply internal_AllGood].
  - destruct tx as [t|]; [destruct (aget (txs e) t); [now apply stmt_AllGood|exact G]|now apply internal_AllGood].
  - destruct (aget (txs e) tx); cbn [fst]; [apply (AllGood_data e); auto|exact G].
  - exfalso. exact (Hnr tx eq_refl).
  - cbn in Hw. destruct (existsb (N.eqb col) (hmeta e)); cbn [fst]; [exact G|now apply create_index_AllGood].
  - cbn in Hw. destruct (existsb (N.eqb col) (bmeta e)) eqn:M; cbn [fst]; [exact G|]. apply create_btree_AllGood; auto.
    intros Hin. apply existsb_eqb_In in Hin. congruence.
  - apply (AllGood_data e); auto.
  - destruct (cleanup_expired (enow e) (ltab e)). apply (AllGood_data e); auto.
Qed.

(* ---------------------------------------------------------------- rollback: the undo chain of one row *)
Definition for_row (rid : N) (l : list undo) : list undo := filter (fun u => N.eqb rid (u_rid u)) l.

(* rl = the entries of one row, newest first: each finds the row as its statement left it, and hands the row over
   to the next older entry in the state that entry's statement had produced *)
Fixpoint chain (e0 : eng) (rl : list undo) (cur : option (N * N)) : Prop :=
  match rl with
  | [] => True
  | u :: r => PostOK e0 u cur /\ chain e0 r (pre_of u)
  end.

Lemma PostOK_metas e e0 u cur : hmeta e = hmeta e0 -> bmeta e = bmeta e0 -> PostOK e0 u cur -> PostOK e u cur.
Proof. intros Hh Hb. unfold PostOK. rewrite Hh, Hb. auto. Qed.

Lemma nth_row_exists rs rid : nth_row rs rid <> None <-> rid <> 0 /\ (N.to_nat rid <= length rs)%nat.
Proof.
  unfold nth_row. destruct (N.eqb_spec rid 0) as [->|Hne].
  - split; [congruence|intros [H _]; congruence].
  - rewrite nth_error_Some. split; [intros H; split; [exact Hne|lia]|intros [_ H]; lia].
Qed.

Lemma apply_undo_keeps_slot e u rid : nth_row (rows e) rid <> None -> nth_row (rows (fst (apply_undo true e u))) rid <> None.
Proof.
  rewrite !nth_row_exists. destruct (apply_undo_frame true e u) as [_ [_ [_ [Hl _]]]]. now rewrite Hl.
Qed.

Definition undo_all (us : list undo) (e : eng) : eng :=
  fst (fold_left (fun ae u => let '(e', er) := apply_undo true (fst ae) u in (e', snd ae || er)) us (e, false)).

Lemma undo_all_cons u us e b :
  fst (fold_left (fun ae u => let '(e', er) := apply_undo true (fst ae) u in (e', snd ae || er)) (u :: us) (e, b)) =
  fst (fold_left (fun ae u => let '(e', er) := apply_undo true (fst ae) u in (e', snd ae || er)) us (fst (apply_undo true e u), false)).
Proof.
  cbn [fold_left fst snd]. destruct (apply_undo true e u) as [e1 er]. cbn [fst].
  generalize (b || er) as b1. generalize false as b2. revert e1. induction us as [|u' r IH]; intros e1 b2 b1; [reflexivity|].
  cbn [fold_left fst snd]. destruct (apply_undo true e1 u') as [e2 er2]. apply IH.
Qed.

(* undoing a whole log (entries of all rows interleaved, newest first): row rid ends good if its own entries chain *)
Lemma undo_seq_good e0 rid us : forall e,
  WFcols e -> hmeta e = hmeta e0 -> bmeta e = bmeta e0 -> GoodRow e rid ->
  chain e0 (for_row rid us) (live (nth_row (rows e) rid)) ->
  (for_row rid us <> [] -> nth_row (rows e) rid <> None) ->
  GoodRow (undo_all us e) rid.
Proof.
  induction us as [|u r IH]; intros e WF Hh Hb G Hc Hex; [exact G|].
  unfold undo_all. rewrite undo_all_cons. fold (undo_all r (fst (apply_undo true e u))).
  cbn [for_row filter] in Hc, Hex. fold (for_row rid r) in Hc, Hex.
  destruct (N.eqb_spec rid (u_rid u)) as [E|Hne].
  - (* an entry of this row *)
    cbn [chain] in Hc. destruct Hc as [Hp Hc]. subst rid.
    assert (Hs : nth_row (rows e) (u_rid u) <> None) by (apply Hex; discriminate).
    destruct (undo_own_good e u WF Hs (PostOK_metas e e0 u _ Hh Hb Hp) G) as [G1 [L1 [M1 M2]]].
    apply IH; auto.
    + intros c Hcn. apply WF. now rewrite <- M1, <- M2.
    + congruence.
    + congruence.
    + now rewrite L1.
    + intros _. now apply apply_undo_keeps_slot.
  - (* an entry of another row: this row's view is untouched *)
    destruct (apply_undo_other e u rid) as [R1 [M1 [M2 [T1 T2]]]]; [congruence|].
    apply IH; auto.
    + intros c Hcn. apply WF. now rewrite <- M1, <- M2.
    + congruence.
    + congruence.
    + apply (GoodRow_view e); auto. now rewrite R1.
    + now rewrite R1.
    + intros H. rewrite R1. auto.
Qed.

Lemma for_row_rev rid l : for_row rid (List.rev l) = List.rev (for_row rid l).
Proof.
  unfold for_row. induction l as [|u r IH]; [reflexivity|]. cbn [List.rev filter]. rewrite filter_app, IH. cbn [filter].
  destruct (N.eqb rid (u_rid u)); cbn; [reflexivity|now rewrite app_nil_r].
Qed.
Lemma for_row_app rid a b : for_row rid (a ++ b) = for_row rid a ++ for_row rid b.
Proof. apply filter_app. Qed.

Lemma rollback_is_undo_all e tx l :
  rows (fst (do_rollback true e tx l)) = rows (undo_all (List.rev l) e) /\
  hent (fst (do_rollback true e tx l)) = hent (undo_all (List.rev l) e) /\
  bent (fst (do_rollback true e tx l)) = bent (undo_all (List.rev l) e) /\
  hmeta (fst (do_rollback true e tx l)) = hmeta (undo_all (List.rev l) e) /\
  bmeta (fst (do_rollback true e tx l)) = bmeta (undo_all (List.rev l) e).
Proof.
  unfold do_rollback, undo_all. destruct (fold_left _ (List.rev l) (e, false)) as [e1 err]. cbn. auto.
Qed.

(* ---------------------------------------------------------------- what one statement records for one row *)
Lemma for_row_map (g : N * row -> undo) ms rid :
  NoDup (map fst ms) -> (forall ir, u_rid (g ir) = fst ir) ->
  (forall r, In (rid, r) ms -> for_row rid (map g ms) = [g (rid, r)]) /\
  (~ In rid (map fst ms) -> for_row rid (map g ms) = []).
Proof.
  intros ND Hg. induction ms as [|[rid0 r0] t IH]; [split; [intros r []|reflexivity]|].
  cbn in ND. inversion ND as [|? ? Hn ND']; subst. destruct (IH ND') as [I1 I2].
  cbn [map for_row filter]. rewrite Hg. cbn [fst]. fold (for_row rid (map g t)). split.
  - intros r [[= <- <-]|Hin].
    + rewrite N.eqb_refl. now rewrite I2.
    + destruct (N.eqb_spec rid rid0) as [->|_]; [exfalso; apply Hn; change rid0 with (fst (rid0, r)); now apply in_map|]. now apply I1.
  - intros Hnin. cbn in Hnin. destruct (N.eqb_spec rid rid0) as [Eq|Nq]; [exfalso; apply Hnin; left; congruence|]. apply I2. intros H. apply Hnin. now right.
Qed.

Lemma stmt_entry_row lk e tx o l rid : wf_op o -> aget (txs e) tx = Some l ->
  let e' := fst (stmt lk e tx o) in
  exists d, aget (txs e') tx = Some (l ++ d) /\ hmeta e' = hmeta e /\ bmeta e' = bmeta e /\
    ((for_row rid d = [] /\ live (nth_row (rows e') rid) = live (nth_row (rows e) rid) /\
      (nth_row (rows e) rid <> None -> nth_row (rows e') rid <> None))
     \/ (exists u, for_row rid d = [u] /\ PostOK e u (live (nth_row (rows e') rid)) /\
                   pre_of u = live (nth_row (rows e) rid) /\ nth_row (rows e') rid <> None)).
Proof.
  intros Hw Hl. cbv zeta.
  assert (Triv : exists d, aget (txs e) tx = Some (l ++ d) /\ hmeta e = hmeta e /\ bmeta e = bmeta e /\
             ((for_row rid d = [] /\ live (nth_row (rows e) rid) = live (nth_row (rows e) rid) /\
               (nth_row (rows e) rid <> None -> nth_row (rows e) rid <> None)) \/
              (exists u, for_row rid d = [u] /\ PostOK e u (live (nth_row (rows e) rid)) /\
                         pre_of u = live (nth_row (rows e) rid) /\ nth_row (rows e) rid <> None))).
  { exists []. rewrite app_nil_r. split; [exact Hl|]. split; [reflexivity|]. split; [reflexivity|]. left. split; [reflexivity|]. split; [reflexivity|auto]. }
  destruct o; cbn [stmt]; try exact Triv.
  - (* insert *)
    unfold do_insert. cbn [fst]. set (rid0 := N.of_nat (length (rows e)) + 1). set (r := R true a b).
    exists [UIns rid0 (map (fun col => (col, getcol r col)) (hmeta e ++ bmeta e))]. cbn [txs rows hmeta bmeta].
    split; [rewrite push_undo_get, Hl, N.eqb_refl; reflexivity|]. split; [reflexivity|]. split; [reflexivity|].
    assert (Gn : nth_row (rows e ++ [r]) rid0 = Some r).
    { unfold nth_row, rid0. destruct (N.eqb_spec (N.of_nat (length (rows e)) + 1) 0); [lia|].
      rewrite nth_error_app2 by lia. replace (N.to_nat (N.of_nat (length (rows e)) + 1 - 1) - length (rows e))%nat with 0%nat by lia. reflexivity. }
    cbn [for_row filter u_rid]. destruct (N.eqb_spec rid rid0) as [->|Hne].
    + right. eexists. split; [reflexivity|]. rewrite Gn. cbn [live alive r va vb]. split; [|split].
      * exists a, b. split; reflexivity.
      * cbn [pre_of]. assert (G0 : nth_row (rows e) rid0 = None) by (unfold nth_row, rid0; destruct (N.eqb_spec (N.of_nat (length (rows e)) + 1) 0); [reflexivity|]; apply nth_error_None; lia).
        now rewrite G0.
      * discriminate.
    + left. rewrite nth_row_app_other by exact Hne. repeat split; auto.
  - (* update *)
    cbn in Hw. destruct (do_write_cases e tx c (upd_one tx col v)) as [[o [k [E _]]]|[lt0 [E _]]]; rewrite E; cbn [fst]; [exact Triv|].
    set (e0 := with_txs e (txs e) lt0).
    assert (Hc : forall ir, In ir (matching e c) -> Current e0 ir) by (intros ir H; exact (matching_Current e c ir H)).
    destruct (fold_upd tx col v (matching e c) e0 l (matching_NoDup e c) Hc Hl) as [Ht [Hr Ho]].
    destruct (fold_frame (upd_one tx col v) (matching e c) (upd_one_Frame tx col v) e0) as [_ [_ [_ [_ [Fh [Fb _]]]]]].
    exists (map (mk_upd e0 col v) (matching e c)). split; [exact Ht|]. split; [exact Fh|]. split; [exact Fb|].
    destruct (for_row_map (mk_upd e0 col v) (matching e c) rid (matching_NoDup e c) (fun ir => eq_refl)) as [F1 F2].
    destruct (in_dec N.eq_dec rid (map fst (matching e c))) as [Hin|Hnin].
    + apply in_map_iff in Hin. destruct Hin as [[rid' r] [E' Hin]]. cbn in E'. subst rid'.
      destruct (matching_Current e c _ Hin) as [G A]. cbn [fst snd] in G, A.
      right. exists (mk_upd e0 col v (rid, r)). split; [now apply F1|]. rewrite (Hr rid r Hin). split; [|split].
      * cbn [mk_upd PostOK fst snd]. exists col, v. split; [exact Hw|]. rewrite (R_eta r A). split; [|reflexivity].
        cbn [live]. now rewrite setcol_alive, A.
      * cbn [mk_upd pre_of fst snd]. rewrite G. cbn. now rewrite A.
      * discriminate.
    + left. split; [now apply F2|]. rewrite (Ho rid Hnin). split; [reflexivity|auto].
  - (* delete *)
    destruct (do_write_cases e tx c (del_one tx)) as [[o [k [E _]]]|[lt0 [E _]]]; rewrite E; cbn [fst]; [exact Triv|].
    set (e0 := with_txs e (txs e) lt0).
    assert (Hc : forall ir, In ir (matching e c) -> Current e0 ir) by (intros ir H; exact (matching_Current e c ir H)).
    destruct (fold_del tx (matching e c) e0 l (matching_NoDup e c) Hc Hl) as [Ht [Hr Ho]].
    destruct (fold_frame (del_one tx) (matching e c) (del_one_Frame tx) e0) as [_ [_ [_ [_ [Fh [Fb _]]]]]].
    exists (map (mk_del e0) (matching e c)). split; [exact Ht|]. split; [exact Fh|]. split; [exact Fb|].
    destruct (for_row_map (mk_del e0) (matching e c) rid (matching_NoDup e c) (fun ir => eq_refl)) as [F1 F2].
    destruct (in_dec N.eq_dec rid (map fst (matching e c))) as [Hin|Hnin].
    + apply in_map_iff in Hin. destruct Hin as [[rid' r] [E' Hin]]. cbn in E'. subst rid'.
      destruct (matching_Current e c _ Hin) as [G A]. cbn [fst snd] in G, A.
      right. exists (mk_del e0 (rid, r)). split; [now apply F1|]. rewrite (Hr rid r Hin). split; [|split].
      * cbn [mk_del PostOK fst snd live alive]. split; reflexivity.
      * cbn [mk_del pre_of fst snd]. rewrite G. cbn. now rewrite A.
      * discriminate.
    + left. split; [now apply F2|]. rewrite (Ho rid Hnin). split; [reflexivity|auto].
Qed.

(* ---------------------------------------------------------------- histories: rollback keeps the row's index entries *)
Section HistIdx.
Variable lk : bool.

(* as Hist (Proofs.v), plus what the index argument needs from the foreign steps: they keep the index metadata
   (no create_index / create_btree_index while tx has uncommitted changes -- the known class ddl-in-open-tx)
   and keep every row's index entries good (any real operation other than a rollback does: rstep_AllGood) *)
Inductive HistI (tx rid : N) : eng -> eng -> Prop :=
| HI0 e : HistI tx rid e e
| HIown e o e2 : wf_op o -> HistI tx rid (fst (stmt lk e tx o)) e2 -> HistI tx rid e e2
| HIother e e1 e2 :
    aget (txs e1) tx = aget (txs e) tx ->
    live (nth_row (rows e1) rid) = live (nth_row (rows e) rid) ->
    (nth_row (rows e) rid <> None -> nth_row (rows e1) rid <> None) ->
    hmeta e1 = hmeta e -> bmeta e1 = bmeta e -> (AllGood e -> AllGood e1) ->
    HistI tx rid e1 e2 -> HistI tx rid e e2.

Lemma hist_chain tx rid e0 e : HistI tx rid e0 e -> forall l0, aget (txs e0) tx = Some l0 -> AllGood e0 ->
  exists d, aget (txs e) tx = Some (l0 ++ d) /\ AllGood e /\ hmeta e = hmeta e0 /\ bmeta e = bmeta e0 /\
            (forall cur0, live (nth_row (rows e0) rid) = cur0 -> forall tail, chain e0 tail cur0 ->
               chain e0 (List.rev (for_row rid d) ++ tail) (live (nth_row (rows e) rid))) /\
            ((for_row rid d <> [] \/ nth_row (rows e0) rid <> None) -> nth_row (rows e) rid <> None).
Proof.
  induction 1 as [e|e o e2 Hw H IH|e e1 e2 Ht Hlv Hs Hh Hb Hg H IH]; intros l0 Hl G0.
  - exists []. split; [now rewrite app_nil_r|]. split; [exact G0|]. split; [reflexivity|]. split; [reflexivity|]. split.
    + intros cur0 <- tail Hc. exact Hc.
    + intros [H|H]; [exfalso; apply H; reflexivity|exact H].
  - destruct (stmt_entry_row lk e tx o l0 rid Hw Hl) as [d1 [Ht1 [Mh [Mb Hcase]]]].
    pose proof (stmt_AllGood lk e tx o Hw G0) as G1.
    destruct (IH _ Ht1 G1) as [d2 [Ht2 [G2 [Mh2 [Mb2 [Hc2 Hx2]]]]]].
    exists (d1 ++ d2). split; [now rewrite app_assoc|]. split; [exact G2|]. split; [congruence|]. split; [congruence|]. split.
    + intros cur0 Hcur tail Hc. rewrite for_row_app, rev_app_distr, <- app_assoc.
      destruct Hcase as [[F1 [L1 _]]|[u [F1 [P1 [Pre1 _]]]]]; rewrite F1; cbn [List.rev app].
      * (* nothing recorded for this row: pass through *)
        assert (Hc' : chain (fst (stmt lk e tx o)) tail (live (nth_row (rows (fst (stmt lk e tx o))) rid))).
        { rewrite L1, Hcur. clear -Hc Mh Mb. revert cur0 Hc. induction tail as [|u r IHt]; intros cur0 Hc; [exact I|].
          cbn [chain] in *. destruct Hc as [P C]. split; [now apply (PostOK_metas _ e)|now apply IHt]. }
        specialize (Hc2 _ eq_refl tail Hc').
        clear -Hc2 Mh Mb. revert Hc2. generalize (live (nth_row (rows e2) rid)) as c. generalize (List.rev (for_row rid d2) ++ tail) as rl.
        induction rl as [|u r IHr]; intros c Hc; [exact I|]. cbn [chain] in *. destruct Hc as [P C].
        split; [apply (PostOK_metas _ (fst (stmt lk e tx o))); auto|now apply IHr].
      * (* one entry for this row: it chains onto the older ones *)
        assert (Hc' : chain (fst (stmt lk e tx o)) (u :: tail) (live (nth_row (rows (fst (stmt lk e tx o))) rid))).
        { cbn [chain]. split; [apply (PostOK_metas _ e); auto|].
          rewrite Pre1, Hcur. clear -Hc Mh Mb. revert cur0 Hc. induction tail as [|u' r IHt]; intros cur0 Hc; [exact I|].
          cbn [chain] in *. destruct Hc as [P C]. split; [now apply (PostOK_metas _ e)|now apply IHt]. }
        specialize (Hc2 _ eq_refl (u :: tail) Hc').
        clear -Hc2 Mh Mb. revert Hc2. generalize (live (nth_row (rows e2) rid)) as c. generalize (List.rev (for_row rid d2) ++ u :: tail) as rl.
        induction rl as [|u' r IHr]; intros c Hc; [exact I|]. cbn [chain] in *. destruct Hc as [P C].
        split; [apply (PostOK_metas _ (fst (stmt lk e tx o))); auto|now apply IHr].
    + intros Hor. apply Hx2. rewrite for_row_app in Hor.
      destruct Hcase as [[F1 [_ S1]]|[u [F1 [_ [_ S1]]]]]; rewrite F1 in Hor; cbn [app] in Hor.
      * destruct Hor as [Hor|Hor]; [now left|right; now apply S1].
      * now right.
  - rewrite <- Ht in Hl. destruct (IH _ Hl (Hg G0)) as [d [Ht2 [G2 [Mh2 [Mb2 [Hc2 Hx2]]]]]].
    exists d. split; [exact Ht2|]. split; [exact G2|]. split; [congruence|]. split; [congruence|]. split.
    + intros cur0 Hcur tail Hc.
      assert (Hc' : chain e1 tail (live (nth_row (rows e1) rid))).
      { rewrite Hlv, Hcur. clear -Hc Hh Hb. revert cur0 Hc. induction tail as [|u r IHt]; intros cur0 Hc; [exact I|].
        cbn [chain] in *. destruct Hc as [P C]. split; [now apply (PostOK_metas _ e)|now apply IHt]. }
      specialize (Hc2 _ eq_refl tail Hc').
      clear -Hc2 Hh Hb. revert Hc2. generalize (live (nth_row (rows e2) rid)) as c. generalize (List.rev (for_row rid d) ++ tail) as rl.
      induction rl as [|u r IHr]; intros c Hc; [exact I|]. cbn [chain] in *. destruct Hc as [P C].
      split; [apply (PostOK_metas _ e1); auto|now apply IHr].
    + intros [Hor|Hor]; apply Hx2; [now left|right; auto].
Qed.

(* ROLLBACK AND THE INDEXES, row by row: if tx had just begun at e0 (empty log) and the history to e is as above,
   then after rolling tx back the index entries of row rid are complete and exact again for the restored row *)
Theorem rollback_keeps_row_indexes tx rid e0 e : HistI tx rid e0 e -> aget (txs e0) tx = Some [] -> AllGood e0 ->
  exists l, aget (txs e) tx = Some l /\ GoodRow (fst (do_rollback true e tx l)) rid.
Proof.
  intros H Hl G0. destruct (hist_chain tx rid e0 e H [] Hl G0) as [d [Ht [[WF [Nh [Nb G]]] [Mh [Mb [Hc Hx]]]]]]. cbn [app] in Ht.
  exists d. split; [exact Ht|].
  destruct (rollback_is_undo_all e tx d) as [R1 [R2 [R3 [R4 R5]]]].
  assert (Gu : GoodRow (undo_all (List.rev d) e) rid).
  { apply (undo_seq_good e0 rid (List.rev d) e WF Mh Mb (G rid)).
    - rewrite for_row_rev. specialize (Hc _ eq_refl [] I). now rewrite app_nil_r in Hc.
    - intros Hne. apply Hx. left. rewrite for_row_rev in Hne. intros E. apply Hne. now rewrite E. }
  apply (GoodRow_view (undo_all (List.rev d) e)); auto.
  - now rewrite R1.
  - intros c v. now rewrite R2.
  - intros c v. now rewrite R3.
Qed.
End HistIdx.

(* ---------------------------------------------------------------- the whole table after a rollback *)
Lemma fold_NoDup {A} (f : list ent -> A -> list ent) xs :
  (forall l x, NoDup l -> NoDup (f l x)) -> forall l, NoDup l -> NoDup (fold_left f xs l).
Proof. intros Hf. induction xs as [|x r IH]; intros l H; cbn; [exact H|]. apply IH, Hf, H. Qed.

Lemma apply_undo_NoDup e u : NoDup (hent e) -> NoDup (bent e) ->
  NoDup (hent (fst (apply_undo true e u))) /\ NoDup (bent (fst (apply_undo true e u))).
Proof.
  intros Nh Nb. destruct u as [r0 ents|r0 oa ob chg|r0 oa ob ents]; cbn [apply_undo];
    (destruct (nth_row (rows e) r0) as [cur|]; [destruct (alive cur)|]); cbn [fst hent bent with_idx];
    split; apply fold_NoDup; auto; intros l x Hl; unfold badd_guarded;
    repeat match goal with |- context [if ?c then _ else _] => destruct c end;
    auto using eadd_NoDup, eremove_NoDup.
Qed.

Lemma undo_all_NoDup us : forall e, NoDup (hent e) -> NoDup (bent e) -> NoDup (hent (undo_all us e)) /\ NoDup (bent (undo_all us e)).
Proof.
  induction us as [|u r IH]; intros e Nh Nb; [split; assumption|].
  unfold undo_all. rewrite undo_all_cons. fold (undo_all r (fst (apply_undo true e u))).
  destruct (apply_undo_NoDup e u Nh Nb). now apply IH.
Qed.

Lemma undo_all_metas us : forall e, hmeta (undo_all us e) = hmeta e /\ bmeta (undo_all us e) = bmeta e.
Proof.
  induction us as [|u r IH]; intros e; [split; reflexivity|].
  unfold undo_all. rewrite undo_all_cons. fold (undo_all r (fst (apply_undo true e u))).
  destruct (IH (fst (apply_undo true e u))) as [A B]. destruct (apply_undo_frame true e u) as [_ [_ [_ [_ [_ [Fh [Fb _]]]]]]].
  split; congruence.
Qed.

(* if the history is good for EVERY row, the whole engine is good after the rollback: every query through an index
   answers exactly like the scan *)
Theorem rollback_keeps_all_indexes lk tx e0 e : (forall rid, HistI lk tx rid e0 e) -> aget (txs e0) tx = Some [] -> AllGood e0 ->
  exists l, aget (txs e) tx = Some l /\ AllGood (fst (do_rollback true e tx l)).
Proof.
  intros H Hl G0.
  destruct (hist_chain lk tx 0 e0 e (H 0) [] Hl G0) as [d [Ht [[WF [Nh [Nb G]]] _]]]. cbn [app] in Ht.
  exists d. split; [exact Ht|].
  destruct (rollback_is_undo_all e tx d) as [R1 [R2 [R3 [R4 R5]]]].
  destruct (undo_all_NoDup (List.rev d) e Nh Nb) as [Nh' Nb']. destruct (undo_all_metas (List.rev d) e) as [Mh' Mb'].
  split; [|split; [|split]].
  - intros c Hc. apply WF. now rewrite R4, R5, Mh', Mb' in Hc.
  - now rewrite R2.
  - now rewrite R3.
  - intros rid. destruct (rollback_keeps_row_indexes lk tx rid e0 e (H rid) Hl G0) as [d' [Ht' Gr]].
    rewrite Ht in Ht'. injection Ht' as <-. exact Gr.
Qed.
