(* C09/Inst.v -- PER-RUN OBLIGATION over gen/Gen_C09.v *)
From NV.Common Require Import Base.
From NV.gen Require Import Gen_C09.

Lemma gen_c09_spec :
  gen_insert_locks_row = true /\ gen_locks_before_changes = true /\ gen_undo_before_change = true /\
  gen_rollback_reverse = true /\ gen_phase_checked = true /\ gen_undo_btree_guarded = true /\
  gen_undo_captures_id = true /\ gen_sweep_keeps_other_locks = true /\ gen_undo_bypasses_budget = true.
Proof. repeat split; reflexivity. Qed.
