(* C09/Model.v -- executable model of relational transactions:
     relational_engine/src/lib.rs   begin_transaction, tx_insert/tx_update/tx_delete, commit, rollback,
                                    apply_undo_entry, insert/update/delete_rows (internal transaction),
                                    create_index / create_btree_index, select (index path with re-check / scan)
     relational_engine/src/transaction.rs  TransactionManager, RowLockManager (= Common/LockTable, handle 0)
   One table with two Int columns (0 = a, 1 = b).  DEFINITIONS ONLY.  Time is the explicit `enow`. *)
From NV.Common Require Import Base LockTable.
Open Scope N_scope.

(* slab row: append-only, row id = position + 1, deleted rows keep their slot (alive bit) *)
Record row := R { alive : bool; va : N; vb : N }.
Definition getcol (r : row) (col : N) : N := if N.eqb col 0 then va r else vb r.
Definition setcol (r : row) (col v : N) : row := if N.eqb col 0 then R (alive r) v (vb r) else R (alive r) (va r) v.

Inductive cond := CTrue | CEq (col v : N) | CLt (col v : N) | CGe (col v : N) | CAnd (a b : cond).
Fixpoint evalc (c : cond) (r : row) : bool :=
  match c with
  | CTrue => true
  | CEq col v => N.eqb (getcol r col) v
  | CLt col v => N.ltb (getcol r col) v
  | CGe col v => N.leb v (getcol r col)
  | CAnd a b => evalc a r && evalc b r
  end.

(* index entries (column, value, row id); set semantics (index_add checks `contains`, index_remove retains) *)
Definition ent := (N * N * N)%type.
Definition ent_eqb (x y : ent) : bool :=
  N.eqb (fst (fst x)) (fst (fst y)) && N.eqb (snd (fst x)) (snd (fst y)) && N.eqb (snd x) (snd y).
Definition eadd (e : ent) (l : list ent) : list ent := if existsb (ent_eqb e) l then l else l ++ [e].
Definition eremove (e : ent) (l : list ent) : list ent := filter (fun y => negb (ent_eqb e y)) l.

(* UndoEntry::{InsertedRow, UpdatedRow, DeletedRow} *)
Inductive undo :=
| UIns (rid : N) (ents : list (N * N))
| UUpd (rid : N) (oa ob : N) (chg : list (N * N * N))     (* (column, old, new) *)
| UDel (rid : N) (oa ob : N) (ents : list (N * N)).

Record eng := E {
  rows : list row;
  hmeta : list N; bmeta : list N;          (* columns with a hash / B-tree index (in creation order) *)
  hent : list ent; bent : list ent;        (* entries, kept whether or not the index exists (undo writes both kinds) *)
  txs : list (N * list undo);              (* active transactions, undo log in push order *)
  ltab : table;                            (* row locks: key = row id, handle 0 *)
  nexttx : N; enow : N; ltmo : N
}.
Definition einit (ltmo0 : N) : eng := E [] [] [] [] [] [] empty 1 1000 ltmo0.

Definition nth_row (rs : list row) (rid : N) : option row := if N.eqb rid 0 then None else nth_error rs (N.to_nat (rid - 1)).
Fixpoint set_nth {A} (l : list A) (i : nat) (x : A) : list A :=
  match l, i with
  | [], _ => []
  | _ :: t, O => x :: t
  | h :: t, Datatypes.S j => h :: set_nth t j x
  end.
Definition set_row (rs : list row) (rid : N) (r : row) : list row := set_nth rs (N.to_nat (rid - 1)) r.

(* (row id, row) of every live row, in slab order *)
Fixpoint scan_from (rs : list row) (rid : N) : list (N * row) :=
  match rs with
  | [] => []
  | r :: t => if alive r then (rid, r) :: scan_from t (N.succ rid) else scan_from t (N.succ rid)
  end.
Definition scan (rs : list row) : list (N * row) := scan_from rs 1.
Definition matching (e : eng) (c : cond) : list (N * row) := filter (fun ir => evalc c (snd ir)) (scan (rows e)).

Definition with_idx (e : eng) rows' hent' bent' : eng :=
  E rows' (hmeta e) (bmeta e) hent' bent' (txs e) (ltab e) (nexttx e) (enow e) (ltmo e).
Definition with_txs (e : eng) txs' ltab' : eng :=
  E (rows e) (hmeta e) (bmeta e) (hent e) (bent e) txs' ltab' (nexttx e) (enow e) (ltmo e).

Definition push_undo (ts : list (N * list undo)) (tx : N) (u : undo) : list (N * list undo) :=
  match aget ts tx with Some l => aset ts tx (l ++ [u]) | None => ts end.

(* --- statements inside transaction tx (the caller has checked that tx is active) --- *)

(* tx_insert: append the row, add it to every existing index, record the undo entry.
   lock_new = the inserted row is locked by the inserting transaction (regenerated from the source) *)
Definition do_insert (lock_new : bool) (e : eng) (tx a b : N) : eng * N :=
  let rid := N.of_nat (length (rows e)) + 1 in
  let r := R true a b in
  let hent' := fold_left (fun l col => eadd (col, getcol r col, rid) l) (hmeta e) (hent e) in
  let bent' := fold_left (fun l col => eadd (col, getcol r col, rid) l) (bmeta e) (bent e) in
  let ents := map (fun col => (col, getcol r col)) (hmeta e ++ bmeta e) in
  let lt := if lock_new then fst (try_lock (enow e) tx 0 (ltmo e) [rid] (ltab e)) else ltab e in
  (E (rows e ++ [r]) (hmeta e) (bmeta e) hent' bent' (push_undo (txs e) tx (UIns rid ents)) lt (nexttx e) (enow e) (ltmo e), rid).

Definition upd_one (tx col v : N) (e : eng) (ir : N * row) : eng :=
  let '(rid, r) := ir in
  let old := getcol r col in
  let chg := map (fun c => (c, old, v)) (filter (N.eqb col) (hmeta e ++ bmeta e)) in
  let hent' := if existsb (N.eqb col) (hmeta e) then eadd (col, v, rid) (eremove (col, old, rid) (hent e)) else hent e in
  let bent' := if existsb (N.eqb col) (bmeta e) then eadd (col, v, rid) (eremove (col, old, rid) (bent e)) else bent e in
  (* update_row: the slab updates the slot only if it is still alive *)
  let rows' := match nth_row (rows e) rid with
               | Some cur => if alive cur then set_row (rows e) rid (setcol cur col v) else rows e
               | None => rows e end in
  E rows' (hmeta e) (bmeta e) hent' bent' (push_undo (txs e) tx (UUpd rid (va r) (vb r) chg)) (ltab e) (nexttx e) (enow e) (ltmo e).

Definition del_one (tx : N) (e : eng) (ir : N * row) : eng :=
  let '(rid, r) := ir in
  let ents := map (fun c => (c, getcol r c)) (hmeta e ++ bmeta e) in
  let hent' := fold_left (fun l c => eremove (c, getcol r c, rid) l) (hmeta e) (hent e) in
  let bent' := fold_left (fun l c => eremove (c, getcol r c, rid) l) (bmeta e) (bent e) in
  let rows' := match nth_row (rows e) rid with
               | Some cur => set_row (rows e) rid (R false (va cur) (vb cur))
               | None => rows e end in
  E rows' (hmeta e) (bmeta e) hent' bent' (push_undo (txs e) tx (UDel rid (va r) (vb r) ents)) (ltab e) (nexttx e) (enow e) (ltmo e).

(* scan, lock ALL matching rows (or fail with the first conflict), then change them one by one.
   result: inl count | inr (blocking tx, row) *)
Definition do_write (e : eng) (tx : N) (c : cond) (f : eng -> N * row -> eng) : eng * (N + N * N) :=
  let ms := matching e c in
  let keys := map fst ms in
  match first_conflict (enow e) tx keys (locks (ltab e)) with
  | Some o =>
      let k := hd 0 (filter (fun k => match blocks (enow e) tx (locks (ltab e)) k with Some _ => true | None => false end) keys) in
      (e, inr (o, k))
  | None =>
      let lt := match keys with [] => ltab e | _ => acquire (enow e) tx 0 (ltmo e) keys (ltab e) end in
      (fold_left f ms (with_txs e (txs e) lt), inl (N.of_nat (length ms)))
  end.

(* --- rollback --- *)
(* apply_undo_entry; the bool says whether the slab operation failed (collected, rollback continues).
   gb = the undo only ADDS B-tree entries for columns that have a B-tree index (regenerated from the source);
   hash entries are written unconditionally (harmless: an Eq lookup reads a single value bucket and re-checks). *)
Definition badd_guarded (gb : bool) (e : eng) (c v rid : N) (l : list ent) : list ent :=
  if gb && negb (existsb (N.eqb c) (bmeta e)) then l else eadd (c, v, rid) l.

Definition apply_undo (gb : bool) (e : eng) (u : undo) : eng * bool :=
  match u with
  | UIns rid ents =>
      let '(rows', err) := match nth_row (rows e) rid with
                           | Some cur => if alive cur then (set_row (rows e) rid (R false (va cur) (vb cur)), false) else (rows e, false)
                           | None => (rows e, false) end in   (* slab.delete answers Ok(false) for a dead / unknown slot *)
      (with_idx e rows'
         (fold_left (fun l cv => eremove (fst cv, snd cv, rid) l) ents (hent e))
         (fold_left (fun l cv => eremove (fst cv, snd cv, rid) l) ents (bent e)), err)
  | UUpd rid oa ob chg =>
      let '(rows', err) := match nth_row (rows e) rid with
                           | Some cur => if alive cur then (set_row (rows e) rid (R true oa ob), false) else (rows e, true)
                           | None => (rows e, true) end in
      (with_idx e rows'
         (fold_left (fun l c => eadd (fst (fst c), snd (fst c), rid) (eremove (fst (fst c), snd c, rid) l)) chg (hent e))
         (fold_left (fun l c => badd_guarded gb e (fst (fst c)) (snd (fst c)) rid (eremove (fst (fst c), snd c, rid) l)) chg (bent e)), err)
  | UDel rid oa ob ents =>
      let '(rows', err) := match nth_row (rows e) rid with
                           | Some cur => if alive cur then (rows e, true) else (set_row (rows e) rid (R true oa ob), false)
                           | None => (rows e, true) end in
      (with_idx e rows'
         (fold_left (fun l cv => eadd (fst cv, snd cv, rid) l) ents (hent e))
         (fold_left (fun l cv => badd_guarded gb e (fst cv) (snd cv) rid l) ents (bent e)), err)
  end.

Definition end_tx (e : eng) (tx : N) : eng := with_txs e (adel (txs e) tx) (release tx (ltab e)).

(* rollback: undo entries in reverse order, then ALWAYS release and remove; returns whether any undo failed *)
Definition do_rollback (gb : bool) (e : eng) (tx : N) (log : list undo) : eng * bool :=
  let '(e1, err) := fold_left (fun ae u => let '(e', er) := apply_undo gb (fst ae) u in (e', snd ae || er)) (List.rev log) (e, false) in
  (end_tx e1 tx, err).

(* --- operations --- *)
Inductive rop :=
| RBegin
| RInsert (tx : option N) (a b : N)              (* None = engine.insert: internal transaction *)
| RUpdate (tx : option N) (c : cond) (col v : N) (* None = engine.update: internal transaction, commit or rollback *)
| RDelete (tx : option N) (c : cond)
| RCommit (tx : N)
| RRollback (tx : N)
| RCreateIndex (col : N)
| RCreateBtree (col : N)
| RAdvance (d : N)
| RCleanupLocks.

(* return codes: [0; x] Ok(x) / [0] Ok, [1] TransactionNotFound, [3] RollbackFailed,
   [4; blocking; row] LockConflict, [5] IndexAlreadyExists *)
Section Step.
Variables lock_new gb : bool.

Definition stmt (e : eng) (tx : N) (o : rop) : eng * list N :=
  match o with
  | RInsert _ a b => let '(e', rid) := do_insert lock_new e tx a b in (e', [0; rid])
  | RUpdate _ c col v =>
      match do_write e tx c (upd_one tx col v) with
      | (e', inl n) => (e', [0; n])
      | (e', inr (o, k)) => (e', [4; o; k])
      end
  | RDelete _ c =>
      match do_write e tx c (del_one tx) with
      | (e', inl n) => (e', [0; n])
      | (e', inr (o, k)) => (e', [4; o; k])
      end
  | _ => (e, [])
  end.

Definition begin (e : eng) : eng * N :=
  (E (rows e) (hmeta e) (bmeta e) (hent e) (bent e) (aset (txs e) (nexttx e) []) (ltab e) (nexttx e + 1) (enow e) (ltmo e), nexttx e).

Definition is_ok (ret : list N) : bool := match ret with 0 :: _ => true | _ => false end.

Definition rstep (e : eng) (o : rop) : eng * list N :=
  match o with
  | RBegin => let '(e', tx) := begin e in (e', [tx])
  | RInsert (Some tx) _ _ | RUpdate (Some tx) _ _ _ | RDelete (Some tx) _ =>
      match aget (txs e) tx with
      | Some _ => stmt e tx o
      | None => (e, [1])
      end
  | RInsert None _ _ | RUpdate None _ _ _ | RDelete None _ =>
      (* engine.insert / update / delete_rows: internal transaction, commit on success, rollback on error *)
      let '(e0, tx) := begin e in
      let '(e1, ret) := stmt e0 tx o in
      if is_ok ret then (end_tx e1 tx, ret)
      else let log := match aget (txs e1) tx with Some l => l | None => [] end in
           (fst (do_rollback gb e1 tx log), ret)
  | RCommit tx =>
      match aget (txs e) tx with
      | Some _ => (end_tx e tx, [0])
      | None => (e, [1])
      end
  | RRollback tx =>
      match aget (txs e) tx with
      | Some log => let '(e', err) := do_rollback gb e tx log in (e', [if err then 3 else 0])
      | None => (e, [1])
      end
  | RCreateIndex col =>
      if existsb (N.eqb col) (hmeta e) then (e, [5])
      else (E (rows e) (hmeta e ++ [col]) (bmeta e)
              (fold_left (fun l ir => eadd (col, getcol (snd ir) col, fst ir) l) (scan (rows e)) (hent e))
              (bent e) (txs e) (ltab e) (nexttx e) (enow e) (ltmo e), [0])
  | RCreateBtree col =>
      if existsb (N.eqb col) (bmeta e) then (e, [5])
      else (E (rows e) (hmeta e) (bmeta e ++ [col]) (hent e)
              (fold_left (fun l ir => eadd (col, getcol (snd ir) col, fst ir) l) (scan (rows e)) (bent e))
              (txs e) (ltab e) (nexttx e) (enow e) (ltmo e), [0])
  | RAdvance d => (E (rows e) (hmeta e) (bmeta e) (hent e) (bent e) (txs e) (ltab e) (nexttx e) (enow e + d) (ltmo e), [])
  | RCleanupLocks => let '(t', n) := cleanup_expired (enow e) (ltab e) in (with_txs e (txs e) t', [n])
  end.

Definition rrun (e : eng) (ops : list rop) : eng := fold_left (fun e o => fst (rstep e o)) ops e.
End Step.

(* --- select --- *)
(* try_index_lookup: Eq through a hash index, Lt/Ge through a B-tree index, And = first side that has one *)
Fixpoint candidates (e : eng) (c : cond) : option (list N) :=
  match c with
  | CEq col v => if existsb (N.eqb col) (hmeta e)
                 then Some (map snd (filter (fun x => N.eqb (fst (fst x)) col && N.eqb (snd (fst x)) v) (hent e))) else None
  | CLt col v => if existsb (N.eqb col) (bmeta e)
                 then Some (map snd (filter (fun x => N.eqb (fst (fst x)) col && N.ltb (snd (fst x)) v) (bent e))) else None
  | CGe col v => if existsb (N.eqb col) (bmeta e)
                 then Some (map snd (filter (fun x => N.eqb (fst (fst x)) col && N.leb v (snd (fst x))) (bent e))) else None
  | CAnd a b => match candidates e a with Some l => Some l | None => candidates e b end
  | CTrue => None
  end.

Fixpoint insert_sorted (x : N) (l : list N) : list N :=
  match l with [] => [x] | y :: r => if N.leb x y then x :: l else y :: insert_sorted x r end.
Definition sortN (l : list N) : list N := fold_right insert_sorted [] l.

Definition row_ok (e : eng) (c : cond) (rid : N) : bool :=
  match nth_row (rows e) rid with Some r => alive r && evalc c r | None => false end.

(* select: ids of the answer.  Index path: every candidate id (one per index bucket that lists it, so a row that
   sits in two B-tree buckets of the range is fetched twice) is fetched, re-checked on the live row, sorted by id *)
Definition select_ids (e : eng) (c : cond) : list N :=
  match candidates e c with
  | Some ids => sortN (filter (row_ok e c) ids)
  | None => map fst (matching e c)
  end.
