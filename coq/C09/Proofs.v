From NV.Common Require Import Base LockTable LockTableFacts.
From NV.C09 Require Import Model.
Open Scope N_scope.
