(* C09/Proofs.v -- theorems about the relational transaction model, for all statement sequences. *)
From Coq Require Import Permutation Sorted.
From NV.Common Require Import Base LockTable LockTableFacts.
From NV.C09 Require Import Model.
Open Scope N_scope.
Arguments N.add : simpl never.
Arguments N.sub : simpl never.
Arguments N.eqb : simpl never.
Arguments N.ltb : simpl never.
Arguments N.leb : simpl never.

(* ================================================================== 0. frame facts: which fields a step touches *)
Lemma push_undo_get ts tx u tx' :
  aget (push_undo ts tx u) tx' = match aget ts tx' with
                                 | Some l => if N.eqb tx tx' then Some (l ++ [u]) else Some l
                                 | None => None end.
Proof.
  unfold push_undo. destruct (aget ts tx) as [l|] eqn:G.
  - rewrite aget_aset. destruct (N.eqb_spec tx tx') as [<-|]; [now rewrite G|destruct (aget ts tx'); reflexivity].
  - destruct (N.eqb_spec tx tx') as [<-|]; [now rewrite G|destruct (aget ts tx'); reflexivity].
Qed.

Lemma push_undo_active ts tx u tx' : (aget (push_undo ts tx u) tx' = None) <-> (aget ts tx' = None).
Proof. rewrite push_undo_get. destruct (aget ts tx'); [destruct (N.eqb tx tx')|]; split; congruence. Qed.

(* upd_one / del_one keep locks, clock, ids, metas; they only push undo entries for tx *)
Lemma upd_one_frame tx col v e ir :
  ltab (upd_one tx col v e ir) = ltab e /\ enow (upd_one tx col v e ir) = enow e /\ nexttx (upd_one tx col v e ir) = nexttx e /\
  ltmo (upd_one tx col v e ir) = ltmo e /\ hmeta (upd_one tx col v e ir) = hmeta e /\ bmeta (upd_one tx col v e ir) = bmeta e /\
  (forall tx', aget (txs (upd_one tx col v e ir)) tx' = None <-> aget (txs e) tx' = None).
Proof. destruct ir as [rid r]. unfold upd_one. cbn. repeat split; try reflexivity; apply push_undo_active. Qed.

Lemma del_one_frame tx e ir :
  ltab (del_one tx e ir) = ltab e /\ enow (del_one tx e ir) = enow e /\ nexttx (del_one tx e ir) = nexttx e /\
  ltmo (del_one tx e ir) = ltmo e /\ hmeta (del_one tx e ir) = hmeta e /\ bmeta (del_one tx e ir) = bmeta e /\
  (forall tx', aget (txs (del_one tx e ir)) tx' = None <-> aget (txs e) tx' = None).
Proof. destruct ir as [rid r]. unfold del_one. cbn. repeat split; try reflexivity; apply push_undo_active. Qed.

Definition Frame (e e' : eng) : Prop :=
  ltab e' = ltab e /\ enow e' = enow e /\ nexttx e' = nexttx e /\ ltmo e' = ltmo e /\ hmeta e' = hmeta e /\ bmeta e' = bmeta e /\
  (forall tx', aget (txs e') tx' = None <-> aget (txs e) tx' = None).
Lemma Frame_refl e : Frame e e. Proof. repeat split; auto. Qed.
Lemma Frame_trans a b c : Frame a b -> Frame b c -> Frame a c.
Proof.
  intros [A1 [A2 [A3 [A4 [A5 [A6 A7]]]]]] [B1 [B2 [B3 [B4 [B5 [B6 B7]]]]]].
  repeat split; try congruence; intros; [apply A7, B7|apply B7, A7]; assumption.
Qed.

Lemma fold_frame (f : eng -> N * row -> eng) ms :
  (forall e ir, Frame e (f e ir)) -> forall e, Frame e (fold_left f ms e).
Proof.
  intros Hf. induction ms as [|ir r IH]; intros e; cbn; [apply Frame_refl|].
  eapply Frame_trans; [apply Hf|apply IH].
Qed.

(* rows other than the ones a fold touches are unchanged *)
Lemma nth_error_set_nth_other {A} (l : list A) i j x : i <> j -> nth_error (set_nth l i x) j = nth_error l j.
Proof.
  revert i j. induction l as [|a r IH]; intros i j Hne; [destruct i; reflexivity|].
  destruct i, j; cbn; try reflexivity; try congruence. apply IH. congruence.
Qed.
Lemma nth_error_set_nth_same {A} (l : list A) i x y : nth_error l i = Some y -> nth_error (set_nth l i x) i = Some x.
Proof. revert i. induction l as [|a r IH]; intros i H; destruct i; cbn in *; try discriminate; auto. Qed.
Lemma set_nth_length {A} (l : list A) i x : length (set_nth l i x) = length l.
Proof. revert i. induction l as [|a r IH]; intros i; destruct i; cbn; auto. Qed.

Lemma nth_row_set_other rs rid rid' r : rid <> rid' -> rid <> 0 -> nth_row (set_row rs rid r) rid' = nth_row rs rid'.
Proof.
  intros Hne H0. unfold nth_row, set_row. destruct (N.eqb_spec rid' 0); [reflexivity|].
  apply nth_error_set_nth_other. lia.
Qed.

Lemma upd_one_rows tx col v e rid r rid' : rid <> rid' -> rid <> 0 -> nth_row (rows (upd_one tx col v e (rid, r))) rid' = nth_row (rows e) rid'.
Proof.
  intros Hne H0. unfold upd_one. cbn [rows]. destruct (nth_row (rows e) rid) as [cur|]; [|reflexivity].
  destruct (alive cur); [now apply nth_row_set_other|reflexivity].
Qed.
Lemma del_one_rows tx e rid r rid' : rid <> rid' -> rid <> 0 -> nth_row (rows (del_one tx e (rid, r))) rid' = nth_row (rows e) rid'.
Proof.
  intros Hne H0. unfold del_one. cbn [rows]. destruct (nth_row (rows e) rid) as [cur|]; [now apply nth_row_set_other|reflexivity].
Qed.

Lemma fold_rows_other (f : eng -> N * row -> eng) ms rid' :
  (forall e rid r, rid <> rid' -> rid <> 0 -> nth_row (rows (f e (rid, r))) rid' = nth_row (rows e) rid') ->
  ~ In rid' (map fst ms) -> ~ In 0 (map fst ms) ->
  forall e, nth_row (rows (fold_left f ms e)) rid' = nth_row (rows e) rid'.
Proof.
  intros Hf. induction ms as [|[rid r] t IH]; intros Hn H0 e; cbn [fold_left]; [reflexivity|].
  cbn in Hn, H0. rewrite IH by tauto. apply Hf; intros E; subst; tauto.
Qed.

(* scan only yields ids >= its start, so never 0 *)
Lemma scan_from_ge rs : forall s rid r, In (rid, r) (scan_from rs s) -> s <= rid.
Proof.
  induction rs as [|x t IH]; intros s rid r H; cbn in H; [destruct H|].
  destruct (alive x); [destruct H as [[= <- _]|H]|]; try lia; apply IH in H; lia.
Qed.
Lemma matching_nonzero e c : ~ In 0 (map fst (matching e c)).
Proof.
  intros H. apply in_map_iff in H. destruct H as [[rid r] [E Hin]]. cbn in E. subst rid.
  unfold matching in Hin. apply filter_In in Hin. destruct Hin as [Hin _]. apply scan_from_ge in Hin. lia.
Qed.

(* ================================================================== 1. row-lock exclusion *)
Definition blocked (e : eng) (tx k : N) : bool :=
  match blocks (enow e) tx (locks (ltab e)) k with Some _ => true | None => false end.

Lemma first_conflict_hd now tx keys lk o :
  first_conflict now tx keys lk = Some o ->
  let k := hd 0 (filter (fun k => match blocks now tx lk k with Some _ => true | None => false end) keys) in
  In k keys /\ blocks now tx lk k = Some o.
Proof.
  induction keys as [|k0 r IH]; cbn; [discriminate|].
  destruct (blocks now tx lk k0) as [o'|] eqn:B.
  - intros [= <-]. cbn. auto.
  - intros H. destruct (IH H) as [A C]. auto.
Qed.

(* the outcome of "scan, lock all, then change": refused (nothing changes) or all matching rows free for tx *)
Lemma do_write_cases e tx c f :
  (exists o k, do_write e tx c f = (e, inr (o, k)) /\ In k (map fst (matching e c)) /\ blocks (enow e) tx (locks (ltab e)) k = Some o)
  \/ (exists lt, do_write e tx c f = (fold_left f (matching e c) (with_txs e (txs e) lt), inl (N.of_nat (length (matching e c)))) /\
        (forall k, In k (map fst (matching e c)) -> blocks (enow e) tx (locks (ltab e)) k = None) /\
        lt = match map fst (matching e c) with [] => ltab e | _ => acquire (enow e) tx 0 (ltmo e) (map fst (matching e c)) (ltab e) end).
Proof.
  unfold do_write. destruct (first_conflict (enow e) tx (map fst (matching e c)) (locks (ltab e))) as [o|] eqn:F.
  - left. destruct (first_conflict_hd _ _ _ _ _ F) as [A B]. eauto.
  - right. eexists. split; [reflexivity|]. split; [|reflexivity]. now apply first_conflict_None.
Qed.

(* locks only exist on rows of the slab *)
Definition LockRows (e : eng) : Prop :=
  forall k lk, aget (locks (ltab e)) k = Some lk -> k <> 0 /\ (N.to_nat k <= length (rows e))%nat.

Lemma nth_row_app_old rs r rid : rid <> 0 -> (N.to_nat rid <= length rs)%nat -> nth_row (rs ++ [r]) rid = nth_row rs rid.
Proof.
  intros H0 Hl. unfold nth_row. destruct (N.eqb_spec rid 0); [contradiction|]. apply nth_error_app1. lia.
Qed.

Section WithFlag.
Variable lock_new : bool.

(* a statement of tx never changes a row whose unexpired lock belongs to somebody else *)
Theorem stmt_exclusion e tx o rid Y : LockRows e ->
  holder (enow e) (ltab e) rid = Some Y -> Y <> tx ->
  nth_row (rows (fst (stmt lock_new e tx o))) rid = nth_row (rows e) rid.
Proof.
  intros LR Hh Hne.
  assert (Hb : blocks (enow e) tx (locks (ltab e)) rid = Some Y) by (apply blocks_holder; auto).
  assert (Hex : rid <> 0 /\ (N.to_nat rid <= length (rows e))%nat).
  { apply holder_Some in Hh. destruct Hh as [lk [G _]]. exact (LR _ _ G). }
  destruct o; cbn [stmt]; try reflexivity.
  - unfold do_insert. cbn [fst rows]. now apply nth_row_app_old.
  - destruct (do_write_cases e tx c (upd_one tx col v)) as [[o [k [E _]]]|[lt [E [Hfree _]]]]; rewrite E; cbn [fst]; [reflexivity|].
    rewrite fold_rows_other; [reflexivity| | |apply matching_nonzero].
    + intros e0 rid0 r0 H1 H2. now apply upd_one_rows.
    + intros Hin. specialize (Hfree rid Hin). congruence.
  - destruct (do_write_cases e tx c (del_one tx)) as [[o [k [E _]]]|[lt [E [Hfree _]]]]; rewrite E; cbn [fst]; [reflexivity|].
    rewrite fold_rows_other; [reflexivity| | |apply matching_nonzero].
    + intros e0 rid0 r0 H1 H2. now apply del_one_rows.
    + intros Hin. specialize (Hfree rid Hin). congruence.
Qed.

(* ... and if the statement's condition matches such a row, the whole statement is refused with a lock conflict
   that names a real unexpired foreign holder of a matching row, and changes nothing *)
Theorem stmt_conflict e tx c rid Y (o : rop) :
  (exists col v t, o = RUpdate t c col v) \/ (exists t, o = RDelete t c) ->
  In rid (map fst (matching e c)) -> holder (enow e) (ltab e) rid = Some Y -> Y <> tx ->
  exists b k, stmt lock_new e tx o = (e, [4; b; k]) /\ In k (map fst (matching e c)) /\ holder (enow e) (ltab e) k = Some b /\ b <> tx.
Proof.
  intros Ho Hin Hh Hne.
  assert (Hb : blocks (enow e) tx (locks (ltab e)) rid = Some Y) by (apply blocks_holder; auto).
  destruct Ho as [[col [v [t ->]]]|[t ->]]; cbn [stmt].
  - destruct (do_write_cases e tx c (upd_one tx col v)) as [[b [k [E [Hk Hbk]]]]|[lt [E [Hfree _]]]]; rewrite E.
    + apply blocks_holder in Hbk. destruct Hbk. eauto 8.
    + specialize (Hfree rid Hin). congruence.
  - destruct (do_write_cases e tx c (del_one tx)) as [[b [k [E [Hk Hbk]]]]|[lt [E [Hfree _]]]]; rewrite E.
    + apply blocks_holder in Hbk. destruct Hbk. eauto 8.
    + specialize (Hfree rid Hin). congruence.
Qed.
End WithFlag.

(* ================================================================== 2. invariants of every reachable state *)
Definition EInv (e : eng) : Prop :=
  TInv (ltab e) /\ LockRows e /\ (forall tx l, aget (txs e) tx = Some l -> tx < nexttx e).

Lemma einit_EInv l0 : EInv (einit l0).
Proof. split; [apply empty_TInv|]. split; [intros k lk H; discriminate|intros tx l H; discriminate]. Qed.

Lemma scan_from_lt rs : forall s rid r, In (rid, r) (scan_from rs s) -> rid < s + N.of_nat (length rs).
Proof.
  induction rs as [|x t IH]; intros s rid r H; cbn in H; [destruct H|].
  cbn [length]. destruct (alive x); [destruct H as [[= <- _]|H]|]; try lia; apply IH in H; lia.
Qed.
Lemma matching_exists e c k : In k (map fst (matching e c)) -> k <> 0 /\ (N.to_nat k <= length (rows e))%nat.
Proof.
  intros H. apply in_map_iff in H. destruct H as [[rid r] [E Hin]]. cbn in E. subst rid.
  unfold matching in Hin. apply filter_In in Hin. destruct Hin as [Hin _].
  pose proof (scan_from_ge _ _ _ _ Hin). pose proof (scan_from_lt _ _ _ _ Hin). lia.
Qed.

Lemma upd_one_len tx col v e ir : length (rows (upd_one tx col v e ir)) = length (rows e).
Proof.
  destruct ir as [rid r]. unfold upd_one. cbn [rows]. destruct (nth_row (rows e) rid) as [cur|]; [|reflexivity].
  destruct (alive cur); [apply set_nth_length|reflexivity].
Qed.
Lemma del_one_len tx e ir : length (rows (del_one tx e ir)) = length (rows e).
Proof.
  destruct ir as [rid r]. unfold del_one. cbn [rows]. destruct (nth_row (rows e) rid); [apply set_nth_length|reflexivity].
Qed.
Lemma fold_len (f : eng -> N * row -> eng) ms :
  (forall e ir, length (rows (f e ir)) = length (rows e)) -> forall e, length (rows (fold_left f ms e)) = length (rows e).
Proof. intros Hf. induction ms as [|ir r IH]; intros e; cbn; [reflexivity|]. now rewrite IH, Hf. Qed.

Lemma upd_one_Frame tx col v e ir : Frame e (upd_one tx col v e ir).
Proof. exact (upd_one_frame tx col v e ir). Qed.
Lemma del_one_Frame tx e ir : Frame e (del_one tx e ir).
Proof. exact (del_one_frame tx e ir). Qed.

(* txs keys are preserved by push_undo-only steps; we only need "active stays below nexttx" *)
Definition TxBelow (e : eng) : Prop := forall tx l, aget (txs e) tx = Some l -> tx < nexttx e.
Lemma Frame_TxBelow e e' : Frame e e' -> TxBelow e -> TxBelow e'.
Proof.
  intros [_ [_ [En [_ [_ [_ Ht]]]]]] B tx l G. rewrite En.
  destruct (aget (txs e) tx) as [l0|] eqn:G0; [eapply B; eauto|]. apply Ht in G0. congruence.
Qed.

Lemma acquire_LockRows e tx keys (rs : list row) :
  (forall k lk, aget (locks (ltab e)) k = Some lk -> k <> 0 /\ (N.to_nat k <= length rs)%nat) ->
  (forall k, In k keys -> k <> 0 /\ (N.to_nat k <= length rs)%nat) ->
  forall k lk, aget (locks (acquire (enow e) tx 0 (ltmo e) keys (ltab e))) k = Some lk -> k <> 0 /\ (N.to_nat k <= length rs)%nat.
Proof.
  intros Ho Hk k lk. unfold acquire; cbn [locks]. rewrite insert_all_get. destruct (mem k keys) eqn:M.
  - intros _. apply Hk. now apply mem_In.
  - apply Ho.
Qed.

Section WithFlag2.
Variables lock_new gb : bool.

Lemma do_write_EInv e tx c f :
  (forall e ir, Frame e (f e ir)) -> (forall e ir, length (rows (f e ir)) = length (rows e)) ->
  EInv e -> EInv (fst (do_write e tx c f)).
Proof.
  intros Hf Hl [Ht [Hr Hb]].
  destruct (do_write_cases e tx c f) as [[o [k [E _]]]|[lt0 [E [_ Elt]]]]; rewrite E; cbn [fst]; [exact (conj Ht (conj Hr Hb))|].
  set (e0 := with_txs e (txs e) lt0).
  pose proof (fold_frame f (matching e c) Hf e0) as Fr. pose proof (fold_len f (matching e c) Hl e0) as Ln.
  pose proof Fr as [F1 [F2 [F3 [F4 [F5 [F6 F7]]]]]].
  assert (Hlt : TInv lt0 /\ forall k lk, aget (locks lt0) k = Some lk -> k <> 0 /\ (N.to_nat k <= length (rows e))%nat).
  { subst lt0. destruct (map fst (matching e c)) as [|k0 ks] eqn:Ek; [split; auto|].
    split; [now apply acquire_TInv|]. apply acquire_LockRows; [exact Hr|]. rewrite <- Ek. intros k. apply matching_exists. }
  destruct Hlt as [Hlt1 Hlt2]. split; [|split].
  - rewrite F1. exact Hlt1.
  - intros k lk. rewrite F1, Ln. cbn [ltab rows e0 with_txs]. apply Hlt2.
  - apply (Frame_TxBelow e0 _ Fr). unfold TxBelow. intros tx0 l G. cbn in G. eapply Hb; eauto.
Qed.

Lemma stmt_EInv e tx o : EInv e -> EInv (fst (stmt lock_new e tx o)).
Proof.
  intros I. destruct o; cbn [stmt]; try exact I.
  - destruct I as [Ht [Hr Hb]]. unfold do_insert. cbn [fst]. split; [|split]; cbn.
    + destruct lock_new; [apply try_lock_TInv|]; assumption.
    + unfold LockRows. cbn [rows ltab]. set (rs := rows e ++ [R true a b]).
      assert (Hold : forall k lk, aget (locks (ltab e)) k = Some lk -> k <> 0 /\ (N.to_nat k <= length rs)%nat).
      { intros k0 lk0 G0. destruct (Hr _ _ G0). split; [assumption|]. unfold rs. rewrite app_length. cbn. lia. }
      destruct lock_new; [|exact Hold].
      intros k lk G. unfold try_lock in G. destruct (first_conflict _ _ _ _); cbn [fst] in G; [eapply Hold; eauto|].
      revert G. apply acquire_LockRows; [exact Hold|]. intros k0 [<-|[]]. unfold rs. rewrite app_length. cbn. lia.
    + intros tx1 l G. rewrite push_undo_get in G. destruct (aget (txs e) tx1) eqn:G0; [eapply Hb; eauto|discriminate].
  - destruct (do_write e tx c (upd_one tx col v)) as [e' [n|[o k]]] eqn:E;
      pose proof (do_write_EInv e tx c (upd_one tx col v) (upd_one_Frame tx col v) (upd_one_len tx col v) I) as H; rewrite E in H; exact H.
  - destruct (do_write e tx c (del_one tx)) as [e' [n|[o k]]] eqn:E;
      pose proof (do_write_EInv e tx c (del_one tx) (del_one_Frame tx) (del_one_len tx) I) as H; rewrite E in H; exact H.
Qed.

Lemma end_tx_EInv e tx : EInv e -> EInv (end_tx e tx).
Proof.
  intros [Ht [Hr Hb]]. unfold end_tx. split; [|split]; cbn.
  - now apply release_TInv.
  - intros k lk G. apply release_only_removes in G. eauto.
  - intros tx0 l. rewrite aget_adel. destruct (N.eqb tx tx0); [discriminate|eauto].
Qed.

Lemma apply_undo_frame e u :
  ltab (fst (apply_undo gb e u)) = ltab e /\ txs (fst (apply_undo gb e u)) = txs e /\ nexttx (fst (apply_undo gb e u)) = nexttx e /\
  length (rows (fst (apply_undo gb e u))) = length (rows e) /\ enow (fst (apply_undo gb e u)) = enow e /\
  hmeta (fst (apply_undo gb e u)) = hmeta e /\ bmeta (fst (apply_undo gb e u)) = bmeta e /\ ltmo (fst (apply_undo gb e u)) = ltmo e.
Proof.
  destruct u; cbn [apply_undo]; destruct (nth_row (rows e) rid) as [cur|]; try destruct (alive cur); cbn;
    repeat split; try reflexivity; apply set_nth_length.
Qed.

Lemma undo_fold_frame us : forall e b,
  let e' := fst (fold_left (fun ae u => let '(e', er) := apply_undo gb (fst ae) u in (e', snd ae || er)) us (e, b)) in
  ltab e' = ltab e /\ txs e' = txs e /\ nexttx e' = nexttx e /\ length (rows e') = length (rows e) /\ enow e' = enow e /\
  hmeta e' = hmeta e /\ bmeta e' = bmeta e /\ ltmo e' = ltmo e.
Proof.
  induction us as [|u r IH]; intros e b; cbn [fold_left fst]; [repeat split; reflexivity|].
  pose proof (apply_undo_frame e u) as F. destruct (apply_undo gb e u) as [e1 er]. cbn [fst snd] in *.
  specialize (IH e1 (b || er)). cbn zeta in IH.
  destruct F as [F1 [F2 [F3 [F4 [F5 [F6 [F7 F8]]]]]]]. destruct IH as [I1 [I2 [I3 [I4 [I5 [I6 [I7 I8]]]]]]].
  repeat split; congruence.
Qed.

Lemma do_rollback_EInv e tx log : EInv e -> EInv (fst (do_rollback gb e tx log)).
Proof.
  intros [Ht [Hr Hb]]. unfold do_rollback.
  pose proof (undo_fold_frame (List.rev log) e false) as F. cbn zeta in F.
  destruct (fold_left _ (List.rev log) (e, false)) as [e1 err]. cbn [fst] in *.
  destruct F as [F1 [F2 [F3 [F4 _]]]]. apply end_tx_EInv. split; [|split].
  - now rewrite F1.
  - intros k lk. rewrite F1, F4. apply Hr.
  - intros tx0 l. rewrite F2, F3. apply Hb.
Qed.

Lemma begin_EInv e : EInv e -> EInv (fst (begin e)).
Proof.
  intros [Ht [Hr Hb]]. unfold begin. cbn. split; [exact Ht|]. split; [exact Hr|].
  intros tx l. cbn. rewrite aget_aset. destruct (N.eqb_spec (nexttx e) tx) as [<-|]; [intros _; lia|].
  intros G. pose proof (Hb _ _ G). lia.
Qed.

Theorem rstep_EInv e o : EInv e -> EInv (fst (rstep lock_new gb e o)).
Proof.
  intros I. destruct o; cbn [rstep].
  - pose proof (begin_EInv e I) as H. destruct (begin e) as [e' tx]. exact H.
  - destruct tx as [tx|].
    + destruct (aget (txs e) tx); [now apply stmt_EInv|exact I].
    + pose proof (begin_EInv e I) as H0. destruct (begin e) as [e0 tx]. cbn [fst] in H0.
      pose proof (stmt_EInv e0 tx (RInsert None a b) H0) as H1. destruct (stmt lock_new e0 tx (RInsert None a b)) as [e1 ret]. cbn [fst] in H1.
      destruct (is_ok ret); cbn [fst]; [now apply end_tx_EInv|now apply do_rollback_EInv].
  - destruct tx as [tx|].
    + destruct (aget (txs e) tx); [now apply stmt_EInv|exact I].
    + pose proof (begin_EInv e I) as H0. destruct (begin e) as [e0 tx]. cbn [fst] in H0.
      pose proof (stmt_EInv e0 tx (RUpdate None c col v) H0) as H1. destruct (stmt lock_new e0 tx (RUpdate None c col v)) as [e1 ret]. cbn [fst] in H1.
      destruct (is_ok ret); cbn [fst]; [now apply end_tx_EInv|now apply do_rollback_EInv].
  - destruct tx as [tx|].
    + destruct (aget (txs e) tx); [now apply stmt_EInv|exact I].
    + pose proof (begin_EInv e I) as H0. destruct (begin e) as [e0 tx]. cbn [fst] in H0.
      pose proof (stmt_EInv e0 tx (RDelete None c) H0) as H1. destruct (stmt lock_new e0 tx (RDelete None c)) as [e1 ret]. cbn [fst] in H1.
      destruct (is_ok ret); cbn [fst]; [now apply end_tx_EInv|now apply do_rollback_EInv].
  - destruct (aget (txs e) tx); cbn [fst]; [now apply end_tx_EInv|exact I].
  - destruct (aget (txs e) tx) as [log|]; [|exact I].
    pose proof (do_rollback_EInv e tx log I) as H. destruct (do_rollback gb e tx log) as [e' err]. exact H.
  - destruct (existsb (N.eqb col) (hmeta e)); [exact I|]. destruct I as [Ht [Hr Hb]]. exact (conj Ht (conj Hr Hb)).
  - destruct (existsb (N.eqb col) (bmeta e)); [exact I|]. destruct I as [Ht [Hr Hb]]. exact (conj Ht (conj Hr Hb)).
  - destruct I as [Ht [Hr Hb]]. exact (conj Ht (conj Hr Hb)).
  - destruct I as [Ht [Hr Hb]]. pose proof (cleanup_expired_TInv (enow e) (ltab e) Ht) as Hc.
    destruct (cleanup_expired (enow e) (ltab e)) as [t' n] eqn:E. cbn [fst] in *. split; [exact Hc|]. split; [|exact Hb].
    intros k lk G. cbn in G. apply (Hr k lk).
    assert (t' = fold_left remove_locked (expired_keys (enow e) (locks (ltab e))) (ltab e)) by (unfold cleanup_expired in E; congruence).
    subst t'. rewrite remove_fold_get in G. destruct (mem k _); [discriminate|exact G].
Qed.

Theorem rrun_EInv ops : forall e, EInv e -> EInv (rrun lock_new gb e ops).
Proof.
  induction ops as [|o r IH]; intros e I; [exact I|].
  change (rrun lock_new gb e (o :: r)) with (rrun lock_new gb (fst (rstep lock_new gb e o)) r). apply IH. now apply rstep_EInv.
Qed.
End WithFlag2.

(* ================================================================== 3. locks vanish at the end; finished transactions are unusable *)
Theorem end_tx_releases e tx : EInv e -> forall k lk, aget (locks (ltab (end_tx e tx))) k = Some lk -> owner lk <> tx.
Proof. intros [[_ Hi] _] k lk. cbn. now apply release_none_left. Qed.

Lemma do_rollback_ltab gb e tx log : ltab (fst (do_rollback gb e tx log)) = release tx (ltab e) /\ txs (fst (do_rollback gb e tx log)) = adel (txs e) tx
  /\ nexttx (fst (do_rollback gb e tx log)) = nexttx e.
Proof.
  unfold do_rollback. pose proof (undo_fold_frame gb (List.rev log) e false) as F. cbn zeta in F.
  destruct (fold_left _ (List.rev log) (e, false)) as [e1 err]. cbn [fst] in *.
  destruct F as [F1 [F2 [F3 _]]]. unfold end_tx. cbn. now rewrite F1, F2, F3.
Qed.

Theorem rollback_releases gb e tx log : EInv e -> forall k lk, aget (locks (ltab (fst (do_rollback gb e tx log)))) k = Some lk -> owner lk <> tx.
Proof. intros [[_ Hi] _] k lk. destruct (do_rollback_ltab gb e tx log) as [-> _]. now apply release_none_left. Qed.

Section WithFlag3.
Variables lock_new gb : bool.

Definition Gone (e : eng) (tx : N) : Prop := aget (txs e) tx = None /\ tx < nexttx e.

Lemma stmt_Gone e tx0 o tx : Gone e tx -> Gone (fst (stmt lock_new e tx0 o)) tx.
Proof.
  intros [Gn Lt]. destruct o; cbn [stmt]; try (split; assumption).
  - unfold do_insert. cbn. split; [now apply push_undo_active|exact Lt].
  - destruct (do_write_cases e tx0 c (upd_one tx0 col v)) as [[o [k [E _]]]|[lt0 [E _]]]; rewrite E; cbn [fst]; [split; assumption|].
    destruct (fold_frame (upd_one tx0 col v) (matching e c) (upd_one_Frame tx0 col v) (with_txs e (txs e) lt0)) as [_ [_ [En [_ [_ [_ Ht]]]]]].
    split; [apply Ht; exact Gn|rewrite En; exact Lt].
  - destruct (do_write_cases e tx0 c (del_one tx0)) as [[o [k [E _]]]|[lt0 [E _]]]; rewrite E; cbn [fst]; [split; assumption|].
    destruct (fold_frame (del_one tx0) (matching e c) (del_one_Frame tx0) (with_txs e (txs e) lt0)) as [_ [_ [En [_ [_ [_ Ht]]]]]].
    split; [apply Ht; exact Gn|rewrite En; exact Lt].
Qed.

Lemma end_tx_Gone e tx0 tx : Gone e tx -> Gone (end_tx e tx0) tx.
Proof. intros [Gn Lt]. split; cbn; [|exact Lt]. rewrite aget_adel. destruct (N.eqb tx0 tx); [reflexivity|exact Gn]. Qed.
Lemma rollback_Gone e tx0 log tx : Gone e tx -> Gone (fst (do_rollback gb e tx0 log)) tx.
Proof.
  intros [Gn Lt]. destruct (do_rollback_ltab gb e tx0 log) as [_ [Et En]]. split; [|now rewrite En].
  rewrite Et, aget_adel. destruct (N.eqb tx0 tx); [reflexivity|exact Gn].
Qed.
Lemma begin_Gone e tx : Gone e tx -> Gone (fst (begin e)) tx.
Proof.
  intros [Gn Lt]. unfold begin. split; cbn; [|lia]. rewrite aget_aset. destruct (N.eqb_spec (nexttx e) tx); [lia|exact Gn].
Qed.

Lemma internal_Gone e o tx : Gone e tx ->
  Gone (fst (let '(e0, t) := begin e in let '(e1, ret) := stmt lock_new e0 t o in
             if is_ok ret then (end_tx e1 t, ret)
             else (fst (do_rollback gb e1 t (match aget (txs e1) t with Some l => l | None => [] end)), ret))) tx.
Proof.
  intros H. pose proof (begin_Gone e tx H) as H0. destruct (begin e) as [e0 t]. cbn [fst] in H0.
  pose proof (stmt_Gone e0 t o tx H0) as H1. destruct (stmt lock_new e0 t o) as [e1 ret]. cbn [fst] in H1.
  destruct (is_ok ret); cbn [fst]; [now apply end_tx_Gone|now apply rollback_Gone].
Qed.

(* once a transaction has ended it stays ended: its id is never handed out again *)
Theorem rstep_Gone e o tx : Gone e tx -> Gone (fst (rstep lock_new gb e o)) tx.
Proof.
  intros H. destruct o; cbn [rstep].
  - pose proof (begin_Gone e tx H) as H0. destruct (begin e). exact H0.
  - destruct tx0 as [t|]; [destruct (aget (txs e) t); [now apply stmt_Gone|exact H]|now apply internal_Gone].
  - destruct tx0 as [t|]; [destruct (aget (txs e) t); [now apply stmt_Gone|exact H]|now apply internal_Gone].
  - destruct tx0 as [t|]; [destruct (aget (txs e) t); [now apply stmt_Gone|exact H]|now apply internal_Gone].
  - destruct (aget (txs e) tx0); cbn [fst]; [now apply end_tx_Gone|exact H].
  - destruct (aget (txs e) tx0) as [log|]; [|exact H].
    pose proof (rollback_Gone e tx0 log tx H) as H0. destruct (do_rollback gb e tx0 log). exact H0.
  - destruct (existsb _ _); exact H.
  - destruct (existsb _ _); exact H.
  - exact H.
  - destruct (cleanup_expired (enow e) (ltab e)). exact H.
Qed.

Theorem rrun_Gone ops : forall e tx, Gone e tx -> Gone (rrun lock_new gb e ops) tx.
Proof.
  induction ops as [|o r IH]; intros e tx H; [exact H|].
  change (rrun lock_new gb e (o :: r)) with (rrun lock_new gb (fst (rstep lock_new gb e o)) r). apply IH. now apply rstep_Gone.
Qed.

(* commit / rollback end the transaction ... *)
Theorem finish_makes_Gone e tx : EInv e -> (exists l, aget (txs e) tx = Some l) ->
  Gone (fst (rstep lock_new gb e (RCommit tx))) tx /\ Gone (fst (rstep lock_new gb e (RRollback tx))) tx.
Proof.
  intros [_ [_ Hb]] [l G]. cbn [rstep]. rewrite G. split.
  - cbn [fst]. split; cbn; [now rewrite aget_adel, N.eqb_refl|eauto].
  - destruct (do_rollback_ltab gb e tx l) as [_ [Et En]]. destruct (do_rollback gb e tx l) as [e' err]. cbn [fst] in *.
    split; [rewrite Et, aget_adel, N.eqb_refl; reflexivity|rewrite En; eauto].
Qed.

(* ... and every later call that names it is rejected with TransactionNotFound and changes nothing *)
Theorem gone_rejected e tx o : aget (txs e) tx = None ->
  (exists a b, o = RInsert (Some tx) a b) \/ (exists c col v, o = RUpdate (Some tx) c col v) \/ (exists c, o = RDelete (Some tx) c)
  \/ o = RCommit tx \/ o = RRollback tx ->
  rstep lock_new gb e o = (e, [1]).
Proof.
  intros G [[a [b ->]]|[[c [col [v ->]]]|[[c ->]|[->| ->]]]]; cbn [rstep]; now rewrite G.
Qed.

(* a successful statement leaves every row it matched (or inserted) locked by its transaction *)
Theorem writer_holds_lock e tx c (o : rop) n :
  (exists col v t, o = RUpdate t c col v) \/ (exists t, o = RDelete t c) ->
  snd (stmt lock_new e tx o) = [0; n] ->
  forall k, In k (map fst (matching e c)) -> holder (enow e) (ltab (fst (stmt lock_new e tx o))) k = Some tx.
Proof.
  intros Ho Hret k Hk.
  assert (G : forall f, (forall e ir, Frame e (f e ir)) ->
            snd (match do_write e tx c f with (e', inl n) => (e', [0; n]) | (e', inr (o, k)) => (e', [4; o; k]) end) = [0; n] ->
            holder (enow e) (ltab (fst (match do_write e tx c f with (e', inl n) => (e', [0; n]) | (e', inr (o, k)) => (e', [4; o; k]) end))) k = Some tx).
  { intros f Hf. destruct (do_write_cases e tx c f) as [[o' [k' [E _]]]|[lt0 [E [_ Elt]]]]; rewrite E; cbn [fst snd]; [discriminate|].
    intros _. destruct (fold_frame f (matching e c) Hf (with_txs e (txs e) lt0)) as [El _]. rewrite El. cbn [ltab with_txs].
    subst lt0. destruct (map fst (matching e c)) as [|k0 ks] eqn:Ek; [destruct Hk|].
    unfold holder, acquire; cbn [locks]. rewrite insert_all_get. apply mem_In in Hk. rewrite Hk, fresh_lock_unexpired. reflexivity. }
  destruct Ho as [[col [v [t ->]]]|[t ->]]; cbn [stmt] in *.
  - apply (G (upd_one tx col v) (upd_one_Frame tx col v)). exact Hret.
  - apply (G (del_one tx) (del_one_Frame tx)). exact Hret.
Qed.
End WithFlag3.

Theorem inserter_holds_lock e tx a b t : EInv e ->
  let r := stmt true e tx (RInsert t a b) in
  exists rid, snd r = [0; rid] /\ holder (enow e) (ltab (fst r)) rid = Some tx /\ nth_row (rows (fst r)) rid = Some (R true a b).
Proof.
  intros [Ht [Hr Hb]]. cbn [stmt do_insert fst snd]. eexists. split; [reflexivity|]. split.
  - cbn [ltab]. unfold try_lock.
    assert (F : first_conflict (enow e) tx [N.of_nat (length (rows e)) + 1] (locks (ltab e)) = None).
    { apply first_conflict_None. intros k [<-|[]]. unfold blocks.
      destruct (aget (locks (ltab e)) (N.of_nat (length (rows e)) + 1)) as [lk|] eqn:G; [|reflexivity].
      destruct (Hr _ _ G). lia. }
    rewrite F. cbn [fst]. unfold holder, acquire; cbn [locks]. rewrite insert_all_get. cbn [mem existsb]. rewrite N.eqb_refl. cbn.
    rewrite fresh_lock_unexpired. reflexivity.
  - cbn [rows]. unfold nth_row. destruct (N.eqb_spec (N.of_nat (length (rows e)) + 1) 0); [lia|].
    replace (N.to_nat (N.of_nat (length (rows e)) + 1 - 1)) with (length (rows e)) by lia.
    rewrite nth_error_app2 by lia. now rewrite Nat.sub_diag.
Qed.

(* ================================================================== 4. scan, indexes, and queries answered through an index *)
Lemma scan_from_spec rs : forall s rid r,
  In (rid, r) (scan_from rs s) <-> (s <= rid /\ nth_error rs (N.to_nat (rid - s)) = Some r /\ alive r = true).
Proof.
  induction rs as [|x t IH]; intros s rid r; cbn [scan_from].
  - split; [intros []|]. intros [_ [H _]]. destruct (N.to_nat (rid - s)); discriminate.
  - assert (Hstep : forall rid, N.succ s <= rid -> N.to_nat (rid - s) = Datatypes.S (N.to_nat (rid - N.succ s))) by (intros; lia).
    destruct (alive x) eqn:A.
    + cbn [In]. rewrite IH. split.
      * intros [[= <- <-]|[Hle [Hn Ha]]].
        -- split; [lia|]. rewrite N.sub_diag. cbn. auto.
        -- split; [lia|]. rewrite (Hstep rid Hle). cbn. auto.
      * intros [Hle [Hn Ha]]. destruct (N.eq_dec rid s) as [->|Hne].
        -- left. rewrite N.sub_diag in Hn. cbn in Hn. congruence.
        -- right. assert (N.succ s <= rid) by lia. rewrite (Hstep rid H) in Hn. cbn in Hn. auto.
    + rewrite IH. split.
      * intros [Hle [Hn Ha]]. split; [lia|]. rewrite (Hstep rid Hle). cbn. auto.
      * intros [Hle [Hn Ha]]. destruct (N.eq_dec rid s) as [->|Hne].
        -- rewrite N.sub_diag in Hn. cbn in Hn. congruence.
        -- assert (N.succ s <= rid) by lia. rewrite (Hstep rid H) in Hn. cbn in Hn. auto.
Qed.

Lemma scan_spec rs rid r : In (rid, r) (scan rs) <-> nth_row rs rid = Some r /\ alive r = true.
Proof.
  unfold scan, nth_row. rewrite scan_from_spec. destruct (N.eqb_spec rid 0) as [->|Hne].
  - split; [intros [H _]; lia|intros [H _]; discriminate].
  - split; [intros [_ H]; exact H|intros H; split; [lia|exact H]].
Qed.

(* every live row is present in every index that exists (missing entries are what a query could notice;
   superfluous ones are filtered by the re-check) *)
Definition IdxOK (e : eng) : Prop :=
  (forall col rid r, In col (hmeta e) -> In (rid, r) (scan (rows e)) -> In (col, getcol r col, rid) (hent e)) /\
  (forall col rid r, In col (bmeta e) -> In (rid, r) (scan (rows e)) -> In (col, getcol r col, rid) (bent e)).

Lemma existsb_eqb_In x l : existsb (N.eqb x) l = true <-> In x l.
Proof. exact (mem_In x l). Qed.

Lemma candidates_complete e c : IdxOK e -> forall ids, candidates e c = Some ids ->
  forall rid r, In (rid, r) (scan (rows e)) -> evalc c r = true -> In rid ids.
Proof.
  intros [Hh Hb]. induction c as [|col v|col v|col v|a IHa b IHb]; intros ids Hc rid r Hin Hev; cbn [candidates] in Hc.
  - discriminate.
  - destruct (existsb (N.eqb col) (hmeta e)) eqn:M; [|discriminate]. injection Hc as <-.
    apply existsb_eqb_In in M. cbn in Hev. apply N.eqb_eq in Hev.
    apply in_map_iff. exists (col, getcol r col, rid). split; [reflexivity|]. apply filter_In. split; [now apply Hh|].
    cbn. rewrite N.eqb_refl, Hev, N.eqb_refl. reflexivity.
  - destruct (existsb (N.eqb col) (bmeta e)) eqn:M; [|discriminate]. injection Hc as <-.
    apply existsb_eqb_In in M. cbn in Hev.
    apply in_map_iff. exists (col, getcol r col, rid). split; [reflexivity|]. apply filter_In. split; [now apply Hb|].
    cbn. rewrite N.eqb_refl, Hev. reflexivity.
  - destruct (existsb (N.eqb col) (bmeta e)) eqn:M; [|discriminate]. injection Hc as <-.
    apply existsb_eqb_In in M. cbn in Hev.
    apply in_map_iff. exists (col, getcol r col, rid). split; [reflexivity|]. apply filter_In. split; [now apply Hb|].
    cbn. rewrite N.eqb_refl, Hev. reflexivity.
  - cbn in Hev. apply andb_true_iff in Hev. destruct Hev as [Ea Eb].
    destruct (candidates e a) as [la|] eqn:Ca; [injection Hc as <-; eapply IHa; eauto|eapply IHb; eauto].
Qed.

(* B-tree entries of live rows carry the row's current value; entry lists are duplicate-free *)
Definition EntOK (e : eng) : Prop :=
  NoDup (hent e) /\ NoDup (bent e) /\ IdxOK e /\
  (forall col v rid r, In col (bmeta e) -> In (col, v, rid) (bent e) -> In (rid, r) (scan (rows e)) -> v = getcol r col).

(* --- sorting facts --- *)
Lemma insert_sorted_perm x l : Permutation (insert_sorted x l) (x :: l).
Proof.
  induction l as [|y r IH]; cbn; [apply Permutation_refl|]. destruct (N.leb x y); [apply Permutation_refl|].
  eapply Permutation_trans; [apply perm_skip; exact IH|apply perm_swap].
Qed.
Lemma sortN_perm l : Permutation (sortN l) l.
Proof. induction l as [|x r IH]; cbn; [constructor|]. eapply Permutation_trans; [apply insert_sorted_perm|now apply perm_skip]. Qed.

Lemma insert_sorted_sorted x l : StronglySorted N.le l -> StronglySorted N.le (insert_sorted x l).
Proof.
  induction l as [|y r IH]; intros S; cbn; [repeat constructor|].
  inversion S as [|? ? S' F]; subst. destruct (N.leb_spec x y).
  - constructor; [exact S|]. constructor; [exact H|]. rewrite Forall_forall in *. intros z Hz. specialize (F z Hz). lia.
  - constructor; [now apply IH|]. rewrite Forall_forall in *. intros z Hz.
    apply (Permutation_in _ (insert_sorted_perm x r)) in Hz. destruct Hz as [<-|Hz]; [lia|auto].
Qed.
Lemma sortN_sorted l : StronglySorted N.le (sortN l).
Proof. induction l as [|x r IH]; cbn; [constructor|now apply insert_sorted_sorted]. Qed.

Lemma sorted_perm_eq l1 : forall l2, StronglySorted N.le l1 -> StronglySorted N.le l2 -> Permutation l1 l2 -> l1 = l2.
Proof.
  induction l1 as [|a r IH]; intros l2 S1 S2 P.
  - apply Permutation_nil in P. now subst.
  - destruct l2 as [|b r2]; [apply Permutation_sym, Permutation_nil in P; discriminate|].
    inversion S1 as [|? ? S1' F1]; inversion S2 as [|? ? S2' F2]; subst. rewrite Forall_forall in F1, F2.
    assert (a = b).
    { assert (Ha : In a (b :: r2)) by (eapply Permutation_in; [exact P|now left]).
      assert (Hb : In b (a :: r)) by (eapply Permutation_in; [apply Permutation_sym; exact P|now left]).
      destruct Ha as [->|Ha]; [reflexivity|]. destruct Hb as [->|Hb]; [reflexivity|].
      specialize (F1 b Hb). specialize (F2 a Ha). lia. }
    subst b. f_equal. apply IH; auto. eapply Permutation_cons_inv; eauto.
Qed.

Lemma lt_sorted_le l : StronglySorted N.lt l -> StronglySorted N.le l.
Proof.
  induction 1; constructor; auto. rewrite Forall_forall in *. intros z Hz. specialize (H0 z Hz). lia.
Qed.
Lemma lt_sorted_NoDup l : StronglySorted N.lt l -> NoDup l.
Proof.
  induction 1; constructor; auto. rewrite Forall_forall in H0. intros Hin. specialize (H0 a Hin). lia.
Qed.

Lemma scan_from_sorted rs : forall s, StronglySorted N.lt (map fst (scan_from rs s)).
Proof.
  induction rs as [|x t IH]; intros s; cbn [scan_from]; [constructor|].
  destruct (alive x); [|apply IH]. cbn. constructor; [apply IH|]. rewrite Forall_forall. intros z Hz.
  apply in_map_iff in Hz. destruct Hz as [[rid r] [<- Hin]]. apply scan_from_ge in Hin. cbn. lia.
Qed.
Lemma filter_map_fst_sorted {B} (p : N * B -> bool) (l : list (N * B)) :
  StronglySorted N.lt (map fst l) -> StronglySorted N.lt (map fst (filter p l)).
Proof.
  induction l as [|x r IH]; cbn; intros S; [constructor|]. inversion S as [|? ? S' F]; subst.
  destruct (p x); cbn; [|auto]. constructor; [auto|]. rewrite Forall_forall in *. intros z Hz.
  apply F. apply in_map_iff in Hz. destruct Hz as [y [<- Hy]]. apply filter_In in Hy. apply in_map. tauto.
Qed.
Lemma matching_sorted e c : StronglySorted N.lt (map fst (matching e c)).
Proof. unfold matching, scan. apply filter_map_fst_sorted, scan_from_sorted. Qed.

(* --- no candidate id survives the re-check twice --- *)
Lemma NoDup_map_snd_filter (F : list ent) (ok : N -> bool) :
  NoDup F -> (forall x y, In x F -> In y F -> ok (snd x) = true -> snd x = snd y -> x = y) ->
  NoDup (filter ok (map snd F)).
Proof.
  induction F as [|x r IH]; cbn; intros ND Hinj; [constructor|]. inversion ND as [|? ? Hn ND']; subst.
  assert (IH' : NoDup (filter ok (map snd r))) by (apply IH; [exact ND'|intros; apply Hinj; auto]).
  destruct (ok (snd x)) eqn:O; [|exact IH']. constructor; [|exact IH'].
  intros Hin. apply filter_In in Hin. destruct Hin as [Hin _]. apply in_map_iff in Hin. destruct Hin as [y [E Hy]].
  assert (x = y) by (apply Hinj; auto). subst y. contradiction.
Qed.

Lemma cand_nodup e c (ok : N -> bool) : EntOK e ->
  (forall rid, ok rid = true -> exists r, In (rid, r) (scan (rows e))) ->
  forall ids, candidates e c = Some ids -> NoDup (filter ok ids).
Proof.
  intros [Nh [Nb [_ Snd]]] Hok. induction c as [|col v|col v|col v|a IHa b IHb]; intros ids Hc; cbn [candidates] in Hc.
  - discriminate.
  - destruct (existsb (N.eqb col) (hmeta e)); [|discriminate]. injection Hc as <-.
    apply NoDup_map_snd_filter; [now apply NoDup_filter|].
    intros [[c1 v1] r1] [[c2 v2] r2] H1 H2 _ E. apply filter_In in H1, H2. cbn in *. destruct H1 as [_ P1], H2 as [_ P2].
    apply andb_true_iff in P1, P2. destruct P1 as [A1 B1], P2 as [A2 B2]. apply N.eqb_eq in A1, B1, A2, B2. congruence.
  - destruct (existsb (N.eqb col) (bmeta e)) eqn:M; [|discriminate]. injection Hc as <-. apply existsb_eqb_In in M.
    apply NoDup_map_snd_filter; [now apply NoDup_filter|].
    intros [[c1 v1] r1] [[c2 v2] r2] H1 H2 O E. apply filter_In in H1, H2. cbn in *. destruct H1 as [I1 P1], H2 as [I2 P2].
    apply andb_true_iff in P1, P2. destruct P1 as [A1 _], P2 as [A2 _]. apply N.eqb_eq in A1, A2. subst c1 c2 r2.
    destruct (Hok r1 O) as [r Hr]. rewrite (Snd col v1 r1 r M I1 Hr), (Snd col v2 r1 r M I2 Hr). reflexivity.
  - destruct (existsb (N.eqb col) (bmeta e)) eqn:M; [|discriminate]. injection Hc as <-. apply existsb_eqb_In in M.
    apply NoDup_map_snd_filter; [now apply NoDup_filter|].
    intros [[c1 v1] r1] [[c2 v2] r2] H1 H2 O E. apply filter_In in H1, H2. cbn in *. destruct H1 as [I1 P1], H2 as [I2 P2].
    apply andb_true_iff in P1, P2. destruct P1 as [A1 _], P2 as [A2 _]. apply N.eqb_eq in A1, A2. subst c1 c2 r2.
    destruct (Hok r1 O) as [r Hr]. rewrite (Snd col v1 r1 r M I1 Hr), (Snd col v2 r1 r M I2 Hr). reflexivity.
  - destruct (candidates e a) as [la|]; [injection Hc as <-; now apply IHa|now apply IHb].
Qed.

Lemma row_ok_scan e c rid : row_ok e c rid = true <-> exists r, In (rid, r) (scan (rows e)) /\ evalc c r = true.
Proof.
  unfold row_ok. split.
  - destruct (nth_row (rows e) rid) as [r|] eqn:G; [|discriminate]. intros H. apply andb_true_iff in H. destruct H.
    exists r. split; [apply scan_spec; auto|assumption].
  - intros [r [Hin Ev]]. apply scan_spec in Hin. destruct Hin as [-> A]. now rewrite A, Ev.
Qed.

(* with complete and sound indexes, a query answered through an index returns exactly what the scan returns:
   the same rows, each once, in the same order *)
Theorem select_index_eq_scan e c : EntOK e -> select_ids e c = map fst (matching e c).
Proof.
  intros I. unfold select_ids. destruct (candidates e c) as [ids|] eqn:Hc; [|reflexivity].
  apply sorted_perm_eq; [apply sortN_sorted|apply lt_sorted_le, matching_sorted|].
  eapply Permutation_trans; [apply sortN_perm|].
  apply NoDup_Permutation.
  - eapply cand_nodup; eauto. intros rid H. apply row_ok_scan in H. destruct H as [r [H _]]. eauto.
  - apply lt_sorted_NoDup, matching_sorted.
  - intros rid. rewrite filter_In, row_ok_scan. unfold matching. rewrite in_map_iff. split.
    + intros [_ [r [Hin Ev]]]. exists (rid, r). split; [reflexivity|]. apply filter_In. auto.
    + intros [[rid' r] [E Hin]]. cbn in E. subst rid'. apply filter_In in Hin. destruct Hin as [Hin Ev]. cbn in Ev.
      split; [|eauto]. destruct I as [_ [_ [Io _]]]. eapply candidates_complete; eauto.
Qed.

Lemma einit_IdxOK l0 : IdxOK (einit l0).
Proof. split; intros col rid r []. Qed.

(* set-style entry operations *)
Lemma eadd_In x y l : In y (eadd x l) <-> y = x \/ In y l.
Proof.
  unfold eadd. destruct (existsb (ent_eqb x) l) eqn:E.
  - split; [auto|]. intros [->|H]; [|exact H]. apply existsb_exists in E. destruct E as [z [Hz Ez]].
    unfold ent_eqb in Ez. apply andb_true_iff in Ez. destruct Ez as [Ez E3]. apply andb_true_iff in Ez. destruct Ez as [E1 E2].
    apply N.eqb_eq in E1, E2, E3. destruct x as [[a b] c], z as [[a' b'] c']. cbn in *. now subst.
  - rewrite in_app_iff. cbn. intuition.
Qed.
Lemma ent_eqb_eq x y : ent_eqb x y = true <-> x = y.
Proof.
  destruct x as [[a b] c], y as [[a' b'] c']. unfold ent_eqb; cbn. rewrite !andb_true_iff, !N.eqb_eq.
  split; [intros [[-> ->] ->]; reflexivity|intros [= -> -> ->]; auto].
Qed.
Lemma eremove_In x y l : In y (eremove x l) <-> In y l /\ y <> x.
Proof.
  unfold eremove. rewrite filter_In, negb_true_iff. split; intros [H1 H2]; split; auto.
  - intros ->. assert (ent_eqb x x = true) by now apply ent_eqb_eq. congruence.
  - destruct (ent_eqb x y) eqn:E; [|reflexivity]. apply ent_eqb_eq in E. congruence.
Qed.

Lemma fold_eadd_In (f : N -> ent) cols : forall l y, In y (fold_left (fun l c => eadd (f c) l) cols l) <-> In y l \/ exists c, In c cols /\ y = f c.
Proof.
  induction cols as [|c r IH]; intros l y; cbn [fold_left].
  - split; [auto|intros [H|[c [[] _]]]; exact H].
  - rewrite IH, eadd_In. split.
    + intros [[->|H]|[c' [Hc ->]]]; [right; exists c; cbn; auto|auto|right; exists c'; cbn; auto].
    + intros [H|[c' [[<-|Hc] ->]]]; [auto|auto|right; eauto].
Qed.

(* ================================================================== 5. rollback, row by row *)
Definition u_rid (u : undo) : N := match u with UIns r _ => r | UUpd r _ _ _ => r | UDel r _ _ _ => r end.

(* what apply_undo_entry does to the slab slot of its own row *)
Definition undo_row (cur : option row) (u : undo) : option row :=
  match cur with
  | None => None
  | Some c =>
      match u with
      | UIns _ _ => if alive c then Some (R false (va c) (vb c)) else Some c
      | UUpd _ oa ob _ => if alive c then Some (R true oa ob) else Some c
      | UDel _ oa ob _ => if alive c then Some c else Some (R true oa ob)
      end
  end.

(* observable content of a slot: Some (a, b) for a live row, None for a deleted or never-used slot *)
Definition live (o : option row) : option (N * N) :=
  match o with Some r => if alive r then Some (va r, vb r) else None | None => None end.
Definition slot_eq (x y : option row) : Prop := (x = None <-> y = None) /\ live x = live y.

Lemma slot_eq_refl x : slot_eq x x. Proof. split; tauto. Qed.
Lemma slot_eq_trans x y z : slot_eq x y -> slot_eq y z -> slot_eq x z.
Proof. intros [A1 A2] [B1 B2]. split; [tauto|congruence]. Qed.

Lemma undo_row_cong x y u : slot_eq x y -> slot_eq (undo_row x u) (undo_row y u).
Proof.
  intros [Hn L]. destruct x as [c|], y as [d|].
  - cbn [undo_row]. cbn [live] in L.
    assert (SS : forall a b : row, (Some a = None <-> Some b = None)) by (intros; split; discriminate).
    destruct (alive c) eqn:Ac, (alive d) eqn:Ad; try discriminate.
    + destruct u; (split; [apply SS|]); cbn [live alive]; try reflexivity. now rewrite Ac, Ad.
    + destruct u; (split; [apply SS|]); cbn [live alive]; try reflexivity; now rewrite Ac, Ad.
  - exfalso. destruct Hn as [_ H]. discriminate (H eq_refl).
  - exfalso. destruct Hn as [H _]. discriminate (H eq_refl).
  - cbn. split; tauto.
Qed.

Lemma nth_row_set_same rs rid r cur : nth_row rs rid = Some cur -> nth_row (set_row rs rid r) rid = Some r.
Proof.
  unfold nth_row, set_row. destruct (N.eqb_spec rid 0); [discriminate|]. apply nth_error_set_nth_same.
Qed.

Lemma apply_undo_slot gb e u rid :
  nth_row (rows (fst (apply_undo gb e u))) rid =
  if N.eqb rid (u_rid u) then undo_row (nth_row (rows e) rid) u else nth_row (rows e) rid.
Proof.
  destruct (N.eqb_spec rid (u_rid u)) as [E|Hne].
  - subst rid. destruct u as [r0 ents|r0 oa ob chg|r0 oa ob ents]; cbn [apply_undo u_rid];
      (destruct (nth_row (rows e) r0) as [cur|] eqn:G; [destruct (alive cur) eqn:A|]);
      cbn [fst rows with_idx undo_row]; rewrite ?A;
      first [exact G | eapply nth_row_set_same; exact G].
  - assert (H : forall r r0, r0 = u_rid u -> nth_row (rows e) r0 <> None -> nth_row (set_row (rows e) r0 r) rid = nth_row (rows e) rid).
    { intros r r0 -> Hs. apply nth_row_set_other; [congruence|]. intros Z. apply Hs. rewrite Z. reflexivity. }
    destruct u as [r0 ents|r0 oa ob chg|r0 oa ob ents]; cbn [apply_undo u_rid] in *;
      (destruct (nth_row (rows e) r0) as [cur|] eqn:G; [destruct (alive cur) eqn:A|]);
      cbn [fst rows with_idx]; first [reflexivity | apply H; [reflexivity|congruence]].
Qed.

Definition restore (l : list undo) (rid : N) (cur : option row) : option row :=
  fold_left undo_row (filter (fun u => N.eqb rid (u_rid u)) (List.rev l)) cur.

Lemma undo_fold_slot gb us rid : forall e b,
  nth_row (rows (fst (fold_left (fun ae u => let '(e', er) := apply_undo gb (fst ae) u in (e', snd ae || er)) us (e, b)))) rid =
  fold_left undo_row (filter (fun u => N.eqb rid (u_rid u)) us) (nth_row (rows e) rid).
Proof.
  induction us as [|u r IH]; intros e b; cbn [fold_left filter fst]; [reflexivity|].
  pose proof (apply_undo_slot gb e u rid) as A. destruct (apply_undo gb e u) as [e1 er]. cbn [fst snd] in *.
  rewrite IH, A. destruct (N.eqb rid (u_rid u)); reflexivity.
Qed.

(* rollback rewrites the slot of row rid by undoing, newest first, exactly the log entries recorded for rid *)
Theorem rollback_slot gb e tx l rid :
  nth_row (rows (fst (do_rollback gb e tx l))) rid = restore l rid (nth_row (rows e) rid).
Proof.
  unfold do_rollback, restore. pose proof (undo_fold_slot gb (List.rev l) rid e false) as F.
  destruct (fold_left _ (List.rev l) (e, false)) as [e1 err]. cbn [fst] in *. exact F.
Qed.

Lemma restore_app l1 l2 rid cur : restore (l1 ++ l2) rid cur = restore l1 rid (restore l2 rid cur).
Proof. unfold restore. rewrite rev_app_distr, filter_app, fold_left_app. reflexivity. Qed.

Lemma restore_cong l rid x y : slot_eq x y -> slot_eq (restore l rid x) (restore l rid y).
Proof.
  unfold restore. generalize (filter (fun u => N.eqb rid (u_rid u)) (List.rev l)) as us. intros us. revert x y.
  induction us as [|u r IH]; intros x y H; cbn; [exact H|]. apply IH. now apply undo_row_cong.
Qed.

Lemma filter_none {A} (p : A -> bool) l : (forall x, In x l -> p x = false) -> filter p l = [].
Proof. induction l as [|a r IH]; cbn; intros H; [reflexivity|]. rewrite (H a (or_introl eq_refl)). apply IH. intros; apply H; now right. Qed.

Lemma restore_none l rid cur : (forall u, In u l -> u_rid u <> rid) -> restore l rid cur = cur.
Proof.
  intros H. unfold restore. rewrite filter_none; [reflexivity|].
  intros u Hu. apply in_rev in Hu. specialize (H u Hu). destruct (N.eqb_spec rid (u_rid u)); [congruence|reflexivity].
Qed.

(* ---------------------------------------------------------------- one statement and its own undo entries *)
Definition mk_upd (e : eng) (col v : N) (ir : N * row) : undo :=
  UUpd (fst ir) (va (snd ir)) (vb (snd ir)) (map (fun c => (c, getcol (snd ir) col, v)) (filter (N.eqb col) (hmeta e ++ bmeta e))).
Definition mk_del (e : eng) (ir : N * row) : undo :=
  UDel (fst ir) (va (snd ir)) (vb (snd ir)) (map (fun c => (c, getcol (snd ir) c)) (hmeta e ++ bmeta e)).

Definition Current (e : eng) (ir : N * row) : Prop := nth_row (rows e) (fst ir) = Some (snd ir) /\ alive (snd ir) = true.

Lemma scan_NoDup rs : NoDup (map fst (scan rs)).
Proof. apply lt_sorted_NoDup. unfold scan. apply scan_from_sorted. Qed.
Lemma matching_NoDup e c : NoDup (map fst (matching e c)).
Proof. apply lt_sorted_NoDup, matching_sorted. Qed.
Lemma matching_Current e c ir : In ir (matching e c) -> Current e ir.
Proof. unfold matching. intros H. apply filter_In in H. destruct H as [H _]. destruct ir. now apply scan_spec in H. Qed.

(* the fold of upd_one: log grows by one UUpd per row, each row gets its new value, nothing else moves *)
Lemma fold_upd tx col v ms : forall e l,
  NoDup (map fst ms) -> (forall ir, In ir ms -> Current e ir) -> aget (txs e) tx = Some l ->
  let e' := fold_left (upd_one tx col v) ms e in
  aget (txs e') tx = Some (l ++ map (mk_upd e col v) ms) /\
  (forall rid r, In (rid, r) ms -> nth_row (rows e') rid = Some (setcol r col v)) /\
  (forall rid, ~ In rid (map fst ms) -> nth_row (rows e') rid = nth_row (rows e) rid).
Proof.
  induction ms as [|[rid0 r0] t IH]; intros e l ND Hc Hl; cbn [fold_left map].
  - rewrite app_nil_r. repeat split; auto. intros rid r [].
  - cbn in ND. inversion ND as [|? ? Hn ND']; subst.
    destruct (Hc (rid0, r0) (or_introl eq_refl)) as [G0 A0]. cbn [fst snd] in G0, A0.
    set (e1 := upd_one tx col v e (rid0, r0)).
    assert (R1 : rows e1 = set_row (rows e) rid0 (setcol r0 col v)) by (unfold e1, upd_one; cbn [rows]; now rewrite G0, A0).
    assert (M1 : hmeta e1 = hmeta e /\ bmeta e1 = bmeta e) by (unfold e1, upd_one; cbn; auto).
    assert (T1 : aget (txs e1) tx = Some (l ++ [mk_upd e col v (rid0, r0)])).
    { unfold e1, upd_one. cbn [txs]. rewrite push_undo_get, Hl, N.eqb_refl. reflexivity. }
    assert (rid0 <> 0) by (intros ->; unfold nth_row in G0; cbn in G0; discriminate).
    assert (C1 : forall ir, In ir t -> Current e1 ir).
    { intros [rid r] Hin. destruct (Hc (rid, r) (or_intror Hin)) as [G A]. split; [|exact A]. cbn [fst snd] in *.
      rewrite R1, nth_row_set_other; [exact G| |assumption]. intros ->. apply Hn. change rid with (fst (rid, r)). now apply in_map. }
    destruct (IH e1 _ ND' C1 T1) as [Ht [Hr Ho]]. fold e1. split; [|split].
    + rewrite Ht. rewrite <- app_assoc. cbn [app].
      replace (map (mk_upd e1 col v) t) with (map (mk_upd e col v) t); [reflexivity|].
      apply map_ext. intros ir. unfold mk_upd. destruct M1 as [-> ->]. reflexivity.
    + intros rid r [[= <- <-]|Hin]; [|now apply Hr].
      rewrite Ho by exact Hn. rewrite R1. eapply nth_row_set_same; eauto.
    + intros rid Hnin. cbn in Hnin. rewrite Ho by tauto. rewrite R1. apply nth_row_set_other; [tauto|assumption].
Qed.

Lemma fold_del tx ms : forall e l,
  NoDup (map fst ms) -> (forall ir, In ir ms -> Current e ir) -> aget (txs e) tx = Some l ->
  let e' := fold_left (del_one tx) ms e in
  aget (txs e') tx = Some (l ++ map (mk_del e) ms) /\
  (forall rid r, In (rid, r) ms -> nth_row (rows e') rid = Some (R false (va r) (vb r))) /\
  (forall rid, ~ In rid (map fst ms) -> nth_row (rows e') rid = nth_row (rows e) rid).
Proof.
  induction ms as [|[rid0 r0] t IH]; intros e l ND Hc Hl; cbn [fold_left map].
  - rewrite app_nil_r. repeat split; auto. intros rid r [].
  - cbn in ND. inversion ND as [|? ? Hn ND']; subst.
    destruct (Hc (rid0, r0) (or_introl eq_refl)) as [G0 A0]. cbn [fst snd] in G0, A0.
    set (e1 := del_one tx e (rid0, r0)).
    assert (R1 : rows e1 = set_row (rows e) rid0 (R false (va r0) (vb r0))) by (unfold e1, del_one; cbn [rows]; now rewrite G0).
    assert (M1 : hmeta e1 = hmeta e /\ bmeta e1 = bmeta e) by (unfold e1, del_one; cbn; auto).
    assert (T1 : aget (txs e1) tx = Some (l ++ [mk_del e (rid0, r0)])).
    { unfold e1, del_one. cbn [txs]. rewrite push_undo_get, Hl, N.eqb_refl. reflexivity. }
    assert (rid0 <> 0) by (intros ->; unfold nth_row in G0; cbn in G0; discriminate).
    assert (C1 : forall ir, In ir t -> Current e1 ir).
    { intros [rid r] Hin. destruct (Hc (rid, r) (or_intror Hin)) as [G A]. split; [|exact A]. cbn [fst snd] in *.
      rewrite R1, nth_row_set_other; [exact G| |assumption]. intros ->. apply Hn. change rid with (fst (rid, r)). now apply in_map. }
    destruct (IH e1 _ ND' C1 T1) as [Ht [Hr Ho]]. fold e1. split; [|split].
    + rewrite Ht. rewrite <- app_assoc. cbn [app].
      replace (map (mk_del e1) t) with (map (mk_del e) t); [reflexivity|].
      apply map_ext. intros ir. unfold mk_del. destruct M1 as [-> ->]. reflexivity.
    + intros rid r [[= <- <-]|Hin]; [|now apply Hr].
      rewrite Ho by exact Hn. rewrite R1. eapply nth_row_set_same; eauto.
    + intros rid Hnin. cbn in Hnin. rewrite Ho by tauto. rewrite R1. apply nth_row_set_other; [tauto|assumption].
Qed.

Lemma restore_one u rid cur : restore [u] rid cur = if N.eqb rid (u_rid u) then undo_row cur u else cur.
Proof. unfold restore. cbn. destruct (N.eqb rid (u_rid u)); reflexivity. Qed.

Lemma restore_map (g : N * row -> undo) ms rid cur :
  NoDup (map fst ms) -> (forall ir, u_rid (g ir) = fst ir) ->
  (forall r, In (rid, r) ms -> restore (map g ms) rid cur = undo_row cur (g (rid, r))) /\
  (~ In rid (map fst ms) -> restore (map g ms) rid cur = cur).
Proof.
  intros ND Hg. split.
  - intros r Hin. apply in_split in Hin. destruct Hin as [a [b ->]].
    rewrite map_app in ND. cbn in ND. apply NoDup_remove_2 in ND. rewrite in_app_iff in ND.
    rewrite map_app. cbn [map]. change (g (rid, r) :: map g b) with ([g (rid, r)] ++ map g b).
    rewrite !restore_app. rewrite (restore_none (map g b)), restore_one, Hg, N.eqb_refl.
    + apply restore_none. intros u Hu. apply in_map_iff in Hu. destruct Hu as [ir [<- Hir]]. rewrite Hg.
      intros E. apply ND. left. rewrite <- E. now apply in_map.
    + intros u Hu. apply in_map_iff in Hu. destruct Hu as [ir [<- Hir]]. rewrite Hg.
      intros E. apply ND. right. rewrite <- E. now apply in_map.
  - intros Hn. apply restore_none. intros u Hu. apply in_map_iff in Hu. destruct Hu as [ir [<- Hir]]. rewrite Hg.
    intros E. apply Hn. rewrite <- E. now apply in_map.
Qed.

Lemma nth_row_app_other rs r rid : rid <> N.of_nat (length rs) + 1 -> nth_row (rs ++ [r]) rid = nth_row rs rid.
Proof.
  intros Hne. unfold nth_row. destruct (N.eqb_spec rid 0); [reflexivity|].
  destruct (Nat.lt_ge_cases (N.to_nat (rid - 1)) (length rs)) as [Hlt|Hge].
  - now apply nth_error_app1.
  - rewrite nth_error_app2 by exact Hge. rewrite (proj2 (nth_error_None rs _) Hge).
    destruct (N.to_nat (rid - 1) - length rs)%nat eqn:E; [lia|]. cbn. destruct n0; reflexivity.
Qed.

Lemma setcol_alive r col v : alive (setcol r col v) = alive r.
Proof. unfold setcol. destruct (N.eqb col 0); reflexivity. Qed.

Section WithFlag4.
Variables lock_new gb : bool.

(* one statement of tx: its log grows by the entries d recorded for the rows it changed, and undoing d alone
   puts every slot back to the live content it had before the statement *)
Theorem stmt_log_slot e tx o l : aget (txs e) tx = Some l ->
  let e' := fst (stmt lock_new e tx o) in
  exists d, aget (txs e') tx = Some (l ++ d) /\
            (forall u, In u d -> nth_row (rows e') (u_rid u) <> None) /\
            (forall rid, live (restore d rid (nth_row (rows e') rid)) = live (nth_row (rows e) rid)).
Proof.
  intros Hl. destruct o; cbn [stmt];
    try (exists []; rewrite app_nil_r; split; [exact Hl|split; [intros u []|reflexivity]]).
  - (* insert *)
    unfold do_insert. cbn [fst]. set (rid := N.of_nat (length (rows e)) + 1). set (r := R true a b).
    exists [UIns rid (map (fun col => (col, getcol r col)) (hmeta e ++ bmeta e))]. cbn [txs rows]. split; [|split].
    + rewrite push_undo_get, Hl, N.eqb_refl. reflexivity.
    + intros u [<-|[]]. cbn [u_rid]. unfold nth_row, rid. destruct (N.eqb_spec (N.of_nat (length (rows e)) + 1) 0); [lia|].
      rewrite nth_error_app2 by lia. replace (N.to_nat (N.of_nat (length (rows e)) + 1 - 1) - length (rows e))%nat with 0%nat by lia. discriminate.
    + intros rid'. rewrite restore_one. cbn [u_rid]. destruct (N.eqb_spec rid' rid) as [->|Hne].
      * assert (G : nth_row (rows e ++ [r]) rid = Some r).
        { unfold nth_row, rid. destruct (N.eqb_spec (N.of_nat (length (rows e)) + 1) 0); [lia|].
          rewrite nth_error_app2 by lia. replace (N.to_nat (N.of_nat (length (rows e)) + 1 - 1) - length (rows e))%nat with 0%nat by lia. reflexivity. }
        rewrite G. cbn. assert (G0 : nth_row (rows e) rid = None).
        { unfold nth_row, rid. destruct (N.eqb_spec (N.of_nat (length (rows e)) + 1) 0); [reflexivity|]. apply nth_error_None. lia. }
        now rewrite G0.
      * now rewrite nth_row_app_other.
  - (* update *)
    destruct (do_write_cases e tx c (upd_one tx col v)) as [[o [k [E _]]]|[lt0 [E _]]]; rewrite E; cbn [fst].
    + exists []. rewrite app_nil_r. split; [exact Hl|split; [intros u []|reflexivity]].
    + set (e0 := with_txs e (txs e) lt0).
      assert (Hc : forall ir, In ir (matching e c) -> Current e0 ir) by (intros ir H; exact (matching_Current e c ir H)).
      destruct (fold_upd tx col v (matching e c) e0 l (matching_NoDup e c) Hc Hl) as [Ht [Hr Ho]].
      exists (map (mk_upd e0 col v) (matching e c)). split; [exact Ht|]. split.
      * intros u Hu. apply in_map_iff in Hu. destruct Hu as [[rid r] [<- Hin]]. cbn [mk_upd u_rid fst]. rewrite (Hr rid r Hin). discriminate.
      * intros rid. destruct (restore_map (mk_upd e0 col v) (matching e c) rid (nth_row (rows (fold_left (upd_one tx col v) (matching e c) e0)) rid)
                               (matching_NoDup e c) (fun ir => eq_refl)) as [R1 R2].
        destruct (in_dec N.eq_dec rid (map fst (matching e c))) as [Hin|Hnin].
        -- apply in_map_iff in Hin. destruct Hin as [[rid' r] [E' Hin]]. cbn in E'. subst rid'.
           rewrite (R1 r Hin), (Hr rid r Hin). destruct (matching_Current e c _ Hin) as [G A]. cbn [fst snd] in G, A.
           cbn [mk_upd undo_row fst snd]. rewrite setcol_alive, A, G. cbn. now rewrite A.
        -- rewrite (R2 Hnin), (Ho rid Hnin). reflexivity.
  - (* delete *)
    destruct (do_write_cases e tx c (del_one tx)) as [[o [k [E _]]]|[lt0 [E _]]]; rewrite E; cbn [fst].
    + exists []. rewrite app_nil_r. split; [exact Hl|split; [intros u []|reflexivity]].
    + set (e0 := with_txs e (txs e) lt0).
      assert (Hc : forall ir, In ir (matching e c) -> Current e0 ir) by (intros ir H; exact (matching_Current e c ir H)).
      destruct (fold_del tx (matching e c) e0 l (matching_NoDup e c) Hc Hl) as [Ht [Hr Ho]].
      exists (map (mk_del e0) (matching e c)). split; [exact Ht|]. split.
      * intros u Hu. apply in_map_iff in Hu. destruct Hu as [[rid r] [<- Hin]]. cbn [mk_del u_rid fst]. rewrite (Hr rid r Hin). discriminate.
      * intros rid. destruct (restore_map (mk_del e0) (matching e c) rid (nth_row (rows (fold_left (del_one tx) (matching e c) e0)) rid)
                               (matching_NoDup e c) (fun ir => eq_refl)) as [R1 R2].
        destruct (in_dec N.eq_dec rid (map fst (matching e c))) as [Hin|Hnin].
        -- apply in_map_iff in Hin. destruct Hin as [[rid' r] [E' Hin]]. cbn in E'. subst rid'.
           rewrite (R1 r Hin), (Hr rid r Hin). destruct (matching_Current e c _ Hin) as [G A]. cbn [fst snd] in G, A.
           cbn [mk_del undo_row fst snd alive]. rewrite G. cbn. now rewrite A.
        -- rewrite (R2 Hnin), (Ho rid Hnin). reflexivity.
Qed.
End WithFlag4.

(* ---------------------------------------------------------------- histories and the rollback theorem *)
Lemma undo_row_some x u : x <> None -> undo_row x u <> None.
Proof. destruct x as [c|]; [|congruence]. intros _. destruct u; cbn; destruct (alive c); discriminate. Qed.
Lemma restore_some l rid x : x <> None -> restore l rid x <> None.
Proof.
  unfold restore. generalize (filter (fun u => N.eqb rid (u_rid u)) (List.rev l)) as us. intros us. revert x.
  induction us as [|u r IH]; intros x H; cbn; [exact H|]. apply IH. now apply undo_row_some.
Qed.

Section WithFlag5.
Variables lock_new gb : bool.

(* A history of transaction tx as seen from row rid: tx's own statements, interleaved with ANY other state changes
   that leave tx's undo log alone, do not shrink the slab, and do not change the live content of row rid
   (for another writer this is what the row lock guarantees until it expires: stmt_exclusion). *)
Inductive Hist (tx rid : N) : eng -> eng -> Prop :=
| HNil e : Hist tx rid e e
| HOwn e o e2 : Hist tx rid (fst (stmt lock_new e tx o)) e2 -> Hist tx rid e e2
| HOther e e1 e2 :
    aget (txs e1) tx = aget (txs e) tx ->
    live (nth_row (rows e1) rid) = live (nth_row (rows e) rid) ->
    (nth_row (rows e) rid <> None -> nth_row (rows e1) rid <> None) ->
    Hist tx rid e1 e2 -> Hist tx rid e e2.

Lemma stmt_keeps_slot e tx o rid : nth_row (rows e) rid <> None -> nth_row (rows (fst (stmt lock_new e tx o))) rid <> None.
Proof.
  intros H. assert (Hl : (length (rows e) <= length (rows (fst (stmt lock_new e tx o))))%nat).
  { destruct o; cbn [stmt]; try apply Nat.le_refl.
    - unfold do_insert. cbn. rewrite app_length. cbn. lia.
    - destruct (do_write_cases e tx c (upd_one tx col v)) as [[o [k [E _]]]|[lt0 [E _]]]; rewrite E; cbn [fst]; [apply Nat.le_refl|].
      rewrite (fold_len (upd_one tx col v) (matching e c) (upd_one_len tx col v)). apply Nat.le_refl.
    - destruct (do_write_cases e tx c (del_one tx)) as [[o [k [E _]]]|[lt0 [E _]]]; rewrite E; cbn [fst]; [apply Nat.le_refl|].
      rewrite (fold_len (del_one tx) (matching e c) (del_one_len tx)). apply Nat.le_refl. }
  unfold nth_row in *. destruct (N.eqb_spec rid 0); [exact H|]. intros Hn. apply H.
  apply nth_error_None in Hn. apply nth_error_None. lia.
Qed.

Theorem hist_restore tx rid e0 e : Hist tx rid e0 e -> forall l0, aget (txs e0) tx = Some l0 ->
  exists d, aget (txs e) tx = Some (l0 ++ d) /\
            (nth_row (rows e0) rid <> None -> nth_row (rows e) rid <> None) /\
            live (restore d rid (nth_row (rows e) rid)) = live (nth_row (rows e0) rid).
Proof.
  induction 1 as [e|e o e2 H IH|e e1 e2 Ht Hlv Hs H IH]; intros l0 Hl.
  - exists []. rewrite app_nil_r. repeat split; auto.
  - destruct (stmt_log_slot lock_new e tx o l0 Hl) as [d1 [Ht1 [Hex Hr1]]].
    destruct (IH _ Ht1) as [d2 [Ht2 [Hs2 Hr2]]].
    exists (d1 ++ d2). split; [now rewrite app_assoc|]. split.
    + intros Hn. apply Hs2. now apply stmt_keeps_slot.
    + rewrite restore_app. rewrite <- (Hr1 rid).
      destruct (existsb (fun u => N.eqb rid (u_rid u)) d1) eqn:Ex.
      * apply existsb_exists in Ex. destruct Ex as [u [Hu Eu]]. apply N.eqb_eq in Eu.
        assert (S1 : nth_row (rows (fst (stmt lock_new e tx o))) rid <> None) by (rewrite Eu; now apply Hex).
        apply restore_cong. split; [|exact Hr2].
        split; intros Hn; exfalso; [revert Hn; apply restore_some; now apply Hs2|contradiction].
      * assert (Hno : forall u, In u d1 -> u_rid u <> rid).
        { intros u Hu E. assert (existsb (fun u => N.eqb rid (u_rid u)) d1 = true); [|congruence].
          apply existsb_exists. exists u. split; [exact Hu|]. apply N.eqb_eq. auto. }
        rewrite !(restore_none d1) by exact Hno. exact Hr2.
  - rewrite <- Ht in Hl. destruct (IH _ Hl) as [d [Ht2 [Hs2 Hr2]]].
    exists d. split; [exact Ht2|]. split; [auto|]. now rewrite Hr2.
Qed.

(* ROLLBACK, row by row: take tx right after begin_transaction (empty log).  Whatever it then does, and whatever
   happens in between that leaves row rid alone, rolling tx back puts row rid back to the live content it had when
   tx began: present with the same values, or absent. *)
Theorem rollback_restores_row tx rid e0 e : Hist tx rid e0 e -> aget (txs e0) tx = Some [] ->
  exists l, aget (txs e) tx = Some l /\
            live (nth_row (rows (fst (do_rollback gb e tx l))) rid) = live (nth_row (rows e0) rid).
Proof.
  intros H Hl. destruct (hist_restore tx rid e0 e H [] Hl) as [d [Ht [_ Hr]]]. cbn [app] in Ht.
  exists d. split; [exact Ht|]. now rewrite rollback_slot.
Qed.
End WithFlag5.
