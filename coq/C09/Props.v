From NV.Common Require Import Base LockTable LockTableFacts.
From NV.C09 Require Import Model Proofs Inst.
Open Scope N_scope.
Theorem C09_placeholder : True. Proof. exact I. Qed.
Print Assumptions C09_placeholder.
