(* C09/Props.v -- pinned property theorems for C09 (relational transactions); statements in full.
   `mstep` / `mrun` = the model step / run with the flag regenerated from relational_engine/src/lib.rs
   (tx_insert locks the row it inserts; Inst.gen_c09_spec re-proves on every run that it is `true`). *)
From NV.Common Require Import Base LockTable LockTableFacts.
From NV.C09 Require Import Model Proofs IndexProofs Inst.
From NV.gen Require Import Gen_C09.
Open Scope N_scope.

Notation mstep := (rstep gen_insert_locks_row gen_undo_btree_guarded).
Notation mrun := (rrun gen_insert_locks_row gen_undo_btree_guarded).
Notation mstmt := (stmt gen_insert_locks_row).

(* "While a transaction has modified a row, no other transaction can modify or delete that row: it receives a
   lock-conflict error instead": in every reachable state, a statement of transaction tx (an explicit one or the
   internal one of insert/update/delete_rows) never changes a row whose unexpired lock belongs to another
   transaction, and if its condition matches such a row the whole statement is refused with LockConflict naming a
   real unexpired foreign holder, leaving the state unchanged. *)
Theorem C09_row_lock_exclusion : forall ops ltmo0 tx o rid Y,
  let e := mrun (einit ltmo0) ops in
  holder (enow e) (ltab e) rid = Some Y -> Y <> tx ->
  nth_row (rows (fst (mstmt e tx o))) rid = nth_row (rows e) rid /\
  (forall c, (exists col v t, o = RUpdate t c col v) \/ (exists t, o = RDelete t c) ->
     In rid (map fst (matching e c)) ->
     exists b k, mstmt e tx o = (e, [4; b; k]) /\ In k (map fst (matching e c)) /\ holder (enow e) (ltab e) k = Some b /\ b <> tx).
Proof.
  intros ops ltmo0 tx o rid Y e Hh Hne. split.
  - apply (stmt_exclusion _ e tx o rid Y); auto. exact (proj1 (proj2 (rrun_EInv _ _ ops _ (einit_EInv ltmo0)))).
  - intros c Ho Hin. eapply stmt_conflict; eauto.
Qed.

(* ... and the writer really holds those locks: a successful update/delete leaves every matched row locked by its
   transaction, and tx_insert leaves the new row locked by the inserting transaction. *)
Theorem C09_writer_holds_lock : forall ops ltmo0 tx,
  let e := mrun (einit ltmo0) ops in
  (forall c o n, (exists col v t, o = RUpdate t c col v) \/ (exists t, o = RDelete t c) ->
     snd (mstmt e tx o) = [0; n] ->
     forall k, In k (map fst (matching e c)) -> holder (enow e) (ltab (fst (mstmt e tx o))) k = Some tx) /\
  (forall a b t, exists rid, snd (mstmt e tx (RInsert t a b)) = [0; rid] /\
     holder (enow e) (ltab (fst (mstmt e tx (RInsert t a b)))) rid = Some tx /\
     nth_row (rows (fst (mstmt e tx (RInsert t a b)))) rid = Some (R true a b)).
Proof.
  intros ops ltmo0 tx e. split.
  - intros c o n Ho Hr k Hk. eapply writer_holds_lock; eauto.
  - intros a b t. destruct gen_c09_spec as [-> _]. apply inserter_holds_lock. exact (rrun_EInv _ _ ops _ (einit_EInv ltmo0)).
Qed.

(* "the locks disappear when the first one ends": after commit or rollback of an active transaction no lock is
   owned by it (expiry is lazy: a lock past its timeout never blocks, see LockTable.blocks). *)
Theorem C09_locks_released_at_end : forall ops ltmo0 tx l k lk,
  let e := mrun (einit ltmo0) ops in
  aget (txs e) tx = Some l ->
  (aget (locks (ltab (fst (mstep e (RCommit tx))))) k = Some lk -> owner lk <> tx) /\
  (aget (locks (ltab (fst (mstep e (RRollback tx))))) k = Some lk -> owner lk <> tx).
Proof.
  intros ops ltmo0 tx l k lk e G. pose proof (rrun_EInv gen_insert_locks_row gen_undo_btree_guarded ops _ (einit_EInv ltmo0)) as I. fold e in I.
  cbn [rstep]. rewrite G. split.
  - cbn [fst]. apply end_tx_releases. exact I.
  - pose proof (rollback_releases gen_undo_btree_guarded e tx l I k lk) as H. destruct (do_rollback gen_undo_btree_guarded e tx l) as [e' err]. exact H.
Qed.

(* "Finished transactions cannot be used again": commit and rollback end the transaction; from then on, after ANY
   further operations, every call naming it answers TransactionNotFound and changes nothing (ids are never reused). *)
Theorem C09_finished_unusable : forall ops ltmo0 tx l fin ops' o,
  let e := mrun (einit ltmo0) ops in
  aget (txs e) tx = Some l -> fin = RCommit tx \/ fin = RRollback tx ->
  let e' := mrun (fst (mstep e fin)) ops' in
  (exists a b, o = RInsert (Some tx) a b) \/ (exists c col v, o = RUpdate (Some tx) c col v) \/ (exists c, o = RDelete (Some tx) c)
  \/ o = RCommit tx \/ o = RRollback tx ->
  mstep e' o = (e', [1]).
Proof.
  intros ops ltmo0 tx l fin ops' o e G Hfin e' Ho.
  pose proof (rrun_EInv gen_insert_locks_row gen_undo_btree_guarded ops _ (einit_EInv ltmo0)) as I. fold e in I.
  destruct (finish_makes_Gone gen_insert_locks_row gen_undo_btree_guarded e tx I (ex_intro _ l G)) as [Gc Gr].
  assert (Hg : Gone (fst (mstep e fin)) tx) by (destruct Hfin as [-> | ->]; assumption).
  apply (gone_rejected gen_insert_locks_row gen_undo_btree_guarded e' tx o); [|exact Ho]. exact (proj1 (rrun_Gone gen_insert_locks_row gen_undo_btree_guarded ops' _ tx Hg)).
Qed.

(* "every query answered through an index": when the indexes are complete (every live row is listed in every
   existing hash / B-tree index), the B-tree entries of live rows carry the rows' current values and the entry lists
   are duplicate-free, select through an index returns exactly what the scan returns -- same rows, each once, same order. *)
Theorem C09_index_answers_equal_scan : forall e c,
  NoDup (hent e) -> NoDup (bent e) ->
  (forall col rid r, In col (hmeta e) -> In (rid, r) (scan (rows e)) -> In (col, getcol r col, rid) (hent e)) ->
  (forall col rid r, In col (bmeta e) -> In (rid, r) (scan (rows e)) -> In (col, getcol r col, rid) (bent e)) ->
  (forall col v rid r, In col (bmeta e) -> In (col, v, rid) (bent e) -> In (rid, r) (scan (rows e)) -> v = getcol r col) ->
  select_ids e c = map fst (matching e c).
Proof. intros e c H1 H2 H3 H4 H5. apply select_index_eq_scan. exact (conj H1 (conj H2 (conj (conj H3 H4) H5))). Qed.

(* "Rolling back a transaction leaves every table ... exactly as if none of the transaction's statements had run":
   row by row, for EVERY interleaving.  Hist tx rid e0 e = from e0 to e, tx ran any of its statements, interleaved
   with arbitrary other state changes that leave tx's undo log alone, do not shrink the slab and do not change the
   live content of row rid (for other writers C09_row_lock_exclusion guarantees this while tx's row lock has not
   expired; the complement is the known class rollback-after-lock-expiry).  If tx's log was empty at e0 (it had just
   begun), rolling it back at e gives row rid the live content it had at e0: the same values, or absent. *)
Theorem C09_rollback_restores_row : forall tx rid e0 e,
  Hist gen_insert_locks_row tx rid e0 e -> aget (txs e0) tx = Some [] ->
  exists l, aget (txs e) tx = Some l /\
            live (nth_row (rows (fst (do_rollback gen_undo_btree_guarded e tx l))) rid) = live (nth_row (rows e0) rid).
Proof. exact (rollback_restores_row gen_insert_locks_row gen_undo_btree_guarded). Qed.

(* "... and every query answered through an index": after ANY history of well-formed operations that contains no
   rollback (inserts, updates, deletes inside and outside transactions, commits, index creation at any time, lock
   expiry), every Eq / Lt / Ge / And query answered through a hash or B-tree index returns exactly what the scan
   returns: the same rows, each once, in the same order. *)
Theorem C09_index_answers_equal_scan_reachable : forall ops ltmo0 c,
  Forall wf_op ops -> (forall tx, ~ In (RRollback tx) ops) ->
  let e := mrun (einit ltmo0) ops in select_ids e c = map fst (matching e c).
Proof.
  intros ops ltmo0 c Hw Hn e. apply select_index_eq_scan, AllGood_EntOK. unfold e. clear e.
  destruct gen_c09_spec as [_ [_ [_ [_ [_ [-> _]]]]]].
  assert (G : forall ops e0, Forall wf_op ops -> (forall tx, ~ In (RRollback tx) ops) -> AllGood e0 -> AllGood (rrun gen_insert_locks_row true e0 ops)).
  { clear. induction ops as [|o r IH]; intros e0 Hw Hn G0; [exact G0|].
    change (rrun gen_insert_locks_row true e0 (o :: r)) with (rrun gen_insert_locks_row true (fst (rstep gen_insert_locks_row true e0 o)) r).
    inversion Hw; subst. apply IH; auto.
    - intros tx Hin. apply (Hn tx). now right.
    - apply rstep_AllGood; auto. intros tx ->. apply (Hn tx). now left. }
  apply G; auto. apply einit_AllGood.
Qed.

(* ... and through rollbacks: let tx begin in a state reached without rollbacks (log empty); let it run any of its
   (well-formed) statements, interleaved, as seen from every row, with other state changes that leave tx's log, that
   row, the index metadata and the other rows' index entries alone (HistI; the excluded interleavings are exactly the
   two known classes: another writer after lock expiry, and index creation inside the open transaction).
   Then after rolling tx back every query through an index again answers exactly like the scan. *)
Theorem C09_rollback_restores_indexes : forall ops ltmo0 e c,
  Forall wf_op ops -> (forall tx, ~ In (RRollback tx) ops) ->
  let eb := mrun (einit ltmo0) ops in let tx := nexttx eb in let e0 := fst (mstep eb RBegin) in
  (forall rid, HistI gen_insert_locks_row tx rid e0 e) ->
  exists l, aget (txs e) tx = Some l /\
    let e' := fst (do_rollback gen_undo_btree_guarded e tx l) in select_ids e' c = map fst (matching e' c).
Proof.
  intros ops ltmo0 e c Hw Hn eb tx e0 H.
  assert (Gb : AllGood eb).
  { unfold eb. destruct gen_c09_spec as [_ [_ [_ [_ [_ [Eg _]]]]]]. rewrite Eg.
    assert (G : forall ops e0, Forall wf_op ops -> (forall tx, ~ In (RRollback tx) ops) -> AllGood e0 -> AllGood (rrun gen_insert_locks_row true e0 ops)).
    { clear. induction ops as [|o r IH]; intros e0 Hw Hn G0; [exact G0|].
      change (rrun gen_insert_locks_row true e0 (o :: r)) with (rrun gen_insert_locks_row true (fst (rstep gen_insert_locks_row true e0 o)) r).
      inversion Hw; subst. apply IH; auto.
      - intros tx Hin. apply (Hn tx). now right.
      - apply rstep_AllGood; auto. intros tx ->. apply (Hn tx). now left. }
    apply G; auto. apply einit_AllGood. }
  assert (G0 : AllGood e0) by (unfold e0; cbn [rstep begin fst]; apply (AllGood_data eb); auto).
  assert (Hl : aget (txs e0) tx = Some []) by (unfold e0, tx; cbn [rstep begin fst txs]; now rewrite aget_aset, N.eqb_refl).
  destruct (rollback_keeps_all_indexes gen_insert_locks_row tx e0 e H Hl G0) as [l [Ht Ga]].
  exists l. split; [exact Ht|]. destruct gen_c09_spec as [_ [_ [_ [_ [_ [-> _]]]]]]. cbv zeta.
  apply select_index_eq_scan, AllGood_EntOK, Ga.
Qed.

(* "committing makes all of them permanent": commit touches neither rows nor index entries. *)
Theorem C09_commit_keeps_all : forall e tx,
  let e' := fst (mstep e (RCommit tx)) in
  rows e' = rows e /\ hent e' = hent e /\ bent e' = bent e /\ hmeta e' = hmeta e /\ bmeta e' = bmeta e.
Proof. intros e tx. cbn [rstep]. destruct (aget (txs e) tx); cbn; auto. Qed.

(* the two recorded classes are real: without their guards the statements are false of the faithful model *)
Theorem C09_rollback_after_expiry_refuted :
  exists ops, let e := mrun (einit 30000) ops in
    live (nth_row (rows e) 1) = Some (0, 1) /\                       (* T2's committed update *)
    live (nth_row (rows (fst (mstep e (RRollback 2)))) 1) = Some (1, 1). (* ... destroyed by T1's rollback *)
Proof.
  exists [RInsert None 1 1; RBegin; RUpdate (Some 2) CTrue 0 2; RBegin; RAdvance 30001; RUpdate (Some 3) CTrue 0 0; RCommit 3].
  vm_compute. split; reflexivity.
Qed.

Theorem C09_index_created_in_open_tx_refuted :
  exists ops c, let e := mrun (einit 30000) ops in select_ids e c <> map fst (matching e c).
Proof.
  exists [RInsert None 1 1; RBegin; RDelete (Some 2) (CEq 0 1); RCreateIndex 0; RRollback 2], (CEq 0 1).
  vm_compute. discriminate.
Qed.

(* ---------------------------------------------------------------- non-vacuity *)
Example ex_conflict :
  let e := mrun (einit 30000) [RInsert None 1 1; RBegin; RUpdate (Some 2) CTrue 0 2; RBegin] in
  holder (enow e) (ltab e) 1 = Some 2 /\ mstmt e 3 (RDelete (Some 3) (CEq 1 1)) = (e, [4; 2; 1]) /\
  snd (mstep (fst (mstep e (RCommit 2))) (RUpdate (Some 2) CTrue 0 0)) = [1].
Proof. vm_compute. repeat split. Qed.

(* a history with two own statements around a foreign insert; the rollback really has something to undo *)
Example ex_hist :
  let e0 := mrun (einit 30000) [RInsert None 1 1; RBegin] in
  let e1 := fst (mstmt e0 2 (RUpdate (Some 2) CTrue 0 2)) in
  let e2 := fst (mstep e1 (RInsert None 0 0)) in
  let e3 := fst (mstmt e2 2 (RDelete (Some 2) (CEq 0 2))) in
  Hist gen_insert_locks_row 2 1 e0 e3 /\ live (nth_row (rows e3) 1) = None /\ live (nth_row (rows e0) 1) = Some (1, 1).
Proof.
  cbv zeta. split; [|vm_compute; split; reflexivity].
  apply HOwn with (o := RUpdate (Some 2) CTrue 0 2).
  eapply HOther; [| | |apply HOwn with (o := RDelete (Some 2) (CEq 0 2)); apply HNil]; vm_compute; (reflexivity || discriminate).
Qed.

(* HistI is inhabited for every row at once by a transaction that updates and then deletes, with a commit of
   another transaction in between *)
Example ex_histI :
  let eb := mrun (einit 30000) [RCreateIndex 0; RCreateBtree 1; RInsert None 1 1; RInsert None 2 0] in
  let e0 := fst (mstep eb RBegin) in
  let e1 := fst (mstmt e0 (nexttx eb) (RUpdate (Some (nexttx eb)) (CGe 0 1) 1 2)) in
  let e2 := fst (mstmt e1 (nexttx eb) (RDelete (Some (nexttx eb)) (CEq 0 2))) in
  (forall rid, HistI gen_insert_locks_row (nexttx eb) rid e0 e2) /\ map fst (matching e2 CTrue) = [1] /\ map fst (matching e0 CTrue) = [1; 2].
Proof.
  intros eb e0 e1 e2. split; [|vm_compute; split; reflexivity].
  intros rid. apply (HIown gen_insert_locks_row (nexttx eb) rid e0 (RUpdate (Some (nexttx eb)) (CGe 0 1) 1 2) e2); [exact (eq_refl : (1 ?= 2) = Lt)|].
  apply (HIown gen_insert_locks_row (nexttx eb) rid e1 (RDelete (Some (nexttx eb)) (CEq 0 2)) e2); [exact I|]. apply HI0.
Qed.

Print Assumptions C09_row_lock_exclusion.
Print Assumptions C09_writer_holds_lock.
Print Assumptions C09_locks_released_at_end.
Print Assumptions C09_finished_unusable.
Print Assumptions C09_index_answers_equal_scan.
Print Assumptions C09_index_answers_equal_scan_reachable.
Print Assumptions C09_rollback_restores_indexes.
Print Assumptions C09_rollback_restores_row.
Print Assumptions C09_commit_keeps_all.
Print Assumptions C09_rollback_after_expiry_refuted.
Print Assumptions C09_index_created_in_open_tx_refuted.
