(* C09/Run.v -- executable entry points: model trace + property oracle on the IMPLEMENTATION's observations. *)
From NV.Common Require Import Base LockTable.
From NV.C09 Require Import Model.
From NV.gen Require Import Gen_C09.
Open Scope N_scope.

Definition is_nil {A} (l : list A) : bool := match l with [] => true | _ => false end.
Definition lN_eqb := list_eqb N.eqb.
Definition oN_eqb := option_eqb N.eqb.
Definition vals_eqb (x y : N * N) : bool := N.eqb (fst x) (fst y) && N.eqb (snd x) (snd y).
Definition ovals_eqb := option_eqb vals_eqb.

(* what the harness reads back after every call *)
Record dump := Dmp {
  d_rows : list (N * (N * N));     (* select(True): (id, (a, b)), ascending id *)
  d_q : list (list N);             (* ids answered by each query of `queries V` *)
  d_holders : list (option N);     (* row_lock_holder("t", id), id = 1..R *)
  d_nlocks : N;                    (* active_lock_count() *)
  d_ntx : N                        (* active_transaction_count() *)
}.
Definition dump_eqb (x y : dump) : bool :=
  list_eqb (fun p q => N.eqb (fst p) (fst q) && vals_eqb (snd p) (snd q)) (d_rows x) (d_rows y)
  && list_eqb lN_eqb (d_q x) (d_q y) && list_eqb oN_eqb (d_holders x) (d_holders y)
  && N.eqb (d_nlocks x) (d_nlocks y) && N.eqb (d_ntx x) (d_ntx y).

(* the fixed query list: Eq / Lt / Ge on both columns for every value below V *)
Definition queries (V : N) : list cond :=
  let vs := N_seq V in
  map (CEq 0) vs ++ map (CEq 1) vs ++ map (CLt 0) vs ++ map (CLt 1) vs ++ map (CGe 0) vs ++ map (CGe 1) vs.

Definition model_dump (V Rn : N) (e : eng) : dump :=
  Dmp (map (fun ir => (fst ir, (va (snd ir), vb (snd ir)))) (scan (rows e)))
      (map (select_ids e) (queries V))
      (map (fun k => holder (enow e) (ltab e) (N.succ k)) (N_seq Rn))
      (lock_count (ltab e))
      (N.of_nat (length (txs e))).

Notation mstep := (rstep gen_insert_locks_row gen_undo_btree_guarded).

Definition obs := (list N * dump)%type.
Fixpoint model_ok (V Rn : N) (e : eng) (ops : list rop) (os : list obs) : bool :=
  match ops, os with
  | [], [] => true
  | o :: ops', (ret, d) :: os' =>
      let '(e', mret) := mstep e o in
      lN_eqb mret ret && dump_eqb (model_dump V Rn e') d && model_ok V Rn e' ops' os'
  | _, _ => false
  end.

(* ------------------------------------------------------------------ oracle on the implementation's observations *)
Definition row_at (d : dump) (rid : N) : option (N * N) := aget (d_rows d) rid.
Definition all_ids (x y : dump) : list N :=
  fold_left (fun acc k => set_add k acc) (map fst (d_rows x) ++ map fst (d_rows y)) [].
Definition changed (pre post : dump) : list N :=
  filter (fun rid => negb (ovals_eqb (row_at pre rid) (row_at post rid))) (all_ids pre post).

(* (tx, rid, first pre-image, time of tx's latest change of rid) *)
Definition touch := (N * N * option (N * N) * N)%type.
Definition t_tx (t : touch) := fst (fst (fst t)).
Definition t_rid (t : touch) := snd (fst (fst t)).
Definition t_pre (t : touch) := snd (fst t).
Definition t_time (t : touch) := snd t.

Record ost := OS {
  o_active : list N; o_done : list N;
  o_touch : list touch;
  o_foreign : list (N * N * bool);    (* (tx, rid, after expiry): somebody else changed rid after tx did *)
  o_ddlh : list N; o_ddlb : list N;   (* hash / B-tree indexes created while some open tx had changed rows *)
  o_now : N;
  o_known : list N;
  o_broken : list N     (* open transactions one of whose statements failed half-way (index budget): their partial changes and
                           the index entries of the rows they touched stay inconsistent until they are rolled back *)
}.
Definition o0 : ost := OS [] [] [] [] [] [] 1000 [] [].

Definition find_touch (l : list touch) (tx rid : N) : option touch :=
  find (fun t => N.eqb (t_tx t) tx && N.eqb (t_rid t) rid) l.
Definition find_foreign (l : list (N * N * bool)) (tx rid : N) : option bool :=
  match find (fun f => N.eqb (fst (fst f)) tx && N.eqb (snd (fst f)) rid) l with Some f => Some (snd f) | None => None end.

(* index answers must equal the filter over the scan; a wrong answer through an index created inside an open
   transaction is the known class 1, anything else a violation.  Returns None = violation, Some known-hit *)
(* the oracle reads conditions on the observed (id, (a, b)) triples; column 2 is the system column `_id`
   (the model has columns 0 and 1 only: cases with an index or a condition on `_id` are judged by this oracle alone) *)
Definition valo (col rid a b : N) : N := if N.eqb col 0 then a else if N.eqb col 1 then b else rid.
Fixpoint evalo (c : cond) (rid a b : N) : bool :=
  match c with
  | CTrue => true
  | CEq col v => N.eqb (valo col rid a b) v
  | CLt col v => N.ltb (valo col rid a b) v
  | CGe col v => N.leb v (valo col rid a b)
  | CAnd x y => evalo x rid a b && evalo y rid a b
  end.
Definition evalo_row (c : cond) (ir : N * (N * N)) : bool := evalo c (fst ir) (fst (snd ir)) (snd (snd ir)).

Definition cond_col (c : cond) : N * bool := (* column, is_btree *)
  match c with CEq col _ => (col, false) | CLt col _ => (col, true) | CGe col _ => (col, true) | _ => (0, false) end.
Fixpoint index_check (o : ost) (rws : list (N * (N * N))) (qs : list cond) (ans : list (list N)) (hit : bool) : option bool :=
  match qs, ans with
  | [], [] => Some hit
  | c :: qs', a :: ans' =>
      let want := map fst (filter (evalo_row c) rws) in
      if lN_eqb want a then index_check o rws qs' ans' hit
      else let '(col, bt) := cond_col c in
           if mem col (if bt then o_ddlb o else o_ddlh o) then index_check o rws qs' ans' true
           (* a rollback of class 0 has already rewritten a row under a foreign change: its index entries follow *)
           else if mem 0 (o_known o) then index_check o rws qs' ans' hit else None
  | _, _ => None
  end.

Definition actor (o : rop) : option N :=
  match o with RInsert t _ _ => t | RUpdate t _ _ _ => t | RDelete t _ => t | _ => None end.
Definition is_stmt (o : rop) : bool :=
  match o with RInsert _ _ _ | RUpdate _ _ _ _ | RDelete _ _ => true | _ => false end.

Definition finish (o : ost) (tx : N) : ost :=
  OS (set_remove tx (o_active o)) (set_add tx (o_done o))
     (filter (fun t => negb (N.eqb (t_tx t) tx)) (o_touch o))
     (filter (fun f => negb (N.eqb (fst (fst f)) tx)) (o_foreign o))
     (o_ddlh o) (o_ddlb o) (o_now o) (o_known o) (o_broken o).
Definition unbreak (o : ost) (tx : N) : ost :=
  OS (o_active o) (o_done o) (o_touch o) (o_foreign o) (o_ddlh o) (o_ddlb o) (o_now o) (o_known o) (set_remove tx (o_broken o)).
Definition break (o : ost) (tx : N) : ost :=
  OS (o_active o) (o_done o) (o_touch o) (o_foreign o) (o_ddlh o) (o_ddlb o) (o_now o) (o_known o) (set_add tx (o_broken o)).
Definition add_known (o : ost) (k : N) : ost :=
  OS (o_active o) (o_done o) (o_touch o) (o_foreign o) (o_ddlh o) (o_ddlb o) (o_now o) (set_add k (o_known o)) (o_broken o).
Definition none_held (tx : N) (d : dump) : bool :=
  forallb (fun h => match h with Some a => negb (N.eqb a tx) | None => true end) (d_holders d).

(* a statement by `who` (None = not in a transaction) changed the rows `ch`: lock exclusion + bookkeeping *)
Fixpoint on_changes (ltmo : N) (who : option N) (pre : dump) (ch : list N) (o : ost) : option ost :=
  match ch with
  | [] => Some o
  | rid :: r =>
      let others := filter (fun t => N.eqb (t_rid t) rid && negb (oN_eqb (Some (t_tx t)) who) && mem (t_tx t) (o_active o)) (o_touch o) in
      (* while another open transaction has changed this row and its lock cannot have expired, nobody else may change it *)
      if existsb (fun t => N.leb (o_now o - t_time t) ltmo) others then None
      else
        let fo := map (fun t => (t_tx t, rid, true)) others ++ o_foreign o in
        let tl := match who with
                  | Some tx =>
                      match find_touch (o_touch o) tx rid with
                      | Some t => (tx, rid, t_pre t, o_now o) :: filter (fun t' => negb (N.eqb (t_tx t') tx && N.eqb (t_rid t') rid)) (o_touch o)
                      | None => (tx, rid, row_at pre rid, o_now o) :: o_touch o
                      end
                  | None => o_touch o
                  end in
        on_changes ltmo who pre r (OS (o_active o) (o_done o) tl fo (o_ddlh o) (o_ddlb o) (o_now o) (o_known o) (o_broken o))
  end.

(* rollback of tx: every row it changed is back to its first pre-image and nothing else moved -- unless somebody
   else changed the row in between (possible only after the row lock expired): then a rollback that rewrites the row
   is the known class 0 *)
Fixpoint on_rollback (tx : N) (pre post : dump) (ids : list N) (o : ost) : option ost :=
  match ids with
  | [] => Some o
  | rid :: r =>
      let moved := negb (ovals_eqb (row_at pre rid) (row_at post rid)) in
      match find_touch (o_touch o) tx rid with
      | None => if moved then None else on_rollback tx pre post r o
      | Some t =>
          match find_foreign (o_foreign o) tx rid with
          | Some after_expiry =>
              if moved then (if after_expiry then on_rollback tx pre post r (add_known o 0) else None)
              else on_rollback tx pre post r o
          | None => if ovals_eqb (row_at post rid) (t_pre t) then on_rollback tx pre post r o else None
          end
      end
  end.

(* a refused call takes and drops no lock: the holders read back are the same *)
Definition holders_same (pre post : dump) : bool := list_eqb oN_eqb (d_holders pre) (d_holders post) && N.eqb (d_nlocks pre) (d_nlocks post).

Definition ok_ret (ret : list N) : bool := match ret with 0 :: _ => true | _ => false end.

(* rows a successful update / delete matched (and therefore locked and logged), whether or not their values moved *)
Definition matched_ids (op : rop) (pre : dump) : list N :=
  match op with
  | RUpdate _ c _ _ | RDelete _ c => map fst (filter (evalo_row c) (d_rows pre))
  | _ => []
  end.
Definition touch_more (tx : N) (pre : dump) (ids : list N) (o : ost) : ost :=
  fold_left (fun o rid =>
    match find_touch (o_touch o) tx rid with
    | Some t => OS (o_active o) (o_done o)
                   ((tx, rid, t_pre t, o_now o) :: filter (fun t' => negb (N.eqb (t_tx t') tx && N.eqb (t_rid t') rid)) (o_touch o))
                   (o_foreign o) (o_ddlh o) (o_ddlb o) (o_now o) (o_known o) (o_broken o)
    | None => OS (o_active o) (o_done o) ((tx, rid, row_at pre rid, o_now o) :: o_touch o)
                 (o_foreign o) (o_ddlh o) (o_ddlb o) (o_now o) (o_known o) (o_broken o)
    end) ids o.

Definition ostep (bud : bool) (qs : list cond) (ltmo : N) (o : ost) (op : rop) (ret : list N) (pre post : dump) : option ost :=
  let ch := changed pre post in
  let o1 :=
    match op with
    | RBegin => match ret with [tx] => if is_nil ch then Some (OS (set_add tx (o_active o)) (o_done o) (o_touch o) (o_foreign o) (o_ddlh o) (o_ddlb o) (o_now o) (o_known o) (o_broken o)) else None | _ => None end
    | RInsert _ _ _ | RUpdate _ _ _ _ | RDelete _ _ =>
        match actor op with
        | Some tx =>
            (* finished transactions cannot be used again *)
            if mem tx (o_done o) then (if lN_eqb ret [1] && is_nil ch then Some o else None)
            else if ok_ret ret then option_map (touch_more tx pre (matched_ids op pre)) (on_changes ltmo (Some tx) pre ch o)
            (* [6] = the statement failed half-way (B-tree entry budget): what it did so far belongs to tx and must go
               away when tx is rolled back; until then tx is "broken" *)
            else if lN_eqb ret [6] then option_map (fun o' => break (touch_more tx pre (matched_ids op pre) o') tx) (on_changes ltmo (Some tx) pre ch o)
            else if is_nil ch && holders_same pre post then Some o else None        (* a refused statement changes nothing: no row, no lock *)
        (* outside a transaction a failed statement is rolled back internally: nothing may remain of it *)
        | None => if ok_ret ret then on_changes ltmo None pre ch o else if is_nil ch then Some o else None
        end
    | RCommit tx =>
        if mem tx (o_done o) then (if lN_eqb ret [1] && is_nil ch then Some o else None)
        else if ok_ret ret then (if is_nil ch && none_held tx post then Some (finish o tx) else None)
        else if is_nil ch then Some o else None
    | RRollback tx =>
        if mem tx (o_done o) then (if lN_eqb ret [1] && is_nil ch then Some o else None)
        else match ret with
             | [1] => if is_nil ch then Some o else None
             | _ => if negb (none_held tx post) then None
                    else match on_rollback tx pre post (all_ids pre post) o with
                         | Some o' =>
                             (* also with a small B-tree entry budget: the undo re-adds the entries the transaction removed
                                whatever the budget says (relational_engine commit 318ccde5), so after the rollback rows AND
                                index answers are back *)
                             Some (unbreak (finish o' tx) tx)
                         | None => None
                         end
             end
    | RCreateIndex col =>
        if negb (is_nil ch) then None
        else if ok_ret ret && negb (is_nil (o_touch o))
        then Some (OS (o_active o) (o_done o) (o_touch o) (o_foreign o) (set_add col (o_ddlh o)) (o_ddlb o) (o_now o) (o_known o) (o_broken o)) else Some o
    | RCreateBtree col =>
        if negb (is_nil ch) then None
        else if ok_ret ret && negb (is_nil (o_touch o))
        then Some (OS (o_active o) (o_done o) (o_touch o) (o_foreign o) (o_ddlh o) (set_add col (o_ddlb o)) (o_now o) (o_known o) (o_broken o)) else Some o
    | RAdvance d => if is_nil ch then Some (OS (o_active o) (o_done o) (o_touch o) (o_foreign o) (o_ddlh o) (o_ddlb o) (o_now o + d) (o_known o) (o_broken o)) else None
    | RCleanupLocks => if is_nil ch then Some o else None
    end in
  match o1 with
  | None => None
  | Some o2 =>
      if negb (is_nil (o_broken o2)) then Some o2 else
      match index_check o2 (d_rows post) qs (d_q post) false with
      | None => None
      | Some true => Some (add_known o2 1)
      | Some false => Some o2
      end
  end.

Fixpoint owalk (bud : bool) (qs : list cond) (ltmo : N) (o : ost) (ops : list rop) (os : list obs) (pre : dump) : option ost :=
  match ops, os with
  | op :: ops', (ret, post) :: os' =>
      match ostep bud qs ltmo o op ret pre post with
      | Some o' => owalk bud qs ltmo o' ops' os' post
      | None => None
      end
  | _, _ => Some o
  end.

(* (V values, R row ids shown, lock timeout ms, ops, observations) *)
Definition c09_case := (N * N * N * list rop * list obs)%type.
Definition check_rel (c : c09_case) : N :=
  let '(V, Rn, ltmo0, ops, os) := c in
  let e0 := einit ltmo0 in
  if negb (Nat.eqb (length ops) (length os)) then 9
  else match owalk false (queries V) ltmo0 o0 ops os (model_dump V Rn e0) with
       | None => V_VIOLATION
       | Some o =>
           if negb (model_ok V Rn e0 ops os) then V_MISMATCH
           else match o_known o with
                | [] => V_OK
                | k :: _ => V_KNOWN (fold_left N.min (o_known o) k)
                end
       end.

(* cases run with a small B-tree entry budget (RelationalConfig::with_max_btree_entries): the model has no budget,
   so only the property oracle is evaluated on the implementation's observations *)
Definition check_budget (c : c09_case) : N :=
  let '(V, Rn, ltmo0, ops, os) := c in
  if negb (Nat.eqb (length ops) (length os)) then 9
  else match owalk true (queries V) ltmo0 o0 ops os (model_dump V Rn (einit ltmo0)) with
       | None => V_VIOLATION
       | Some o => match o_known o with [] => V_OK | k :: _ => V_KNOWN (fold_left N.min (o_known o) k) end
       end.

(* cases with hash / B-tree indexes and conditions on the system column `_id` (column 2; the model's rows have
   columns 0 and 1 only): judged by the property oracle on the implementation's observations; the query list is
   extended by Eq / Lt / Ge on `_id` for the ids 1..5 *)
Definition id_vals : list N := [1; 2; 3; 4; 5].
Definition queries_id (V : N) : list cond :=
  queries V ++ map (CEq 2) id_vals ++ map (CLt 2) id_vals ++ map (CGe 2) id_vals.
Definition check_idcol (c : c09_case) : N :=
  let '(V, Rn, ltmo0, ops, os) := c in
  if negb (Nat.eqb (length ops) (length os)) then 9
  else match owalk false (queries_id V) ltmo0 o0 ops os (model_dump V Rn (einit ltmo0)) with
       | None => V_VIOLATION
       | Some o => match o_known o with [] => V_OK | k :: _ => V_KNOWN (fold_left N.min (o_known o) k) end
       end.
