(* C10/Inst.v -- per-run obligations over coq/gen/Gen_C10.v (regenerated from raft_wal.rs / raft.rs
   on every run): the configuration read from the source is the one the theorems are proved for.
   If RaftWal::open loses its tail repair, or a handler assigns current_term / voted_for before
   persisting, these stop to check. *)
From NV.Common Require Import Base WalFormat.
From NV.C10 Require Import Model Proofs.
From NV.gen Require Import Gen_C10.
Open Scope N_scope.

Lemma gen_cfg_fixed : gen_raft_tail_repair = true /\ gen_persist_before = true.
Proof. split; reflexivity. Qed.

(* the table of ALL persist_term_and_vote call sites of raft.rs (request vote x2, vote response,
   pre-vote response, append entries, append-entries response, start_election, snapshot install,
   start_election_async -- nine sites; a new site changes the length and must be reviewed): at each
   the logged term and vote are the ones the handler then adopts in memory, which is what the model's
   step does at the corresponding step (TermAndVote t v is followed by term := t, voted := v).
   And install_snapshot_entries logs the installed entries before it replaces the in-memory log. *)
Lemma gen_persist_sites_fixed :
  gen_persist_sites_ok = [true; true; true; true; true; true; true; true; true]
  /\ gen_snapshot_log_persisted = true.
Proof. split; reflexivity. Qed.

Section I.
Variable ser : rentry -> list byte.
Variable deser : list byte -> option rentry.
Variable crc : list byte -> N.
Hypothesis deser_ser : forall e, deser (ser e) = Some e.
Hypothesis crc_bound : forall d, crc d < 4294967296.
Hypothesis ser_small : forall e, wf ser e.

Lemma restart_any_byte_gen : forall d ss k, good ser crc d -> Forall wf_step ss -> (length (file d) <= k)%nat ->
  exists d2, restart deser crc gen_raft_tail_repair (firstn k (file (drun ser crc d ss))) = Some d2
   /\ good ser crc d2 /\
   forall a, (a <= length ss)%nat -> (length (file (drun ser crc d (firstn a ss))) <= k)%nat ->
     let na := nd (drun ser crc d (firstn a ss)) in
     term na <= term (nd d2) /\
     (term (nd d2) = term na -> forall v, voted na = Some v -> voted (nd d2) = Some v) /\
     ((a = length ss \/ (k < length (file (drun ser crc d (firstn (S a) ss))))%nat) ->
        let nb := nd (drun ser crc d (firstn (S a) ss)) in
        firstn (cp (log na) (log nb)) (log (nd d2)) = firstn (cp (log na) (log nb)) (log na)).
Proof.
  rewrite (proj1 gen_cfg_fixed).
  exact (restart_any_byte ser deser crc deser_ser crc_bound ser_small).
Qed.
End I.

(* the tail repair done by open must follow EVERY record length the writer can produce (the writer
   and replay have no bound below u32::MAX): the model's [repair] / [scan_end] has no bound, and the
   theorems are about that model.  A length cap in complete_prefix_len would cut a valid large record
   -- and everything after it -- off the log on the next open. *)
Lemma scan_follows_every_length : gen_raft_scan_cap = None.
Proof. reflexivity. Qed.
