(* C10/Model.v -- executable model of what a Raft node persists and how it restarts:
     tensor_chain/src/raft_wal.rs  RaftWalEntry, RaftWal::open (tail repair) / append / replay
                                   (Common/WalFormat), RaftRecoveryState::from_entries
     tensor_chain/src/raft.rs      persist_term_and_vote / persist_log_entry call sites in
                                   start_election, handle_request_vote, handle_request_vote_response,
                                   handle_append_entries (+ append_leader_entries),
                                   handle_append_entries_response, become_leader, propose, install_snapshot
                                   (install_snapshot_entries + persist_installed_log), with_wal
   Definitions only.  Node ids are small numbers (0 = this node, 1 and 2 = its peers, others =
   further candidates); a log entry is (index, term, block height). *)
From NV.Common Require Import Base WalFormat.
Open Scope N_scope.

Definition lentry := (N * N * N)%type.        (* index, term, block height *)
Definition l_idx (e : lentry) : N := fst (fst e).
Definition l_term (e : lentry) : N := snd (fst e).
Definition lentry_eqb (a b : lentry) : bool :=
  N.eqb (l_idx a) (l_idx b) && N.eqb (l_term a) (l_term b) && N.eqb (snd a) (snd b).

Inductive rentry :=
| TermChange (t : N)
| VoteCast (t c : N)
| TermAndVote (t : N) (v : option N)
| LogAppend (i t : N)
| LogTruncate (i : N)
| SnapshotTaken (i t : N)
| LogEntryFull (i t h : N).

Definition rentry_eqb (a b : rentry) : bool :=
  match a, b with
  | TermChange t, TermChange t' => N.eqb t t'
  | VoteCast t c, VoteCast t' c' => N.eqb t t' && N.eqb c c'
  | TermAndVote t v, TermAndVote t' v' => N.eqb t t' && option_eqb N.eqb v v'
  | LogAppend i t, LogAppend i' t' => N.eqb i i' && N.eqb t t'
  | LogTruncate i, LogTruncate i' => N.eqb i i'
  | SnapshotTaken i t, SnapshotTaken i' t' => N.eqb i i' && N.eqb t t'
  | LogEntryFull i t h, LogEntryFull i' t' h' => N.eqb i i' && N.eqb t t' && N.eqb h h'
  | _, _ => false
  end.

(* ---------------------------------------------------------------- RaftRecoveryState::from_entries *)
(* the BTreeMap<index, entry> as an index-sorted association list *)
Fixpoint lm_insert (m : list lentry) (e : lentry) : list lentry :=
  match m with
  | [] => [e]
  | x :: r => if l_idx e <? l_idx x then e :: m
              else if l_idx e =? l_idx x then e :: r
              else x :: lm_insert r e
  end.
Definition lm_truncate (m : list lentry) (from : N) : list lentry :=
  filter (fun x => l_idx x <? from) m.

Record rstate := RS {
  r_term : N; r_vote : option N;
  r_snap : option (N * N);
  r_log : list lentry }.
Definition rs0 : rstate := RS 0 None None [].

Definition rec_step (s : rstate) (e : rentry) : rstate :=
  match e with
  | TermChange t =>
      if r_term s <? t then RS t None (r_snap s) (r_log s) else s
  | VoteCast t c =>
      if r_term s <? t then RS t (Some c) (r_snap s) (r_log s)
      else if (t =? r_term s) && (match r_vote s with None => true | Some _ => false end)
           then RS (r_term s) (Some c) (r_snap s) (r_log s) else s
  | TermAndVote t v =>
      if r_term s <? t then RS t v (r_snap s) (r_log s)
      else if (t =? r_term s) && (match r_vote s with None => true | Some _ => false end)
           then RS (r_term s) v (r_snap s) (r_log s) else s
  | SnapshotTaken i t =>
      if r_term s <? t then RS t None (Some (i, t)) (r_log s)
      else RS (r_term s) (r_vote s) (Some (i, t)) (r_log s)
  | LogEntryFull i t h => RS (r_term s) (r_vote s) (r_snap s) (lm_insert (r_log s) (i, t, h))
  | LogTruncate i => RS (r_term s) (r_vote s) (r_snap s) (lm_truncate (r_log s) i)
  | LogAppend _ _ => s
  end.
Definition from_entries (es : list rentry) : rstate := fold_left rec_step es rs0.

(* ---------------------------------------------------------------- the node *)
Definition FOLLOWER : N := 0.
Definition CANDIDATE : N := 1.
Definition LEADER : N := 2.
Definition SELF : N := 0.
Definition QUORUM : nat := 2.      (* three-node cluster: this node + two peers *)

Record node := Node {
  term : N;
  voted : option N;
  log : list lentry;            (* array order; log_base_index = 0 (no compaction in this model) *)
  role : N;
  votes : list N                (* votes_received *)
}.
Definition node0 : node := Node 0 None [] FOLLOWER [].

Definition last_info (l : list lentry) : N * N :=
  match rev l with [] => (0, 0) | e :: _ => (l_idx e, l_term e) end.
Definition llen (l : list lentry) : N := N.of_nat (length l).

Inductive step_in :=
| Elect
| ReqVote (t cand lli llt : N)
| VoteResp (from t : N) (granted : bool)
| Append (t leader prev_i prev_t : N) (ents : list lentry) (commit : N)
| AppendResp (from t : N)
| BecomeLeader
| Propose (h : N)
| InstallSnap (lit : N) (ents : list lentry) (accepted : bool)
| PreVote (from t : N) (granted : bool).
  (* install_snapshot(metadata, data): ents = the snapshot's entries (a complete log from index 1,
     last_included_term lit = term of the last one); accepted = the call returned Ok (a snapshot
     that is not newer than the last one, or fails validation, is refused before anything is
     written -- read off the implementation);
     PreVote: start_pre_vote() followed by a PreVoteResponse{term t, vote_granted} from a peer *)

(* what the caller gets back, as numbers: [term; flag; index] *)
Definition step_out := list N.
Definition b2n (b : bool) : N := if b then 1 else 0.

(* append_leader_entries: (log, records written) *)
Fixpoint append_entries (l : list lentry) (ents : list lentry) : list lentry * list rentry :=
  match ents with
  | [] => (l, [])
  | e :: r =>
      let '(i, t, h) := e in
      if llen l <? i then
        let '(l', w) := append_entries (l ++ [e]) r in (l', LogEntryFull i t h :: w)
      else if i =? 0 then append_entries l r     (* index 0: log_index_to_array_index = None *)
      else
        let arr := N.to_nat (i - 1) in
        match nth_error l arr with
        | Some x =>
            if negb (l_term x =? t) then
              let '(l', w) := append_entries (firstn arr l ++ [e]) r in
              (l', LogTruncate i :: LogEntryFull i t h :: w)
            else append_entries l r
        | None => append_entries l r
        end
  end.

(* one protocol step: (node, records appended to the WAL in order, reply) *)
Definition step (n : node) (s : step_in) : node * list rentry * step_out :=
  match s with
  | Elect =>
      let t := term n + 1 in
      (Node t (Some SELF) (log n) CANDIDATE [SELF], [TermAndVote t (Some SELF)], [t])
  | ReqVote t cand lli llt =>
      let '(n1, w1) :=
        if term n <? t then (Node t None (log n) FOLLOWER (votes n), [TermAndVote t None])
        else (n, []) in
      if t =? term n1 then
        let can_vote := match voted n1 with None => true | Some c => c =? cand end in
        let '(li, lt) := last_info (log n1) in
        let log_ok := (lt <? llt) || ((llt =? lt) && (li <? lli)) || ((llt =? lt) && (lli =? li)) in
        if can_vote && log_ok then
          (Node (term n1) (Some cand) (log n1) (role n1) (votes n1),
           w1 ++ [TermAndVote (term n1) (Some cand)], [term n1; 1])
        else (n1, w1, [term n1; 0])
      else (n1, w1, [term n1; 0])
  | VoteResp from t granted =>
      if negb (role n =? CANDIDATE) then (n, [], [])
      else if term n <? t then
        (Node t None (log n) FOLLOWER (votes n), [TermAndVote t None], [])
      else if granted && (t =? term n) then
        if existsb (N.eqb from) (votes n) then (n, [], [])
        else
          let vs := votes n ++ [from] in
          (Node (term n) (voted n) (log n) (if (QUORUM <=? length vs)%nat then LEADER else role n) vs, [], [])
      else (n, [], [])
  | Append t leader prev_i prev_t ents commit =>
      let '(n1, w1) :=
        if term n <? t then (Node t None (log n) FOLLOWER (votes n), [TermAndVote t None])
        else (n, []) in
      if t =? term n1 then
        let n2 := Node (term n1) (voted n1) (log n1) FOLLOWER (votes n1) in
        let log_ok :=
          if prev_i =? 0 then true
          else if prev_i <=? llen (log n2) then
            match nth_error (log n2) (N.to_nat (prev_i - 1)) with
            | Some x => l_term x =? prev_t
            | None => false
            end
          else false in
        if log_ok then
          let '(l', w2) := append_entries (log n2) ents in
          let last_verified :=
            N.min (match rev ents with [] => prev_i | e :: _ => l_idx e end) (llen l') in
          (Node (term n2) (voted n2) l' FOLLOWER (votes n2), w1 ++ w2, [term n2; 1; last_verified])
        else (n2, w1, [term n2; 0; 0])
      else (n1, w1, [term n1; 0; 0])
  | AppendResp from t =>
      if negb (role n =? LEADER) then (n, [], [])
      else if term n <? t then (Node t None (log n) FOLLOWER (votes n), [TermAndVote t None], [])
      else (n, [], [])
  | BecomeLeader => (Node (term n) (voted n) (log n) LEADER (votes n), [], [])
  | InstallSnap lit ents accepted =>
      if negb accepted then (n, [], [0])
      else
        (* a higher last-included term is adopted (logged first, no vote in it) *)
        let '(n1, w1) :=
          if term n <? lit then (Node lit None (log n) (role n) (votes n), [TermAndVote lit None])
          else (n, []) in
        (* the installed entries are logged like appended ones BEFORE they replace the log in
           memory (persist_installed_log): nothing for entries already held, a truncation at the
           first conflicting index, every entry behind the local log; a longer local log is cut *)
        let '(l1, w2) := append_entries (log n1) ents in
        let '(l2, w3) :=
          if llen ents <? llen l1 then (firstn (length ents) l1, [LogTruncate (llen ents + 1)])
          else (l1, []) in
        (Node (term n1) (voted n1) l2 (role n1) (votes n1), w1 ++ w2 ++ w3, [1])
  | PreVote from t granted =>
      (* a higher term learned in the pre-vote phase is adopted like anywhere else: logged first *)
      if term n <? t then (Node t None (log n) FOLLOWER (votes n), [TermAndVote t None], [])
      (* one granted pre-vote of a peer + the node's own = quorum of three: the real election starts *)
      else if granted && (t =? term n) then
        (Node (term n + 1) (Some SELF) (log n) CANDIDATE [SELF], [TermAndVote (term n + 1) (Some SELF)], [])
      else (n, [], [])
  | Propose h =>
      if role n =? LEADER then
        let i := llen (log n) + 1 in
        (Node (term n) (voted n) (log n ++ [(i, term n, h)]) (role n) (votes n),
         [LogEntryFull i (term n) h], [1; i])
      else (n, [], [0; 0])
  end.

(* ---------------------------------------------------------------- durable node = node + WAL file *)
Section Durable.
Variable ser : rentry -> list byte.
Variable deser : list byte -> option rentry.
Variable crc : list byte -> N.
Variable tail_repair : bool.

Record dnode := DN { nd : node; file : list byte }.
Definition dn0 : dnode := DN node0 [].

Definition dstep (d : dnode) (s : step_in) : dnode * step_out :=
  let '(n', w, out) := step (nd d) s in
  (DN n' (file d ++ log_bytes ser crc true w), out).

(* RaftNode::with_wal on a log file: None = the node cannot restart *)
Definition restart (f : list byte) : option dnode :=
  let f' := if tail_repair then repair f else f in
  match replay_file deser crc true f' with
  | ErrChecksum _ => None
  | Ok es =>
      let r := from_entries es in
      Some (DN (Node (r_term r) (r_vote r) (r_log r) FOLLOWER []) f')
  end.
End Durable.
