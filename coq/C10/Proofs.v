(* C10/Proofs.v -- lemmas and main theorems for the Raft restart property.
   1. Facts about replaying ANY record list (RaftRecoveryState::from_entries): the term never
      decreases; within a term a vote, once recorded, never changes.
   2. Contiguous logs: on them the BTreeMap insert/truncate of from_entries are list operations.
   3. append_leader_entries (append_entries): for EVERY prefix of the records it writes, the
      replayed log agrees with the old log below the first position the step changes.
   4. Each protocol step keeps the invariant "replaying the log file gives exactly the node's
      term, vote and log" (persist-before-act), and so does a restart from any byte prefix. *)
From NV.Common Require Import Base WalFormat.
From NV.C10 Require Import Model.
Open Scope N_scope.
Arguments N.add : simpl never. Arguments N.sub : simpl never. Arguments N.mul : simpl never.
Arguments N.eqb : simpl never. Arguments N.ltb : simpl never. Arguments N.leb : simpl never.

(* ======================================================================== *)
(* ------------------------------------------------------------ general facts about replaying records *)
Lemma term_mono1 s e : r_term s <= r_term (rec_step s e).
Proof.
  destruct e; cbn [rec_step]; try reflexivity;
  repeat match goal with |- context [if ?b then _ else _] => destruct b eqn:? end; cbn [r_term]; try lia.
Qed.
Lemma term_mono es : forall s, r_term s <= r_term (fold_left rec_step es s).
Proof.
  induction es as [|e es IH]; intros s; cbn [fold_left]; [lia|].
  specialize (IH (rec_step s e)). pose proof (term_mono1 s e). lia.
Qed.
Lemma vote_sticky1 s e v : r_vote s = Some v -> r_term (rec_step s e) = r_term s ->
  r_vote (rec_step s e) = Some v.
Proof.
  intros Hv Ht. destruct e; cbn [rec_step] in *; try exact Hv;
  repeat match goal with
         | H : context [if ?b then _ else _] |- _ => destruct b eqn:?
         | |- context [if ?b then _ else _] => destruct b eqn:?
         end; cbn [r_term r_vote] in *; try exact Hv; try lia.
  all: rewrite Hv in *; cbn in *; try discriminate; try lia.
  all: try (rewrite andb_false_r in *; discriminate).
Qed.
Lemma vote_sticky es : forall s v, r_vote s = Some v -> r_term (fold_left rec_step es s) = r_term s ->
  r_vote (fold_left rec_step es s) = Some v.
Proof.
  induction es as [|e es IH]; intros s v Hv Ht; cbn [fold_left] in *; [exact Hv|].
  pose proof (term_mono1 s e) as M1. pose proof (term_mono es (rec_step s e)) as M2.
  assert (E: r_term (rec_step s e) = r_term s) by lia.
  apply IH; [apply vote_sticky1; assumption|lia].
Qed.

(* ======================================================================== *)
(* ------------------------------------------------------------ contiguous logs (index = position + 1) *)
Definition contig (l : list lentry) : Prop :=
  forall j e, nth_error l j = Some e -> l_idx e = N.of_nat (S j).

Lemma contig_nil : contig [].
Proof. intros j e H. destruct j; discriminate. Qed.
Lemma contig_app1 l e : contig l -> l_idx e = llen l + 1 -> contig (l ++ [e]).
Proof.
  intros C He j x Hx. destruct (Nat.lt_ge_cases j (length l)) as [Hj|Hj].
  - rewrite nth_error_app1 in Hx by exact Hj. apply C; exact Hx.
  - rewrite nth_error_app2 in Hx by exact Hj.
    destruct (j - length l)%nat eqn:E; cbn in Hx; [|destruct n; discriminate].
    inversion Hx; subst x. rewrite He. unfold llen. lia.
Qed.
Lemma nth_error_firstn_some {A} : forall (l : list A) m j e, nth_error (firstn m l) j = Some e -> nth_error l j = Some e.
Proof.
  induction l as [|x l IH]; intros m j e H.
  - rewrite firstn_nil in H. destruct j; discriminate.
  - destruct m; [destruct j; discriminate|]. destruct j; cbn in *; [exact H|]. eapply IH; exact H.
Qed.
Lemma nth_error_firstn_lt {A} : forall (l : list A) m j, (j < m)%nat -> nth_error (firstn m l) j = nth_error l j.
Proof.
  induction l as [|x l IH]; intros m j H.
  - rewrite firstn_nil. reflexivity.
  - destruct m; [lia|]. destruct j; cbn; [reflexivity|]. apply IH. lia.
Qed.
Lemma contig_firstn l m : contig l -> contig (firstn m l).
Proof. intros C j e H. apply C. eapply nth_error_firstn_some; exact H. Qed.
Lemma contig_tail x l : contig (x :: l) -> forall j e, nth_error l j = Some e -> l_idx e = N.of_nat (S (S j)).
Proof. intros C j e H. apply (C (S j) e). exact H. Qed.

(* on a contiguous log the BTreeMap operations are plain list operations *)
Lemma lm_insert_gen : forall l b e, (forall j x, nth_error l j = Some x -> l_idx x = b + N.of_nat (S j)) ->
  l_idx e = b + N.of_nat (length l) + 1 -> lm_insert l e = l ++ [e].
Proof.
  induction l as [|x l IH]; intros b e C He; cbn [lm_insert app]; [reflexivity|].
  pose proof (C 0%nat x eq_refl) as Hx. cbn [length] in He.
  destruct (N.ltb_spec (l_idx e) (l_idx x)); [lia|].
  destruct (N.eqb_spec (l_idx e) (l_idx x)); [lia|].
  f_equal. apply (IH (b + 1)).
  - intros j y Hy. rewrite (C (S j) y Hy). lia.
  - lia.
Qed.
Lemma lm_insert_contig l e : contig l -> l_idx e = llen l + 1 -> lm_insert l e = l ++ [e].
Proof.
  intros C He. apply (lm_insert_gen l 0).
  - intros j x Hx. rewrite (C j x Hx). lia.
  - unfold llen in He. lia.
Qed.
Lemma lm_truncate_gen : forall l b i m, (forall j x, nth_error l j = Some x -> l_idx x = b + N.of_nat (S j)) ->
  i = b + N.of_nat m + 1 -> lm_truncate l i = firstn m l.
Proof.
  unfold lm_truncate. induction l as [|x l IH]; intros b i m C Hi; cbn [filter]; [rewrite firstn_nil; reflexivity|].
  pose proof (C 0%nat x eq_refl) as Hx.
  destruct m as [|m].
  - destruct (N.ltb_spec (l_idx x) i); [lia|]. cbn [firstn].
    (* everything after is also >= i *)
    assert (G: forall l' b', (forall j y, nth_error l' j = Some y -> l_idx y = b' + N.of_nat (S j)) -> i <= b' + 1 ->
               filter (fun y => l_idx y <? i) l' = []).
    { induction l' as [|y l' IH']; intros b' C' Hb; cbn [filter]; [reflexivity|].
      pose proof (C' 0%nat y eq_refl). destruct (N.ltb_spec (l_idx y) i); [lia|].
      apply (IH' (b' + 1)); [|lia]. intros j z Hz. rewrite (C' (S j) z Hz). lia. }
    apply (G l (b + 1)); [|lia]. intros j y Hy. rewrite (C (S j) y Hy). lia.
  - destruct (N.ltb_spec (l_idx x) i); [|lia]. cbn [firstn]. f_equal.
    apply (IH (b + 1)); [|lia]. intros j y Hy. rewrite (C (S j) y Hy). lia.
Qed.
Lemma lm_truncate_contig l i : contig l -> 1 <= i -> lm_truncate l i = firstn (N.to_nat (i - 1)) l.
Proof.
  intros C Hi. apply (lm_truncate_gen l 0).
  - intros j x Hx. rewrite (C j x Hx). lia.
  - lia.
Qed.

(* replaying log records only *)
Definition log_after (q : list rentry) (l : list lentry) : list lentry :=
  r_log (fold_left rec_step q (RS 0 None None l)).

Lemma fold_log_indep q : forall s, r_log (fold_left rec_step q s) = log_after q (r_log s).
Proof.
  unfold log_after. induction q as [|e q IH]; intros s; cbn [fold_left]; [reflexivity|].
  rewrite IH. rewrite (IH (rec_step _ e)). f_equal.
  destruct e; cbn [rec_step]; repeat match goal with |- context [if ?b then _ else _] => destruct b end; reflexivity.
Qed.

(* entries as a real leader sends them: consecutive indices after prev *)
Fixpoint ents_from (p : N) (ents : list lentry) : Prop :=
  match ents with [] => True | e :: r => l_idx e = p + 1 /\ ents_from (p + 1) r end.

Fixpoint cp (a b : list lentry) : nat :=
  match a, b with
  | x :: a', y :: b' => if lentry_eqb x y then S (cp a' b') else O
  | _, _ => O
  end.
Lemma cp_le_len a : forall b, (cp a b <= length a)%nat.
Proof. induction a; intros [|y b]; cbn; try lia. destruct lentry_eqb; [specialize (IHa b)|]; lia. Qed.
Lemma cp_app_mono a x : forall b, (cp a b <= cp (a ++ x) b)%nat.
Proof. induction a; intros [|y b]; cbn; try lia. destruct lentry_eqb; [specialize (IHa b)|]; lia. Qed.
Lemma cp_firstn a : forall b m, (cp a b <= m)%nat -> cp (firstn m a) b = cp a b.
Proof.
  induction a; intros [|y b] m H; cbn in *; try (destruct m; reflexivity).
  destruct m; cbn; [destruct lentry_eqb; [lia|reflexivity]|].
  destruct lentry_eqb; [|reflexivity]. f_equal. apply IHa. lia.
Qed.
Lemma lentry_eqb_true a b : lentry_eqb a b = true -> a = b.
Proof.
  destruct a as [[i t] h], b as [[i' t'] h']. unfold lentry_eqb, l_idx, l_term. cbn.
  intros H. apply andb_true_iff in H as [H H3]. apply andb_true_iff in H as [H1 H2].
  apply N.eqb_eq in H1, H2, H3. congruence.
Qed.
Lemma cp_nth_diff : forall a b m x y, nth_error a m = Some x -> nth_error b m = Some y -> l_term x <> l_term y ->
  (cp a b <= m)%nat.
Proof.
  induction a as [|u a IH]; intros [|v b] m x y Ha Hb D; cbn; try lia.
  destruct m; cbn in Ha, Hb.
  - inversion Ha; inversion Hb; subst. destruct (lentry_eqb x y) eqn:E; [|lia].
    apply lentry_eqb_true in E. subst. congruence.
  - destruct lentry_eqb; [|lia]. apply le_n_S. eapply IH; eauto.
Qed.

(* ======================================================================== *)
Lemma log_after_cons e q l :
  log_after (e :: q) l = log_after q (r_log (rec_step (RS 0 None None l) e)).
Proof. unfold log_after at 1. cbn [fold_left]. apply fold_log_indep. Qed.
Lemma log_after_full l i t h q : contig l -> i = llen l + 1 ->
  log_after (LogEntryFull i t h :: q) l = log_after q (l ++ [(i, t, h)]).
Proof.
  intros C Hi. rewrite log_after_cons. cbn [rec_step r_log r_term r_vote r_snap].
  rewrite lm_insert_contig; [reflexivity|exact C|exact Hi].
Qed.
Lemma log_after_trunc l i q : contig l -> 1 <= i ->
  log_after (LogTruncate i :: q) l = log_after q (firstn (N.to_nat (i - 1)) l).
Proof.
  intros C Hi. rewrite log_after_cons. cbn [rec_step r_log r_term r_vote r_snap].
  rewrite lm_truncate_contig; [reflexivity|exact C|exact Hi].
Qed.

Lemma firstn_min_eq {A} (a b : list A) j m : firstn m a = firstn m b -> (j <= m)%nat -> firstn j a = firstn j b.
Proof.
  intros H Hj. rewrite <- (Nat.min_l j m Hj). rewrite <- !firstn_firstn. rewrite H. reflexivity.
Qed.

(* the core of append_leader_entries, for every PREFIX q of the records it writes *)
Lemma AE_prefix : forall ents l p, ents_from p ents -> contig l -> p <= llen l ->
  contig (fst (append_entries l ents))
  /\ firstn (N.to_nat p) (fst (append_entries l ents)) = firstn (N.to_nat p) l
  /\ log_after (snd (append_entries l ents)) l = fst (append_entries l ents)
  /\ forall q q', snd (append_entries l ents) = q ++ q' ->
       exists j, (cp l (fst (append_entries l ents)) <= j)%nat /\ firstn j (log_after q l) = firstn j l
                 /\ contig (log_after q l).
Proof.
  induction ents as [|e ents IH]; intros l p Hf C Hp.
  - cbn. repeat split; auto. intros q q' H. destruct q; [|discriminate].
    exists (length l). split; [apply cp_le_len|]. split; [reflexivity|exact C].
  - destruct e as [[i t] h]. cbn [ents_from l_idx fst] in Hf. destruct Hf as [Hi Hf].
    cbn [append_entries].
    destruct (N.ltb_spec (llen l) i) as [Hlt|Hge].
    + (* push at the end *)
      assert (Ei: i = llen l + 1) by lia.
      match goal with |- context [append_entries ?a ents] => set (l1 := a) end.
      assert (C2: contig l1) by (apply contig_app1; [exact C|exact Ei]).
      assert (Hp2: p + 1 <= llen l1) by (unfold l1, llen in *; rewrite app_length; cbn; lia).
      specialize (IH l1 (p + 1) Hf C2 Hp2).
      destruct (append_entries l1 ents) as [l2 w2] eqn:E2.
      cbn [fst snd] in IH |- *. unfold l1 in *. clear l1.
      destruct IH as (I1 & I2 & I3 & I4).
      split; [exact I1|]. split.
      { apply (firstn_min_eq _ _ (N.to_nat p)) in I2; [|lia]. rewrite I2.
        rewrite firstn_app_le; [reflexivity|]. unfold llen in Hp. lia. }
      split.
      { rewrite log_after_full by assumption. exact I3. }
      intros q q' Hq. destruct q as [|r q].
      * exists (length l). split; [apply cp_le_len|]. split; [reflexivity|exact C].
      * cbn [app] in Hq. inversion Hq; subst r. destruct (I4 q q' H1) as (j2 & J1 & J2 & J3).
        exists (Nat.min j2 (length l)). split.
        { apply Nat.min_glb; [|apply cp_le_len].
          refine (Nat.le_trans _ _ _ (cp_app_mono l _ l2) J1). }
        match type of J2 with firstn _ (log_after q ?X) = _ =>
            rewrite (log_after_full l i t h q C Ei : _ = log_after q X) end.
        split; [|exact J3].
        { apply (firstn_min_eq _ _ (Nat.min j2 (length l))) in J2; [|lia]. rewrite J2.
          rewrite firstn_app_le; [reflexivity|lia]. }
    + destruct (N.eqb_spec i 0) as [->|Hnz]; [lia|].
      assert (Harr: (N.to_nat (i - 1) < length l)%nat) by (unfold llen in Hge; lia).
      destruct (nth_error l (N.to_nat (i - 1))) as [x|] eqn:Ex;
        [|apply nth_error_None in Ex; lia].
      destruct (N.eqb_spec (l_term x) t) as [Et|Ent]; cbn [negb].
      * (* same term: nothing written for this entry *)
        assert (Hp2: p + 1 <= llen l) by lia.
        specialize (IH l (p + 1) Hf C Hp2).
        destruct IH as (I1 & I2 & I3 & I4).
        split; [exact I1|]. split; [apply (firstn_min_eq _ _ (N.to_nat p)) in I2; [exact I2|lia]|].
        split; [exact I3|exact I4].
      * (* conflict: truncate, then store the leader's entry *)
        match goal with |- context [append_entries ?a ents] => set (l1 := a) end.
        assert (Cf: contig (firstn (N.to_nat (i - 1)) l)) by (apply contig_firstn; exact C).
        assert (Lf: length (firstn (N.to_nat (i - 1)) l) = N.to_nat (i - 1)) by (rewrite firstn_length; lia).
        assert (C1: contig l1).
        { apply contig_app1; [exact Cf|]. unfold llen. cbn [l_idx fst]. rewrite Lf. lia. }
        assert (Hp2: p + 1 <= llen l1).
        { unfold l1, llen. rewrite app_length, Lf. cbn. lia. }
        specialize (IH l1 (p + 1) Hf C1 Hp2).
        destruct (append_entries l1 ents) as [l2 w2] eqn:E2.
        cbn [fst snd] in IH |- *.
        destruct IH as (I1 & I2 & I3 & I4).
        assert (Hpi: N.to_nat p = N.to_nat (i - 1)) by lia.
        (* position i-1 of the result holds the new entry, whose term differs from the old one *)
        assert (Hnew: nth_error l2 (N.to_nat (i - 1)) = Some (i, t, h)).
        { assert (F: firstn (N.to_nat (p + 1)) l2 = l1).
          { rewrite I2. unfold l1. rewrite firstn_all2; [reflexivity|]. rewrite app_length, Lf. cbn. lia. }
          rewrite <- (nth_error_firstn_lt l2 (N.to_nat (p + 1))) by lia. rewrite F. unfold l1.
          rewrite nth_error_app2 by lia. rewrite Lf, Nat.sub_diag. reflexivity. }
        assert (Hcp: (cp l l2 <= N.to_nat (i - 1))%nat).
        { eapply cp_nth_diff; [exact Ex|exact Hnew|]. cbn [l_term fst snd]. exact Ent. }
        split; [exact I1|]. split.
        { apply (firstn_min_eq _ _ (N.to_nat p)) in I2; [|lia]. rewrite I2. unfold l1.
          rewrite firstn_app_le by lia. rewrite firstn_firstn. f_equal. lia. }
        split.
        { rewrite log_after_trunc by (try assumption; lia).
          rewrite log_after_full; [exact I3|exact Cf|unfold llen; rewrite Lf; lia]. }
        intros q q' Hq. destruct q as [|r q].
        { exists (length l). split; [apply cp_le_len|]. split; [reflexivity|exact C]. }
        cbn [app] in Hq. inversion Hq; subst r. clear Hq.
        destruct q as [|r q].
        { exists (N.to_nat (i - 1)). split; [exact Hcp|].
          rewrite log_after_trunc by (try assumption; lia). unfold log_after. cbn [fold_left r_log].
          split; [|exact Cf]. rewrite firstn_firstn. f_equal. lia. }
        cbn [app] in H1. inversion H1; subst r. clear H1.
        destruct (I4 q q' H2) as (j2 & J1 & J2 & J3).
        exists (Nat.min j2 (N.to_nat (i - 1))). split.
        { apply Nat.min_glb; [|exact Hcp].
          rewrite <- (cp_firstn l l2 (N.to_nat (i - 1)) Hcp).
          refine (Nat.le_trans _ _ _ (cp_app_mono _ _ l2) J1). }
        rewrite log_after_trunc by (try assumption; lia).
        assert (Ei2: i = llen (firstn (N.to_nat (i - 1)) l) + 1) by (unfold llen; rewrite Lf; lia).
        match type of J2 with firstn _ (log_after q ?X) = _ =>
            rewrite (log_after_full _ i t h q Cf Ei2 : _ = log_after q X) end.
        split; [|exact J3].
        { apply (firstn_min_eq _ _ (Nat.min j2 (N.to_nat (i - 1)))) in J2; [|lia]. rewrite J2.
          unfold l1. rewrite firstn_app_le by lia. rewrite firstn_firstn. f_equal. lia. }
Qed.

(* ======================================================================== *)
Definition Inv (n : node) (es : list rentry) : Prop :=
  (exists sn, from_entries es = RS (term n) (voted n) sn (log n)) /\ contig (log n).

Definition wf_step (s : step_in) : Prop :=
  match s with
  | Append _ _ prev_i _ ents _ => ents_from prev_i ents
  | InstallSnap _ ents _ => ents_from 0 ents      (* a snapshot holds a complete log from index 1 *)
  | _ => True
  end.

Lemma from_entries_app es w : from_entries (es ++ w) = fold_left rec_step w (from_entries es).
Proof. unfold from_entries. apply fold_left_app. Qed.

Lemma cp_firstn_eq : forall a b, firstn (cp a b) a = firstn (cp a b) b.
Proof.
  induction a as [|x a IH]; intros [|y b]; cbn; try reflexivity.
  destruct (lentry_eqb x y) eqn:E; [|reflexivity]. apply lentry_eqb_true in E. subst. cbn. f_equal. apply IH.
Qed.
Lemma cp_refl_len a : cp a a = length a.
Proof.
  induction a as [|x a IH]; cbn; [reflexivity|].
  assert (E: lentry_eqb x x = true).
  { destruct x as [[i t] h]. unfold lentry_eqb, l_idx, l_term. cbn. rewrite !N.eqb_refl. reflexivity. }
  rewrite E, IH. reflexivity.
Qed.

(* a step whose records do not touch the log *)
Lemma no_log_prefix (l : list lentry) (w : list rentry) (s0 : rstate) :
  (forall e, In e w -> match e with TermAndVote _ _ => True | _ => False end) ->
  forall q q', w = q ++ q' -> r_log (fold_left rec_step q s0) = r_log s0.
Proof.
  intros H q. revert s0 w H. induction q as [|e q IH]; intros s0 w H q' Hw; cbn [fold_left]; [reflexivity|].
  subst w. assert (He: In e ((e :: q) ++ q')) by (left; reflexivity). pose proof (H e He) as He'.
  destruct e; try contradiction.
  rewrite (IH _ (q ++ q') (fun x Hx => H x (or_intror Hx)) q' eq_refl).
  cbn [rec_step]. repeat match goal with |- context [if ?b then _ else _] => destruct b end; reflexivity.
Qed.

Ltac inv_step H := cbn [step] in H; repeat match type of H with
  | context [if ?b then _ else _] => destruct b eqn:?
  | context [match ?x with _ => _ end] => destruct x eqn:?
  end; try (inversion H; subst; clear H).

Lemma tv_gt s t v : r_term s < t -> rec_step s (TermAndVote t v) = RS t v (r_snap s) (r_log s).
Proof. intros H. cbn [rec_step]. destruct (N.ltb_spec (r_term s) t); [reflexivity|lia]. Qed.
Lemma tv_eq_none s t v : t = r_term s -> r_vote s = None ->
  rec_step s (TermAndVote t v) = RS (r_term s) v (r_snap s) (r_log s).
Proof.
  intros H Hv. cbn [rec_step]. destruct (N.ltb_spec (r_term s) t); [lia|].
  rewrite Hv. subst t. rewrite N.eqb_refl. reflexivity.
Qed.
Lemma tv_eq_same s t c : t = r_term s -> r_vote s = Some c ->
  rec_step s (TermAndVote t (Some c)) = s.
Proof.
  intros H Hv. cbn [rec_step]. destruct (N.ltb_spec (r_term s) t); [lia|].
  rewrite Hv. rewrite andb_false_r. reflexivity.
Qed.

(* term / vote projection is independent of the log component *)
Definition tv_after (q : list rentry) (t : N) (v : option N) : N * option N :=
  let r := fold_left rec_step q (RS t v None []) in (r_term r, r_vote r).
Lemma fold_tv_indep q : forall s,
  (r_term (fold_left rec_step q s), r_vote (fold_left rec_step q s)) = tv_after q (r_term s) (r_vote s).
Proof.
  unfold tv_after. induction q as [|e q IH]; intros s; cbn [fold_left]; [reflexivity|].
  rewrite IH. rewrite (IH (rec_step _ e)). f_equal;
  destruct e; cbn [rec_step r_term r_vote];
    repeat match goal with |- context [if ?b then _ else _] => destruct b end; reflexivity.
Qed.
Lemma tv_after_logrec_full i t h q t0 v0 : tv_after (LogEntryFull i t h :: q) t0 v0 = tv_after q t0 v0.
Proof. unfold tv_after at 1. cbn [fold_left rec_step]. rewrite fold_tv_indep. reflexivity. Qed.
Lemma tv_after_logrec_trunc i q t0 v0 : tv_after (LogTruncate i :: q) t0 v0 = tv_after q t0 v0.
Proof. unfold tv_after at 1. cbn [fold_left rec_step]. rewrite fold_tv_indep. reflexivity. Qed.

(* records written by append_entries are log records only *)
Lemma AE_only_log : forall ents l e, In e (snd (append_entries l ents)) ->
  match e with LogEntryFull _ _ _ | LogTruncate _ => True | _ => False end.
Proof.
  induction ents as [|[[i t] h] ents IH]; intros l e H; cbn [append_entries] in H; [contradiction|].
  repeat match type of H with
  | context [if ?b then _ else _] => destruct b
  | context [match nth_error ?a ?b with _ => _ end] => destruct (nth_error a b)
  | context [let '(_, _) := ?x in _] => destruct x eqn:?
  end; cbn [snd In] in H.
  all: try (eapply IH; exact H).
  all: repeat (destruct H as [H|H]; [subst e; exact I|]).
  all: try match goal with E : append_entries ?a ?b = (_, ?w) |- _ =>
         apply (IH a); rewrite E; exact H end.
Qed.
Lemma tv_after_only_log : forall w t0 v0,
  (forall e, In e w -> match e with LogEntryFull _ _ _ | LogTruncate _ => True | _ => False end) ->
  tv_after w t0 v0 = (t0, v0).
Proof.
  induction w as [|e w IH]; intros t0 v0 H; [reflexivity|].
  pose proof (H e (or_introl eq_refl)) as He. destruct e; try contradiction.
  - rewrite tv_after_logrec_trunc. apply IH. intros x Hx. apply H. right. exact Hx.
  - rewrite tv_after_logrec_full. apply IH. intros x Hx. apply H. right. exact Hx.
Qed.

Lemma tv_after_app q1 q2 t0 v0 :
  tv_after (q1 ++ q2) t0 v0 = tv_after q2 (fst (tv_after q1 t0 v0)) (snd (tv_after q1 t0 v0)).
Proof.
  unfold tv_after at 1. rewrite fold_left_app. rewrite fold_tv_indep. reflexivity.
Qed.
Lemma log_after_app q1 q2 l : log_after (q1 ++ q2) l = log_after q2 (log_after q1 l).
Proof. unfold log_after at 1. rewrite fold_left_app. rewrite fold_log_indep. reflexivity. Qed.
Lemma log_after_tv t v q l : log_after (TermAndVote t v :: q) l = log_after q l.
Proof.
  rewrite log_after_cons. f_equal. cbn [rec_step].
  repeat match goal with |- context [if ?b then _ else _] => destruct b end; reflexivity.
Qed.

(* the invariant in projected form *)
Lemma Inv_proj n es : Inv n es <->
  tv_after es 0 None = (term n, voted n) /\ log_after es [] = log n /\ contig (log n).
Proof.
  unfold Inv, from_entries. split.
  - intros [[sn E] C]. repeat split; [| |exact C].
    + unfold tv_after. fold rs0. rewrite E. reflexivity.
    + unfold log_after. fold rs0. rewrite E. reflexivity.
  - intros (E1 & E2 & C). split; [|exact C].
    unfold tv_after, log_after in *. fold rs0 in E1, E2.
    destruct (fold_left rec_step es rs0) as [t v sn l]. cbn in *. inversion E1; subst. exists sn. reflexivity.
Qed.

(* ======================================================================== *)
Lemma tv1_gt t0 v0 t v : t0 < t -> tv_after [TermAndVote t v] t0 v0 = (t, v).
Proof. intros H. unfold tv_after. cbn [fold_left]. rewrite tv_gt by exact H. reflexivity. Qed.
Lemma tv1_eq_none t0 v : tv_after [TermAndVote t0 v] t0 None = (t0, v).
Proof. unfold tv_after. cbn [fold_left]. rewrite tv_eq_none by reflexivity. reflexivity. Qed.
Lemma tv1_eq_same t0 c : tv_after [TermAndVote t0 (Some c)] t0 (Some c) = (t0, Some c).
Proof. unfold tv_after. cbn [fold_left]. rewrite tv_eq_same by reflexivity. reflexivity. Qed.

Lemma step_tv n s n' w out : step n s = (n', w, out) ->
  tv_after w (term n) (voted n) = (term n', voted n').
Proof.
  intros H. destruct s; cbn [step] in H.
  - (* Elect *) inversion H; subst; cbn [term voted]. apply tv1_gt. lia.
  - (* ReqVote *)
    destruct (N.ltb_spec (term n) t) as [Hlt|Hge].
    + cbn [term voted log role votes] in H. rewrite N.eqb_refl in H.
      cbn [andb] in H.
      destruct (last_info (log n)) as [li lt].
      match type of H with context [if ?b then _ else _] => destruct b end;
        inversion H; subst; cbn [term voted].
      * change [TermAndVote t None; TermAndVote t (Some cand)] with ([TermAndVote t None] ++ [TermAndVote t (Some cand)]).
        rewrite tv_after_app. rewrite (tv1_gt (term n) (voted n) t None Hlt). cbn [fst snd]. apply tv1_eq_none.
      * apply tv1_gt. exact Hlt.
    + destruct (N.eqb_spec t (term n)) as [Et|Ent].
      * destruct (last_info (log n)) as [li lt].
        destruct (voted n) as [c|] eqn:Ev.
        { destruct (N.eqb_spec c cand) as [->|Hc]; cbn [andb] in H.
          - match type of H with context [if ?b then _ else _] => destruct b end;
              inversion H; subst; cbn [term voted app]; rewrite ?Ev; [|reflexivity].
            apply tv1_eq_same.
          - inversion H; subst. rewrite ?Ev. reflexivity. }
        { cbn [andb] in H.
          match type of H with context [if ?b then _ else _] => destruct b end;
            inversion H; subst; cbn [term voted app]; rewrite ?Ev; [|reflexivity].
          apply tv1_eq_none. }
      * inversion H; subst. reflexivity.
  - (* VoteResp *)
    destruct (negb (role n =? CANDIDATE)); [inversion H; subst; reflexivity|].
    destruct (N.ltb_spec (term n) t) as [Hlt|Hge].
    + inversion H; subst; cbn [term voted]. apply tv1_gt. exact Hlt.
    + destruct (granted && (t =? term n)); [|inversion H; subst; reflexivity].
      destruct (existsb (N.eqb from) (votes n)); inversion H; subst; reflexivity.
  - (* Append *)
    destruct (N.ltb_spec (term n) t) as [Hlt|Hge].
    + cbn [term voted log role votes] in H. rewrite N.eqb_refl in H.
      match type of H with context [if ?b then _ else _] => destruct b end.
      * destruct (append_entries (log n) ents) as [l' w2] eqn:E2.
        inversion H; subst; cbn [term voted].
        change (TermAndVote t None :: w2) with ([TermAndVote t None] ++ w2).
        rewrite tv_after_app. rewrite (tv1_gt (term n) (voted n) t None Hlt). cbn [fst snd].
        apply tv_after_only_log. intros e He. apply (AE_only_log ents (log n)). rewrite E2. exact He.
      * inversion H; subst; cbn [term voted]. apply tv1_gt. exact Hlt.
    + destruct (N.eqb_spec t (term n)) as [Et|Ent].
      * cbn [term voted log role votes] in H.
        match type of H with context [if ?b then _ else _] => destruct b end.
        { destruct (append_entries (log n) ents) as [l' w2] eqn:E2.
          inversion H; subst; cbn [term voted app].
          apply tv_after_only_log. intros e He. apply (AE_only_log ents (log n)). rewrite E2. exact He. }
        { inversion H; subst. reflexivity. }
      * inversion H; subst. reflexivity.
  - (* AppendResp *)
    destruct (negb (role n =? LEADER)); [inversion H; subst; reflexivity|].
    destruct (N.ltb_spec (term n) t) as [Hlt|Hge]; inversion H; subst; cbn [term voted]; [|reflexivity].
    apply tv1_gt. exact Hlt.
  - inversion H; subst. reflexivity.
  - destruct (role n =? LEADER); inversion H; subst; cbn [term voted]; [|reflexivity].
    apply tv_after_logrec_full.
  - (* InstallSnap *)
    destruct (negb accepted); [inversion H; subst; reflexivity|].
    assert (G: forall n1 w1, tv_after w1 (term n) (voted n) = (term n1, voted n1) ->
               (let '(l1, w2) := append_entries (log n1) ents in
                let '(l2, w3) := if llen ents <? llen l1 then (firstn (length ents) l1, [LogTruncate (llen ents + 1)]) else (l1, []) in
                (Node (term n1) (voted n1) l2 (role n1) (votes n1), w1 ++ w2 ++ w3, [1])) = (n', w, out) ->
               tv_after w (term n) (voted n) = (term n', voted n')).
    { intros n1 w1 E1 H1. destruct (append_entries (log n1) ents) as [l1 w2] eqn:E2.
      assert (OL: forall e, In e (w2 ++ (if llen ents <? llen l1 then [LogTruncate (llen ents + 1)] else [])) ->
                  match e with LogEntryFull _ _ _ | LogTruncate _ => True | _ => False end).
      { intros e He. apply in_app_or in He as [He|He].
        - apply (AE_only_log ents (log n1)). rewrite E2. exact He.
        - destruct (llen ents <? llen l1); [destruct He as [<-|[]]; exact I|destruct He]. }
      destruct (llen ents <? llen l1); inversion H1; subst; cbn [term voted];
        rewrite tv_after_app, E1; cbn [fst snd]; apply tv_after_only_log; exact OL. }
    destruct (N.ltb_spec (term n) lit) as [Hlt|Hge].
    + apply (G (Node lit None (log n) (role n) (votes n)) [TermAndVote lit None]); [|exact H].
      cbn [term voted]. apply tv1_gt. exact Hlt.
    + apply (G n []); [reflexivity|exact H].
  - (* PreVote *)
    destruct (N.ltb_spec (term n) t) as [Hlt|Hge].
    + inversion H; subst; cbn [term voted]. apply tv1_gt. exact Hlt.
    + destruct (granted && (t =? term n)); inversion H; subst; cbn [term voted]; [|reflexivity].
      apply tv1_gt. lia.
Qed.

(* ======================================================================== *)
Definition log_clause (l l' : list lentry) (w : list rentry) : Prop :=
  contig l' /\ log_after w l = l' /\
  forall q q', w = q ++ q' ->
    firstn (cp l l') (log_after q l) = firstn (cp l l') l /\ contig (log_after q l).

Lemma log_clause_same l w : contig l ->
  (forall e, In e w -> match e with TermAndVote _ _ => True | _ => False end) -> log_clause l l w.
Proof.
  intros C H. assert (G: forall q q', w = q ++ q' -> log_after q l = l).
  { intros q q' E. unfold log_after. rewrite (no_log_prefix l w _ H q q' E). reflexivity. }
  split; [exact C|]. split; [apply (G w []); rewrite app_nil_r; reflexivity|].
  intros q q' E. rewrite (G q q' E). split; [reflexivity|exact C].
Qed.

Lemma log_clause_tv_cons l l' t v w : log_clause l l' w -> log_clause l l' (TermAndVote t v :: w).
Proof.
  intros (C & E & P). split; [exact C|]. split; [rewrite log_after_tv; exact E|].
  intros q q' Hq. destruct q as [|r q].
  { destruct (P [] w eq_refl) as [_ P2]. split; [reflexivity|exact P2]. }
  cbn [app] in Hq. inversion Hq; subst r.
  rewrite log_after_tv. apply (P q q' H1).
Qed.

Lemma log_clause_AE l ents p : contig l -> ents_from p ents -> p <= llen l ->
  log_clause l (fst (append_entries l ents)) (snd (append_entries l ents)).
Proof.
  intros C Hf Hp. destruct (AE_prefix ents l p Hf C Hp) as (A1 & _ & A3 & A4).
  split; [exact A1|]. split; [exact A3|].
  intros q q' Hq. destruct (A4 q q' Hq) as (j & J1 & J2 & J3).
  split; [apply (firstn_min_eq _ _ _ j J2 J1)|exact J3].
Qed.

Lemma cp_firstn_r a : forall b m, (cp a (firstn m b) <= cp a b)%nat.
Proof.
  induction a as [|x a IH]; intros [|y b] [|m]; cbn; try lia.
  destruct (lentry_eqb x y); [specialize (IH b m); lia|lia].
Qed.
(* a log record sequence followed by cutting the resulting log behind its first m entries *)
Lemma log_clause_cut l l1 w m : log_clause l l1 w -> (m < length l1)%nat ->
  log_clause l (firstn m l1) (w ++ [LogTruncate (N.of_nat m + 1)]).
Proof.
  intros (C1 & E & P) Hm.
  assert (C2: contig (firstn m l1)) by (apply contig_firstn; exact C1).
  assert (EL: log_after (w ++ [LogTruncate (N.of_nat m + 1)]) l = firstn m l1).
  { rewrite log_after_app, E. rewrite log_after_trunc by (try exact C1; lia).
    replace (N.to_nat (N.of_nat m + 1 - 1)) with m by lia. reflexivity. }
  split; [exact C2|]. split; [exact EL|].
  intros q q' Hq.
  destruct q' as [|x q'] using rev_ind.
  - rewrite app_nil_r in Hq. subst q. rewrite EL. split; [symmetry; apply cp_firstn_eq|exact C2].
  - clear IHq'. rewrite app_assoc in Hq. apply app_inj_tail in Hq as [Hq _].
    destruct (P q q' Hq) as [P1 P2]. split; [|exact P2].
    apply (firstn_min_eq _ _ _ (cp l l1)); [exact P1|apply cp_firstn_r].
Qed.

Lemma step_log n s n' w out : contig (log n) -> wf_step s -> step n s = (n', w, out) ->
  log_clause (log n) (log n') w.
Proof.
  intros C Wf H.
  assert (TV1: forall t v e, In e [TermAndVote t v] -> match e with TermAndVote _ _ => True | _ => False end).
  { intros t v e [<-|[]]. exact I. }
  assert (TV2: forall t v t2 v2 e, In e [TermAndVote t v; TermAndVote t2 v2] ->
               match e with TermAndVote _ _ => True | _ => False end).
  { intros t v t2 v2 e [<-|[<-|[]]]; exact I. }
  assert (NIL: forall e, In e (@nil rentry) -> match e with TermAndVote _ _ => True | _ => False end).
  { intros e []. }
  destruct s; cbn [step] in H.
  - inversion H; subst; cbn [log]. apply log_clause_same; [exact C|apply TV1].
  - repeat match type of H with
           | context [if ?b then _ else _] => destruct b
           | context [let '(_, _) := ?x in _] => destruct x
           | context [match ?x with Some _ => _ | None => _ end] => destruct x
           end; inversion H; subst; cbn [log app term];
      (apply log_clause_same; [exact C|first [apply NIL|apply TV1|apply TV2]]).
  - repeat match type of H with
           | context [if ?b then _ else _] => destruct b
           end; inversion H; subst; cbn [log app]; (apply log_clause_same; [exact C|first [apply NIL|apply TV1|apply TV2]]).
  - (* Append *)
    cbn [wf_step] in Wf.
    assert (AE: forall l0, l0 = log n -> forall pre,
              prev_i = 0 \/ prev_i <= llen l0 ->
              (pre = [] \/ exists t v, pre = [TermAndVote t v]) ->
              log_clause l0 (fst (append_entries l0 ents)) (pre ++ snd (append_entries l0 ents))).
    { intros l0 -> pre Hp Hpre.
      assert (LC: log_clause (log n) (fst (append_entries (log n) ents)) (snd (append_entries (log n) ents))).
      { destruct Hp as [Hz|Hle].
        - subst prev_i. apply (log_clause_AE _ _ 0); [exact C|exact Wf|lia].
        - apply (log_clause_AE _ _ prev_i); assumption. }
      destruct Hpre as [->|(t0 & v0 & ->)]; [exact LC|]. cbn [app]. apply log_clause_tv_cons. exact LC. }
    destruct (term n <? t) eqn:Elt; cbn [term voted log role votes] in H.
    + rewrite N.eqb_refl in H.
      destruct (prev_i =? 0) eqn:Ez.
      * destruct (append_entries (log n) ents) as [l' w2] eqn:E2. inversion H; subst; cbn [log].
        specialize (AE (log n) eq_refl [TermAndVote t None] (or_introl (proj1 (N.eqb_eq _ _) Ez)) (or_intror (ex_intro _ t (ex_intro _ None eq_refl)))).
        rewrite E2 in AE. exact AE.
      * destruct (prev_i <=? llen (log n)) eqn:Ele.
        { destruct (nth_error (log n) (N.to_nat (prev_i - 1))) as [x|] eqn:Ex.
          - destruct (l_term x =? prev_t).
            + destruct (append_entries (log n) ents) as [l' w2] eqn:E2. inversion H; subst; cbn [log].
              apply N.leb_le in Ele.
              specialize (AE (log n) eq_refl [TermAndVote t None] (or_intror Ele) (or_intror (ex_intro _ t (ex_intro _ None eq_refl)))).
              rewrite E2 in AE. exact AE.
            + inversion H; subst; cbn [log]. (apply log_clause_same; [exact C|first [apply NIL|apply TV1|apply TV2]]).
          - inversion H; subst; cbn [log]. (apply log_clause_same; [exact C|first [apply NIL|apply TV1|apply TV2]]). }
        { inversion H; subst; cbn [log]. (apply log_clause_same; [exact C|first [apply NIL|apply TV1|apply TV2]]). }
    + destruct (t =? term n) eqn:Et; [|inversion H; subst; apply log_clause_same; [exact C|apply NIL]].
      cbn [term voted log role votes] in H.
      destruct (prev_i =? 0) eqn:Ez.
      * destruct (append_entries (log n) ents) as [l' w2] eqn:E2. inversion H; subst; cbn [log app].
        specialize (AE (log n) eq_refl [] (or_introl (proj1 (N.eqb_eq _ _) Ez)) (or_introl eq_refl)).
        rewrite E2 in AE. exact AE.
      * destruct (prev_i <=? llen (log n)) eqn:Ele.
        { destruct (nth_error (log n) (N.to_nat (prev_i - 1))) as [x|] eqn:Ex.
          - destruct (l_term x =? prev_t).
            + destruct (append_entries (log n) ents) as [l' w2] eqn:E2. inversion H; subst; cbn [log app].
              apply N.leb_le in Ele.
              specialize (AE (log n) eq_refl [] (or_intror Ele) (or_introl eq_refl)).
              rewrite E2 in AE. exact AE.
            + inversion H; subst; cbn [log]. (apply log_clause_same; [exact C|first [apply NIL|apply TV1|apply TV2]]).
          - inversion H; subst; cbn [log]. (apply log_clause_same; [exact C|first [apply NIL|apply TV1|apply TV2]]). }
        { inversion H; subst; cbn [log]. (apply log_clause_same; [exact C|first [apply NIL|apply TV1|apply TV2]]). }
  - repeat match type of H with
           | context [if ?b then _ else _] => destruct b
           end; inversion H; subst; cbn [log app]; (apply log_clause_same; [exact C|first [apply NIL|apply TV1|apply TV2]]).
  - inversion H; subst; cbn [log]. (apply log_clause_same; [exact C|first [apply NIL|apply TV1|apply TV2]]).
  - (* Propose *)
    destruct (role n =? LEADER); inversion H; subst; cbn [log]; [|apply log_clause_same; [exact C|apply NIL]].
    set (e := (llen (log n) + 1, term n, h)).
    assert (Ce: contig (log n ++ [e])) by (apply contig_app1; [exact C|reflexivity]).
    split; [exact Ce|]. split.
    { rewrite log_after_full by (auto; reflexivity). reflexivity. }
    intros q q' Hq. destruct q as [|r q]; [split; [reflexivity|exact C]|].
    cbn [app] in Hq. inversion Hq; subst r. destruct q; [|discriminate].
    rewrite log_after_full by (auto; reflexivity). unfold log_after. cbn [fold_left r_log].
    split; [symmetry; apply cp_firstn_eq|exact Ce].
  - (* InstallSnap *)
    cbn [wf_step] in Wf.
    destruct (negb accepted); [inversion H; subst; apply log_clause_same; [exact C|apply NIL]|].
    assert (LC: log_clause (log n) (fst (append_entries (log n) ents)) (snd (append_entries (log n) ents)))
      by (apply (log_clause_AE _ _ 0); [exact C|exact Wf|lia]).
    assert (G: forall n1 w1, log n1 = log n -> (w1 = [] \/ exists t v, w1 = [TermAndVote t v]) ->
               (let '(l1, w2) := append_entries (log n1) ents in
                let '(l2, w3) := if llen ents <? llen l1 then (firstn (length ents) l1, [LogTruncate (llen ents + 1)]) else (l1, []) in
                (Node (term n1) (voted n1) l2 (role n1) (votes n1), w1 ++ w2 ++ w3, [1])) = (n', w, out) ->
               log_clause (log n) (log n') w).
    { intros n1 w1 El Hw1 H1. rewrite El in H1.
      destruct (append_entries (log n) ents) as [l1 w2] eqn:E2. cbn [fst snd] in LC.
      assert (LC2: log_clause (log n) (log n') (w2 ++ (if llen ents <? llen l1 then [LogTruncate (llen ents + 1)] else []))
                   /\ w = w1 ++ w2 ++ (if llen ents <? llen l1 then [LogTruncate (llen ents + 1)] else [])).
      { destruct (N.ltb_spec (llen ents) (llen l1)) as [Hlt|Hge]; inversion H1; subst; cbn [log]; (split; [|reflexivity]).
        - unfold llen. apply log_clause_cut; [exact LC|]. unfold llen in Hlt. lia.
        - rewrite app_nil_r. exact LC. }
      destruct LC2 as [LC2 ->].
      destruct Hw1 as [->|(t0 & v0 & ->)]; [exact LC2|]. cbn [app]. apply log_clause_tv_cons. exact LC2. }
    destruct (term n <? lit).
    + apply (G (Node lit None (log n) (role n) (votes n)) [TermAndVote lit None]); [reflexivity| |exact H].
      right. eexists. eexists. reflexivity.
    + apply (G n []); [reflexivity|left; reflexivity|exact H].
  - (* PreVote *)
    repeat match type of H with
           | context [if ?b then _ else _] => destruct b
           end; inversion H; subst; cbn [log app]; (apply log_clause_same; [exact C|first [apply NIL|apply TV1|apply TV2]]).
Qed.

(* ======================================================================== *)
(* records written by a sequence of steps, and the node after them *)
Fixpoint recs (n : node) (ss : list step_in) : list rentry :=
  match ss with [] => [] | s :: r => let '(n', w, _) := step n s in w ++ recs n' r end.
Fixpoint after (n : node) (ss : list step_in) : node :=
  match ss with [] => n | s :: r => let '(n', _, _) := step n s in after n' r end.

Lemma Inv_step n es s n' w out : Inv n es -> wf_step s -> step n s = (n', w, out) -> Inv n' (es ++ w).
Proof.
  intros HI Wf H. apply Inv_proj in HI as (E1 & E2 & C). apply Inv_proj.
  destruct (step_log n s n' w out C Wf H) as (C' & L & _).
  repeat split; [| |exact C'].
  - rewrite tv_after_app, E1. cbn [fst snd]. apply (step_tv n s n' w out H).
  - rewrite log_after_app, E2. exact L.
Qed.
Lemma Inv_run : forall ss n es, Inv n es -> Forall wf_step ss -> Inv (after n ss) (es ++ recs n ss).
Proof.
  induction ss as [|s ss IH]; intros n es HI Wf; cbn [after recs]; [rewrite app_nil_r; exact HI|].
  inversion Wf; subst. destruct (step n s) as [[n' w] out] eqn:E.
  rewrite app_assoc. apply IH; [|assumption]. eapply Inv_step; eauto.
Qed.
Lemma after_app : forall a n b, after n (a ++ b) = after (after n a) b.
Proof.
  induction a as [|s a IH]; intros n b; cbn [after app]; [reflexivity|].
  destruct (step n s) as [[n' w] out]. apply IH.
Qed.
Lemma recs_app : forall a n b, recs n (a ++ b) = recs n a ++ recs (after n a) b.
Proof.
  induction a as [|s a IH]; intros n b; cbn [recs after app]; [reflexivity|].
  destruct (step n s) as [[n' w] out]. rewrite IH, app_assoc. reflexivity.
Qed.

Lemma exists_last (P : nat -> Prop) (dec : forall a, {P a} + {~ P a}) : forall n, P 0%nat ->
  exists a, (a <= n)%nat /\ P a /\ (a = n \/ ~ P (S a)).
Proof.
  induction n as [|n IH]; intros H0.
  - exists 0%nat. repeat split; [lia|exact H0|left; reflexivity].
  - destruct (IH H0) as (a & Ha & Pa & Hl).
    destruct Hl as [->|Hn].
    + destruct (dec (S n)) as [Ps|Ns].
      * exists (S n). repeat split; [lia|exact Ps|left; reflexivity].
      * exists n. repeat split; [lia|exact Pa|right; exact Ns].
    + exists a. repeat split; [lia|exact Pa|right; exact Hn].
Qed.

Section D.
Variable ser : rentry -> list byte.
Variable deser : list byte -> option rentry.
Variable crc : list byte -> N.
Hypothesis deser_ser : forall e, deser (ser e) = Some e.
Hypothesis crc_bound : forall d, crc d < 4294967296.
Hypothesis ser_small : forall e, wf ser e.     (* every payload is shorter than 4 GiB *)

Notation lb := (log_bytes ser crc true).
Definition drun (d : dnode) (ss : list step_in) : dnode :=
  fold_left (fun d s => fst (dstep ser crc d s)) ss d.
Notation drestart := (restart deser crc true).

Lemma all_wf (es : list rentry) : Forall (wf ser) es.
Proof. apply Forall_forall. intros e _. apply ser_small. Qed.

Definition good (d : dnode) : Prop := exists es, file d = lb es /\ Inv (nd d) es.

Lemma good_dn0 : good dn0.
Proof.
  exists []. split; [reflexivity|]. split; [exists None; reflexivity|apply contig_nil].
Qed.

Lemma drun_cons d s ss : drun d (s :: ss) = drun (fst (dstep ser crc d s)) ss.
Proof. reflexivity. Qed.

Lemma drun_shape : forall ss d,
  nd (drun d ss) = after (nd d) ss /\ file (drun d ss) = file d ++ lb (recs (nd d) ss).
Proof.
  induction ss as [|s ss IH]; intros d.
  - cbn. split; [reflexivity|]. rewrite app_nil_r. reflexivity.
  - rewrite drun_cons. cbn [after recs]. unfold dstep.
    destruct (step (nd d) s) as [[n' w] out] eqn:E. cbn [fst].
    destruct (IH (DN n' (file d ++ lb w))) as [I1 I2]. cbn [nd file] in *.
    split; [exact I1|]. rewrite I2. rewrite <- app_assoc. f_equal. symmetry. apply log_bytes_app.
Qed.

(* THE restart theorem: crash at ANY byte offset k of the log (bytes that were in the file when
   the node was opened are durable), after ANY sequence of well-formed protocol steps *)
Theorem restart_any_byte : forall d ss k, good d -> Forall wf_step ss -> (length (file d) <= k)%nat ->
  exists d2, drestart (firstn k (file (drun d ss))) = Some d2 /\ good d2 /\
   forall a, (a <= length ss)%nat -> (length (file (drun d (firstn a ss))) <= k)%nat ->
     let na := nd (drun d (firstn a ss)) in
     term na <= term (nd d2) /\
     (term (nd d2) = term na -> forall v, voted na = Some v -> voted (nd d2) = Some v) /\
     ((a = length ss \/ (k < length (file (drun d (firstn (S a) ss))))%nat) ->
        let nb := nd (drun d (firstn (S a) ss)) in
        firstn (cp (log na) (log nb)) (log (nd d2)) = firstn (cp (log na) (log nb)) (log na)).
Proof.
  intros d ss k (es0 & Hf & HI) Wf Hk0.
  destruct (drun_shape ss d) as [Hn Hfile]. rewrite Hf, <- log_bytes_app in Hfile.
  set (ES := es0 ++ recs (nd d) ss) in *.
  set (c := complete ser crc true ES k).
  assert (Hrep: repair (firstn k (lb ES)) = lb (firstn c ES))
    by (apply (repair_prefix _ ser deser crc true deser_ser crc_bound ES k (all_wf ES))).
  assert (Hrpl: replay_file deser crc true (lb (firstn c ES)) = Ok (firstn c ES))
    by (apply (replay_file_clean _ ser deser crc true true deser_ser crc_bound _ (all_wf _))).
  set (r := from_entries (firstn c ES)).
  exists (DN (Node (r_term r) (r_vote r) (r_log r) FOLLOWER []) (lb (firstn c ES))).
  split.
  { unfold restart. rewrite Hfile, Hrep, Hrpl. reflexivity. }
  (* every acknowledged prefix of steps: firstn c ES = (records up to there) ++ extra *)
  assert (Split: forall a, (a <= length ss)%nat -> (length (file (drun d (firstn a ss))) <= k)%nat ->
            exists extra, firstn c ES = (es0 ++ recs (nd d) (firstn a ss)) ++ extra /\
              (a = length ss -> extra = []) /\
              ((k < length (file (drun d (firstn (S a) ss))))%nat -> (a < length ss)%nat ->
                 exists q', recs (after (nd d) (firstn a ss)) (firstn 1 (skipn a ss)) = extra ++ q')).
  { intros a Ha Hk.
    destruct (drun_shape (firstn a ss) d) as [_ Hfa]. rewrite Hf, <- log_bytes_app in Hfa.
    set (Ea := es0 ++ recs (nd d) (firstn a ss)) in *.
    assert (Hsp: ES = Ea ++ recs (after (nd d) (firstn a ss)) (skipn a ss)).
    { unfold ES, Ea. rewrite <- app_assoc. f_equal. rewrite <- recs_app, firstn_skipn. reflexivity. }
    assert (Hc: (length Ea <= c)%nat).
    { unfold c. apply (complete_ge _ ser deser crc true deser_ser).
      - rewrite Hsp, app_length. lia.
      - rewrite bytes_upto_log. rewrite Hsp. rewrite firstn_app_exact by reflexivity. rewrite <- Hfa. exact Hk. }
    exists (firstn (c - length Ea) (recs (after (nd d) (firstn a ss)) (skipn a ss))).
    split; [rewrite Hsp; rewrite firstn_app_ge by exact Hc; reflexivity|]. split.
    - intros ->. rewrite skipn_all. cbn. apply firstn_nil.
    - intros Hk2 Halt.
      destruct (drun_shape (firstn (S a) ss) d) as [_ Hfb]. rewrite Hf, <- log_bytes_app in Hfb.
      assert (Hs: firstn (S a) ss = firstn a ss ++ firstn 1 (skipn a ss)).
      { rewrite <- (firstn_skipn a ss) at 1. rewrite firstn_app, firstn_firstn, firstn_length.
        replace (Nat.min (S a) a) with a by lia. replace (S a - Nat.min a (length ss))%nat with 1%nat by lia.
        reflexivity. }
      rewrite Hs, recs_app, app_assoc in Hfb. fold Ea in Hfb.
      set (w1 := recs (after (nd d) (firstn a ss)) (firstn 1 (skipn a ss))) in *.
      assert (Hw: recs (after (nd d) (firstn a ss)) (skipn a ss) =
                  w1 ++ recs (after (after (nd d) (firstn a ss)) (firstn 1 (skipn a ss))) (skipn 1 (skipn a ss))).
      { rewrite <- (firstn_skipn 1 (skipn a ss)) at 1. apply recs_app. }
      (* the records of step a+1 do not all fit *)
      assert (Hlt: (c < length (Ea ++ w1))%nat).
      { unfold c. apply (complete_lt _ ser deser crc true deser_ser). rewrite bytes_upto_log.
        assert (Hpre: firstn (length (Ea ++ w1)) ES = Ea ++ w1).
        { rewrite Hsp, Hw, app_assoc. apply firstn_app_exact. reflexivity. }
        rewrite Hpre, <- Hfb, <- Hs. exact Hk2. }
      rewrite app_length in Hlt.
      rewrite Hw. rewrite firstn_app_le by lia.
      exists (skipn (c - length Ea) w1). symmetry. apply firstn_skipn. }
  (* the invariant at every step boundary *)
  assert (InvA: forall a, Inv (after (nd d) (firstn a ss)) (es0 ++ recs (nd d) (firstn a ss))).
  { intros a. apply Inv_run; [exact HI|]. apply Forall_forall. intros x Hx.
    rewrite Forall_forall in Wf. apply Wf. rewrite <- (firstn_skipn a ss). apply in_or_app. left. exact Hx. }
  (* the step in progress at the crash: one more step from an acknowledged boundary *)
  assert (StepA: forall a, (a < length ss)%nat -> exists s n' w out,
            firstn 1 (skipn a ss) = [s] /\ wf_step s /\
            step (after (nd d) (firstn a ss)) s = (n', w, out) /\
            recs (after (nd d) (firstn a ss)) [s] = w /\
            after (nd d) (firstn (S a) ss) = n').
  { intros a Ha. destruct (skipn a ss) as [|s rest] eqn:Es.
    { assert (length (skipn a ss) = 0%nat) by (rewrite Es; reflexivity). rewrite skipn_length in H. lia. }
    destruct (step (after (nd d) (firstn a ss)) s) as [[n' w] out] eqn:E.
    exists s, n', w, out. split; [reflexivity|]. split.
    { rewrite Forall_forall in Wf. apply Wf. rewrite <- (firstn_skipn a ss), Es. apply in_or_app. right. left. reflexivity. }
    split; [exact E|]. split.
    { cbn [recs]. rewrite E. apply app_nil_r. }
    assert (Hs: firstn (S a) ss = firstn a ss ++ [s]).
    { rewrite <- (firstn_skipn a ss) at 1. rewrite firstn_app, firstn_firstn, firstn_length.
      replace (Nat.min (S a) a) with a by lia. replace (S a - Nat.min a (length ss))%nat with 1%nat by lia.
      rewrite Es. reflexivity. }
    rewrite Hs, after_app. cbn [after]. rewrite E. reflexivity. }
  (* main facts for an acknowledged boundary a *)
  assert (Main: forall a, (a <= length ss)%nat -> (length (file (drun d (firstn a ss))) <= k)%nat ->
     let na := after (nd d) (firstn a ss) in
     term na <= r_term r /\
     (r_term r = term na -> forall v, voted na = Some v -> r_vote r = Some v) /\
     ((a = length ss \/ (k < length (file (drun d (firstn (S a) ss))))%nat) ->
        let nb := after (nd d) (firstn (S a) ss) in
        firstn (cp (log na) (log nb)) (r_log r) = firstn (cp (log na) (log nb)) (log na) /\ contig (r_log r))).
  { intros a Ha Hk na.
    destruct (Split a Ha Hk) as (extra & Hx & Hx1 & Hx2).
    destruct (InvA a) as [[sn Ea] Ca]. fold na in Ea, Ca.
    assert (Er: r = fold_left rec_step extra (RS (term na) (voted na) sn (log na))).
    { unfold r. rewrite Hx, from_entries_app, Ea. reflexivity. }
    split; [rewrite Er; apply (term_mono extra (RS (term na) (voted na) sn (log na)))|].
    split.
    { intros Ht v Hv. rewrite Er in *. apply vote_sticky; [exact Hv|exact Ht]. }
    intros Hlast nb.
    assert (Elog: r_log r = log_after extra (log na)) by (rewrite Er; apply fold_log_indep).
    destruct (Nat.eq_dec a (length ss)) as [->|Hne].
    { rewrite (Hx1 eq_refl) in Elog. unfold log_after in Elog. cbn in Elog. rewrite Elog.
      split; [reflexivity|exact Ca]. }
    destruct Hlast as [?|Hk2]; [contradiction|].
    assert (Ha2: (a < length ss)%nat) by lia.
    destruct (Hx2 Hk2 Ha2) as [q' Hq].
    destruct (StepA a Ha2) as (s & n' & w & out & E1 & Wfs & Est & Erec & Eaft).
    rewrite E1, Erec in Hq. unfold nb. rewrite Eaft.
    destruct (step_log na s n' w out Ca Wfs Est) as (_ & _ & P).
    rewrite Elog. apply (P extra q' Hq). }
  (* pick the last acknowledged boundary (0 is acknowledged) *)
  assert (P0: (length (file (drun d (firstn 0 ss))) <= k)%nat) by (cbn; exact Hk0).
  destruct (exists_last (fun a => (length (file (drun d (firstn a ss))) <= k)%nat)
              (fun a => le_dec _ _) (length ss) P0) as (a0 & Ha0 & Pa0 & Hl0).
  split.
  { exists (firstn c ES). split; [reflexivity|]. unfold Inv. cbn [term voted log nd].
    split; [exists (r_snap r); unfold r; destruct (from_entries (firstn c ES)); reflexivity|].
    destruct (Main a0 Ha0 Pa0) as (_ & _ & M3).
    apply M3. destruct Hl0 as [->|Hnl]; [left; reflexivity|right; lia]. }
  intros a Ha Hk na. cbn [nd term voted log].
  destruct (drun_shape (firstn a ss) d) as [Hna _]. unfold na. rewrite Hna.
  destruct (Main a Ha Hk) as (M1 & M2 & M3). split; [exact M1|]. split; [exact M2|].
  intros Hlast. destruct (drun_shape (firstn (S a) ss) d) as [Hnb _]. rewrite Hnb.
  apply (proj1 (M3 Hlast)).
Qed.
End D.

(* ======================================================================== *)
Section G.
Variable ser : rentry -> list byte.
Variable deser : list byte -> option rentry.
Variable crc : list byte -> N.
Hypothesis deser_ser : forall e, deser (ser e) = Some e.
Hypothesis crc_bound : forall d, crc d < 4294967296.
Hypothesis ser_small : forall e, wf ser e.

(* several generations: run steps, crash with `extra` bytes of the appended region on disk,
   restart; repeated *)
Fixpoint run_gens (d : dnode) (gens : list (list step_in * nat)) : option dnode :=
  match gens with
  | [] => Some d
  | (ss, extra) :: r =>
      match restart deser crc true (firstn (length (file d) + extra) (file (drun ser crc d ss))) with
      | Some d2 => run_gens d2 r
      | None => None
      end
  end.

Theorem generations_good : forall gens d, good ser crc d ->
  Forall (fun g => Forall wf_step (fst g)) gens ->
  exists d', run_gens d gens = Some d' /\ good ser crc d'.
Proof.
  induction gens as [|[ss extra] gens IH]; intros d G Wf; cbn [run_gens].
  - exists d. split; [reflexivity|exact G].
  - inversion Wf; subst. cbn [fst] in *.
    destruct (restart_any_byte ser deser crc deser_ser crc_bound ser_small d ss
                (length (file d) + extra) G H1 ltac:(lia)) as (d2 & E & G2 & _).
    rewrite E. apply IH; assumption.
Qed.

(* consequence: after a restart the node refuses a second candidate in a term it had voted in *)
Corollary no_second_grant : forall d ss k a v c lli llt d2,
  good ser crc d -> Forall wf_step ss -> (length (file d) <= k)%nat ->
  (a <= length ss)%nat -> (length (file (drun ser crc d (firstn a ss))) <= k)%nat ->
  voted (nd (drun ser crc d (firstn a ss))) = Some v -> c <> v ->
  restart deser crc true (firstn k (file (drun ser crc d ss))) = Some d2 ->
  term (nd d2) = term (nd (drun ser crc d (firstn a ss))) ->
  snd (step (nd d2) (ReqVote (term (nd d2)) c lli llt)) = [term (nd d2); 0].
Proof.
  intros d ss k a v c lli llt d2 G Wf Hk0 Ha Hk Hv Hc E Ht.
  destruct (restart_any_byte ser deser crc deser_ser crc_bound ser_small d ss k G Wf Hk0)
    as (d2' & E' & _ & P).
  rewrite E in E'. inversion E'; subst d2'. clear E'.
  destruct (P a Ha Hk) as (_ & P2 & _). specialize (P2 Ht v Hv).
  cbn [step]. rewrite N.ltb_irrefl. rewrite N.eqb_refl. rewrite P2.
  destruct (N.eqb_spec v c) as [->|_]; [congruence|]. cbn [andb].
  destruct (last_info (log (nd d2))). reflexivity.
Qed.
End G.
