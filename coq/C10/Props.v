(* C10/Props.v -- pinned property theorems; nothing but statements closed by `exact`.
   Reading guide.  [ser]/[deser]/[crc] are the external payload serializer (bitcode) and CRC-32
   (crc32fast): the theorems hold for ANY functions satisfying the three visible premises.
   [good d]: the durable node's log file is a clean sequence of records whose replay gives exactly
   the node's term, vote and log (true of a fresh node, kept by every step, re-established by every
   restart).  [drun d ss]: the node after the protocol steps ss.  A crash leaves the first k bytes
   of the file (k >= the length at open: bytes already on disk at open time are durable);
   step number a is "acknowledged" when all its bytes are inside k. *)
From NV.Common Require Import Base WalFormat.
From NV.C10 Require Import Model Proofs Inst.
From NV.gen Require Import Gen_C10.
Open Scope N_scope.

(* Clauses 1-3 of the property, for every sequence of well-formed protocol steps and EVERY byte
   offset of the log:  the node restarts;  its term is at least the term of every acknowledged
   step;  if it is still in that term it has the vote it had cast;  every entry of its log is
   back at its index, except above the first position that the step in progress at the crash
   was itself overwriting. *)
Theorem C10_restart_never_forgets :
  forall (ser : rentry -> list byte) (deser : list byte -> option rentry) (crc : list byte -> N),
  (forall e, deser (ser e) = Some e) -> (forall d, crc d < 4294967296) -> (forall e, wf ser e) ->
  forall d ss k, good ser crc d -> Forall wf_step ss -> (length (file d) <= k)%nat ->
  exists d2, restart deser crc gen_raft_tail_repair (firstn k (file (drun ser crc d ss))) = Some d2
   /\ good ser crc d2 /\
   forall a, (a <= length ss)%nat -> (length (file (drun ser crc d (firstn a ss))) <= k)%nat ->
     let na := nd (drun ser crc d (firstn a ss)) in
     term na <= term (nd d2) /\
     (term (nd d2) = term na -> forall v, voted na = Some v -> voted (nd d2) = Some v) /\
     ((a = length ss \/ (k < length (file (drun ser crc d (firstn (S a) ss))))%nat) ->
        let nb := nd (drun ser crc d (firstn (S a) ss)) in
        firstn (cp (log na) (log nb)) (log (nd d2)) = firstn (cp (log na) (log nb)) (log na)).
Proof. exact restart_any_byte_gen. Qed.

(* "keeps holding after further restarts": any number of crash / restart / more steps rounds,
   each crash at any byte of what the round appended; every restart succeeds and ends in a good
   state again, so C10_restart_never_forgets applies to every round. *)
Theorem C10_any_number_of_restarts :
  forall (ser : rentry -> list byte) (deser : list byte -> option rentry) (crc : list byte -> N),
  (forall e, deser (ser e) = Some e) -> (forall d, crc d < 4294967296) -> (forall e, wf ser e) ->
  forall gens d, good ser crc d -> Forall (fun g => Forall wf_step (fst g)) gens ->
  exists d', run_gens ser deser crc d gens = Some d' /\ good ser crc d'.
Proof. exact generations_good. Qed.

(* "Consequently a node never grants two different candidates its vote in one term":
   after a restart in the term of an acknowledged vote for v, a RequestVote from c <> v is refused. *)
Theorem C10_no_second_grant :
  forall (ser : rentry -> list byte) (deser : list byte -> option rentry) (crc : list byte -> N),
  (forall e, deser (ser e) = Some e) -> (forall d, crc d < 4294967296) -> (forall e, wf ser e) ->
  forall d ss k a v c lli llt d2,
  good ser crc d -> Forall wf_step ss -> (length (file d) <= k)%nat ->
  (a <= length ss)%nat -> (length (file (drun ser crc d (firstn a ss))) <= k)%nat ->
  voted (nd (drun ser crc d (firstn a ss))) = Some v -> c <> v ->
  restart deser crc true (firstn k (file (drun ser crc d ss))) = Some d2 ->
  term (nd d2) = term (nd (drun ser crc d (firstn a ss))) ->
  snd (step (nd d2) (ReqVote (term (nd d2)) c lli llt)) = [term (nd d2); 0].
Proof. exact no_second_grant. Qed.

(* snapshot installs are steps like any other (C10_restart_never_forgets quantifies over them): an
   accepted install of a snapshot with a higher last-included term logs TermAndVote(lit, None) first
   -- the node holds NO vote in that term, in memory and in the log alike --, then the installed
   entries; afterwards the node's log is the snapshot's (when the local log conflicts with it or is
   shorter; shown on a concrete instance for the conflict case). *)
Theorem C10_snapshot_install_logs_term_without_vote : forall n lit ents n' w out,
  step n (InstallSnap lit ents true) = (n', w, out) -> term n < lit ->
  exists w', w = TermAndVote lit None :: w' /\ term n' = lit /\ voted n' = None
             /\ (forall e, In e w' -> match e with LogEntryFull _ _ _ | LogTruncate _ => True | _ => False end).
Proof.
  intros n lit ents n' w out H Hlt. cbn [step negb] in H.
  apply N.ltb_lt in Hlt. rewrite Hlt in H. cbn [term voted log role votes] in H.
  destruct (append_entries (log n) ents) as [l1 w2] eqn:E2.
  assert (OL: forall e, In e w2 -> match e with LogEntryFull _ _ _ | LogTruncate _ => True | _ => False end).
  { intros e He. apply (AE_only_log ents (log n)). rewrite E2. exact He. }
  destruct (llen ents <? llen l1); inversion H; subst; cbn [app term voted];
    eexists; (split; [reflexivity|]); (split; [reflexivity|]); (split; [reflexivity|]).
  - intros e He. apply in_app_or in He as [He|[<-|[]]]; [apply OL; exact He|exact I].
  - intros e He. rewrite app_nil_r in He. apply OL. exact He.
Qed.

Example C10_snapshot_install_instance :
  let n := Node 1 (Some 1) [(1, 1, 101); (2, 1, 102)] FOLLOWER [] in
  step n (InstallSnap 2 [(1, 1, 101); (2, 2, 202); (3, 2, 203)] true) =
    (Node 2 None [(1, 1, 101); (2, 2, 202); (3, 2, 203)] FOLLOWER [],
     [TermAndVote 2 None; LogTruncate 2; LogEntryFull 2 2 202; LogEntryFull 3 2 203], [1])
  /\ wf_step (InstallSnap 2 [(1, 1, 101); (2, 2, 202); (3, 2, 203)] true).
Proof. split; [vm_compute; reflexivity|cbn; repeat split]. Qed.

(* the hypotheses are satisfiable by non-trivial states: a fresh node is good, and an
   AppendEntries carrying three consecutive entries after a vote is a well-formed step list *)
Example C10_hypotheses_satisfiable :
  (forall ser crc, good ser crc dn0) /\
  Forall wf_step [ReqVote 3 1 0 0; Append 3 1 0 0 [(1, 3, 101); (2, 3, 102); (3, 3, 103)] 1; Elect; Propose 7].
Proof. split; [exact good_dn0|repeat constructor]. Qed.

Print Assumptions C10_restart_never_forgets.
Print Assumptions C10_any_number_of_restarts.
Print Assumptions C10_no_second_grant.
Print Assumptions C10_snapshot_install_logs_term_without_vote.
