(* C10/Run.v -- executable entry points for the correspondence check and the property oracle.
   Depends on Model (+ WalFormat, Crc32Fast, Gen_C10) only. *)
From NV.Common Require Import Base WalFormat Crc32Fast.
From NV.C10 Require Import Model.
From NV.gen Require Import Gen_C10.
Open Scope N_scope.

Definition tab := list (rentry * list byte).
Definition ser_of (t : tab) (e : rentry) : list byte :=
  match find (fun p => rentry_eqb (fst p) e) t with Some p => snd p | None => [] end.
Definition deser_of (t : tab) (b : list byte) : option rentry :=
  match find (fun p => list_eqb N.eqb (snd p) b) t with Some p => Some (fst p) | None => None end.

(* what is visible of a node: term, vote, log image, role *)
Definition nobs := (N * option N * list lentry * N)%type.
Definition nobs_eqb (a b : nobs) : bool :=
  let '(t, v, l, r) := a in let '(t', v', l', r') := b in
  N.eqb t t' && option_eqb N.eqb v v' && list_eqb lentry_eqb l l' && N.eqb r r'.
Definition observe (n : node) : nobs := (term n, voted n, log n, role n).

(* what a restart shows: term, vote, log image (with_wal AND RaftRecoveryState::from_wal agree),
   and whether a probing RequestVote from candidate PROBE in the recovered term is granted *)
Definition PROBE : N := 9.
Definition robs := (N * option N * list lentry * bool)%type.
Definition robs_eqb (a b : robs) : bool :=
  let '(t, v, l, g) := a in let '(t', v', l', g') := b in
  N.eqb t t' && option_eqb N.eqb v v' && list_eqb lentry_eqb l l' && Bool.eqb g g'.

(* ---------------------------------------------------------------- the property oracle *)
Definition acked (ends : list N) (k : N) : nat := length (filter (fun e => e <=? k) ends).
Fixpoint common_prefix (a b : list lentry) : nat :=
  match a, b with
  | x :: a', y :: b' => if lentry_eqb x y then S (common_prefix a' b') else O
  | _, _ => O
  end.
Definition nth_obs (lives : list nobs) (i : nat) : nobs := nth i lives (0, None, [], 0).

(* A restart after a crash at byte k, with a = number of steps completed (answered) before k:
   - the node comes back at all;
   - its term is at least the term it had acted on;
   - if it is still in that term, the vote it had cast there is the vote it comes back with,
     and a different candidate probing in that term is refused;
   - every entry that was in its log (each was persisted before it was acknowledged or accepted)
     is back with its index, term and content (the in-memory log may have been compacted: the
     comparison is by entry index, not by position), except where the step in progress at the crash was itself
     overwriting a conflicting suffix. *)
Definition oracle_at (lives : list nobs) (ends : list N) (k : N) (ro : option robs) : bool :=
  match ro with
  | None => false
  | Some (rt, rv, rl, granted) =>
      let a := acked ends k in
      let '(lt, lv, ll, _) := nth_obs lives a in
      let keep := match nth_error lives (S a) with
                  | Some (_, _, ll', _) => Nat.min (length ll) (common_prefix ll ll')
                  | None => length ll
                  end in
      (lt <=? rt)
      && (if rt =? lt then
            match lv with
            | Some c => option_eqb N.eqb rv (Some c) && (if c =? PROBE then true else negb granted)
            | None => true
            end
          else true)
      && forallb (fun e => existsb (lentry_eqb e) rl) (firstn keep ll)
  end.

(* In-memory log compaction (finalize_to + create_snapshot + truncate_log) writes nothing to the
   WAL and -- for requests that refer to indices above the compaction base, which is all the
   harness sends afterwards -- changes no reply: for the model it only changes which suffix of the
   log the node still SHOWS.  The new base (first retained index - 1) is read off the node. *)
Inductive xstep := XS (s : step_in) | XCompact (newbase : N).

(* one generation as seen on the implementation *)
Definition gen_rec :=
  (list xstep * list step_out * list nobs * list N * N * list byte * list (N * N * N * option robs) * N)%type.
Definition gens_case := (tab * list gen_rec)%type.
Definition range (a z step : N) : list N :=
  map (fun i => a + i * step) (N_seq (N.succ ((z - a) / (N.max 1 step)))).

Definition gen_oracle (g : gen_rec) : bool :=
  let '(steps, outs, lives, ends, base, fbytes, crashes, chosen) := g in
  forallb (fun r => let '(a, z, stp, ro) := r in forallb (fun k => oracle_at lives ends k ro) (range a z stp)) crashes.

(* ---------------------------------------------------------------- the model side *)
Section M.
Variable t : tab.
Notation mstep := (dstep (ser_of t) crc32u).
Notation mrestart := (restart (deser_of t) crc32u gen_raft_tail_repair).

Definition observe_from (b : N) (n : node) : nobs :=
  (term n, voted n, filter (fun e => b <? l_idx e) (log n), role n).
Fixpoint run_obs (b : N) (d : dnode) (steps : list xstep) : dnode * list step_out * list nobs * list N :=
  match steps with
  | [] => (d, [], [], [])
  | XS s :: r =>
      let '(d1, out) := mstep d s in
      let '(d2, outs, os, es) := run_obs b d1 r in
      (d2, out :: outs, observe_from b (nd d1) :: os, N.of_nat (length (file d1)) :: es)
  | XCompact b' :: r =>
      let '(d2, outs, os, es) := run_obs b' d r in
      (d2, [] :: outs, observe_from b' (nd d) :: os, N.of_nat (length (file d)) :: es)
  end.

Definition probe_granted (n : node) : bool :=
  match step n (ReqVote (term n) PROBE 1000000 1000000) with
  | (_, _, [_; g]) => g =? 1
  | _ => false
  end.
Definition rec_obs (f : list byte) (k : N) : option robs :=
  match mrestart (firstn (N.to_nat k) f) with
  | Some d => Some (term (nd d), voted (nd d), log (nd d), probe_granted (nd d))
  | None => None
  end.

Fixpoint gens_model (d : dnode) (gs : list gen_rec) : N :=
  match gs with
  | [] => V_OK
  | g :: rest =>
      let '(steps, outs, lives, ends, base, fbytes, crashes, chosen) := g in
      let '(d1, mouts, os, es) := run_obs 0 d steps in
      if negb (N.eqb base (N.of_nat (length (file d)))) then V_MISMATCH
      else if negb (list_eqb (list_eqb N.eqb) mouts outs) then V_MISMATCH
      else if negb (list_eqb nobs_eqb (observe (nd d) :: os) lives) then V_MISMATCH
      else if negb (list_eqb N.eqb es ends) then V_MISMATCH
      else if negb (list_eqb N.eqb (file d1) fbytes) then V_MISMATCH
      else if negb (forallb (fun r => let '(a, z, stp, ro) := r in
                                forallb (fun k => option_eqb robs_eqb (rec_obs fbytes k) ro) (range a z stp)) crashes)
           then V_MISMATCH
      else match rest with
           | [] => V_OK
           | _ => match mrestart (firstn (N.to_nat chosen) fbytes) with
                  | Some d2 => gens_model d2 rest
                  | None => V_MISMATCH
                  end
           end
  end.
End M.

Definition check_gens (c : gens_case) : N :=
  let '(t, gs) := c in
  if negb (forallb gen_oracle gs) then V_VIOLATION
  else gens_model t dn0 gs.
