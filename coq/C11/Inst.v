(* C11/Inst.v -- PER-RUN OBLIGATIONS over gen/Gen_C11.v (regenerated from slab_router.rs every run):
   which operations are one atomic step, and the lock scopes the theorems rely on. *)
From NV.Common Require Import Base.
From NV.C11 Require Import Model.
From NV.gen Require Import Gen_C11.
Open Scope N_scope.

(* put / get / exists on graph (1), table (2) and metadata (4) keys are ONE step on the metadata slab;
   on cache keys (3) one call into the cache ring *)
Lemma gen_single_step_classes :
  forall cls, cls = 1 \/ cls = 2 \/ cls = 4 ->
    gen_put_steps cls = (false, [2]) /\ gen_get_steps cls = (false, [2]) /\ gen_exists_steps cls = (false, [2]).
Proof. intros cls [H|[H|H]]; subst cls; vm_compute; repeat split; reflexivity. Qed.

Lemma gen_cache_steps :
  gen_put_steps 3 = (false, [3]) /\ gen_get_steps 3 = (false, [3]) /\ gen_exists_steps 3 = (false, [3])
  /\ gen_delete_steps 3 = (false, [3]).
Proof. vm_compute. repeat split; reflexivity. Qed.

(* delete no longer starts with a separate exists() check: its result comes from the removal *)
Lemma gen_delete_no_precheck : forall cls, cls < 5 -> fst (gen_delete_steps cls) = false.
Proof.
  intros cls H. assert (E : cls = 0 \/ cls = 1 \/ cls = 2 \/ cls = 3 \/ cls = 4) by lia.
  destruct E as [E|[E|[E|[E|E]]]]; subst cls; reflexivity.
Qed.

(* the in-memory apply of put_durable / delete_durable runs inside the WAL guard *)
Lemma gen_durable_atomic : gen_log_apply_atomic = true.
Proof. reflexivity. Qed.

(* the embedding-class arms of put/get/delete/exists hold the key's lock stripe *)
Lemma gen_emb_ops_locked : gen_emb_locked = true.
Proof. reflexivity. Qed.

(* CacheRing::get reads the slot number and the slot under different locks; it returns a value only
   after comparing the entry's key (the slot may have been re-used in between) *)
Lemma gen_cache_get_key_checked : gen_cache_get_checks_key = true.
Proof. reflexivity. Qed.

(* a non-empty-prefix scan of the metadata slab is one atomic step: keys and values are copied under one
   acquisition of the shard lock *)
Lemma gen_scan_single_step : gen_scan_one_lock = true.
Proof. reflexivity. Qed.


(* TensorStore::put feeds the Bloom filter that get/exists consult first; concurrent adds that share a
   64-bit word must not lose each other's bits: one atomic read-modify-write per bit *)
Lemma gen_bloom_add_atomic : gen_bloom_add_fetch_or = true.
Proof. reflexivity. Qed.

(* replay re-allocates entity ids in log order; the live store must allocate them in log order too:
   put_durable calls index.get_or_create only after it holds the WAL guard *)
Lemma gen_durable_ids_in_log_order : gen_durable_id_alloc_locked = true.
Proof. reflexivity. Qed.

(* a key registered in the entity index for a durable put in flight is not reported by exists / scan
   before get finds it *)
Lemma gen_index_entries_not_early : gen_index_entry_visible_only_with_value = true.
Proof. reflexivity. Qed.

(* the upper bound of a prefix range is computed on characters: scan(p) returns exactly the keys with prefix p *)
Lemma gen_prefix_bound_on_chars : gen_next_prefix_on_chars = true.
Proof. reflexivity. Qed.

(* get/exists consult the Bloom filter first: a key must be in the filter before the router write can make
   it visible to scans *)
Lemma gen_bloom_fed_first : gen_bloom_add_before_write = true.
Proof. reflexivity. Qed.

(* entity ids are positional: replay allocates them for exactly the records for which the live store did *)
Lemma gen_replay_ids_like_live : gen_replay_registers_like_put_durable = true.
Proof. reflexivity. Qed.

(* concurrent first puts of different embedding keys never share a slab slot: the slot number comes from
   one atomic read-modify-write of the write position *)
Lemma gen_slot_alloc_atomic : gen_slot_alloc_fetch_add = true.
Proof. reflexivity. Qed.

