(* C11/Model.v -- step model of concurrent store operations.  DEFINITIONS ONLY.
   Sources mirrored: tensor_store/src/slab_router.rs (put/get/delete/exists/scan arms per key class,
   put_durable/delete_durable), metadata_slab.rs (one RwLock per shard: get/set/delete/contains and a
   non-empty-prefix scan are ONE lock acquisition), entity_index.rs, embedding_slab.rs, cache_ring.rs.
   One atomic step = one lock acquisition.  Which structures an operation touches, in which order,
   and whether the durable apply runs inside the WAL guard come from gen/Gen_C11.v. *)
From NV.Common Require Import Base.
Open Scope N_scope.

(* ------------------------------------------------------------------ sequential specification *)
(* key = (class, index): 0 embedding, 1 graph, 2 table, 3 cache, 4 metadata *)
Definition key := (N * N)%type.
Definition key_eqb (a b : key) : bool := N.eqb (fst a) (fst b) && N.eqb (snd a) (snd b).

Inductive op :=
| OPut (k : key) (v : N)
| OGet (k : key)
| ODel (k : key)
| OExists (k : key)
| OScan (cls : N).            (* scan of one class prefix *)

Inductive res :=
| RUnit                       (* put *)
| RVal (o : option N)         (* get: None = NotFound *)
| RDel (found : bool)         (* delete: Ok / NotFound *)
| RBool (b : bool)            (* exists *)
| RKeys (ks : list N).        (* scan: indexes of the class's keys, ascending *)

Definition store := list (key * N).
Fixpoint kget (s : store) (k : key) : option N :=
  match s with
  | [] => None
  | (k', v) :: r => if key_eqb k' k then Some v else kget r k
  end.
Fixpoint kset (s : store) (k : key) (v : N) : store :=
  match s with
  | [] => [(k, v)]
  | (k', v') :: r => if key_eqb k' k then (k, v) :: r else (k', v') :: kset r k v
  end.
Fixpoint kdel (s : store) (k : key) : store :=
  match s with
  | [] => []
  | (k', v') :: r => if key_eqb k' k then kdel r k else (k', v') :: kdel r k
  end.
Fixpoint ins_asc (x : N) (l : list N) : list N :=
  match l with
  | [] => [x]
  | y :: r => if x <? y then x :: l else if x =? y then l else y :: ins_asc x r
  end.
Definition class_keys (s : store) (cls : N) : list N :=
  fold_right ins_asc [] (map (fun e => snd (fst e)) (filter (fun e => N.eqb (fst (fst e)) cls) s)).

Definition apply_seq (s : store) (o : op) : store * res :=
  match o with
  | OPut k v => (kset s k v, RUnit)
  | OGet k => (s, RVal (kget s k))
  | ODel k => match kget s k with Some _ => (kdel s k, RDel true) | None => (s, RDel false) end
  | OExists k => (s, RBool (match kget s k with Some _ => true | None => false end))
  | OScan cls => (s, RKeys (class_keys s cls))
  end.

Definition res_eqb (a b : res) : bool :=
  match a, b with
  | RUnit, RUnit => true
  | RVal x, RVal y => option_eqb N.eqb x y
  | RDel x, RDel y => Bool.eqb x y
  | RBool x, RBool y => Bool.eqb x y
  | RKeys x, RKeys y => list_eqb N.eqb x y
  | _, _ => false
  end.

(* ------------------------------------------------------------------ single-step operations: the machine *)
(* An operation whose implementation is ONE atomic step on one structure: it is invoked, takes its
   step (reading/updating the shared store and fixing its result), and returns.  Invocations carry a
   unique id; any number of operations may be in flight. *)
Inductive ev := EInv (i : N) (o : op) | ELin (i : N) | ERes (i : N) (r : res).

Record mstate := M {
  m_sh : store;
  m_pend : list (N * op);                 (* invoked, step not yet taken *)
  m_done : list (N * res);                (* step taken, not yet returned *)
  m_seen : list N;                        (* every id ever invoked *)
  m_inv : list (N * nat);                 (* id -> time of invocation *)
  m_lin : list (N * op * res * nat);      (* steps taken, newest first: id, op, result, time *)
  m_res : list (N * res * nat)            (* id -> reported result, time of response *)
}.
Definition m_init : mstate := M [] [] [] [] [] [] [].

Fixpoint take {A} (l : list (N * A)) (i : N) : option (A * list (N * A)) :=
  match l with
  | [] => None
  | (j, a) :: r => if N.eqb j i then Some (a, r)
                   else match take r i with Some (x, r') => Some (x, (j, a) :: r') | None => None end
  end.

Definition mstep (now : nat) (m : mstate) (e : ev) : option mstate :=
  match e with
  | EInv i o =>
      if existsb (N.eqb i) (m_seen m) then None
      else Some (M (m_sh m) ((i, o) :: m_pend m) (m_done m) (i :: m_seen m) ((i, now) :: m_inv m) (m_lin m) (m_res m))
  | ELin i =>
      match take (m_pend m) i with
      | Some (o, pend') =>
          let '(sh', r) := apply_seq (m_sh m) o in
          Some (M sh' pend' ((i, r) :: m_done m) (m_seen m) (m_inv m) ((i, o, r, now) :: m_lin m) (m_res m))
      | None => None
      end
  | ERes i r =>
      match take (m_done m) i with
      | Some (r', done') =>
          if res_eqb r r' then Some (M (m_sh m) (m_pend m) done' (m_seen m) (m_inv m) (m_lin m) ((i, r, now) :: m_res m))
          else None
      | None => None
      end
  end.
Fixpoint mrun (now : nat) (m : mstate) (tr : list ev) : option mstate :=
  match tr with
  | [] => Some m
  | e :: r => match mstep now m e with Some m' => mrun (S now) m' r | None => None end
  end.

(* replaying a list of (op, expected result) against the sequential specification *)
Fixpoint seq_ok (s : store) (l : list (op * res)) : bool :=
  match l with
  | [] => true
  | (o, r) :: t => let '(s', r') := apply_seq s o in res_eqb r r' && seq_ok s' t
  end.
Fixpoint seq_final (s : store) (l : list (op * res)) : store :=
  match l with
  | [] => s
  | (o, _) :: t => seq_final (fst (apply_seq s o)) t
  end.
(* the linearization: steps in the order they were taken *)
Definition lin_order (m : mstate) : list (op * res) := map (fun e => let '(_, o, r, _) := e in (o, r)) (rev (m_lin m)).

(* ------------------------------------------------------------------ durable writes *)
Inductive dop := DPut (k : key) (v : N) | DDel (k : key).
Inductive wentry := WSet (k : key) (v : N) | WDel (k : key).
Definition entry_of (d : dop) : wentry := match d with DPut k v => WSet k v | DDel k => WDel k end.
Definition apply_entry (s : store) (w : wentry) : store :=
  match w with WSet k v => kset s k v | WDel k => kdel s k end.
Definition replay (log : list wentry) : store := fold_left apply_entry log [].

(* the steps of one durable write: log then apply; in ONE atomic step iff the apply runs inside the
   WAL guard (log_apply_atomic) *)
Inductive dstep := SLog (w : wentry) | SApply (w : wentry) | SLogApply (w : wentry).
Definition dsteps (atomic : bool) (d : dop) : list dstep :=
  if atomic then [SLogApply (entry_of d)] else [SLog (entry_of d); SApply (entry_of d)].

Record dstate := D { d_mem : store; d_log : list wentry; d_threads : list (list dstep) }.
Definition d_init (atomic : bool) (progs : list (list dop)) : dstate :=
  D [] [] (map (fun p => flat_map (dsteps atomic) p) progs).

Fixpoint set_nth {A} (l : list A) (n : nat) (x : A) : list A :=
  match l, n with
  | [], _ => []
  | _ :: t, O => x :: t
  | h :: t, S n' => h :: set_nth t n' x
  end.
(* thread t takes its next step (no effect if it has none) *)
Definition dstep_run (s : dstate) (t : nat) : dstate :=
  match nth_error (d_threads s) t with
  | Some (st :: rest) =>
      let ths := set_nth (d_threads s) t rest in
      match st with
      | SLog w => D (d_mem s) (d_log s ++ [w]) ths
      | SApply w => D (apply_entry (d_mem s) w) (d_log s) ths
      | SLogApply w => D (apply_entry (d_mem s) w) (d_log s ++ [w]) ths
      end
  | _ => s
  end.
Definition drun (s : dstate) (sched : list nat) : dstate := fold_left dstep_run sched s.
Definition quiescent (s : dstate) : bool := forallb (fun p => match p with [] => true | _ => false end) (d_threads s).

(* two stores agree on every key *)
Definition store_equiv (a b : store) : Prop := forall k, kget a k = kget b k.

(* ------------------------------------------------------------------ embedding-class keys: three structures in sequence *)
(* put = index.get_or_create; embeddings.set; metadata.set -- get = index.get; embeddings.get; metadata.get.
   The value of an embedding key is the pair (metadata tag, slab vector id). *)
Record estate := E { e_idx : bool; e_slab : option N; e_meta : option N }.
Inductive estep :=
| PIdx | PSlab (v : N) | PMeta (v : N)          (* steps of put v *)
| GIdx | GSlab | GMeta.                          (* steps of get *)
(* a reader accumulates (index present, slab vector, metadata tag) *)
Record reader := RD { r_idx : bool; r_slab : option N; r_meta : option N }.
Definition estep_run (s : estate * reader) (st : estep) : estate * reader :=
  let '(e, r) := s in
  match st with
  | PIdx => (E true (e_slab e) (e_meta e), r)
  | PSlab v => (E (e_idx e) (Some v) (e_meta e), r)
  | PMeta v => (E (e_idx e) (e_slab e) (Some v), r)
  | GIdx => (e, RD (e_idx e) (r_slab r) (r_meta r))
  | GSlab => (e, RD (r_idx r) (if r_idx r then e_slab e else None) (r_meta r))
  | GMeta => (e, RD (r_idx r) (r_slab r) (e_meta e))
  end.
(* what get returns: (tag, vector) -- the slab vector overlays the metadata's own copy *)
Definition reader_result (r : reader) : option (N * N) :=
  match r_meta r with
  | Some tag => Some (tag, match r_slab r with Some v => v | None => tag end)
  | None => match r_slab r with Some v => Some (0, v) | None => None end
  end.
