(* C11/Proofs.v -- lemmas: single-step operations are linearizable (any number of overlapping
   operations); durable writes with the apply inside the WAL guard keep log order = memory order
   for every schedule; embedding-class operations under the key's lock stripe never show a mixture. *)
From NV.Common Require Import Base.
From NV.C11 Require Import Model.
Open Scope N_scope.

(* ------------------------------------------------------------------ results compare reflexively *)
Lemma option_eqb_refl {A} (e : A -> A -> bool) o : (forall x, e x x = true) -> option_eqb e o o = true.
Proof. intros He. destruct o; cbn; [apply He|reflexivity]. Qed.
Lemma list_eqb_refl {A} (e : A -> A -> bool) l : (forall x, e x x = true) -> list_eqb e l l = true.
Proof. intros He. induction l as [|x r IH]; cbn; [reflexivity|]. rewrite He, IH. reflexivity. Qed.
Lemma res_eqb_refl r : res_eqb r r = true.
Proof.
  destruct r; cbn; try reflexivity.
  - apply option_eqb_refl. exact N.eqb_refl.
  - destruct found; reflexivity.
  - destruct b; reflexivity.
  - apply list_eqb_refl. exact N.eqb_refl.
Qed.

(* ------------------------------------------------------------------ sequential replay over an appended step *)
Lemma seq_ok_app s l o r :
  seq_ok s (l ++ [(o, r)]) = seq_ok s l && res_eqb r (snd (apply_seq (seq_final s l) o)).
Proof.
  revert s. induction l as [|[o0 r0] t IH]; intros s; cbn [app seq_ok seq_final].
  - destruct (apply_seq s o) as [s' r'] eqn:E. cbn. rewrite andb_true_r. reflexivity.
  - destruct (apply_seq s o0) as [s' r'] eqn:E. cbn [fst]. rewrite IH. rewrite andb_assoc. reflexivity.
Qed.
Lemma seq_final_app s l o r :
  seq_final s (l ++ [(o, r)]) = fst (apply_seq (seq_final s l) o).
Proof.
  revert s. induction l as [|[o0 r0] t IH]; intros s; cbn [app seq_final]; [reflexivity|apply IH].
Qed.

Lemma take_spec {A} (l : list (N * A)) i a r :
  take l i = Some (a, r) -> In (i, a) l /\ (forall x, In x r -> In x l).
Proof.
  revert a r. induction l as [|[j b] t IH]; intros a r; cbn [take]; [discriminate|].
  destruct (N.eqb_spec j i) as [->|Hne].
  - intros [= <- <-]. split; [left; reflexivity|intros x Hx; right; exact Hx].
  - destruct (take t i) as [[x r']|] eqn:E; [|discriminate]. intros [= <- <-].
    destruct (IH x r' eq_refl) as [H1 H2]. split; [right; exact H1|].
    intros y [<-|Hy]; [left; reflexivity|right; apply H2; exact Hy].
Qed.

(* ------------------------------------------------------------------ the machine's invariant *)
Fixpoint times_desc (l : list (N * op * res * nat)) : Prop :=
  match l with
  | [] => True
  | (_, _, _, q) :: r => (forall e, In e r -> (snd e < q)%nat) /\ times_desc r
  end.

Record minv (now : nat) (m : mstate) : Prop := MI {
  i_seq : seq_ok [] (lin_order m) = true;
  i_sh : seq_final [] (lin_order m) = m_sh m;
  i_pend : forall i o, In (i, o) (m_pend m) -> exists p, In (i, p) (m_inv m) /\ (p < now)%nat;
  i_lin : forall i o r q, In (i, o, r, q) (m_lin m) ->
            (q < now)%nat /\ exists p, In (i, p) (m_inv m) /\ (p < q)%nat;
  i_done : forall i r, In (i, r) (m_done m) -> exists o q, In (i, o, r, q) (m_lin m);
  i_res : forall i r s, In (i, r, s) (m_res m) ->
            (s < now)%nat /\ exists o r' q, In (i, o, r', q) (m_lin m) /\ (q < s)%nat /\ res_eqb r r' = true;
  i_desc : times_desc (m_lin m)
}.

Lemma minv_init : minv 0 m_init.
Proof. constructor; cbn; try reflexivity; try (intros; contradiction); exact I. Qed.

Lemma lin_order_cons m i o r q :
  lin_order (M (m_sh m) (m_pend m) (m_done m) (m_seen m) (m_inv m) ((i, o, r, q) :: m_lin m) (m_res m))
  = lin_order m ++ [(o, r)].
Proof. unfold lin_order. cbn [m_lin rev]. rewrite map_app. reflexivity. Qed.

Lemma mstep_inv now m e m' : minv now m -> mstep now m e = Some m' -> minv (S now) m'.
Proof.
  intros [Hseq Hsh Hpend Hlin Hdone Hres Hdesc] Hs. destruct e as [i o|i|i r]; cbn [mstep] in Hs.
  - (* invocation *)
    destruct (existsb (N.eqb i) (m_seen m)); [discriminate|]. inversion Hs; subst m'; clear Hs.
    constructor; cbn [m_sh m_pend m_done m_inv m_lin m_res].
    + exact Hseq.
    + exact Hsh.
    + intros j o' [E|Hin].
      * inversion E; subst. exists now. split; [left; reflexivity|lia].
      * destruct (Hpend j o' Hin) as (p & Hp & Hlt). exists p. split; [right; exact Hp|lia].
    + intros j o' r q Hin. destruct (Hlin j o' r q Hin) as (Hq & p & Hp & Hlt).
      split; [lia|]. exists p. split; [right; exact Hp|exact Hlt].
    + exact Hdone.
    + intros j r s Hin. destruct (Hres j r s Hin) as (Hq & rest). split; [lia|exact rest].
    + exact Hdesc.
  - (* the atomic step *)
    destruct (take (m_pend m) i) as [[o pend']|] eqn:T; [|discriminate].
    destruct (apply_seq (m_sh m) o) as [sh' r] eqn:A. inversion Hs; subst m'; clear Hs.
    destruct (take_spec _ _ _ _ T) as [Hin Hsub].
    assert (Hlo : lin_order (M sh' pend' ((i, r) :: m_done m) (m_seen m) (m_inv m)
                               ((i, o, r, now) :: m_lin m) (m_res m)) = lin_order m ++ [(o, r)]).
    { unfold lin_order. cbn [m_lin rev]. rewrite map_app. reflexivity. }
    constructor; cbn [m_sh m_pend m_done m_inv m_lin m_res].
    + rewrite Hlo, seq_ok_app, Hseq, Hsh, A. cbn. apply res_eqb_refl.
    + rewrite Hlo, seq_final_app, Hsh, A. reflexivity.
    + intros j o' Hj. destruct (Hpend j o' (Hsub _ Hj)) as (p & Hp & Hlt). exists p. split; [exact Hp|lia].
    + intros j o' r' q [E|Hj].
      * inversion E; subst. split; [lia|]. destruct (Hpend j o' Hin) as (p & Hp & Hlt). exists p. split; assumption.
      * destruct (Hlin j o' r' q Hj) as (Hq & rest). split; [lia|exact rest].
    + intros j r' [E|Hj].
      * inversion E; subst. exists o, now. left. reflexivity.
      * destruct (Hdone j r' Hj) as (o' & q & Hq). exists o', q. right. exact Hq.
    + intros j r' s Hj. destruct (Hres j r' s Hj) as (Hs & o' & r'' & q & Hq & Hlt & Heq).
      split; [lia|]. exists o', r'', q. split; [right; exact Hq|split; assumption].
    + split; [|exact Hdesc]. intros [[[j o'] r'] q] Hj. cbn [snd]. apply (Hlin j o' r' q Hj).
  - (* response *)
    destruct (take (m_done m) i) as [[r' done']|] eqn:T; [|discriminate].
    destruct (res_eqb r r') eqn:Er; [|discriminate]. inversion Hs; subst m'; clear Hs.
    destruct (take_spec _ _ _ _ T) as [Hin Hsub].
    constructor; cbn [m_sh m_pend m_done m_inv m_lin m_res].
    + exact Hseq.
    + exact Hsh.
    + intros j o' Hj. destruct (Hpend j o' Hj) as (p & Hp & Hlt). exists p. split; [exact Hp|lia].
    + intros j o' r'' q Hj. destruct (Hlin j o' r'' q Hj) as (Hq & rest). split; [lia|exact rest].
    + intros j r'' Hj. apply Hdone. apply Hsub. exact Hj.
    + intros j r'' s [E|Hj].
      * inversion E; subst. split; [lia|]. destruct (Hdone j r' Hin) as (o' & q & Hq).
        exists o', r', q. split; [exact Hq|]. split; [apply (Hlin j o' r' q Hq)|exact Er].
      * destruct (Hres j r'' s Hj) as (Hs & rest). split; [lia|exact rest].
    + exact Hdesc.
Qed.

Lemma mrun_inv tr : forall now m m', minv now m -> mrun now m tr = Some m' -> exists now', minv now' m'.
Proof.
  induction tr as [|e r IH]; intros now m m' Hi Hr; cbn [mrun] in Hr.
  - inversion Hr; subst. exists now. exact Hi.
  - destruct (mstep now m e) as [m1|] eqn:E; [|discriminate].
    apply (IH (S now) m1 m' (mstep_inv _ _ _ _ Hi E) Hr).
Qed.

(* MAIN (single-step operations): for every accepted trace -- any number of overlapping operations --
   the steps in the order they were taken form a legal sequential history, every response reports the
   result of the operation's own step, and that step lies between the invocation and the response;
   hence if a responded before b was invoked, a's step precedes b's step. *)
Lemma single_step_linearizable tr m :
  mrun 0 m_init tr = Some m ->
  seq_ok [] (lin_order m) = true
  /\ (forall i r s, In (i, r, s) (m_res m) ->
        exists o r' p q, In (i, p) (m_inv m) /\ In (i, o, r', q) (m_lin m)
                         /\ res_eqb r r' = true /\ (p < q)%nat /\ (q < s)%nat)
  /\ times_desc (m_lin m).
Proof.
  intros Hr. destruct (mrun_inv tr 0 m_init m minv_init Hr) as [now [Hseq Hsh Hpend Hlin Hdone Hres Hdesc]].
  split; [exact Hseq|]. split; [|exact Hdesc].
  intros i r s Hin. destruct (Hres i r s Hin) as (_ & o & r' & q & Hq & Hlt & Heq).
  destruct (Hlin i o r' q Hq) as (_ & p & Hp & Hpq). exists o, r', p, q. repeat split; assumption.
Qed.

(* real-time order: a responded (time sa) before b was invoked (time pb) => a's step is earlier *)
Lemma realtime_respected pa qa sa pb qb :
  (pa < qa)%nat -> (qa < sa)%nat -> (pb < qb)%nat -> (sa < pb)%nat -> (qa < qb)%nat.
Proof. lia. Qed.

(* ------------------------------------------------------------------ durable order *)
Lemma replay_app log w : replay (log ++ [w]) = apply_entry (replay log) w.
Proof. unfold replay. rewrite fold_left_app. reflexivity. Qed.

Definition all_atomic (ths : list (list dstep)) : Prop :=
  forall p st, In p ths -> In st p -> exists w, st = SLogApply w.

Lemma set_nth_in {A} (l : list A) n x y : In y (set_nth l n x) -> y = x \/ In y l.
Proof.
  revert n. induction l as [|h t IH]; intros n; cbn [set_nth]; [intros []|].
  destruct n as [|n]; cbn [In].
  - intros [<-|H]; auto.
  - intros [<-|H]; auto. destruct (IH n H); auto.
Qed.

Lemma dstep_atomic_inv s t :
  all_atomic (d_threads s) -> replay (d_log s) = d_mem s ->
  all_atomic (d_threads (dstep_run s t)) /\ replay (d_log (dstep_run s t)) = d_mem (dstep_run s t).
Proof.
  intros Ha Hr. unfold dstep_run. destruct (nth_error (d_threads s) t) as [[|st rest]|] eqn:E; try (split; assumption).
  assert (Hin : In (st :: rest) (d_threads s)) by (eapply nth_error_In; exact E).
  destruct (Ha _ st Hin (or_introl eq_refl)) as [w ->].
  cbn [d_threads d_log d_mem]. split.
  - intros p st' Hp Hst. apply set_nth_in in Hp. destruct Hp as [->|Hp].
    + apply (Ha _ st' Hin). right. exact Hst.
    + apply (Ha p st' Hp Hst).
  - rewrite replay_app, Hr. reflexivity.
Qed.

Lemma d_init_atomic progs : all_atomic (d_threads (d_init true progs)).
Proof.
  intros p st Hp Hst. cbn [d_init d_threads] in Hp. apply in_map_iff in Hp. destruct Hp as (prog & <- & _).
  apply in_flat_map in Hst. destruct Hst as (d & _ & Hd). cbn [dsteps] in Hd. destruct Hd as [<-|[]]. eauto.
Qed.

(* with the apply inside the WAL guard: for EVERY schedule and at every moment, replaying the log
   gives exactly the in-memory state *)
Lemma durable_order_atomic progs sched :
  replay (d_log (drun (d_init true progs) sched)) = d_mem (drun (d_init true progs) sched).
Proof.
  assert (G : forall sched s, all_atomic (d_threads s) -> replay (d_log s) = d_mem s ->
                              replay (d_log (drun s sched)) = d_mem (drun s sched)).
  { clear. induction sched as [|t r IH]; intros s Ha Hr; cbn [drun fold_left]; [exact Hr|].
    destruct (dstep_atomic_inv s t Ha Hr) as [Ha' Hr']. apply (IH _ Ha' Hr'). }
  apply G; [apply d_init_atomic|reflexivity].
Qed.

(* with the guard released before the apply (the earlier code) the statement is false *)
Lemma durable_order_split_refuted :
  exists progs sched,
    let s := drun (d_init false progs) sched in
    quiescent s = true /\ kget (d_mem s) (4, 0) = Some 1 /\ kget (replay (d_log s)) (4, 0) = Some 2.
Proof.
  exists [[DPut (4, 0) 1]; [DPut (4, 0) 2]], [0; 1; 1; 0]%nat. repeat split; vm_compute; reflexivity.
Qed.

(* ------------------------------------------------------------------ embedding-class keys *)
Definition put_block (v : N) : list estep := [PIdx; PSlab v; PMeta v].
Definition get_block : list estep := [GIdx; GSlab; GMeta].
Definition e_init : estate := E false None None.
Definition r_init : reader := RD false None None.
Definition erun (s : estate * reader) (l : list estep) : estate * reader := fold_left estep_run l s.

(* under the key's lock stripe whole operations alternate: a get after any sequence of puts returns
   the last put's (tag, vector) pair, never a mixture *)
Lemma locked_no_mixture puts :
  reader_result (snd (erun (fst (erun (e_init, r_init) (flat_map put_block puts)), r_init) get_block))
  = match rev puts with [] => None | v :: _ => Some (v, v) end.
Proof.
  assert (G : forall puts e r,
            fst (erun (e, r) (flat_map put_block puts))
            = match rev puts with [] => e | v :: _ => E true (Some v) (Some v) end).
  { clear. induction puts as [|v t IH]; intros e r; cbn [flat_map rev]; [reflexivity|].
    unfold erun. rewrite fold_left_app. fold (erun (fold_left estep_run (put_block v) (e, r)) (flat_map put_block t)).
    destruct (fold_left estep_run (put_block v) (e, r)) as [e1 r1] eqn:E1.
    rewrite IH. destruct (rev t) as [|w rt] eqn:Rt; cbn [app].
    - cbn in E1. inversion E1. reflexivity.
    - reflexivity. }
  rewrite G. destruct (rev puts) as [|v rt]; reflexivity.
Qed.

(* without a common lock (the earlier code) a reader can see the metadata of one put with the vector
   of another *)
Lemma unlocked_mixture :
  exists sched, reader_result (snd (erun (e_init, r_init) sched)) = Some (1, 2)
                /\ sched = put_block 1 ++ [PIdx; PSlab 2] ++ get_block.
Proof. eexists. split; [|reflexivity]. vm_compute. reflexivity. Qed.
