(* C11/Props.v -- pinned property theorems; nothing but statements closed by `exact`. *)
From NV.Common Require Import Base.
From NV.C11 Require Import Model Proofs Inst.
From NV.gen Require Import Gen_C11.
Open Scope N_scope.

(* Operations implemented as one atomic step (put/get/exists on graph, table, metadata and cache keys:
   Inst.gen_single_step_classes / gen_cache_steps) are linearizable for ANY number of overlapping
   operations: for every trace the machine accepts, the steps in the order they were taken are a legal
   sequential history, every response carries the result of its own step, and that step lies strictly
   between the operation's invocation and its response (so real-time order is respected). *)
Theorem C11_single_step_linearizable : forall tr m,
  mrun 0 m_init tr = Some m ->
  seq_ok [] (lin_order m) = true
  /\ (forall i r s, In (i, r, s) (m_res m) ->
        exists o r' p q, In (i, p) (m_inv m) /\ In (i, o, r', q) (m_lin m)
                         /\ res_eqb r r' = true /\ (p < q)%nat /\ (q < s)%nat)
  /\ times_desc (m_lin m).
Proof. exact single_step_linearizable. Qed.
Example C11_single_step_nonvacuous :
  exists m, mrun 0 m_init [EInv 1 (OPut (4, 0) 7); EInv 2 (OGet (4, 0)); ELin 2; ELin 1; ERes 2 (RVal None); EInv 3 (OGet (4, 0)); ERes 1 RUnit; ELin 3; ERes 3 (RVal (Some 7))] = Some m
            /\ length (m_res m) = 3%nat.
Proof. eexists. split; vm_compute; reflexivity. Qed.

Theorem C11_realtime_respected : forall pa qa sa pb qb : nat,
  (pa < qa)%nat -> (qa < sa)%nat -> (pb < qb)%nat -> (sa < pb)%nat -> (qa < qb)%nat.
Proof. exact realtime_respected. Qed.

(* Durable writes: the code applies inside the WAL guard (Inst.gen_durable_atomic), and then, for every
   set of thread programs and EVERY schedule, replaying the log gives exactly the in-memory state --
   at every moment, in particular after quiescence. *)
Theorem C11_durable_order : forall progs sched,
  replay (d_log (drun (d_init gen_log_apply_atomic progs) sched))
  = d_mem (drun (d_init gen_log_apply_atomic progs) sched).
Proof. rewrite gen_durable_atomic. exact durable_order_atomic. Qed.
Example C11_durable_order_nonvacuous :
  let s := drun (d_init true [[DPut (4, 0) 1; DDel (4, 1)]; [DPut (4, 0) 2]]) [0; 1; 0]%nat in
  quiescent s = true /\ d_log s = [WSet (4, 0) 1; WSet (4, 0) 2; WDel (4, 1)].
Proof. split; vm_compute; reflexivity. Qed.

(* With the guard released before the apply (the code before the fix) it is false: 4-step schedule. *)
Theorem C11_durable_order_split_refuted :
  exists progs sched,
    let s := drun (d_init false progs) sched in
    quiescent s = true /\ kget (d_mem s) (4, 0) = Some 1 /\ kget (replay (d_log s)) (4, 0) = Some 2.
Proof. exact durable_order_split_refuted. Qed.

(* Embedding-class keys: with whole operations serialised by the key's lock stripe
   (Inst.gen_emb_ops_locked) a get returns the last put's (tag, vector) pair, never a mixture ... *)
Theorem C11_emb_locked_no_mixture : forall puts,
  reader_result (snd (erun (fst (erun (e_init, r_init) (flat_map put_block puts)), r_init) get_block))
  = match rev puts with [] => None | v :: _ => Some (v, v) end.
Proof. exact locked_no_mixture. Qed.

(* ... without it (the code before the fix) a reader sees put 1's metadata with put 2's vector. *)
Theorem C11_emb_unlocked_mixture_refuted :
  exists sched, reader_result (snd (erun (e_init, r_init) sched)) = Some (1, 2)
                /\ sched = put_block 1 ++ [PIdx; PSlab 2] ++ get_block.
Proof. exact unlocked_mixture. Qed.

Print Assumptions C11_single_step_linearizable.
Print Assumptions C11_realtime_respected.
Print Assumptions C11_durable_order.
Print Assumptions C11_durable_order_split_refuted.
Print Assumptions C11_emb_locked_no_mixture.
Print Assumptions C11_emb_unlocked_mixture_refuted.
