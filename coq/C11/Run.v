(* C11/Run.v -- executable entry points: validation of linearization witnesses found by the
   harness's Wing-Gong search, an independent (exhaustive, small) search for the histories the
   harness could not linearize, and the durable-order replay.  Depends on Model + Gen_C11 only. *)
From NV.Common Require Import Base.
From NV.C11 Require Import Model.
From NV.gen Require Import Gen_C11.
Open Scope N_scope.

(* one completed operation of a recorded history: id, op, result, invocation time, response time
   (times from one global counter read at invocation and at response) *)
Definition hop := (N * op * res * N * N)%type.
Definition h_op (h : hop) : op := let '(_, o, _, _, _) := h in o.
Definition h_res (h : hop) : res := let '(_, _, r, _, _) := h in r.
Definition h_inv (h : hop) : N := let '(_, _, _, a, _) := h in a.
Definition h_rsp (h : hop) : N := let '(_, _, _, _, b) := h in b.

(* real-time order: nothing placed later in the witness responded before an earlier one was invoked *)
Fixpoint realtime_ok (l : list hop) : bool :=
  match l with
  | [] => true
  | x :: r => forallb (fun y => negb (h_rsp y <? h_inv x)) r && realtime_ok r
  end.
Definition witness_ok (l : list hop) : bool :=
  realtime_ok l && seq_ok [] (map (fun h => (h_op h, h_res h)) l).

(* every way of picking one element and keeping the rest *)
Fixpoint picks {A} (l : list A) : list (A * list A) :=
  match l with
  | [] => []
  | x :: r => (x, r) :: map (fun p => (fst p, x :: snd p)) (picks r)
  end.
(* exhaustive search for a linearization (Wing-Gong without memoisation; for small histories) *)
Fixpoint search (fuel : nat) (s : store) (rem : list hop) : bool :=
  match rem with
  | [] => true
  | _ =>
    match fuel with
    | O => false
    | S f =>
        existsb (fun p =>
                   let o := fst p in
                   forallb (fun y => negb (h_rsp y <? h_inv o)) (snd p)
                   && res_eqb (h_res o) (snd (apply_seq s (h_op o)))
                   && search f (fst (apply_seq s (h_op o))) (snd p))
                (picks rem)
    end
  end.

Definition op_class (o : op) : N :=
  match o with OPut k _ | OGet k | ODel k | OExists k => fst k | OScan c => c end.
(* is the operation implemented as one atomic step (per the regenerated step lists)? *)
Definition single_step (o : op) : bool :=
  let one := fun (p : bool * list N) => negb (fst p) && (N.of_nat (length (snd p)) =? 1) in
  match o with
  | OPut k _ => one (gen_put_steps (fst k))
  | OGet k => one (gen_get_steps (fst k))
  | ODel k => one (gen_delete_steps (fst k))
  | OExists k => one (gen_exists_steps (fst k))
  | OScan c => false
  end.

Definition op_key (o : op) : option key :=
  match o with OPut k _ | OGet k | ODel k | OExists k => Some k | OScan _ => None end.
Definition has_scan (h : list hop) : bool :=
  existsb (fun x => match h_op x with OScan _ => true | _ => false end) h.
Fixpoint dedup_keys (l : list key) : list key :=
  match l with
  | [] => []
  | k :: r => if existsb (key_eqb k) r then dedup_keys r else k :: dedup_keys r
  end.
Definition keys_of (h : list hop) : list key :=
  dedup_keys (flat_map (fun x => match op_key (h_op x) with Some k => [k] | None => [] end) h).
Definition sub_history (h : list hop) (k : key) : list hop :=
  filter (fun x => match op_key (h_op x) with Some k' => key_eqb k k' | None => false end) h.
(* Independent re-search.  Without scans every operation concerns one key, and a history is
   linearizable iff each key's sub-history is (locality, Herlihy & Wing 1990, Thm 1): search per key.
   With scans the whole history is searched (the harness keeps those at 8 operations or fewer). *)
Definition research (h : list hop) : bool :=
  if has_scan h then search (length h) [] h
  else forallb (fun k => let s := sub_history h k in search (length s) [] s) (keys_of h).

(* (the harness found a witness, history: in witness order if found, else in invocation order) *)
Definition lin_case := (bool * list hop)%type.
Definition check_lin (c : lin_case) : N :=
  let '(found, h) := c in
  if found then (if witness_ok h then V_OK else V_MISMATCH)
  else if (if has_scan h then 8 <? N.of_nat (length h) else 12 <? N.of_nat (length h)) then 9   (* too large for the in-Coq search *)
  else if research h then V_MISMATCH                    (* the harness's search missed a linearization *)
  else
    (* not linearizable: known classes only where the step lists say the operations are multi-step *)
    if negb gen_emb_locked && forallb (fun x => N.eqb (op_class (h_op x)) 0) h
    then V_KNOWN 0          (* embedding keys: 3 structures in sequence, no common lock *)
    else if existsb (fun x => match h_op x with ODel k => fst (gen_delete_steps (fst k)) | _ => false end) h
    then V_KNOWN 1          (* delete = exists check + removal in two steps *)
    else V_VIOLATION.

(* ---------------------------------------------------------------- durable order *)
(* T1 performs d1 and is held between its log append and its apply; T2 performs d2 meanwhile.
   (optional preset value, d1, d2, did T2 finish while T1 was held, value in memory afterwards,
    value after recovery) on key (4, 0) *)
Definition order_case := (option N * dop * dop * bool * option N * option N)%type.
Definition okey : key := (4, 0).
Definition check_order (c : order_case) : N :=
  let '(pre, d1, d2, interleaved, mem, rec) := c in
  if negb (option_eqb N.eqb mem rec) then V_VIOLATION
  else
    let atomic := gen_log_apply_atomic in
    let s0 := d_init atomic [[d1]; [d2]] in
    let s0 := match pre with
              | Some v => D (kset [] okey v) [WSet okey v] (d_threads s0)
              | None => s0
              end in
    (* T1 is held after its first step; T2 runs if it can; with the atomic apply T2 waits for the guard *)
    let sched := if atomic then [0; 1]%nat else [0; 1; 1; 0]%nat in
    let s := drun s0 sched in
    if Bool.eqb interleaved (negb atomic)
       && option_eqb N.eqb (kget (d_mem s) okey) mem
       && option_eqb N.eqb (kget (replay (d_log s)) okey) rec
    then V_OK else V_MISMATCH.

(* ---------------------------------------------------------------- prefix scans return exactly the keys with the prefix *)
(* (prefix, every key in the store, what scan(prefix) returned) -- strings as UTF-8 byte lists, the
   lists sorted bytewise by the harness *)
Fixpoint bytes_prefix (p s : list N) : bool :=
  match p, s with
  | [], _ => true
  | a :: p', b :: s' => N.eqb a b && bytes_prefix p' s'
  | _ :: _, [] => false
  end.
Definition pscan_case := (list N * list (list N) * list (list N))%type.
Definition check_pscan (c : pscan_case) : N :=
  let '(prefix, keys, got) := c in
  if list_eqb (list_eqb N.eqb) (filter (bytes_prefix prefix) keys) got then V_OK else V_VIOLATION.

