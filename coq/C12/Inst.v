(* C12/Inst.v -- PER-RUN OBLIGATIONS over gen/Gen_C12.v (regenerated from distributed_tx.rs on every run). *)
From NV.Common Require Import Base LockTable.
From NV.C12 Require Import Model.
From NV.gen Require Import Gen_C12.
Open Scope N_scope.

(* the regenerated KeyLock::is_expired is the model's `expired` *)
Lemma gen_expired_spec : forall now e, gen_is_expired now (acquired e) (timeout e) = expired now e.
Proof.
  intros now e. unfold gen_is_expired, expired.
  repeat match goal with |- context [if ?c then _ else _] => destruct c eqn:? end; try reflexivity; lia.
Qed.

(* the regenerated refusal test is the model's `blocks` *)
Lemma gen_blocks_spec : forall now tx lk k,
  blocks now tx lk k =
  match aget lk k with
  | Some e => if gen_blocks (expired now e) (owner e) tx then Some (owner e) else None
  | None => None
  end.
Proof.
  intros now tx lk k. unfold blocks, gen_blocks. destruct (aget lk k) as [e|]; [|reflexivity].
  destruct (expired now e), (N.eqb (owner e) tx); reflexivity.
Qed.

(* every LockManager op holds both table guards for its whole body; the wait-graph update of
   try_lock_with_wait_tracking happens under them *)
Lemma gen_atomic : gen_lock_ops_atomic = true /\ gen_wait_under_locks = true.
Proof. split; reflexivity. Qed.

(* commit / abort / cleanup_timeouts release by transaction id and drop the transaction from the graph *)
Lemma gen_finish_spec : gen_finish_releases = true /\ gen_finish_unwaits = true.
Proof. split; reflexivity. Qed.

(* the detection round reads the recorded wait-for relations and changes none of them *)
Lemma gen_detect_spec : gen_detect_observes = true.
Proof. reflexivity. Qed.
