(* C12/Model.v -- executable model of the 2PC key-lock layer:
     tensor_chain/src/distributed_tx.rs  LockManager (+ the lock/wait-graph part of
       DistributedTxCoordinator::{handle_prepare, commit, abort, cleanup_timeouts})
     tensor_chain/src/deadlock.rs        WaitForGraph, dfs_detect, DeadlockDetector
   DEFINITIONS ONLY.  Time is the explicit `now`; lock handles come from an explicit counter;
   HashMap/HashSet are association lists / duplicate-free lists (iteration order is never
   observed: the DFS is parametric in the neighbour and start order). *)
From NV.Common Require Import Base LockTable.
Open Scope N_scope.

(* ------------------------------------------------------------------ wait-for graph *)
(* edges: waiter -> set of holders; reverse_edges: holder -> set of waiters;
   wait_started: waiter -> ms; priorities: waiter -> u32 *)
Record wg := W { fwd : list (N * list N); rev : list (N * list N);
                 started : list (N * N); prio : list (N * N) }.
Definition wg_empty : wg := W [] [] [] [].

Definition succs (g : wg) (w : N) : list N := match aget (fwd g) w with Some l => l | None => [] end.
Definition preds (g : wg) (h : N) : list N := match aget (rev g) h with Some l => l | None => [] end.

(* add_wait(waiter, holder, priority); maxe = max_edges_per_tx (0 = unlimited) *)
Definition add_wait (maxe now : N) (g : wg) (w h : N) (p : option N) : wg :=
  if N.eqb w h then g
  else
    let cur := succs g w in
    if N.ltb 0 maxe && N.leb maxe (N.of_nat (length cur)) then g
    else
      W (aset (fwd g) w (set_add h cur))
        (aset (rev g) h (set_add w (preds g h)))
        (match aget (started g) w with Some _ => started g | None => aset (started g) w now end)
        (match p with Some x => aset (prio g) w x | None => prio g end).

(* for y in targets: if let Some(set) = m.get_mut(y) { set.remove(x) } *)
Definition unlink (m : list (N * list N)) (targets : list N) (x : N) : list (N * list N) :=
  fold_left (fun m y => match aget m y with Some l => aset m y (set_remove x l) | None => m end) targets m.

(* remove_transaction(tx) *)
Definition remove_tx (g : wg) (t : N) : wg :=
  let fwd1 := adel (fwd g) t in
  let rev1 := match aget (fwd g) t with Some hs => unlink (rev g) hs t | None => rev g end in
  let rev2 := adel rev1 t in
  let fwd2 := match aget rev1 t with Some ws => unlink fwd1 ws t | None => fwd1 end in
  W fwd2 rev2 (adel (started g) t) (adel (prio g) t).

Definition is_nil {A} (l : list A) : bool := match l with [] => true | _ => false end.

(* remove_wait(waiter, holder): drops emptied entries (and the waiter's wait_started) *)
Definition remove_wait (g : wg) (w h : N) : wg :=
  let '(f', s') :=
    match aget (fwd g) w with
    | Some hs => let hs' := set_remove h hs in
                 if is_nil hs' then (adel (fwd g) w, adel (started g) w) else (aset (fwd g) w hs', started g)
    | None => (fwd g, started g)
    end in
  let r' :=
    match aget (rev g) h with
    | Some ws => let ws' := set_remove w ws in
                 if is_nil ws' then adel (rev g) h else aset (rev g) h ws'
    | None => rev g
    end in
  W f' r' s' (prio g).

Definition edge_count (g : wg) : N := fold_left (fun a kl => a + N.of_nat (length (snd kl))) (fwd g) 0.
Definition tx_count (g : wg) : N :=
  N.of_nat (length (fold_left (fun acc k => set_add k acc) (map fst (fwd g) ++ map fst (rev g)) [])).

(* ------------------------------------------------------------------ cycle detection *)
(* dfs_detect: visited set, recursion stack = current path, path[cycle_start..] on a back edge.
   `succ` gives the neighbours in WHATEVER order the HashSet iterates. Fuel exhaustion = None
   (the real code has no fuel: `visited` grows). *)
Section DFS.
Variable succ : N -> list N.

Fixpoint suffix_from (x : N) (p : list N) : list N :=
  match p with [] => [] | y :: p' => if N.eqb y x then p else suffix_from x p' end.

Record dst := Dst { vis : list N; fin : list N; cycs : list (list N) }.

Definition visit (rec : list N -> N -> dst -> option dst) (path1 : list N) (acc : option dst) (nb : N)
  : option dst :=
  match acc with
  | None => None
  | Some a =>
      if mem nb (vis a) then
        (if mem nb path1 then Some (Dst (vis a) (fin a) (suffix_from nb path1 :: cycs a)) else acc)
      else rec path1 nb a
  end.

Fixpoint dfs (fuel : nat) (path : list N) (node : N) (s : dst) {struct fuel} : option dst :=
  match fuel with
  | O => None
  | Datatypes.S f =>
    let path1 := path ++ [node] in
    match fold_left (visit (dfs f) path1) (succ node) (Some (Dst (node :: vis s) (fin s) (cycs s))) with
    | None => None
    | Some r => Some (Dst (vis r) (node :: fin r) (cycs r))
    end
  end.

Definition dstep (fuel : nat) (acc : option dst) (s0 : N) : option dst :=
  match acc with None => None | Some a => if mem s0 (vis a) then acc else dfs fuel [] s0 a end.

Definition detect_from (fuel : nat) (starts : list N) : option dst :=
  fold_left (dstep fuel) starts (Some (Dst [] [] [])).
End DFS.

(* every transaction mentioned by the forward map *)
Definition wg_nodes (g : wg) : list N :=
  fold_left (fun acc kl => fold_left (fun a y => set_add y a) (snd kl) (set_add (fst kl) acc)) (fwd g) [].

(* WaitForGraph::detect_cycles: starts = edges.keys(); cycles in discovery order *)
Definition detect_cycles (g : wg) : option (list (list N)) :=
  match detect_from (succs g) (Datatypes.S (length (wg_nodes g))) (map fst (fwd g)) with
  | Some r => Some (List.rev (cycs r))
  | None => None
  end.

(* would_create_cycle(waiter, holder): waiter = holder, or holder reaches waiter *)
Fixpoint reach_from (succ : N -> list N) (fuel : nat) (stack visited : list N) (target : N) : bool :=
  match fuel with
  | O => false
  | Datatypes.S f =>
    match stack with
    | [] => false
    | c :: rest =>
        if N.eqb c target then true
        else if mem c visited then reach_from succ f rest visited target
        else reach_from succ f (succ c ++ rest) (c :: visited) target
    end
  end.
Definition would_create_cycle (g : wg) (w h : N) : bool :=
  if N.eqb w h then true
  else let n := length (wg_nodes g) in
       reach_from (succs g) (Datatypes.S (n + N.to_nat (edge_count g) + n)) [h] [] w.

(* ------------------------------------------------------------------ detector *)
(* victim_policy: 0 Youngest, 1 Oldest, 2 LowestPriority, 3 MostLocks *)
Record dcfg := D { enabled : bool; policy : N; max_cycle : N; cascade : N }.

(* Iterator::max_by_key returns the LAST maximum, min_by_key the FIRST minimum *)
Fixpoint max_by (f : N -> N) (best : N) (l : list N) : N :=
  match l with [] => best | x :: r => max_by f (if N.leb (f best) (f x) then x else best) r end.
Fixpoint min_by (f : N -> N) (best : N) (l : list N) : N :=
  match l with [] => best | x :: r => min_by f (if N.ltb (f x) (f best) then x else best) r end.

Definition u64_max : N := 18446744073709551615.
Definition lookup (m : list (N * N)) (d : N) (k : N) : N := match aget m k with Some v => v | None => d end.

(* select_victim(cycle); lc = the optional lock-count function of the MostLocks policy *)
Definition select_victim (pol : N) (ws pr : list (N * N)) (lc : option (list (N * N))) (cycle : list N) : N :=
  match cycle with
  | [] => 0
  | [x] => x
  | x :: r =>
      if N.eqb pol 0 then max_by (lookup ws 0) x r
      else if N.eqb pol 1 then min_by (lookup ws u64_max) x r
      else if N.eqb pol 2 then max_by (lookup pr 0) x r
      else match lc with
           | Some m => max_by (lookup m 0) x r
           | None => max_by (lookup ws 0) x r
           end
  end.

(* the cascading loop of DeadlockDetector::detect over the length-filtered cycles *)
Fixpoint detect_loop (casc_max : N) (sel : list N -> N) (cycles : list (list N)) (victims : list N) (casc : N)
  : list (list N * N) :=
  match cycles with
  | [] => []
  | c :: r =>
      if existsb (fun tx => mem tx victims) c && N.ltb casc casc_max
      then detect_loop casc_max sel r victims (casc + 1)
      else let v := sel c in (c, v) :: detect_loop casc_max sel r (set_add v victims) casc
  end.

Definition short_enough (mx : N) (c : list N) : bool := N.leb (N.of_nat (length c)) mx.

Definition detect (cfg : dcfg) (sel : list N -> N) (cycles : list (list N)) : list (list N * N) :=
  if enabled cfg then detect_loop (cascade cfg) sel (filter (short_enough (max_cycle cfg)) cycles) [] 0 else [].

(* ------------------------------------------------------------------ lock manager + graph *)
Record st := St { tbl : table; gr : wg; now : N; tmo : N; nexth : N; maxe : N }.
Definition init (tmo0 maxe0 : N) : st := St empty wg_empty 1000 tmo0 1 maxe0.

Inductive op :=
| OTryLock (tx : N) (keys : list N)
| OTryLockWait (tx : N) (keys : list N) (p : option N)
| ORelease (tx : N)
| OReleaseHandle (h : N)
| OReleaseHandleWait (h : N)
| OCleanup
| OCleanupWait
| OSerRestore
| OAdvance (d : N)
| OSetTimeout (t : N)
| OAddWait (w h : N) (p : option N)
| ORemoveTx (t : N)
| ORemoveWait (w h : N)
| OFinish (tx : N) (hs : list N)
| OTimeouts (fin : list (N * list N)).   (* cleanup_timeouts: every timed-out tx is finished, then the expired-lock sweep *)

Definition set_tbl (s : st) (t : table) : st := St t (gr s) (now s) (tmo s) (nexth s) (maxe s).
Definition set_gr (s : st) (g : wg) : st := St (tbl s) g (now s) (tmo s) (nexth s) (maxe s).

Definition do_try_lock (s : st) (tx : N) (keys : list N) : st * list N :=
  match try_lock (now s) tx (nexth s) (tmo s) keys (tbl s) with
  | (t', inl h) => (St t' (gr s) (now s) (tmo s) (nexth s + 1) (maxe s), [0; h])
  | (_, inr o) => (s, [1; o])
  end.

(* try_lock_with_wait_tracking: on conflict add an edge to EVERY blocker (under the table locks);
   on success acquire and remove_transaction(tx) *)
Definition do_try_lock_wait (s : st) (tx : N) (keys : list N) (p : option N) : st * list N :=
  let '(bs, cks) := all_conflicts (now s) tx keys (locks (tbl s)) [] [] in
  match bs with
  | [] =>
      let h := nexth s in
      (St (acquire (now s) tx h (tmo s) keys (tbl s)) (remove_tx (gr s) tx) (now s) (tmo s) (h + 1) (maxe s), [0; h])
  | b :: _ =>
      (set_gr s (fold_left (fun g b => add_wait (maxe s) (now s) g tx b p) bs (gr s)), 1 :: b :: cks)
  end.

(* release_by_handle_with_wait_cleanup *)
Definition do_release_handle_wait (s : st) (h : N) : st :=
  let o := handle_owner h (tbl s) in
  let s1 := set_tbl s (release_by_handle h (tbl s)) in
  match o with Some t => set_gr s1 (remove_tx (gr s1) t) | None => s1 end.

Definition do_cleanup_wait (s : st) : st * list N :=
  let owners := expired_owners (now s) (locks (tbl s)) in
  let '(t', n) := cleanup_expired (now s) (tbl s) in
  (St t' (fold_left remove_tx owners (gr s)) (now s) (tmo s) (nexth s) (maxe s), [n]).

(* the lock / wait-graph effect of DistributedTxCoordinator::{commit, abort, cleanup_timeouts} on one
   transaction whose recorded Yes votes carry the handles hs.  rel / unw say whether the body also calls
   lock_manager.release(tx) / wait_graph.remove_transaction(tx): regenerated from the source (Gen_C12). *)
Definition do_finish (rel unw : bool) (s : st) (tx : N) (hs : list N) : st :=
  let s1 := fold_left do_release_handle_wait hs s in
  let s2 := if rel then set_tbl s1 (release tx (tbl s1)) else s1 in
  if unw then set_gr s2 (remove_tx (gr s2) tx) else s2.

Section Step.
Variables rel unw : bool.

Definition step (s : st) (o : op) : st * list N :=
  match o with
  | OTryLock tx keys => do_try_lock s tx keys
  | OTryLockWait tx keys p => do_try_lock_wait s tx keys p
  | ORelease tx => (set_tbl s (release tx (tbl s)), [])
  | OReleaseHandle h => (set_tbl s (release_by_handle h (tbl s)), [])
  | OReleaseHandleWait h => (do_release_handle_wait s h, [])
  | OCleanup => let '(t', n) := cleanup_expired (now s) (tbl s) in (set_tbl s t', [n])
  | OCleanupWait => do_cleanup_wait s
  | OSerRestore => (s, [])
  | OAdvance d => (St (tbl s) (gr s) (now s + d) (tmo s) (nexth s) (maxe s), [])
  | OSetTimeout t => (St (tbl s) (gr s) (now s) t (nexth s) (maxe s), [])
  | OAddWait w h p => (set_gr s (add_wait (maxe s) (now s) (gr s) w h p), [])
  | ORemoveTx t => (set_gr s (remove_tx (gr s) t), [])
  | ORemoveWait w h => (set_gr s (remove_wait (gr s) w h), [])
  | OFinish tx hs => (do_finish rel unw s tx hs, [])
  | OTimeouts fin =>
      (fst (do_cleanup_wait (fold_left (fun s f => do_finish rel unw s (fst f) (snd f)) fin s)), [])
  end.

Definition run (s : st) (ops : list op) : st := fold_left (fun s o => fst (step s o)) ops s.
End Step.
