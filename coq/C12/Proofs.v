(* C12/Proofs.v -- lemmas and main theorems for C12 (all inputs / op sequences / iteration orders). *)
From NV.Common Require Import Base LockTable LockTableFacts.
From NV.C12 Require Import Model.
Open Scope N_scope.
Arguments N.add : simpl never.
Arguments N.sub : simpl never.
Arguments N.eqb : simpl never.
Arguments N.ltb : simpl never.
Arguments N.leb : simpl never.

(* ================================================================== 1. cycle detection *)
(* dfs / visit / detect_from mirror dfs_detect / WaitForGraph::detect_cycles.  The neighbour order is
   whatever `succ` returns and the start order is arbitrary, so everything below holds for every
   HashMap / HashSet iteration order. *)
Section DFSFacts.
Variable succ : N -> list N.

Definition ext {A} (l' l : list A) := exists k, l' = k ++ l.
Lemma ext_refl {A} (l:list A) : ext l l. Proof. exists []; reflexivity. Qed.
Lemma ext_trans {A} (a b c:list A) : ext a b -> ext b c -> ext a c.
Proof. intros [k ->] [k' ->]. exists (k ++ k'). now rewrite app_assoc. Qed.
Lemma ext_cons {A} (x:A) l : ext (x :: l) l. Proof. exists [x]; reflexivity. Qed.
Lemma ext_In {A} (l' l:list A) x : ext l' l -> In x l -> In x l'.
Proof. intros [k ->] H. apply in_or_app; auto. Qed.
Lemma ext_len {A} (l' l : list A) : ext l' l -> (length l <= length l')%nat.
Proof. intros [k ->]. rewrite app_length. lia. Qed.
Lemma ext_eq {A} (l' l : list A) : ext l' l -> (length l' <= length l)%nat -> l' = l.
Proof. intros [k ->] H. rewrite app_length in H. destruct k; [reflexivity|cbn in H; lia]. Qed.

Lemma fold_none rec p l : fold_left (visit rec p) l None = None.
Proof. induction l; cbn; auto. Qed.

(* cycles only grow *)
Lemma dfs_mono : forall fuel path node s r, dfs succ fuel path node s = Some r -> ext (cycs r) (cycs s).
Proof.
  induction fuel as [|f IH]; intros path node s r H; [discriminate|]. cbn [dfs] in H.
  assert (G: forall l a r0, fold_left (visit (dfs succ f) (path ++ [node])) l (Some a) = Some r0 -> ext (cycs r0) (cycs a)).
  { induction l as [|nb l IHl]; intros a r0 Hf; cbn in Hf.
    - injection Hf as <-. apply ext_refl.
    - destruct (mem nb (vis a)); [destruct (mem nb (path ++ [node]))|].
      + apply IHl in Hf. cbn in Hf. eapply ext_trans; [exact Hf|apply ext_cons].
      + apply IHl in Hf. exact Hf.
      + destruct (dfs succ f (path ++ [node]) nb a) as [a'|] eqn:D; [|rewrite fold_none in Hf; discriminate].
        apply IHl in Hf. eapply ext_trans; [exact Hf|eapply IH; exact D]. }
  destruct (fold_left _ _ _) as [r0|] eqn:F; [|discriminate]. injection H as <-. cbn.
  apply G in F. exact F.
Qed.

Lemma fold_mono : forall f path1 l b r0,
  fold_left (visit (dfs succ f) path1) l (Some b) = Some r0 -> ext (cycs r0) (cycs b).
Proof.
  intros f path1. induction l as [|z l IHz]; intros b r0 Hf; cbn [fold_left visit] in Hf.
  - injection Hf as <-. apply ext_refl.
  - destruct (mem z (vis b)); [destruct (mem z path1)|].
    + apply IHz in Hf. cbn in Hf. eapply ext_trans; [exact Hf|apply ext_cons].
    + apply IHz in Hf. exact Hf.
    + destruct (dfs succ f path1 z b) as [b'|] eqn:D; [|rewrite fold_none in Hf; discriminate].
      apply IHz in Hf. eapply ext_trans; [exact Hf|eapply dfs_mono; exact D].
Qed.

Lemma dfold_none fuel l : fold_left (dstep succ fuel) l None = None.
Proof. induction l; cbn; auto. Qed.
Lemma dfold_mono : forall fuel l b r0,
  fold_left (dstep succ fuel) l (Some b) = Some r0 -> ext (cycs r0) (cycs b).
Proof.
  intros fuel. induction l as [|z l IHz]; intros b r0 Hf; cbn [fold_left dstep] in Hf.
  - injection Hf as <-. apply ext_refl.
  - destruct (mem z (vis b)); [apply IHz in Hf; exact Hf|].
    destruct (dfs succ fuel [] z b) as [b'|] eqn:D; [|rewrite dfold_none in Hf; discriminate].
    apply IHz in Hf. eapply ext_trans; [exact Hf|eapply dfs_mono; exact D].
Qed.


(* ---------------- completeness ---------------- *)
Fixpoint Ordered (l:list N) : Prop :=
  match l with [] => True | x :: l' => (forall y, In y (succ x) -> In y l') /\ Ordered l' end.

Definition J (v f path : list N) : Prop :=
  (forall x, In x v <-> In x f \/ In x path) /\ Ordered f.

Lemma dfs_complete : forall fuel path node s r,
  dfs succ fuel path node s = Some r -> cycs r = cycs s ->
  ~ In node (vis s) -> J (vis s) (fin s) path ->
  J (vis r) (fin r) path /\ In node (fin r) /\ ext (fin r) (fin s) /\ incl (vis s) (vis r).
Proof.
  induction fuel as [|f IH]; intros path node s r H Hc Hn HJ; [discriminate|].
  cbn [dfs] in H. set (path1 := path ++ [node]) in *.
  assert (G: forall l a r0,
     fold_left (visit (dfs succ f) path1) l (Some a) = Some r0 -> cycs r0 = cycs a ->
     J (vis a) (fin a) path1 ->
     J (vis r0) (fin r0) path1 /\ ext (fin r0) (fin a) /\ incl (vis a) (vis r0) /\ (forall y, In y l -> In y (fin r0))).
  { induction l as [|nb l IHl]; intros a r0 Hf Hca Ha; cbn [fold_left visit] in Hf.
    - injection Hf as <-. repeat split; try apply Ha; [apply ext_refl|apply incl_refl|intros y []].
    - destruct (mem nb (vis a)) eqn:Mv; [destruct (mem nb path1) eqn:Mp|].
      + (* back edge => a cycle was recorded => contradiction with "no new cycle" *)
        exfalso.
        pose proof (fold_mono _ _ _ _ _ Hf) as M. cbn in M.
        apply ext_len in M. cbn in M. rewrite Hca in M. lia.
      + (* neighbour already finished *)
        destruct (IHl _ _ Hf Hca Ha) as [A [B [C D]]]. repeat split; auto; try apply A.
        intros y [<-|Hy]; [|auto].
        apply mem_In in Mv. apply mem_nIn in Mp. apply Ha in Mv. destruct Mv; [|contradiction].
        eapply ext_In; eauto.
      + (* unvisited neighbour: recurse *)
        destruct (dfs succ f path1 nb a) as [a'|] eqn:D; [|rewrite fold_none in Hf; discriminate].
        assert (Ea: cycs a' = cycs a).
        { pose proof (dfs_mono _ _ _ _ _ D) as M1.
          pose proof (fold_mono _ _ _ _ _ Hf) as M2.
          apply ext_eq; [exact M1|]. apply ext_len in M2. rewrite Hca in M2. exact M2. }
        apply mem_nIn in Mv.
        destruct (IH path1 nb a a' D Ea Mv Ha) as [A1 [B1 [C1 D1]]].
        destruct (IHl a' r0 Hf) as [A [B [C E]]]; [congruence|exact A1|].
        repeat split; try apply A.
        * eapply ext_trans; eauto.
        * eapply incl_tran; eauto.
        * intros y [<-|Hy]; [eapply ext_In; eauto|auto]. }
  destruct (fold_left _ _ _) as [r0|] eqn:F; [|discriminate]. injection H as <-. cbn in *.
  destruct HJ as [Jv Jo].
  destruct (G _ _ _ F Hc) as [[A1 A2] [B [C D]]].
  { cbn. split; [|exact Jo]. intros x. unfold path1. rewrite in_app_iff. cbn. rewrite Jv. tauto. }
  cbn in *. repeat split.
  - intros Hx. apply A1 in Hx. unfold path1 in Hx. rewrite in_app_iff in Hx. cbn in *. tauto.
  - intros Hx. apply A1. unfold path1. rewrite in_app_iff. cbn in *. tauto.
  - exact D.
  - exact A2.
  - left; reflexivity.
  - eapply ext_trans; [apply ext_cons|exact B].
  - intros x Hx. apply C. right. exact Hx.
Qed.


(* ---------------- soundness: every reported list is a cycle of the graph ---------------- *)
Fixpoint is_path (p:list N) : Prop :=
  match p with
  | x :: ((y :: _) as p') => In y (succ x) /\ is_path p'
  | _ => True
  end.
Definition is_cycle (c:list N) : Prop :=
  c <> [] /\ is_path c /\ In (hd 0%N c) (succ (last c 0%N)).

Lemma is_path_app_one : forall p x y, is_path (p ++ [x]) -> In y (succ x) -> is_path ((p ++ [x]) ++ [y]).
Proof.
  induction p as [|a p IH]; intros x y H Hy; cbn in *.
  - auto.
  - destruct p as [|b p]; cbn in *.
    + destruct H. repeat split; auto.
    + destruct H as [H1 H2]. split; auto. apply (IH x y); auto.
Qed.
Lemma is_path_suffix : forall p x, is_path p -> is_path (suffix_from x p).
Proof.
  induction p as [|a p IH]; intros x H; cbn; auto.
  destruct (N.eqb a x); auto. apply IH. destruct p; cbn in *; tauto.
Qed.
Lemma suffix_hd : forall p x, In x p -> hd 0%N (suffix_from x p) = x /\ suffix_from x p <> [].
Proof.
  induction p as [|a p IH]; intros x H; [destruct H|]. cbn.
  destruct (N.eqb_spec a x); [subst; split; [reflexivity|discriminate]|].
  destruct H; [congruence|]. apply IH; auto.
Qed.
Lemma suffix_last : forall p x d, In x p -> last (suffix_from x p) d = last p d.
Proof.
  induction p as [|a p IH]; intros x d H; [destruct H|]. cbn [suffix_from].
  destruct (N.eqb_spec a x); auto.
  destruct H; [congruence|]. rewrite IH by auto. destruct p; [destruct H|reflexivity].
Qed.

Lemma dfs_sound : forall fuel path node s r,
  dfs succ fuel path node s = Some r -> is_path (path ++ [node]) -> Forall is_cycle (cycs s) -> Forall is_cycle (cycs r).
Proof.
  induction fuel as [|f IH]; intros path node s r H Hp Hc; [discriminate|]. cbn [dfs] in H.
  set (path1 := path ++ [node]) in *.
  assert (G: forall l a r0, (forall nb, In nb l -> In nb (succ node)) ->
             fold_left (visit (dfs succ f) path1) l (Some a) = Some r0 ->
             Forall is_cycle (cycs a) -> Forall is_cycle (cycs r0)).
  { induction l as [|nb l IHl]; intros a r0 Hl Hf Ha; cbn [fold_left visit] in Hf.
    - injection Hf as <-. exact Ha.
    - assert (Hl': forall z, In z l -> In z (succ node)) by (intros; apply Hl; right; auto).
      destruct (mem nb (vis a)); [destruct (mem nb path1) eqn:Mp|].
      + eapply IHl; [exact Hl'|exact Hf|]. cbn. constructor; [|exact Ha].
        apply mem_In in Mp. destruct (suffix_hd path1 nb Mp) as [Hh Hn]. repeat split; auto.
        * apply is_path_suffix. exact Hp.
        * rewrite Hh. rewrite suffix_last by exact Mp. unfold path1. rewrite last_last. apply Hl. left; reflexivity.
      + eapply IHl; eauto.
      + destruct (dfs succ f path1 nb a) as [a'|] eqn:D; [|rewrite fold_none in Hf; discriminate].
        eapply IHl; [exact Hl'|exact Hf|]. eapply IH; [exact D| |exact Ha].
        unfold path1. apply is_path_app_one; [exact Hp|apply Hl; left; reflexivity]. }
  destruct (fold_left _ _ _) as [r0|] eqn:F; [|discriminate]. injection H as <-. cbn.
  eapply G; [|exact F|exact Hc]. auto.
Qed.

Theorem detect_sound : forall fuel starts r, detect_from succ fuel starts = Some r -> Forall is_cycle (cycs r).
Proof.
  intros fuel starts r. unfold detect_from.
  assert (G: forall l a r0, fold_left (dstep succ fuel) l (Some a) = Some r0 -> Forall is_cycle (cycs a) -> Forall is_cycle (cycs r0)).
  { induction l as [|z l IHl]; intros a r0 Hf Ha; cbn [fold_left dstep] in Hf.
    - injection Hf as <-. exact Ha.
    - destruct (mem z (vis a)); [eapply IHl; eauto|].
      destruct (dfs succ fuel [] z a) as [a'|] eqn:D; [|rewrite dfold_none in Hf; discriminate].
      eapply IHl; [exact Hf|]. eapply dfs_sound; [exact D|exact I|exact Ha]. }
  intros H. eapply G; [exact H|constructor].
Qed.

(* reachability in one or more steps *)
Inductive rp : N -> N -> Prop :=
| rp1 : forall x y, In y (succ x) -> rp x y
| rpS : forall x y z, In y (succ x) -> rp y z -> rp x z.

Lemma Ordered_closed : forall l, Ordered l -> forall x y, In x l -> rp x y -> In y l.
Proof.
  induction l as [|a l IH]; intros Hord x y Hx R; [destruct Hx|]. destruct Hord as [Ha Ho].
  assert (S1: forall u w, In u (a :: l) -> In w (succ u) -> In w (a :: l)).
  { intros u w [<-|Hu] Hw; [right; apply Ha; exact Hw|]. right. eapply IH; eauto. constructor; exact Hw. }
  induction R as [x y Hy|x y z Hy R IHR]; [eapply S1; eauto|]. apply IHR. eapply S1; eauto.
Qed.

Lemma Ordered_acyclic : forall l, Ordered l -> forall x, In x l -> ~ rp x x.
Proof.
  induction l as [|a l IH]; intros Hord x Hx R; [destruct Hx|]. destruct Hord as [Ha Ho].
  destruct (in_dec N.eq_dec x l) as [Hl|Hnl]; [exact (IH Ho x Hl R)|].
  destruct Hx as [<-|Hx]; [|contradiction].
  (* a -> y ->* a with y in l, l closed => a in l *)
  apply Hnl. inversion R as [x y Hy|x y z Hy R']; subst.
  - apply Ha. exact Hy.
  - eapply Ordered_closed; [exact Ho|apply Ha; exact Hy|exact R'].
Qed.

(* top level: if detect reports no cycle (and did not run out of fuel), no node it visited lies on a cycle,
   and every start node was visited *)
Theorem detect_complete : forall fuel starts r,
  detect_from succ fuel starts = Some r -> cycs r = [] ->
  (forall s0, In s0 starts -> In s0 (vis r)) /\ (forall x, In x (vis r) -> ~ rp x x).
Proof.
  intros fuel starts r H Hc.
  assert (G: forall l a r0,
    fold_left (dstep succ fuel) l (Some a) = Some r0 ->
    cycs r0 = [] -> cycs a = [] -> J (vis a) (fin a) [] ->
    J (vis r0) (fin r0) [] /\ incl (vis a) (vis r0) /\ forall s0, In s0 l -> In s0 (vis r0)).
  { induction l as [|s0 l IHl]; intros a r0 Hf Hr Ha HJ; cbn [fold_left dstep] in Hf.
    - injection Hf as <-. repeat split; try apply HJ; [apply incl_refl|intros ? []].
    - destruct (mem s0 (vis a)) eqn:M.
      + destruct (IHl _ _ Hf Hr Ha HJ) as [A [B C]]. repeat split; try apply A; auto.
        intros y [<-|Hy]; [apply B; apply mem_In; exact M|auto].
      + destruct (dfs succ fuel [] s0 a) as [a'|] eqn:D.
        2:{ rewrite dfold_none in Hf. discriminate. }
        assert (Ea: cycs a' = []).
        { pose proof (dfs_mono _ _ _ _ _ D) as M1. rewrite Ha in M1.
          pose proof (dfold_mono _ _ _ _ Hf) as M2.
          apply ext_len in M2. rewrite Hr in M2. destruct (cycs a'); [reflexivity|cbn in M2; lia]. }
        apply mem_nIn in M.
        destruct (dfs_complete _ _ _ _ _ D) as [A1 [B1 [C1 D1]]]; [congruence|exact M|exact HJ|].
        destruct (IHl _ _ Hf Hr Ea A1) as [A [B C]]. repeat split; try apply A.
        * eapply incl_tran; eauto.
        * intros y [<-|Hy]; [|auto]. apply B. apply A1. left. exact B1. }
  destruct (G _ _ _ H Hc eq_refl) as [[A1 A2] [_ C]].
  { cbn. split; [tauto|exact I]. }
  split; [exact C|]. intros x Hx. apply (Ordered_acyclic _ A2). apply A1 in Hx. destruct Hx as [Hx|[]]. exact Hx.
Qed.

Lemma rp_snoc x y z : rp x y -> In z (succ y) -> rp x z.
Proof.
  induction 1 as [x y Hy|x y z' Hy R IH]; intros Hz.
  - eapply rpS; [exact Hy|apply rp1; exact Hz].
  - eapply rpS; [exact Hy|apply IH; exact Hz].
Qed.

Lemma path_reach : forall p x, is_path (x :: p) -> last (x :: p) 0%N = x \/ rp x (last (x :: p) 0%N).
Proof.
  induction p as [|y p IH]; intros x H.
  - left; reflexivity.
  - destruct H as [E P]. right. change (last (x :: y :: p) 0%N) with (last (y :: p) 0%N).
    destruct (IH y P) as [L|R].
    + rewrite L. apply rp1; exact E.
    + eapply rpS; [exact E|exact R].
Qed.

(* a reported cycle puts its first node on a cycle of the relation *)
Lemma cycle_rp c : is_cycle c -> rp (hd 0%N c) (hd 0%N c).
Proof.
  intros [Hne [Hp Hl]]. destruct c as [|x p]; [congruence|]. cbn [hd] in *.
  destruct (path_reach p x Hp) as [L|R].
  - rewrite L in Hl. apply rp1; exact Hl.
  - eapply rp_snoc; eauto.
Qed.

(* a cycle is reported exactly when the relation has one -- for every neighbour order `succ` and every
   start order, provided every node with an outgoing edge is a start (starts = edges.keys()) *)
Theorem detect_from_iff : forall fuel starts r,
  (forall x y, In y (succ x) -> In x starts) ->
  detect_from succ fuel starts = Some r ->
  (cycs r <> [] <-> exists x, rp x x).
Proof.
  intros fuel starts r Hst H. split.
  - intros Hne. pose proof (detect_sound _ _ _ H) as Sd. destruct (cycs r) as [|c cs]; [congruence|].
    inversion Sd; subst. eexists. eapply cycle_rp; eauto.
  - intros [x R] Hc. destruct (detect_complete _ _ _ H Hc) as [V A]. apply (A x); [|exact R].
    apply V. inversion R; subst; eapply Hst; eauto.
Qed.

End DFSFacts.

(* ================================================================== 1b. the DFS terminates within |nodes| + 1 levels, and reported cycles are short *)
Lemma filter_len_le {A} (p : A -> bool) (l : list A) : (length (filter p l) <= length l)%nat.
Proof. induction l as [|a r IH]; cbn; [lia|]. destruct (p a); cbn; lia. Qed.

Definition remaining_in (L v : list N) : nat := length (filter (fun x => negb (mem x v)) L).

Lemma remaining_in_antitone L v v' : incl v v' -> (remaining_in L v' <= remaining_in L v)%nat.
Proof.
  intros Hi. unfold remaining_in. induction L as [|x r IH]; cbn; [lia|].
  destruct (mem x v) eqn:M; cbn.
  - apply mem_In in M. apply Hi in M. apply mem_In in M. rewrite M. cbn. exact IH.
  - destruct (mem x v'); cbn; lia.
Qed.

Lemma remaining_in_cons_le L x v : (remaining_in L (x :: v) <= remaining_in L v)%nat.
Proof. apply remaining_in_antitone. intros z Hz. now right. Qed.

Lemma remaining_in_cons L x v : In x L -> ~ In x v -> (remaining_in L (x :: v) < remaining_in L v)%nat.
Proof.
  unfold remaining_in. induction L as [|y r IH]; intros Hx Hn; [destruct Hx|].
  cbn [filter]. destruct Hx as [->|Hx].
  - pose proof (remaining_in_cons_le r x v) as Hle. unfold remaining_in in Hle.
    assert (M1 : mem x (x :: v) = true) by (apply mem_In; now left).
    assert (M2 : mem x v = false) by (now apply mem_nIn).
    rewrite M1, M2. cbn [negb length]. lia.
  - specialize (IH Hx Hn).
    assert (E : mem y (x :: v) = N.eqb y x || mem y v) by reflexivity. rewrite E.
    destruct (N.eqb y x), (mem y v); cbn [orb negb length]; lia.
Qed.

Section DFSTotal.
Variable succ : N -> list N.
Variable U : list N.                                   (* the node universe *)
Hypothesis U_closed : forall x y, In x U -> In y (succ x) -> In y U.

Definition remaining (v : list N) : nat := remaining_in U v.
Lemma remaining_antitone v v' : incl v v' -> (remaining v' <= remaining v)%nat.
Proof. apply remaining_in_antitone. Qed.
Lemma remaining_cons x v : In x U -> ~ In x v -> (remaining (x :: v) < remaining v)%nat.
Proof. apply remaining_in_cons. Qed.

Lemma dfs_total : forall fuel path node s,
  In node U -> ~ In node (vis s) -> (remaining (vis s) <= fuel)%nat ->
  exists r, dfs succ fuel path node s = Some r /\ incl (node :: vis s) (vis r).
Proof.
  induction fuel as [|f IH]; intros path node s Hu Hn Hf.
  - pose proof (remaining_cons node (vis s) Hu Hn). lia.
  - cbn [dfs]. set (path1 := path ++ [node]).
    assert (Hf1 : (remaining (node :: vis s) <= f)%nat) by (pose proof (remaining_cons node (vis s) Hu Hn); lia).
    assert (G : forall l a, (forall y, In y l -> In y U) -> incl (node :: vis s) (vis a) ->
              exists r0, fold_left (visit (dfs succ f) path1) l (Some a) = Some r0 /\ incl (vis a) (vis r0)).
    { induction l as [|nb l IHl]; intros a Hl Ha; cbn [fold_left visit].
      - exists a. split; [reflexivity|apply incl_refl].
      - assert (Hl' : forall y, In y l -> In y U) by (intros; apply Hl; now right).
        destruct (mem nb (vis a)) eqn:Mv; [destruct (mem nb path1)|].
        + destruct (IHl (Dst (vis a) (fin a) (suffix_from nb path1 :: cycs a)) Hl' Ha) as [r0 [E I]]. exists r0. auto.
        + apply IHl; auto.
        + apply mem_nIn in Mv.
          destruct (IH path1 nb a (Hl nb (or_introl eq_refl)) Mv) as [a' [D I']].
          { pose proof (remaining_antitone _ _ Ha). lia. }
          rewrite D. destruct (IHl a' Hl') as [r0 [E I]].
          { intros z Hz. apply I'. right. now apply Ha. }
          exists r0. split; [exact E|]. intros z Hz. apply I, I'. now right. }
    destruct (G (succ node) (Dst (node :: vis s) (fin s) (cycs s))) as [r0 [E I]].
    + intros y Hy. eapply U_closed; eauto.
    + apply incl_refl.
    + rewrite E. eexists. split; [reflexivity|]. cbn. exact I.
Qed.

Theorem detect_from_total fuel starts :
  (forall x, In x starts -> In x U) -> (length U <= fuel)%nat -> exists r, detect_from succ fuel starts = Some r.
Proof.
  intros Hs Hf. unfold detect_from.
  assert (G : forall l a, (forall x, In x l -> In x U) -> exists r, fold_left (dstep succ fuel) l (Some a) = Some r).
  { induction l as [|z l IHl]; intros a Hl; cbn [fold_left dstep]; [eauto|].
    assert (Hl' : forall x, In x l -> In x U) by (intros; apply Hl; now right).
    destruct (mem z (vis a)) eqn:M; [now apply IHl|]. apply mem_nIn in M.
    destruct (dfs_total fuel [] z a (Hl z (or_introl eq_refl)) M) as [a' [D _]].
    { unfold remaining, remaining_in. pose proof (filter_len_le (fun x => negb (mem x (vis a))) U). lia. }
    rewrite D. now apply IHl. }
  now apply G.
Qed.

(* ---- reported cycles are duplicate-free paths inside the universe, hence no longer than |U| ---- *)
Lemma suffix_from_sub x p : exists k, p = k ++ suffix_from x p.
Proof.
  induction p as [|a p IH]; cbn; [exists []; reflexivity|].
  destruct (N.eqb a x); [exists []; reflexivity|]. destruct IH as [k E]. exists (a :: k). cbn. now rewrite <- E.
Qed.
Lemma suffix_from_NoDup x p : NoDup p -> NoDup (suffix_from x p).
Proof.
  intros H. destruct (suffix_from_sub x p) as [k E]. rewrite E in H. clear E.
  induction k as [|a k IH]; [exact H|]. cbn in H. inversion H; subst. auto.
Qed.
Lemma suffix_from_incl x p : incl (suffix_from x p) p.
Proof. destruct (suffix_from_sub x p) as [k E]. intros z Hz. rewrite E. apply in_or_app. now right. Qed.

Definition Short (c : list N) : Prop := NoDup c /\ incl c U.

Lemma dfs_vis_mono : forall fuel path node s r, dfs succ fuel path node s = Some r -> incl (node :: vis s) (vis r).
Proof.
  induction fuel as [|f IH]; intros path node s r H; [discriminate|]. cbn [dfs] in H.
  set (path1 := path ++ [node]) in *.
  assert (G : forall l a r0, fold_left (visit (dfs succ f) path1) l (Some a) = Some r0 -> incl (vis a) (vis r0)).
  { induction l as [|nb l IHl]; intros a r0 Hf; cbn [fold_left visit] in Hf.
    - injection Hf as <-. apply incl_refl.
    - destruct (mem nb (vis a)); [destruct (mem nb path1)|].
      + apply IHl in Hf. exact Hf.
      + now apply IHl.
      + destruct (dfs succ f path1 nb a) as [a'|] eqn:D; [|rewrite fold_none in Hf; discriminate].
        apply IHl in Hf. apply IH in D. intros z Hz. apply Hf, D. now right. }
  destruct (fold_left _ _ _) as [r0|] eqn:F; [|discriminate]. injection H as <-. cbn. now apply G in F.
Qed.

Lemma dfs_short : forall fuel path node s r,
  dfs succ fuel path node s = Some r ->
  In node U -> ~ In node (vis s) -> NoDup path -> incl path U -> incl path (vis s) ->
  Forall Short (cycs s) -> Forall Short (cycs r).
Proof.
  induction fuel as [|f IH]; intros path node s r H Hu Hn Np Ip Iv Hc; [discriminate|]. cbn [dfs] in H.
  set (path1 := path ++ [node]) in *.
  assert (Np1 : NoDup path1).
  { unfold path1. apply NoDup_app_intro; [exact Np|constructor; [tauto|constructor]|]. intros z Hz [<-|[]]. apply Hn, Iv, Hz. }
  assert (Ip1 : incl path1 U) by (unfold path1; intros z Hz; apply in_app_iff in Hz; destruct Hz as [Hz|[<-|[]]]; auto).
  assert (G : forall l a r0, (forall y, In y l -> In y U) -> incl path1 (vis a) ->
              fold_left (visit (dfs succ f) path1) l (Some a) = Some r0 -> Forall Short (cycs a) -> Forall Short (cycs r0)).
  { induction l as [|nb l IHl]; intros a r0 Hl Ha Hf Hca; cbn [fold_left visit] in Hf.
    - injection Hf as <-. exact Hca.
    - assert (Hl' : forall y, In y l -> In y U) by (intros; apply Hl; now right).
      destruct (mem nb (vis a)) eqn:Mv; [destruct (mem nb path1)|].
      + eapply IHl; [exact Hl'| |exact Hf|]; [exact Ha|]. cbn. constructor; [|exact Hca].
        split; [now apply suffix_from_NoDup|]. intros z Hz. apply Ip1. eapply suffix_from_incl; eauto.
      + eapply IHl; eauto.
      + destruct (dfs succ f path1 nb a) as [a'|] eqn:D; [|rewrite fold_none in Hf; discriminate].
        apply mem_nIn in Mv.
        eapply IHl; [exact Hl'| |exact Hf|].
        * intros z Hz. apply (dfs_vis_mono _ _ _ _ _ D). right. now apply Ha.
        * eapply IH; [exact D|apply Hl; now left|exact Mv|exact Np1|exact Ip1|exact Ha|exact Hca]. }
  destruct (fold_left _ _ _) as [r0|] eqn:F; [|discriminate]. injection H as <-. cbn.
  eapply G; [|..|exact F|exact Hc].
  - intros y Hy. eapply U_closed; eauto.
  - cbn. unfold path1. intros z Hz. apply in_app_iff in Hz. destruct Hz as [Hz|[<-|[]]]; [right; auto|now left].
Qed.

Theorem detect_from_short fuel starts r :
  (forall x, In x starts -> In x U) -> detect_from succ fuel starts = Some r -> Forall Short (cycs r).
Proof.
  intros Hs. unfold detect_from.
  assert (G : forall l a r0, (forall x, In x l -> In x U) -> fold_left (dstep succ fuel) l (Some a) = Some r0 ->
              Forall Short (cycs a) -> Forall Short (cycs r0)).
  { induction l as [|z l IHl]; intros a r0 Hl Hf Ha; cbn [fold_left dstep] in Hf.
    - injection Hf as <-. exact Ha.
    - assert (Hl' : forall x, In x l -> In x U) by (intros; apply Hl; now right).
      destruct (mem z (vis a)) eqn:M; [eapply IHl; eauto|]. apply mem_nIn in M.
      destruct (dfs succ fuel [] z a) as [a'|] eqn:D; [|rewrite dfold_none in Hf; discriminate].
      eapply IHl; [exact Hl'|exact Hf|]. eapply dfs_short; [exact D|apply Hl; now left|exact M|constructor|intros ? []|intros ? []|exact Ha]. }
  intros H. eapply G; [exact Hs|exact H|constructor].
Qed.

Lemma Short_length c : NoDup U -> Short c -> (length c <= length U)%nat.
Proof. intros _ [Nc Ic]. now apply NoDup_incl_length. Qed.
End DFSTotal.

(* ================================================================== 2. wait-for graph *)
(* forward and reverse maps describe the same relation *)
Definition GInv (g : wg) : Prop := forall w h, In h (succs g w) <-> In w (preds g h).

Lemma wg_empty_GInv : GInv wg_empty.
Proof. intros w h. unfold succs, preds; cbn. tauto. Qed.

Lemma set_remove_idem x l : set_remove x (set_remove x l) = set_remove x l.
Proof.
  unfold set_remove. induction l as [|a l IH]; cbn; [reflexivity|].
  destruct (negb (N.eqb a x)) eqn:E; cbn; [rewrite E, IH|]; auto.
Qed.

Lemma unlink_nil m x : unlink m [] x = m.
Proof. reflexivity. Qed.

Lemma unlink_get m ts x y :
  aget (unlink m ts x) y =
  match aget m y with Some l => Some (if mem y ts then set_remove x l else l) | None => None end.
Proof.
  unfold unlink. revert m. induction ts as [|y0 r IH]; intros m; cbn [fold_left mem existsb].
  - destruct (aget m y); reflexivity.
  - rewrite IH. fold (mem y r). destruct (aget m y0) as [l0|] eqn:G0.
    + rewrite aget_aset. rewrite (N.eqb_sym y y0). destruct (N.eqb_spec y0 y) as [->|Hne].
      * rewrite G0. cbn [orb]. destruct (mem y r); [now rewrite set_remove_idem|reflexivity].
      * cbn [orb]. reflexivity.
    + destruct (N.eqb_spec y y0) as [->|Hne]; [now rewrite G0|reflexivity].
Qed.

Definition lookup_l (m : list (N * list N)) (k : N) : list N := match aget m k with Some l => l | None => [] end.

Lemma unlink_lookup m ts x y z :
  In z (lookup_l (unlink m ts x) y) <-> In z (lookup_l m y) /\ (In y ts -> z <> x).
Proof.
  unfold lookup_l. rewrite unlink_get. destruct (aget m y) as [l|]; [|cbn; tauto].
  destruct (mem y ts) eqn:M.
  - apply mem_In in M. rewrite set_remove_In. tauto.
  - apply mem_nIn in M. tauto.
Qed.

(* remove_transaction, with the two optional unlinks written uniformly *)
Lemma remove_tx_eq g t :
  remove_tx g t =
  let rev1 := unlink (rev g) (succs g t) t in
  W (unlink (adel (fwd g) t) (lookup_l rev1 t) t) (adel rev1 t) (adel (started g) t) (adel (prio g) t).
Proof.
  unfold remove_tx, succs, lookup_l. destruct (aget (fwd g) t) as [hs|]; cbn zeta.
  - destruct (aget (unlink (rev g) hs t) t); reflexivity.
  - rewrite unlink_nil. destruct (aget (rev g) t); reflexivity.
Qed.

Lemma lookup_adel m t k : lookup_l (adel m t) k = if N.eqb t k then [] else lookup_l m k.
Proof. unfold lookup_l. rewrite aget_adel. destruct (N.eqb t k); reflexivity. Qed.

(* exact effect of remove_transaction on both maps *)
Lemma remove_tx_succs g t : GInv g -> forall w y,
  In y (succs (remove_tx g t) w) <-> In y (succs g w) /\ w <> t /\ y <> t.
Proof.
  intros I w y. rewrite remove_tx_eq. cbn zeta. unfold succs at 1. cbn [fwd].
  change (match aget ?m w with Some l => l | None => [] end) with (lookup_l m w).
  rewrite unlink_lookup, lookup_adel. destruct (N.eqb_spec t w) as [->|Hne].
  - cbn. tauto.
  - change (lookup_l (fwd g) w) with (succs g w). split.
    + intros [Hy Hc]. repeat split; auto. intros ->.
      apply Hc; [|reflexivity]. apply unlink_lookup. split.
      * apply I in Hy. exact Hy.
      * intros _. congruence.
    + intros [Hy [_ Hyt]]. split; auto.
Qed.

Lemma remove_tx_preds g t : GInv g -> forall h x,
  In x (preds (remove_tx g t) h) <-> In x (preds g h) /\ h <> t /\ x <> t.
Proof.
  intros I h x. rewrite remove_tx_eq. cbn zeta. unfold preds at 1. cbn [rev].
  change (match aget ?m h with Some l => l | None => [] end) with (lookup_l m h).
  rewrite lookup_adel. destruct (N.eqb_spec t h) as [->|Hne].
  - cbn. tauto.
  - rewrite unlink_lookup. change (lookup_l (rev g) h) with (preds g h). split.
    + intros [Hx Hc]. repeat split; auto. intros ->. apply Hc; [|reflexivity]. apply I. exact Hx.
    + intros [Hx [_ Hxt]]. split; auto.
Qed.

Lemma remove_tx_GInv g t : GInv g -> GInv (remove_tx g t).
Proof.
  intros I w h. rewrite (remove_tx_succs g t I), (remove_tx_preds g t I). rewrite (I w h). tauto.
Qed.

(* after remove_transaction(t), t is neither waiter nor holder of any edge *)
Lemma remove_tx_absent g t : GInv g -> forall x y,
  (In y (succs (remove_tx g t) x) -> x <> t /\ y <> t) /\ (In x (preds (remove_tx g t) y) -> x <> t /\ y <> t).
Proof.
  intros I x y. rewrite (remove_tx_succs g t I), (remove_tx_preds g t I). tauto.
Qed.

(* add_wait *)
Definition accepted (maxe : N) (g : wg) (w h : N) : bool :=
  negb (N.eqb w h) && negb (N.ltb 0 maxe && N.leb maxe (N.of_nat (length (succs g w)))).

Lemma add_wait_succs maxe now g w h p x y :
  In y (succs (add_wait maxe now g w h p) x) <-> In y (succs g x) \/ (accepted maxe g w h = true /\ x = w /\ y = h).
Proof.
  unfold add_wait, accepted. destruct (N.eqb w h); cbn [negb andb]; [intuition discriminate|].
  destruct (N.ltb 0 maxe && N.leb maxe (N.of_nat (length (succs g w)))); cbn [negb]; [intuition discriminate|].
  unfold succs at 1; cbn [fwd]. rewrite aget_aset. destruct (N.eqb_spec w x) as [->|Hne].
  - rewrite set_add_In. intuition.
  - change (match aget (fwd g) x with Some l => l | None => [] end) with (succs g x). intuition congruence.
Qed.

Lemma add_wait_preds maxe now g w h p x y :
  In x (preds (add_wait maxe now g w h p) y) <-> In x (preds g y) \/ (accepted maxe g w h = true /\ x = w /\ y = h).
Proof.
  unfold add_wait, accepted. destruct (N.eqb w h); cbn [negb andb]; [intuition discriminate|].
  destruct (N.ltb 0 maxe && N.leb maxe (N.of_nat (length (succs g w)))); cbn [negb]; [intuition discriminate|].
  unfold preds at 1; cbn [rev]. rewrite aget_aset. destruct (N.eqb_spec h y) as [->|Hne].
  - rewrite set_add_In. intuition.
  - change (match aget (rev g) y with Some l => l | None => [] end) with (preds g y). intuition congruence.
Qed.

Lemma add_wait_GInv maxe now g w h p : GInv g -> GInv (add_wait maxe now g w h p).
Proof. intros I x y. rewrite add_wait_succs, add_wait_preds, (I x y). tauto. Qed.

(* a self-wait is never recorded *)
Lemma add_wait_no_self maxe now g w p : add_wait maxe now g w w p = g.
Proof. unfold add_wait. now rewrite N.eqb_refl. Qed.

(* remove_wait *)
Lemma is_nil_spec {A} (l : list A) : is_nil l = true <-> l = [].
Proof. destruct l; cbn; split; congruence. Qed.

Lemma remove_wait_succs g w h x y :
  In y (succs (remove_wait g w h) x) <-> In y (succs g x) /\ ~ (x = w /\ y = h).
Proof.
  unfold remove_wait. destruct (aget (fwd g) w) as [hs|] eqn:G.
  - destruct (is_nil (set_remove h hs)) eqn:E; unfold succs; cbn [fwd].
    + apply is_nil_spec in E. rewrite aget_adel. destruct (N.eqb_spec w x) as [->|Hne].
      * rewrite G. split; [intros []|]. intros [Hy Hn].
        assert (In y (set_remove h hs)) by (apply set_remove_In; split; [exact Hy|intros ->; tauto]).
        rewrite E in H. destruct H.
      * intuition congruence.
    + rewrite aget_aset. destruct (N.eqb_spec w x) as [->|Hne].
      * rewrite G, set_remove_In. intuition congruence.
      * intuition congruence.
  - unfold succs; cbn [fwd]. destruct (N.eqb_spec w x) as [->|Hne].
    + rewrite G. cbn. tauto.
    + intuition congruence.
Qed.

Lemma remove_wait_preds g w h x y :
  In x (preds (remove_wait g w h) y) <-> In x (preds g y) /\ ~ (x = w /\ y = h).
Proof.
  unfold remove_wait. destruct (match aget (fwd g) w with Some hs => _ | None => _ end) as [f' s'].
  destruct (aget (rev g) h) as [ws|] eqn:G.
  - destruct (is_nil (set_remove w ws)) eqn:E; unfold preds; cbn [rev].
    + apply is_nil_spec in E. rewrite aget_adel. destruct (N.eqb_spec h y) as [->|Hne].
      * rewrite G. split; [intros []|]. intros [Hx Hn].
        assert (In x (set_remove w ws)) by (apply set_remove_In; split; [exact Hx|intros ->; tauto]).
        rewrite E in H. destruct H.
      * intuition congruence.
    + rewrite aget_aset. destruct (N.eqb_spec h y) as [->|Hne].
      * rewrite G, set_remove_In. intuition congruence.
      * intuition congruence.
  - unfold preds; cbn [rev]. destruct (N.eqb_spec h y) as [->|Hne].
    + rewrite G. cbn. tauto.
    + intuition congruence.
Qed.

Lemma remove_wait_GInv g w h : GInv g -> GInv (remove_wait g w h).
Proof. intros I x y. rewrite remove_wait_succs, remove_wait_preds, (I x y). tauto. Qed.

(* ================================================================== 3. lock manager + graph over all op sequences *)
Definition SInv (s : st) : Prop := TInv (tbl s) /\ GInv (gr s).

Lemma init_SInv tmo0 maxe0 : SInv (init tmo0 maxe0).
Proof. split; [apply empty_TInv|apply wg_empty_GInv]. Qed.

Lemma fold_add_wait_GInv maxe now tx p bs g :
  GInv g -> GInv (fold_left (fun g b => add_wait maxe now g tx b p) bs g).
Proof. revert g. induction bs as [|b r IH]; intros g I; cbn; [exact I|]. apply IH. now apply add_wait_GInv. Qed.

Lemma fold_remove_tx_GInv ts g : GInv g -> GInv (fold_left remove_tx ts g).
Proof. revert g. induction ts as [|t r IH]; intros g I; cbn; [exact I|]. apply IH. now apply remove_tx_GInv. Qed.

Lemma do_release_handle_wait_SInv s h : SInv s -> SInv (do_release_handle_wait s h).
Proof.
  intros [Ht Hg]. unfold do_release_handle_wait. destruct (handle_owner h (tbl s)); split; cbn;
    try (now apply release_by_handle_TInv); try assumption. now apply remove_tx_GInv.
Qed.

Lemma fold_release_handle_wait_SInv hs s : SInv s -> SInv (fold_left do_release_handle_wait hs s).
Proof. revert s. induction hs as [|h r IH]; intros s I; cbn; [exact I|]. apply IH. now apply do_release_handle_wait_SInv. Qed.

Lemma do_finish_SInv rel unw s tx hs : SInv s -> SInv (do_finish rel unw s tx hs).
Proof.
  intros I. unfold do_finish. pose proof (fold_release_handle_wait_SInv hs s I) as [Ht Hg].
  destruct rel, unw; split; cbn; try assumption; try (now apply release_TInv); try (now apply remove_tx_GInv).
Qed.

Lemma do_cleanup_wait_SInv s : SInv s -> SInv (fst (do_cleanup_wait s)).
Proof.
  intros [Ht Hg]. unfold do_cleanup_wait.
  pose proof (cleanup_expired_TInv (now s) (tbl s) Ht) as Hc.
  destruct (cleanup_expired (now s) (tbl s)) as [t' n]. cbn in *. split; cbn; [exact Hc|now apply fold_remove_tx_GInv].
Qed.

Lemma fold_finish_SInv rel unw fin s :
  SInv s -> SInv (fold_left (fun s f => do_finish rel unw s (fst f) (snd f)) fin s).
Proof. revert s. induction fin as [|f r IH]; intros s I; cbn; [exact I|]. apply IH. now apply do_finish_SInv. Qed.

Lemma step_SInv rel unw s o : SInv s -> SInv (fst (step rel unw s o)).
Proof.
  intros I. pose proof I as [Ht Hg]. destruct o; cbn [step].
  - unfold do_try_lock. pose proof (try_lock_TInv (now s) tx (nexth s) (tmo s) keys (tbl s) Ht) as H.
    destruct (try_lock (now s) tx (nexth s) (tmo s) keys (tbl s)) as [t' [h|o]]; cbn in *; [split; assumption|exact I].
  - unfold do_try_lock_wait. destruct (all_conflicts _ _ _ _ _ _) as [bs cks]. destruct bs as [|b r]; cbn.
    + split; cbn; [now apply acquire_TInv|now apply remove_tx_GInv].
    + split; cbn; [assumption|]. apply (fold_add_wait_GInv _ _ _ _ (b :: r)). exact Hg.
  - split; cbn; [now apply release_TInv|assumption].
  - split; cbn; [now apply release_by_handle_TInv|assumption].
  - now apply do_release_handle_wait_SInv.
  - pose proof (cleanup_expired_TInv (now s) (tbl s) Ht) as Hc.
    destruct (cleanup_expired (now s) (tbl s)) as [t' n]. cbn in *. split; assumption.
  - now apply do_cleanup_wait_SInv.
  - exact I.
  - exact I.
  - exact I.
  - split; cbn; [assumption|now apply add_wait_GInv].
  - split; cbn; [assumption|now apply remove_tx_GInv].
  - split; cbn; [assumption|now apply remove_wait_GInv].
  - now apply do_finish_SInv.
  - cbn. apply do_cleanup_wait_SInv. now apply fold_finish_SInv.
Qed.

Lemma run_SInv rel unw ops s : SInv s -> SInv (run rel unw s ops).
Proof. revert s. induction ops as [|o r IH]; intros s I; cbn; [exact I|]. apply IH. now apply step_SInv. Qed.

Theorem reachable_SInv rel unw tmo0 maxe0 ops : SInv (run rel unw (init tmo0 maxe0) ops).
Proof. apply run_SInv, init_SInv. Qed.

(* ---------------------------------------------------------------- refusal / all-or-nothing / one holder *)
Lemma all_conflicts_spec now tx keys lk : forall bs0 ks0 bs ks,
  all_conflicts now tx keys lk bs0 ks0 = (bs, ks) ->
  (forall b, In b bs <-> In b bs0 \/ exists k, In k keys /\ blocks now tx lk k = Some b).
Proof.
  induction keys as [|k0 r IH]; intros bs0 ks0 bs ks H b; cbn in H.
  - injection H as <- <-. split; [auto|]. intros [?|[k [[] _]]]. assumption.
  - destruct (blocks now tx lk k0) as [o|] eqn:B.
    + rewrite (IH _ _ _ _ H b), set_add_In. split.
      * intros [[->|Hb]|[k [Hk Bk]]]; [right; exists k0; cbn; auto|auto|right; exists k; cbn; auto].
      * intros [Hb|[k [[<-|Hk] Bk]]]; [auto| |right; eauto]. left. left. congruence.
    + rewrite (IH _ _ _ _ H b). split.
      * intros [Hb|[k [Hk Bk]]]; [auto|right; exists k; cbn; auto].
      * intros [Hb|[k [[<-|Hk] Bk]]]; [auto|congruence|right; eauto].
Qed.

Definition is_lock_op (o : op) (tx : N) (keys : list N) : Prop :=
  o = OTryLock tx keys \/ exists p, o = OTryLockWait tx keys p.

(* a request is either granted on EVERY key, or refused because of a real unexpired foreign holder of one of
   the requested keys, in which case the lock table is unchanged *)
Theorem lock_all_or_nothing rel unw s o tx keys : is_lock_op o tx keys ->
  let s' := fst (step rel unw s o) in let ret := snd (step rel unw s o) in
  (exists h, ret = [0; h] /\ forall k, In k keys -> holder (now s') (tbl s') k = Some tx)
  \/ (exists b r, ret = 1 :: b :: r /\ tbl s' = tbl s /\ b <> tx /\
        exists k, In k keys /\ holder (now s) (tbl s) k = Some b).
Proof.
  intros [->|[p ->]]; cbn [step].
  - unfold do_try_lock. destruct (try_lock (now s) tx (nexth s) (tmo s) keys (tbl s)) as [t' [h|o]] eqn:E; cbn.
    + left. exists h. split; [reflexivity|]. intros k Hk. eapply try_lock_granted_holds; eauto.
    + right. apply try_lock_refused_by_holder in E. destruct E as [_ [Hne [k [Hk Hh]]]].
      exists o, []. repeat split; auto. eauto.
  - unfold do_try_lock_wait. destruct (all_conflicts (now s) tx keys (locks (tbl s)) [] []) as [bs cks] eqn:E.
    pose proof (all_conflicts_spec _ _ _ _ _ _ _ _ E) as Sp. destruct bs as [|b r]; cbn.
    + left. exists (nexth s). split; [reflexivity|]. intros k Hk. unfold holder, acquire; cbn [locks].
      rewrite insert_all_get. apply mem_In in Hk. rewrite Hk, fresh_lock_unexpired. reflexivity.
    + right. exists b, cks. split; [reflexivity|]. split; [reflexivity|].
      destruct (proj1 (Sp b) (or_introl eq_refl)) as [[]|[k [Hk B]]].
      apply blocks_holder in B. destruct B. split; [assumption|]. eauto.
Qed.

(* a request that meets a key held by another unexpired transaction is refused *)
Theorem lock_refused_when_held rel unw s o tx keys k a : is_lock_op o tx keys ->
  In k keys -> holder (now s) (tbl s) k = Some a -> a <> tx ->
  exists b r, snd (step rel unw s o) = 1 :: b :: r /\ tbl (fst (step rel unw s o)) = tbl s.
Proof.
  intros [->|[p ->]] Hk Hh Hne; cbn [step].
  - unfold do_try_lock. destruct (try_lock_refuses (now s) tx (nexth s) (tmo s) keys (tbl s) k a Hk Hh Hne) as [o E].
    rewrite E. cbn. eauto.
  - unfold do_try_lock_wait. destruct (all_conflicts (now s) tx keys (locks (tbl s)) [] []) as [bs cks] eqn:E.
    pose proof (all_conflicts_spec _ _ _ _ _ _ _ _ E) as Sp. destruct bs as [|b r]; cbn; [|eauto].
    exfalso. apply (proj2 (Sp a)). right. exists k. split; [exact Hk|]. apply blocks_holder. auto.
Qed.

(* whatever one transaction requests or releases, a key held by ANOTHER unexpired transaction keeps its holder *)
Theorem foreign_holder_kept rel unw s o tx keys k a :
  is_lock_op o tx keys \/ o = ORelease tx ->
  holder (now s) (tbl s) k = Some a -> a <> tx ->
  holder (now (fst (step rel unw s o))) (tbl (fst (step rel unw s o))) k = Some a.
Proof.
  intros [[->|[p ->]]| ->] Hh Hne; cbn [step].
  - unfold do_try_lock. destruct (try_lock (now s) tx (nexth s) (tmo s) keys (tbl s)) as [t' [h|o]] eqn:E; cbn; [|exact Hh].
    eapply try_lock_keeps_foreign; eauto.
  - unfold do_try_lock_wait. destruct (all_conflicts (now s) tx keys (locks (tbl s)) [] []) as [bs cks] eqn:E.
    pose proof (all_conflicts_spec _ _ _ _ _ _ _ _ E) as Sp. destruct bs as [|b r]; cbn; [|exact Hh].
    unfold holder, acquire; cbn [locks]. rewrite insert_all_get. destruct (mem k keys) eqn:M; [|exact Hh].
    exfalso. apply mem_In in M. apply (proj2 (Sp a)). right. exists k. split; [exact M|]. apply blocks_holder. auto.
  - cbn. apply holder_Some in Hh. destruct Hh as [e [G [Ex Ho]]]. apply holder_Some. exists e. repeat split; auto.
    apply release_keeps_foreign; congruence.
Qed.

(* ---------------------------------------------------------------- nothing left behind *)
(* tx owns no lock and is neither waiter nor holder of any wait edge *)
Definition Clean (tx : N) (s : st) : Prop :=
  (forall k e, aget (locks (tbl s)) k = Some e -> owner e <> tx) /\
  (forall x y, In y (succs (gr s) x) -> x <> tx /\ y <> tx) /\
  (forall x y, In x (preds (gr s) y) -> x <> tx /\ y <> tx).

(* s' has no lock and no edge that s does not have *)
Definition Shrinks (s s' : st) : Prop :=
  (forall k e, aget (locks (tbl s')) k = Some e -> aget (locks (tbl s)) k = Some e) /\
  (forall x y, In y (succs (gr s') x) -> In y (succs (gr s) x)) /\
  (forall x y, In x (preds (gr s') y) -> In x (preds (gr s) y)).

Lemma Shrinks_refl s : Shrinks s s. Proof. repeat split; auto. Qed.
Lemma Shrinks_trans a b c : Shrinks a b -> Shrinks b c -> Shrinks a c.
Proof. intros [A1 [A2 A3]] [B1 [B2 B3]]. repeat split; auto. Qed.
Lemma Clean_Shrinks tx s s' : Clean tx s -> Shrinks s s' -> Clean tx s'.
Proof.
  intros [C1 [C2 C3]] [S1 [S2 S3]]. split; [|split].
  - intros k e H. exact (C1 k e (S1 k e H)).
  - intros x y H. exact (C2 x y (S2 x y H)).
  - intros x y H. exact (C3 x y (S3 x y H)).
Qed.

Lemma remove_fold_only_removes ks t k e :
  aget (locks (fold_left remove_locked ks t)) k = Some e -> aget (locks t) k = Some e.
Proof. rewrite remove_fold_get. destruct (mem k ks); [discriminate|auto]. Qed.

Lemma remove_tx_Shrinks_gr g t : GInv g ->
  (forall x y, In y (succs (remove_tx g t) x) -> In y (succs g x)) /\
  (forall x y, In x (preds (remove_tx g t) y) -> In x (preds g y)).
Proof.
  intros I. split; intros x y H.
  - apply (remove_tx_succs g t I) in H. tauto.
  - apply (remove_tx_preds g t I) in H. tauto.
Qed.

Lemma fold_remove_tx_Shrinks_gr ts g : GInv g ->
  (forall x y, In y (succs (fold_left remove_tx ts g) x) -> In y (succs g x)) /\
  (forall x y, In x (preds (fold_left remove_tx ts g) y) -> In x (preds g y)).
Proof.
  revert g. induction ts as [|t r IH]; intros g I; cbn; [split; auto|].
  destruct (IH _ (remove_tx_GInv g t I)) as [A B]. destruct (remove_tx_Shrinks_gr g t I) as [C D].
  split; intros; auto.
Qed.

Lemma do_release_handle_wait_Shrinks s h : SInv s -> Shrinks s (do_release_handle_wait s h).
Proof.
  intros [Ht Hg]. unfold do_release_handle_wait. destruct (handle_owner h (tbl s)) as [t|]; cbn.
  - destruct (remove_tx_Shrinks_gr (gr s) t Hg) as [A B]. repeat split; cbn; auto.
    intros k e. apply remove_fold_only_removes.
  - repeat split; cbn; auto. intros k e. apply remove_fold_only_removes.
Qed.

Lemma fold_release_handle_wait_Shrinks hs s : SInv s -> Shrinks s (fold_left do_release_handle_wait hs s).
Proof.
  revert s. induction hs as [|h r IH]; intros s I; cbn; [apply Shrinks_refl|].
  eapply Shrinks_trans; [apply do_release_handle_wait_Shrinks; exact I|].
  apply IH. now apply do_release_handle_wait_SInv.
Qed.

Lemma do_finish_Shrinks rel unw s tx hs : SInv s -> Shrinks s (do_finish rel unw s tx hs).
Proof.
  intros I. unfold do_finish.
  pose proof (fold_release_handle_wait_Shrinks hs s I) as Sh.
  pose proof (fold_release_handle_wait_SInv hs s I) as [Ht Hg].
  set (s1 := fold_left do_release_handle_wait hs s) in *.
  eapply Shrinks_trans; [exact Sh|].
  destruct (remove_tx_Shrinks_gr (gr s1) tx Hg) as [A B].
  destruct rel, unw; repeat split; cbn; auto; intros k e; apply release_only_removes.
Qed.

Lemma do_cleanup_wait_Shrinks s : SInv s -> Shrinks s (fst (do_cleanup_wait s)).
Proof.
  intros [Ht Hg]. unfold do_cleanup_wait, cleanup_expired. cbn.
  destruct (fold_remove_tx_Shrinks_gr (expired_owners (now s) (locks (tbl s))) (gr s) Hg) as [A B].
  repeat split; cbn; auto. intros k e. apply remove_fold_only_removes.
Qed.

(* commit / abort / timeout of tx (with release-by-tx and remove_transaction in the body) leaves nothing of tx *)
Theorem finish_Clean s tx hs : SInv s -> Clean tx (do_finish true true s tx hs).
Proof.
  intros I. unfold do_finish.
  pose proof (fold_release_handle_wait_SInv hs s I) as [[Hu Hi] Hg].
  set (s1 := fold_left do_release_handle_wait hs s) in *.
  split; [|split]; cbn.
  - intros k e H. exact (release_none_left tx (tbl s1) Hi k e H).
  - intros x y H. exact (proj1 (remove_tx_absent (gr s1) tx Hg x y) H).
  - intros x y H. exact (proj2 (remove_tx_absent (gr s1) tx Hg x y) H).
Qed.

(* release(tx) leaves no lock of tx *)
Theorem release_leaves_no_lock s tx : SInv s ->
  forall k e, aget (locks (release tx (tbl s))) k = Some e -> owner e <> tx.
Proof. intros [[_ Hi] _]. now apply release_none_left. Qed.

(* remove_transaction(tx) leaves no edge of tx *)
Theorem remove_tx_leaves_no_edge s tx : SInv s -> forall x y,
  (In y (succs (remove_tx (gr s) tx) x) -> x <> tx /\ y <> tx) /\
  (In x (preds (remove_tx (gr s) tx) y) -> x <> tx /\ y <> tx).
Proof. intros [_ Hg]. now apply remove_tx_absent. Qed.

(* cleanup_timeouts: every timed-out transaction is clean after the whole sweep *)
Lemma fold_finish_Shrinks rel unw fin s :
  SInv s -> Shrinks s (fold_left (fun s f => do_finish rel unw s (fst f) (snd f)) fin s).
Proof.
  revert s. induction fin as [|f r IH]; intros s I; cbn; [apply Shrinks_refl|].
  eapply Shrinks_trans; [apply do_finish_Shrinks; exact I|]. apply IH. now apply do_finish_SInv.
Qed.

Theorem timeouts_Clean fin s : SInv s -> forall f, In f fin ->
  Clean (fst f) (fst (step true true s (OTimeouts fin))).
Proof.
  intros I f Hf. cbn [step fst].
  assert (G: forall fin s, SInv s -> In f fin ->
             Clean (fst f) (fold_left (fun s f => do_finish true true s (fst f) (snd f)) fin s)).
  { clear. induction fin as [|f0 r IH]; intros s I Hin; [destruct Hin|]. destruct Hin as [->|Hin]; cbn [fold_left].
    - eapply Clean_Shrinks; [apply (finish_Clean s (fst f) (snd f) I)|].
      apply fold_finish_Shrinks. now apply do_finish_SInv.
    - apply IH; [now apply do_finish_SInv|exact Hin]. }
  eapply Clean_Shrinks; [apply G; eauto|]. apply do_cleanup_wait_Shrinks. now apply fold_finish_SInv.
Qed.

(* expiry: a lock past its timeout is no holder, and the sweep removes exactly the expired locks *)
Theorem expired_not_held now t k e : aget (locks t) k = Some e -> (timeout e < now - acquired e) -> holder now t k = None.
Proof. intros G H. unfold holder, expired. rewrite G. apply N.ltb_lt in H. now rewrite H. Qed.

Theorem sweep_exact s : SInv s ->
  let t' := fst (cleanup_expired (now s) (tbl s)) in
  (forall k, holder (now s) t' k = holder (now s) (tbl s) k) /\
  (forall k e, aget (locks t') k = Some e -> expired (now s) e = false).
Proof.
  intros [[Hu _] _]. split; [intros; now apply cleanup_expired_holder|intros k e; now apply cleanup_expired_none_expired].
Qed.

(* ================================================================== 4. detect_cycles on the wait-for graph, detector, victim *)
Lemma aget_key_in {V} (l : list (N * V)) k v : aget l k = Some v -> In k (map fst l).
Proof. intros H. apply aget_In in H. change k with (fst (k, v)). now apply in_map. Qed.

Lemma succs_start g x y : In y (succs g x) -> In x (map fst (fwd g)).
Proof. unfold succs. destruct (aget (fwd g) x) eqn:G; [intros _; eapply aget_key_in; eauto|intros []]. Qed.

(* WaitForGraph::detect_cycles: every reported list is a cycle of the recorded relation, and
   something is reported exactly when the recorded relation has a cycle *)
Theorem detect_cycles_sound g cs : detect_cycles g = Some cs -> Forall (is_cycle (succs g)) cs.
Proof.
  unfold detect_cycles. destruct (detect_from _ _ _) as [r|] eqn:E; [|discriminate]. intros [= <-].
  apply Forall_rev. eapply detect_sound; eauto.
Qed.

Theorem detect_cycles_iff g cs : detect_cycles g = Some cs -> (cs <> [] <-> exists x, rp (succs g) x x).
Proof.
  unfold detect_cycles. destruct (detect_from _ _ _) as [r|] eqn:E; [|discriminate]. intros [= <-].
  rewrite <- (detect_from_iff (succs g) _ _ r (succs_start g) E).
  split; intros H C; apply H.
  - rewrite C. reflexivity.
  - apply (f_equal (@List.rev _)) in C. now rewrite rev_involutive in C.
Qed.

(* victim selection *)
Lemma max_by_in f l : forall b, In (max_by f b l) (b :: l).
Proof.
  induction l as [|x r IH]; intros b; cbn [max_by]; [now left|].
  destruct (IH (if N.leb (f b) (f x) then x else b)) as [H|H].
  - destruct (N.leb (f b) (f x)); [right; left|left]; auto.
  - right; right; exact H.
Qed.
Lemma min_by_in f l : forall b, In (min_by f b l) (b :: l).
Proof.
  induction l as [|x r IH]; intros b; cbn [min_by]; [now left|].
  destruct (IH (if N.ltb (f x) (f b) then x else b)) as [H|H].
  - destruct (N.ltb (f x) (f b)); [right; left|left]; auto.
  - right; right; exact H.
Qed.

Theorem select_victim_in pol ws pr lc cycle : cycle <> [] -> In (select_victim pol ws pr lc cycle) cycle.
Proof.
  intros Hne. destruct cycle as [|x r]; [congruence|]. unfold select_victim.
  destruct r as [|y r]; [now left|].
  destruct (N.eqb pol 0); [apply max_by_in|].
  destruct (N.eqb pol 1); [apply min_by_in|].
  destruct (N.eqb pol 2); [apply max_by_in|].
  destruct lc; apply max_by_in.
Qed.

(* the cascading loop *)
Lemma detect_loop_in cm sel cycles : forall vs n c v,
  In (c, v) (detect_loop cm sel cycles vs n) -> In c cycles /\ v = sel c.
Proof.
  induction cycles as [|c0 r IH]; intros vs n c v H; cbn [detect_loop] in H; [destruct H|].
  destruct (existsb _ c0 && N.ltb n cm).
  - apply IH in H. destruct H. split; [right|]; assumption.
  - destruct H as [[= <- <-]|H]; [split; [now left|reflexivity]|].
    apply IH in H. destruct H. split; [right|]; assumption.
Qed.

Lemma detect_loop_nil cm sel cycles n : detect_loop cm sel cycles [] n = [] <-> cycles = [].
Proof.
  destruct cycles as [|c r]; cbn [detect_loop]; [tauto|].
  assert (E: existsb (fun tx => mem tx []) c = false) by (induction c; cbn; auto).
  rewrite E. cbn. split; discriminate.
Qed.

(* DeadlockDetector::detect on a cycle list: every deadlock names one of the cycles, within max_cycle_length,
   with the selected victim; something is reported exactly when a cycle is within the length limit *)
Theorem detect_spec cfg sel cycles :
  (forall c v, In (c, v) (detect cfg sel cycles) ->
     In c cycles /\ short_enough (max_cycle cfg) c = true /\ v = sel c) /\
  (detect cfg sel cycles <> [] <-> enabled cfg = true /\ exists c, In c cycles /\ short_enough (max_cycle cfg) c = true).
Proof.
  unfold detect. destruct (enabled cfg).
  - split.
    + intros c v H. apply detect_loop_in in H. destruct H as [H ->]. apply filter_In in H. tauto.
    + rewrite detect_loop_nil. split.
      * intros H. split; [reflexivity|]. destruct (filter _ cycles) as [|c r] eqn:F; [congruence|].
        exists c. apply filter_In. rewrite F. now left.
      * intros [_ [c Hc]] F. apply filter_In in Hc. rewrite F in Hc. destruct Hc.
  - split; [intros c v []|]. split; [congruence|intros [? _]; discriminate].
Qed.

(* the end-to-end statement on one graph *)
Theorem deadlock_report g cs cfg pol ws pr lc :
  detect_cycles g = Some cs -> enabled cfg = true ->
  (forall c, In c cs -> short_enough (max_cycle cfg) c = true) ->
  let ds := detect cfg (select_victim pol ws pr lc) cs in
  (ds <> [] <-> exists x, rp (succs g) x x) /\
  (forall c v, In (c, v) ds -> is_cycle (succs g) c /\ In v c).
Proof.
  intros Hd He Hs ds. destruct (detect_spec cfg (select_victim pol ws pr lc) cs) as [A B]. split.
  - unfold ds. rewrite B, <- (detect_cycles_iff g cs Hd). split.
    + intros [_ [c [Hc _]]] E. subst. destruct Hc.
    + intros Hne. split; [exact He|]. destruct cs as [|c r]; [congruence|]. exists c. split; [now left|]. apply Hs. now left.
  - intros c v H. apply A in H. destruct H as [Hc [_ ->]].
    pose proof (detect_cycles_sound g cs Hd) as F. rewrite Forall_forall in F. specialize (F c Hc).
    split; [exact F|]. apply select_victim_in. destruct F as [Hne _]. exact Hne.
Qed.

(* ================================================================== 5. the detector is total on every wait-for graph *)
Lemma fold_set_add_In l : forall acc z, In z (fold_left (fun a y => set_add y a) l acc) <-> In z acc \/ In z l.
Proof.
  induction l as [|y r IH]; intros acc z; cbn [fold_left]; [cbn; tauto|].
  rewrite IH, set_add_In. cbn [In]. split.
  - intros [[->|H]|H]; auto.
  - intros [H|[->|H]]; auto.
Qed.
Lemma fold_set_add_NoDup l : forall acc, NoDup acc -> NoDup (fold_left (fun a y => set_add y a) l acc).
Proof. induction l as [|y r IH]; intros acc H; cbn; [exact H|]. apply IH. now apply set_add_NoDup. Qed.

Lemma nodes_fold_In (L : list (N * list N)) : forall acc z,
  In z (fold_left (fun acc kl => fold_left (fun a y => set_add y a) (snd kl) (set_add (fst kl) acc)) L acc) <->
  In z acc \/ exists k l, In (k, l) L /\ (z = k \/ In z l).
Proof.
  induction L as [|[k0 l0] r IH]; intros acc z; cbn [fold_left fst snd].
  - split; [auto|intros [H|[k [l [[] _]]]]; exact H].
  - rewrite IH, fold_set_add_In, set_add_In. split.
    + intros [[[->|H]|H]|[k [l [Hin Hz]]]]; [right; exists k0, l0; cbn; auto|auto|right; exists k0, l0; cbn; auto|right; exists k, l; cbn; auto].
    + intros [H|[k [l [[[= <- <-]|Hin] Hz]]]]; [auto| |right; eauto]. destruct Hz as [->|Hz]; auto.
Qed.
Lemma nodes_fold_NoDup (L : list (N * list N)) : forall acc, NoDup acc ->
  NoDup (fold_left (fun acc kl => fold_left (fun a y => set_add y a) (snd kl) (set_add (fst kl) acc)) L acc).
Proof. induction L as [|kl r IH]; intros acc H; cbn; [exact H|]. apply IH, fold_set_add_NoDup, set_add_NoDup, H. Qed.

Lemma wg_nodes_In g z : In z (wg_nodes g) <-> exists k l, In (k, l) (fwd g) /\ (z = k \/ In z l).
Proof. unfold wg_nodes. rewrite nodes_fold_In. split; [intros [[]|H]; exact H|auto]. Qed.
Lemma wg_nodes_NoDup g : NoDup (wg_nodes g).
Proof. apply nodes_fold_NoDup. constructor. Qed.

Lemma wg_nodes_closed g x y : In x (wg_nodes g) -> In y (succs g x) -> In y (wg_nodes g).
Proof.
  intros _ Hy. unfold succs in Hy. destruct (aget (fwd g) x) as [l|] eqn:G; [|destruct Hy].
  apply wg_nodes_In. exists x, l. split; [now apply aget_In|now right].
Qed.
Lemma wg_starts_nodes g x : In x (map fst (fwd g)) -> In x (wg_nodes g).
Proof.
  intros H. apply in_map_iff in H. destruct H as [[k l] [<- Hin]]. apply wg_nodes_In. exists k, l. cbn. auto.
Qed.

(* the DFS of detect_cycles never runs out of its fuel (|nodes| + 1) *)
Theorem detect_cycles_total g : exists cs, detect_cycles g = Some cs.
Proof.
  unfold detect_cycles.
  destruct (detect_from_total (succs g) (wg_nodes g) (wg_nodes_closed g) (Datatypes.S (length (wg_nodes g))) (map fst (fwd g))
              (wg_starts_nodes g)) as [r E]; [lia|]. rewrite E. eauto.
Qed.

(* every reported cycle visits each transaction at most once, so it is no longer than the number of transactions *)
Theorem detect_cycles_short g cs c : detect_cycles g = Some cs -> In c cs -> (length c <= length (wg_nodes g))%nat.
Proof.
  unfold detect_cycles. destruct (detect_from _ _ _) as [r|] eqn:E; [|discriminate]. intros [= <-] Hin.
  apply in_rev in Hin.
  pose proof (detect_from_short (succs g) (wg_nodes g) (wg_nodes_closed g) _ _ r (wg_starts_nodes g) E) as F.
  rewrite Forall_forall in F. apply (Short_length (wg_nodes g)); [apply wg_nodes_NoDup|]. now apply F.
Qed.

(* END TO END: on any wait-for graph with at most max_cycle_length transactions, detect_cycles terminates, the
   detector reports a deadlock exactly when the recorded relation has a cycle, every reported cycle is a cycle of the
   relation, and every victim belongs to its cycle *)
Theorem deadlock_report_total g cfg pol ws pr lc :
  enabled cfg = true -> N.of_nat (length (wg_nodes g)) <= max_cycle cfg ->
  exists cs, detect_cycles g = Some cs /\
    let ds := detect cfg (select_victim pol ws pr lc) cs in
    (ds <> [] <-> exists x, rp (succs g) x x) /\
    (forall c v, In (c, v) ds -> is_cycle (succs g) c /\ In v c).
Proof.
  intros He Hm. destruct (detect_cycles_total g) as [cs E]. exists cs. split; [exact E|].
  apply deadlock_report; [exact E|exact He|]. intros c Hc. unfold short_enough. apply N.leb_le.
  pose proof (detect_cycles_short g cs c E Hc). lia.
Qed.
