(* C12/Props.v -- pinned property theorems for C12; statements in full, closed by `exact`.
   `mstep`/`mrun` are the model step/run with the two structural flags regenerated from
   distributed_tx.rs (Gen_C12) -- Inst.gen_finish_spec re-proves on every run that they are `true`. *)
From NV.Common Require Import Base LockTable LockTableFacts.
From NV.C12 Require Import Model Proofs Inst.
From NV.gen Require Import Gen_C12.
Open Scope N_scope.

Notation mstep := (step gen_finish_releases gen_finish_unwaits).
Notation mrun := (run gen_finish_releases gen_finish_unwaits).

(* Clause "a prepare that meets a held key is refused with a conflict rather than granted":
   in every reachable state, a request (plain or wait-tracked) containing a key held by another
   unexpired transaction returns Err and leaves the lock table unchanged. *)
Theorem C12_conflicting_prepare_refused : forall ops tmo0 maxe0 tx keys p o k a,
  o = OTryLock tx keys \/ o = OTryLockWait tx keys p ->
  let s := mrun (init tmo0 maxe0) ops in
  In k keys -> holder (now s) (tbl s) k = Some a -> a <> tx ->
  exists b r, snd (mstep s o) = 1 :: b :: r /\ tbl (fst (mstep s o)) = tbl s.
Proof.
  intros ops tmo0 maxe0 tx keys p o k a Ho s. apply lock_refused_when_held.
  destruct Ho as [-> | ->]; [left; reflexivity|right; eexists; reflexivity].
Qed.

(* Clause "granting is all-or-nothing over the requested key set": the outcome of a request is either a
   handle with EVERY requested key now held by the requester, or a refusal naming a real unexpired foreign
   holder of a requested key with the lock table untouched. *)
Theorem C12_grant_all_or_nothing : forall ops tmo0 maxe0 tx keys p o,
  o = OTryLock tx keys \/ o = OTryLockWait tx keys p ->
  let s := mrun (init tmo0 maxe0) ops in
  let s' := fst (mstep s o) in let ret := snd (mstep s o) in
  (exists h, ret = [0; h] /\ forall k, In k keys -> holder (now s') (tbl s') k = Some tx)
  \/ (exists b r, ret = 1 :: b :: r /\ tbl s' = tbl s /\ b <> tx /\
        exists k, In k keys /\ holder (now s) (tbl s) k = Some b).
Proof.
  intros ops tmo0 maxe0 tx keys p o Ho s. apply lock_all_or_nothing.
  destruct Ho as [-> | ->]; [left; reflexivity|right; eexists; reflexivity].
Qed.

(* Clause "each key is locked by at most one unexpired transaction": the table maps a key to one lock, and
   nothing a DIFFERENT transaction requests or releases changes the holder of a key that is held and unexpired. *)
Theorem C12_one_holder : forall ops tmo0 maxe0 tx keys p o k a,
  o = OTryLock tx keys \/ o = OTryLockWait tx keys p \/ o = ORelease tx ->
  let s := mrun (init tmo0 maxe0) ops in
  holder (now s) (tbl s) k = Some a -> a <> tx ->
  holder (now (fst (mstep s o))) (tbl (fst (mstep s o))) k = Some a.
Proof.
  intros ops tmo0 maxe0 tx keys p o k a Ho s. apply (foreign_holder_kept _ _ _ _ tx keys).
  destruct Ho as [-> | [-> | ->]]; [left; left; reflexivity|left; right; eexists; reflexivity|right; reflexivity].
Qed.

(* Clause "none left behind", LockManager::release: in every reachable state release(tx) removes every lock of tx
   (this is the forward-index invariant: each held key is listed under its owner). *)
Theorem C12_release_leaves_nothing : forall ops tmo0 maxe0 tx k e,
  let s := mrun (init tmo0 maxe0) ops in
  aget (locks (tbl (fst (mstep s (ORelease tx))))) k = Some e -> owner e <> tx.
Proof. intros ops tmo0 maxe0 tx k e s. exact (release_leaves_no_lock s tx (reachable_SInv _ _ _ _ ops) k e). Qed.

(* Clause "when a transaction commits, aborts or times out, none of its locks remain and it no longer appears
   as waiter or holder in the wait-for graph": OFinish tx hs is the lock/graph effect of
   DistributedTxCoordinator::{commit, abort} on tx for ANY set hs of recorded vote handles. *)
Theorem C12_finish_leaves_nothing : forall ops tmo0 maxe0 tx hs,
  let s' := fst (mstep (mrun (init tmo0 maxe0) ops) (OFinish tx hs)) in
  (forall k e, aget (locks (tbl s')) k = Some e -> owner e <> tx) /\
  (forall x y, In y (succs (gr s') x) -> x <> tx /\ y <> tx) /\
  (forall x y, In x (preds (gr s') y) -> x <> tx /\ y <> tx).
Proof.
  intros ops tmo0 maxe0 tx hs. cbn [step fst]. destruct gen_finish_spec as [-> ->].
  exact (finish_Clean _ tx hs (reachable_SInv _ _ _ _ ops)).
Qed.

(* ... and cleanup_timeouts: every transaction it times out is clean after the whole call
   (all timed-out transactions finished, then the expired-lock sweep). *)
Theorem C12_timeouts_leave_nothing : forall ops tmo0 maxe0 fin f, In f fin ->
  let s' := fst (mstep (mrun (init tmo0 maxe0) ops) (OTimeouts fin)) in
  (forall k e, aget (locks (tbl s')) k = Some e -> owner e <> fst f) /\
  (forall x y, In y (succs (gr s') x) -> x <> fst f /\ y <> fst f) /\
  (forall x y, In x (preds (gr s') y) -> x <> fst f /\ y <> fst f).
Proof.
  intros ops tmo0 maxe0 fin f Hf. destruct gen_finish_spec as [-> ->].
  exact (timeouts_Clean fin _ (reachable_SInv _ _ _ _ ops) f Hf).
Qed.

(* Expiry: a lock past its timeout is not a holder (lazy check), and the sweep removes exactly the expired locks. *)
Theorem C12_expiry : forall ops tmo0 maxe0,
  let s := mrun (init tmo0 maxe0) ops in
  (forall k e, aget (locks (tbl s)) k = Some e -> timeout e < now s - acquired e -> holder (now s) (tbl s) k = None) /\
  (forall k, holder (now s) (fst (cleanup_expired (now s) (tbl s))) k = holder (now s) (tbl s) k) /\
  (forall k e, aget (locks (fst (cleanup_expired (now s) (tbl s)))) k = Some e -> expired (now s) e = false).
Proof.
  intros ops tmo0 maxe0 s. split; [intros k e; apply expired_not_held|].
  exact (sweep_exact s (reachable_SInv _ _ _ _ ops)).
Qed.

(* Clause "the deadlock detector reports a cycle exactly when the recorded wait-for relations contain one":
   for EVERY neighbour order `succ`, every start order and any fuel that suffices, provided every node with an
   outgoing edge is a start (edges.keys()): each reported list is a cycle, and the report is non-empty iff some
   node reaches itself. *)
Theorem C12_cycle_reported_iff_exists : forall (succ : N -> list N) fuel starts r,
  (forall x y, In y (succ x) -> In x starts) ->
  detect_from succ fuel starts = Some r ->
  Forall (is_cycle succ) (cycs r) /\ (cycs r <> [] <-> exists x, rp succ x x).
Proof.
  intros succ fuel starts r Hs H. split; [exact (detect_sound succ fuel starts r H)|exact (detect_from_iff succ fuel starts r Hs H)].
Qed.

(* ... instantiated on a wait-for graph and pushed through DeadlockDetector::detect (length filter + cascading):
   a deadlock is reported iff the graph has a cycle, each reported cycle is a cycle of the recorded relation and
   "the victim it names belongs to that cycle" -- for cycles within max_cycle_length. *)
Theorem C12_deadlock_report : forall g cs cfg pol ws pr lc,
  detect_cycles g = Some cs -> enabled cfg = true ->
  (forall c, In c cs -> short_enough (max_cycle cfg) c = true) ->
  let ds := detect cfg (select_victim pol ws pr lc) cs in
  (ds <> [] <-> exists x, rp (succs g) x x) /\
  (forall c v, In (c, v) ds -> is_cycle (succs g) c /\ In v c).
Proof. exact deadlock_report. Qed.

(* END TO END, no side conditions left: on every wait-for graph with at most max_cycle_length transactions
   (default 100; the property quantifies over <= 8) detect_cycles terminates within its fuel, the detector reports
   a deadlock exactly when the recorded wait-for relation has a cycle, every reported cycle is a cycle of that
   relation, and the victim it names belongs to that cycle. *)
Theorem C12_deadlock_detected_iff_cycle : forall g cfg pol ws pr lc,
  enabled cfg = true -> N.of_nat (length (wg_nodes g)) <= max_cycle cfg ->
  exists cs, detect_cycles g = Some cs /\
    let ds := detect cfg (select_victim pol ws pr lc) cs in
    (ds <> [] <-> exists x, rp (succs g) x x) /\
    (forall c v, In (c, v) ds -> is_cycle (succs g) c /\ In v c).
Proof. exact deadlock_report_total. Qed.

Theorem C12_victim_in_cycle : forall pol ws pr lc cycle,
  cycle <> [] -> In (select_victim pol ws pr lc cycle) cycle.
Proof. exact select_victim_in. Qed.

(* ---------------------------------------------------------------- non-vacuity *)
(* a reachable state where tx 1 holds key 0 unexpired and tx 2 asks for keys [1;0] (hypotheses of the
   refusal / one-holder theorems), with a wait edge 2 -> 1 recorded afterwards *)
Example ex_state :
  let s := mrun (init 30000 0) [OTryLockWait 1 [0] None] in
  holder (now s) (tbl s) 0 = Some 1 /\
  snd (mstep s (OTryLockWait 2 [1; 0] None)) = [1; 1; 0] /\
  succs (gr (fst (mstep s (OTryLockWait 2 [1; 0] None)))) 2 = [1].
Proof. vm_compute. repeat split. Qed.

(* F-C12-waitleak as a model trace: tx 1 re-prepared (its lock carries handle 2, its vote only handle 1),
   the refused tx 2 recorded an edge and has no vote handle at all *)
Example ex_finish :
  let s := mrun (init 30000 0) [OTryLockWait 1 [0] None; OTryLockWait 1 [0] None; OTryLockWait 2 [0] None] in
  succs (gr s) 2 = [1] /\ holder (now s) (tbl s) 0 = Some 1 /\
  succs (gr (fst (mstep s (OFinish 2 [])))) 2 = [] /\
  holder (now s) (tbl (fst (mstep s (OFinish 1 [1])))) 0 = None.
Proof. vm_compute. repeat split. Qed.

(* a graph with a cycle: the DFS terminates within its fuel and reports it; the victim is in it *)
Example ex_cycle :
  let g := add_wait 0 3 (add_wait 0 2 (add_wait 0 1 wg_empty 1 2 None) 2 3 None) 3 1 None in
  detect_cycles g = Some [[1; 2; 3]] /\
  detect (D true 0 100 3) (select_victim 0 (started g) (prio g) None) [[1; 2; 3]] = [([1; 2; 3], 3)].
Proof. vm_compute. split; reflexivity. Qed.

Print Assumptions C12_conflicting_prepare_refused.
Print Assumptions C12_grant_all_or_nothing.
Print Assumptions C12_one_holder.
Print Assumptions C12_release_leaves_nothing.
Print Assumptions C12_finish_leaves_nothing.
Print Assumptions C12_timeouts_leave_nothing.
Print Assumptions C12_expiry.
Print Assumptions C12_cycle_reported_iff_exists.
Print Assumptions C12_deadlock_report.
Print Assumptions C12_deadlock_detected_iff_cycle.
Print Assumptions C12_victim_in_cycle.
