From NV.Common Require Import Base LockTable LockTableFacts.
From NV.C12 Require Import Model Proofs Inst.
Open Scope N_scope.
Theorem C12_placeholder : True. Proof. exact I. Qed.
Print Assumptions C12_placeholder.
