(* C12/Run.v -- executable entry points for the correspondence check and the property oracles.
   Depends on Common/LockTable + Model + the regenerated flags only (NOT on the proofs). *)
From NV.Common Require Import Base LockTable.
From NV.C12 Require Import Model.
From NV.gen Require Import Gen_C12.
Open Scope N_scope.

(* ------------------------------------------------------------------ helpers *)
Fixpoint insert_sorted (x : N) (l : list N) : list N :=
  match l with [] => [x] | y :: r => if N.leb x y then x :: l else y :: insert_sorted x r end.
Definition sortN (l : list N) : list N := fold_right insert_sorted [] l.
Definition lN_eqb := list_eqb N.eqb.
Definition llN_eqb := list_eqb lN_eqb.
Definition oN_eqb := option_eqb N.eqb.
Definition txs (Tn : N) : list N := map N.succ (N_seq Tn).      (* transaction ids are 1..Tn *)

(* what the harness reads back after every call *)
Record dump := Dump {
  d_holders : list (option N);   (* lock_holder(k), k = 0..K-1 *)
  d_count : N;                   (* active_lock_count() *)
  d_keys : list (list N);        (* keys_for_transaction(tx), tx = 1..Tn *)
  d_wf : list (list N);          (* sorted waiting_for(tx) *)
  d_wo : list (list N);          (* sorted waiting_on(tx) *)
  d_ws : list (option N);        (* get_wait_start(tx) *)
  d_edges : N;                   (* edge_count() *)
  d_txc : N                      (* transaction_count() *)
}.
Definition dump_eqb (a b : dump) : bool :=
  list_eqb oN_eqb (d_holders a) (d_holders b) && N.eqb (d_count a) (d_count b)
  && llN_eqb (d_keys a) (d_keys b) && llN_eqb (d_wf a) (d_wf b) && llN_eqb (d_wo a) (d_wo b)
  && list_eqb oN_eqb (d_ws a) (d_ws b) && N.eqb (d_edges a) (d_edges b) && N.eqb (d_txc a) (d_txc b).

Definition model_dump (K Tn : N) (s : st) : dump :=
  Dump (map (holder (now s) (tbl s)) (N_seq K))
       (lock_count (tbl s))
       (map (keys_of (tbl s)) (txs Tn))
       (map (fun t => sortN (succs (gr s) t)) (txs Tn))
       (map (fun t => sortN (preds (gr s) t)) (txs Tn))
       (map (fun t => aget (started (gr s)) t) (txs Tn))
       (edge_count (gr s))
       (tx_count (gr s)).

Notation mstep := (step gen_finish_releases gen_finish_unwaits).

(* ------------------------------------------------------------------ property oracle on the implementation's own observations *)
Definition nth_holder (d : dump) (k : N) : option N := nth (N.to_nat k) (d_holders d) None.
Definition foreign_kept (tx : N) (pre post : dump) : bool :=
  forallb (fun pq => match fst pq with
                     | Some a => if N.eqb a tx then true else oN_eqb (snd pq) (Some a)
                     | None => true end)
          (combine (d_holders pre) (d_holders post)).
Definition none_held_by (tx : N) (d : dump) : bool :=
  forallb (fun o => match o with Some a => negb (N.eqb a tx) | None => true end) (d_holders d).
Definition not_in_graph (tx Tn : N) (d : dump) : bool :=
  forallb (fun l => negb (mem tx l)) (d_wf d) && forallb (fun l => negb (mem tx l)) (d_wo d)
  && is_nil (nth (N.to_nat (tx - 1)) (d_wf d) []) && is_nil (nth (N.to_nat (tx - 1)) (d_wo d) []).
Definition meets_held (tx : N) (keys : list N) (pre : dump) : bool :=
  existsb (fun k => match nth_holder pre k with Some a => negb (N.eqb a tx) | None => false end) keys.
Definition granted (ret : list N) : bool := match ret with 0 :: _ => true | _ => false end.

Definition lock_oracle (tx : N) (keys : list N) (pre : dump) (ret : list N) (post : dump) : bool :=
  (* a request that meets a key held by another unexpired transaction is refused *)
  (if meets_held tx keys pre then negb (granted ret) else true)
  (* all-or-nothing: granted => every requested key is now held by tx; refused => no holder changed *)
  && (if granted ret then forallb (fun k => oN_eqb (nth_holder post k) (Some tx)) keys
      else list_eqb oN_eqb (d_holders pre) (d_holders post))
  (* a key held by somebody else keeps its holder *)
  && foreign_kept tx pre post.

Definition oracle_step (Tn : N) (pre : dump) (o : op) (ret : list N) (post : dump) : bool :=
  match o with
  | OTryLock tx keys => lock_oracle tx keys pre ret post
  | OTryLockWait tx keys _ => lock_oracle tx keys pre ret post
  | ORelease tx => none_held_by tx post && foreign_kept tx pre post
  | OFinish tx _ => none_held_by tx post && not_in_graph tx Tn post
  | ORemoveTx t => not_in_graph t Tn post
  | OTimeouts fin => forallb (fun f => none_held_by (fst f) post && not_in_graph (fst f) Tn post) fin
  | _ => true
  end.

(* ------------------------------------------------------------------ lm / coord cases *)
(* return values: model and implementation must agree exactly, except that the blocking tx reported by
   try_lock_with_wait_tracking is `blocking_tx_ids.iter().next()` of a HashSet: any blocker is accepted *)
Definition ret_match (s : st) (o : op) (mret iret : list N) : bool :=
  match o, mret, iret with
  | OTryLockWait tx keys _, 1 :: _ :: mk, 1 :: ib :: ik =>
      let '(bs, _) := all_conflicts (now s) tx keys (locks (tbl s)) [] [] in mem ib bs && lN_eqb mk ik
  | _, _, _ => lN_eqb mret iret
  end.

Definition obs := (list N * dump)%type.

(* 0 ok, 1 mismatch, 2 oracle false; the oracle is evaluated on the whole trace first *)
Fixpoint oracle_run (Tn : N) (pre : dump) (ops : list op) (os : list obs) : bool :=
  match ops, os with
  | o :: ops', (ret, post) :: os' => oracle_step Tn pre o ret post && oracle_run Tn post ops' os'
  | _, _ => true
  end.
Fixpoint model_run (K Tn : N) (s : st) (ops : list op) (os : list obs) : bool :=
  match ops, os with
  | [], [] => true
  | o :: ops', (ret, post) :: os' =>
      let '(s', mret) := mstep s o in
      ret_match s o mret ret && dump_eqb (model_dump K Tn s') post && model_run K Tn s' ops' os'
  | _, _ => false
  end.

(* (K keys, Tn transactions, default lock timeout ms, max_edges_per_tx, ops, observations) *)
Definition lm_case := (N * N * N * N * list op * list obs)%type.
Definition check_lm (c : lm_case) : N :=
  let '(K, Tn, tmo0, maxe0, ops, os) := c in
  let s0 := init tmo0 maxe0 in
  if negb (Nat.eqb (length ops) (length os)) then 9
  else if negb (oracle_run Tn (model_dump K Tn s0) ops os) then V_VIOLATION
  else if model_run K Tn s0 ops os then V_OK else V_MISMATCH.

(* ------------------------------------------------------------------ graph cases *)
(* independent decision of "the recorded wait-for relation has a cycle": n-fold relational closure *)
Definition rsucc (rec : list (N * list N)) (x : N) : list N := match aget rec x with Some l => l | None => [] end.
Definition rnodes (rec : list (N * list N)) : list N :=
  fold_left (fun acc kl => fold_left (fun a y => set_add y a) (snd kl) (set_add (fst kl) acc)) rec [].
Fixpoint reach_n (rec : list (N * list N)) (n : nat) (front : list N) : list N :=
  match n with
  | O => front
  | Datatypes.S m => reach_n rec m (fold_left (fun a x => fold_left (fun a y => set_add y a) (rsucc rec x) a) front front)
  end.
Definition cyclicb (rec : list (N * list N)) : bool :=
  let ns := rnodes rec in
  existsb (fun x => mem x (reach_n rec (length ns) (rsucc rec x))) ns.

Fixpoint is_pathb (rec : list (N * list N)) (p : list N) : bool :=
  match p with
  | x :: ((y :: _) as p') => mem y (rsucc rec x) && is_pathb rec p'
  | _ => true
  end.
Definition is_cycleb (rec : list (N * list N)) (c : list N) : bool :=
  negb (is_nil c) && is_pathb rec c && mem (hd 0 c) (rsucc rec (last c 0)).

Definition info := (list N * N)%type.
Definition info_eqb (a b : info) : bool := lN_eqb (fst a) (fst b) && N.eqb (snd a) (snd b).

Record graph_in := GIn {
  g_edges : list (N * N * option N);     (* add_wait(w, h, priority) calls, in order, each at time 1000 + index *)
  g_maxe : N;
  g_cfg : dcfg;
  g_locks : option (list (N * N));       (* lock-count function for MostLocks, if set *)
  g_queries : list (N * N)               (* would_create_cycle(w, h) *)
}.
Record graph_out := GOut {
  o_rec : list (N * list N);             (* waiting_for(x) for every x mentioned, sorted *)
  o_ws : list (N * N);                   (* get_wait_start *)
  o_pr : list (N * N);                   (* get_priority *)
  o_cycles : list (list N);              (* graph().detect_cycles() *)
  o_infos : list info;                   (* detect(): (cycle, victim) *)
  o_would : list bool;
  o_rec_after : list (N * list N)        (* waiting_for(x) again, after the detection round (run any time later) *)
}.
Definition graph_case := (graph_in * graph_out)%type.

Fixpoint build (maxe : N) (t : N) (g : wg) (es : list (N * N * option N)) : wg :=
  match es with
  | [] => g
  | (w, h, p) :: r => build maxe (t + 1) (add_wait maxe t g w h p) r
  end.

Definition graph_oracle (i : graph_in) (o : graph_out) : bool :=
  let rec := o_rec o in
  (* the detection round only observes: the recorded relations are the same afterwards, however old they are *)
  list_eqb (fun a b => N.eqb (fst a) (fst b) && lN_eqb (snd a) (snd b)) rec (o_rec_after o)
  (* every reported cycle is a cycle of the recorded relation *)
  && forallb (is_cycleb rec) (o_cycles o)
  (* a cycle is reported exactly when there is one *)
  && Bool.eqb (negb (is_nil (o_cycles o))) (cyclicb rec)
  (* every deadlock names a detected cycle and a victim inside it *)
  && forallb (fun cv => mem (snd cv) (fst cv) && existsb (lN_eqb (fst cv)) (o_cycles o)) (o_infos o)
  (* the detector reports something exactly when a detected cycle is within max_cycle_length *)
  && (if enabled (g_cfg i)
      then Bool.eqb (negb (is_nil (o_infos o))) (existsb (short_enough (max_cycle (g_cfg i))) (o_cycles o))
      else true).

Definition same_set (a b : list N) : bool := lN_eqb (sortN a) (sortN b).

Definition graph_model_ok (i : graph_in) (o : graph_out) : bool :=
  let g := build (g_maxe i) 1000 wg_empty (g_edges i) in
  let ns := rnodes (o_rec o) in
  (* recorded relation, wait starts, priorities *)
  forallb (fun x => same_set (succs g x) (rsucc (o_rec o) x)) (set_add 0 (wg_nodes g ++ ns))
  && forallb (fun x => oN_eqb (aget (started g) x) (aget (o_ws o) x) && oN_eqb (aget (prio g) x) (aget (o_pr o) x)) (wg_nodes g ++ ns)
  (* cycle report: the model's DFS (its own iteration order) agrees on whether there is a cycle *)
  && match detect_cycles g with
     | Some cs => Bool.eqb (is_nil cs) (is_nil (o_cycles o))
     | None => false
     end
  (* the detector, run by the model on the implementation's cycle list, gives the same deadlocks *)
  && list_eqb info_eqb
       (detect (g_cfg i) (select_victim (policy (g_cfg i)) (started g) (prio g) (g_locks i)) (o_cycles o))
       (o_infos o)
  && list_eqb Bool.eqb (map (fun q => would_create_cycle g (fst q) (snd q)) (g_queries i)) (o_would o).

Definition check_graph (c : graph_case) : N :=
  let '(i, o) := c in
  if negb (graph_oracle i o) then V_VIOLATION
  else if graph_model_ok i o then V_OK else V_MISMATCH.
