(* C13/Inst.v -- per-run obligations over coq/gen/Gen_C13.v (regenerated from tx_wal.rs /
   distributed_tx.rs on every run): the configuration read from the source is the one the
   theorems are instantiated with. *)
From NV.Common Require Import Base WalFormat.
From NV.C13 Require Import Model Proofs.
From NV.gen Require Import Gen_C13.
Open Scope N_scope.

Lemma gen_cfg_fixed :
  gen_tx_tail_repair = true /\ gen_vote_scan_live = true /\ gen_vote_first_wins = true
  /\ gen_complete_before_release = true.
Proof. repeat split; reflexivity. Qed.

(* the timeout sweeper logs the abort it decides (the model's Timeouts step = abort of every
   timed-out transaction), and the scan treats EVERY phase record / completion record the way the
   model's scan_step does (no record is skipped because of its source phase, its outcome or the
   phase scanned so far) *)
Lemma gen_decisions_logged_and_scanned :
  gen_timeout_abort_logged = true /\ gen_scan_phase_plain = true /\ gen_scan_complete_plain = true
  /\ gen_committing_kept = true    (* abort() refuses, the sweep skips a Committing transaction *)
  /\ gen_recovery_drops_completed = true.   (* recover_from_wal: completed ones leave, the others stay *)
Proof. repeat split; reflexivity. Qed.

(* commit / abort write TxComplete BEFORE any LockRelease record (read off the model's step, whose
   order the translator item `TxComplete before lock release` ties to the source) *)
Lemma complete_logged_before_release : forall now c tx order c' w out,
  step now c (Commit tx order) = (c', w, out) -> out = [0] ->
  exists rest, w = TPhase tx PREPARED COMMITTING :: TComplete tx true :: rest
               /\ forall e, In e rest -> match e with TLockRelease _ _ | TAllReleased _ => True | _ => False end.
Proof.
  intros now c tx order c' w out H Ho. cbn [step] in H.
  destruct (aget (pending c) tx) as [t|]; [|inversion H; subst; discriminate].
  destruct (negb (phase t =? PREPARED)); [inversion H; subst; discriminate|].
  destruct (negb (same_set order (yes_handles t))); [inversion H; subst; discriminate|].
  inversion H; subst. eexists. split; [reflexivity|].
  intros e He. apply in_app_or in He as [He|[<-|[]]]; [|exact I].
  apply in_map_iff in He as (h & <- & _). exact I.
Qed.

(* the tail repair done by open must follow EVERY record length the writer can produce (the writer
   and replay have no bound below u32::MAX): the model's [repair] / [scan_end] has no bound, and the
   theorems are about that model.  A length cap in complete_prefix_len would cut a valid large record
   -- and everything after it -- off the log on the next open. *)
Lemma scan_follows_every_length : gen_tx_scan_cap = None.
Proof. reflexivity. Qed.
