(* C13/Model.v -- executable model of the 2PC coordinator's write-ahead log and restart:
     tensor_chain/src/tx_wal.rs          TxWalEntry, TxWal::open (tail repair) / append / replay
                                         (Common/WalFormat), TxRecoveryState::from_entries
                                         (scan_entries, classify_in_progress, detect_orphaned_locks,
                                         detect_pending_aborts)
     tensor_chain/src/distributed_tx.rs  begin, record_vote, commit, abort, complete_commit,
                                         complete_abort, cleanup_timeouts, recover_from_wal (restore_tx)
   Definitions only.  Transaction ids, shard ids and lock handles are small numbers (the harness
   maps the real 64-bit ids); time is an explicit `now` (epoch ms). *)
From NV.Common Require Import Base WalFormat.
Open Scope N_scope.

(* TxPhase *)
Definition PREPARING : N := 0.
Definition PREPARED : N := 1.
Definition COMMITTING : N := 2.
Definition COMMITTED : N := 3.
Definition ABORTING : N := 4.
Definition ABORTED : N := 5.

Inductive vote := VYes (h : N) | VNo.
Definition vote_eqb (a b : vote) : bool :=
  match a, b with VYes h, VYes h' => N.eqb h h' | VNo, VNo => true | _, _ => false end.
Definition is_yes (v : vote) : bool := match v with VYes _ => true | VNo => false end.

Inductive tentry :=
| TBegin (tx : N) (parts : list N)
| TVote (tx shard : N) (v : vote)
| TPhase (tx from to : N)
| TComplete (tx : N) (committed : bool)
| TLockRelease (tx h : N)
| TAllReleased (tx : N)
| TAbortIntent (tx reason : N) (shards : list N).

Definition tentry_eqb (a b : tentry) : bool :=
  match a, b with
  | TBegin t p, TBegin t' p' => N.eqb t t' && list_eqb N.eqb p p'
  | TVote t s v, TVote t' s' v' => N.eqb t t' && N.eqb s s' && vote_eqb v v'
  | TPhase t f o, TPhase t' f' o' => N.eqb t t' && N.eqb f f' && N.eqb o o'
  | TComplete t c, TComplete t' c' => N.eqb t t' && Bool.eqb c c'
  | TLockRelease t h, TLockRelease t' h' => N.eqb t t' && N.eqb h h'
  | TAllReleased t, TAllReleased t' => N.eqb t t'
  | TAbortIntent t r s, TAbortIntent t' r' s' => N.eqb t t' && N.eqb r r' && list_eqb N.eqb s s'
  | _, _ => false
  end.

(* ---------------------------------------------------------------- coordinator state *)
Record txrec := Tx {
  parts : list N;
  phase : N;
  votes : list (N * vote);      (* HashMap<shard, vote>: aset = insert (replace) *)
  started : N;
  timeout : N }.

Record coord := Co {
  pending : list (N * txrec);   (* HashMap<tx, DistributedTransaction> *)
  locks : list (N * N);         (* (lock handle, owning transaction) currently held in the lock manager *)
  cfg_prepare_timeout : N }.
Definition co0 : coord := Co [] [] 5000.

Definition all_voted (t : txrec) : bool :=
  forallb (fun s => match aget (votes t) s with Some _ => true | None => false end) (parts t).
Definition all_yes (t : txrec) : bool := forallb (fun sv => is_yes (snd sv)) (votes t).
Definition yes_handles (t : txrec) : list N :=
  flat_map (fun sv => match snd sv with VYes h => [h] | VNo => [] end) (votes t).
(* release_by_handle for each handle *)
Definition release (ls : list (N * N)) (hs : list N) : list (N * N) :=
  filter (fun l => negb (existsb (N.eqb (fst l)) hs)) ls.
(* ... followed by LockManager::release(tx): everything the transaction still holds *)
Definition release_tx (ls : list (N * N)) (hs : list N) (tx : N) : list (N * N) :=
  filter (fun l => negb (N.eqb (snd l) tx)) (release ls hs).

Inductive step_in :=
| Begin (tx : N) (ps : list N)              (* tx = the id the real call generated (mapped) *)
| Lock (h tx : N)                           (* try_lock(tx, [key_h]) in the coordinator's lock manager -> handle h *)
| Vote (tx shard : N) (v : vote)
| Commit (tx : N) (order : list N)          (* order = lock handles in the (HashMap) order they were released *)
| Abort (tx : N)
| CompleteCommit (tx : N)
| CompleteAbort (tx : N)
| Timeouts (now : N) (order : list N).      (* clock set to now, then cleanup_timeouts(); order = the
                                               timed-out ids in the (HashMap) order they were swept *)

(* reply codes: [0] = Ok(()), [1; c] = Err of kind c, votes: [2; code] where code 0 = Ok(None),
   1 = Ok(Some Prepared), 4 = Ok(Some Aborting); timeouts: 3 :: sorted ids *)
Definition step_out := list N.

Fixpoint insert_sorted (x : N) (l : list N) : list N :=
  match l with [] => [x] | y :: r => if x <=? y then x :: l else y :: insert_sorted x r end.
Definition sort_N (l : list N) : list N := fold_right insert_sorted [] l.

Definition same_set (a b : list N) : bool :=
  forallb (fun x => existsb (N.eqb x) b) a && forallb (fun x => existsb (N.eqb x) a) b
  && Nat.eqb (length a) (length b).

(* abort(tx) of a pending transaction: it leaves the table, its locks are released, the abort is
   logged (phase change from whatever phase the coordinator held IN MEMORY, then the completion) *)
Definition abort1 (c : coord) (tx : N) : coord * list tentry :=
  match aget (pending c) tx with
  | None => (c, [])
  | Some t =>
      (* Committing = the decision is COMMIT (taken by commit() or found in the log by recovery):
         it can no longer be turned into an abort; nothing is written *)
      if phase t =? COMMITTING then (c, [])
      else
      (Co (adel (pending c) tx) (release_tx (locks c) (yes_handles t) tx) (cfg_prepare_timeout c),
       [TPhase tx (phase t) ABORTING; TComplete tx false])
  end.
(* the timeout sweeper treats every timed-out transaction exactly like abort(tx), one after the other *)
Fixpoint abort_all (c : coord) (order : list N) : coord * list tentry :=
  match order with
  | [] => (c, [])
  | tx :: r => let '(c1, w1) := abort1 c tx in let '(c2, w2) := abort_all c1 r in (c2, w1 ++ w2)
  end.

(* one call: (state, records appended in order, reply); [now] = the clock at the call *)
Definition step (now : N) (c : coord) (s : step_in) : coord * list tentry * step_out :=
  match s with
  | Begin tx ps =>
      (Co (aset (pending c) tx (Tx ps PREPARING [] now (cfg_prepare_timeout c))) (locks c) (cfg_prepare_timeout c),
       [TBegin tx ps], [0])
  | Lock h tx => (Co (pending c) ((h, tx) :: locks c) (cfg_prepare_timeout c), [], [0])
  | Vote tx shard v =>
      (* the vote is logged BEFORE the transaction is even looked up *)
      let w := [TVote tx shard v] in
      match aget (pending c) tx with
      | None => (c, w, [1; 1])                                   (* TxNotFound *)
      | Some t =>
          if negb (phase t =? PREPARING) then (c, w, [1; 2])     (* WrongPhase *)
          else match aget (votes t) shard with
               | Some _ => (c, w, [1; 3])                        (* DuplicateVote *)
               | None =>
                   let t1 := Tx (parts t) (phase t) (aset (votes t) shard v) (started t) (timeout t) in
                   if all_voted t1 then
                     if all_yes t1 then
                       (Co (aset (pending c) tx (Tx (parts t1) PREPARED (votes t1) (started t1) (timeout t1)))
                           (locks c) (cfg_prepare_timeout c),
                        w ++ [TPhase tx PREPARING PREPARED], [2; 1])
                     else
                       (Co (aset (pending c) tx (Tx (parts t1) ABORTING (votes t1) (started t1) (timeout t1)))
                           (locks c) (cfg_prepare_timeout c), w, [2; 4])
                   else (Co (aset (pending c) tx t1) (locks c) (cfg_prepare_timeout c), w, [2; 0])
               end
      end
  | Commit tx order =>
      match aget (pending c) tx with
      | None => (c, [], [1; 1])
      | Some t =>
          if negb (phase t =? PREPARED) then (c, [], [1; 2])
          else if negb (same_set order (yes_handles t)) then (c, [], [9])   (* malformed case *)
          else
            (Co (adel (pending c) tx) (release_tx (locks c) (yes_handles t) tx) (cfg_prepare_timeout c),
             [TPhase tx PREPARED COMMITTING; TComplete tx true]
               ++ map (fun h => TLockRelease tx h) order ++ [TAllReleased tx], [0])
      end
  | Abort tx =>
      match aget (pending c) tx with
      | None => (c, [], [1; 1])
      | Some t =>
          if phase t =? COMMITTING then (c, [], [1; 2])      (* refused: already committing *)
          else
          (Co (adel (pending c) tx) (release_tx (locks c) (yes_handles t) tx) (cfg_prepare_timeout c),
           [TPhase tx (phase t) ABORTING; TComplete tx false], [0])
      end
  | CompleteCommit tx =>
      match aget (pending c) tx with
      | None => (c, [], [1; 1])
      | Some t =>
          if negb (phase t =? COMMITTING) then (c, [], [1; 2])
          else (Co (adel (pending c) tx) (release (locks c) (yes_handles t)) (cfg_prepare_timeout c), [], [0])
      end
  | CompleteAbort tx =>
      match aget (pending c) tx with
      | None => (c, [], [1; 1])
      | Some t =>
          if negb (phase t =? ABORTING) then (c, [], [1; 2])
          else (Co (adel (pending c) tx) (release (locks c) (yes_handles t)) (cfg_prepare_timeout c), [], [0])
      end
  | Timeouts _ order =>
      (* a timeout is an abort decision (it is broadcast and the locks are released): it is logged
         like abort(tx) before it takes effect *)
      (* ... except for Committing transactions, which are left to complete_commit *)
      let out := filter (fun p => (timeout (snd p) <? now - started (snd p)) && negb (phase (snd p) =? COMMITTING)) (pending c) in
      if negb (same_set order (map fst out)) then (c, [], [9])              (* malformed case *)
      else let '(c', w) := abort_all c order in (c', w, 3 :: sort_N (map fst out))
  end.
Definition clock_of (now : N) (s : step_in) : N :=
  match s with Timeouts t _ => t | _ => now end.

(* ---------------------------------------------------------------- TxRecoveryState::from_entries *)
Record scan := Sc {
  in_prog : list (N * (list N * list (N * vote) * N));    (* tx -> (participants, votes pushed in order, phase) *)
  done_handles : list (N * list N);                       (* completed_lock_handles *)
  released : list (N * N);                                (* (tx, handle) from LockRelease *)
  fully : list N;                                         (* AllLocksReleased *)
  intents : list (N * (N * list N));                      (* AbortIntent *)
  completed : list N }.
Definition sc0 : scan := Sc [] [] [] [] [] [].

(* [live_rule]: a logged vote is recovered only if the live coordinator accepted it, i.e. the
   transaction was still collecting votes and the shard had not voted yet (true after the fix;
   votes are logged BEFORE they are validated, so rejected ones are in the log) *)
Definition scan_step (live_rule : bool) (s : scan) (e : tentry) : scan :=
  match e with
  | TBegin tx ps =>
      Sc (aset (in_prog s) tx (ps, [], PREPARING)) (done_handles s) (released s) (fully s) (intents s) (completed s)
  | TVote tx sh v =>
      match aget (in_prog s) tx with
      | Some (ps, vs, ph) =>
          if live_rule && negb ((ph =? PREPARING) && negb (existsb (fun sv => N.eqb (fst sv) sh) vs)) then s
          else
          Sc (aset (in_prog s) tx (ps, vs ++ [(sh, v)], ph)) (done_handles s) (released s) (fully s) (intents s) (completed s)
      | None => s
      end
  | TPhase tx _ to =>
      match aget (in_prog s) tx with
      | Some (ps, vs, _) =>
          Sc (aset (in_prog s) tx (ps, vs, to)) (done_handles s) (released s) (fully s) (intents s) (completed s)
      | None => s
      end
  | TComplete tx _ =>
      let dh := match aget (in_prog s) tx with
                | Some (_, vs, _) =>
                    let hs := flat_map (fun sv => match snd sv with VYes h => [h] | VNo => [] end) vs in
                    match hs with [] => done_handles s | _ => aset (done_handles s) tx hs end
                | None => done_handles s
                end in
      Sc (adel (in_prog s) tx) dh (released s) (fully s) (intents s)
         (if existsb (N.eqb tx) (completed s) then completed s else tx :: completed s)
  | TLockRelease tx h =>
      Sc (in_prog s) (done_handles s) ((tx, h) :: released s) (fully s) (intents s) (completed s)
  | TAllReleased tx =>
      Sc (in_prog s) (done_handles s) (released s) (tx :: fully s) (intents s) (completed s)
  | TAbortIntent tx r shs =>
      Sc (in_prog s) (done_handles s) (released s) (fully s) (aset (intents s) tx (r, shs)) (completed s)
  end.

(* orphaned locks: handles of completed transactions never released *)
Definition orphans (s : scan) : list (N * N) :=
  flat_map (fun th =>
    let '(tx, hs) := th in
    if existsb (N.eqb tx) (fully s) then []
    else flat_map (fun h =>
           if existsb (fun r => N.eqb (fst r) tx && N.eqb (snd r) h) (released s) then [] else [(tx, h)]) hs)
    (done_handles s).

(* restore_tx: votes inserted into a map in log order; [first_wins] = the first logged vote of a
   shard is kept (the one the live coordinator accepted; true after the fix), else the last *)
Definition restore_votes (first_wins : bool) (vs : list (N * vote)) : list (N * vote) :=
  fold_left (fun m sv =>
    if first_wins then (match aget m (fst sv) with Some _ => m | None => aset m (fst sv) (snd sv) end)
    else aset m (fst sv) (snd sv)) vs [].

(* a transaction whose completion is in the log is finished, whatever the state the coordinator was
   constructed with says: it leaves the pending table and nothing it owns stays locked *)
Definition is_done (s : scan) (tx : N) : bool := existsb (N.eqb tx) (completed s).
Definition drop_done (s : scan) (p : list (N * txrec)) : list (N * txrec) :=
  filter (fun x => negb (is_done s (fst x))) p.
Definition release_done (s : scan) (ls : list (N * N)) : list (N * N) :=
  filter (fun l => negb (is_done s (snd l))) ls.

(* recover_from_wal on a fresh coordinator: restored transactions + statistics
   (pending_prepare, pending_commit, pending_abort, lock_releases_recovered) *)
Definition recover_entries (live_rule first_wins : bool) (now : N) (es : list tentry) : coord * list N :=
  let s := fold_left (scan_step live_rule) es sc0 in
  let restored :=
    flat_map (fun p =>
      let '(tx, (ps, vs, ph)) := p in
      if (ph =? PREPARED) || (ph =? COMMITTING) || (ph =? ABORTING)
      then [(tx, Tx ps ph (restore_votes first_wins vs) now 5000)] else []) (in_prog s) in
  let cnt ph := N.of_nat (length (filter (fun p => phase (snd p) =? ph) restored)) in
  (Co restored [] 5000, [cnt PREPARED; cnt COMMITTING; cnt ABORTING; N.of_nat (length (orphans s))]).

(* ---------------------------------------------------------------- durable coordinator *)
Section Durable.
Variable ser : tentry -> list byte.
Variable deser : list byte -> option tentry.
Variable crc : list byte -> N.
Variable tail_repair : bool.
Variable live_rule : bool.
Variable first_wins : bool.

Record dcoord := DC { co : coord; file : list byte; clock : N }.
Definition dc0 (now : N) : dcoord := DC co0 [] now.

Definition dstep (d : dcoord) (s : step_in) : dcoord * step_out :=
  let now := clock_of (clock d) s in
  let '(c', w, out) := step now (co d) s in
  (DC c' (file d ++ log_bytes ser crc true w) now, out).

(* recover_from_wal() called on a LIVE coordinator (any time after start-up): the log is replayed
   again; every restorable transaction is (re-)inserted into the pending table (fresh start time,
   votes from the log), transactions still collecting votes are left as they are, transactions
   the log says are completed leave the table and lose their locks, orphaned lock handles are
   released; nothing is written.  None = the replay failed *)
Definition recover_live (d : dcoord) : option (dcoord * list N) :=
  match replay_file deser crc true (file d) with
  | ErrChecksum _ => None
  | Ok es =>
      let '(r, stats) := recover_entries live_rule first_wins (clock d) es in
      let s := fold_left (scan_step live_rule) es sc0 in
      Some (DC (Co (fold_left (fun p x => aset p (fst x) (snd x)) (pending r) (drop_done s (pending (co d))))
                   (release_done s (release (locks (co d)) (map snd (orphans s))))
                   (cfg_prepare_timeout (co d)))
               (file d) (clock d), stats)
  end.

(* a coordinator constructed from an OLDER SNAPSHOT of its state (load_from_store: pending table and
   lock table as they were when the snapshot was saved) with the log attached + recover_from_wal():
   the same call on that state *)
Definition restart_from (c0 : coord) (now : N) (f : list byte) : option (dcoord * list N) :=
  let f' := if tail_repair then repair f else f in recover_live (DC c0 f' now).

(* new coordinator .with_wal(TxWal::open(f)) + recover_from_wal(): None = recovery failed *)
Definition restart (now : N) (f : list byte) : option (dcoord * list N) :=
  let f' := if tail_repair then repair f else f in
  match replay_file deser crc true f' with
  | ErrChecksum _ => None
  | Ok es => let '(c, stats) := recover_entries live_rule first_wins now es in Some (DC c f' now, stats)
  end.
End Durable.
