(* C13/Proofs.v -- lemmas and main theorems for the 2PC coordinator restart property.
   1. association lists with unique keys (the HashMaps of scan_entries);
   2. TxRecoveryState::scan_entries: a completed transaction leaves the in-progress table and
      only a new TxBegin can bring its id back; recover_from_wal restores exactly the entries whose
      logged phase is Prepared / Committing / Aborting;
   3. a transaction that is not pending stays not pending under every coordinator call except a
      begin of the same id, and every call aimed at it fails, and the timeout sweeper never
      reports it;
   4. restart from ANY byte prefix of the log = recovery of the records completely inside it;
   5. the live link: what the live coordinator holds for a transaction (participants, phase,
      votes) is what its log says, an invariant of every call, so a Prepared / Committing
      transaction comes back with exactly the votes the live coordinator held. *)
From NV.Common Require Import Base WalFormat.
From NV.C13 Require Import Model.
Open Scope N_scope.
Arguments N.add : simpl never. Arguments N.sub : simpl never. Arguments N.mul : simpl never.
Arguments N.eqb : simpl never. Arguments N.ltb : simpl never. Arguments N.leb : simpl never.

(* ======================================================================== *)
(* ------------------------------------------------------------ association lists with unique keys *)
Definition NoDupK {V} (l : list (N * V)) : Prop := NoDup (map fst l).

Lemma aget_notin {V} (l : list (N * V)) k : ~ In k (map fst l) -> aget l k = None.
Proof.
  induction l as [|[k0 v0] l IH]; intros H; cbn; [reflexivity|].
  destruct (N.eqb_spec k0 k) as [->|Hne]; [exfalso; apply H; left; reflexivity|].
  apply IH. intros Hin. apply H. right. exact Hin.
Qed.
Lemma in_keys_aset {V} (l : list (N * V)) k v x : In x (map fst (aset l k v)) -> x = k \/ In x (map fst l).
Proof.
  induction l as [|[k0 v0] l IH]; cbn; intros H.
  - destruct H as [<-|[]]. left. reflexivity.
  - destruct (N.eqb_spec k0 k) as [->|Hne]; cbn in H.
    + destruct H as [<-|H]; [left; reflexivity|right; right; exact H].
    + destruct H as [<-|H]; [right; left; reflexivity|]. destruct (IH H); [left|right; right]; assumption.
Qed.
Lemma NoDupK_aset {V} (l : list (N * V)) k v : NoDupK l -> NoDupK (aset l k v).
Proof.
  unfold NoDupK. induction l as [|[k0 v0] l IH]; cbn; intros H.
  - constructor; [intros []|constructor].
  - inversion H as [|? ? Hn Hd]; subst. destruct (N.eqb_spec k0 k) as [->|Hne]; cbn.
    + constructor; assumption.
    + constructor; [|apply IH; exact Hd]. intros Hin. apply in_keys_aset in Hin as [->|Hin]; [congruence|contradiction].
Qed.
Lemma in_keys_adel {V} (l : list (N * V)) k x : In x (map fst (adel l k)) -> In x (map fst l).
Proof.
  induction l as [|[k0 v0] l IH]; cbn; intros H; [exact H|].
  destruct (N.eqb_spec k0 k) as [->|Hne]; cbn in H; [right; apply IH; exact H|].
  destruct H as [<-|H]; [left; reflexivity|right; apply IH; exact H].
Qed.
Lemma NoDupK_adel {V} (l : list (N * V)) k : NoDupK l -> NoDupK (adel l k).
Proof.
  unfold NoDupK. induction l as [|[k0 v0] l IH]; cbn; intros H; [constructor|].
  inversion H as [|? ? Hn Hd]; subst. destruct (N.eqb_spec k0 k) as [->|Hne]; cbn; [apply IH; exact Hd|].
  constructor; [|apply IH; exact Hd]. intros Hin. apply Hn. eapply in_keys_adel. exact Hin.
Qed.

Lemma aget_filtermap {V W} (P : V -> bool) (g : N -> V -> W) (l : list (N * V)) k : NoDupK l ->
  aget (flat_map (fun p => if P (snd p) then [(fst p, g (fst p) (snd p))] else []) l) k =
  match aget l k with Some v => if P v then Some (g k v) else None | None => None end.
Proof.
  unfold NoDupK. induction l as [|[k0 v0] l IH]; cbn [flat_map map aget fst snd]; intros H; [reflexivity|].
  inversion H as [|? ? Hn Hd]; subst. specialize (IH Hd).
  destruct (N.eqb_spec k0 k) as [->|Hne].
  - rewrite (aget_notin l k Hn) in IH. destruct (P v0); cbn [app aget].
    + rewrite N.eqb_refl. reflexivity.
    + exact IH.
  - destruct (P v0); cbn [app aget]; [|exact IH].
    destruct (N.eqb_spec k0 k); [contradiction|exact IH].
Qed.
Lemma in_keys_filtermap {V W} (f : N * V -> list (N * W)) (l : list (N * V)) x :
  (forall p q, In q (f p) -> fst q = fst p) -> In x (map fst (flat_map f l)) -> In x (map fst l).
Proof.
  intros Hf. induction l as [|p l IH]; cbn; intros H; [exact H|].
  rewrite map_app in H. apply in_app_or in H as [H|H]; [|right; apply IH; exact H].
  apply in_map_iff in H as (q & <- & Hq). left. symmetry. apply (Hf p q Hq).
Qed.

(* ======================================================================== *)
Lemma aget_none_notin {V} (l : list (N * V)) k : aget l k = None -> ~ In k (map fst l).
Proof.
  induction l as [|[k0 v0] l IH]; cbn; intros H; [intros []|].
  destruct (N.eqb_spec k0 k) as [->|Hne]; [discriminate|].
  intros [E|Hin]; [congruence|]. exact (IH H Hin).
Qed.

Definition is_begin (tx : N) (e : tentry) : bool :=
  match e with TBegin t _ => N.eqb t tx | _ => false end.

(* ------------------------------------------------------------ the scan *)
Lemma scan_nodup lr e s : NoDupK (in_prog s) -> NoDupK (in_prog (scan_step lr s e)).
Proof.
  intros H. destruct e; cbn [scan_step].
  - cbn [in_prog]. apply NoDupK_aset. exact H.
  - destruct (aget (in_prog s) tx) as [[[ps vs] ph]|]; [|exact H].
    destruct (lr && _); [exact H|]. cbn [in_prog]. apply NoDupK_aset. exact H.
  - destruct (aget (in_prog s) tx) as [[[ps vs] ph]|]; [|exact H]. cbn [in_prog]. apply NoDupK_aset. exact H.
  - cbn [in_prog]. apply NoDupK_adel. exact H.
  - exact H.
  - exact H.
  - exact H.
Qed.
Lemma scan_nodup_all lr es : forall s, NoDupK (in_prog s) -> NoDupK (in_prog (fold_left (scan_step lr) es s)).
Proof. induction es as [|e es IH]; intros s H; cbn [fold_left]; [exact H|]. apply IH, scan_nodup, H. Qed.

Lemma scan_absent1 lr e s tx : aget (in_prog s) tx = None -> is_begin tx e = false ->
  aget (in_prog (scan_step lr s e)) tx = None.
Proof.
  intros H Hb. destruct e; cbn [scan_step is_begin] in *.
  - cbn [in_prog]. rewrite aget_aset. rewrite Hb. exact H.
  - destruct (aget (in_prog s) tx0) as [[[ps vs] ph]|] eqn:E; [|exact H].
    destruct (lr && _); [exact H|]. cbn [in_prog]. rewrite aget_aset.
    destruct (N.eqb_spec tx0 tx) as [->|]; [congruence|exact H].
  - destruct (aget (in_prog s) tx0) as [[[ps vs] ph]|] eqn:E; [|exact H].
    cbn [in_prog]. rewrite aget_aset. destruct (N.eqb_spec tx0 tx) as [->|]; [congruence|exact H].
  - cbn [in_prog]. rewrite aget_adel. destruct (tx0 =? tx); [reflexivity|exact H].
  - exact H.
  - exact H.
  - exact H.
Qed.
Lemma scan_absent lr post : forall s tx, aget (in_prog s) tx = None ->
  forallb (fun e => negb (is_begin tx e)) post = true ->
  aget (in_prog (fold_left (scan_step lr) post s)) tx = None.
Proof.
  induction post as [|e post IH]; intros s tx H Hb; cbn [fold_left]; [exact H|].
  cbn [forallb] in Hb. apply andb_true_iff in Hb as [Hb1 Hb2].
  apply IH; [|exact Hb2]. apply scan_absent1; [exact H|]. destruct (is_begin tx e); [discriminate|reflexivity].
Qed.
Lemma scan_complete_removes lr s tx c0 : aget (in_prog (scan_step lr s (TComplete tx c0))) tx = None.
Proof. cbn [scan_step in_prog]. rewrite aget_adel, N.eqb_refl. reflexivity. Qed.

(* ------------------------------------------------------------ recover_entries *)
Definition restorable (ph : N) : bool := (ph =? PREPARED) || (ph =? COMMITTING) || (ph =? ABORTING).

Lemma recover_pending lr fw now es tx :
  aget (pending (fst (recover_entries lr fw now es))) tx =
  match aget (in_prog (fold_left (scan_step lr) es sc0)) tx with
  | Some (ps, vs, ph) => if restorable ph then Some (Tx ps ph (restore_votes fw vs) now 5000) else None
  | None => None
  end.
Proof.
  unfold recover_entries. cbn [fst pending].
  set (s := fold_left (scan_step lr) es sc0).
  assert (ND: NoDupK (in_prog s)) by (apply scan_nodup_all; constructor).
  pose proof (aget_filtermap (fun v : list N * list (N * vote) * N => restorable (snd v))
                (fun (_ : N) (v : list N * list (N * vote) * N) =>
                   Tx (fst (fst v)) (snd v) (restore_votes fw (snd (fst v))) now 5000)
                (in_prog s) tx ND) as H.
  match goal with |- aget ?l _ = _ => match type of H with aget ?l' _ = _ => replace l with l' end end.
  - rewrite H. destruct (aget (in_prog s) tx) as [[[ps vs] ph]|]; reflexivity.
  - apply flat_map_ext. intros [k [[ps vs] ph]]. reflexivity.
Qed.
Lemma recover_locks lr fw now es : locks (fst (recover_entries lr fw now es)) = [].
Proof. reflexivity. Qed.

(* ======================================================================== *)
Lemma in_insert_sorted x y l : In x (insert_sorted y l) -> x = y \/ In x l.
Proof.
  induction l as [|z l IH]; cbn; intros H.
  - destruct H as [<-|[]]. left. reflexivity.
  - destruct (y <=? z); cbn in H.
    + destruct H as [<-|H]; [left; reflexivity|right; exact H].
    + destruct H as [<-|H]; [right; left; reflexivity|]. destruct (IH H); [left|right; right]; assumption.
Qed.
Lemma in_sort_N x l : In x (sort_N l) -> In x l.
Proof.
  unfold sort_N. induction l as [|y l IH]; cbn; intros H; [exact H|].
  apply in_insert_sorted in H as [->|H]; [left; reflexivity|right; apply IH; exact H].
Qed.

Definition begins (tx : N) (s : step_in) : bool :=
  match s with Begin t _ => N.eqb t tx | _ => false end.
Definition targets (tx : N) (s : step_in) : bool :=
  match s with
  | Commit t _ | Abort t | CompleteCommit t | CompleteAbort t => N.eqb t tx
  | _ => false
  end.

Lemma aget_filter_none {V} (f : N * V -> bool) (l : list (N * V)) k : aget l k = None -> aget (filter f l) k = None.
Proof.
  induction l as [|[k0 v0] l IH]; cbn; intros H; [reflexivity|].
  destruct (N.eqb_spec k0 k) as [->|Hne]; [discriminate|].
  destruct (f (k0, v0)); cbn; [|apply IH; exact H].
  destruct (N.eqb_spec k0 k); [contradiction|apply IH; exact H].
Qed.

Lemma abort1_absent c tx0 tx : aget (pending c) tx = None -> aget (pending (fst (abort1 c tx0))) tx = None.
Proof.
  intros H. unfold abort1. destruct (aget (pending c) tx0) as [t0|]; cbn [fst pending]; [|exact H].
  destruct (phase t0 =? COMMITTING); cbn [fst pending]; [exact H|].
  rewrite aget_adel. destruct (tx0 =? tx); [reflexivity|exact H].
Qed.
Lemma abort_all_absent order : forall c tx, aget (pending c) tx = None ->
  aget (pending (fst (abort_all c order))) tx = None.
Proof.
  induction order as [|t r IH]; intros c tx H; cbn [abort_all]; [exact H|].
  pose proof (abort1_absent c t tx H) as H1. destruct (abort1 c t) as [c1 w1]. cbn [fst] in H1.
  pose proof (IH c1 tx H1) as H2. destruct (abort_all c1 r) as [c2 w2]. exact H2.
Qed.

(* a transaction that is not pending stays not pending, and nothing can be done to it, unless it
   is begun again *)
Lemma step_absent now c s tx : aget (pending c) tx = None -> begins tx s = false ->
  aget (pending (fst (fst (step now c s)))) tx = None
  /\ (targets tx s = true -> snd (step now c s) = [1; 1])
  /\ (forall t o, s = Timeouts t o -> ~ In tx (tl (snd (step now c s)))).
Proof.
  intros H Hb. destruct s; cbn [step begins targets] in *.
  - (* Begin *) cbn [fst snd pending]. rewrite aget_aset, Hb. repeat split; [exact H|discriminate|discriminate].
  - cbn [fst snd pending]. repeat split; [exact H|discriminate|discriminate].
  - (* Vote *)
    assert (G: forall (c' : coord) (w : list tentry) (o : step_out), aget (pending c') tx = None ->
               aget (pending (fst (fst (c', w, o)))) tx = None /\ (false = true -> snd (c', w, o) = [1; 1])
               /\ (forall t o', Vote tx0 shard v = Timeouts t o' -> ~ In tx (tl (snd (c', w, o)))))
      by (intros; repeat split; [assumption|discriminate|discriminate]).
    destruct (aget (pending c) tx0) as [t|] eqn:E; [|apply G; exact H].
    destruct (negb (phase t =? PREPARING)); [apply G; exact H|].
    destruct (aget (votes t) shard); [apply G; exact H|].
    assert (K: forall t', aget (aset (pending c) tx0 t') tx = None).
    { intros t'. rewrite aget_aset. destruct (N.eqb_spec tx0 tx) as [->|]; [congruence|exact H]. }
    repeat match goal with |- context [if ?b then _ else _] => destruct b end; apply G; cbn [pending]; apply K.
  - (* Commit *)
    destruct (N.eqb_spec tx0 tx) as [->|Hne].
    + rewrite H. cbn [fst snd]. repeat split; [exact H|discriminate].
    + assert (K: aget (adel (pending c) tx0) tx = None) by (rewrite aget_adel; destruct (tx0 =? tx); [reflexivity|exact H]).
      destruct (aget (pending c) tx0) as [t|];
      repeat match goal with |- context [if ?b then _ else _] => destruct b end; cbn [fst snd pending];
        repeat split; try exact H; try exact K; try discriminate.
  - (* Abort *)
    destruct (N.eqb_spec tx0 tx) as [->|Hne].
    + rewrite H. cbn [fst snd]. repeat split; [exact H|discriminate].
    + assert (K: aget (adel (pending c) tx0) tx = None) by (rewrite aget_adel; destruct (tx0 =? tx); [reflexivity|exact H]).
      destruct (aget (pending c) tx0) as [t|];
      repeat match goal with |- context [if ?b then _ else _] => destruct b end; cbn [fst snd pending];
        repeat split; try exact H; try exact K; try discriminate.
  - destruct (N.eqb_spec tx0 tx) as [->|Hne].
    + rewrite H. cbn [fst snd]. repeat split; [exact H|discriminate].
    + assert (K: aget (adel (pending c) tx0) tx = None) by (rewrite aget_adel; destruct (tx0 =? tx); [reflexivity|exact H]).
      destruct (aget (pending c) tx0) as [t|];
      repeat match goal with |- context [if ?b then _ else _] => destruct b end; cbn [fst snd pending];
        repeat split; try exact H; try exact K; try discriminate.
  - destruct (N.eqb_spec tx0 tx) as [->|Hne].
    + rewrite H. cbn [fst snd]. repeat split; [exact H|discriminate].
    + assert (K: aget (adel (pending c) tx0) tx = None) by (rewrite aget_adel; destruct (tx0 =? tx); [reflexivity|exact H]).
      destruct (aget (pending c) tx0) as [t|];
      repeat match goal with |- context [if ?b then _ else _] => destruct b end; cbn [fst snd pending];
        repeat split; try exact H; try exact K; try discriminate.
  - (* Timeouts *)
    match goal with |- context [if ?b then _ else _] => destruct b end.
    { cbn [fst snd tl]. repeat split; [exact H|discriminate|]. intros t o _ []. }
    pose proof (abort_all_absent order c tx H) as HA. destruct (abort_all c order) as [c2 w2].
    cbn [fst snd pending tl] in *. repeat split; [exact HA|discriminate|].
    intros t o _ Hin. apply in_sort_N in Hin. apply in_map_iff in Hin as ([k v] & Ek & Hin). cbn in Ek. subst k.
    apply filter_In in Hin as [Hin _]. apply (aget_none_notin _ _ H). apply in_map_iff. exists (tx, v). split; [reflexivity|exact Hin].
Qed.

(* all the replies of a continuation *)
Fixpoint replies (now : N) (c : coord) (ss : list step_in) : list (step_in * step_out) :=
  match ss with
  | [] => []
  | s :: r => let now' := clock_of now s in
              let '(c', _, out) := step now' c s in (s, out) :: replies now' c' r
  end.

Lemma absent_forever : forall ss now c tx, aget (pending c) tx = None ->
  forallb (fun s => negb (begins tx s)) ss = true ->
  forall s out, In (s, out) (replies now c ss) ->
    (targets tx s = true -> out = [1; 1]) /\ (forall t o, s = Timeouts t o -> ~ In tx (tl out)).
Proof.
  induction ss as [|s0 ss IH]; intros now c tx H Hb s out Hin; cbn [replies] in Hin; [contradiction|].
  cbn [forallb] in Hb. apply andb_true_iff in Hb as [Hb1 Hb2].
  assert (Hb1': begins tx s0 = false) by (destruct (begins tx s0); [discriminate|reflexivity]).
  destruct (step_absent (clock_of now s0) c s0 tx H Hb1') as (A1 & A2 & A3).
  destruct (step (clock_of now s0) c s0) as [[c' w] o] eqn:E. cbn [fst snd] in *.
  destruct Hin as [Heq|Hin].
  - inversion Heq; subst. split; [exact A2|exact A3].
  - apply (IH _ _ _ A1 Hb2 _ _ Hin).
Qed.

(* ======================================================================== *)
(* ---- the timeout sweeper logs every abort it decides ---- *)
Lemma aget_in_some {V} (l : list (N * V)) k : In k (map fst l) -> aget l k <> None.
Proof. intros Hin E. exact (aget_none_notin l k E Hin). Qed.

(* [abortable c tx]: pending and not Committing *)
Definition abortable (c : coord) (tx : N) : Prop :=
  exists t, aget (pending c) tx = Some t /\ phase t <> COMMITTING.
Lemma abort1_logs c tx : abortable c tx -> In (TComplete tx false) (snd (abort1 c tx)).
Proof.
  intros (t & E & Hp). unfold abort1. rewrite E.
  destruct (N.eqb_spec (phase t) COMMITTING); [contradiction|].
  cbn [snd]. right. left. reflexivity.
Qed.
Lemma abort1_removes c tx : abortable c tx -> aget (pending (fst (abort1 c tx))) tx = None.
Proof.
  intros (t & E & Hp). unfold abort1. rewrite E.
  destruct (N.eqb_spec (phase t) COMMITTING); [contradiction|]. cbn [fst pending].
  rewrite aget_adel, N.eqb_refl. reflexivity.
Qed.
Lemma abort1_other c t tx : t <> tx -> aget (pending (fst (abort1 c t))) tx = aget (pending c) tx.
Proof.
  intros Hne. unfold abort1. destruct (aget (pending c) t) as [t0|]; cbn [fst pending]; [|reflexivity].
  destruct (phase t0 =? COMMITTING); cbn [fst pending]; [reflexivity|].
  rewrite aget_adel. destruct (N.eqb_spec t tx); [contradiction|reflexivity].
Qed.
Lemma abort_all_other order : forall c tx, ~ In tx order ->
  aget (pending (fst (abort_all c order))) tx = aget (pending c) tx.
Proof.
  induction order as [|t r IH]; intros c tx Hn; cbn [abort_all]; [reflexivity|].
  assert (Hne: t <> tx) by (intros ->; apply Hn; left; reflexivity).
  pose proof (abort1_other c t tx Hne) as O1. destruct (abort1 c t) as [c1 w1]. cbn [fst] in O1.
  assert (Hn': ~ In tx r) by (intros Hr; apply Hn; right; exact Hr).
  pose proof (IH c1 tx Hn') as O2. destruct (abort_all c1 r) as [c2 w2]. cbn [fst] in *. congruence.
Qed.
Lemma abort_all_logs order : forall c tx, In tx order -> abortable c tx ->
  In (TComplete tx false) (snd (abort_all c order)) /\ aget (pending (fst (abort_all c order))) tx = None.
Proof.
  induction order as [|t r IH]; intros c tx Hin Hp; [destruct Hin|]. cbn [abort_all].
  destruct (N.eq_dec t tx) as [->|Hne].
  - pose proof (abort1_logs c tx Hp) as L1. pose proof (abort1_removes c tx Hp) as R1.
    destruct (abort1 c tx) as [c1 w1]. cbn [fst snd] in *.
    pose proof (abort_all_absent r c1 tx R1) as R2. destruct (abort_all c1 r) as [c2 w2]. cbn [fst snd] in *.
    split; [apply in_or_app; left; exact L1|exact R2].
  - destruct Hin as [E|Hin]; [contradiction|].
    pose proof (abort1_other c t tx Hne) as O1. destruct (abort1 c t) as [c1 w1]. cbn [fst] in O1.
    assert (Hp1: abortable c1 tx) by (unfold abortable; rewrite O1; exact Hp).
    destruct (IH c1 tx Hin Hp1) as [L2 R2]. destruct (abort_all c1 r) as [c2 w2]. cbn [fst snd] in *.
    split; [apply in_or_app; right; exact L2|exact R2].
Qed.
Lemma abort_all_no_begin order : forall c e, In e (snd (abort_all c order)) -> forall tx, is_begin tx e = false.
Proof.
  induction order as [|t r IH]; intros c e Hin tx; cbn [abort_all] in Hin; [destruct Hin|].
  assert (A1: forall e', In e' (snd (abort1 c t)) -> is_begin tx e' = false).
  { unfold abort1. destruct (aget (pending c) t) as [t0|]; cbn [snd]; intros e' He'; [|destruct He'].
    destruct (phase t0 =? COMMITTING); cbn [snd] in He'; [destruct He'|].
    destruct He' as [<-|[<-|[]]]; reflexivity. }
  destruct (abort1 c t) as [c1 w1]. cbn [snd] in A1. specialize (IH c1).
  destruct (abort_all c1 r) as [c2 w2]. cbn [snd] in *.
  apply in_app_or in Hin as [Hin|Hin]; [apply A1; exact Hin|apply (IH e Hin)].
Qed.

(* every id the sweep reports has left the pending table and its abort is in the records the call
   wrote: phase change to Aborting, then TxComplete{Aborted} *)
Lemma aget_of_in {V} (l : list (N * V)) k v : NoDupK l -> In (k, v) l -> aget l k = Some v.
Proof.
  unfold NoDupK. induction l as [|[k0 v0] l IH]; cbn; intros ND Hin; [destruct Hin|].
  inversion ND as [|? ? Hn Hd]; subst. destruct Hin as [E|Hin].
  - inversion E; subst. rewrite N.eqb_refl. reflexivity.
  - destruct (N.eqb_spec k0 k) as [->|Hne]; [|apply IH; assumption].
    exfalso. apply Hn. apply in_map_iff. exists (k, v). split; [reflexivity|exact Hin].
Qed.
Theorem timed_out_is_logged now c t order c' w out tx : NoDupK (pending c) ->
  step now c (Timeouts t order) = (c', w, out) -> In tx (tl out) ->
  In (TComplete tx false) w /\ aget (pending c') tx = None /\ (forall e, In e w -> forall x, is_begin x e = false).
Proof.
  cbn [step]. intros ND H Hin.
  match type of H with context [if negb ?b then _ else _] => destruct b eqn:Ess end; cbn [negb] in H.
  2:{ inversion H; subst. destruct Hin. }
  assert (Hord: In tx order /\ abortable c tx).
  { assert (Ho: out = 3 :: sort_N (map fst (filter (fun p => (timeout (snd p) <? now - started (snd p)) && negb (phase (snd p) =? COMMITTING)) (pending c))))
      by (destruct (abort_all c order); inversion H; reflexivity).
    rewrite Ho in Hin. cbn [tl] in Hin. apply in_sort_N in Hin.
    split.
    - unfold same_set in Ess. apply andb_true_iff in Ess as [Ess _]. apply andb_true_iff in Ess as [_ Ess].
      rewrite forallb_forall in Ess. specialize (Ess tx Hin). apply existsb_exists in Ess as (y & Hy & E).
      apply N.eqb_eq in E. subst y. exact Hy.
    - apply in_map_iff in Hin as ([k v] & Ek & Hf). cbn in Ek. subst k.
      apply filter_In in Hf as [Hf Hc]. cbn [snd] in Hc. apply andb_true_iff in Hc as [_ Hc].
      exists v. split; [apply (aget_of_in _ _ _ ND Hf)|].
      intros Hph. rewrite Hph in Hc. discriminate. }
  destruct Hord as [Hio Hp].
  destruct (abort_all_logs order c tx Hio Hp) as [L R].
  pose proof (abort_all_no_begin order c) as NB.
  destruct (abort_all c order) as [c2 w2]. cbn [fst snd] in *. inversion H; subst.
  split; [exact L|]. split; [exact R|]. intros e He x. apply (NB e He x).
Qed.

(* a Committing transaction is left alone by abort() and by the timeout sweeper *)
Theorem committing_is_never_aborted : forall now c tx t, NoDupK (pending c) ->
  aget (pending c) tx = Some t -> phase t = COMMITTING ->
  step now c (Abort tx) = (c, [], [1; 2]) /\
  forall t' order c' w out, step now c (Timeouts t' order) = (c', w, out) -> out <> [9] ->
    aget (pending c') tx = Some t /\ ~ In tx (tl out).
Proof.
  intros now c tx t ND E Hph. split.
  - cbn [step]. rewrite E, Hph. reflexivity.
  - intros t' order c' w out H Hout. cbn [step] in H.
    match type of H with context [if negb ?b then _ else _] => destruct b eqn:Ess end; cbn [negb] in H.
    2:{ inversion H; subst. contradiction. }
    set (outl := filter (fun p => (timeout (snd p) <? now - started (snd p)) && negb (phase (snd p) =? COMMITTING)) (pending c)) in *.
    assert (Hno: ~ In tx (map fst outl)).
    { intros Hin. apply in_map_iff in Hin as ([k v] & Ek & Hf). cbn in Ek. subst k.
      apply filter_In in Hf as [Hf Hc]. cbn [snd] in Hc. apply andb_true_iff in Hc as [_ Hc].
      rewrite (aget_of_in _ _ _ ND Hf) in E. inversion E; subst v. rewrite Hph in Hc. discriminate. }
    assert (Hord: ~ In tx order).
    { intros Hin. apply Hno. unfold same_set in Ess. apply andb_true_iff in Ess as [Ess _].
      apply andb_true_iff in Ess as [Ess _]. rewrite forallb_forall in Ess. specialize (Ess tx Hin).
      apply existsb_exists in Ess as (y & Hy & Ey). apply N.eqb_eq in Ey. subst y. exact Hy. }
    pose proof (abort_all_other order c tx Hord) as Ho.
    destruct (abort_all c order) as [c2 w2]. cbn [fst] in Ho. inversion H; subst.
    split; [rewrite Ho; exact E|]. cbn [tl]. intros Hin. apply in_sort_N in Hin. exact (Hno Hin).
Qed.

Lemma forallb_firstn {A} (f : A -> bool) (l : list A) m : forallb f l = true -> forallb f (firstn m l) = true.
Proof.
  revert m. induction l as [|x l IH]; intros m H; destruct m; cbn in *; try reflexivity.
  apply andb_true_iff in H as [H1 H2]. rewrite H1. cbn. apply IH. exact H2.
Qed.
Lemma firstn_split_at {A} : forall (l : list A) i x m, nth_error l i = Some x -> (S i <= m)%nat ->
  firstn m l = firstn i l ++ [x] ++ firstn (m - S i) (skipn (S i) l).
Proof.
  induction l as [|y l IH]; intros i x m H Hm; destruct i; cbn in H; try discriminate.
  - inversion H; subst. destruct m; [lia|]. cbn. rewrite Nat.sub_0_r. reflexivity.
  - destruct m; [lia|]. cbn [firstn app skipn]. f_equal.
    rewrite (IH i x m H) by lia. reflexivity.
Qed.

Section D.
Variable ser : tentry -> list byte.
Variable deser : list byte -> option tentry.
Variable crc : list byte -> N.
Variable lr fw : bool.          (* vote rules of the recovery code (read from the source) *)
Hypothesis deser_ser : forall e, deser (ser e) = Some e.
Hypothesis crc_bound : forall d, crc d < 4294967296.
Hypothesis ser_small : forall e, wf ser e.

Notation lb := (log_bytes ser crc true).
Notation drestart := (restart deser crc true lr fw).
Notation cN := (complete ser crc true).

Lemma all_wf (es : list tentry) : Forall (wf ser) es.
Proof. apply Forall_forall. intros e _. apply ser_small. Qed.

(* a restart from ANY byte prefix of a clean log succeeds and is the recovery of exactly the
   records that are completely inside the prefix; the file it continues with is clean again *)
Theorem restart_any_byte : forall now ES k,
  drestart now (firstn k (lb ES)) =
    Some (DC (fst (recover_entries lr fw now (firstn (cN ES k) ES))) (lb (firstn (cN ES k) ES)) now,
          snd (recover_entries lr fw now (firstn (cN ES k) ES))).
Proof.
  intros now ES k. unfold restart.
  rewrite (repair_prefix _ ser deser crc true deser_ser crc_bound ES k (all_wf ES)).
  rewrite (replay_file_clean _ ser deser crc true true deser_ser crc_bound _ (all_wf _)).
  destruct (recover_entries lr fw now (firstn (cN ES k) ES)). reflexivity.
Qed.

(* Clause 1: an outcome whose completion record is inside the crash prefix is never reversed *)
Theorem outcome_never_reversed : forall now ES k i tx c0,
  nth_error ES i = Some (TComplete tx c0) ->
  (bytes_upto ser crc true ES (S i) <= k)%nat ->
  forallb (fun e => negb (is_begin tx e)) (skipn (S i) ES) = true ->
  exists d stats, drestart now (firstn k (lb ES)) = Some (d, stats) /\
    aget (pending (co d)) tx = None /\
    forall ss, forallb (fun s => negb (begins tx s)) ss = true ->
      forall s out, In (s, out) (replies now (co d) ss) ->
        (targets tx s = true -> out = [1; 1]) /\ (forall t o, s = Timeouts t o -> ~ In tx (tl out)).
Proof.
  intros now ES k i tx c0 Hn Hk Hnb.
  rewrite restart_any_byte. eexists. eexists. split; [reflexivity|]. cbn [co].
  assert (Hi: (i < length ES)%nat) by (apply nth_error_Some; congruence).
  assert (Hc: (S i <= cN ES k)%nat) by (apply (complete_ge _ ser deser crc true deser_ser); [lia|exact Hk]).
  assert (Hsplit: firstn (cN ES k) ES = firstn i ES ++ [TComplete tx c0] ++ firstn (cN ES k - S i) (skipn (S i) ES)).
  { apply firstn_split_at; assumption. }
  assert (Habs: aget (pending (fst (recover_entries lr fw now (firstn (cN ES k) ES)))) tx = None).
  { rewrite recover_pending. rewrite Hsplit. rewrite !fold_left_app. cbn [fold_left].
    rewrite scan_absent; [reflexivity|apply scan_complete_removes|].
    apply forallb_firstn. exact Hnb. }
  split; [exact Habs|]. intros ss Hss s out Hin. exact (absent_forever ss now _ tx Habs Hss s out Hin).
Qed.

(* a timed-out transaction is never committed after a restart: once the sweep has returned (its
   records w lie inside the surviving prefix), whatever was logged later and wherever the crash
   hits, the restarted coordinator does not hold the transaction and nothing can be done to it *)
Lemma bytes_upto_mono es : forall j j', (j <= j')%nat ->
  (bytes_upto ser crc true es j <= bytes_upto ser crc true es j')%nat.
Proof.
  induction es as [|e es IH]; intros [|j] [|j'] H; cbn [bytes_upto]; try lia.
  specialize (IH j j'). lia.
Qed.
Theorem timed_out_never_committed : forall now0 c t order c' w out tx, NoDupK (pending c) ->
  step now0 c (Timeouts t order) = (c', w, out) -> In tx (tl out) ->
  forall now ES0 ES1 k,
  (bytes_upto ser crc true (ES0 ++ w ++ ES1) (length (ES0 ++ w)) <= k)%nat ->
  forallb (fun e => negb (is_begin tx e)) ES1 = true ->
  exists d stats, drestart now (firstn k (lb (ES0 ++ w ++ ES1))) = Some (d, stats) /\
    aget (pending (co d)) tx = None /\
    forall ss, forallb (fun s => negb (begins tx s)) ss = true ->
      forall s out, In (s, out) (replies now (co d) ss) ->
        (targets tx s = true -> out = [1; 1]) /\ (forall t o, s = Timeouts t o -> ~ In tx (tl out)).
Proof.
  intros now0 c t order c' w out tx ND Hs Hin now ES0 ES1 k Hk Hnb.
  destruct (timed_out_is_logged now0 c t order c' w out tx ND Hs Hin) as (L & _ & NB).
  apply In_nth_error in L as [j Hj].
  assert (Hjl: (j < length w)%nat) by (apply nth_error_Some; congruence).
  apply (outcome_never_reversed now (ES0 ++ w ++ ES1) k (length ES0 + j) tx false).
  - rewrite nth_error_app2 by lia. replace (length ES0 + j - length ES0)%nat with j by lia.
    rewrite nth_error_app1 by exact Hjl. exact Hj.
  - etransitivity; [|exact Hk]. apply bytes_upto_mono. rewrite app_length. lia.
  - assert (E: skipn (S (length ES0 + j)) (ES0 ++ w ++ ES1) = skipn (S j) w ++ ES1).
    { rewrite skipn_app. rewrite skipn_all2 by lia. cbn [app].
      replace (S (length ES0 + j) - length ES0)%nat with (S j) by lia.
      rewrite skipn_app. replace (S j - length w)%nat with 0%nat by lia. reflexivity. }
    rewrite E. rewrite forallb_app. rewrite Hnb, andb_true_r.
    apply forallb_forall. intros e He. rewrite (NB e); [reflexivity|].
    clear - He. revert He. generalize (S j). intros m. revert w.
    induction m as [|m IH]; intros w He; [exact He|]. destruct w as [|x w]; [destruct He|].
    right. apply IH. exact He.
Qed.

(* Clauses 2-4: what comes back is exactly what the surviving records say, with the votes the
   scan accepted; it can be driven to completion; everything else is forgotten; no lock is held *)
Theorem recovered_pending_table : forall now ES k tx,
  let s := fold_left (scan_step lr) (firstn (cN ES k) ES) sc0 in
  exists d stats, drestart now (firstn k (lb ES)) = Some (d, stats) /\
    locks (co d) = [] /\
    match aget (in_prog s) tx with
    | Some (ps, vs, ph) =>
        if restorable ph then
          let t := Tx ps ph (restore_votes fw vs) now 5000 in
          aget (pending (co d)) tx = Some t /\
          (* natural completion succeeds and removes it *)
          let call := if ph =? PREPARED then Commit tx (yes_handles t)
                      else if ph =? COMMITTING then CompleteCommit tx else CompleteAbort tx in
          snd (step now (co d) call) = [0] /\
          aget (pending (fst (fst (step now (co d) call)))) tx = None
        else aget (pending (co d)) tx = None
    | None => aget (pending (co d)) tx = None
    end.
Proof.
  intros now ES k tx s. rewrite restart_any_byte. eexists. eexists. split; [reflexivity|]. cbn [co].
  split; [reflexivity|].
  pose proof (recover_pending lr fw now (firstn (cN ES k) ES) tx) as RP. fold s in RP.
  destruct (aget (in_prog s) tx) as [[[ps vs] ph]|]; [|exact RP].
  destruct (restorable ph) eqn:Er; [|exact RP].
  cbn zeta. split; [exact RP|].
  unfold restorable in Er.
  destruct (N.eqb_spec ph PREPARED) as [E1|H1]; [rewrite E1 in *; clear E1|].
  - cbn [step]. rewrite RP. cbn [phase]. rewrite N.eqb_refl. cbn [negb].
    assert (SS: same_set (yes_handles (Tx ps PREPARED (restore_votes fw vs) now 5000))
                         (yes_handles (Tx ps PREPARED (restore_votes fw vs) now 5000)) = true).
    { unfold same_set. rewrite Nat.eqb_refl, andb_true_r.
      assert (F: forall l : list N, forallb (fun x => existsb (N.eqb x) l) l = true).
      { intros l. apply forallb_forall. intros x Hx. apply existsb_exists. exists x. split; [exact Hx|apply N.eqb_refl]. }
      rewrite F. reflexivity. }
    rewrite SS. cbn [negb fst snd pending]. split; [reflexivity|].
    rewrite aget_adel, N.eqb_refl. reflexivity.
  - destruct (N.eqb_spec ph COMMITTING) as [E2|H2]; [rewrite E2 in *; clear E2|].
    + cbn [step]. rewrite RP. cbn [phase]. rewrite N.eqb_refl. cbn [negb fst snd pending].
      split; [reflexivity|]. rewrite aget_adel, N.eqb_refl. reflexivity.
    + cbn [orb] in Er. apply N.eqb_eq in Er. rewrite Er in *.
      cbn [step]. rewrite RP. cbn [phase]. rewrite N.eqb_refl. cbn [negb fst snd pending].
      split; [reflexivity|]. rewrite aget_adel, N.eqb_refl. reflexivity.
Qed.

(* any number of restarts: the file a restart continues with is a clean log again, so the
   theorems above apply to every later crash as well *)
Definition clean (d : dcoord) : Prop := exists es, file d = lb es.
Theorem restart_clean : forall now ES k d stats,
  drestart now (firstn k (lb ES)) = Some (d, stats) -> clean d.
Proof.
  intros now ES k d stats H. rewrite restart_any_byte in H. inversion H; subst. eexists. reflexivity.
Qed.
Theorem steps_keep_clean : forall d s, clean d -> clean (fst (dstep ser crc d s)).
Proof.
  intros d s [es E]. unfold dstep. destruct (step (clock_of (clock d) s) (co d) s) as [[c' w] out].
  cbn [fst file]. exists (es ++ w). rewrite E. symmetry. apply log_bytes_app.
Qed.
End D.

(* ======================================================================== *)
(* ------------------------------------------------------------ the live coordinator and its log *)
Notation scanL es := (fold_left (scan_step true) es sc0).

Lemma aset_absent_app {V} (l : list (N * V)) k v : aget l k = None -> aset l k v = l ++ [(k, v)].
Proof.
  induction l as [|[k0 v0] l IH]; cbn; intros H; [reflexivity|].
  destruct (N.eqb_spec k0 k); [discriminate|]. f_equal. apply IH. exact H.
Qed.
Lemma aget_some_in {V} (l : list (N * V)) k v : aget l k = Some v -> In k (map fst l).
Proof.
  induction l as [|[k0 v0] l IH]; cbn; intros H; [discriminate|].
  destruct (N.eqb_spec k0 k) as [->|]; [left; reflexivity|right; apply IH; exact H].
Qed.
Lemma existsb_key {V} (l : list (N * V)) k : existsb (fun sv => N.eqb (fst sv) k) l = true <-> In k (map fst l).
Proof.
  split.
  - intros H. apply existsb_exists in H as ([a b] & Hin & E). cbn in E. apply N.eqb_eq in E. subst.
    apply in_map_iff. exists (k, b). split; [reflexivity|exact Hin].
  - intros H. apply in_map_iff in H as ([a b] & E & Hin). cbn in E. subst. apply existsb_exists.
    exists (k, b). split; [exact Hin|apply N.eqb_refl].
Qed.
Lemma restore_nodup fw (vs : list (N * vote)) : NoDup (map fst vs) -> restore_votes fw vs = vs.
Proof.
  unfold restore_votes.
  assert (G: forall (vs acc : list (N * vote)), NoDup (map fst (acc ++ vs)) ->
             fold_left (fun m sv => if fw then match aget m (fst sv) with Some _ => m | None => aset m (fst sv) (snd sv) end
                                     else aset m (fst sv) (snd sv)) vs acc = acc ++ vs).
  { induction vs0 as [|[s v] vs0 IH]; intros acc H; cbn [fold_left]; [rewrite app_nil_r; reflexivity|].
    assert (Hn: aget acc s = None).
    { apply aget_notin. rewrite map_app in H. cbn in H. apply NoDup_remove_2 in H.
      intros Hin. apply H. apply in_or_app. left. exact Hin. }
    cbn [fst snd]. rewrite Hn. rewrite (aset_absent_app acc s v Hn).
    assert (E: (if fw then acc ++ [(s, v)] else acc ++ [(s, v)]) = acc ++ [(s, v)]) by (destruct fw; reflexivity).
    rewrite E. rewrite IH; [rewrite <- app_assoc; reflexivity|]. rewrite <- app_assoc. exact H. }
  intros H. apply (G vs []). exact H.
Qed.

Definition tx_of (e : tentry) : N :=
  match e with
  | TBegin t _ | TVote t _ _ | TPhase t _ _ | TComplete t _ | TLockRelease t _ | TAllReleased t
  | TAbortIntent t _ _ => t
  end.
Lemma scan_other lr s e tx : tx_of e <> tx -> aget (in_prog (scan_step lr s e)) tx = aget (in_prog s) tx.
Proof.
  intros H. destruct e; cbn [scan_step tx_of] in *; try reflexivity.
  - cbn [in_prog]. rewrite aget_aset. destruct (N.eqb_spec tx0 tx); [contradiction|reflexivity].
  - destruct (aget (in_prog s) tx0) as [[[ps vs] ph]|]; [|reflexivity].
    destruct (lr && _); [reflexivity|]. cbn [in_prog]. rewrite aget_aset.
    destruct (N.eqb_spec tx0 tx); [contradiction|reflexivity].
  - destruct (aget (in_prog s) tx0) as [[[ps vs] ph]|]; [|reflexivity].
    cbn [in_prog]. rewrite aget_aset. destruct (N.eqb_spec tx0 tx); [contradiction|reflexivity].
  - cbn [in_prog]. rewrite aget_adel. destruct (N.eqb_spec tx0 tx); [contradiction|reflexivity].
Qed.
Lemma scan_other_all lr es : forall s tx, Forall (fun e => tx_of e <> tx) es ->
  aget (in_prog (fold_left (scan_step lr) es s)) tx = aget (in_prog s) tx.
Proof.
  induction es as [|e es IH]; intros s tx H; cbn [fold_left]; [reflexivity|].
  inversion H; subst. rewrite IH by assumption. apply scan_other. assumption.
Qed.

(* what the live coordinator holds is what its log says (for everything that can come back) *)
Definition LInv (c : coord) (es : list tentry) : Prop :=
  NoDupK (pending c) /\
  forall tx t, aget (pending c) tx = Some t ->
    phase t = ABORTING \/
    (aget (in_prog (scanL es)) tx = Some (parts t, votes t, phase t) /\ NoDup (map fst (votes t))).

Lemma LInv_init : LInv co0 [].
Proof. split; [constructor|]. intros tx t H. discriminate. Qed.

Definition fresh_begin (c : coord) (es : list tentry) (s : step_in) : Prop :=
  match s with Begin tx _ => aget (pending c) tx = None /\ aget (in_prog (scanL es)) tx = None | _ => True end.

Lemma aget_filter_some {V} (f : N * V -> bool) (l : list (N * V)) k v : NoDupK l ->
  aget (filter f l) k = Some v -> aget l k = Some v.
Proof.
  unfold NoDupK. induction l as [|[k0 v0] l IH]; cbn; intros ND H; [discriminate|].
  inversion ND as [|? ? Hn Hd]; subst.
  destruct (f (k0, v0)) eqn:Ef; cbn in H.
  - destruct (N.eqb_spec k0 k) as [->|]; [exact H|apply IH; assumption].
  - destruct (N.eqb_spec k0 k) as [->|]; [|apply IH; assumption].
    exfalso. apply Hn. apply (aget_some_in (filter f l) k v) in H.
    apply in_map_iff in H as ([a b] & E & Hin). cbn in E. subst. apply filter_In in Hin as [Hin _].
    apply in_map_iff. exists (k, b). split; [reflexivity|exact Hin].
Qed.
Lemma NoDupK_filter {V} (f : N * V -> bool) (l : list (N * V)) : NoDupK l -> NoDupK (filter f l).
Proof.
  unfold NoDupK. induction l as [|[k0 v0] l IH]; cbn; intros H; [constructor|].
  inversion H as [|? ? Hn Hd]; subst. destruct (f (k0, v0)); cbn; [|apply IH; exact Hd].
  constructor; [|apply IH; exact Hd]. intros Hin. apply Hn.
  apply in_map_iff in Hin as ([a b] & E & Hin). cbn in E. subst. apply filter_In in Hin as [Hin _].
  apply in_map_iff. exists (k0, b). split; [reflexivity|exact Hin].
Qed.

(* ======================================================================== *)
Definition claim (es : list tentry) (tx : N) (t : txrec) : Prop :=
  phase t = ABORTING \/
  (aget (in_prog (scanL es)) tx = Some (parts t, votes t, phase t) /\ NoDup (map fst (votes t))).

Lemma transfer c es c' w tx0 : LInv c es ->
  Forall (fun e => tx_of e = tx0) w ->
  (forall tx', tx' <> tx0 -> aget (pending c') tx' = aget (pending c) tx') ->
  NoDupK (pending c') ->
  (forall t', aget (pending c') tx0 = Some t' -> claim (es ++ w) tx0 t') ->
  LInv c' (es ++ w).
Proof.
  intros [ND HI] Hw Hoth ND' H0. split; [exact ND'|].
  intros tx t Ht. destruct (N.eq_dec tx tx0) as [->|Hne]; [apply H0; exact Ht|].
  rewrite Hoth in Ht by exact Hne. destruct (HI tx t Ht) as [Ha|[Hin Hnd]]; [left; exact Ha|right].
  split; [|exact Hnd]. rewrite fold_left_app. rewrite scan_other_all; [exact Hin|].
  apply Forall_forall. intros e He. rewrite Forall_forall in Hw. rewrite (Hw e He). congruence.
Qed.

Lemma aget_aset_other {V} (l : list (N * V)) k v k' : k' <> k -> aget (aset l k v) k' = aget l k'.
Proof. intros H. rewrite aget_aset. destruct (N.eqb_spec k k'); [congruence|reflexivity]. Qed.
Lemma aget_adel_other {V} (l : list (N * V)) k k' : k' <> k -> aget (adel l k) k' = aget l k'.
Proof. intros H. rewrite aget_adel. destruct (N.eqb_spec k k'); [congruence|reflexivity]. Qed.

Lemma NoDup_app_single {A} (l : list A) x : NoDup l -> ~ In x l -> NoDup (l ++ [x]).
Proof.
  induction l as [|y l IH]; intros H Hx; cbn; [constructor; [intros []|constructor]|].
  inversion H; subst. constructor.
  - intros Hin. apply in_app_or in Hin as [Hin|[<-|[]]]; [contradiction|]. apply Hx. left. reflexivity.
  - apply IH; [assumption|]. intros Hin. apply Hx. right. exact Hin.
Qed.

Lemma vote_rejected c es tx shard v : LInv c es ->
  (forall t, aget (pending c) tx = Some t -> claim (es ++ [TVote tx shard v]) tx t) ->
  LInv c (es ++ [TVote tx shard v]).
Proof.
  intros HL Hc. apply (transfer c es c _ tx HL).
  - repeat constructor.
  - intros; reflexivity.
  - destruct HL; assumption.
  - exact Hc.
Qed.

Lemma LInv_abort1 c es tx : LInv c es -> LInv (fst (abort1 c tx)) (es ++ snd (abort1 c tx)).
Proof.
  intros HL. pose proof HL as [ND HI]. unfold abort1.
  destruct (aget (pending c) tx) as [t|] eqn:Et; cbn [fst snd].
  2:{ rewrite app_nil_r. exact HL. }
  destruct (phase t =? COMMITTING); cbn [fst snd]; [rewrite app_nil_r; exact HL|].
  apply (transfer c es _ _ tx HL); cbn [pending].
  + repeat constructor.
  + intros tx' Hne. apply aget_adel_other. exact Hne.
  + apply NoDupK_adel. exact ND.
  + intros t' Ht. rewrite aget_adel, N.eqb_refl in Ht. discriminate.
Qed.
Lemma LInv_abort_all order : forall c es, LInv c es ->
  LInv (fst (abort_all c order)) (es ++ snd (abort_all c order)).
Proof.
  induction order as [|t r IH]; intros c es HL; cbn [abort_all].
  - cbn [fst snd]. rewrite app_nil_r. exact HL.
  - pose proof (LInv_abort1 c es t HL) as H1. destruct (abort1 c t) as [c1 w1]. cbn [fst snd] in H1.
    pose proof (IH c1 (es ++ w1) H1) as H2. destruct (abort_all c1 r) as [c2 w2]. cbn [fst snd] in *.
    rewrite app_assoc. exact H2.
Qed.

Lemma LInv_step now c es s c' w out : LInv c es -> fresh_begin c es s -> step now c s = (c', w, out) ->
  LInv c' (es ++ w).
Proof.
  intros HL Hfr H. pose proof HL as [ND HI]. destruct s; cbn [step] in H.
  - (* Begin *)
    inversion H; subst. destruct Hfr as [Hp Hs].
    apply (transfer c es _ _ tx HL); cbn [pending].
    + repeat constructor.
    + intros tx' Hne. apply aget_aset_other. exact Hne.
    + apply NoDupK_aset. exact ND.
    + intros t' Ht. rewrite aget_aset, N.eqb_refl in Ht. inversion Ht; subst t'. right.
      cbn [parts votes phase]. split; [|constructor].
      rewrite fold_left_app. cbn [fold_left scan_step in_prog]. rewrite aget_aset, N.eqb_refl. reflexivity.
  - (* Lock *) inversion H; subst. rewrite app_nil_r. split; [exact ND|exact HI].
  - (* Vote *)
    set (S0 := scanL es).
    destruct (aget (pending c) tx) as [t|] eqn:Et.
    2:{ inversion H; subst. apply vote_rejected; [exact HL|]. intros t' Ht. congruence. }
    destruct (negb (phase t =? PREPARING)) eqn:Eph.
    { (* rejected: wrong phase *)
      inversion H; subst. apply vote_rejected; [exact HL|].
      intros t' Ht. rewrite Et in Ht. inversion Ht; subst t'.
      destruct (HI tx t Et) as [Ha|[Hin Hnd]]; [left; exact Ha|right]. split; [|exact Hnd].
      rewrite fold_left_app. cbn [fold_left scan_step]. fold S0. fold S0 in Hin. rewrite Hin.
      assert (Hp: (phase t =? PREPARING) = false) by (destruct (phase t =? PREPARING); [discriminate|reflexivity]).
      rewrite Hp. cbn [andb negb]. exact Hin. }
    assert (Hp: phase t = PREPARING) by (apply N.eqb_eq; destruct (phase t =? PREPARING); [reflexivity|discriminate]).
    assert (Hright: aget (in_prog S0) tx = Some (parts t, votes t, phase t) /\ NoDup (map fst (votes t))).
    { destruct (HI tx t Et) as [Ha|Hr]; [|exact Hr]. rewrite Hp in Ha. discriminate. }
    destruct Hright as [Hin Hnd].
    destruct (aget (votes t) shard) as [v0|] eqn:Ev.
    { (* rejected: duplicate *)
      inversion H; subst. apply vote_rejected; [exact HL|].
      intros t' Ht. rewrite Et in Ht. inversion Ht; subst t'. right. split; [|exact Hnd].
      rewrite fold_left_app. cbn [fold_left scan_step]. fold S0. rewrite Hin.
      assert (Hex: existsb (fun sv => fst sv =? shard) (votes t) = true)
        by (apply existsb_key; eapply aget_some_in; exact Ev).
      rewrite Hex. rewrite Hp, N.eqb_refl. cbn [andb negb]. rewrite Hp in Hin. exact Hin. }
    (* accepted *)
    assert (Hex: existsb (fun sv => fst sv =? shard) (votes t) = false).
    { destruct (existsb (fun sv => fst sv =? shard) (votes t)) eqn:E; [|reflexivity].
      apply existsb_key in E. apply (aget_none_notin _ _ Ev) in E. contradiction. }
    assert (Hv: aset (votes t) shard v = votes t ++ [(shard, v)]) by (apply aset_absent_app; exact Ev).
    assert (Hnd': NoDup (map fst (votes t ++ [(shard, v)]))).
    { rewrite map_app. cbn. apply NoDup_app_single; [exact Hnd|]. apply aget_none_notin. exact Ev. }
    assert (Hscan1: in_prog (scan_step true S0 (TVote tx shard v)) =
                    aset (in_prog S0) tx (parts t, votes t ++ [(shard, v)], phase t)).
    { cbn [scan_step]. rewrite Hin, Hex, Hp, N.eqb_refl. cbn [andb negb in_prog]. reflexivity. }
    set (t1 := Tx (parts t) (phase t) (aset (votes t) shard v) (started t) (timeout t)) in *.
    destruct (all_voted t1) eqn:Eav; [destruct (all_yes t1) eqn:Eay|]; inversion H; subst c' w out; clear H.
    + (* Prepared *)
      apply (transfer c es _ _ tx HL); cbn [pending].
      * repeat constructor.
      * intros tx' Hne. apply aget_aset_other. exact Hne.
      * apply NoDupK_aset. exact ND.
      * intros t' Ht. rewrite aget_aset, N.eqb_refl in Ht. inversion Ht; subst t'. right.
        cbn [parts votes phase t1]. rewrite Hv. split; [|exact Hnd'].
        rewrite fold_left_app. cbn [fold_left]. fold S0.
        set (X := scan_step true S0 (TVote tx shard v)) in *.
        cbn [scan_step]. rewrite Hscan1. rewrite aget_aset, N.eqb_refl. cbn [in_prog].
        rewrite aget_aset, N.eqb_refl. reflexivity.
    + (* Aborting in memory only *)
      apply (transfer c es _ _ tx HL); cbn [pending].
      * repeat constructor.
      * intros tx' Hne. apply aget_aset_other. exact Hne.
      * apply NoDupK_aset. exact ND.
      * intros t' Ht. rewrite aget_aset, N.eqb_refl in Ht. inversion Ht; subst t'. left. reflexivity.
    + apply (transfer c es _ _ tx HL); cbn [pending].
      * repeat constructor.
      * intros tx' Hne. apply aget_aset_other. exact Hne.
      * apply NoDupK_aset. exact ND.
      * intros t' Ht. rewrite aget_aset, N.eqb_refl in Ht. inversion Ht; subst t'. right.
        cbn [parts votes phase t1]. rewrite Hv. split; [|exact Hnd'].
        rewrite fold_left_app. cbn [fold_left]. fold S0. rewrite Hscan1. rewrite aget_aset, N.eqb_refl. reflexivity.
  - (* Commit *)
    destruct (aget (pending c) tx) as [t|] eqn:Et;
      [|inversion H; subst; rewrite app_nil_r; split; [exact ND|exact HI]].
    destruct (negb (phase t =? PREPARED)); [inversion H; subst; rewrite app_nil_r; split; [exact ND|exact HI]|].
    destruct (negb (same_set order (yes_handles t))); [inversion H; subst; rewrite app_nil_r; split; [exact ND|exact HI]|].
    inversion H; subst. apply (transfer c es _ _ tx HL); cbn [pending].
    + repeat constructor. apply Forall_app. split; [|repeat constructor].
      apply Forall_forall. intros e He. apply in_map_iff in He as (h & <- & _). reflexivity.
    + intros tx' Hne. apply aget_adel_other. exact Hne.
    + apply NoDupK_adel. exact ND.
    + intros t' Ht. rewrite aget_adel, N.eqb_refl in Ht. discriminate.
  - (* Abort *)
    destruct (aget (pending c) tx) as [t|] eqn:Et;
      [|inversion H; subst; rewrite app_nil_r; split; [exact ND|exact HI]].
    destruct (phase t =? COMMITTING); [inversion H; subst; rewrite app_nil_r; split; [exact ND|exact HI]|].
    inversion H; subst. apply (transfer c es _ _ tx HL); cbn [pending].
    + repeat constructor.
    + intros tx' Hne. apply aget_adel_other. exact Hne.
    + apply NoDupK_adel. exact ND.
    + intros t' Ht. rewrite aget_adel, N.eqb_refl in Ht. discriminate.
  - (* CompleteCommit *)
    destruct (aget (pending c) tx) as [t|] eqn:Et;
      [|inversion H; subst; rewrite app_nil_r; split; [exact ND|exact HI]].
    destruct (negb (phase t =? COMMITTING)); inversion H; subst; rewrite app_nil_r; [split; [exact ND|exact HI]|].
    split; cbn [pending]; [apply NoDupK_adel; exact ND|].
    intros tx' t' Ht. rewrite aget_adel in Ht. destruct (tx =? tx'); [discriminate|]. apply HI. exact Ht.
  - destruct (aget (pending c) tx) as [t|] eqn:Et;
      [|inversion H; subst; rewrite app_nil_r; split; [exact ND|exact HI]].
    destruct (negb (phase t =? ABORTING)); inversion H; subst; rewrite app_nil_r; [split; [exact ND|exact HI]|].
    split; cbn [pending]; [apply NoDupK_adel; exact ND|].
    intros tx' t' Ht. rewrite aget_adel in Ht. destruct (tx =? tx'); [discriminate|]. apply HI. exact Ht.
  - (* Timeouts *)
    match type of H with context [if ?b then _ else _] => destruct b end.
    + inversion H; subst. rewrite app_nil_r. exact HL.
    + pose proof (LInv_abort_all order c es HL) as HA. destruct (abort_all c order) as [c2 w2].
      inversion H; subst. exact HA.
Qed.

(* ======================================================================== *)
(* the scan (with the live vote rule) never records two votes of one shard *)
Definition votes_nodup (s : scan) : Prop :=
  forall tx ps vs ph, aget (in_prog s) tx = Some (ps, vs, ph) -> NoDup (map fst vs).
Lemma votes_nodup_step s e : votes_nodup s -> votes_nodup (scan_step true s e).
Proof.
  intros H tx ps vs ph. destruct e; cbn [scan_step]; try apply H.
  - cbn [in_prog]. rewrite aget_aset. destruct (N.eqb_spec tx0 tx) as [->|]; [|apply H].
    intros E. inversion E; subst. constructor.
  - destruct (aget (in_prog s) tx0) as [[[ps0 vs0] ph0]|] eqn:E0; [|apply H].
    destruct (true && negb ((ph0 =? PREPARING) && negb (existsb (fun sv => fst sv =? shard) vs0))) eqn:Er; [apply H|].
    cbn [in_prog]. rewrite aget_aset. destruct (N.eqb_spec tx0 tx) as [->|]; [|apply H].
    intros E. inversion E; subst. rewrite map_app. cbn.
    apply NoDup_app_single; [apply (H tx ps vs0 ph E0)|].
    cbn [andb] in Er. apply negb_false_iff in Er. apply andb_true_iff in Er as [_ Er].
    apply negb_true_iff in Er. intros Hin. apply existsb_key in Hin. congruence.
  - destruct (aget (in_prog s) tx0) as [[[ps0 vs0] ph0]|] eqn:E0; [|apply H].
    cbn [in_prog]. rewrite aget_aset. destruct (N.eqb_spec tx0 tx) as [->|]; [|apply H].
    intros E. inversion E; subst. apply (H tx ps vs ph0 E0).
  - cbn [in_prog]. rewrite aget_adel. destruct (tx0 =? tx); [discriminate|apply H].
Qed.
Lemma votes_nodup_all es : votes_nodup (scanL es).
Proof.
  assert (G: forall es s, votes_nodup s -> votes_nodup (fold_left (scan_step true) es s)).
  { induction es0 as [|e es0 IH]; intros s H; cbn [fold_left]; [exact H|]. apply IH, votes_nodup_step, H. }
  apply G. intros tx ps vs ph E. discriminate.
Qed.

(* a record that cannot change what the log says about tx once it has left the Preparing phase *)
Definition quiet (tx : N) (e : tentry) : bool :=
  match e with TVote _ _ _ => true | _ => negb (tx_of e =? tx) end.

Lemma scan_quiet s e tx ps vs ph : aget (in_prog s) tx = Some (ps, vs, ph) -> ph <> PREPARING ->
  quiet tx e = true -> aget (in_prog (scan_step true s e)) tx = Some (ps, vs, ph).
Proof.
  intros E Hph Hq. destruct e; cbn [quiet tx_of] in Hq;
    try (rewrite scan_other; [exact E|apply N.eqb_neq; apply negb_true_iff; exact Hq]).
  (* TVote *)
  destruct (N.eq_dec tx0 tx) as [->|Hne]; [|rewrite scan_other; [exact E|exact Hne]].
  cbn [scan_step]. rewrite E. destruct (N.eqb_spec ph PREPARING); [contradiction|]. cbn [andb negb]. exact E.
Qed.
Lemma scan_quiet_all extra : forall s tx ps vs ph, aget (in_prog s) tx = Some (ps, vs, ph) -> ph <> PREPARING ->
  forallb (quiet tx) extra = true -> aget (in_prog (fold_left (scan_step true) extra s)) tx = Some (ps, vs, ph).
Proof.
  induction extra as [|e extra IH]; intros s tx ps vs ph E Hph Hq; cbn [fold_left]; [exact E|].
  cbn [forallb] in Hq. apply andb_true_iff in Hq as [H1 H2].
  apply IH; [apply scan_quiet; assumption|exact Hph|exact H2].
Qed.

(* Clause 2 with the LIVE votes: a transaction the live coordinator holds as Prepared (or
   Committing) comes back, after a crash that lets the records es survive plus any later records
   that are not about it, with exactly the participants, phase and votes the live coordinator held *)
Theorem prepared_comes_back_with_live_votes : forall fw now c es tx t extra,
  LInv c es -> aget (pending c) tx = Some t -> phase t = PREPARED \/ phase t = COMMITTING ->
  forallb (quiet tx) extra = true ->
  aget (pending (fst (recover_entries true fw now (es ++ extra)))) tx =
    Some (Tx (parts t) (phase t) (votes t) now 5000).
Proof.
  intros fw now c es tx t extra [ND HI] Ht Hph Hq.
  destruct (HI tx t Ht) as [Ha|[Hin Hnd]].
  { destruct Hph as [E|E]; rewrite E in Ha; discriminate. }
  rewrite recover_pending. rewrite fold_left_app.
  assert (Hne: phase t <> PREPARING) by (destruct Hph as [E|E]; rewrite E; discriminate).
  rewrite (scan_quiet_all extra _ tx _ _ _ Hin Hne Hq).
  assert (Hr: restorable (phase t) = true) by (destruct Hph as [E|E]; rewrite E; reflexivity).
  rewrite Hr, restore_nodup by exact Hnd. reflexivity.
Qed.

(* the invariant holds initially, is kept by every call (transaction ids are fresh), and is
   re-established by every restart *)
Lemma NoDupK_filtermap {V W} (P : V -> bool) (g : N -> V -> W) (l : list (N * V)) : NoDupK l ->
  NoDupK (flat_map (fun p => if P (snd p) then [(fst p, g (fst p) (snd p))] else []) l).
Proof.
  unfold NoDupK. induction l as [|[k0 v0] l IH]; cbn [flat_map map fst snd]; intros H; [constructor|].
  inversion H as [|? ? Hn Hd]; subst. destruct (P v0); cbn [app map fst]; [|apply IH; exact Hd].
  constructor; [|apply IH; exact Hd]. intros Hin. apply Hn.
  eapply (in_keys_filtermap (fun p => if P (snd p) then [(fst p, g (fst p) (snd p))] else [])); [|exact Hin].
  intros p q Hq. destruct (P (snd p)); [|destruct Hq]. destruct Hq as [<-|[]]. reflexivity.
Qed.
Lemma LInv_restart fw now es : LInv (fst (recover_entries true fw now es)) es.
Proof.
  split.
  - unfold recover_entries. cbn [fst pending].
    set (s := scanL es).
    assert (ND: NoDupK (in_prog s)) by (apply scan_nodup_all; constructor).
    pose proof (NoDupK_filtermap (fun v : list N * list (N * vote) * N => restorable (snd v))
                  (fun (_ : N) (v : list N * list (N * vote) * N) =>
                     Tx (fst (fst v)) (snd v) (restore_votes fw (snd (fst v))) now 5000) (in_prog s) ND) as H.
    match goal with |- NoDupK ?l => match type of H with NoDupK ?l' => replace l with l'; [exact H|] end end.
    apply flat_map_ext. intros [k [[ps vs] ph]]. reflexivity.
  - intros tx t Ht. rewrite recover_pending in Ht.
    destruct (aget (in_prog (scanL es)) tx) as [[[ps vs] ph]|] eqn:E; [|discriminate].
    destruct (restorable ph); [|discriminate]. inversion Ht; subst t. cbn [parts votes phase].
    pose proof (votes_nodup_all es tx ps vs ph E) as Hnd.
    right. rewrite restore_nodup by exact Hnd. split; [reflexivity|exact Hnd].
Qed.

(* ======================================================================== *)
(* records and final state of a sequence of calls (clock fixed at `now`) *)
Fixpoint run_steps (now : N) (c : coord) (ss : list step_in) : coord * list tentry :=
  match ss with
  | [] => (c, [])
  | s :: r => let '(c', w, _) := step now c s in
              let '(c'', w') := run_steps now c' r in (c'', w ++ w')
  end.

(* F-C13-latevote, the behaviour BEFORE the fixes (votes replayed without the live rule, last
   one wins): the live coordinator holds Yes(h0) for shard 0, the recovered one holds No *)
Theorem latevote_without_fix_refuted :
  let ss := [Begin 0 [0; 1]; Vote 0 0 (VYes 0); Vote 0 1 (VYes 1); Vote 0 0 VNo] in
  let '(c, es) := run_steps 1000 co0 ss in
  exists t t', aget (pending c) 0 = Some t /\ phase t = PREPARED /\
    aget (pending (fst (recover_entries false false 2000 es))) 0 = Some t' /\
    votes t = [(0, VYes 0); (1, VYes 1)] /\ votes t' = [(0, VNo); (1, VYes 1)].
Proof. vm_compute. eexists. eexists. repeat split. Qed.

(* ======================================================================== *)
(* further recover_from_wal() calls on the LIVE coordinator keep the invariant too *)
Lemma aget_fold_aset {V} (rs : list (N * V)) : forall (p : list (N * V)) k, NoDupK rs ->
  aget (fold_left (fun p x => aset p (fst x) (snd x)) rs p) k =
  match aget rs k with Some v => Some v | None => aget p k end.
Proof.
  unfold NoDupK. induction rs as [|[k0 v0] rs IH]; intros p k ND; cbn [fold_left aget fst snd map] in *; [reflexivity|].
  inversion ND as [|? ? Hn Hd]; subst. rewrite (IH _ k Hd).
  destruct (N.eqb_spec k0 k) as [->|Hne].
  - rewrite (aget_notin rs k Hn). rewrite aget_aset, N.eqb_refl. reflexivity.
  - destruct (aget rs k); [reflexivity|]. rewrite aget_aset. destruct (N.eqb_spec k0 k); [contradiction|reflexivity].
Qed.
Lemma NoDupK_fold_aset {V} (rs : list (N * V)) : forall p, NoDupK p ->
  NoDupK (fold_left (fun p x => aset p (fst x) (snd x)) rs p).
Proof.
  induction rs as [|[k0 v0] rs IH]; intros p H; cbn [fold_left]; [exact H|]. apply IH, NoDupK_aset, H.
Qed.

(* the pending table after a live recovery call over the log es *)
Definition merge_recovered (fw : bool) (now : N) (es : list tentry) (c : coord) : coord :=
  Co (fold_left (fun p x => aset p (fst x) (snd x)) (pending (fst (recover_entries true fw now es)))
                (drop_done (scanL es) (pending c)))
     (release_done (scanL es) (release (locks c) (map snd (orphans (scanL es))))) (cfg_prepare_timeout c).

Lemma LInv_recover_live fw now c es : LInv c es -> LInv (merge_recovered fw now es c) es.
Proof.
  intros [ND HI]. destruct (LInv_restart fw now es) as [NDr HIr].
  assert (NDf: NoDupK (drop_done (scanL es) (pending c))) by (apply NoDupK_filter; exact ND).
  split; cbn [merge_recovered pending].
  - apply NoDupK_fold_aset. exact NDf.
  - intros tx t Ht. rewrite aget_fold_aset in Ht by exact NDr.
    destruct (aget (pending (fst (recover_entries true fw now es))) tx) as [t0|] eqn:E.
    + inversion Ht; subst t0. apply (HIr tx t E).
    + apply (HI tx t). eapply aget_filter_some; [exact ND|exact Ht].
Qed.

(* recover_from_wal() on ANY coordinator state c (e.g. one loaded from an older snapshot): a
   transaction whose completion the log holds (and that the log does not begin again) is not
   pending afterwards and owns no lock *)
Lemma aget_filter_key {V} (f : N -> bool) (l : list (N * V)) k : f k = false ->
  aget (filter (fun x => f (fst x)) l) k = None.
Proof.
  intros Hf. induction l as [|[k0 v0] l IH]; cbn; [reflexivity|].
  destruct (f k0) eqn:E0; cbn; [|exact IH].
  destruct (N.eqb_spec k0 k) as [->|]; [congruence|exact IH].
Qed.
Theorem recovery_drops_completed fw now es c tx :
  In tx (completed (scanL es)) -> aget (in_prog (scanL es)) tx = None ->
  aget (pending (merge_recovered fw now es c)) tx = None /\
  forall l, In l (locks (merge_recovered fw now es c)) -> snd l <> tx.
Proof.
  intros Hc Hip.
  assert (Hd: is_done (scanL es) tx = true).
  { unfold is_done. apply existsb_exists. exists tx. split; [exact Hc|apply N.eqb_refl]. }
  split.
  - cbn [merge_recovered pending]. destruct (LInv_restart fw now es) as [NDr _].
    rewrite aget_fold_aset by exact NDr.
    rewrite recover_pending. rewrite Hip.
    unfold drop_done. apply (aget_filter_key (fun k => negb (is_done (scanL es) k))). rewrite Hd. reflexivity.
  - cbn [merge_recovered locks]. intros l Hl. unfold release_done in Hl. apply filter_In in Hl as [_ Hl].
    intros E. rewrite E, Hd in Hl. discriminate.
Qed.
