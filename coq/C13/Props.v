(* C13/Props.v -- pinned property theorems; nothing but statements closed by `exact`.
   Reading guide.  [ser]/[deser]/[crc]: the external payload serializer (bitcode) and CRC-32; the
   theorems hold for ANY functions with the three visible premises.  [ES] is the list of records
   the coordinator has written (any list), [log_bytes .. ES] the log file; a crash leaves its
   first k bytes; [restart] = a fresh coordinator with the log attached + recover_from_wal at
   clock `now`.  [replies now c ss] are the replies of any continuation ss of coordinator calls
   (begin / vote / commit / abort / complete_* / cleanup_timeouts at any later times). *)
From NV.Common Require Import Base WalFormat.
From NV.C13 Require Import Model Proofs Inst.
From NV.gen Require Import Gen_C13.
Open Scope N_scope.

(* Clause 1 + "crash at any byte": if the TxComplete record of tx (either outcome) lies
   completely inside the surviving prefix, then after the restart tx is not pending, and for EVERY
   continuation that does not begin the same id again: every commit / abort / complete_* aimed at
   it fails with "not found" and no timeout sweep ever reports it.  So a committed transaction
   is never afterwards aborted or timed out, and an aborted one is never committed. *)
Theorem C13_logged_outcome_never_reversed :
  forall (ser : tentry -> list byte) (deser : list byte -> option tentry) (crc : list byte -> N),
  (forall e, deser (ser e) = Some e) -> (forall d, crc d < 4294967296) -> (forall e, wf ser e) ->
  forall now ES k i tx outcome,
  nth_error ES i = Some (TComplete tx outcome) ->
  (bytes_upto ser crc true ES (S i) <= k)%nat ->
  forallb (fun e => negb (is_begin tx e)) (skipn (S i) ES) = true ->
  exists d stats,
    restart deser crc gen_tx_tail_repair gen_vote_scan_live gen_vote_first_wins now
            (firstn k (log_bytes ser crc true ES)) = Some (d, stats) /\
    aget (pending (co d)) tx = None /\
    forall ss, forallb (fun s => negb (begins tx s)) ss = true ->
      forall s out, In (s, out) (replies now (co d) ss) ->
        (targets tx s = true -> out = [1; 1]) /\ (forall t o, s = Timeouts t o -> ~ In tx (tl out)).
Proof.
  intros ser deser crc. exact (outcome_never_reversed ser deser crc gen_vote_scan_live gen_vote_first_wins).
Qed.

(* The timeout sweeper's decision is a logged decision: every transaction id cleanup_timeouts()
   reports has left the pending table and the records the call wrote contain its TxComplete{Aborted}
   (after the phase change to Aborting), none of them a begin. *)
Theorem C13_timeout_abort_is_logged : forall now c t order c' w out tx,
  NoDupK (pending c) ->        (* one entry per transaction id: part of LInv, see C13_live_invariant *)
  step now c (Timeouts t order) = (c', w, out) -> In tx (tl out) ->
  In (TComplete tx false) w /\ aget (pending c') tx = None /\ (forall e, In e w -> forall x, is_begin x e = false).
Proof. exact timed_out_is_logged. Qed.

(* ... so a timed-out transaction (whose abort is broadcast to the participants) is never committed
   after a restart: ES0 = what was logged before the sweep, w = what the sweep wrote, ES1 = anything
   logged afterwards (not a begin of the same id); for a crash at ANY byte after the sweep's records
   the restarted coordinator does not hold tx, and for every continuation of calls commit / abort /
   complete_* aimed at it fail with "not found" and no sweep reports it again. *)
Theorem C13_timed_out_never_committed :
  forall (ser : tentry -> list byte) (deser : list byte -> option tentry) (crc : list byte -> N),
  (forall e, deser (ser e) = Some e) -> (forall d, crc d < 4294967296) -> (forall e, wf ser e) ->
  forall now0 c t order c' w out tx, NoDupK (pending c) ->
  step now0 c (Timeouts t order) = (c', w, out) -> In tx (tl out) ->
  forall now ES0 ES1 k,
  (bytes_upto ser crc true (ES0 ++ w ++ ES1) (length (ES0 ++ w)) <= k)%nat ->
  forallb (fun e => negb (is_begin tx e)) ES1 = true ->
  exists d stats,
    restart deser crc gen_tx_tail_repair gen_vote_scan_live gen_vote_first_wins now
            (firstn k (log_bytes ser crc true (ES0 ++ w ++ ES1))) = Some (d, stats) /\
    aget (pending (co d)) tx = None /\
    forall ss, forallb (fun s => negb (begins tx s)) ss = true ->
      forall s out, In (s, out) (replies now (co d) ss) ->
        (targets tx s = true -> out = [1; 1]) /\ (forall t o, s = Timeouts t o -> ~ In tx (tl out)).
Proof.
  intros ser deser crc. exact (timed_out_never_committed ser deser crc gen_vote_scan_live gen_vote_first_wins).
Qed.

(* Clauses 2-4 + "crash at any byte": the restart never fails; the restarted coordinator holds
   no lock; a transaction whose last logged phase (in the surviving records) is Prepared /
   Committing / Aborting comes back in that phase with the votes the log scan accepted and its
   natural completion call succeeds and removes it; every other transaction (still Preparing,
   completed, unknown) is not pending. *)
Theorem C13_recovered_table :
  forall (ser : tentry -> list byte) (deser : list byte -> option tentry) (crc : list byte -> N),
  (forall e, deser (ser e) = Some e) -> (forall d, crc d < 4294967296) -> (forall e, wf ser e) ->
  forall now ES k tx,
  let s := fold_left (scan_step gen_vote_scan_live) (firstn (complete ser crc true ES k) ES) sc0 in
  exists d stats,
    restart deser crc gen_tx_tail_repair gen_vote_scan_live gen_vote_first_wins now
            (firstn k (log_bytes ser crc true ES)) = Some (d, stats) /\
    locks (co d) = [] /\
    match aget (in_prog s) tx with
    | Some (ps, vs, ph) =>
        if restorable ph then
          let t := Tx ps ph (restore_votes gen_vote_first_wins vs) now 5000 in
          aget (pending (co d)) tx = Some t /\
          let call := if ph =? PREPARED then Commit tx (yes_handles t)
                      else if ph =? COMMITTING then CompleteCommit tx else CompleteAbort tx in
          snd (step now (co d) call) = [0] /\
          aget (pending (fst (fst (step now (co d) call)))) tx = None
        else aget (pending (co d)) tx = None
    | None => aget (pending (co d)) tx = None
    end.
Proof.
  intros ser deser crc. exact (recovered_pending_table ser deser crc gen_vote_scan_live gen_vote_first_wins).
Qed.

(* "across repeated restarts": a restart leaves a clean log file, coordinator calls keep it clean,
   so both theorems above apply to every later crash at any byte as well. *)
Theorem C13_repeated_restarts :
  forall (ser : tentry -> list byte) (deser : list byte -> option tentry) (crc : list byte -> N),
  (forall e, deser (ser e) = Some e) -> (forall d, crc d < 4294967296) -> (forall e, wf ser e) ->
  (forall now ES k d stats,
     restart deser crc gen_tx_tail_repair gen_vote_scan_live gen_vote_first_wins now
             (firstn k (log_bytes ser crc true ES)) = Some (d, stats) -> clean ser crc d)
  /\ (forall d s, clean ser crc d -> clean ser crc (fst (dstep ser crc d s))).
Proof.
  intros ser deser crc H1 H2 H3. split.
  - exact (restart_clean ser deser crc gen_vote_scan_live gen_vote_first_wins H1 H2 H3).
  - exact (steps_keep_clean ser crc).
Qed.

(* Clause 2 with the votes of the LIVE coordinator: [LInv c es] ("what the coordinator holds for
   each pending transaction is what its log es says") holds for a fresh coordinator, is kept by
   every call (transaction ids are fresh) and is re-established by every restart.  Under it, a
   transaction the live coordinator holds as Prepared or Committing comes back -- whatever later
   records survive the crash, as long as they are not its own phase change / completion -- with
   exactly the participants, the phase and the votes the live coordinator held.  (This is the
   statement F-C13-latevote refuted before the fixes, see the witness below.) *)
Theorem C13_prepared_comes_back_with_live_votes : forall now c es tx t extra,
  LInv c es -> aget (pending c) tx = Some t -> phase t = PREPARED \/ phase t = COMMITTING ->
  forallb (quiet tx) extra = true ->
  aget (pending (fst (recover_entries gen_vote_scan_live gen_vote_first_wins now (es ++ extra)))) tx =
    Some (Tx (parts t) (phase t) (votes t) now 5000).
Proof. exact (prepared_comes_back_with_live_votes gen_vote_first_wins). Qed.

Theorem C13_live_invariant :
  LInv co0 [] /\
  (forall now c es s c' w out, LInv c es -> fresh_begin c es s -> step now c s = (c', w, out) -> LInv c' (es ++ w)) /\
  (forall now es, LInv (fst (recover_entries gen_vote_scan_live gen_vote_first_wins now es)) es) /\
  (* "for every following sequence of recovery calls": recover_from_wal() called again on the live
     coordinator (its pending table merged with what the log restores) keeps the invariant *)
  (forall now c es, LInv c es -> LInv (merge_recovered gen_vote_first_wins now es c) es).
Proof.
  split; [exact LInv_init|]. split; [exact LInv_step|]. split.
  - exact (fun now es => LInv_restart gen_vote_first_wins now es).
  - exact (fun now c es => LInv_recover_live gen_vote_first_wins now c es).
Qed.

(* recover_from_wal() on a coordinator constructed from an OLDER SNAPSHOT of its state
   (load_from_store: the pending table and the lock table as they were when the snapshot was saved;
   any state c): a transaction whose completion the log es holds -- and that the log does not begin
   again -- is not pending afterwards and owns no lock, so it cannot be committed after it was
   aborted and "locks of completed transactions are released" holds for the restored lock table
   too.  [merge_recovered] is the coordinator after the call (the same function as in
   C13_live_invariant). *)
Theorem C13_snapshot_restart_drops_completed : forall now es c tx,
  In tx (completed (fold_left (scan_step true) es sc0)) ->
  aget (in_prog (fold_left (scan_step true) es sc0)) tx = None ->
  aget (pending (merge_recovered gen_vote_first_wins now es c)) tx = None /\
  forall l, In l (locks (merge_recovered gen_vote_first_wins now es c)) -> snd l <> tx.
Proof. exact (recovery_drops_completed gen_vote_first_wins). Qed.

(* the same statement is FALSE for the recovery rule before the fixes (no live rule, last vote
   wins): the reproduced finding F-C13-latevote *)
Theorem C13_latevote_without_fix_refuted :
  let ss := [Begin 0 [0; 1]; Vote 0 0 (VYes 0); Vote 0 1 (VYes 1); Vote 0 0 VNo] in
  let '(c, es) := run_steps 1000 co0 ss in
  exists t t', aget (pending c) 0 = Some t /\ phase t = PREPARED /\
    aget (pending (fst (recover_entries false false 2000 es))) 0 = Some t' /\
    votes t = [(0, VYes 0); (1, VYes 1)] /\ votes t' = [(0, VNo); (1, VYes 1)].
Proof. exact latevote_without_fix_refuted. Qed.

(* commit logs the outcome before it releases any lock *)
Theorem C13_completion_logged_before_release : forall now c tx order c' w out,
  step now c (Commit tx order) = (c', w, out) -> out = [0] ->
  exists rest, w = TPhase tx PREPARED COMMITTING :: TComplete tx true :: rest
               /\ forall e, In e rest -> match e with TLockRelease _ _ | TAllReleased _ => True | _ => False end.
Proof. exact complete_logged_before_release. Qed.

(* Committing = the decision is COMMIT.  TxComplete{Committed} is written by commit() only (in the
   same critical section as Prepared -> Committing); complete_commit / complete_abort -- the calls
   that finish a transaction restored as Committing / Aborting -- write NOTHING, so a transaction
   restored as Committing comes back as Committing after every later restart until commit()'s own
   completion record is in the log.  Since /repo ec025c6b that is harmless: abort() refuses a
   Committing transaction (nothing is written, it stays pending) and the timeout sweeper skips it;
   it completes only through complete_commit. *)
Theorem C13_complete_calls_log_nothing : forall now c tx,
  snd (fst (step now c (CompleteCommit tx))) = [] /\ snd (fst (step now c (CompleteAbort tx))) = [].
Proof.
  intros now c tx. cbn [step]. destruct (aget (pending c) tx) as [t|]; [|split; reflexivity].
  destruct (negb (phase t =? COMMITTING)); destruct (negb (phase t =? ABORTING)); split; reflexivity.
Qed.

Theorem C13_committing_is_never_aborted : forall now c tx t, NoDupK (pending c) ->
  aget (pending c) tx = Some t -> phase t = COMMITTING ->
  step now c (Abort tx) = (c, [], [1; 2]) /\
  forall t' order c' w out, step now c (Timeouts t' order) = (c', w, out) -> out <> [9] ->
    aget (pending c') tx = Some t /\ ~ In tx (tl out).
Proof. exact committing_is_never_aborted. Qed.

Theorem C13_restored_committing_witness :
  let es := [TBegin 0 [0]; TVote 0 0 (VYes 0); TPhase 0 PREPARING PREPARED; TPhase 0 PREPARED COMMITTING] in
  let c2 := fst (recover_entries true true 2000 es) in
  (* the restarted coordinator holds it as Committing; abort and a sweep 6 s later leave it alone *)
  (exists t, aget (pending c2) 0 = Some t /\ phase t = COMMITTING) /\
  step 2000 c2 (Abort 0) = (c2, [], [1; 2]) /\
  step 9000 c2 (Timeouts 9000 []) = (c2, [], [3]) /\
  (* complete_commit finishes it in memory, writing nothing: the next restart shows it again *)
  step 2000 c2 (CompleteCommit 0) = (Co [] [] 5000, [], [0]) /\
  (exists t, aget (pending (fst (recover_entries true true 3000 es))) 0 = Some t /\ phase t = COMMITTING).
Proof. vm_compute. repeat split; eexists; split; reflexivity. Qed.

(* non-vacuity: a concrete log with a committed transaction, a prepared one and one still
   collecting votes satisfies the hypotheses (position 5 holds TxComplete of tx 0) *)
Example C13_hypotheses_satisfiable :
  let ES := [TBegin 0 [0; 1]; TVote 0 0 (VYes 0); TVote 0 1 (VYes 1); TPhase 0 0 1; TPhase 0 1 2; TComplete 0 true;
             TBegin 1 [2]; TVote 1 2 (VYes 2); TPhase 1 0 1; TBegin 2 [0]] in
  nth_error ES 5 = Some (TComplete 0 true) /\
  forallb (fun e => negb (is_begin 0 e)) (skipn 6 ES) = true /\
  aget (in_prog (fold_left (scan_step true) ES sc0)) 1 = Some ([2], [(2, VYes 2)], PREPARED) /\
  aget (in_prog (fold_left (scan_step true) ES sc0)) 2 = Some ([0], [], PREPARING).
Proof. vm_compute. repeat split; reflexivity. Qed.

(* non-vacuity of the timeout theorems: a prepared transaction that times out is reported and logged *)
Example C13_timeout_hypotheses_satisfiable :
  let c := fst (run_steps 1000 co0 [Begin 0 [0]; Vote 0 0 (VYes 0)]) in
  step 7000 c (Timeouts 7000 [0]) =
    (Co [] [] 5000, [TPhase 0 PREPARED ABORTING; TComplete 0 false], [3; 0]).
Proof. vm_compute. reflexivity. Qed.

Print Assumptions C13_logged_outcome_never_reversed.
Print Assumptions C13_timeout_abort_is_logged.
Print Assumptions C13_timed_out_never_committed.
Print Assumptions C13_recovered_table.
Print Assumptions C13_complete_calls_log_nothing.
Print Assumptions C13_committing_is_never_aborted.
Print Assumptions C13_restored_committing_witness.
Print Assumptions C13_repeated_restarts.
Print Assumptions C13_completion_logged_before_release.
Print Assumptions C13_prepared_comes_back_with_live_votes.
Print Assumptions C13_live_invariant.
Print Assumptions C13_snapshot_restart_drops_completed.
Print Assumptions C13_latevote_without_fix_refuted.
