(* C13/Props.v -- pinned property theorems (placeholder while the proofs are being built). *)
From NV.Common Require Import Base WalFormat.
Open Scope N_scope.
