(* C13/Run.v -- executable entry points for the correspondence check and the property oracle.
   Depends on Model (+ WalFormat, Crc32Fast, Gen_C13) only. *)
From NV.Common Require Import Base WalFormat Crc32Fast.
From NV.C13 Require Import Model.
From NV.gen Require Import Gen_C13.
Open Scope N_scope.

Definition tab := list (tentry * list byte).
Definition ser_of (t : tab) (e : tentry) : list byte :=
  match find (fun p => tentry_eqb (fst p) e) t with Some p => snd p | None => [] end.
Definition deser_of (t : tab) (b : list byte) : option tentry :=
  match find (fun p => list_eqb N.eqb (snd p) b) t with Some p => Some (fst p) | None => None end.

(* what is visible of a coordinator: per transaction id 0..T-1 its phase and its vote per shard
   0..S-1 (None = not pending / no vote), and the number of keys locked in its lock manager *)
Definition NSHARD : N := 4.
Definition txobs := option (N * list (option vote)).
Definition cobs := (list txobs * N)%type.
Definition txobs_eqb : txobs -> txobs -> bool :=
  option_eqb (pair_eqb N.eqb (list_eqb (option_eqb vote_eqb))).
Definition cobs_eqb (a b : cobs) : bool :=
  list_eqb txobs_eqb (fst a) (fst b) && N.eqb (snd a) (snd b).
Definition observe (T : N) (c : coord) : cobs :=
  (map (fun tx => match aget (pending c) tx with
                  | Some t => Some (phase t, map (fun s => aget (votes t) s) (N_seq NSHARD))
                  | None => None end) (N_seq T),
   N.of_nat (length (locks c))).

(* what a restart shows:
     stats of recover_from_wal, the pending table right after it,
     instance A: for every transaction id the reply of its natural completion call
                 (Prepared -> commit, Committing -> complete_commit, Aborting -> commit (must be
                  refused) then complete_abort, not pending -> commit then abort), then the pending
                 table again,
     instance B: the clock moved 6 s ahead, cleanup_timeouts(): the timed-out ids (sorted) *)
Definition robs := (list N * cobs * list (list N) * cobs * list N)%type.
Definition robs_eqb (a b : robs) : bool :=
  let '(s, o, p, o2, t) := a in let '(s', o', p', o2', t') := b in
  list_eqb N.eqb s s' && cobs_eqb o o' && list_eqb (list_eqb N.eqb) p p' && cobs_eqb o2 o2' && list_eqb N.eqb t t'.

(* a call sequence may also contain further recover_from_wal() calls on the live coordinator *)
Inductive xstep := XS (s : step_in) | XRecover.

(* ---------------------------------------------------------------- the property oracle *)
(* [recs] = the records of the real log file with their END offsets, as decoded by the real
   deserializer; the records that survive a crash at byte k are those with end <= k *)
Definition surviving (recs : list (N * tentry)) (k : N) : list tentry :=
  map snd (filter (fun r => fst r <=? k) recs).
Definition has_complete (es : list tentry) (tx : N) (c : bool) : bool :=
  existsb (fun e => match e with TComplete t c' => N.eqb t tx && Bool.eqb c c' | _ => false end) es.
Definition has_any_complete (es : list tentry) (tx : N) : bool :=
  has_complete es tx true || has_complete es tx false.
Definition has_begin (es : list tentry) (tx : N) : bool :=
  existsb (fun e => match e with TBegin t _ => N.eqb t tx | _ => false end) es.
Definition reached_prepared (es : list tentry) (tx : N) : bool :=
  existsb (fun e => match e with TPhase t _ to => N.eqb t tx && N.eqb to PREPARED | _ => false end) es.
Definition left_preparing (es : list tentry) (tx : N) : bool :=
  existsb (fun e => match e with TPhase t _ _ => N.eqb t tx | _ => false end) es.

(* the last decision the surviving records hold for tx: the target of its last phase change *)
Definition last_phase (es : list tentry) (tx : N) : option N :=
  fold_left (fun acc e => match e with TPhase t _ to => if N.eqb t tx then Some to else acc | _ => acc end) es None.

(* the votes the live coordinator held when it declared the transaction Prepared: taken from
   the implementation's own live observations *)
Definition live_votes_at_prepared (steps : list xstep) (outs : list step_out) (lives : list cobs)
    (tx : N) : option (list (option vote)) :=
  let fix go (i : nat) (ss : list xstep) (os : list step_out) : option (list (option vote)) :=
    match ss, os with
    | XS (Vote t _ _) :: ss', [2; 1] :: os' =>
        if N.eqb t tx then
          match nth_error lives (S i) with
          | Some (txs, _) => match nth_error txs (N.to_nat tx) with Some (Some (_, vs)) => Some vs | _ => None end
          | None => None
          end
        else go (S i) ss' os'
    | _ :: ss', _ :: os' => go (S i) ss' os'
    | _, _ => None
    end in
  match go O steps outs with
  | Some vs => Some vs
  | None => (* prepared in an earlier generation: what this generation started from *)
      match lives with
      | (txs, _) :: _ => match nth_error txs (N.to_nat tx) with Some (Some (_, vs)) => Some vs | _ => None end
      | [] => None
      end
  end.

Definition is_ok (r : list N) : bool := list_eqb N.eqb r [0].
Definition is_err (r : list N) : bool := match r with 1 :: _ => true | _ => false end.

Definition oracle_tx (steps : list xstep) (outs : list step_out) (lives : list cobs)
    (es : list tentry) (ro : robs) (tx : N) : bool :=
  let '(stats, (o0, locks0), probes, (o1, _), touts) := ro in
  let here := nth (N.to_nat tx) o0 None in
  let probe := nth (N.to_nat tx) probes [] in
  if has_any_complete es tx then
    (* a logged outcome is never reversed: the transaction is gone; commit, abort and the
       timeout sweeper have nothing to act on *)
    (match here with None => true | Some _ => false end)
    && (match probe with [1; _; 1; _] => true | _ => false end)   (* commit -> Err, abort -> Err *)
    && negb (existsb (N.eqb tx) touts)
  else match last_phase es tx with
  | Some lp =>
    (* a decision was logged (all votes in -> Prepared, commit begun -> Committing, abort begun ->
       Aborting) but no outcome: the transaction comes back in exactly that phase -- a logged
       decision is not forgotten and not replaced by an earlier one --, with the votes the live
       coordinator held when it was declared Prepared, and can be driven to completion in the
       direction decided: Prepared -> commit Ok, Committing -> complete_commit Ok, Aborting ->
       commit refused, complete_abort Ok; afterwards it is gone *)
    match here with
    | Some (ph, vs) =>
        (ph =? lp)
        && (if reached_prepared es tx then
              match live_votes_at_prepared steps outs lives tx with
              | Some lv => list_eqb (option_eqb vote_eqb) vs lv
              | None => true
              end
            else true)
        && (if lp =? ABORTING then list_eqb N.eqb probe [1; 2; 0] else is_ok probe)
        && (match nth (N.to_nat tx) o1 None with None => true | Some _ => false end)
    | None => false
    end
  | None =>
    if has_begin es tx then
      (* still collecting votes: forgotten *)
      match here with None => true | Some _ => false end
    else true
  end.

Definition oracle_at (T : N) (steps : list xstep) (outs : list step_out) (lives : list cobs)
    (recs : list (N * tentry)) (k : N) (ro : option robs) : bool :=
  match ro with
  | None => false
  | Some r =>
      let es := surviving recs k in
      let '(_, (_, locks0), _, _, _) := r in
      (locks0 =? 0) && forallb (oracle_tx steps outs lives es r) (N_seq T)
  end.

(* a restart from an OLDER SNAPSHOT of the coordinator (save_to_store at a step boundary, then
   load_from_store + the log + recover_from_wal): recovery statistics, the pending table, and the
   lock handles whose key is still locked (sorted) *)
Definition sobs := (list N * cobs * list N)%type.
Definition sobs_eqb (a b : sobs) : bool :=
  let '(s, o, l) := a in let '(s', o', l') := b in
  list_eqb N.eqb s s' && cobs_eqb o o' && list_eqb N.eqb l l'.

(* "locks of completed transactions are released" and "a logged outcome is never reversed", with
   the lock table and the pending table of an older snapshot in place: a transaction whose
   completion is inside the surviving log is not pending after the recovery and none of the keys
   it had locked ([owners] = (handle, transaction) of every lock taken in the case) is locked *)
Definition oracle_snap (T : N) (owners : list (N * N)) (recs : list (N * tentry)) (k : N) (so : option sobs) : bool :=
  match so with
  | None => false
  | Some (_, (o0, _), locked) =>
      let es := surviving recs k in
      forallb (fun tx =>
        if has_any_complete es tx then
          (match nth (N.to_nat tx) o0 None with None => true | Some _ => false end)
          && forallb (fun ht => negb (N.eqb (snd ht) tx && existsb (N.eqb (fst ht)) locked)) owners
        else true) (N_seq T)
  end.

(* one generation as seen on the implementation *)
Definition gen_rec :=
  (N * list xstep * list step_out * list cobs * list N * N * list byte * list (N * tentry)
   * list (N * N * N * option robs) * N * list (N * N * N * N * option sobs))%type.
   (* clock at start, steps, replies, live observations (n+1), file length after each step,
      file length after open, file bytes, decoded records with end offsets,
      crash observations (from, to, step, obs), continuing offset,
      snapshot restarts (from, to, step, b, obs): crash offsets, b = number of steps completed when
      the snapshot was saved *)
Definition gens_case := (tab * N * list (N * N) * list gen_rec)%type.
Definition range (a z step : N) : list N :=
  map (fun i => a + i * step) (N_seq (N.succ ((z - a) / (N.max 1 step)))).

(* the live part: (a) the timeout sweep is a decision like any other -- every id cleanup_timeouts()
   reports (its abort is queued for broadcast, its locks are released) has its TxComplete{Aborted}
   in the log by the time the call returns; (b) no commit / abort / complete_* call succeeds on a
   transaction whose outcome was already in the log when the call was made (restored or not) *)
Fixpoint live_oracle (recs : list (N * tentry)) (prev : N) (steps : list xstep) (outs : list step_out)
    (ends : list N) : bool :=
  match steps, outs, ends with
  | s :: ss, o :: os, e :: es' =>
      (match s with
       | XS (Timeouts _ _) =>
           match o with
           | 3 :: ids => forallb (fun id => has_complete (surviving recs e) id false) ids
           | _ => true
           end
       | XS (Commit t _) | XS (Abort t) | XS (CompleteCommit t) | XS (CompleteAbort t) =>
           if is_ok o then negb (has_any_complete (surviving recs prev) t) else true
       | _ => true
       end) && live_oracle recs e ss os es'
  | _, _, _ => true
  end.
(* (c) "for every following sequence of recovery calls ... and further transactions": a further
   recover_from_wal() call on the live coordinator leaves every pending transaction pending, in its
   phase and with its votes (the log only confirms what the coordinator holds; a transaction still
   collecting votes is not in the way of anything the log restores) *)
Fixpoint recover_keeps (steps : list xstep) (outs : list step_out) (lives : list cobs) : bool :=
  match steps, outs, lives with
  | s :: ss, o :: os, l0 :: ((l1 :: _) as ls) =>
      (match s, o with
       | XRecover, 4 :: _ =>
           forallb (fun p => match fst p with None => true | Some x => txobs_eqb (Some x) (snd p) end)
                   (combine (fst l0) (fst l1))
       | _, _ => true
       end) && recover_keeps ss os ls
  | _, _, _ => true
  end.

Definition gen_oracle (T : N) (owners : list (N * N)) (g : gen_rec) : bool :=
  let '(now0, steps, outs, lives, ends, base, fbytes, recs, crashes, chosen, snaps) := g in
  live_oracle recs base steps outs ends && recover_keeps steps outs lives &&
  forallb (fun r => let '(a, z, stp, b, so) := r in
                    forallb (fun k => oracle_snap T owners recs k so) (range a z stp)) snaps &&
  forallb (fun r => let '(a, z, stp, ro) := r in
                    forallb (fun k => oracle_at T steps outs lives recs k ro) (range a z stp)) crashes.

(* ---------------------------------------------------------------- the model side *)
Section M.
Variable t : tab.
Variable T : N.
Notation mstep := (dstep (ser_of t) crc32u).
Notation mrestart := (restart (deser_of t) crc32u gen_tx_tail_repair gen_vote_scan_live gen_vote_first_wins).

Definition xstep_run (d : dcoord) (x : xstep) : dcoord * step_out :=
  match x with
  | XS s => mstep d s
  | XRecover =>
      match recover_live (deser_of t) crc32u gen_vote_scan_live gen_vote_first_wins d with
      | Some (d', stats) => (d', 4 :: stats)
      | None => (d, [1; 7])
      end
  end.
Fixpoint run_obs (d : dcoord) (steps : list xstep) : dcoord * list step_out * list cobs * list N :=
  match steps with
  | [] => (d, [], [], [])
  | s :: r =>
      let '(d1, out) := xstep_run d s in
      let '(d2, outs, os, es) := run_obs d1 r in
      (d2, out :: outs, observe T (co d1) :: os, N.of_nat (length (file d1)) :: es)
  end.

Definition timed_out_ids (now : N) (c : coord) : list N :=
  map fst (filter (fun p => (timeout (snd p) <? now - started (snd p)) && negb (phase (snd p) =? COMMITTING)) (pending c)).

(* instance A: natural completion of every transaction id, in order *)
Fixpoint probe_a (now : N) (c : coord) (txs : list N) : coord * list (list N) :=
  match txs with
  | [] => (c, [])
  | tx :: r =>
      let call s := step now c s in
      let '(c1, reply) :=
        match aget (pending c) tx with
        | Some tr =>
            if phase tr =? PREPARED then let '(c', _, o) := call (Commit tx (yes_handles tr)) in (c', o)
            else if phase tr =? COMMITTING then let '(c', _, o) := call (CompleteCommit tx) in (c', o)
            else let '(c', _, o1) := call (Commit tx (yes_handles tr)) in
                 let '(c'', _, o2) := step now c' (CompleteAbort tx) in (c'', o1 ++ o2)
        | None =>
            let '(c', _, o1) := call (Commit tx []) in
            let '(c'', _, o2) := step now c' (Abort tx) in (c'', o1 ++ o2)
        end in
      let '(c2, rs) := probe_a now c1 r in (c2, reply :: rs)
  end.

Definition rec_obs (now : N) (f : list byte) (k : N) : option robs :=
  match mrestart now (firstn (N.to_nat k) f) with
  | Some (d, stats) =>
      let o0 := observe T (co d) in
      let '(ca, probes) := probe_a now (co d) (N_seq T) in
      let '(_, _, touts) := step (now + 6000) (co d) (Timeouts (now + 6000) (timed_out_ids (now + 6000) (co d))) in
      Some (stats, o0, probes, observe T ca, tl touts)
  | None => None
  end.

(* the coordinator state a snapshot saved after the first b steps holds *)
Fixpoint state_after (d : dcoord) (steps : list xstep) (b : nat) : dcoord :=
  match b, steps with
  | S b', s :: r => state_after (fst (xstep_run d s)) r b'
  | _, _ => d
  end.
Definition locked_handles (c : coord) : list N := sort_N (map fst (locks c)).
Definition snap_obs (c0 : coord) (now : N) (f : list byte) (k : N) : option sobs :=
  match restart_from (deser_of t) crc32u gen_tx_tail_repair gen_vote_scan_live gen_vote_first_wins c0 now
                     (firstn (N.to_nat k) f) with
  | Some (d, stats) => Some (stats, observe T (co d), locked_handles (co d))
  | None => None
  end.

Fixpoint gens_model (d : dcoord) (gs : list gen_rec) : N :=
  match gs with
  | [] => V_OK
  | g :: rest =>
      let '(now0, steps, outs, lives, ends, base, fbytes, recs, crashes, chosen, snaps) := g in
      let d := DC (co d) (file d) now0 in
      let '(d1, mouts, os, es) := run_obs d steps in
      if negb (N.eqb base (N.of_nat (length (file d)))) then V_MISMATCH
      else if negb (list_eqb (list_eqb N.eqb) mouts outs) then V_MISMATCH
      else if negb (list_eqb cobs_eqb (observe T (co d) :: os) lives) then V_MISMATCH
      else if negb (list_eqb N.eqb es ends) then V_MISMATCH
      else if negb (list_eqb N.eqb (file d1) fbytes) then V_MISMATCH
      else if negb (forallb (fun r => let '(a, z, stp, ro) := r in
                                forallb (fun k => option_eqb robs_eqb (rec_obs (clock d1) fbytes k) ro) (range a z stp)) crashes)
           then V_MISMATCH
      else if negb (forallb (fun r => let '(a, z, stp, b, so) := r in
                                let c0 := co (state_after d steps (N.to_nat b)) in
                                forallb (fun k => option_eqb sobs_eqb (snap_obs c0 (clock d1) fbytes k) so) (range a z stp)) snaps)
           then V_MISMATCH
      else match rest with
           | [] => V_OK
           | g2 :: _ =>
               let '(now2, _, _, _, _, _, _, _, _, _, _) := g2 in
               match mrestart now2 (firstn (N.to_nat chosen) fbytes) with
               | Some (d2, _) => gens_model d2 rest
               | None => V_MISMATCH
               end
           end
  end.
End M.

Definition check_gens (c : gens_case) : N :=
  let '(t, T, owners, gs) := c in
  if negb (forallb (gen_oracle T owners) gs) then V_VIOLATION
  else gens_model t T (dc0 0) gs.
