(* C14/Inst.v -- PER-RUN OBLIGATIONS over gen/Gen_C14.v (regenerated from the Rust source). *)
From Coq Require Import String.
From NV.Common Require Import Base.
From NV.C14 Require Import Model Proofs.
From NV.gen Require Import Gen_C14.
Open Scope N_scope.

(* the regenerated AttenuationPolicy::attenuate is the modelled function, on every input *)
Lemma gen_attenuate_eq : forall p l k, gen_attenuate p l k = attenuate p l k.
Proof.
  intros p l k. unfold gen_attenuate, attenuate.
  destruct (N.ltb (horizon p) k); [reflexivity|].
  destruct l as [|[[|[]|]|[]|]]; try reflexivity.
Qed.

(* every allow-listed edge type is either an access edge (prefix VAULT_ACCESS) or a membership edge (prefix MEMBER) *)
Definition is_access (s : string) : bool := String.prefix "VAULT_ACCESS" s.
Definition is_member (s : string) : bool := String.prefix "MEMBER" s.
Lemma gen_allowed_ok :
  forallb (fun s => xorb (is_access s) (is_member s)) gen_allowed_edges = true /\
  existsb is_member gen_allowed_edges = true /\
  gen_allow_prefix_match = true /\ gen_max_bfs_depth = 32 /\ gen_default_policy = default_policy.
Proof. repeat split; reflexivity. Qed.

Lemma gen_sweep_ok : gen_sweep_on_check = true /\ gen_max_deleg_depth = 3.
Proof. split; reflexivity. Qed.

(* the sweep does not run (and loses no tracker entry) while the vault is sealed *)
Lemma gen_sealed_ok : gen_sealed_guard = true.
Proof. reflexivity. Qed.
