(* C14/Model.v -- executable model of the vault's access logic and of what it writes
   (tensor_vault/src/{vault,access,ttl,delegation,attenuation}.rs).  Definitions only.

   Identities and groups are numbers (0 = the root identity "node:root"); secrets are numbers.
   Permission levels: 0 = none, 1 = Read, 2 = Write, 3 = Admin.
   The access graph is two edge lists: membership edges (every allow-listed edge type that is not a
   VAULT_ACCESS edge: they are traversed but never grant) and access edges (VAULT_ACCESS_*:
   level, capacity, signature validity; they grant and are never traversed).
   The TTL tracker is a list of (entity, secret, expires_at); an expired entry makes the sweep delete
   EVERY access edge entity -> secret (as cleanup_expired_grants does), not only the one granted with
   that TTL.  Wall clock = the explicit `now` argument of every operation.
   What is written to the store / audit log / error strings is recorded as symbolic terms. *)
From NV.Common Require Import Base.
Open Scope N_scope.

(* ------------------------------------------------------------------ attenuation.rs *)
Record policy := Pol { admin_limit : N; write_limit : N; horizon : N }.
Definition default_policy : policy := Pol 1 2 10.

(* AttenuationPolicy::attenuate; 0 = None *)
Definition attenuate (p : policy) (lvl hops : N) : N :=
  if N.ltb (horizon p) hops then 0
  else match lvl with
       | 3 => if N.leb hops (admin_limit p) then 3 else if N.leb hops (write_limit p) then 2 else 1
       | 2 => if N.leb hops (write_limit p) then 2 else 1
       | 1 => 1
       | _ => 0
       end.

(* ------------------------------------------------------------------ access graph *)
Record grant := Gr { g_from : N; g_secret : N; g_level : N; g_cap : option N; g_valid : bool }.
Record ttl_entry := Tt { t_entity : N; t_secret : N; t_exp : N }.
Record deleg := Dg { d_parent : N; d_child : N; d_depth : N; d_secs : list N }.

(* one stored write: where, and the symbolic content *)
Inductive sym := SValue (v : N) | SName (s : N) | SEntity (e : N) | SConst (c : N).
Inductive term :=
| Plain (x : sym)
| Enc (t : term)          (* AES-GCM under a vault key *)
| Obf (t : term)          (* keyed hash of a name *)
| Pad (t : term)
| Cat (a b : term).
(* locations: 0 blob, 1 secret metadata, 2 access-control node, 3 TTL tracker record,
   4 delegation record, 5 audit record, 6 error string, 7 graph edge properties *)
Definition write := (N * term)%type.

Record st := St {
  secrets : list (N * N);        (* secret -> current value id *)
  members : list (N * N);        (* membership edges a -> b *)
  grants : list grant;           (* access edges *)
  ttls : list ttl_entry;
  delegs : list deleg;
  wlog : list write              (* everything written so far *)
}.
Definition init : st := St [] [] [] [] [] [].

Definition root : N := 0.

(* effective level one access edge yields at `hops` *)
Definition eff (p : policy) (g : grant) (hops : N) : N :=
  let a := attenuate p (g_level g) hops in
  if N.eqb a 0 then 0
  else match g_cap g with
       | Some c => if (1 <=? c) && (c <=? 3) then N.min a c else a
       | None => a
       end.

Definition mem (x : N) (l : list N) : bool := existsb (N.eqb x) l.

(* the VAULT_ACCESS edges of `cur` that point at `tgt` *)
Definition scan_grants (p : policy) (gs : list grant) (cur tgt hops best : N) : N :=
  fold_left (fun b g => if N.eqb (g_from g) cur && N.eqb (g_secret g) tgt && g_valid g
                        then N.max b (eff p g hops) else b) gs best.

(* the traversable edges of `cur`: unvisited targets are marked and queued at depth d+1 *)
Definition expand (ms : list (N * N)) (cur d : N) (vq : list N * list (N * N)) : list N * list (N * N) :=
  fold_left (fun vq e => let '(vis, q) := vq in
                         if N.eqb (fst e) cur && negb (mem (snd e) vis)
                         then (snd e :: vis, q ++ [(snd e, d + 1)]) else (vis, q)) ms vq.

(* AccessController::get_permission_level_verified; None = fuel exhausted *)
Fixpoint bfs (p : policy) (ms : list (N * N)) (gs : list grant) (tgt : N)
             (fuel : nat) (q : list (N * N)) (vis : list N) (best : N) : option N :=
  match fuel with
  | O => None
  | S f =>
      match q with
      | [] => Some best
      | (cur, d) :: q' =>
          if N.leb (horizon p) d then bfs p ms gs tgt f q' vis best
          else
            let best' := scan_grants p gs cur tgt (d + 1) best in
            let '(vis', q'') := expand ms cur d (vis, q') in
            bfs p ms gs tgt f q'' vis' best'
      end
  end.
Definition bfs_fuel (ms : list (N * N)) : nat := S (S (length ms)).
Definition perm_level (p : policy) (s : st) (src tgt : N) : option N :=
  bfs p (members s) (grants s) tgt (bfs_fuel (members s)) [(src, 0)] [src] 0.

(* AccessController::check_path (error kind only): any allow-listed path, depth < 32, no verification *)
Fixpoint reach_any (ms : list (N * N)) (gs : list grant) (tgt : N) (fuel : nat) (q : list (N * N)) (vis : list N) : bool :=
  match fuel with
  | O => false
  | S f =>
      match q with
      | [] => false
      | (cur, d) :: q' =>
          if N.leb 32 d then reach_any ms gs tgt f q' vis
          else if existsb (fun g => N.eqb (g_from g) cur && N.eqb (g_secret g) tgt) gs then true
          else let '(vis', q'') := expand ms cur d (vis, q') in reach_any ms gs tgt f q'' vis'
      end
  end.

(* ------------------------------------------------------------------ TTL tracker (ttl.rs) *)
Definition expired (now : N) (t : ttl_entry) : bool := N.leb (t_exp t) now.
(* cleanup_expired_grants: pop every expired entry; delete every access edge entity -> secret of each *)
Definition sweep (s : st) (now : N) : st :=
  let ex := filter (expired now) (ttls s) in
  St (secrets s) (members s)
     (filter (fun g => negb (existsb (fun t => N.eqb (t_entity t) (g_from g) && N.eqb (t_secret t) (g_secret g)) ex)) (grants s))
     (filter (fun t => negb (expired now t)) (ttls s)) (delegs s) (wlog s).

(* result codes *)
Definition R_OK : N := 0.
Definition R_DENIED : N := 1.        (* AccessDenied *)
Definition R_INSUFFICIENT : N := 2.  (* InsufficientPermission *)
Definition R_NOTFOUND : N := 3.
Definition R_GRAPH : N := 4.         (* GraphError (delegation rules) *)
Definition R_FUEL : N := 9.

Section Ops.
Variable pol : policy.
Variable sweep_on_check : bool.   (* gen: check_access_with_permission / has_access / get_permission sweep first *)
Variable max_deleg_depth : N.
Variable sealed_guard : bool.     (* gen: cleanup_expired_grants does nothing while the vault is sealed *)

Definition pre_check (s : st) (now : N) : st := if sweep_on_check then sweep s now else s.

(* Vault::get_permission *)
Definition get_permission (s : st) (now : N) (req sec : N) : st * option N :=
  if N.eqb req root then (s, Some 3)
  else let s1 := pre_check s now in (s1, perm_level pol s1 req sec).

(* Vault::check_access_with_permission: state after the sweep, result code *)
Definition check_access (s : st) (now : N) (req sec required : N) : st * N :=
  if N.eqb req root then (s, R_OK)
  else
    let s1 := pre_check s now in
    match perm_level pol s1 req sec with
    | None => (s1, R_FUEL)
    | Some l =>
        if N.leb required l && negb (N.eqb l 0) then (s1, R_OK)
        else if reach_any (members s1) (grants s1) sec (bfs_fuel (members s1)) [(req, 0)] [req]
             then (s1, R_INSUFFICIENT) else (s1, R_DENIED)
    end.

Definition has_secret (s : st) (sec : N) : bool := match aget (secrets s) sec with Some _ => true | None => false end.
Definition log (s : st) (w : list write) : st :=
  St (secrets s) (members s) (grants s) (ttls s) (delegs s) (wlog s ++ w).
Definition add_grant (s : st) (g : grant) : st :=
  St (secrets s) (members s) (grants s ++ [g]) (ttls s) (delegs s) (wlog s).
Definition name (sec : N) : term := Plain (SName sec).

(* what one Set/Rotate writes: blob, metadata, audit record *)
Definition w_value (req sec v : N) : list write :=
  [(0, Cat (Obf (name sec)) (Enc (Pad (Plain (SValue v)))));
   (1, Cat (Obf (name sec)) (Cat (Enc (name sec)) (Enc (Plain (SEntity req)))));
   (5, Cat (Plain (SEntity req)) (Obf (name sec)))].
Definition w_audit (req sec : N) : list write := [(5, Cat (Plain (SEntity req)) (Obf (name sec)))].
Definition w_edge (e sec : N) : list write := [(7, Cat (Plain (SEntity e)) (Obf (name sec)))].
Definition w_err (req sec : N) : list write := [(6, Cat (Plain (SEntity req)) (name sec))].

(* Vault::set *)
Definition op_set (s : st) (now req sec v : N) : st * N :=
  if has_secret s sec then
    let '(s1, r) := check_access s now req sec 2 in
    if N.eqb r R_OK then
      (log (St (aset (secrets s1) sec v) (members s1) (grants s1) (ttls s1) (delegs s1) (wlog s1)) (w_value req sec v), R_OK)
    else (log s1 (w_err req sec), r)
  else if negb (N.eqb req root) then (log s (w_err req sec), R_DENIED)
  else
    let s1 := St (aset (secrets s) sec v) (members s) (grants s ++ [Gr root sec 3 (Some 3) true]) (ttls s) (delegs s) (wlog s) in
    (* the access-control node stores the clear name in `_secret_key` (F-C14-name) *)
    (log s1 (w_value req sec v ++ [(2, Cat (Obf (name sec)) (name sec))] ++ w_edge root sec), R_OK).

(* Vault::get: sweep, check Read, read *)
Definition op_get (s : st) (now req sec : N) : st * N * option N :=
  let s0 := sweep s now in
  let '(s1, r) := check_access s0 now req sec 1 in
  if N.eqb r R_OK then
    match aget (secrets s1) sec with
    | Some v => (log s1 (w_audit req sec), R_OK, Some v)
    | None => (log s1 (w_err req sec), R_NOTFOUND, None)
    end
  else (log s1 (w_err req sec), r, None).

(* Vault::has_access *)
Definition has_access (s : st) (now req sec : N) : st * bool :=
  if N.eqb req root then (s, true)
  else let s1 := pre_check s now in
       (s1, match perm_level pol s1 req sec with Some l => negb (N.eqb l 0) | None => false end).

(* Vault::list with the wildcard pattern: accessible existing secrets (sorted by the caller) *)
Definition op_list (s : st) (now req : N) : st * list N :=
  let s0 := sweep s now in
  let '(s1, acc) := fold_left (fun sa kv => let '(sx, acc) := sa in
                                 let '(sy, ok) := has_access sx now req (fst kv) in
                                 (sy, if ok then acc ++ [fst kv] else acc))
                              (secrets s0) (s0, []) in
  (log s1 [(5, Plain (SEntity req))], acc).

(* Vault::list with an exact (wildcard-free) pattern: O(1) lookup of that one secret *)
Definition op_list_exact (s : st) (now req sec : N) : st * list N :=
  let s0 := sweep s now in
  if has_secret s0 sec then
    let '(s1, ok) := has_access s0 now req sec in
    (log s1 [(5, Cat (Plain (SEntity req)) (Obf (name sec)))], if ok then [sec] else [])
  else (log s0 [(5, Cat (Plain (SEntity req)) (Obf (name sec)))], []).

(* Vault::rotate *)
Definition op_rotate (s : st) (now req sec v : N) : st * N :=
  let '(s1, r) := check_access s now req sec 2 in
  if N.eqb r R_OK then
    if has_secret s1 sec then
      (log (St (aset (secrets s1) sec v) (members s1) (grants s1) (ttls s1) (delegs s1) (wlog s1)) (w_value req sec v), R_OK)
    else (log s1 (w_err req sec), R_NOTFOUND)
  else (log s1 (w_err req sec), r).

(* Vault::delete: the secret, its node, every access edge to it, the TTL entries of their sources *)
Definition op_delete (s : st) (now req sec : N) : st * N :=
  let '(s1, r) := check_access s now req sec 3 in
  if N.eqb r R_OK then
    if has_secret s1 sec then
      (log (St (adel (secrets s1) sec) (members s1)
               (filter (fun g => negb (N.eqb (g_secret g) sec)) (grants s1))
               (filter (fun t => negb (N.eqb (t_secret t) sec)) (ttls s1)) (delegs s1) (wlog s1))
           (w_audit req sec), R_OK)
    else (log s1 (w_err req sec), R_NOTFOUND)
  else (log s1 (w_err req sec), r).

(* Vault::grant_with_permission / grant_with_ttl (ttl = None: permanent) *)
Definition op_grant (s : st) (now req e sec lvl : N) (ttl : option N) : st * N :=
  let '(s1, r) := check_access s now req sec 3 in
  if N.eqb r R_OK then
    if has_secret s1 sec then
      let s2 := add_grant s1 (Gr e sec lvl (Some lvl) true) in
      let s3 := match ttl with
                | Some d => St (secrets s2) (members s2) (grants s2) (ttls s2 ++ [Tt e sec (now + d)]) (delegs s2)
                               (wlog s2 ++ [(3, Cat (Plain (SEntity e)) (name sec))])   (* persisted in clear (F-C14-name) *)
                | None => s2 end in
      (log s3 (w_edge e sec ++ w_audit req sec), R_OK)
    else (log s1 (w_err req sec), R_NOTFOUND)
  else (log s1 (w_err req sec), r).

(* Vault::revoke: every access edge entity -> secret, every TTL entry of the pair *)
Definition op_revoke (s : st) (now req e sec : N) : st * N :=
  let '(s1, r) := check_access s now req sec 3 in
  if N.eqb r R_OK then
    (log (St (secrets s1) (members s1)
             (filter (fun g => negb (N.eqb (g_from g) e && N.eqb (g_secret g) sec)) (grants s1))
             (filter (fun t => negb (N.eqb (t_entity t) e && N.eqb (t_secret t) sec)) (ttls s1)) (delegs s1) (wlog s1))
         (w_audit req sec), R_OK)
  else (log s1 (w_err req sec), r).

(* DelegationManager: is `anc` an ancestor of `x` (each child has one parent in the histories) *)
Fixpoint is_ancestor (ds : list deleg) (fuel : nat) (anc x : N) : bool :=
  match fuel with
  | O => false
  | S f => match find (fun d => N.eqb (d_child d) x) ds with
           | Some d => if N.eqb (d_parent d) anc then true else is_ancestor ds f anc (d_parent d)
           | None => false
           end
  end.
Definition deleg_depth (ds : list deleg) (x : N) : N :=
  match find (fun d => N.eqb (d_child d) x) ds with Some d => d_depth d | None => 0 end.

(* Vault::delegate: the parent must hold at least `lvl` on EVERY listed secret (checked in order) *)
Fixpoint deleg_check (s : st) (now parent : N) (secs : list N) (lvl : N) : st * N :=
  match secs with
  | [] => (s, R_OK)
  | x :: r =>
      let '(s1, pl) := get_permission s now parent x in
      match pl with
      | None => (s1, R_FUEL)
      | Some 0 => (log s1 (w_err parent x), R_DENIED)
      | Some l => if N.leb lvl l then deleg_check s1 now parent r lvl
                  else (log s1 (w_err parent x), R_INSUFFICIENT)
      end
  end.
Definition op_delegate (s : st) (now parent child : N) (secs : list N) (lvl : N) (ttl : option N) : st * N :=
  let '(s1, r) := deleg_check s now parent secs lvl in
  if negb (N.eqb r R_OK) then (s1, r)
  else if N.eqb parent child then (s1, R_GRAPH)
  else if is_ancestor (delegs s1) (S (length (delegs s1))) child parent then (s1, R_GRAPH)
  else if N.ltb max_deleg_depth (deleg_depth (delegs s1) parent + 1) then (s1, R_GRAPH)
  else
    let ds := filter (fun d => negb (N.eqb (d_parent d) parent && N.eqb (d_child d) child)) (delegs s1)
              ++ [Dg parent child (deleg_depth (delegs s1) parent + 1) secs] in
    let s2 := St (secrets s1) (members s1) (grants s1 ++ map (fun x => Gr child x lvl (Some lvl) true) secs)
                 (match ttl with Some d => ttls s1 ++ map (fun x => Tt child x (now + d)) secs | None => ttls s1 end)
                 ds (wlog s1) in
    (* the delegation record keeps the clear secret names (F-C14-name) *)
    (log s2 (flat_map (fun x => [(4, Cat (Plain (SEntity parent)) (Cat (Plain (SEntity child)) (name x)))]
                                 ++ (match ttl with Some _ => [(3, Cat (Plain (SEntity child)) (name x))] | None => [] end)
                                 ++ w_edge child x ++ w_audit parent x) secs), R_OK).

(* Vault::revoke_delegation (no permission check of its own: it is keyed by the (parent, child) record): every access
   edge child -> secret for each secret of the record, their TTL entries, the record itself *)
Definition op_revoke_deleg (s : st) (parent child : N) : st * N :=
  match find (fun d => N.eqb (d_parent d) parent && N.eqb (d_child d) child) (delegs s) with
  | None => (log s [(6, Cat (Plain (SEntity parent)) (Plain (SEntity child)))], R_NOTFOUND)
  | Some rec =>
      (log (St (secrets s) (members s)
               (filter (fun g => negb (N.eqb (g_from g) child && mem (g_secret g) (d_secs rec))) (grants s))
               (filter (fun t => negb (N.eqb (t_entity t) child && mem (t_secret t) (d_secs rec))) (ttls s))
               (filter (fun d => negb (N.eqb (d_parent d) parent && N.eqb (d_child d) child)) (delegs s)) (wlog s))
           (flat_map (fun x => w_audit parent x) (d_secs rec)), R_OK)
  end.

(* Vault::revoke_delegation_cascading: the (parent, child) record and every record below `child` in the
   delegation forest; for each of them every access edge record.child -> secret of the record and its TTL entries.
   Always Ok (also when there is no such record: the subtree below `child` is revoked all the same) *)
Fixpoint deleg_desc (ds : list deleg) (fuel : nat) (nodes : list N) : list N :=
  match fuel with
  | O => nodes
  | S f => deleg_desc ds f (nodes ++ map d_child (filter (fun d => mem (d_parent d) nodes && negb (mem (d_child d) nodes)) ds))
  end.
Definition op_revoke_cascade (s : st) (parent child : N) : st * N :=
  let nodes := deleg_desc (delegs s) (length (delegs s)) [child] in
  let gone := fun d => (N.eqb (d_parent d) parent && N.eqb (d_child d) child) || mem (d_parent d) nodes in
  let recs := filter gone (delegs s) in
  (St (secrets s) (members s)
      (filter (fun g => negb (existsb (fun r => N.eqb (d_child r) (g_from g) && mem (g_secret g) (d_secs r)) recs)) (grants s))
      (filter (fun t => negb (existsb (fun r => N.eqb (d_child r) (t_entity t) && mem (t_secret t) (d_secs r)) recs)) (ttls s))
      (filter (fun d => negb (gone d)) (delegs s)) (wlog s), R_OK).

(* seal(); the clock advances by d; get_permission(req, sec) while sealed; unseal().  While sealed the keyed
   name hash is computed with zeroed keys, so no stored node is found: a non-root requester gets nothing.
   With `sealed_guard` the sweep does nothing while sealed; without it the sweep pops the expired tracker
   entries but finds none of their edges -- the entries are lost and the edges stay *)
Definition op_sealed (s : st) (now d req : N) : st * option N :=
  let s' := if sealed_guard || negb sweep_on_check || N.eqb req root then s
            else St (secrets s) (members s) (grants s) (filter (fun t => negb (expired (now + d) t)) (ttls s)) (delegs s) (wlog s) in
  (s', if N.eqb req root then Some 3 else Some 0).

Inductive op :=
| OSet (req sec v : N) | OGet (req sec : N) | OList (req : N) | OListExact (req sec : N) | ORotate (req sec v : N) | ODelete (req sec : N)
| OGrant (req e sec lvl : N) (ttl : option N) | ORevoke (req e sec : N)
| ODelegate (parent child : N) (secs : list N) (lvl : N) (ttl : option N)
| OSealed (d req sec : N)
| ORevokeDeleg (parent child : N)
| ORevokeCascade (parent child : N)
| ORestart             (* the vault object is dropped and re-created over the same store and graph *)
| OPerm (req sec : N)
| OMember (a b : N) | OUnmember (a b : N)
| OTick (d : N).      (* time passes *)

(* the observable answer of one call *)
Inductive ans := ACode (r : N) | AVal (r : N) (v : option N) | AList (l : list N) | ALevel (l : option N).

Definition step (s : st) (now : N) (o : op) : st * ans :=
  match o with
  | OSet r x v => let '(s', c) := op_set s now r x v in (s', ACode c)
  | OGet r x => let '(s', c, v) := op_get s now r x in (s', AVal c v)
  | OList r => let '(s', l) := op_list s now r in (s', AList l)
  | OListExact r x => let '(s', l) := op_list_exact s now r x in (s', AList l)
  | ORotate r x v => let '(s', c) := op_rotate s now r x v in (s', ACode c)
  | ODelete r x => let '(s', c) := op_delete s now r x in (s', ACode c)
  | OGrant r e x l t => let '(s', c) := op_grant s now r e x l t in (s', ACode c)
  | ORevoke r e x => let '(s', c) := op_revoke s now r e x in (s', ACode c)
  | ODelegate p c x l t => let '(s', r) := op_delegate s now p c x l t in (s', ACode r)
  | OPerm r x => let '(s', l) := get_permission s now r x in (s', ALevel l)
  | OSealed d r _ => let '(s', l) := op_sealed s now d r in (s', ALevel l)
  | ORevokeDeleg pa c => let '(s', r) := op_revoke_deleg s pa c in (s', ACode r)
  | ORevokeCascade pa c => let '(s', r) := op_revoke_cascade s pa c in (s', ACode r)
  (* Vault::new reloads the persisted TTL tracker and delegation records and sweeps the expired grants *)
  | ORestart => (sweep s now, ACode 0)
  | OMember a b => (St (secrets s) (members s ++ [(a, b)]) (grants s) (ttls s) (delegs s) (wlog s), ACode 0)
  | OUnmember a b => (St (secrets s) (filter (fun e => negb (N.eqb (fst e) a && N.eqb (snd e) b)) (members s))
                         (grants s) (ttls s) (delegs s) (wlog s), ACode 0)
  | OTick _ => (s, ACode 0)
  end.

(* the clock: every call takes one unit, OTick d takes d more *)
Definition advance (now : N) (o : op) : N := match o with OTick d => now + 1 + d | OSealed d _ _ => now + 1 + d | _ => now + 1 end.

Fixpoint run (s : st) (now : N) (ops : list op) : st * list ans :=
  match ops with
  | [] => (s, [])
  | o :: r => let '(s1, a) := step s now o in
              let '(s2, l) := run s1 (advance now o) r in (s2, a :: l)
  end.

End Ops.

(* ------------------------------------------------------------------ what is readable without a key *)
Fixpoint exposed (t : term) : list sym :=
  match t with
  | Plain x => [x]
  | Enc _ => []
  | Obf _ => []
  | Pad t' => exposed t'
  | Cat a b => exposed a ++ exposed b
  end.
Definition is_value (x : sym) : bool := match x with SValue _ => true | _ => false end.
Definition is_name (x : sym) : bool := match x with SName _ => true | _ => false end.
