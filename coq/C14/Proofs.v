(* C14/Proofs.v -- lemmas and main theorems over the vault model. *)
From NV.Common Require Import Base.
From NV.C14 Require Import Model.
Open Scope N_scope.

Arguments N.add : simpl never.
Arguments N.sub : simpl never.
Arguments N.eqb : simpl never.
Arguments N.ltb : simpl never.
Arguments N.leb : simpl never.
Arguments N.min : simpl never.
Arguments N.max : simpl never.

(* ------------------------------------------------------------------ attenuation *)
Lemma attenuate_le p l k : attenuate p l k <= l.
Proof.
  unfold attenuate. destruct (N.ltb (horizon p) k); [lia|].
  destruct l as [|[[|[]|]|[]|]]; try lia;
    repeat match goal with |- context [if ?c then _ else _] => destruct c end; lia.
Qed.

(* more hops never give more *)
Lemma attenuate_antitone p l k k' : k <= k' -> attenuate p l k' <= attenuate p l k.
Proof.
  intros Hk. unfold attenuate.
  destruct (N.ltb_spec (horizon p) k'); [lia|].
  destruct (N.ltb_spec (horizon p) k); [lia|].
  destruct l as [|[[|[]|]|[]|]]; try lia;
    repeat match goal with |- context [N.leb ?a ?b] => destruct (N.leb_spec a b) end; lia.
Qed.

Lemma eff_antitone p g k k' : k <= k' -> eff p g k' <= eff p g k.
Proof.
  intros Hk. unfold eff. pose proof (attenuate_antitone p (g_level g) k k' Hk) as Ha.
  destruct (N.eqb_spec (attenuate p (g_level g) k') 0) as [E|E]; [lia|].
  destruct (N.eqb_spec (attenuate p (g_level g) k) 0) as [E0|E0]; [lia|].
  destruct (g_cap g) as [c|]; [|exact Ha].
  destruct ((1 <=? c) && (c <=? 3)); lia.
Qed.

Lemma eff_le_level p g k : eff p g k <= g_level g.
Proof.
  unfold eff. pose proof (attenuate_le p (g_level g) k).
  destruct (N.eqb (attenuate p (g_level g) k) 0); [lia|].
  destruct (g_cap g) as [c|]; [|assumption]. destruct ((1 <=? c) && (c <=? 3)); lia.
Qed.

Lemma mem_spec x l : mem x l = true <-> In x l.
Proof.
  unfold mem. rewrite existsb_exists. split.
  - intros (y & Hy & E). apply N.eqb_eq in E. subst. exact Hy.
  - intros H. exists x. split; [exact H|apply N.eqb_refl].
Qed.

(* ------------------------------------------------------------------ paths and the declarative level *)
Inductive path (ms : list (N * N)) (src : N) : N -> nat -> Prop :=
| path_nil : path ms src src O
| path_snoc v w k : path ms src v k -> In (v, w) ms -> path ms src w (S k).

(* level L is conferred: some membership path shorter than the horizon ends in a valid access edge to the
   target whose attenuated, capacity-limited level is at least L *)
Definition Conferred (p : policy) (ms : list (N * N)) (gs : list grant) (src tgt L : N) : Prop :=
  exists v k g, path ms src v k /\ N.of_nat k < horizon p /\
    In g gs /\ g_from g = v /\ g_secret g = tgt /\ g_valid g = true /\ L <= eff p g (N.of_nat k + 1).

Lemma Conferred_mono p ms gs src tgt L L' : L' <= L -> Conferred p ms gs src tgt L -> Conferred p ms gs src tgt L'.
Proof. intros HL (v & k & g & H). exists v, k, g. intuition lia. Qed.

(* ------------------------------------------------------------------ the two folds of one BFS step *)
Lemma scan_grants_spec p gs cur tgt hops : forall best,
  let r := scan_grants p gs cur tgt hops best in
  best <= r /\
  (forall g, In g gs -> g_from g = cur -> g_secret g = tgt -> g_valid g = true -> eff p g hops <= r) /\
  (r = best \/ exists g, In g gs /\ g_from g = cur /\ g_secret g = tgt /\ g_valid g = true /\ r = eff p g hops).
Proof.
  unfold scan_grants. induction gs as [|g gs IH]; intros best; cbn [fold_left].
  - split; [lia|]. split; [intros g []|left; reflexivity].
  - set (b1 := if N.eqb (g_from g) cur && N.eqb (g_secret g) tgt && g_valid g then N.max best (eff p g hops) else best).
    destruct (IH b1) as (H1 & H2 & H3). fold b1.
    assert (Hb1 : best <= b1) by (subst b1; destruct (N.eqb (g_from g) cur && N.eqb (g_secret g) tgt && g_valid g); lia).
    split; [lia|]. split.
    + intros g' [<-|Hin] Ef Es Ev.
      * subst b1. rewrite Ef, Es, Ev, !N.eqb_refl in *. cbn [andb] in *. lia.
      * apply H2; assumption.
    + destruct H3 as [H3|(g' & Hin & Ef & Es & Ev & Er)].
      * subst b1. destruct (N.eqb (g_from g) cur && N.eqb (g_secret g) tgt && g_valid g) eqn:Ec.
        -- apply andb_true_iff in Ec. destruct Ec as [Ec Ev]. apply andb_true_iff in Ec. destruct Ec as [Ef Es].
           apply N.eqb_eq in Ef, Es.
           destruct (N.max_spec best (eff p g hops)) as [[_ Em]|[_ Em]].
           ++ right. exists g. repeat split; auto. left; reflexivity. congruence.
           ++ left. congruence.
        -- left. exact H3.
      * right. exists g'. repeat split; auto. right; exact Hin.
Qed.

Lemma expand_spec cur d : forall ms vis q,
  let r := expand ms cur d (vis, q) in
  exists added, snd r = q ++ added /\
    (forall x, In x added -> snd x = d + 1 /\ In (cur, fst x) ms) /\
    (forall w, In w (fst r) <-> In w vis \/ exists x, In x added /\ fst x = w) /\
    (forall w, In (cur, w) ms -> In w (fst r)).
Proof.
  unfold expand. induction ms as [|e ms IH]; intros vis q; cbn [fold_left].
  - exists []. rewrite app_nil_r. split; [reflexivity|]. split; [intros x []|]. split.
    + intros w. split; [auto|intros [H|(x & [] & _)]; exact H].
    + intros w [].
  - destruct (N.eqb (fst e) cur && negb (mem (snd e) vis)) eqn:Ec.
    + destruct (IH (snd e :: vis) (q ++ [(snd e, d + 1)])) as (added & E1 & E2 & E3 & E4).
      exists ((snd e, d + 1) :: added). split; [rewrite E1, <- app_assoc; reflexivity|].
      apply andb_true_iff in Ec. destruct Ec as [Ef Em]. apply N.eqb_eq in Ef.
      split; [|split].
      * intros x [<-|Hx]; cbn [fst snd].
        -- split; [reflexivity|]. left. destruct e; cbn in *. congruence.
        -- destruct (E2 x Hx). split; [assumption|right; assumption].
      * intros w. rewrite E3. cbn [In]. split.
        -- intros [[<-|H]|(x & Hx & Ex)].
           ++ right. exists (snd e, d + 1). split; [left; reflexivity|reflexivity].
           ++ left; exact H.
           ++ right. exists x. split; [right; exact Hx|exact Ex].
        -- intros [H|(x & [<-|Hx] & Ex)].
           ++ left; right; exact H.
           ++ left; left. exact Ex.
           ++ right. exists x. auto.
      * intros w [Ew|Hw].
        -- apply E3. left. left. subst e. reflexivity.
        -- apply E4; exact Hw.
    + destruct (IH vis q) as (added & E1 & E2 & E3 & E4).
      exists added. split; [exact E1|]. split; [|split].
      * intros x Hx. destruct (E2 x Hx). split; [assumption|right; assumption].
      * exact E3.
      * intros w [Ew|Hw]; [|apply E4; exact Hw].
        apply E3. subst e. cbn [fst snd] in Ec. rewrite N.eqb_refl in Ec. cbn [andb] in Ec.
        apply negb_false_iff in Ec. apply mem_spec in Ec. left; exact Ec.
Qed.

(* ------------------------------------------------------------------ BFS = declarative maximum *)
Section BFS.
Variable p : policy.
Variable ms : list (N * N).
Variable gs : list grant.
Variable src tgt : N.

(* ghost: `done` = the nodes already dequeued, with the depth they were queued at; d0 = current level *)
Record BInv (d0 : N) (done q : list (N * N)) (vis : list N) (best : N) : Prop := {
  bi_path : forall v d, In (v, d) (done ++ q) -> path ms src v (N.to_nat d);
  bi_done : forall v d, In (v, d) done -> d <= d0;
  bi_q : exists qa qb : list (N * N), q = qa ++ qb /\ (forall x, In x qa -> snd x = d0) /\ (forall x, In x qb -> snd x = d0 + 1);
  bi_vis : forall v, In v vis <-> exists d, In (v, d) (done ++ q);
  bi_succ : forall u du, In (u, du) done -> du < horizon p ->
            forall w, In (u, w) ms -> exists dw, In (w, dw) (done ++ q) /\ dw <= du + 1;
  bi_src : In (src, 0) (done ++ q);
  bi_sound : 1 <= best -> Conferred p ms gs src tgt best;
  bi_compl : forall u du, In (u, du) done -> du < horizon p ->
             forall g, In g gs -> g_from g = u -> g_secret g = tgt -> g_valid g = true -> eff p g (du + 1) <= best
}.

Definition Post (r : N) : Prop := forall L, 1 <= L -> (L <= r <-> Conferred p ms gs src tgt L).

Lemma BInv_final d0 done vis best : BInv d0 done [] vis best -> Post best.
Proof.
  intros I L HL. split.
  - intros Hle. apply (Conferred_mono _ _ _ _ _ best); [exact Hle|]. apply (bi_sound _ _ _ _ _ I). lia.
  - intros (v & k & g & Hp & Hk & Hg & Ef & Es & Ev & Hle).
    assert (Hd : exists d, In (v, d) done /\ d <= N.of_nat k).
    { clear Hle Hg Ef Es Ev g. induction Hp as [|v w k Hp IH Hedge].
      - exists 0. split; [|lia]. pose proof (bi_src _ _ _ _ _ I) as H. rewrite app_nil_r in H. exact H.
      - destruct (IH ltac:(lia)) as (d & Hd & Hdk).
        destruct (bi_succ _ _ _ _ _ I v d Hd ltac:(lia) w Hedge) as (dw & Hw & Hdw).
        rewrite app_nil_r in Hw. exists dw. split; [exact Hw|lia]. }
    destruct Hd as (d & Hd & Hdk).
    pose proof (bi_compl _ _ _ _ _ I v d Hd ltac:(lia) g Hg Ef Es Ev) as Hc.
    pose proof (eff_antitone p g (d + 1) (N.of_nat k + 1) ltac:(lia)). lia.
Qed.

Lemma in_mid {A} (x y : A) l1 l2 : In x ((l1 ++ [y]) ++ l2) <-> In x (l1 ++ y :: l2).
Proof. rewrite <- app_assoc. reflexivity. Qed.

(* popping the head (cur, d): the new level is d, the rest of the queue is at depth d or d + 1 *)
Lemma pop_levels d0 done cur d q' :
  (forall v dv, In (v, dv) done -> dv <= d0) ->
  (exists qa qb : list (N * N), (cur, d) :: q' = qa ++ qb /\ (forall x, In x qa -> snd x = d0) /\ (forall x, In x qb -> snd x = d0 + 1)) ->
  (forall v dv, In (v, dv) (done ++ [(cur, d)]) -> dv <= d) /\
  exists qa qb : list (N * N), q' = qa ++ qb /\ (forall x, In x qa -> snd x = d) /\ (forall x, In x qb -> snd x = d + 1).
Proof.
  intros Hdone (qa & qb & Eq & Ha & Hb).
  destruct qa as [|x qa].
  - cbn in Eq. destruct qb as [|y qb]; [discriminate|]. injection Eq as E1 E2. subst y q'.
    pose proof (Hb (cur, d) ltac:(left; reflexivity)) as Hd. cbn in Hd. split.
    + intros v dv Hin. apply in_app_or in Hin. destruct Hin as [Hin|[E|[]]].
      * specialize (Hdone _ _ Hin). lia.
      * injection E as _ <-. lia.
    + exists qb, []. rewrite app_nil_r. split; [reflexivity|]. split.
      * intros x Hx. rewrite (Hb x ltac:(right; exact Hx)). lia.
      * intros x [].
  - cbn in Eq. injection Eq as E1 E2. subst x q'.
    pose proof (Ha (cur, d) ltac:(left; reflexivity)) as Hd. cbn in Hd. split.
    + intros v dv Hin. apply in_app_or in Hin. destruct Hin as [Hin|[E|[]]].
      * specialize (Hdone _ _ Hin). lia.
      * injection E as _ <-. lia.
    + exists qa, qb. split; [reflexivity|]. split.
      * intros x Hx. rewrite (Ha x ltac:(right; exact Hx)). lia.
      * intros x Hx. rewrite (Hb x Hx). lia.
Qed.

Lemma bfs_correct : forall fuel d0 done q vis best r,
  BInv d0 done q vis best -> bfs p ms gs tgt fuel q vis best = Some r -> Post r.
Proof.
  induction fuel as [|fuel IH]; intros d0 done q vis best r I Hb; [discriminate|].
  cbn [bfs] in Hb. destruct q as [|[cur d] q'].
  - injection Hb as <-. eapply BInv_final; exact I.
  - destruct (pop_levels d0 done cur d q' (bi_done _ _ _ _ _ I) (bi_q _ _ _ _ _ I)) as (Hdone' & qa & qb & Eq' & Hqa & Hqb).
    assert (Hcur : In (cur, d) (done ++ (cur, d) :: q')) by (apply in_or_app; right; left; reflexivity).
    destruct (N.leb_spec (horizon p) d) as [Hh|Hh].
    + (* beyond the horizon: dequeued, not expanded *)
      apply (IH d (done ++ [(cur, d)]) q' vis best r); [|exact Hb].
      constructor.
      * intros v dv Hin. apply in_mid in Hin. apply (bi_path _ _ _ _ _ I); exact Hin.
      * exact Hdone'.
      * exists qa, qb. auto.
      * intros v. rewrite (bi_vis _ _ _ _ _ I v). split; intros (dv & Hin); exists dv; apply in_mid; exact Hin.
      * intros u du Hin Hlt w Hw. apply in_app_or in Hin. destruct Hin as [Hin|[E|[]]].
        -- destruct (bi_succ _ _ _ _ _ I u du Hin Hlt w Hw) as (dw & Hdw & Hle). exists dw. split; [apply in_mid; exact Hdw|exact Hle].
        -- injection E as <- <-. lia.
      * apply in_mid. exact (bi_src _ _ _ _ _ I).
      * exact (bi_sound _ _ _ _ _ I).
      * intros u du Hin Hlt g Hg Ef Es Ev. apply in_app_or in Hin. destruct Hin as [Hin|[E|[]]].
        -- apply (bi_compl _ _ _ _ _ I u du Hin Hlt g Hg Ef Es Ev).
        -- injection E as <- <-. lia.
    + (* expanded *)
      destruct (scan_grants_spec p gs cur tgt (d + 1) best) as (S1 & S2 & S3).
      set (best' := scan_grants p gs cur tgt (d + 1) best) in *.
      destruct (expand_spec cur d ms vis q') as (added & X1 & X2 & X3 & X4).
      destruct (expand ms cur d (vis, q')) as [vis' q''] eqn:Eexp. cbn [fst snd] in X1, X3, X4. subst q''.
      assert (Hpcur : path ms src cur (N.to_nat d)) by (apply (bi_path _ _ _ _ _ I); exact Hcur).
      assert (Hvis' : forall v, In v vis' <-> exists dv, In (v, dv) ((done ++ [(cur, d)]) ++ q' ++ added)).
      { intros v. rewrite X3, (bi_vis _ _ _ _ _ I v). split.
        - intros [(dv & Hin)|(x & Hx & Ex)].
          + exists dv. rewrite app_assoc. apply in_or_app. left. apply in_mid. exact Hin.
          + exists (snd x). rewrite app_assoc. apply in_or_app. right. destruct x; cbn in *; subst; exact Hx.
        - intros (dv & Hin). rewrite app_assoc in Hin. apply in_app_or in Hin. destruct Hin as [Hin|Hin].
          + left. exists dv. apply in_mid. exact Hin.
          + right. exists (v, dv). auto. }
      assert (Hbound : forall v dv, In (v, dv) ((done ++ [(cur, d)]) ++ q' ++ added) -> dv <= d + 1).
      { intros v dv Hin. apply in_app_or in Hin. destruct Hin as [Hin|Hin].
        - specialize (Hdone' _ _ Hin). lia.
        - apply in_app_or in Hin. destruct Hin as [Hin|Hin].
          + rewrite Eq' in Hin. apply in_app_or in Hin. destruct Hin as [Hin|Hin].
            * specialize (Hqa _ Hin). cbn in Hqa. lia.
            * specialize (Hqb _ Hin). cbn in Hqb. lia.
          + destruct (X2 _ Hin) as [E _]. cbn in E. lia. }
      apply (IH d (done ++ [(cur, d)]) (q' ++ added) vis' best' r); [|exact Hb].
      constructor.
      * intros v dv Hin. rewrite app_assoc in Hin. apply in_app_or in Hin. destruct Hin as [Hin|Hin].
        -- apply in_mid in Hin. apply (bi_path _ _ _ _ _ I); exact Hin.
        -- destruct (X2 _ Hin) as [E Hedge]. cbn [fst snd] in E, Hedge. subst dv.
           replace (N.to_nat (d + 1)) with (S (N.to_nat d)) by lia.
           eapply path_snoc; eassumption.
      * exact Hdone'.
      * exists qa, (qb ++ added). split; [rewrite Eq', app_assoc; reflexivity|]. split; [exact Hqa|].
        intros x Hx. apply in_app_or in Hx. destruct Hx as [Hx|Hx]; [apply Hqb; exact Hx|apply (X2 x Hx)].
      * exact Hvis'.
      * intros u du Hin Hlt w Hw. apply in_app_or in Hin. destruct Hin as [Hin|[E|[]]].
        -- destruct (bi_succ _ _ _ _ _ I u du Hin Hlt w Hw) as (dw & Hdw & Hle). exists dw. split; [|exact Hle].
           rewrite app_assoc. apply in_or_app. left. apply in_mid. exact Hdw.
        -- injection E as <- <-. apply X4 in Hw. apply Hvis' in Hw. destruct Hw as (dw & Hdw).
           exists dw. split; [exact Hdw|apply (Hbound w dw Hdw)].
      * rewrite app_assoc. apply in_or_app. left. apply in_mid. exact (bi_src _ _ _ _ _ I).
      * intros Hb1. destruct S3 as [E|(g & Hg & Ef & Es & Ev & Er)].
        -- rewrite E in *. apply (bi_sound _ _ _ _ _ I). exact Hb1.
        -- exists cur, (N.to_nat d), g. rewrite N2Nat.id. repeat split; auto. lia.
      * intros u du Hin Hlt g Hg Ef Es Ev. apply in_app_or in Hin. destruct Hin as [Hin|[E|[]]].
        -- pose proof (bi_compl _ _ _ _ _ I u du Hin Hlt g Hg Ef Es Ev). lia.
        -- injection E as <- <-. apply S2; assumption.
Qed.

Lemma BInv_init : BInv 0 [] [(src, 0)] [src] 0.
Proof.
  constructor.
  - intros v d [E|[]]. injection E as <- <-. constructor.
  - intros v d [].
  - exists [(src, 0)], []. split; [reflexivity|]. split; [intros x [<-|[]]; reflexivity|intros x []].
  - intros v. cbn. split.
    + intros [<-|[]]. exists 0. left; reflexivity.
    + intros (d & [E|[]]). injection E as <- _. left; reflexivity.
  - intros u du [].
  - left; reflexivity.
  - lia.
  - intros u du [].
Qed.
End BFS.

(* get_permission_level_verified = the declarative maximum (when the fuel suffices, which the result says) *)
Theorem perm_level_spec p s src tgt r :
  perm_level p s src tgt = Some r ->
  forall L, 1 <= L -> (L <= r <-> Conferred p (members s) (grants s) src tgt L).
Proof.
  unfold perm_level. intros H. eapply bfs_correct; [apply BInv_init|exact H].
Qed.

(* ------------------------------------------------------------------ guarded operations *)
(* the access edges that are live at `now`: the pair (entity, secret) has no expired TTL entry *)
Definition pair_expired (s : st) (now : N) (g : grant) : bool :=
  existsb (fun t => expired now t && N.eqb (t_entity t) (g_from g) && N.eqb (t_secret t) (g_secret g)) (ttls s).
Definition live_grants (s : st) (now : N) : list grant := filter (fun g => negb (pair_expired s now g)) (grants s).

Lemma sweep_grants s now : grants (sweep s now) = live_grants s now.
Proof.
  unfold sweep, live_grants. cbn [grants]. apply filter_ext. intros g. f_equal.
  unfold pair_expired. induction (ttls s) as [|t l IH]; [reflexivity|].
  cbn [filter existsb]. destruct (expired now t) eqn:E; cbn [existsb andb]; rewrite IH; reflexivity.
Qed.
Lemma sweep_members s now : members (sweep s now) = members s. Proof. reflexivity. Qed.
Lemma sweep_secrets s now : secrets (sweep s now) = secrets s. Proof. reflexivity. Qed.
Lemma sweep_wlog s now : wlog (sweep s now) = wlog s. Proof. reflexivity. Qed.

(* no live access edge belongs to a pair with an expired TTL entry *)
Lemma live_grants_unexpired s now g t :
  In g (live_grants s now) -> In t (ttls s) -> t_entity t = g_from g -> t_secret t = g_secret g -> now < t_exp t.
Proof.
  unfold live_grants. intros Hg Ht E1 E2. apply filter_In in Hg. destruct Hg as [_ Hg].
  apply negb_true_iff in Hg. unfold pair_expired in Hg.
  destruct (N.ltb_spec now (t_exp t)) as [H|H]; [exact H|exfalso].
  assert (existsb (fun t0 => expired now t0 && N.eqb (t_entity t0) (g_from g) && N.eqb (t_secret t0) (g_secret g)) (ttls s) = true).
  { apply existsb_exists. exists t. split; [exact Ht|]. unfold expired. rewrite E1, E2, !N.eqb_refl.
    replace (N.leb (t_exp t) now) with true by (symmetry; apply N.leb_le; exact H). reflexivity. }
  congruence.
Qed.

Lemma live_grants_sweep s now : live_grants (sweep s now) now = live_grants s now.
Proof.
  unfold live_grants at 1. rewrite sweep_grants.
  rewrite <- (filter_ext_in (fun _ => true)); [induction (live_grants s now); cbn; congruence|].
  intros g Hg. symmetry. apply negb_true_iff. unfold pair_expired, sweep. cbn [ttls].
  destruct (existsb _ (filter _ (ttls s))) eqn:E; [|reflexivity].
  apply existsb_exists in E. destruct E as (t & Ht & Et). apply filter_In in Ht. destruct Ht as [_ Ht].
  apply andb_true_iff in Et. destruct Et as [Et _]. apply andb_true_iff in Et. destruct Et as [Et _].
  rewrite Et in Ht. discriminate.
Qed.

Lemma iter_shift {A} (f : A -> A) k x : Nat.iter (S k) f x = Nat.iter k f (f x).
Proof. induction k as [|k IH]; [reflexivity|]. cbn in *. rewrite IH. reflexivity. Qed.

Section Guard.
Variable pol : policy.
Variable maxd : N.
Notation check_access := (check_access pol true).
Notation get_permission := (get_permission pol true).

(* Vault::check_access_with_permission: an Ok for a non-root requester means the live grants confer the level *)
Theorem check_access_sound s now req sec required s1 :
  check_access s now req sec required = (s1, R_OK) -> req <> root -> 1 <= required ->
  s1 = sweep s now /\ Conferred pol (members s) (live_grants s now) req sec required.
Proof.
  unfold Model.check_access, pre_check. destruct (N.eqb_spec req root) as [E|_]; [intros _ Hr; contradiction|].
  destruct (perm_level pol (sweep s now) req sec) as [l|] eqn:El; [|intros E; injection E as _ E; discriminate].
  destruct (N.leb required l && negb (N.eqb l 0)) eqn:Ec.
  - intros E _ Hreq. injection E as <-. split; [reflexivity|].
    apply andb_true_iff in Ec. destruct Ec as [Ec _]. apply N.leb_le in Ec.
    pose proof (perm_level_spec pol (sweep s now) req sec l El required Hreq) as [H _].
    rewrite sweep_members, sweep_grants in H. apply H. exact Ec.
  - destruct (reach_any _ _ _ _ _ _); intros E; injection E as _ E; discriminate.
Qed.

Lemma check_access_state s now req sec required s1 r :
  check_access s now req sec required = (s1, r) -> s1 = s \/ s1 = sweep s now.
Proof.
  unfold Model.check_access, pre_check. destruct (N.eqb req root); [intros E; injection E as <- _; left; reflexivity|].
  destruct (perm_level pol (sweep s now) req sec) as [l|]; [|intros E; injection E as <- _; right; reflexivity].
  destruct (N.leb required l && negb (N.eqb l 0)); [intros E; injection E as <- _; right; reflexivity|].
  destruct (reach_any _ _ _ _ _ _); intros E; injection E as <- _; right; reflexivity.
Qed.

(* every guarded public operation: success for a non-root requester => the live grants confer the required level
   at that instant (get 1, set-on-existing/rotate 2, delete/grant/grant_with_ttl/revoke 3) *)
Theorem op_get_sound s now req sec s' v : op_get pol true s now req sec = (s', R_OK, v) -> req <> root ->
  Conferred pol (members s) (live_grants s now) req sec 1.
Proof.
  unfold op_get. destruct (check_access (sweep s now) now req sec 1) as [s1 r] eqn:Ec.
  destruct (N.eqb_spec r R_OK) as [->|Hr].
  - intros _ Hroot. destruct (check_access_sound _ _ _ _ _ _ Ec Hroot ltac:(lia)) as [_ H].
    rewrite sweep_members, live_grants_sweep in H. exact H.
  - intros E. injection E as _ E _. congruence.
Qed.

Theorem op_rotate_sound s now req sec v s' : op_rotate pol true s now req sec v = (s', R_OK) -> req <> root ->
  Conferred pol (members s) (live_grants s now) req sec 2.
Proof.
  unfold op_rotate. destruct (check_access s now req sec 2) as [s1 r] eqn:Ec.
  destruct (N.eqb_spec r R_OK) as [->|Hr].
  - intros _ Hroot. apply (check_access_sound _ _ _ _ _ _ Ec Hroot ltac:(lia)).
  - intros E. injection E as _ E. congruence.
Qed.

Theorem op_set_sound s now req sec v s' : op_set pol true s now req sec v = (s', R_OK) -> req <> root ->
  has_secret s sec = true /\ Conferred pol (members s) (live_grants s now) req sec 2.
Proof.
  unfold op_set. destruct (has_secret s sec) eqn:Eh.
  - destruct (check_access s now req sec 2) as [s1 r] eqn:Ec.
    destruct (N.eqb_spec r R_OK) as [->|Hr].
    + intros _ Hroot. split; [reflexivity|]. apply (check_access_sound _ _ _ _ _ _ Ec Hroot ltac:(lia)).
    + intros E. injection E as _ E. congruence.
  - destruct (N.eqb_spec req root) as [->|Hne]; cbn [negb].
    + intros _ Hr. contradiction.
    + intros E. injection E as _ E. discriminate.
Qed.

Theorem op_delete_sound s now req sec s' : op_delete pol true s now req sec = (s', R_OK) -> req <> root ->
  Conferred pol (members s) (live_grants s now) req sec 3.
Proof.
  unfold op_delete. destruct (check_access s now req sec 3) as [s1 r] eqn:Ec.
  destruct (N.eqb_spec r R_OK) as [->|Hr].
  - intros _ Hroot. apply (check_access_sound _ _ _ _ _ _ Ec Hroot ltac:(lia)).
  - intros E. injection E as _ E. congruence.
Qed.

(* granting requires Admin *)
Theorem op_grant_needs_admin s now req e sec lvl ttl s' : op_grant pol true s now req e sec lvl ttl = (s', R_OK) -> req <> root ->
  Conferred pol (members s) (live_grants s now) req sec 3.
Proof.
  unfold op_grant. destruct (check_access s now req sec 3) as [s1 r] eqn:Ec.
  destruct (N.eqb_spec r R_OK) as [->|Hr].
  - intros _ Hroot. apply (check_access_sound _ _ _ _ _ _ Ec Hroot ltac:(lia)).
  - intros E. injection E as _ E. congruence.
Qed.

Theorem op_revoke_needs_admin s now req e sec s' : op_revoke pol true s now req e sec = (s', R_OK) -> req <> root ->
  Conferred pol (members s) (live_grants s now) req sec 3.
Proof.
  unfold op_revoke. destruct (check_access s now req sec 3) as [s1 r] eqn:Ec.
  destruct (N.eqb_spec r R_OK) as [->|Hr].
  - intros _ Hroot. apply (check_access_sound _ _ _ _ _ _ Ec Hroot ltac:(lia)).
  - intros E. injection E as _ E. congruence.
Qed.

(* get_permission never reports more than the live grants confer *)
Theorem get_permission_sound s now req sec s1 l : get_permission s now req sec = (s1, Some l) -> req <> root -> 1 <= l ->
  Conferred pol (members s) (live_grants s now) req sec l.
Proof.
  unfold Model.get_permission, pre_check. destruct (N.eqb_spec req root) as [E|_]; [intros _ Hr; contradiction|].
  intros E _ Hl. injection E as _ E.
  pose proof (perm_level_spec pol (sweep s now) req sec l E l Hl) as [H _].
  rewrite sweep_members, sweep_grants in H. apply H. lia.
Qed.

(* delegation: the delegating parent holds at least the delegated level on EVERY delegated secret; the checks
   run in list order, each against the state (and live grants) it is evaluated in *)
Lemma deleg_check_sound : forall secs s now parent lvl s1,
  deleg_check pol true s now parent secs lvl = (s1, R_OK) -> parent <> root -> 1 <= lvl ->
  forall x, In x secs -> exists s0, (s0 = s \/ exists k, s0 = Nat.iter k (fun y => sweep y now) s) /\
    Conferred pol (members s0) (live_grants s0 now) parent x lvl.
Proof.
  induction secs as [|y r IH]; intros s now parent lvl s1 H Hroot Hl x Hin; [destruct Hin|].
  cbn [deleg_check] in H. destruct (get_permission s now parent y) as [s' pl] eqn:Eg.
  destruct pl as [l|]; [|injection H as _ H; discriminate].
  destruct l as [|l']; [injection H as _ H; discriminate|].
  destruct (N.leb_spec lvl (N.pos l')) as [Hle|Hle]; [|injection H as _ H; discriminate].
  destruct Hin as [<-|Hin].
  - exists s. split; [left; reflexivity|].
    apply (Conferred_mono _ _ _ _ _ (N.pos l')); [exact Hle|].
    apply (get_permission_sound _ _ _ _ _ _ Eg Hroot). lia.
  - assert (Es' : s' = sweep s now).
    { unfold Model.get_permission, pre_check in Eg. destruct (N.eqb_spec parent root); [contradiction|]. injection Eg as <- _. reflexivity. }
    destruct (IH s' now parent lvl s1 H Hroot Hl x Hin) as (s0 & Hs0 & Hc).
    exists s0. split; [|exact Hc]. right. destruct Hs0 as [->|(k & ->)].
    + exists 1%nat. cbn. exact Es'.
    + exists (S k). rewrite Es'. symmetry. apply (iter_shift (fun y => sweep y now)).
Qed.

Theorem op_delegate_sound s now parent child secs lvl ttl s' :
  op_delegate pol true maxd s now parent child secs lvl ttl = (s', R_OK) -> parent <> root -> 1 <= lvl ->
  forall x, In x secs -> exists s0, (s0 = s \/ exists k, s0 = Nat.iter k (fun y => sweep y now) s) /\
    Conferred pol (members s0) (live_grants s0 now) parent x lvl.
Proof.
  unfold op_delegate. destruct (deleg_check pol true s now parent secs lvl) as [s1 r] eqn:Ed.
  destruct (N.eqb_spec r R_OK) as [->|Hr]; cbn [negb].
  - intros _. eapply deleg_check_sound; exact Ed.
  - intros E. injection E as _ E. congruence.
Qed.
End Guard.

(* membership alone never confers anything: with no access edge to the secret the level is 0 *)
Theorem membership_alone_gives_nothing p s src tgt r :
  (forall g, In g (grants s) -> g_secret g <> tgt) -> perm_level p s src tgt = Some r -> r = 0.
Proof.
  intros Hno H. destruct (N.eq_dec r 0) as [E|E]; [exact E|exfalso].
  pose proof (perm_level_spec p s src tgt r H r ltac:(lia)) as [Hc _].
  destruct (Hc ltac:(lia)) as (v & k & g & _ & _ & Hg & _ & Es & _). exact (Hno g Hg Es).
Qed.
(* ... and an access edge that is not valid (tampered signature) confers nothing either *)
Theorem invalid_edges_give_nothing p s src tgt r :
  (forall g, In g (grants s) -> g_secret g = tgt -> g_valid g = false) -> perm_level p s src tgt = Some r -> r = 0.
Proof.
  intros Hno H. destruct (N.eq_dec r 0) as [E|E]; [exact E|exfalso].
  pose proof (perm_level_spec p s src tgt r H r ltac:(lia)) as [Hc _].
  destruct (Hc ltac:(lia)) as (v & k & g & _ & _ & Hg & _ & Es & Ev & _). rewrite (Hno g Hg Es) in Ev. discriminate.
Qed.

(* ------------------------------------------------------------------ revoke / expiry / delete remove the ability in the next state *)
Theorem revoke_removes pol s now req e sec s' :
  op_revoke pol true s now req e sec = (s', R_OK) ->
  forall g, In g (grants s') -> ~ (g_from g = e /\ g_secret g = sec).
Proof.
  unfold op_revoke. destruct (Model.check_access pol true s now req sec 3) as [s1 r].
  destruct (N.eqb_spec r R_OK) as [->|Hr]; [|intros E; injection E as _ E; congruence].
  intros E. injection E as <-. cbn [grants log]. intros g Hg [E1 E2].
  apply filter_In in Hg. destruct Hg as [_ Hg]. rewrite E1, E2, !N.eqb_refl in Hg. discriminate.
Qed.

Theorem delete_removes pol s now req sec s' :
  op_delete pol true s now req sec = (s', R_OK) ->
  has_secret s' sec = false /\ forall g, In g (grants s') -> g_secret g <> sec.
Proof.
  unfold op_delete. destruct (Model.check_access pol true s now req sec 3) as [s1 r].
  destruct (N.eqb_spec r R_OK) as [->|Hr]; [|intros E; injection E as _ E; congruence].
  destruct (has_secret s1 sec); [|intros E; injection E as _ E; discriminate].
  intros E. injection E as <-. split.
  - unfold has_secret. cbn [secrets log]. rewrite aget_adel, N.eqb_refl. reflexivity.
  - cbn [grants log]. intros g Hg E2. apply filter_In in Hg. destruct Hg as [_ Hg]. rewrite E2, N.eqb_refl in Hg. discriminate.
Qed.

(* expiry: whatever a guarded call consults (the swept state) contains no access edge of an expired pair,
   and the sweep never adds anything *)
Theorem expiry_removes s now g t :
  In g (grants (sweep s now)) -> In t (ttls s) -> t_entity t = g_from g -> t_secret t = g_secret g -> now < t_exp t.
Proof. rewrite sweep_grants. apply live_grants_unexpired. Qed.
Theorem sweep_only_removes s now g : In g (grants (sweep s now)) -> In g (grants s).
Proof. rewrite sweep_grants. unfold live_grants. intros H. apply filter_In in H. tauto. Qed.

(* ------------------------------------------------------------------ symbolic at-rest invariant *)
(* where a secret NAME may be readable: the access-control node, the TTL record, the delegation record
   (known finding F-C14-name) and error strings (allowed by the property) *)
Definition name_ok_loc (loc : N) : bool := N.eqb loc 2 || N.eqb loc 3 || N.eqb loc 4 || N.eqb loc 6.
Definition write_ok (w : write) : bool :=
  forallb (fun x => negb (is_value x) && (negb (is_name x) || name_ok_loc (fst w))) (exposed (snd w)).
Definition ext_ok (s s' : st) : Prop := exists X, wlog s' = wlog s ++ X /\ forallb write_ok X = true.

Lemma ext_ok_refl s : ext_ok s s.
Proof. exists []. rewrite app_nil_r. auto. Qed.
Lemma ext_ok_same s s1 s' : ext_ok s s1 -> wlog s' = wlog s1 -> ext_ok s s'.
Proof. intros (X & E & H) E'. exists X. rewrite E'. auto. Qed.
Lemma ext_ok_log s s1 w : ext_ok s s1 -> forallb write_ok w = true -> ext_ok s (log s1 w).
Proof.
  intros (X & E & H) Hw. exists (X ++ w). cbn [log wlog]. rewrite E, app_assoc. split; [reflexivity|].
  rewrite forallb_app, H, Hw. reflexivity.
Qed.
Lemma ext_ok_trans s s1 s2 : ext_ok s s1 -> ext_ok s1 s2 -> ext_ok s s2.
Proof.
  intros (X & E & H) (Y & E' & H'). exists (X ++ Y). rewrite E', E, app_assoc. split; [reflexivity|].
  rewrite forallb_app, H, H'. reflexivity.
Qed.

Section Taint.
Variable pol : policy.
Variable sw : bool.
Variable maxd : N.
Variable sg : bool.

Lemma pre_check_wlog s now : wlog (pre_check sw s now) = wlog s.
Proof. unfold pre_check. destruct sw; reflexivity. Qed.
Lemma check_access_wlog s now req sec rq : wlog (fst (check_access pol sw s now req sec rq)) = wlog s.
Proof.
  unfold check_access. destruct (N.eqb req root); [reflexivity|].
  destruct (perm_level pol (pre_check sw s now) req sec) as [l|]; cbn [fst]; [|apply pre_check_wlog].
  destruct (N.leb rq l && negb (N.eqb l 0)); cbn [fst]; [apply pre_check_wlog|].
  destruct (reach_any _ _ _ _ _ _); cbn [fst]; apply pre_check_wlog.
Qed.
Lemma get_permission_wlog s now req sec : wlog (fst (get_permission pol sw s now req sec)) = wlog s.
Proof. unfold get_permission. destruct (N.eqb req root); cbn [fst]; [reflexivity|apply pre_check_wlog]. Qed.
Lemma has_access_wlog s now req sec : wlog (fst (has_access pol sw s now req sec)) = wlog s.
Proof. unfold has_access. destruct (N.eqb req root); cbn [fst]; [reflexivity|apply pre_check_wlog]. Qed.

Lemma w_value_ok req sec v : forallb write_ok (w_value req sec v) = true. Proof. reflexivity. Qed.
Lemma w_audit_ok req sec : forallb write_ok (w_audit req sec) = true. Proof. reflexivity. Qed.
Lemma w_edge_ok e sec : forallb write_ok (w_edge e sec) = true. Proof. reflexivity. Qed.
Lemma w_err_ok req sec : forallb write_ok (w_err req sec) = true. Proof. reflexivity. Qed.

Lemma step_ext_ok s now o : ext_ok s (fst (step pol sw maxd sg s now o)).
Proof.
  destruct o as [r x v|r x|r|r x|r x v|r x|r e x l t|r e x|pa c xs l t|d0 r x|pa c|pa c| |r x|a b|a b|d]; cbn [step].
  - (* set *)
    unfold op_set. destruct (has_secret s x).
    + pose proof (check_access_wlog s now r x 2) as Hw.
      destruct (check_access pol sw s now r x 2) as [s1 c]. cbn [fst] in Hw.
      destruct (N.eqb c R_OK); cbn [fst]; apply ext_ok_log; try apply w_value_ok; try apply w_err_ok;
        eapply ext_ok_same; try apply ext_ok_refl; cbn [wlog]; congruence.
    + destruct (negb (N.eqb r root)); cbn [fst]; apply ext_ok_log; try apply w_err_ok; try apply ext_ok_refl.
      * eapply ext_ok_same; [apply ext_ok_refl|reflexivity].
      * reflexivity.
  - (* get *)
    unfold op_get. pose proof (check_access_wlog (sweep s now) now r x 1) as Hw.
    destruct (check_access pol sw (sweep s now) now r x 1) as [s1 c]. cbn [fst] in Hw. rewrite sweep_wlog in Hw.
    destruct (N.eqb c R_OK); [destruct (aget (secrets s1) x)|]; cbn [fst]; apply ext_ok_log;
      try apply w_audit_ok; try apply w_err_ok; eapply ext_ok_same; try apply ext_ok_refl; congruence.
  - (* list *)
    unfold op_list.
    assert (H : forall (l : list (N * N)) (sa : st * list N), wlog (fst sa) = wlog s ->
              wlog (fst (fold_left (fun sa kv => let '(sx, acc) := sa in
                                 let '(sy, ok) := has_access pol sw sx now r (fst kv) in
                                 (sy, if ok then acc ++ [fst kv] else acc)) l sa)) = wlog s).
    { induction l as [|kv l IH]; intros [sx acc] Hsa; cbn [fold_left]; [exact Hsa|].
      apply IH. pose proof (has_access_wlog sx now r (fst kv)) as Hh.
      destruct (has_access pol sw sx now r (fst kv)) as [sy ok]. cbn [fst] in *. congruence. }
    specialize (H (secrets (sweep s now)) (sweep s now, []) (sweep_wlog s now)).
    destruct (fold_left _ _ _) as [s1 acc]. cbn [fst] in *.
    apply ext_ok_log; [|reflexivity]. eapply ext_ok_same; [apply ext_ok_refl|exact H].
  - (* list, exact pattern *)
    unfold op_list_exact. destruct (has_secret (sweep s now) x).
    + pose proof (has_access_wlog (sweep s now) now r x) as Hh.
      destruct (has_access pol sw (sweep s now) now r x) as [s1 ok]. cbn [fst] in *.
      apply ext_ok_log; [|reflexivity]. eapply ext_ok_same; [apply ext_ok_refl|]. rewrite Hh. apply sweep_wlog.
    + cbn [fst]. apply ext_ok_log; [|reflexivity]. eapply ext_ok_same; [apply ext_ok_refl|apply sweep_wlog].
  - (* rotate *)
    unfold op_rotate. pose proof (check_access_wlog s now r x 2) as Hw.
    destruct (check_access pol sw s now r x 2) as [s1 c]. cbn [fst] in Hw.
    destruct (N.eqb c R_OK); [destruct (has_secret s1 x)|]; cbn [fst]; apply ext_ok_log;
      try apply w_value_ok; try apply w_err_ok; eapply ext_ok_same; try apply ext_ok_refl; cbn [wlog]; congruence.
  - (* delete *)
    unfold op_delete. pose proof (check_access_wlog s now r x 3) as Hw.
    destruct (check_access pol sw s now r x 3) as [s1 c]. cbn [fst] in Hw.
    destruct (N.eqb c R_OK); [destruct (has_secret s1 x)|]; cbn [fst]; apply ext_ok_log;
      try apply w_audit_ok; try apply w_err_ok; eapply ext_ok_same; try apply ext_ok_refl; cbn [wlog]; congruence.
  - (* grant *)
    unfold op_grant. pose proof (check_access_wlog s now r x 3) as Hw.
    destruct (check_access pol sw s now r x 3) as [s1 c]. cbn [fst] in Hw.
    destruct (N.eqb c R_OK); [destruct (has_secret s1 x)|]; cbn [fst].
    + apply ext_ok_log; [|reflexivity]. destruct t as [d|].
      * exists [(3, Cat (Plain (SEntity e)) (name x))]. cbn [wlog add_grant]. rewrite Hw. split; reflexivity.
      * eapply ext_ok_same; [apply ext_ok_refl|]. cbn [wlog add_grant]. exact Hw.
    + apply ext_ok_log; [|apply w_err_ok]. eapply ext_ok_same; [apply ext_ok_refl|exact Hw].
    + apply ext_ok_log; [|apply w_err_ok]. eapply ext_ok_same; [apply ext_ok_refl|exact Hw].
  - (* revoke *)
    unfold op_revoke. pose proof (check_access_wlog s now r x 3) as Hw.
    destruct (check_access pol sw s now r x 3) as [s1 c]. cbn [fst] in Hw.
    destruct (N.eqb c R_OK); cbn [fst]; apply ext_ok_log;
      try apply w_audit_ok; try apply w_err_ok; eapply ext_ok_same; try apply ext_ok_refl; cbn [wlog]; congruence.
  - (* delegate *)
    unfold op_delegate.
    assert (Hd : forall zs s0, ext_ok s0 (fst (deleg_check pol sw s0 now pa zs l))).
    { induction zs as [|y ys IH]; intros s0; cbn [deleg_check fst]; [apply ext_ok_refl|].
      pose proof (get_permission_wlog s0 now pa y) as Hw.
      destruct (get_permission pol sw s0 now pa y) as [s1 pl]. cbn [fst] in Hw.
      destruct pl as [lv|]; [|cbn [fst]; eapply ext_ok_same; [apply ext_ok_refl|exact Hw]].
      destruct lv as [|lv'].
      { cbn [fst]. apply ext_ok_log; [|apply w_err_ok]. eapply ext_ok_same; [apply ext_ok_refl|exact Hw]. }
      destruct (N.leb l (N.pos lv')).
      - eapply ext_ok_trans; [eapply ext_ok_same; [apply ext_ok_refl|exact Hw]|apply IH].
      - cbn [fst]. apply ext_ok_log; [|apply w_err_ok]. eapply ext_ok_same; [apply ext_ok_refl|exact Hw]. }
    specialize (Hd xs s). destruct (deleg_check pol sw s now pa xs l) as [s1 rc]. cbn [fst] in Hd.
    destruct (negb (N.eqb rc R_OK)); [exact Hd|].
    destruct (N.eqb pa c); [exact Hd|].
    destruct (is_ancestor _ _ _ _); [exact Hd|].
    destruct (N.ltb maxd _); [exact Hd|].
    cbn [fst]. apply ext_ok_log.
    + eapply ext_ok_trans; [exact Hd|]. eapply ext_ok_same; [apply ext_ok_refl|reflexivity].
    + apply forallb_forall. intros w Hw. apply in_flat_map in Hw. destruct Hw as (x & _ & Hw).
      destruct t; cbn in Hw; repeat (destruct Hw as [<-|Hw]; [reflexivity|]); destruct Hw.
  - (* sealed window *)
    unfold op_sealed. destruct (sg || negb sw || N.eqb r root); cbn [fst]; [apply ext_ok_refl|].
    eapply ext_ok_same; [apply ext_ok_refl|reflexivity].
  - (* revoke_delegation *)
    unfold op_revoke_deleg. destruct (find _ (delegs s)) as [rec|]; cbn [fst].
    + apply ext_ok_log; [eapply ext_ok_same; [apply ext_ok_refl|reflexivity]|].
      apply forallb_forall. intros w Hw. apply in_flat_map in Hw. destruct Hw as (x & _ & Hw).
      cbn in Hw. destruct Hw as [<-|[]]. reflexivity.
    + apply ext_ok_log; [apply ext_ok_refl|reflexivity].
  - (* revoke_delegation_cascading *)
    unfold op_revoke_cascade. cbn [fst]. eapply ext_ok_same; [apply ext_ok_refl|reflexivity].
  - (* restart *)
    cbn [fst]. eapply ext_ok_same; [apply ext_ok_refl|apply sweep_wlog].
  - (* get_permission *)
    pose proof (get_permission_wlog s now r x) as Hw.
    destruct (get_permission pol sw s now r x) as [s1 pl]. cbn [fst] in *.
    eapply ext_ok_same; [apply ext_ok_refl|exact Hw].
  - cbn [fst]. eapply ext_ok_same; [apply ext_ok_refl|reflexivity].
  - cbn [fst]. eapply ext_ok_same; [apply ext_ok_refl|reflexivity].
  - apply ext_ok_refl.
Qed.

Lemma run_ext_ok : forall ops s now, ext_ok s (fst (run pol sw maxd sg s now ops)).
Proof.
  induction ops as [|o ops IH]; intros s now; cbn [run]; [apply ext_ok_refl|].
  pose proof (step_ext_ok s now o) as H1.
  destruct (step pol sw maxd sg s now o) as [s1 a]. cbn [fst] in H1.
  specialize (IH s1 (advance now o)).
  destruct (run pol sw maxd sg s1 (advance now o) ops) as [s2 l]. cbn [fst] in *.
  eapply ext_ok_trans; eassumption.
Qed.

(* after ANY history from the empty vault: no secret value is readable anywhere (store, audit, errors), and a
   secret name is readable only in the three known places or in an error string *)
Theorem taint_invariant ops loc t x :
  In (loc, t) (wlog (fst (run pol sw maxd sg init 0 ops))) -> In x (exposed t) ->
  is_value x = false /\ (is_name x = true -> name_ok_loc loc = true).
Proof.
  intros Hin Hx. destruct (run_ext_ok ops init 0) as (X & E & H). rewrite E in Hin. cbn in Hin.
  rewrite forallb_forall in H. specialize (H _ Hin). unfold write_ok in H. rewrite forallb_forall in H.
  specialize (H _ Hx). cbn [fst] in H. apply andb_true_iff in H. destruct H as [H1 H2].
  split; [apply negb_true_iff in H1; exact H1|].
  intros Hn. rewrite Hn in H2. cbn in H2. exact H2.
Qed.
End Taint.

(* the names ARE readable at rest (F-C14-name): creating a secret writes its clear name into the access-control node *)
Theorem names_at_rest_refuted :
  exists ops loc t s, In (loc, t) (wlog (fst (run default_policy true 3 true init 0 ops))) /\
    In (SName s) (exposed t) /\ loc = 2.
Proof.
  exists [OSet 0 7 1], 2, (Cat (Obf (name 7)) (name 7)), 7. vm_compute. repeat split; auto 10.
Qed.

(* without the sweep in the access check an expired grant still authorises (F-C14-ttl): refutation of the
   guarded-call theorem for the variant of the model with sweep_on_check = false *)
Theorem lazy_expiry_refuted :
  exists ops, let '(s, answers) := run default_policy false 3 true init 0 ops in
    nth 3 answers (ACode 9) = ACode R_OK /\
    ~ Conferred default_policy (members s) (live_grants (fst (run default_policy false 3 true init 0 (firstn 3 ops))) 4) 1 5 2.
Proof.
  exists [OSet 0 5 1; OGrant 0 1 5 2 (Some 1); OTick 1; ORotate 1 5 2].
  vm_compute. split; [reflexivity|].
  intros (v & k & g & Hp & _ & Hg & Ef & _).
  destruct Hg as [<-|[]]. cbn in Ef. subst v.
  inversion Hp; subst; try discriminate; match goal with H : In _ [] |- _ => destruct H end.
Qed.

(* ------------------------------------------------------------------ the BFS never runs out of fuel *)
Section Fuel.
Variable p : policy.
Variable ms : list (N * N).
Variable gs : list grant.
Variable tgt : N.

(* membership edges whose target is not yet visited *)
Definition unvis (l : list (N * N)) (vis : list N) : nat := length (filter (fun e => negb (mem (snd e) vis)) l).

Lemma mem_cons x y l : mem x (y :: l) = N.eqb x y || mem x l.
Proof. reflexivity. Qed.

Lemma unvis_cons_le l w vis : (unvis l (w :: vis) <= unvis l vis)%nat.
Proof.
  unfold unvis. induction l as [|e l IH]; cbn [filter]; [lia|].
  rewrite mem_cons. destruct (N.eqb (snd e) w); cbn [orb negb].
  - destruct (negb (mem (snd e) vis)); cbn [length]; lia.
  - destruct (negb (mem (snd e) vis)); cbn [length]; lia.
Qed.

Lemma unvis_add l e vis : In e l -> mem (snd e) vis = false -> (unvis l (snd e :: vis) + 1 <= unvis l vis)%nat.
Proof.
  unfold unvis. induction l as [|e' l IH]; intros Hin Hm; [destruct Hin|].
  cbn [filter]. rewrite mem_cons. destruct Hin as [->|Hin].
  - rewrite N.eqb_refl, Hm. cbn [orb negb length]. pose proof (unvis_cons_le l (snd e) vis). unfold unvis in *. lia.
  - specialize (IH Hin Hm).
    destruct (N.eqb (snd e') (snd e)); cbn [orb negb]; destruct (negb (mem (snd e') vis)); cbn [length]; lia.
Qed.

Lemma expand_measure cur d : forall l vis q, (forall e, In e l -> In e ms) ->
  (length (snd (expand l cur d (vis, q))) + unvis ms (fst (expand l cur d (vis, q))) <= length q + unvis ms vis)%nat.
Proof.
  unfold expand. induction l as [|e l IH]; intros vis q Hsub; cbn [fold_left fst snd]; [lia|].
  destruct (N.eqb (fst e) cur && negb (mem (snd e) vis)) eqn:Ec.
  - apply andb_true_iff in Ec. destruct Ec as [_ Em]. apply negb_true_iff in Em.
    specialize (IH (snd e :: vis) (q ++ [(snd e, d + 1)]) (fun e' H => Hsub e' (or_intror H))).
    pose proof (unvis_add ms e vis (Hsub e (or_introl eq_refl)) Em).
    rewrite app_length in IH. cbn [length] in IH. lia.
  - apply IH. intros e' H. apply Hsub. right; exact H.
Qed.

Lemma bfs_terminates : forall fuel q vis best,
  (length q + unvis ms vis < fuel)%nat -> bfs p ms gs tgt fuel q vis best <> None.
Proof.
  induction fuel as [|fuel IH]; intros q vis best Hm; [lia|].
  cbn [bfs]. destruct q as [|[cur d] q']; [discriminate|].
  cbn [length] in Hm. destruct (N.leb (horizon p) d).
  - apply IH. lia.
  - pose proof (expand_measure cur d ms vis q' (fun e H => H)) as He.
    destruct (expand ms cur d (vis, q')) as [vis' q'']. cbn [fst snd] in He. apply IH. lia.
Qed.
End Fuel.

Lemma filter_len_le {A} (f : A -> bool) (l : list A) : (length (filter f l) <= length l)%nat.
Proof. induction l as [|x l IH]; cbn; [lia|]. destruct (f x); cbn; lia. Qed.

Theorem perm_level_total p s src tgt : exists r, perm_level p s src tgt = Some r.
Proof.
  unfold perm_level. destruct (bfs p (members s) (grants s) tgt (bfs_fuel (members s)) [(src, 0)] [src] 0) as [r|] eqn:E.
  - exists r; reflexivity.
  - exfalso. revert E. apply bfs_terminates. unfold bfs_fuel, unvis. cbn [length].
    pose proof (filter_len_le (fun e : N * N => negb (mem (snd e) [src])) (members s)). lia.
Qed.

(* revoke_delegation removes every access edge child -> secret for each secret of the delegation record,
   whatever level the edges carry *)
Theorem revoke_deleg_removes s parent child s' :
  op_revoke_deleg s parent child = (s', R_OK) ->
  exists rec, In rec (delegs s) /\ d_parent rec = parent /\ d_child rec = child /\
    forall g, In g (grants s') -> ~ (g_from g = child /\ In (g_secret g) (d_secs rec)).
Proof.
  unfold op_revoke_deleg. destruct (find _ (delegs s)) as [rec|] eqn:Ef; [|intros E; injection E as _ E; discriminate].
  intros E. injection E as <-. apply find_some in Ef. destruct Ef as [Hin Hc].
  apply andb_true_iff in Hc. destruct Hc as [H1 H2]. apply N.eqb_eq in H1, H2.
  exists rec. repeat split; auto. cbn [grants log]. intros g Hg [E1 E2].
  apply filter_In in Hg. destruct Hg as [_ Hg]. rewrite E1, N.eqb_refl in Hg. cbn [andb] in Hg.
  apply negb_true_iff in Hg. apply mem_spec in E2. congruence.
Qed.
