(* C14/Props.v -- pinned property theorems; nothing but statements closed by `exact`.
   Levels: 0 none, 1 Read, 2 Write, 3 Admin; identity 0 is root.  `Conferred p ms gs src tgt L` = some
   membership path (edges ms) from src, shorter than the horizon, ends in a valid access edge of gs to tgt whose
   attenuated, capacity-limited level is >= L.  `live_grants s now` = the access edges of s whose
   (entity, secret) pair has no expired TTL entry at `now`.  AES-GCM / HMAC are opaque term constructors:
   cryptographic strength is NOT a theorem here (partial, named in the evidence). *)
From NV.Common Require Import Base.
From NV.C14 Require Import Model Proofs Inst.
From NV.gen Require Import Gen_C14.
Open Scope N_scope.

(* 1. the BFS of get_permission_level_verified computes exactly the declarative maximum *)
Theorem C14_bfs_is_declarative_maximum : forall p s src tgt r,
  perm_level p s src tgt = Some r ->
  forall L, 1 <= L -> (L <= r <-> Conferred p (members s) (grants s) src tgt L).
Proof. exact perm_level_spec. Qed.
(* ... and it always terminates with an answer (the fuel |members| + 2 suffices for every graph, cycles included) *)
Theorem C14_bfs_total : forall p s src tgt, exists r, perm_level p s src tgt = Some r.
Proof. exact perm_level_total. Qed.
Example C14_bfs_nonvacuous :
  perm_level default_policy (St [] [(1, 5); (5, 6)] [Gr 6 9 3 (Some 3) true] [] [] []) 1 9 = Some 1.
Proof. vm_compute. reflexivity. Qed.

(* 2. a guarded call by a non-root requester succeeds only if the live grants confer the level at that instant *)
Theorem C14_check_access_sound : forall pol s now req sec required s1,
  check_access pol true s now req sec required = (s1, R_OK) -> req <> root -> 1 <= required ->
  s1 = sweep s now /\ Conferred pol (members s) (live_grants s now) req sec required.
Proof. exact check_access_sound. Qed.
Theorem C14_get_needs_read : forall pol s now req sec s' v,
  op_get pol true s now req sec = (s', R_OK, v) -> req <> root ->
  Conferred pol (members s) (live_grants s now) req sec 1.
Proof. exact op_get_sound. Qed.
Theorem C14_overwrite_needs_write : forall pol s now req sec v s',
  op_set pol true s now req sec v = (s', R_OK) -> req <> root ->
  has_secret s sec = true /\ Conferred pol (members s) (live_grants s now) req sec 2.
Proof. exact op_set_sound. Qed.
Theorem C14_rotate_needs_write : forall pol s now req sec v s',
  op_rotate pol true s now req sec v = (s', R_OK) -> req <> root ->
  Conferred pol (members s) (live_grants s now) req sec 2.
Proof. exact op_rotate_sound. Qed.
Theorem C14_delete_needs_admin : forall pol s now req sec s',
  op_delete pol true s now req sec = (s', R_OK) -> req <> root ->
  Conferred pol (members s) (live_grants s now) req sec 3.
Proof. exact op_delete_sound. Qed.
Theorem C14_get_permission_sound : forall pol s now req sec s1 l,
  get_permission pol true s now req sec = (s1, Some l) -> req <> root -> 1 <= l ->
  Conferred pol (members s) (live_grants s now) req sec l.
Proof. exact get_permission_sound. Qed.
Example C14_guard_nonvacuous :
  exists s', op_rotate default_policy true (St [(9, 1)] [(1, 5)] [Gr 5 9 2 (Some 2) true] [] [] []) 7 1 9 4 = (s', R_OK).
Proof. eexists. vm_compute. reflexivity. Qed.

(* 3. granting (and revoking) requires Admin; delegation requires the delegated level *)
Theorem C14_grant_needs_admin : forall pol s now req e sec lvl ttl s',
  op_grant pol true s now req e sec lvl ttl = (s', R_OK) -> req <> root ->
  Conferred pol (members s) (live_grants s now) req sec 3.
Proof. exact op_grant_needs_admin. Qed.
Theorem C14_revoke_needs_admin : forall pol s now req e sec s',
  op_revoke pol true s now req e sec = (s', R_OK) -> req <> root ->
  Conferred pol (members s) (live_grants s now) req sec 3.
Proof. exact op_revoke_needs_admin. Qed.
Theorem C14_delegate_needs_level : forall pol maxd s now parent child secs lvl ttl s',
  op_delegate pol true maxd s now parent child secs lvl ttl = (s', R_OK) -> parent <> root -> 1 <= lvl ->
  forall x, In x secs -> exists s0, (s0 = s \/ exists k, s0 = Nat.iter k (fun y => sweep y now) s) /\
    Conferred pol (members s0) (live_grants s0 now) parent x lvl.
Proof. exact op_delegate_sound. Qed.

(* 4. membership alone never confers anything; nor does an edge whose signature does not verify *)
Theorem C14_membership_alone_gives_nothing : forall p s src tgt r,
  (forall g, In g (grants s) -> g_secret g <> tgt) -> perm_level p s src tgt = Some r -> r = 0.
Proof. exact membership_alone_gives_nothing. Qed.
Theorem C14_invalid_edges_give_nothing : forall p s src tgt r,
  (forall g, In g (grants s) -> g_secret g = tgt -> g_valid g = false) -> perm_level p s src tgt = Some r -> r = 0.
Proof. exact invalid_edges_give_nothing. Qed.

(* 5. revoking, expiring, deleting remove the edges in the very next state *)
Theorem C14_revoke_removes : forall pol s now req e sec s',
  op_revoke pol true s now req e sec = (s', R_OK) ->
  forall g, In g (grants s') -> ~ (g_from g = e /\ g_secret g = sec).
Proof. exact revoke_removes. Qed.
Theorem C14_delete_removes : forall pol s now req sec s',
  op_delete pol true s now req sec = (s', R_OK) ->
  has_secret s' sec = false /\ forall g, In g (grants s') -> g_secret g <> sec.
Proof. exact delete_removes. Qed.
Theorem C14_revoke_delegation_removes : forall s parent child s',
  op_revoke_deleg s parent child = (s', R_OK) ->
  exists rec, In rec (delegs s) /\ d_parent rec = parent /\ d_child rec = child /\
    forall g, In g (grants s') -> ~ (g_from g = child /\ In (g_secret g) (d_secs rec)).
Proof. exact revoke_deleg_removes. Qed.
Theorem C14_expiry_removes : forall s now g t,
  In g (grants (sweep s now)) -> In t (ttls s) -> t_entity t = g_from g -> t_secret t = g_secret g -> now < t_exp t.
Proof. exact expiry_removes. Qed.
(* the unswept variant of the access check is refuted (F-C14-ttl, repaired by the fix: commit; the per-run
   obligation Inst.gen_sweep_ok says the sweep is present in the source) *)
Theorem C14_lazy_expiry_refuted :
  exists ops, let '(s, answers) := run default_policy false 3 true init 0 ops in
    nth 3 answers (ACode 9) = ACode R_OK /\
    ~ Conferred default_policy (members s) (live_grants (fst (run default_policy false 3 true init 0 (firstn 3 ops))) 4) 1 5 2.
Proof. exact lazy_expiry_refuted. Qed.
Theorem C14_source_sweeps_before_checking : gen_sweep_on_check = true.
Proof. exact (proj1 gen_sweep_ok). Qed.

(* 6. symbolic at-rest invariant, for every history from the empty vault and both variants of the access check:
   no secret VALUE is readable anywhere (store records, audit records, error strings); a secret NAME is readable
   only in error strings (allowed) and in the three known places: access-control node (2), TTL record (3),
   delegation record (4) *)
Theorem C14_taint_invariant : forall pol sw maxd sg ops loc t x,
  In (loc, t) (wlog (fst (run pol sw maxd sg init 0 ops))) -> In x (exposed t) ->
  is_value x = false /\ (is_name x = true -> name_ok_loc loc = true).
Proof. exact taint_invariant. Qed.
(* the unrestricted statement for names is false (known finding secret-name-at-rest) *)
Theorem C14_names_at_rest_refuted :
  exists ops loc t s, In (loc, t) (wlog (fst (run default_policy true 3 true init 0 ops))) /\
    In (SName s) (exposed t) /\ loc = 2.
Proof. exact names_at_rest_refuted. Qed.

(* attenuation never raises a level and is antitone in the distance (regenerated function: Inst.gen_attenuate_eq) *)
Theorem C14_attenuation_antitone : forall p l k k', k <= k' -> gen_attenuate p l k' <= gen_attenuate p l k /\ gen_attenuate p l k <= l.
Proof. intros p l k k' H. rewrite !gen_attenuate_eq. split; [exact (attenuate_antitone p l k k' H)|exact (attenuate_le p l k)]. Qed.

Print Assumptions C14_bfs_is_declarative_maximum.
Print Assumptions C14_bfs_total.
Print Assumptions C14_check_access_sound.
Print Assumptions C14_get_needs_read.
Print Assumptions C14_overwrite_needs_write.
Print Assumptions C14_rotate_needs_write.
Print Assumptions C14_delete_needs_admin.
Print Assumptions C14_get_permission_sound.
Print Assumptions C14_grant_needs_admin.
Print Assumptions C14_revoke_needs_admin.
Print Assumptions C14_delegate_needs_level.
Print Assumptions C14_membership_alone_gives_nothing.
Print Assumptions C14_invalid_edges_give_nothing.
Print Assumptions C14_revoke_removes.
Print Assumptions C14_delete_removes.
Print Assumptions C14_revoke_delegation_removes.
Print Assumptions C14_expiry_removes.
Print Assumptions C14_lazy_expiry_refuted.
Print Assumptions C14_source_sweeps_before_checking.
Print Assumptions C14_taint_invariant.
Print Assumptions C14_names_at_rest_refuted.
Print Assumptions C14_attenuation_antitone.
