(* C14/Run.v -- executable entry points for the correspondence check and the property oracles.
   Depends on Model + the regenerated constants only (NOT on the proofs).

   The ORACLE is independent of the model's BFS and of its sweep mechanics: it keeps, from the history and the
   implementation's own answers, the set of grants that were issued and not since revoked / deleted, each with its
   own expiry, and computes the level they confer by plain iteration over path lengths 0..horizon-1 (no visited
   set).  An allow by a non-root requester that this level does not cover is a violation. *)
From NV.Common Require Import Base.
From NV.C14 Require Import Model.
From NV.gen Require Import Gen_C14.
Open Scope N_scope.

(* ------------------------------------------------------------------ declarative level, computed naively *)
Record lgrant := LG { l_from : N; l_secret : N; l_level : N; l_exp : option N }.
Definition live (now : N) (g : lgrant) : bool := match l_exp g with Some e => N.ltb now e | None => true end.

Definition dedup (l : list N) : list N := fold_left (fun acc x => if mem x acc then acc else acc ++ [x]) l [].
Definition succs (ms : list (N * N)) (front : list N) : list N :=
  dedup (flat_map (fun v => map snd (filter (fun e => N.eqb (fst e) v) ms)) front).
Definition level_at (p : policy) (lgs : list lgrant) (now tgt : N) (front : list N) (hops : N) : N :=
  fold_left (fun b g => if live now g && N.eqb (l_secret g) tgt && mem (l_from g) front
                        then N.max b (N.min (attenuate p (l_level g) hops) (l_level g)) else b) lgs 0.
(* max over path lengths k = 0 .. (rounds-1), k < horizon *)
Fixpoint spec_iter (p : policy) (ms : list (N * N)) (lgs : list lgrant) (now tgt : N)
                   (rounds : nat) (front : list N) (k : N) : N :=
  match rounds with
  | O => 0
  | S r => if N.leb (horizon p) k then 0
           else N.max (level_at p lgs now tgt front (k + 1))
                      (spec_iter p ms lgs now tgt r (succs ms front) (k + 1))
  end.
Definition spec_level (p : policy) (ms : list (N * N)) (lgs : list lgrant) (now src tgt : N) : N :=
  spec_iter p ms lgs now tgt (S (S (length ms))) [src] 0.

(* ------------------------------------------------------------------ history oracle *)
Definition ans_eqb (a b : ans) : bool :=
  match a, b with
  | ACode x, ACode y => N.eqb x y
  | AVal x v, AVal y w => N.eqb x y && option_eqb N.eqb v w
  | AList x, AList y => list_eqb N.eqb x y
  | ALevel x, ALevel y => option_eqb N.eqb x y
  | _, _ => false
  end.

Record ost := OS { o_members : list (N * N); o_grants : list lgrant; o_secrets : list N; o_delegs : list (N * N * list N) }.

(* verdict of one call on the implementation's answer: 0 fine, 2 violation, 10 = lazy-expiry class *)
Definition K_TTL : N := 0.
Definition covers (p : policy) (o : ost) (now req sec required : N) : N :=
  if N.eqb req root then 0
  else if N.leb required (spec_level p (o_members o) (o_grants o) now req sec) then 0
  else (* would the grants cover it if expiry were ignored? then it is the lazy-expiry defect *)
    if N.leb required (spec_level p (o_members o) (map (fun g => LG (l_from g) (l_secret g) (l_level g) None) (o_grants o)) now req sec)
    then V_KNOWN K_TTL else V_VIOLATION.

Definition ok_code (a : ans) : bool := match a with ACode 0 => true | AVal 0 _ => true | _ => false end.

Definition step_oracle (p : policy) (o : ost) (now : N) (op1 : op) (a : ans) : N :=
  match op1 with
  | OSet r x _ => if ok_code a then (if mem x (o_secrets o) then covers p o now r x 2 else if N.eqb r root then 0 else V_VIOLATION) else 0
  | OGet r x => if ok_code a then covers p o now r x 1 else 0
  | ORotate r x _ => if ok_code a then covers p o now r x 2 else 0
  | ODelete r x => if ok_code a then covers p o now r x 3 else 0
  | OGrant r _ x _ _ => if ok_code a then covers p o now r x 3 else 0
  | ORevoke r _ x => if ok_code a then covers p o now r x 3 else 0
  | ODelegate pa _ xs l _ => if ok_code a then fold_left (fun acc x => if N.eqb acc 0 then covers p o now pa x l else acc) xs 0 else 0
  | OSealed d r x => match a with ALevel (Some l) => if N.eqb l 0 then 0 else covers p o (now + d) r x l | _ => 0 end
  | OPerm r x => match a with ALevel (Some l) => if N.eqb l 0 then 0 else covers p o now r x l | _ => 0 end
  | OList r => match a with
               | AList l => fold_left (fun acc x => if N.eqb acc 0 then covers p o now r x 1 else acc) l 0
               | _ => 0 end
  | OListExact r _ => match a with
               | AList l => fold_left (fun acc x => if N.eqb acc 0 then covers p o now r x 1 else acc) l 0
               | _ => 0 end
  | _ => 0
  end.

(* the oracle's own reading of a cascading revoke over its own delegation records *)
Fixpoint o_desc (ds : list (N * N * list N)) (fuel : nat) (nodes : list N) : list N :=
  match fuel with
  | O => nodes
  | S f => o_desc ds f (nodes ++ map (fun r => snd (fst r)) (filter (fun r => mem (fst (fst r)) nodes && negb (mem (snd (fst r)) nodes)) ds))
  end.
Definition track (o : ost) (now : N) (op1 : op) (a : ans) : ost :=
  match op1 with
  | OSet _ x _ => if ok_code a && negb (mem x (o_secrets o)) then OS (o_members o) (o_grants o) (x :: o_secrets o) (o_delegs o) else o
  | ODelete _ x => if ok_code a then OS (o_members o) (filter (fun g => negb (N.eqb (l_secret g) x)) (o_grants o))
                                       (filter (fun y => negb (N.eqb y x)) (o_secrets o)) (o_delegs o) else o
  | OGrant _ e x l t => if ok_code a then OS (o_members o) (o_grants o ++ [LG e x l (match t with Some d => Some (now + d) | None => None end)]) (o_secrets o) (o_delegs o) else o
  | ODelegate pa c xs l t =>
      if ok_code a then
        OS (o_members o) (o_grants o ++ map (fun x => LG c x l (match t with Some d => Some (now + d) | None => None end)) xs) (o_secrets o)
           (filter (fun r => negb (N.eqb (fst (fst r)) pa && N.eqb (snd (fst r)) c)) (o_delegs o) ++ [(pa, c, xs)])
      else o
  | ORevokeDeleg pa c =>
      if ok_code a then
        match find (fun r => N.eqb (fst (fst r)) pa && N.eqb (snd (fst r)) c) (o_delegs o) with
        | Some r => OS (o_members o) (filter (fun g => negb (N.eqb (l_from g) c && mem (l_secret g) (snd r))) (o_grants o)) (o_secrets o)
                       (filter (fun r' => negb (N.eqb (fst (fst r')) pa && N.eqb (snd (fst r')) c)) (o_delegs o))
        | None => o
        end
      else o
  | ORevokeCascade pa c =>
      if ok_code a then
        let nodes := o_desc (o_delegs o) (length (o_delegs o)) [c] in
        let gone := fun r : N * N * list N => (N.eqb (fst (fst r)) pa && N.eqb (snd (fst r)) c) || mem (fst (fst r)) nodes in
        let recs := filter gone (o_delegs o) in
        OS (o_members o)
           (filter (fun g => negb (existsb (fun r : N * N * list N => N.eqb (snd (fst r)) (l_from g) && mem (l_secret g) (snd r)) recs)) (o_grants o))
           (o_secrets o) (filter (fun r => negb (gone r)) (o_delegs o))
      else o
  | ORevoke _ e x => if ok_code a then OS (o_members o) (filter (fun g => negb (N.eqb (l_from g) e && N.eqb (l_secret g) x)) (o_grants o)) (o_secrets o) (o_delegs o) else o
  | OMember a1 b1 => OS (o_members o ++ [(a1, b1)]) (o_grants o) (o_secrets o) (o_delegs o)
  | OUnmember a1 b1 => OS (filter (fun e => negb (N.eqb (fst e) a1 && N.eqb (snd e) b1)) (o_members o)) (o_grants o) (o_secrets o) (o_delegs o)
  | _ => o
  end.

Fixpoint hist_oracle (p : policy) (o : ost) (now : N) (ops : list op) (as_ : list ans) : N :=
  match ops, as_ with
  | [], [] => 0
  | op1 :: ops', a :: as' =>
      let e := step_oracle p o now op1 a in
      if negb (N.eqb e 0) then e else hist_oracle p (track o now op1 a) (advance now op1) ops' as'
  | _, _ => 9
  end.

(* canonical form of a model answer: list() results sorted *)
Fixpoint insert_sorted (x : N) (l : list N) : list N :=
  match l with [] => [x] | y :: r => if N.leb x y then x :: l else y :: insert_sorted x r end.
Definition sort (l : list N) : list N := fold_left (fun acc x => insert_sorted x acc) l [].
Definition canon (a : ans) : ans := match a with AList l => AList (sort l) | _ => a end.

(* (policy, ops, implementation answers) *)
Definition hist_case := (policy * list op * list ans)%type.
Definition check_hist (c : hist_case) : N :=
  let '(p, ops, as_) := c in
  let e := hist_oracle p (OS [] [] [] []) 0 ops as_ in
  if negb (N.eqb e 0) then e
  else
    let '(_, ms) := run p gen_sweep_on_check gen_max_deleg_depth gen_sealed_guard init 0 ops in
    if list_eqb ans_eqb (map canon ms) as_ then V_OK else V_MISMATCH.

(* ------------------------------------------------------------------ at-rest scan *)
(* one finding of the byte scan: (what: 0 = secret value, 1 = secret name; where: location as in Model.write
   -- 0 blob, 1 metadata, 2 access-control node, 3 TTL record, 4 delegation record, 5 audit record,
      6 error string, 8 anywhere else in the store image) *)
Definition K_NAME : N := 1.
Definition scan_case := (N * N)%type.
Definition check_scan (c : scan_case) : N :=
  let '(what, loc) := c in
  if N.eqb what 1 then
    (* names may appear in error strings; the three known at-rest locations are the recorded finding *)
    if N.eqb loc 6 then V_OK
    else if N.eqb loc 2 || N.eqb loc 3 || N.eqb loc 4 then V_KNOWN K_NAME
    else V_VIOLATION
  else V_VIOLATION.

(* ------------------------------------------------------------------ attenuation table *)
(* (admin_limit, write_limit, horizon, level, hops, implementation result (0 = None)) *)
Definition att_case := (N * N * N * N * N * N)%type.
Definition check_att (c : att_case) : N :=
  let '(a, w, h, l, k, r) := c in
  if N.eqb (gen_attenuate (Pol a w h) l k) r && N.eqb (attenuate (Pol a w h) l k) r then V_OK else V_MISMATCH.
