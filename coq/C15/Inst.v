(* C15/Inst.v -- PER-RUN OBLIGATIONS over gen/Gen_C15.v (regenerated from neumann_parser/src/
   {expr,parser,ast}.rs and docs/book/src/architecture/neumann-parser.md on every run).
   All by computation; a harmless edit of the Rust tables re-proves, a semantic change fails. *)
From NV.Common Require Import Base.
From NV.C15 Require Import Types Model Proofs Run.
From NV.gen Require Import Gen_C15.
Open Scope N_scope.

(* WellFormedTable for both copies of the binding-power table *)
Lemma gen_wf_expr : wf_tableb gen_nops (tbl_l gen_infix_expr) (tbl_r gen_infix_expr) gen_prefix_expr = true.
Proof. vm_compute. reflexivity. Qed.
Lemma gen_wf_parser : wf_tableb gen_nops (tbl_l gen_infix_parser) (tbl_r gen_infix_parser) gen_prefix_parser = true.
Proof. vm_compute. reflexivity. Qed.
Lemma gen_WellFormed_expr : WellFormedTable gen_nops (tbl_l gen_infix_expr) (tbl_r gen_infix_expr) gen_prefix_expr.
Proof. exact (wf_tableb_sound _ _ _ _ gen_wf_expr). Qed.
Lemma gen_WellFormed_parser : WellFormedTable gen_nops (tbl_l gen_infix_parser) (tbl_r gen_infix_parser) gen_prefix_parser.
Proof. exact (wf_tableb_sound _ _ _ _ gen_wf_parser). Qed.
Lemma gen_and_in_range : OP_AND <? gen_nops = true.
Proof. vm_compute. reflexivity. Qed.
Lemma gen_table_sizes :
  length gen_infix_expr = N.to_nat gen_nops /\ length gen_infix_parser = N.to_nat gen_nops /\
  length gen_doc_ast = N.to_nat gen_nops.
Proof. vm_compute. repeat split; reflexivity. Qed.

(* tables_agree: the two copies (expr.rs / parser.rs) are the same table, prefix power, limit, guard *)
Lemma gen_tables_agree :
  gen_infix_expr = gen_infix_parser /\ gen_prefix_expr = gen_prefix_parser /\
  gen_max_depth_expr = gen_max_depth_parser /\ gen_guard_expr = gen_guard_parser.
Proof. vm_compute. repeat split; reflexivity. Qed.
Lemma gen_tables_agreeb :
  tables_agreeb gen_nops (tbl_l gen_infix_expr) (tbl_r gen_infix_expr) (tbl_l gen_infix_parser) (tbl_r gen_infix_parser) = true.
Proof. vm_compute. reflexivity. Qed.

(* both loops carry the depth guard, every recursion cycle of parser.rs passes through a guarded
   entry point, current_binary_op is the expected token map, and unary operands / LIKE patterns /
   BETWEEN bounds are parsed at the prefix power (what Model.v assumes) *)
Lemma gen_guards : gen_guard_expr = true /\ gen_guard_parser = true /\ gen_recursion_guarded_parser = true.
Proof. vm_compute. repeat split; reflexivity. Qed.
Lemma gen_shape :
  gen_tokens_expr = true /\ gen_tokens_parser = true /\
  gen_operand_powers_expr = true /\ gen_operand_powers_parser = true.
Proof. vm_compute. repeat split; reflexivity. Qed.

(* the documented precedence (ast.rs BinaryOp::precedence + is_left_assoc) induces exactly the
   grouping of the binding-power tables; the expr.rs header comment and the book table say the same *)
Lemma gen_doc_agrees_expr :
  doc_agreesb gen_nops (tbl_l gen_infix_expr) (tbl_r gen_infix_expr) (tbl_lev gen_doc_ast) gen_doc_ast_left = true.
Proof. vm_compute. reflexivity. Qed.
Lemma gen_doc_agrees_parser :
  doc_agreesb gen_nops (tbl_l gen_infix_parser) (tbl_r gen_infix_parser) (tbl_lev gen_doc_ast) gen_doc_ast_left = true.
Proof. vm_compute. reflexivity. Qed.
Lemma gen_docs_consistent :
  gen_doc_header = gen_doc_ast /\ gen_doc_book = gen_doc_ast /\
  gen_doc_book_bp = gen_infix_expr /\ gen_doc_book_prefix_bp = gen_prefix_expr /\
  gen_doc_book_left = gen_doc_ast_left /\
  forallb (fun l => l <? gen_doc_header_unary) gen_doc_header = true /\
  gen_doc_header_unary < gen_doc_header_postfix /\
  forallb (fun l => l <? gen_doc_book_unary) gen_doc_book = true.
Proof. vm_compute. repeat split; reflexivity. Qed.

(* the optional query cache cannot change an answer: its key is the statement text itself and every
   write statement (successful or failed) drops it *)
Lemma gen_cache_transparent : gen_cache_key_is_text = true /\ gen_cache_invalidation_unconditional = true.
Proof. vm_compute. split; reflexivity. Qed.
