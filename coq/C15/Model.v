(* C15/Model.v -- executable model of the Pratt expression parser of neumann_parser
   (expr.rs ExprParser::{parse_expr_bp, parse_prefix, parse_postfix, parse_paren_expr, parse_in_expr,
   parse_between_expr, parse_like_expr} and the copy in parser.rs Parser::{parse_expr_bp, ...}).
   Definitions only.  The binding-power tables, prefix power, depth limit and the presence of the
   depth guard are parameters; Run.v / Inst.v instantiate them with what the translator regenerates
   from the Rust source on every run (gen/Gen_C15.v).

   Reading of the Rust code that the model mirrors:
   * parse_expr_bp(min): depth += 1; if depth > MAX_DEPTH -> TooDeep at the current token;
     lhs = parse_prefix; loop { lhs = parse_postfix(lhs); op = current_binary_op or break;
     (l, r) = infix_binding_power(op); if l < min break; advance; rhs = parse_expr_bp(r);
     lhs = Binary(lhs, op, rhs) }; depth -= 1.  Errors propagate with `?` to the top, so the
     counter is never observed after an error: `d` is simply the number of enclosing activations.
   * parse_prefix: literal/identifier -> leaf; `(` -> `()` is the empty tuple, `(e)` is e itself
     (no Paren node), `(e, ...)` a tuple; `-`/NOT/`~` -> Unary(op, parse_expr_bp(PREFIX_BP)).
   * parse_postfix(e): loop: NOT followed by IN/BETWEEN/LIKE negates that form; IS [NOT] NULL;
     IN ( [e {, e}] ); BETWEEN parse_expr_bp(PREFIX_BP) AND parse_expr_bp(PREFIX_BP);
     LIKE parse_expr_bp(PREFIX_BP); anything else returns e.
   Outside the fragment (result Unsup): `*` in prefix position (wildcard); function calls,
   arrays, CASE, EXISTS, CAST, qualified names and sub-queries have no tokens here. *)
From NV.Common Require Import Base.
From NV.C15 Require Import Types.
Open Scope N_scope.

Definition unexpected (ts : list tok) : res := match ts with [] => Err 2 [] | _ => Err 1 ts end.
Definition prefix_of (t : tok) : option N :=
  match t with
  | TNot => Some 0
  | TOp o => if o =? OP_SUB then Some 1 else None
  | TTilde => Some 2
  | _ => None
  end.
Definition un_tok (u : N) : tok := if u =? 0 then TNot else if u =? 1 then TOp OP_SUB else TTilde.
Definition atom_tok (n : N) : tok := if n =? 0 then TNull else TAtom n.
Definition nots (neg : bool) : list tok := if neg then [TNot] else [].
Definition of_lres (x : lres) : res :=
  match x with LOk _ r => unexpected r | LErr k r => Err k r | LFuel => Fuel | LUnsup => Unsup | LOverflow => Overflow end.
Definition to_lres (x : res) : lres :=
  match x with Ok _ r => LFuel | Err k r => LErr k r | Fuel => LFuel | Unsup => LUnsup | Overflow => LOverflow end.

Section Parser.
Variables (lbp rbp : N -> N).   (* infix_binding_power, by operator code *)
Variable pbp : N.               (* prefix power *)
Variable maxd : N.              (* MAX_DEPTH *)
Variable guarded : bool.        (* is the depth check present in this copy of the loop? *)
Variable slimit : N.            (* number of nested activations the real stack can hold *)

Fixpoint parse_bp (fuel : nat) (d minp : N) (ts : list tok) {struct fuel} : res :=
  match fuel with
  | O => Fuel
  | S f =>
      let d' := d + 1 in
      if slimit <? d' then Overflow
      else if guarded && (maxd <? d') then Err 0 ts
      else match prefix f d' ts with
           | Ok a r => loop f d' minp a r
           | x => x
           end
  end
with prefix (fuel : nat) (d : N) (ts : list tok) {struct fuel} : res :=
  match fuel with
  | O => Fuel
  | S f =>
      match ts with
      | [] => Err 2 []
      | TAtom n :: r => Ok (Atom n) r
      | TNull :: r => Ok (Atom 0) r
      | TLP :: TRP :: r => Ok (Tuple []) r
      | TLP :: r =>
          match parse_bp f d 0 r with
          | Ok e (TComma :: r1) =>
              match items f d r1 with
              | LOk es (TRP :: r2) => Ok (Tuple (e :: es)) r2
              | x => of_lres x
              end
          | Ok e (TRP :: r1) => Ok e r1
          | Ok e r1 => unexpected r1
          | x => x
          end
      | t :: r =>
          match prefix_of t with
          | Some u => match parse_bp f d pbp r with Ok x r1 => Ok (Un u x) r1 | y => y end
          | None => match t with
                    | TOp o => if o =? OP_MUL then Unsup else Err 1 ts
                    | _ => Err 1 ts
                    end
          end
      end
  end
with loop (fuel : nat) (d minp : N) (a : expr) (ts : list tok) {struct fuel} : res :=
  match fuel with
  | O => Fuel
  | S f =>
      match postfix f d a ts with
      | Ok a' ts' =>
          match ts' with
          | TOp o :: r =>
              if lbp o <? minp then Ok a' ts'
              else match parse_bp f d (rbp o) r with
                   | Ok rhs r2 => loop f d minp (Bin o a' rhs) r2
                   | x => x
                   end
          | _ => Ok a' ts'
          end
      | x => x
      end
  end
with postfix (fuel : nat) (d : N) (a : expr) (ts : list tok) {struct fuel} : res :=
  match fuel with
  | O => Fuel
  | S f =>
      let '(neg, ts0) :=
        match ts with
        | TNot :: ((TIn :: _) as r) => (true, r)
        | TNot :: ((TBetween :: _) as r) => (true, r)
        | TNot :: ((TLike :: _) as r) => (true, r)
        | _ => (false, ts)
        end in
      match ts0 with
      | TIs :: r =>
          let '(n2, r1) := match r with TNot :: r1 => (true, r1) | _ => (false, r) end in
          match r1 with
          | TNull :: r2 => postfix f d (IsNull a n2) r2
          | _ => unexpected r1
          end
      | TIn :: r =>
          match r with
          | TLP :: TRP :: r2 => postfix f d (InL a [] neg) r2
          | TLP :: r1 =>
              match items f d r1 with
              | LOk es (TRP :: r2) => postfix f d (InL a es neg) r2
              | x => of_lres x
              end
          | _ => unexpected r
          end
      | TBetween :: r =>
          match parse_bp f d pbp r with
          | Ok lo (TOp o :: r1) =>
              if o =? OP_AND then
                match parse_bp f d pbp r1 with
                | Ok hi r2 => postfix f d (Between a lo hi neg) r2
                | x => x
                end
              else Err 1 (TOp o :: r1)
          | Ok lo r1 => unexpected r1
          | x => x
          end
      | TLike :: r =>
          match parse_bp f d pbp r with
          | Ok p r1 => postfix f d (Like a p neg) r1
          | x => x
          end
      | _ => Ok a ts
      end
  end
with items (fuel : nat) (d : N) (ts : list tok) {struct fuel} : lres :=
  match fuel with
  | O => LFuel
  | S f =>
      match parse_bp f d 0 ts with
      | Ok e (TComma :: r) =>
          match items f d r with
          | LOk es r2 => LOk (e :: es) r2
          | x => x
          end
      | Ok e r => LOk [e] r
      | x => to_lres x
      end
  end.

End Parser.

(* ---------------------------------------------------------------------------------------------
   Printer with minimal parentheses.  A child is parenthesised exactly where the grouping rules
   require it; the rules are two predicates on operator codes:
     needL o o' : a binary o'-node as LEFT operand of o needs parentheses
     needR o o' : a binary o'-node as RIGHT operand of o needs parentheses
   (binding-power instance and documented-precedence instance below).  Positions:
     PTop   whole expression, list element, inside parentheses
     PL o / PR o   left / right operand of binary o
     PPre   operand of a unary operator, LIKE pattern, BETWEEN bound
     PSubj  subject of a postfix form (x IS NULL, x IN (..), x LIKE p, x BETWEEN a AND b) *)
Inductive pos := PTop | PL (o : N) | PR (o : N) | PPre | PSubj.

Section Printer.
Variables needL needR : N -> N -> bool.

Definition wraps (q : pos) (c : expr) : bool :=
  match c with
  | Bin o' _ _ =>
      match q with PTop => false | PL o => needL o o' | PR o => needR o o' | PPre | PSubj => true end
  | Un _ _ | Like _ _ _ | Between _ _ _ _ => match q with PSubj => true | _ => false end
  | _ => false
  end.

Fixpoint commas (ls : list (list tok)) : list tok :=
  match ls with
  | [] => []
  | [x] => x
  | x :: r => x ++ TComma :: commas r
  end.

Definition wrap (b : bool) (l : list tok) : list tok := if b then TLP :: l ++ [TRP] else l.

Fixpoint body (e : expr) : list tok :=
  match e with
  | Atom n => [atom_tok n]
  | Bin o l r => wrap (wraps (PL o) l) (body l) ++ TOp o :: wrap (wraps (PR o) r) (body r)
  | Un u x => un_tok u :: wrap (wraps PPre x) (body x)
  | IsNull x neg => wrap (wraps PSubj x) (body x) ++ TIs :: nots neg ++ [TNull]
  | Like x p neg => wrap (wraps PSubj x) (body x) ++ nots neg ++ TLike :: wrap (wraps PPre p) (body p)
  | Between x lo hi neg =>
      wrap (wraps PSubj x) (body x) ++ nots neg ++
      TBetween :: wrap (wraps PPre lo) (body lo) ++ TOp OP_AND :: wrap (wraps PPre hi) (body hi)
  | InL x vs neg => wrap (wraps PSubj x) (body x) ++ nots neg ++ TIn :: TLP :: commas (map body vs) ++ [TRP]
  | Tuple es => TLP :: commas (map body es) ++ [TRP]
  end.
Definition pr (q : pos) (e : expr) : list tok := wrap (wraps q e) (body e).

(* number of nested parse_expr_bp activations needed BELOW the activation that reads e's first
   token (a parenthesis, a unary operand, a right operand, a pattern, a list element each open one) *)
Definition maxl (l : list N) : N := fold_right N.max 0 l.
Definition wd (b : bool) (n : N) : N := if b then 1 + n else n.
Fixpoint cdepth (e : expr) : N :=
  match e with
  | Atom _ => 0
  | Bin o l r => N.max (wd (wraps (PL o) l) (cdepth l)) (1 + wd (wraps (PR o) r) (cdepth r))
  | Un _ x => 1 + wd (wraps PPre x) (cdepth x)
  | IsNull x _ => wd (wraps PSubj x) (cdepth x)
  | Like x p _ => N.max (wd (wraps PSubj x) (cdepth x)) (1 + wd (wraps PPre p) (cdepth p))
  | Between x lo hi _ =>
      N.max (wd (wraps PSubj x) (cdepth x))
            (N.max (1 + wd (wraps PPre lo) (cdepth lo)) (1 + wd (wraps PPre hi) (cdepth hi)))
  | InL x vs _ =>
      N.max (wd (wraps PSubj x) (cdepth x)) (match vs with [] => 0 | _ => 1 + maxl (map cdepth vs) end)
  | Tuple es => match es with [] => 0 | _ => 1 + maxl (map cdepth es) end
  end.
End Printer.

(* well-formed tree over nops operators: operator codes in range, tuples are not singletons
   (`(e)` is e itself) *)
Fixpoint wfe (nops : N) (e : expr) : bool :=
  match e with
  | Atom _ => true
  | Bin o l r => (o <? nops) && wfe nops l && wfe nops r
  | Un u x => (u <? 3) && wfe nops x
  | IsNull x _ => wfe nops x
  | Like x p _ => wfe nops x && wfe nops p
  | Between x lo hi _ => wfe nops x && wfe nops lo && wfe nops hi
  | InL x vs _ => wfe nops x && forallb (wfe nops) vs
  | Tuple es => negb (length es =? 1)%nat && forallb (wfe nops) es
  end.

(* grouping rules from a binding-power table, and from documented precedence levels *)
Definition needL_bp (lbp rbp : N -> N) (o o' : N) : bool := lbp o' <? lbp o.
Definition needR_bp (lbp rbp : N -> N) (o o' : N) : bool := lbp o' <? rbp o.
Definition needL_doc (lev : N -> N) (o o' : N) : bool := lev o' <? lev o.
Definition needR_doc (lev : N -> N) (left_assoc : bool) (o o' : N) : bool :=
  if left_assoc then lev o' <=? lev o else lev o' <? lev o.

(* table lookups *)
Definition tbl_l (t : list (N * N)) (o : N) : N := fst (nth (N.to_nat o) t (0, 0)).
Definition tbl_r (t : list (N * N)) (o : N) : N := snd (nth (N.to_nat o) t (0, 0)).
Definition tbl_lev (t : list N) (o : N) : N := nth (N.to_nat o) t 0.

(* what a table must satisfy for the round-trip theorem: every operator is left associative
   (l < r) and the prefix power is at least every right power (so above every left power) *)
Definition WellFormedTable (nops : N) (lbp rbp : N -> N) (pbp : N) : Prop :=
  forall o, o < nops -> lbp o < rbp o /\ rbp o <= pbp.
Definition wf_tableb (nops : N) (lbp rbp : N -> N) (pbp : N) : bool :=
  forallb (fun o => (lbp o <? rbp o) && (rbp o <=? pbp)) (N_seq nops).
Definition tables_agreeb (nops : N) (l1 r1 l2 r2 : N -> N) : bool :=
  forallb (fun o => (l1 o =? l2 o) && (r1 o =? r2 o)) (N_seq nops).
(* documented levels induce the same grouping as the table *)
Definition doc_agreesb (nops : N) (lbp rbp lev : N -> N) (left_assoc : bool) : bool :=
  forallb (fun o => forallb (fun o' =>
     Bool.eqb (needL_bp lbp rbp o o') (needL_doc lev o o') &&
     Bool.eqb (needR_bp lbp rbp o o') (needR_doc lev left_assoc o o')) (N_seq nops)) (N_seq nops).

(* ---------------------------------------------------------------------------------------------
   QueryRouter::parse_condition, the condition parser of the LEGACY entry point QueryRouter::execute
   (query_router/src/lib.rs): no parentheses; split at the first " OR ", else at the first " AND ",
   else one comparison `col op value` cut out of whatever text is left (a parenthesis simply becomes
   part of the column name or of the value: GARBLED stands for such a leaf). *)
Inductive ltok := LLeaf (n : N) | LAnd | LOr | LLP | LRP.
Definition GARBLED : N := 99999.
Fixpoint split_at (is_sep : ltok -> bool) (ts : list ltok) : option (list ltok * list ltok) :=
  match ts with
  | [] => None
  | t :: r => if is_sep t then Some ([], r)
              else match split_at is_sep r with Some (a, b) => Some (t :: a, b) | None => None end
  end.
Fixpoint legacy_cond (fuel : nat) (ts : list ltok) : option expr :=
  match fuel with
  | O => None
  | S f =>
      match split_at (fun t => match t with LOr => true | _ => false end) ts with
      | Some (l, r) => match legacy_cond f l, legacy_cond f r with
                       | Some a, Some b => Some (Bin 0 a b) | _, _ => None end
      | None =>
          match split_at (fun t => match t with LAnd => true | _ => false end) ts with
          | Some (l, r) => match legacy_cond f l, legacy_cond f r with
                           | Some a, Some b => Some (Bin OP_AND a b) | _, _ => None end
          | None => match ts with
                    | [LLeaf n] => Some (Atom n)
                    | [] => None
                    | _ => Some (Atom GARBLED)
                    end
          end
      end
  end.
(* the same text as tokens of the expression grammar *)
Definition ltok_tok (t : ltok) : tok :=
  match t with LLeaf n => TAtom n | LAnd => TOp OP_AND | LOr => TOp 0 | LLP => TLP | LRP => TRP end.
