(* C15/Proofs.v -- the Pratt round trip for ANY well-formed binding-power table, with prefix
   operators, the postfix forms (IS NULL, IN, LIKE, BETWEEN), tuples, and the depth guard;
   the stack bound of the guarded parser; position/determinism facts.

   Structure:
   1. a big-step derivation system `Der` for SUCCESSFUL runs of the five mutually recursive
      functions of Model.v (one inductive over a judgement type, so the stock induction
      principle is the mutual one);
   2. `der_sound`: every derivation is reproduced by the fuel-indexed functions for all
      sufficiently large fuel;
   3. `G`: the continuation-style invariant "after the tokens of `pr q e` the parser is exactly
      in `loop ... e rest`", by structural induction on e;
   4. the theorems. *)
From NV.Common Require Import Base.
From NV.C15 Require Import Types Model.
Open Scope N_scope.

(* ------------------------------------------------------------------ induction principle for expr *)
Section ExprInd.
Variable P : expr -> Prop.
Hypothesis HA : forall n, P (Atom n).
Hypothesis HB : forall o l r, P l -> P r -> P (Bin o l r).
Hypothesis HU : forall u x, P x -> P (Un u x).
Hypothesis HN : forall x neg, P x -> P (IsNull x neg).
Hypothesis HL : forall x p neg, P x -> P p -> P (Like x p neg).
Hypothesis HW : forall x lo hi neg, P x -> P lo -> P hi -> P (Between x lo hi neg).
Hypothesis HI : forall x vs neg, P x -> Forall P vs -> P (InL x vs neg).
Hypothesis HT : forall es, Forall P es -> P (Tuple es).
Fixpoint expr_ind2 (e : expr) : P e :=
  match e with
  | Atom n => HA n
  | Bin o l r => HB o l r (expr_ind2 l) (expr_ind2 r)
  | Un u x => HU u x (expr_ind2 x)
  | IsNull x neg => HN x neg (expr_ind2 x)
  | Like x p neg => HL x p neg (expr_ind2 x) (expr_ind2 p)
  | Between x lo hi neg => HW x lo hi neg (expr_ind2 x) (expr_ind2 lo) (expr_ind2 hi)
  | InL x vs neg =>
      HI x vs neg (expr_ind2 x)
         ((fix go (l : list expr) : Forall P l :=
             match l with [] => Forall_nil P | a :: t => Forall_cons a (expr_ind2 a) (go t) end) vs)
  | Tuple es =>
      HT es ((fix go (l : list expr) : Forall P l :=
                match l with [] => Forall_nil P | a :: t => Forall_cons a (expr_ind2 a) (go t) end) es)
  end.
End ExprInd.

Definition ev (P : nat -> Prop) : Prop := exists f0 : nat, forall f : nat, (f0 <= f)%nat -> P f.

Lemma ev_and (P Q : nat -> Prop) : ev P -> ev Q -> ev (fun f => P f /\ Q f).
Proof.
  intros [a Ha] [b Hb]. exists (Nat.max a b). intros f Hf. split; [apply Ha|apply Hb]; lia.
Qed.

Section Pratt.
Variables (lbp rbp : N -> N) (pbp maxd : N) (guarded : bool) (slimit : N).

Notation parse_bp := (parse_bp lbp rbp pbp maxd guarded slimit).
Notation prefix := (prefix lbp rbp pbp maxd guarded slimit).
Notation loop := (loop lbp rbp pbp maxd guarded slimit).
Notation postfix := (postfix lbp rbp pbp maxd guarded slimit).
Notation items := (items lbp rbp pbp maxd guarded slimit).

(* an activation entered with counter value k (after the increment) proceeds *)
Definition okd (k : N) : Prop := k <= slimit /\ (guarded = true -> k <= maxd).

Lemma okd_le k k' : okd k -> k' <= k -> okd k'.
Proof. intros [A B] L. split; [lia|]. intros G. specialize (B G). lia. Qed.

Lemma okd_enter d f minp ts : okd (d + 1) ->
  parse_bp (S f) d minp ts =
  match prefix f (d + 1) ts with Ok a r => loop f (d + 1) minp a r | x => x end.
Proof.
  intros [A B]. cbn [Model.parse_bp].
  replace (slimit <? d + 1) with false by (symmetry; apply N.ltb_ge; lia).
  destruct guarded; cbn [andb]; [|reflexivity].
  replace (maxd <? d + 1) with false by (symmetry; apply N.ltb_ge; apply B; reflexivity).
  reflexivity.
Qed.

(* ------------------------------------------------------------------ token classes *)
Definition istop (m : N) (ts : list tok) : Prop :=
  match ts with TOp o :: _ => lbp o < m | _ => True end.
Definition nopost (ts : list tok) : Prop :=
  match ts with
  | TIs :: _ | TIn :: _ | TLike :: _ | TBetween :: _ => False
  | TNot :: TIn :: _ | TNot :: TLike :: _ | TNot :: TBetween :: _ => False
  | _ => True
  end.
Definition notrp (ts : list tok) : Prop := match ts with TRP :: _ => False | _ => True end.
Definition notcomma (ts : list tok) : Prop := match ts with TComma :: _ => False | _ => True end.

Lemma istop_mono m m' ts : istop m ts -> m <= m' -> istop m' ts.
Proof. destruct ts as [|[] ?]; cbn; auto. intros; lia. Qed.

(* ------------------------------------------------------------------ derivations of successful runs *)
Inductive J :=
| JBp (d minp : N) (ts : list tok) (e : expr) (r : list tok)
| JPre (d : N) (ts : list tok) (e : expr) (r : list tok)
| JLp (d minp : N) (a : expr) (ts : list tok) (e : expr) (r : list tok)
| JPost (d : N) (a : expr) (ts : list tok) (e : expr) (r : list tok)
| JItems (d : N) (ts : list tok) (es : list expr) (r : list tok).

Inductive Der : J -> Prop :=
| D_bp d minp ts a r1 e r :
    okd (d + 1) -> Der (JPre (d + 1) ts a r1) -> Der (JLp (d + 1) minp a r1 e r) ->
    Der (JBp d minp ts e r)
| D_atom d n r : Der (JPre d (TAtom n :: r) (Atom n) r)
| D_null d r : Der (JPre d (TNull :: r) (Atom 0) r)
| D_un d t u r x r1 :
    prefix_of t = Some u -> Der (JBp d pbp r x r1) -> Der (JPre d (t :: r) (Un u x) r1)
| D_paren d r e r1 :
    notrp r -> Der (JBp d 0 r e (TRP :: r1)) -> Der (JPre d (TLP :: r) e r1)
| D_tuple0 d r : Der (JPre d (TLP :: TRP :: r) (Tuple []) r)
| D_tuple d r e r1 es r2 :
    notrp r -> Der (JBp d 0 r e (TComma :: r1)) -> Der (JItems d r1 es (TRP :: r2)) ->
    Der (JPre d (TLP :: r) (Tuple (e :: es)) r2)
| D_stop d minp a ts a' ts' :
    Der (JPost d a ts a' ts') -> istop minp ts' -> Der (JLp d minp a ts a' ts')
| D_step d minp a ts a' o r rhs r2 e rf :
    Der (JPost d a ts a' (TOp o :: r)) -> minp <= lbp o ->
    Der (JBp d (rbp o) r rhs r2) -> Der (JLp d minp (Bin o a' rhs) r2 e rf) ->
    Der (JLp d minp a ts e rf)
| D_pnone d a ts : nopost ts -> Der (JPost d a ts a ts)
| D_isnull d a neg r a' r' :
    Der (JPost d (IsNull a neg) r a' r') -> Der (JPost d a (TIs :: nots neg ++ TNull :: r) a' r')
| D_like d a neg r p r1 a' r' :
    Der (JBp d pbp r p r1) -> Der (JPost d (Like a p neg) r1 a' r') ->
    Der (JPost d a (nots neg ++ TLike :: r) a' r')
| D_between d a neg r lo r1 hi r2 a' r' :
    Der (JBp d pbp r lo (TOp OP_AND :: r1)) -> Der (JBp d pbp r1 hi r2) ->
    Der (JPost d (Between a lo hi neg) r2 a' r') ->
    Der (JPost d a (nots neg ++ TBetween :: r) a' r')
| D_in0 d a neg r a' r' :
    Der (JPost d (InL a [] neg) r a' r') -> Der (JPost d a (nots neg ++ TIn :: TLP :: TRP :: r) a' r')
| D_in d a neg r es r1 a' r' :
    notrp r -> Der (JItems d r es (TRP :: r1)) -> Der (JPost d (InL a es neg) r1 a' r') ->
    Der (JPost d a (nots neg ++ TIn :: TLP :: r) a' r')
| D_item1 d ts e r : Der (JBp d 0 ts e r) -> notcomma r -> Der (JItems d ts [e] r)
| D_items d ts e r es r2 :
    Der (JBp d 0 ts e (TComma :: r)) -> Der (JItems d r es r2) -> Der (JItems d ts (e :: es) r2).

(* what a judgement says about the functions *)
Definition sem (j : J) : Prop :=
  match j with
  | JBp d m ts e r => ev (fun f => parse_bp f d m ts = Ok e r)
  | JPre d ts e r => ev (fun f => prefix f d ts = Ok e r)
  | JLp d m a ts e r => ev (fun f => loop f d m a ts = Ok e r)
  | JPost d a ts e r => ev (fun f => postfix f d a ts = Ok e r)
  | JItems d ts es r => ev (fun f => items f d ts = LOk es r)
  end.

Ltac fuel_step f Hf :=
  intros f Hf; destruct f as [|f]; [exfalso; lia|].

Lemma postfix_neg_like f d a r :
  postfix (S f) d a (TNot :: TLike :: r) =
  match parse_bp f d pbp r with Ok p r1 => postfix f d (Like a p true) r1 | x => x end.
Proof. reflexivity. Qed.
Lemma postfix_like f d a r :
  postfix (S f) d a (TLike :: r) =
  match parse_bp f d pbp r with Ok p r1 => postfix f d (Like a p false) r1 | x => x end.
Proof. reflexivity. Qed.
Lemma postfix_neg_between f d a r :
  postfix (S f) d a (TNot :: TBetween :: r) =
  match parse_bp f d pbp r with
  | Ok lo (TOp o :: r1) =>
      if o =? OP_AND then
        match parse_bp f d pbp r1 with Ok hi r2 => postfix f d (Between a lo hi true) r2 | x => x end
      else Err 1 (TOp o :: r1)
  | Ok lo r1 => unexpected r1
  | x => x
  end.
Proof. reflexivity. Qed.
Lemma postfix_between f d a r :
  postfix (S f) d a (TBetween :: r) =
  match parse_bp f d pbp r with
  | Ok lo (TOp o :: r1) =>
      if o =? OP_AND then
        match parse_bp f d pbp r1 with Ok hi r2 => postfix f d (Between a lo hi false) r2 | x => x end
      else Err 1 (TOp o :: r1)
  | Ok lo r1 => unexpected r1
  | x => x
  end.
Proof. reflexivity. Qed.
Lemma postfix_neg_in f d a r :
  postfix (S f) d a (TNot :: TIn :: r) =
  match r with
  | TLP :: TRP :: r2 => postfix f d (InL a [] true) r2
  | TLP :: r1 =>
      match items f d r1 with
      | LOk es (TRP :: r2) => postfix f d (InL a es true) r2
      | x => of_lres x
      end
  | _ => unexpected r
  end.
Proof. reflexivity. Qed.
Lemma postfix_in f d a r :
  postfix (S f) d a (TIn :: r) =
  match r with
  | TLP :: TRP :: r2 => postfix f d (InL a [] false) r2
  | TLP :: r1 =>
      match items f d r1 with
      | LOk es (TRP :: r2) => postfix f d (InL a es false) r2
      | x => of_lres x
      end
  | _ => unexpected r
  end.
Proof. reflexivity. Qed.
Lemma postfix_none f d a ts : nopost ts -> postfix (S f) d a ts = Ok a ts.
Proof.
  intros H. destruct ts as [|t r]; [reflexivity|].
  destruct t; try reflexivity; try (exfalso; exact H).
  destruct r as [|t2 r2]; [reflexivity|].
  destruct t2; try reflexivity; exfalso; exact H.
Qed.

Lemma der_sound j : Der j -> sem j.
Proof.
  induction 1; cbn [sem] in *;
    repeat match goal with IH : ev _ |- _ => let f := fresh "f" in let E := fresh "E" in destruct IH as [f E] end.
  - (* D_bp *)
    exists (S (Nat.max f f0)). fuel_step g Hg.
    rewrite okd_enter by assumption. rewrite E0 by lia. apply E. lia.
  - exists 1%nat. fuel_step g Hg. reflexivity.
  - exists 1%nat. fuel_step g Hg. reflexivity.
  - (* D_un *)
    exists (S f). fuel_step g Hg.
    match goal with Hp : prefix_of _ = Some _ |- _ => rename Hp into Hpre end.
    destruct t; cbn in Hpre; try discriminate.
    + destruct (o =? OP_SUB) eqn:Eo; [|discriminate]. injection Hpre as <-.
      cbn [Model.prefix Model.prefix_of]. rewrite Eo. rewrite E by lia. reflexivity.
    + injection Hpre as <-. cbn [Model.prefix Model.prefix_of]. rewrite E by lia. reflexivity.
    + injection Hpre as <-. cbn [Model.prefix Model.prefix_of]. rewrite E by lia. reflexivity.
  - (* D_paren *)
    exists (S f). fuel_step g Hg.
    match goal with Hp : notrp _ |- _ => rename Hp into Hrp end.
    cbn [Model.prefix]. destruct r as [|t0 rr]; [|destruct t0; try (exfalso; exact Hrp)];
      rewrite E by lia; reflexivity.
  - exists 1%nat. fuel_step g Hg. reflexivity.
  - (* D_tuple *)
    exists (S (Nat.max f f0)). fuel_step g Hg.
    match goal with Hp : notrp _ |- _ => rename Hp into Hrp end.
    cbn [Model.prefix]. destruct r as [|t0 rr]; [|destruct t0; try (exfalso; exact Hrp)];
      rewrite E0 by lia; rewrite E by lia; reflexivity.
  - (* D_stop *)
    exists (S f). fuel_step g Hg.
    match goal with Hp : istop _ _ |- _ => rename Hp into Hst end.
    cbn [Model.loop]. rewrite E by lia.
    destruct ts' as [|t0 rr]; [reflexivity|]. destruct t0; try reflexivity.
    cbn in Hst. replace (lbp o <? minp) with true by (symmetry; apply N.ltb_lt; exact Hst). reflexivity.
  - (* D_step *)
    exists (S (Nat.max f (Nat.max f0 f1))). fuel_step g Hg.
    match goal with Hp : _ <= lbp _ |- _ => rename Hp into Hle end.
    cbn [Model.loop]. rewrite E1 by lia.
    replace (lbp o <? minp) with false by (symmetry; apply N.ltb_ge; exact Hle).
    rewrite E0 by lia. apply E. lia.
  - (* D_pnone *)
    exists 1%nat. fuel_step g Hg. apply postfix_none. assumption.
  - (* D_isnull *)
    exists (S f). fuel_step g Hg.
    destruct neg; cbn [nots app Model.postfix]; apply E; lia.
  - (* D_like *)
    exists (S (Nat.max f f0)). fuel_step g Hg.
    destruct neg; cbn [nots app]; [rewrite postfix_neg_like|rewrite postfix_like];
      rewrite E0 by lia; apply E; lia.
  - (* D_between *)
    exists (S (Nat.max f (Nat.max f0 f1))). fuel_step g Hg.
    destruct neg; cbn [nots app]; [rewrite postfix_neg_between|rewrite postfix_between];
      rewrite E1 by lia; cbn [N.eqb OP_AND Pos.eqb]; rewrite E0 by lia; apply E; lia.
  - (* D_in0 *)
    exists (S f). fuel_step g Hg.
    destruct neg; cbn [nots app]; [rewrite postfix_neg_in|rewrite postfix_in]; apply E; lia.
  - (* D_in *)
    exists (S (Nat.max f f0)). fuel_step g Hg.
    match goal with Hp : notrp _ |- _ => rename Hp into Hrp end.
    destruct neg; cbn [nots app]; [rewrite postfix_neg_in|rewrite postfix_in];
      (destruct r as [|t0 rr]; [|destruct t0; try (exfalso; exact Hrp)]; rewrite E0 by lia; apply E; lia).
  - (* D_item1 *)
    exists (S f). fuel_step g Hg.
    match goal with Hp : notcomma _ |- _ => rename Hp into Hnc end.
    cbn [Model.items]. rewrite E by lia.
    destruct r as [|t0 rr]; [reflexivity|]. destruct t0; try reflexivity. exfalso; exact Hnc.
  - (* D_items *)
    exists (S (Nat.max f f0)). fuel_step g Hg.
    cbn [Model.items]. rewrite E0 by lia. rewrite E by lia. reflexivity.
Qed.

(* ------------------------------------------------------------------ one-step unfoldings *)
Lemma parse_bp_S f d m ts : parse_bp (S f) d m ts =
  if slimit <? d + 1 then Overflow
  else if guarded && (maxd <? d + 1) then Err 0 ts
  else match prefix f (d + 1) ts with Ok a r => loop f (d + 1) m a r | x => x end.
Proof. reflexivity. Qed.
Lemma prefix_S f d ts : prefix (S f) d ts =
  match ts with
  | [] => Err 2 []
  | TAtom n :: r => Ok (Atom n) r
  | TNull :: r => Ok (Atom 0) r
  | TLP :: TRP :: r => Ok (Tuple []) r
  | TLP :: r =>
      match parse_bp f d 0 r with
      | Ok e (TComma :: r1) =>
          match items f d r1 with
          | LOk es (TRP :: r2) => Ok (Tuple (e :: es)) r2
          | x => of_lres x
          end
      | Ok e (TRP :: r1) => Ok e r1
      | Ok e r1 => unexpected r1
      | x => x
      end
  | t :: r =>
      match prefix_of t with
      | Some u => match parse_bp f d pbp r with Ok x r1 => Ok (Un u x) r1 | y => y end
      | None => match t with
                | TOp o => if o =? OP_MUL then Unsup else Err 1 ts
                | _ => Err 1 ts
                end
      end
  end.
Proof. reflexivity. Qed.
Lemma loop_S f d m a ts : loop (S f) d m a ts =
  match postfix f d a ts with
  | Ok a' ts' =>
      match ts' with
      | TOp o :: r =>
          if lbp o <? m then Ok a' ts'
          else match parse_bp f d (rbp o) r with
               | Ok rhs r2 => loop f d m (Bin o a' rhs) r2
               | x => x
               end
      | _ => Ok a' ts'
      end
  | x => x
  end.
Proof. reflexivity. Qed.
Definition post_split (ts : list tok) : bool * list tok :=
  match ts with
  | TNot :: ((TIn :: _) as r) => (true, r)
  | TNot :: ((TBetween :: _) as r) => (true, r)
  | TNot :: ((TLike :: _) as r) => (true, r)
  | _ => (false, ts)
  end.
Lemma postfix_S f d a ts : postfix (S f) d a ts =
  let '(neg, ts0) := post_split ts in
  match ts0 with
  | TIs :: r =>
      let '(n2, r1) := match r with TNot :: r1 => (true, r1) | _ => (false, r) end in
      match r1 with
      | TNull :: r2 => postfix f d (IsNull a n2) r2
      | _ => unexpected r1
      end
  | TIn :: r =>
      match r with
      | TLP :: TRP :: r2 => postfix f d (InL a [] neg) r2
      | TLP :: r1 =>
          match items f d r1 with
          | LOk es (TRP :: r2) => postfix f d (InL a es neg) r2
          | x => of_lres x
          end
      | _ => unexpected r
      end
  | TBetween :: r =>
      match parse_bp f d pbp r with
      | Ok lo (TOp o :: r1) =>
          if o =? OP_AND then
            match parse_bp f d pbp r1 with
            | Ok hi r2 => postfix f d (Between a lo hi neg) r2
            | x => x
            end
          else Err 1 (TOp o :: r1)
      | Ok lo r1 => unexpected r1
      | x => x
      end
  | TLike :: r =>
      match parse_bp f d pbp r with
      | Ok p r1 => postfix f d (Like a p neg) r1
      | x => x
      end
  | _ => Ok a ts
  end.
Proof. reflexivity. Qed.
Lemma items_S f d ts : items (S f) d ts =
  match parse_bp f d 0 ts with
  | Ok e (TComma :: r) =>
      match items f d r with
      | LOk es r2 => LOk (e :: es) r2
      | x => x
      end
  | Ok e r => LOk [e] r
  | x => to_lres x
  end.
Proof. reflexivity. Qed.

(* ------------------------------------------------------------------ stack bound *)
(* With the guard, no activation is ever entered beyond counter value maxd + 1: a stack that holds
   maxd + 1 nested activations is never exhausted, whatever the input and however long it is. *)
Definition no_ovf (r : res) : Prop := r <> Overflow.
Definition no_lovf (r : lres) : Prop := r <> LOverflow.

Lemma of_lres_ovf x : no_lovf x -> no_ovf (of_lres x).
Proof. destruct x; cbn; unfold no_ovf, no_lovf, unexpected; try congruence. destruct rest; congruence. Qed.
Lemma to_lres_ovf x : no_ovf x -> no_lovf (to_lres x).
Proof. destruct x; cbn; unfold no_ovf, no_lovf; congruence. Qed.
Lemma unexpected_ovf ts : no_ovf (unexpected ts).
Proof. unfold no_ovf, unexpected. destruct ts; congruence. Qed.

Ltac ovf_triv := first [apply unexpected_ovf | (unfold no_ovf; congruence) | (unfold no_lovf; congruence)].

Ltac ovf_auto IHb IHp IHl IHq IHi :=
  repeat match goal with
  | H : no_ovf Overflow |- _ => exfalso; apply H; reflexivity
  | H : no_lovf LOverflow |- _ => exfalso; apply H; reflexivity
  | |- no_ovf (loop _ _ _ _ _) => apply IHl; assumption
  | |- no_ovf (postfix _ _ _ _) => apply IHq; assumption
  | |- no_ovf (parse_bp _ _ _ _) => apply IHb; assumption
  | |- no_ovf (prefix _ _ _) => apply IHp; assumption
  | |- no_lovf (items _ _ _) => apply IHi; assumption
  | |- no_ovf (of_lres _) => apply of_lres_ovf
  | |- no_lovf (to_lres _) => apply to_lres_ovf
  | |- no_ovf (unexpected _) => apply unexpected_ovf
  | |- no_ovf (Ok _ _) => unfold no_ovf; congruence
  | |- no_ovf (Err _ _) => unfold no_ovf; congruence
  | |- no_ovf Fuel => unfold no_ovf; congruence
  | |- no_ovf Unsup => unfold no_ovf; congruence
  | |- no_lovf (LOk _ _) => unfold no_lovf; congruence
  | |- no_lovf (LErr _ _) => unfold no_lovf; congruence
  | |- no_lovf LFuel => unfold no_lovf; congruence
  | |- no_lovf LUnsup => unfold no_lovf; congruence
  | |- context [match ?x with _ => _ end] =>
      lazymatch type of x with
      | res =>
          let H := fresh "Hs" in
          assert (H : no_ovf x) by (first [apply IHb; assumption | apply IHq; assumption | apply IHp; assumption | apply IHl; assumption]);
          destruct x
      | lres =>
          let H := fresh "Hs" in
          assert (H : no_lovf x) by (apply IHi; assumption);
          destruct x
      | _ => destruct x
      end
  | |- context [if ?c then _ else _] => destruct c
  end.

Lemma stack_bound_all :
  guarded = true -> maxd + 1 <= slimit ->
  forall f,
    (forall d m ts, d <= maxd -> no_ovf (parse_bp f d m ts)) /\
    (forall d ts, d <= maxd -> no_ovf (prefix f d ts)) /\
    (forall d m a ts, d <= maxd -> no_ovf (loop f d m a ts)) /\
    (forall d a ts, d <= maxd -> no_ovf (postfix f d a ts)) /\
    (forall d ts, d <= maxd -> no_lovf (items f d ts)).
Proof.
  intros HG HL. induction f as [|f (IHb & IHp & IHl & IHq & IHi)].
  - repeat split; intros; cbn; ovf_triv.
  - repeat split.
    + intros d m ts Hd. rewrite parse_bp_S.
      replace (guarded && (maxd <? d + 1)) with (maxd <? d + 1) by (rewrite HG; reflexivity).
      replace (slimit <? d + 1) with false by (symmetry; apply N.ltb_ge; lia).
      destruct (maxd <? d + 1) eqn:E; [ovf_triv|]. apply N.ltb_ge in E.
      ovf_auto IHb IHp IHl IHq IHi.
    + intros d ts Hd. rewrite prefix_S. ovf_auto IHb IHp IHl IHq IHi.
    + intros d m a ts Hd. rewrite loop_S. ovf_auto IHb IHp IHl IHq IHi.
    + intros d a ts Hd. rewrite postfix_S. ovf_auto IHb IHp IHl IHq IHi.
    + intros d ts Hd. rewrite items_S. ovf_auto IHb IHp IHl IHq IHi.
Qed.

Theorem stack_bound :
  guarded = true -> maxd + 1 <= slimit ->
  forall f m ts, parse_bp f 0 m ts <> Overflow.
Proof.
  intros HG HL f m ts. destruct (stack_bound_all HG HL f) as (Hb & _). apply Hb. lia.
Qed.

(* ------------------------------------------------------------------ fuel monotonicity / determinism *)
Ltac mono_auto IHb IHp IHl IHq IHi Hle :=
  repeat match goal with
  | H : Fuel = ?r, Hn : ?r <> Fuel |- _ => exfalso; apply Hn; symmetry; exact H
  | H : LFuel = ?r, Hn : ?r <> LFuel |- _ => exfalso; apply Hn; symmetry; exact H
  | H : of_lres LFuel = ?r, Hn : ?r <> Fuel |- _ => exfalso; apply Hn; symmetry; exact H
  | H : to_lres Fuel = ?r, Hn : ?r <> LFuel |- _ => exfalso; apply Hn; symmetry; exact H
  | H : ?x = ?r |- ?x = ?r => exact H
  | H : loop _ _ _ _ _ = ?r, Hn : ?r <> Fuel |- loop _ _ _ _ _ = ?r => exact (IHl _ _ _ _ _ _ Hle H Hn)
  | H : postfix _ _ _ _ = ?r, Hn : ?r <> Fuel |- postfix _ _ _ _ = ?r => exact (IHq _ _ _ _ _ Hle H Hn)
  | H : parse_bp _ _ _ _ = ?r, Hn : ?r <> Fuel |- parse_bp _ _ _ _ = ?r => exact (IHb _ _ _ _ _ Hle H Hn)
  | H : prefix _ _ _ = ?r, Hn : ?r <> Fuel |- prefix _ _ _ = ?r => exact (IHp _ _ _ _ Hle H Hn)
  | H : items _ _ _ = ?r, Hn : ?r <> LFuel |- items _ _ _ = ?r => exact (IHi _ _ _ _ Hle H Hn)
  | H : context [match ?x with _ => _ end] |- _ =>
      lazymatch type of x with
      | res =>
          let E := fresh "E" in
          destruct x eqn:E;
          try (first [ rewrite (IHb _ _ _ _ _ Hle E) by discriminate
                     | rewrite (IHq _ _ _ _ _ Hle E) by discriminate
                     | rewrite (IHp _ _ _ _ Hle E) by discriminate
                     | rewrite (IHl _ _ _ _ _ _ Hle E) by discriminate ])
      | lres =>
          let E := fresh "E" in
          destruct x eqn:E; try (rewrite (IHi _ _ _ _ Hle E) by discriminate)
      | _ => destruct x
      end
  | H : context [if ?c then _ else _] |- _ => destruct c
  end.

Lemma mono_all : forall f,
  (forall f' d m ts r, (f <= f')%nat -> parse_bp f d m ts = r -> r <> Fuel -> parse_bp f' d m ts = r) /\
  (forall f' d ts r, (f <= f')%nat -> prefix f d ts = r -> r <> Fuel -> prefix f' d ts = r) /\
  (forall f' d m a ts r, (f <= f')%nat -> loop f d m a ts = r -> r <> Fuel -> loop f' d m a ts = r) /\
  (forall f' d a ts r, (f <= f')%nat -> postfix f d a ts = r -> r <> Fuel -> postfix f' d a ts = r) /\
  (forall f' d ts r, (f <= f')%nat -> items f d ts = r -> r <> LFuel -> items f' d ts = r).
Proof.
  induction f as [|f (IHb & IHp & IHl & IHq & IHi)].
  - repeat split; intros; cbn in *; subst; congruence.
  - repeat split.
    + intros f' d m ts r Hf H Hn. destruct f' as [|f']; [lia|]. assert (Hle : (f <= f')%nat) by lia.
      rewrite parse_bp_S in *. mono_auto IHb IHp IHl IHq IHi Hle.
    + intros f' d ts r Hf H Hn. destruct f' as [|f']; [lia|]. assert (Hle : (f <= f')%nat) by lia.
      rewrite prefix_S in *. mono_auto IHb IHp IHl IHq IHi Hle.
    + intros f' d m a ts r Hf H Hn. destruct f' as [|f']; [lia|]. assert (Hle : (f <= f')%nat) by lia.
      rewrite loop_S in *. mono_auto IHb IHp IHl IHq IHi Hle.
    + intros f' d a ts r Hf H Hn. destruct f' as [|f']; [lia|]. assert (Hle : (f <= f')%nat) by lia.
      rewrite postfix_S in *. mono_auto IHb IHp IHl IHq IHi Hle.
    + intros f' d ts r Hf H Hn. destruct f' as [|f']; [lia|]. assert (Hle : (f <= f')%nat) by lia.
      rewrite items_S in *. mono_auto IHb IHp IHl IHq IHi Hle.
Qed.

(* the result does not depend on the fuel once there is enough of it: the parse of a token list
   is a function of the token list *)
Theorem parse_deterministic f1 f2 d m ts r1 r2 :
  parse_bp f1 d m ts = r1 -> parse_bp f2 d m ts = r2 -> r1 <> Fuel -> r2 <> Fuel -> r1 = r2.
Proof.
  intros H1 H2 N1 N2.
  destruct (mono_all f1) as (M1 & _). destruct (mono_all f2) as (M2 & _).
  rewrite <- (M1 (Nat.max f1 f2) d m ts r1 (Nat.le_max_l _ _) H1 N1).
  apply (M2 (Nat.max f1 f2) d m ts r2 (Nat.le_max_r _ _) H2 N2).
Qed.

(* ------------------------------------------------------------------ positions stay inside the input *)
(* The unconsumed rest of a successful parse and the token an error points to are never longer than
   the input: the reported position (tokens consumed = |input| - |rest|) lies within the input. *)
Definition res_len (r : res) : nat := match r with Ok _ x | Err _ x => length x | _ => O end.
Definition lres_len (r : lres) : nat := match r with LOk _ x | LErr _ x => length x | _ => O end.

Ltac pos_auto IHb IHp IHl IHq IHi :=
  repeat match goal with
  | |- context [match (match ?y with _ => _ end) with _ => _ end] =>
      lazymatch type of y with
      | list tok => destruct y
      | tok => destruct y
      end
  | |- context [match ?x with _ => _ end] =>
      lazymatch type of x with
      | res =>
          lazymatch x with
          | parse_bp _ ?d ?m ?r => pose proof (IHb d m r)
          | postfix _ ?d ?a ?r => pose proof (IHq d a r)
          | prefix _ ?d ?r => pose proof (IHp d r)
          | loop _ ?d ?m ?a ?r => pose proof (IHl d m a r)
          end; destruct x
      | lres =>
          lazymatch x with
          | items _ ?d ?r => pose proof (IHi d r)
          end; destruct x
      | _ => destruct x
      end
  | |- context [if ?c then _ else _] => destruct c
  end;
  try match goal with
  | |- (res_len (loop _ ?d ?m ?a ?r) <= _)%nat => pose proof (IHl d m a r)
  | |- (res_len (postfix _ ?d ?a ?r) <= _)%nat => pose proof (IHq d a r)
  | |- (res_len (parse_bp _ ?d ?m ?r) <= _)%nat => pose proof (IHb d m r)
  end;
  cbn [res_len lres_len length unexpected of_lres to_lres] in *; try lia.

Lemma post_split_len ts : (length (snd (post_split ts)) <= length ts)%nat.
Proof.
  destruct ts as [|t r]; cbn; [lia|]. destruct t; cbn; try lia.
  destruct r as [|t2 r2]; cbn; [lia|]. destruct t2; cbn; lia.
Qed.

Lemma pos_all : forall f,
  (forall d m ts, (res_len (parse_bp f d m ts) <= length ts)%nat) /\
  (forall d ts, (res_len (prefix f d ts) <= length ts)%nat) /\
  (forall d m a ts, (res_len (loop f d m a ts) <= length ts)%nat) /\
  (forall d a ts, (res_len (postfix f d a ts) <= length ts)%nat) /\
  (forall d ts, (lres_len (items f d ts) <= length ts)%nat).
Proof.
  induction f as [|f (IHb & IHp & IHl & IHq & IHi)].
  - repeat split; intros; cbn; lia.
  - repeat split.
    + intros d m ts. rewrite parse_bp_S. pos_auto IHb IHp IHl IHq IHi.
    + intros d ts. rewrite prefix_S. pos_auto IHb IHp IHl IHq IHi.
    + intros d m a ts. rewrite loop_S. pos_auto IHb IHp IHl IHq IHi.
    + intros d a ts. rewrite postfix_S. pose proof (post_split_len ts) as Hps.
      destruct (post_split ts) as [neg ts0]. cbn [snd] in Hps. pos_auto IHb IHp IHl IHq IHi.
    + intros d ts. rewrite items_S. pos_auto IHb IHp IHl IHq IHi.
Qed.

Theorem position_within_input f d m ts e_or_k rest :
  parse_bp f d m ts = Ok e_or_k rest \/ (exists k, parse_bp f d m ts = Err k rest) ->
  (length rest <= length ts)%nat.
Proof.
  destruct (pos_all f) as (Hb & _). specialize (Hb d m ts).
  intros [H|[k H]]; rewrite H in Hb; exact Hb.
Qed.

(* ------------------------------------------------------------------ the round-trip invariant *)
Variable nops : N.
Hypothesis WF : forall o, o < nops -> lbp o < rbp o /\ rbp o <= pbp.
Hypothesis WFand : lbp OP_AND < pbp.

Notation needL := (needL_bp lbp rbp).
Notation needR := (needR_bp lbp rbp).
Notation wraps := (wraps needL needR).
Notation body := (body needL needR).
Notation pr := (pr needL needR).
Notation cdepth := (cdepth needL needR).
Notation wfe := (wfe nops).

Definition open (e : expr) : Prop :=
  match e with Bin _ _ _ | Un _ _ | Like _ _ _ | Between _ _ _ _ => True | _ => False end.
Definition rlev (e : expr) : N := match e with Bin o _ _ => rbp o | _ => pbp end.
Definition binmin (e : expr) (m : N) : Prop := match e with Bin o _ _ => m <= lbp o | _ => True end.

(* unwrapped statement: after the tokens of `body e` the parser is in `loop d m e rest` *)
Definition U (e : expr) : Prop :=
  forall d m rest ef rf,
    binmin e m -> (open e -> nopost rest /\ istop (rlev e) rest) -> okd (d + cdepth e) ->
    Der (JLp d m e rest ef rf) ->
    exists a r1, Der (JPre d (body e ++ rest) a r1) /\ Der (JLp d m a r1 ef rf).
Definition G (e : expr) : Prop :=
  forall d q m rest ef rf,
    (wraps q e = false -> binmin e m) ->
    (wraps q e = false -> open e -> nopost rest /\ istop (rlev e) rest) ->
    okd (d + wd (wraps q e) (cdepth e)) ->
    Der (JLp d m e rest ef rf) ->
    exists a r1, Der (JPre d (pr q e ++ rest) a r1) /\ Der (JLp d m a r1 ef rf).

Lemma atom_tok_notrp n : atom_tok n <> TRP.
Proof. unfold atom_tok. destruct (n =? 0); discriminate. Qed.
Lemma un_tok_notrp u : un_tok u <> TRP.
Proof. unfold un_tok. destruct (u =? 0); [discriminate|]. destruct (u =? 1); discriminate. Qed.

Lemma wrap_notrp b l R : notrp (l ++ R) -> notrp (wrap b l ++ R).
Proof. destruct b; cbn; auto. Qed.

Lemma body_notrp e : forall R, notrp (body e ++ R).
Proof.
  induction e; intros R; cbn [Model.body].
  - cbn. pose proof (atom_tok_notrp n). destruct (atom_tok n); cbn; auto.
  - rewrite <- app_assoc. apply wrap_notrp. apply IHe1.
  - cbn. pose proof (un_tok_notrp u). destruct (un_tok u); cbn; auto.
  - rewrite <- app_assoc. apply wrap_notrp. apply IHe.
  - rewrite <- app_assoc. apply wrap_notrp. apply IHe1.
  - rewrite <- app_assoc. apply wrap_notrp. apply IHe1.
  - rewrite <- app_assoc. apply wrap_notrp. apply IHe.
  - exact I.
Qed.

Lemma wraps_top e : wraps PTop e = false.
Proof. destruct e; reflexivity. Qed.
Lemma pr_top e : pr PTop e = body e.
Proof. unfold Model.pr. rewrite wraps_top. reflexivity. Qed.

Lemma lp_stop d m e R : nopost R -> istop m R -> Der (JLp d m e R e R).
Proof. intros A B. apply D_stop; [apply D_pnone; exact A|exact B]. Qed.

Lemma G_of_U e : U e -> G e.
Proof.
  intros HU d q m rest ef rf Hm Hs Hd HL. unfold Model.pr.
  destruct (wraps q e) eqn:W; cbn [wrap wd] in *.
  - exists e, rest. split; [|exact HL].
    cbn [app]. rewrite <- app_assoc. cbn [app].
    apply D_paren; [apply body_notrp|].
    destruct (HU (d + 1) 0 (TRP :: rest) e (TRP :: rest)) as (a & r1 & A1 & A2).
    + destruct e; cbn; auto; lia.
    + intros _. split; exact I.
    + eapply okd_le; [exact Hd|lia].
    + apply lp_stop; exact I.
    + eapply D_bp; [eapply okd_le; [exact Hd|lia]|exact A1|exact A2].
  - apply HU; auto.
Qed.

Definition mq (q : pos) : N := match q with PR o => rbp o | PPre => pbp | _ => 0 end.
Definition qok (q : pos) : Prop :=
  match q with PTop | PPre => True | PR o => o < nops | _ => False end.

Lemma wfe_bin o l r : wfe (Bin o l r) = true -> o < nops /\ wfe l = true /\ wfe r = true.
Proof. cbn. rewrite !andb_true_iff, N.ltb_lt. tauto. Qed.

(* a child in operand / pattern / list position is consumed by its own activation *)
Lemma sub_bp c q R d :
  G c -> wfe c = true -> qok q -> okd (d + 1 + wd (wraps q c) (cdepth c)) ->
  nopost R -> istop (mq q) R ->
  Der (JBp d (mq q) (pr q c ++ R) c R).
Proof.
  intros HG Hw Hq Hd Hnp Hst.
  destruct (HG (d + 1) q (mq q) R c R) as (a & r1 & A1 & A2).
  - intros W. destruct c; cbn; auto.
    destruct q; cbn in *; try discriminate; try lia.
    unfold needR_bp in W. apply N.ltb_ge in W. exact W.
  - intros W Hop. split; [exact Hnp|]. eapply istop_mono; [exact Hst|].
    destruct c; cbn in Hop; try contradiction; cbn [rlev].
    + apply wfe_bin in Hw. destruct Hw as (Ho & _ & _). pose proof (WF _ Ho).
      destruct q; cbn in *; try discriminate; try lia.
      unfold needR_bp in W. apply N.ltb_ge in W. lia.
    + destruct q; cbn in *; try contradiction; try lia. pose proof (WF _ Hq). lia.
    + destruct q; cbn in *; try contradiction; try lia. pose proof (WF _ Hq). lia.
    + destruct q; cbn in *; try contradiction; try lia. pose proof (WF _ Hq). lia.
  - eapply okd_le; [exact Hd|lia].
  - apply lp_stop; assumption.
  - eapply D_bp; [eapply okd_le; [exact Hd|lia]|exact A1|exact A2].
Qed.

(* extending the postfix chain under the same loop *)
Lemma lp_ext d m A rest x ts ef rf :
  (forall a' r', Der (JPost d A rest a' r') -> Der (JPost d x ts a' r')) ->
  Der (JLp d m A rest ef rf) -> Der (JLp d m x ts ef rf).
Proof.
  intros K H. inversion H; subst.
  - apply D_stop; [apply K; assumption|assumption].
  - eapply D_step; [apply K; eassumption|assumption|eassumption|assumption].
Qed.

Lemma maxl_cons a l : maxl (a :: l) = N.max a (maxl l).
Proof. reflexivity. Qed.

Lemma commas_cons2 (x y : list tok) (l : list (list tok)) :
  commas (x :: y :: l) = x ++ TComma :: commas (y :: l).
Proof. reflexivity. Qed.

Lemma items_der vs :
  vs <> [] -> Forall (fun v => wfe v = true -> G v) vs -> forallb wfe vs = true ->
  forall d R, okd (d + 1 + maxl (map cdepth vs)) -> notcomma R -> nopost R -> istop 0 R ->
  Der (JItems d (commas (map body vs) ++ R) vs R).
Proof.
  induction vs as [|v t IH]; intros Hne HF Hw d R Hd Hnc Hnp Hst; [congruence|].
  inversion HF as [|? ? Hv Ht]; subst. cbn [forallb] in Hw. apply andb_true_iff in Hw. destruct Hw as [Hwv Hwt].
  rewrite map_cons, maxl_cons in Hd.
  destruct t as [|v2 t2].
  - cbn [map commas]. rewrite <- (pr_top v). apply D_item1; [|exact Hnc].
    apply (sub_bp v PTop R d (Hv Hwv) Hwv I); [rewrite wraps_top; cbn [wd]; eapply okd_le; [exact Hd|lia]|exact Hnp|exact Hst].
  - rewrite !map_cons, commas_cons2, <- app_assoc. cbn [app]. rewrite <- !map_cons.
    eapply D_items.
    + rewrite <- (pr_top v).
      apply (sub_bp v PTop _ d (Hv Hwv) Hwv I); [rewrite wraps_top; cbn [wd]; eapply okd_le; [exact Hd|lia]|exact I|exact I].
    + apply IH; auto; [discriminate|eapply okd_le; [exact Hd|lia]].
Qed.

Lemma G_all e : wfe e = true -> G e.
Proof.
  induction e as [n|o l r IHl IHr|u x IHx|x neg IHx|x p neg IHx IHp|x lo hi neg IHx IHlo IHhi|x vs neg IHx IHvs|es IHes]
    using expr_ind2; intros Hw; apply G_of_U; intros d m rest ef rf Hm Hs Hd HL.
  - (* Atom *)
    cbn [Model.body app]. unfold atom_tok. destruct (N.eqb_spec n 0) as [->|Hn].
    + exists (Atom 0), rest. split; [apply D_null|exact HL].
    + exists (Atom n), rest. split; [apply D_atom|exact HL].
  - (* Bin *)
    apply wfe_bin in Hw. destruct Hw as (Ho & Hwl & Hwr). pose proof (WF _ Ho) as WFo.
    destruct (Hs I) as [Hnp Hst]. cbn [rlev] in Hst. cbn [binmin] in Hm.
    change (body (Bin o l r)) with (pr (PL o) l ++ TOp o :: pr (PR o) r).
    rewrite <- app_assoc. cbn [app].
    assert (Hc : cdepth (Bin o l r) = N.max (wd (wraps (PL o) l) (cdepth l)) (1 + wd (wraps (PR o) r) (cdepth r))) by reflexivity.
    apply (IHl Hwl d (PL o) m).
    + intros W. destruct l; cbn; auto. cbn in W. unfold needL_bp in W. apply N.ltb_ge in W. lia.
    + intros W Hop. split; [exact I|]. cbn [istop].
      destruct l; cbn in Hop; try contradiction; cbn [rlev]; try lia.
      apply wfe_bin in Hwl. destruct Hwl as (Ho0 & _ & _). pose proof (WF _ Ho0).
      cbn in W. unfold needL_bp in W. apply N.ltb_ge in W. lia.
    + eapply okd_le; [exact Hd|lia].
    + eapply D_step; [apply D_pnone; exact I|exact Hm| |exact HL].
      apply (sub_bp r (PR o) rest d (IHr Hwr) Hwr Ho); [eapply okd_le; [exact Hd|lia]|exact Hnp|exact Hst].
  - (* Un *)
    cbn in Hw. apply andb_true_iff in Hw. destruct Hw as [Hu Hwx]. apply N.ltb_lt in Hu.
    destruct (Hs I) as [Hnp Hst]. cbn [rlev] in Hst.
    change (body (Un u x)) with (un_tok u :: pr PPre x). cbn [app].
    assert (Hc : cdepth (Un u x) = 1 + wd (wraps PPre x) (cdepth x)) by reflexivity.
    exists (Un u x), rest. split; [|exact HL].
    apply D_un.
    + unfold un_tok, prefix_of. destruct (N.eqb_spec u 0) as [->|]; [reflexivity|].
      destruct (N.eqb_spec u 1) as [->|]; [reflexivity|]. assert (u = 2) as -> by lia. reflexivity.
    + apply (sub_bp x PPre rest d (IHx Hwx) Hwx I); [eapply okd_le; [exact Hd|lia]|exact Hnp|exact Hst].
  - (* IsNull *)
    cbn in Hw.
    change (body (IsNull x neg)) with (pr PSubj x ++ TIs :: nots neg ++ [TNull]).
    rewrite <- app_assoc. cbn [app]. rewrite <- app_assoc. cbn [app].
    assert (Hc : cdepth (IsNull x neg) = wd (wraps PSubj x) (cdepth x)) by reflexivity.
    apply (IHx Hw d PSubj m).
    + intros W. destruct x; cbn; auto. discriminate.
    + intros W Hop. destruct x; cbn in Hop; try contradiction; discriminate.
    + eapply okd_le; [exact Hd|lia].
    + eapply lp_ext; [|exact HL]. intros a' r' HP. apply D_isnull. exact HP.
  - (* Like *)
    cbn in Hw. apply andb_true_iff in Hw. destruct Hw as [Hwx Hwp].
    destruct (Hs I) as [Hnp Hst]. cbn [rlev] in Hst.
    change (body (Like x p neg)) with (pr PSubj x ++ nots neg ++ TLike :: pr PPre p).
    rewrite <- !app_assoc. cbn [app].
    assert (Hc : cdepth (Like x p neg) = N.max (wd (wraps PSubj x) (cdepth x)) (1 + wd (wraps PPre p) (cdepth p))) by reflexivity.
    apply (IHx Hwx d PSubj m).
    + intros W. destruct x; cbn; auto. discriminate.
    + intros W Hop. destruct x; cbn in Hop; try contradiction; discriminate.
    + eapply okd_le; [exact Hd|lia].
    + eapply lp_ext; [|exact HL]. intros a' r' HP. eapply D_like; [|exact HP].
      apply (sub_bp p PPre rest d (IHp Hwp) Hwp I); [eapply okd_le; [exact Hd|lia]|exact Hnp|exact Hst].
  - (* Between *)
    cbn in Hw. rewrite !andb_true_iff in Hw. destruct Hw as [[Hwx Hwlo] Hwhi].
    destruct (Hs I) as [Hnp Hst]. cbn [rlev] in Hst.
    change (body (Between x lo hi neg)) with
      (pr PSubj x ++ nots neg ++ TBetween :: pr PPre lo ++ TOp OP_AND :: pr PPre hi).
    rewrite <- !app_assoc. cbn [app]. rewrite <- !app_assoc. cbn [app].
    assert (Hc : cdepth (Between x lo hi neg) =
                 N.max (wd (wraps PSubj x) (cdepth x))
                       (N.max (1 + wd (wraps PPre lo) (cdepth lo)) (1 + wd (wraps PPre hi) (cdepth hi)))) by reflexivity.
    apply (IHx Hwx d PSubj m).
    + intros W. destruct x; cbn; auto. discriminate.
    + intros W Hop. destruct x; cbn in Hop; try contradiction; discriminate.
    + eapply okd_le; [exact Hd|lia].
    + eapply lp_ext; [|exact HL]. intros a' r' HP. eapply D_between; [| |exact HP].
      * apply (sub_bp lo PPre _ d (IHlo Hwlo) Hwlo I); [eapply okd_le; [exact Hd|lia]|exact I|exact WFand].
      * apply (sub_bp hi PPre rest d (IHhi Hwhi) Hwhi I); [eapply okd_le; [exact Hd|lia]|exact Hnp|exact Hst].
  - (* InL *)
    cbn [Model.wfe] in Hw. apply andb_true_iff in Hw. destruct Hw as [Hwx Hwvs].
    change (body (InL x vs neg)) with (pr PSubj x ++ nots neg ++ TIn :: TLP :: commas (map body vs) ++ [TRP]).
    rewrite <- !app_assoc. cbn [app]. rewrite <- !app_assoc. cbn [app].
    assert (Hc : cdepth (InL x vs neg) =
                 N.max (wd (wraps PSubj x) (cdepth x)) (match vs with [] => 0 | _ => 1 + maxl (map cdepth vs) end)) by reflexivity.
    apply (IHx Hwx d PSubj m).
    + intros W. destruct x; cbn; auto. discriminate.
    + intros W Hop. destruct x; cbn in Hop; try contradiction; discriminate.
    + eapply okd_le; [exact Hd|lia].
    + eapply lp_ext; [|exact HL]. intros a' r' HP.
      destruct vs as [|v t].
      * cbn [map commas app]. apply D_in0. exact HP.
      * eapply D_in; [| |exact HP].
        -- destruct t; cbn [map commas]; [|rewrite <- app_assoc]; apply body_notrp.
        -- apply items_der; [discriminate|exact IHvs|exact Hwvs|eapply okd_le; [exact Hd|lia]|exact I|exact I|exact I].
  - (* Tuple *)
    cbn [Model.wfe] in Hw. apply andb_true_iff in Hw. destruct Hw as [Hlen Hwes].
    assert (Hc : cdepth (Tuple es) = match es with [] => 0 | _ => 1 + maxl (map cdepth es) end) by reflexivity.
    destruct es as [|e1 [|e2 t]].
    + exists (Tuple []), rest. split; [apply D_tuple0|exact HL].
    + cbn in Hlen. discriminate.
    + change (body (Tuple (e1 :: e2 :: t))) with (TLP :: commas (map body (e1 :: e2 :: t)) ++ [TRP]).
      rewrite map_cons, map_cons, commas_cons2, <- !map_cons. cbn [app]. rewrite <- !app_assoc. cbn [app].
      exists (Tuple (e1 :: e2 :: t)), rest. split; [|exact HL].
      inversion IHes as [|? ? H1 H2]; subst.
      cbn [forallb] in Hwes. apply andb_true_iff in Hwes. destruct Hwes as [Hw1 Hw2].
      rewrite map_cons, maxl_cons in Hc.
      eapply D_tuple.
      * apply body_notrp.
      * rewrite <- (pr_top e1).
        apply (sub_bp e1 PTop _ d (H1 Hw1) Hw1 I); [rewrite wraps_top; cbn [wd]; eapply okd_le; [exact Hd|lia]|exact I|exact I].
      * apply items_der; [discriminate|exact H2|exact Hw2|eapply okd_le; [exact Hd|lia]|exact I|exact I|exact I].
Qed.

(* ------------------------------------------------------------------ round trip *)
Theorem roundtrip_der e :
  wfe e = true -> okd (1 + cdepth e) -> Der (JBp 0 0 (body e) e []).
Proof.
  intros Hw Hd. rewrite <- (app_nil_r (body e)), <- (pr_top e).
  apply (sub_bp e PTop [] 0 (G_all e Hw) Hw I); [rewrite wraps_top; cbn [wd]; eapply okd_le; [exact Hd|lia]|exact I|exact I].
Qed.

Theorem roundtrip e :
  wfe e = true -> okd (1 + cdepth e) -> ev (fun f => parse_bp f 0 0 (body e) = Ok e []).
Proof. intros Hw Hd. exact (der_sound _ (roundtrip_der e Hw Hd)). Qed.

End Pratt.

(* ------------------------------------------------------------------ the unguarded loop has no stack bound *)
(* F-C15-stack in the model: for ANY stack limit L the unguarded parser overflows on L+1 opening
   parentheses (the family `SELECT ((((...` that aborted the real process before the fix). *)
Lemma overflow_family lbp rbp pbp maxd L :
  forall k f d m, L < d + N.of_nat k -> (2 * k + 1 <= f)%nat ->
  Model.parse_bp lbp rbp pbp maxd false L f d m (repeat TLP k) = Overflow.
Proof.
  induction k as [|k IH]; intros f d m HL Hf.
  - destruct f as [|f]; [lia|]. rewrite parse_bp_S.
    replace (L <? d + 1) with true by (symmetry; apply N.ltb_lt; lia). reflexivity.
  - destruct f as [|[|f]]; try lia. rewrite parse_bp_S.
    destruct (L <? d + 1) eqn:E; [reflexivity|]. apply N.ltb_ge in E. cbn [andb].
    rewrite prefix_S. cbn [repeat].
    destruct k as [|k'].
    + lia.
    + cbn [repeat]. cbn [repeat] in IH. rewrite IH; [reflexivity|lia|lia].
Qed.

Theorem unguarded_unbounded lbp rbp pbp maxd :
  forall L, exists ts f, Model.parse_bp lbp rbp pbp maxd false L f 0 0 ts = Overflow.
Proof.
  intros L. exists (repeat TLP (S (N.to_nat L))), (2 * S (N.to_nat L) + 1)%nat.
  apply overflow_family; lia.
Qed.

(* ------------------------------------------------------------------ printers that agree on the grouping rules *)
Lemma wraps_ext nL nR nL' nR' nops q c :
  (forall o o', o < nops -> o' < nops -> nL o o' = nL' o o' /\ nR o o' = nR' o o') ->
  match q with PL o | PR o => o < nops | _ => True end ->
  wfe nops c = true ->
  wraps nL nR q c = wraps nL' nR' q c.
Proof.
  intros HE Hq Hw. destruct c; try reflexivity.
  cbn in Hw. rewrite !andb_true_iff, N.ltb_lt in Hw. destruct Hw as [[Ho _] _].
  destruct q; cbn; try reflexivity; apply HE; assumption.
Qed.

Lemma map_ext_Forall {A B} (f g : A -> B) (P : A -> Prop) l :
  Forall P l -> (forall x, P x -> f x = g x) -> map f l = map g l.
Proof. induction 1; intros K; cbn; [reflexivity|]. rewrite (K _ H), IHForall by exact K. reflexivity. Qed.

Lemma body_ext nL nR nL' nR' nops :
  (forall o o', o < nops -> o' < nops -> nL o o' = nL' o o' /\ nR o o' = nR' o o') ->
  forall e, wfe nops e = true ->
  body nL nR e = body nL' nR' e /\ cdepth nL nR e = cdepth nL' nR' e.
Proof.
  intros HE.
  induction e as [n|o l r IHl IHr|u x IHx|x neg IHx|x p neg IHx IHp|x lo hi neg IHx IHlo IHhi|x vs neg IHx IHvs|es IHes]
    using expr_ind2; intros Hw; cbn [wfe] in Hw; repeat rewrite andb_true_iff in Hw.
  - split; reflexivity.
  - destruct Hw as [[Ho Hl] Hr]. apply N.ltb_lt in Ho.
    destruct (IHl Hl) as [A1 A2], (IHr Hr) as [B1 B2].
    cbn [body cdepth]. rewrite A1, A2, B1, B2.
    rewrite (wraps_ext nL nR nL' nR' nops (PL o) l HE Ho Hl), (wraps_ext nL nR nL' nR' nops (PR o) r HE Ho Hr).
    split; reflexivity.
  - destruct Hw as [_ Hx]. destruct (IHx Hx) as [A1 A2].
    cbn [body cdepth]. rewrite A1, A2, (wraps_ext nL nR nL' nR' nops PPre x HE I Hx). split; reflexivity.
  - destruct (IHx Hw) as [A1 A2].
    cbn [body cdepth]. rewrite A1, A2, (wraps_ext nL nR nL' nR' nops PSubj x HE I Hw). split; reflexivity.
  - destruct Hw as [Hx Hp]. destruct (IHx Hx) as [A1 A2], (IHp Hp) as [B1 B2].
    cbn [body cdepth]. rewrite A1, A2, B1, B2,
      (wraps_ext nL nR nL' nR' nops PSubj x HE I Hx), (wraps_ext nL nR nL' nR' nops PPre p HE I Hp). split; reflexivity.
  - destruct Hw as [[Hx Hlo] Hhi]. destruct (IHx Hx) as [A1 A2], (IHlo Hlo) as [B1 B2], (IHhi Hhi) as [C1 C2].
    cbn [body cdepth]. rewrite A1, A2, B1, B2, C1, C2,
      (wraps_ext nL nR nL' nR' nops PSubj x HE I Hx), (wraps_ext nL nR nL' nR' nops PPre lo HE I Hlo),
      (wraps_ext nL nR nL' nR' nops PPre hi HE I Hhi). split; reflexivity.
  - destruct Hw as [Hx Hvs]. destruct (IHx Hx) as [A1 A2].
    assert (HF : Forall (fun v => body nL nR v = body nL' nR' v /\ cdepth nL nR v = cdepth nL' nR' v) vs).
    { rewrite forallb_forall in Hvs. rewrite Forall_forall in *. intros v Hv. apply IHvs; auto. }
    cbn [body cdepth]. rewrite A1, A2, (wraps_ext nL nR nL' nR' nops PSubj x HE I Hx).
    rewrite (map_ext_Forall (body nL nR) (body nL' nR') _ vs HF) by (intros ? [? ?]; assumption).
    rewrite (map_ext_Forall (cdepth nL nR) (cdepth nL' nR') _ vs HF) by (intros ? [? ?]; assumption).
    split; reflexivity.
  - destruct Hw as [_ Hes].
    assert (HF : Forall (fun v => body nL nR v = body nL' nR' v /\ cdepth nL nR v = cdepth nL' nR' v) es).
    { rewrite forallb_forall in Hes. rewrite Forall_forall in *. intros v Hv. apply IHes; auto. }
    cbn [body cdepth].
    rewrite (map_ext_Forall (body nL nR) (body nL' nR') _ es HF) by (intros ? [? ?]; assumption).
    rewrite (map_ext_Forall (cdepth nL nR) (cdepth nL' nR') _ es HF) by (intros ? [? ?]; assumption).
    split; reflexivity.
Qed.

(* ------------------------------------------------------------------ boolean checkers are sound *)
Lemma N_seq_from_in c : forall s o, s <= o -> o < s + N.of_nat c -> In o (N_seq_from s c).
Proof.
  induction c as [|c IH]; intros s o H1 H2; [lia|]. cbn [N_seq_from].
  destruct (N.eq_dec s o) as [->|Hne]; [left; reflexivity|right].
  apply IH; lia.
Qed.
Lemma N_seq_in n o : o < n -> In o (N_seq n).
Proof. intros H. unfold N_seq. apply N_seq_from_in; lia. Qed.

Lemma wf_tableb_sound nops lbp rbp pbp :
  wf_tableb nops lbp rbp pbp = true -> forall o, o < nops -> lbp o < rbp o /\ rbp o <= pbp.
Proof.
  unfold wf_tableb. rewrite forallb_forall. intros H o Ho.
  specialize (H o (N_seq_in _ _ Ho)). rewrite andb_true_iff, N.ltb_lt, N.leb_le in H. exact H.
Qed.

Lemma doc_agreesb_sound nops lbp rbp lev la :
  doc_agreesb nops lbp rbp lev la = true ->
  forall o o', o < nops -> o' < nops ->
    needL_doc lev o o' = needL_bp lbp rbp o o' /\ needR_doc lev la o o' = needR_bp lbp rbp o o'.
Proof.
  unfold doc_agreesb. rewrite forallb_forall. intros H o o' Ho Ho'.
  specialize (H o (N_seq_in _ _ Ho)). rewrite forallb_forall in H.
  specialize (H o' (N_seq_in _ _ Ho')). rewrite andb_true_iff in H. destruct H as [A B].
  apply eqb_prop in A. apply eqb_prop in B. split; congruence.
Qed.

(* ------------------------------------------------------------------ the theorem in its final form *)
(* For every table that is well formed (every operator left associative, prefix power above every
   right power) and every documented precedence assignment that induces the same grouping rules:
   printing a tree with the parentheses the DOCUMENTED rules require and parsing it gives the tree
   back, provided the nesting fits the depth limit (if the parser has one) and the stack. *)
Theorem pratt_roundtrip nops lbp rbp pbp maxd guarded slimit lev la :
  wf_tableb nops lbp rbp pbp = true ->
  OP_AND <? nops = true ->
  doc_agreesb nops lbp rbp lev la = true ->
  forall e, wfe nops e = true ->
    let depth := 1 + cdepth (needL_doc lev) (needR_doc lev la) e in
    depth <= slimit -> (guarded = true -> depth <= maxd) ->
    exists f0, forall f, (f0 <= f)%nat ->
      Model.parse_bp lbp rbp pbp maxd guarded slimit f 0 0 (body (needL_doc lev) (needR_doc lev la) e) = Ok e [].
Proof.
  intros Hwf Hand Hdoc e Hw depth Hs Hg.
  pose proof (wf_tableb_sound _ _ _ _ Hwf) as WF.
  assert (WFand : lbp OP_AND < pbp).
  { apply N.ltb_lt in Hand. destruct (WF _ Hand). lia. }
  destruct (body_ext _ _ _ _ nops (doc_agreesb_sound _ _ _ _ _ Hdoc) e Hw) as [Eb Ec].
  subst depth. rewrite Eb. rewrite Ec in Hs, Hg.
  apply (roundtrip lbp rbp pbp maxd guarded slimit nops WF WFand e Hw).
  split; assumption.
Qed.
