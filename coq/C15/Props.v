(* C15/Props.v -- pinned property theorems; nothing but statements closed by `exact`. *)
From NV.Common Require Import Base.
From NV.C15 Require Import Types Model Proofs Run Inst Text.
From NV.C04 Require Types Model.
From NV.gen Require Import Gen_C15.
Open Scope N_scope.

(* Precedence/associativity, for ANY table: for every well-formed binding-power table and every
   documented precedence assignment inducing the same grouping, printing a tree with exactly the
   parentheses the documented rules require and parsing the result gives the tree back (all
   sufficiently large fuel), whenever the nesting fits the depth limit of a guarded parser and
   the stack.  Covers infix (left associative), prefix (tighter than every infix), postfix
   (IS [NOT] NULL, [NOT] IN, [NOT] LIKE, [NOT] BETWEEN: tighter still), parentheses, tuples. *)
Theorem C15_pratt_roundtrip_any_table :
  forall nops lbp rbp pbp maxd guarded slimit lev la,
  wf_tableb nops lbp rbp pbp = true ->
  OP_AND <? nops = true ->
  doc_agreesb nops lbp rbp lev la = true ->
  forall e, wfe nops e = true ->
    let depth := 1 + cdepth (needL_doc lev) (needR_doc lev la) e in
    depth <= slimit -> (guarded = true -> depth <= maxd) ->
    exists f0, forall f, (f0 <= f)%nat ->
      parse_bp lbp rbp pbp maxd guarded slimit f 0 0 (body (needL_doc lev) (needR_doc lev la) e) = Ok e [].
Proof. exact pratt_roundtrip. Qed.

(* ... instantiated with the tables, limits and documented precedence regenerated from the source:
   which = 0 is expr.rs ExprParser, anything else parser.rs Parser. *)
Theorem C15_roundtrip :
  forall which e slimit, wfe gen_nops e = true ->
    1 + doc_depth e <= slimit -> (guard_of which = true -> 1 + doc_depth e <= maxd_of which) ->
    exists f0, forall f, (f0 <= f)%nat ->
      parse_bp (lbp_of which) (rbp_of which) (pbp_of which) (maxd_of which) (guard_of which) slimit
               f 0 0 (doc_print e) = Ok e [].
Proof.
  intros which e slimit. unfold lbp_of, rbp_of, pbp_of, maxd_of, guard_of, doc_print, doc_depth, doc_needL, doc_needR.
  destruct (which =? 0).
  - exact (pratt_roundtrip _ _ _ _ _ _ _ _ _ gen_wf_expr gen_and_in_range gen_doc_agrees_expr e).
  - exact (pratt_roundtrip _ _ _ _ _ _ _ _ _ gen_wf_parser gen_and_in_range gen_doc_agrees_parser e).
Qed.
Example C15_roundtrip_nonvacuous :
  let e := Bin 13 (Atom 100) (Bin 16 (Un 1 (Atom 1)) (IsNull (Like (Atom 101) (Atom 4) true) false)) in
  wfe gen_nops e = true /\ 1 + doc_depth e <= gen_max_depth_expr /\ guard_of 0 = true.
Proof. vm_compute. repeat split; try reflexivity; discriminate. Qed.

(* the two copies of the parser are the same function of the token list *)
Theorem C15_two_parsers_agree :
  forall slimit f d m ts,
    parse_bp (lbp_of 0) (rbp_of 0) (pbp_of 0) (maxd_of 0) (guard_of 0) slimit f d m ts =
    parse_bp (lbp_of 1) (rbp_of 1) (pbp_of 1) (maxd_of 1) (guard_of 1) slimit f d m ts.
Proof.
  intros. unfold lbp_of, rbp_of, pbp_of, maxd_of, guard_of. cbn [N.eqb Pos.eqb].
  destruct gen_tables_agree as (-> & -> & -> & ->). reflexivity.
Qed.

(* Stack bound: neither parser ever has more than MAX_DEPTH + 1 nested activations, on any token
   list of any length (a stack that holds MAX_DEPTH + 1 activations is never exhausted). *)
Theorem C15_stack_bound :
  forall which slimit, maxd_of which + 1 <= slimit ->
  forall f m ts,
    parse_bp (lbp_of which) (rbp_of which) (pbp_of which) (maxd_of which) (guard_of which) slimit f 0 m ts <> Overflow.
Proof.
  intros which slimit HL f m ts. apply stack_bound; [|exact HL].
  unfold guard_of. destruct gen_guards as (A & B & _). destruct (which =? 0); assumption.
Qed.
Example C15_stack_bound_nonvacuous : maxd_of 0 + 1 <= 65 /\ maxd_of 1 + 1 <= 65.
Proof. vm_compute. split; discriminate. Qed.

(* ... and without the guard there is no bound at all (the state of parser.rs before the fix,
   F-C15-stack): for every stack limit there is an input that exhausts it. *)
Theorem C15_stack_bound_unguarded_refuted :
  forall lbp rbp pbp maxd slimit, exists ts f,
    parse_bp lbp rbp pbp maxd false slimit f 0 0 ts = Overflow.
Proof. exact unguarded_unbounded. Qed.

(* Determinism: the outcome is a function of the token list (independent of the fuel given to the
   model, once it suffices) *)
Theorem C15_parse_deterministic :
  forall which slimit f1 f2 d m ts r1 r2,
    parse_bp (lbp_of which) (rbp_of which) (pbp_of which) (maxd_of which) (guard_of which) slimit f1 d m ts = r1 ->
    parse_bp (lbp_of which) (rbp_of which) (pbp_of which) (maxd_of which) (guard_of which) slimit f2 d m ts = r2 ->
    r1 <> Fuel -> r2 <> Fuel -> r1 = r2.
Proof. intros which slimit. exact (parse_deterministic _ _ _ _ _ _). Qed.

(* Positions: the unconsumed rest of a successful parse, and the token an error points to, lie
   within the input *)
Theorem C15_position_within_input :
  forall which slimit f d m ts e rest,
    parse_bp (lbp_of which) (rbp_of which) (pbp_of which) (maxd_of which) (guard_of which) slimit f d m ts = Ok e rest \/
    (exists k, parse_bp (lbp_of which) (rbp_of which) (pbp_of which) (maxd_of which) (guard_of which) slimit f d m ts = Err k rest) ->
    (length rest <= length ts)%nat.
Proof. intros which slimit. exact (position_within_input _ _ _ _ _ _). Qed.

(* Text = direct call, relational WHERE fragment: running the TEXT of a condition tree (printed with
   the parentheses the documented precedence requires) through the parser, expr_to_condition and
   exec_select gives what the direct engine call select_columnar gives on the tree's condition.
   (C04_every_strategy_exact then says: exactly the rows satisfying it.) *)
Theorem C15_where_text_equals_direct_call :
  forall which val_of norm st slimit e c,
    wfe gen_nops e = true -> e2c val_of e = Some c ->
    1 + doc_depth e <= slimit -> (guard_of which = true -> 1 + doc_depth e <= maxd_of which) ->
    exists f0, forall f, (f0 <= f)%nat ->
      text_select val_of (lbp_of which) (rbp_of which) (pbp_of which) (maxd_of which) (guard_of which) slimit norm
                  st f (doc_print e) = Some (NV.C04.Model.select_columnar norm st c).
Proof.
  intros which val_of norm st slimit e c Hw Hc Hs Hg.
  destruct (C15_roundtrip which e slimit Hw Hs Hg) as [f0 H]. exists f0. intros f Hf.
  unfold text_select. rewrite (H f Hf), Hc. reflexivity.
Qed.
Example C15_where_text_nonvacuous :
  let e := Bin 0 (Bin 2 (Atom 100) (Atom 1)) (Bin OP_AND (Bin 6 (Atom 101) (Atom 2)) (Bin 3 (Atom 100) (Atom 3))) in
  wfe gen_nops e = true /\
  e2c (fun n => NV.C04.Types.VInt (Z.of_N n)) e =
    Some (NV.C04.Types.COr (NV.C04.Types.CCmp 0 0 (NV.C04.Types.VInt 1))
            (NV.C04.Types.CAnd (NV.C04.Types.CCmp 4 1 (NV.C04.Types.VInt 2)) (NV.C04.Types.CCmp 1 0 (NV.C04.Types.VInt 3)))).
Proof. split; vm_compute; reflexivity. Qed.

(* Known finding legacy-execute-parentheses: the condition parser of the LEGACY entry point
   QueryRouter::execute has no parentheses: `( a )` is one garbled comparison, where both real Pratt
   parsers give the leaf a.  (Its AND/OR grouping was repaired in 03a8e25d: on parenthesis-free text
   it now groups like the documented precedence, e.g. a OR b AND c.) *)
Theorem C15_legacy_execute_refuted :
  exists ts e, legacy_cond 8 ts = Some e /\ model_parse 1 (map ltok_tok ts) <> Ok e [].
Proof.
  exists [LLP; LLeaf 1; LRP], (Atom GARBLED). split; [vm_compute; reflexivity|vm_compute; discriminate].
Qed.
Example C15_legacy_execute_and_or_agree :
  legacy_cond 8 [LLeaf 1; LOr; LLeaf 2; LAnd; LLeaf 3] = Some (Bin 0 (Atom 1) (Bin OP_AND (Atom 2) (Atom 3))) /\
  model_parse 1 (map ltok_tok [LLeaf 1; LOr; LLeaf 2; LAnd; LLeaf 3]) = Ok (Bin 0 (Atom 1) (Bin OP_AND (Atom 2) (Atom 3))) [].
Proof. split; vm_compute; reflexivity. Qed.

Print Assumptions C15_pratt_roundtrip_any_table.
Print Assumptions C15_roundtrip.
Print Assumptions C15_two_parsers_agree.
Print Assumptions C15_stack_bound.
Print Assumptions C15_stack_bound_unguarded_refuted.
Print Assumptions C15_legacy_execute_refuted.
Print Assumptions C15_parse_deterministic.
Print Assumptions C15_position_within_input.
Print Assumptions C15_where_text_equals_direct_call.
