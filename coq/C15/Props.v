(* C15/Props.v -- pinned property theorems; nothing but statements closed by `exact`. *)
From NV.Common Require Import Base.
From NV.C15 Require Import Types Model Proofs Run Inst.
From NV.gen Require Import Gen_C15.
Open Scope N_scope.

(* Precedence/associativity, for ANY table: for every well-formed binding-power table and every
   documented precedence assignment inducing the same grouping, printing a tree with exactly the
   parentheses the documented rules require and parsing the result gives the tree back (all
   sufficiently large fuel), whenever the nesting fits the depth limit of a guarded parser and
   the stack.  Covers infix (left associative), prefix (tighter than every infix), postfix
   (IS [NOT] NULL, [NOT] IN, [NOT] LIKE, [NOT] BETWEEN: tighter still), parentheses, tuples. *)
Theorem C15_pratt_roundtrip_any_table :
  forall nops lbp rbp pbp maxd guarded slimit lev la,
  wf_tableb nops lbp rbp pbp = true ->
  OP_AND <? nops = true ->
  doc_agreesb nops lbp rbp lev la = true ->
  forall e, wfe nops e = true ->
    let depth := 1 + cdepth (needL_doc lev) (needR_doc lev la) e in
    depth <= slimit -> (guarded = true -> depth <= maxd) ->
    exists f0, forall f, (f0 <= f)%nat ->
      parse_bp lbp rbp pbp maxd guarded slimit f 0 0 (body (needL_doc lev) (needR_doc lev la) e) = Ok e [].
Proof. exact pratt_roundtrip. Qed.

(* ... instantiated with the tables, limits and documented precedence regenerated from the source:
   which = 0 is expr.rs ExprParser, anything else parser.rs Parser. *)
Theorem C15_roundtrip :
  forall which e slimit, wfe gen_nops e = true ->
    1 + doc_depth e <= slimit -> (guard_of which = true -> 1 + doc_depth e <= maxd_of which) ->
    exists f0, forall f, (f0 <= f)%nat ->
      parse_bp (lbp_of which) (rbp_of which) (pbp_of which) (maxd_of which) (guard_of which) slimit
               f 0 0 (doc_print e) = Ok e [].
Proof.
  intros which e slimit. unfold lbp_of, rbp_of, pbp_of, maxd_of, guard_of, doc_print, doc_depth, doc_needL, doc_needR.
  destruct (which =? 0).
  - exact (pratt_roundtrip _ _ _ _ _ _ _ _ _ gen_wf_expr gen_and_in_range gen_doc_agrees_expr e).
  - exact (pratt_roundtrip _ _ _ _ _ _ _ _ _ gen_wf_parser gen_and_in_range gen_doc_agrees_parser e).
Qed.
Example C15_roundtrip_nonvacuous :
  let e := Bin 13 (Atom 100) (Bin 16 (Un 1 (Atom 1)) (IsNull (Like (Atom 101) (Atom 4) true) false)) in
  wfe gen_nops e = true /\ 1 + doc_depth e <= gen_max_depth_expr /\ guard_of 0 = true.
Proof. vm_compute. repeat split; try reflexivity; discriminate. Qed.

(* the two copies of the parser are the same function of the token list *)
Theorem C15_two_parsers_agree :
  forall slimit f d m ts,
    parse_bp (lbp_of 0) (rbp_of 0) (pbp_of 0) (maxd_of 0) (guard_of 0) slimit f d m ts =
    parse_bp (lbp_of 1) (rbp_of 1) (pbp_of 1) (maxd_of 1) (guard_of 1) slimit f d m ts.
Proof.
  intros. unfold lbp_of, rbp_of, pbp_of, maxd_of, guard_of. cbn [N.eqb Pos.eqb].
  destruct gen_tables_agree as (-> & -> & -> & ->). reflexivity.
Qed.

(* Stack bound: neither parser ever has more than MAX_DEPTH + 1 nested activations, on any token
   list of any length (a stack that holds MAX_DEPTH + 1 activations is never exhausted). *)
Theorem C15_stack_bound :
  forall which slimit, maxd_of which + 1 <= slimit ->
  forall f m ts,
    parse_bp (lbp_of which) (rbp_of which) (pbp_of which) (maxd_of which) (guard_of which) slimit f 0 m ts <> Overflow.
Proof.
  intros which slimit HL f m ts. apply stack_bound; [|exact HL].
  unfold guard_of. destruct gen_guards as (A & B & _). destruct (which =? 0); assumption.
Qed.
Example C15_stack_bound_nonvacuous : maxd_of 0 + 1 <= 65 /\ maxd_of 1 + 1 <= 65.
Proof. vm_compute. split; discriminate. Qed.

(* ... and without the guard there is no bound at all (the state of parser.rs before the fix,
   F-C15-stack): for every stack limit there is an input that exhausts it. *)
Theorem C15_stack_bound_unguarded_refuted :
  forall lbp rbp pbp maxd slimit, exists ts f,
    parse_bp lbp rbp pbp maxd false slimit f 0 0 ts = Overflow.
Proof. exact unguarded_unbounded. Qed.

Print Assumptions C15_pratt_roundtrip_any_table.
Print Assumptions C15_roundtrip.
Print Assumptions C15_two_parsers_agree.
Print Assumptions C15_stack_bound.
Print Assumptions C15_stack_bound_unguarded_refuted.
