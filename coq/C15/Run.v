(* C15/Run.v -- executable entry points for the correspondence check and the property oracle.
   Depends on Model + the regenerated tables only (NOT on the proofs). *)
From NV.Common Require Import Base.
From NV.C15 Require Import Types Model.
From NV.gen Require Import Gen_C15.
Open Scope N_scope.

Definition SLIMIT : N := 1000000.
Definition fuel_for (ts : list tok) : nat := (4 * length ts + 16)%nat.

(* which = 0: expr.rs ExprParser;  which = 1: parser.rs Parser (reached through a statement) *)
Definition lbp_of (which : N) : N -> N := if which =? 0 then tbl_l gen_infix_expr else tbl_l gen_infix_parser.
Definition rbp_of (which : N) : N -> N := if which =? 0 then tbl_r gen_infix_expr else tbl_r gen_infix_parser.
Definition pbp_of (which : N) : N := if which =? 0 then gen_prefix_expr else gen_prefix_parser.
Definition maxd_of (which : N) : N := if which =? 0 then gen_max_depth_expr else gen_max_depth_parser.
Definition guard_of (which : N) : bool := if which =? 0 then gen_guard_expr else gen_guard_parser.

Definition model_parse (which : N) (ts : list tok) : res :=
  parse_bp (lbp_of which) (rbp_of which) (pbp_of which) (maxd_of which) (guard_of which) SLIMIT
           (fuel_for ts) 0 0 ts.

(* the documented grouping rules: BinaryOp::precedence / is_left_assoc (ast.rs) *)
Definition doc_needL := needL_doc (tbl_lev gen_doc_ast).
Definition doc_needR := needR_doc (tbl_lev gen_doc_ast) gen_doc_ast_left.
Definition doc_print (e : expr) : list tok := body doc_needL doc_needR e.
Definition doc_depth (e : expr) : N := cdepth doc_needL doc_needR e.

(* ---- tree case: (which, tree, tokens the harness printed, implementation result) ----
   oracle (the property): parsing the minimally parenthesised text of a tree gives back the tree;
   the only other admissible outcome is the documented nesting-limit error when the tree nests
   deeper than the limit of a guarded parser. *)
Definition tree_case := (N * expr * list tok * res)%type.
Definition too_deep_ok (which : N) (e : expr) (r : res) : bool :=
  guard_of which && (maxd_of which <? 1 + doc_depth e) &&
  match r with Err 0 _ => true | _ => false end.
Definition check_tree (c : tree_case) : N :=
  let '(which, e, ts, impl) := c in
  if negb (wfe gen_nops e && list_eqb tok_eqb (doc_print e) ts) then 9
  else if negb (res_eqb impl (Ok e []) || too_deep_ok which e impl) then V_VIOLATION
  else match model_parse which ts with
       | Fuel => 9
       | m => if res_eqb m impl then V_OK else V_MISMATCH
       end.

(* ---- stream case: arbitrary token strings (mutated prints): model = implementation, including
   the error kind and the token the error points to ---- *)
Definition stream_case := (N * list tok * res)%type.
Definition check_stream (c : stream_case) : N :=
  let '(which, ts, impl) := c in
  match model_parse which ts with
  | Fuel => 9
  | Unsup => V_OK
  | m => if res_eqb m impl then V_OK else V_MISMATCH
  end.
