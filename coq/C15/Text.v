(* C15/Text.v -- "text = direct engine call" for the relational WHERE fragment, composed from the
   two properties: the parser round trip (C15) turns the text of a condition tree back into the
   tree, QueryRouter::expr_to_condition (modelled here) turns the tree into the engine's Condition,
   and exec_select hands it to select_columnar (C04's model, proved = filter by evaluate).
   Definitions + the composition lemma. *)
From NV.Common Require Import Base.
From NV.C15 Require Import Types Model Proofs.
From NV.C04 Require Import Types Model.
Open Scope N_scope.

Section Text.
(* identifiers are atoms >= 100 (column = atom - 100); every atom has a literal value
   (expr_to_value: literals map to themselves, an identifier to its name as a string) *)
Variable val_of : N -> value.

(* query_router/src/lib.rs expr_to_condition: AND / OR recurse; = != < <= > >= need a column name
   on the left and a value on the right; anything else is an error *)
Fixpoint e2c (e : expr) : option cond :=
  match e with
  | Bin o l r =>
      if o =? OP_AND then match e2c l, e2c r with Some a, Some b => Some (CAnd a b) | _, _ => None end
      else if o =? 0 then match e2c l, e2c r with Some a, Some b => Some (COr a b) | _, _ => None end
      else if (2 <=? o) && (o <=? 7) then
        match l, r with
        | Atom c, Atom v => if 100 <=? c then Some (CCmp (o - 2) (c - 100) (val_of v)) else None
        | _, _ => None
        end
      else None
  | _ => None
  end.

Variables (lbp rbp : N -> N) (pbp maxd : N) (guarded : bool) (slimit : N) (norm : bool).

(* exec_select on the parsed WHERE clause *)
Definition text_select (st : state) (fuel : nat) (ts : list tok) : option (list row) :=
  match parse_bp lbp rbp pbp maxd guarded slimit fuel 0 0 ts with
  | Ok e [] => match e2c e with Some c => Some (select_columnar norm st c) | None => None end
  | _ => None
  end.
End Text.
