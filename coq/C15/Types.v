(* C15/Types.v -- expression trees and tokens of the expression fragment of neumann_parser
   (ast.rs ExprKind / token.rs TokenKind), with names reduced to small codes.

   Binary operator codes (the translator's dictionary, gen_C15.py OPS):
     Or=0 And=1 Eq=2 Ne=3 Lt=4 Le=5 Gt=6 Ge=7 BitOr=8 BitXor=9 BitAnd=10 Shl=11 Shr=12
     Add=13 Sub=14 Concat=15 Mul=16 Div=17 Mod=18
   Unary operator codes: Not=0 Neg=1 BitNot=2.
   Atoms: code 0 is the literal NULL (token TNull); every other code is a literal or identifier
   token that parse_prefix turns into a leaf. *)
From NV.Common Require Import Base.
Open Scope N_scope.

Inductive expr :=
| Atom (n : N)
| Bin (o : N) (l r : expr)
| Un (u : N) (x : expr)
| IsNull (x : expr) (neg : bool)
| Like (x p : expr) (neg : bool)
| Between (x lo hi : expr) (neg : bool)
| InL (x : expr) (vs : list expr) (neg : bool)
| Tuple (es : list expr).

(* TOp o is the token current_binary_op maps to operator o (so TOp 14 is `-`, TOp 16 is `*`,
   TOp 1 is the keyword AND). *)
Inductive tok :=
| TAtom (n : N) | TOp (o : N) | TNot | TTilde | TLP | TRP | TComma
| TIs | TNull | TIn | TLike | TBetween.

Definition OP_AND : N := 1.
Definition OP_SUB : N := 14.
Definition OP_MUL : N := 16.

(* result of a parser activation.  Err kinds: 0 TooDeep, 1 UnexpectedToken, 2 UnexpectedEof.
   `rest` of an error is the token list starting at the token the error points to.
   Fuel = the model ran out of fuel (never the case in the runs; excluded by the theorems),
   Unsup = the input left the modelled fragment (e.g. `*` in prefix position = wildcard),
   Overflow = more nested activations than the stack limit (the real process aborts). *)
Inductive res :=
| Ok (e : expr) (rest : list tok)
| Err (k : N) (rest : list tok)
| Fuel | Unsup | Overflow.
Inductive lres :=
| LOk (es : list expr) (rest : list tok)
| LErr (k : N) (rest : list tok)
| LFuel | LUnsup | LOverflow.

Definition tok_eqb (a b : tok) : bool :=
  match a, b with
  | TAtom n, TAtom m => N.eqb n m
  | TOp n, TOp m => N.eqb n m
  | TNot, TNot | TTilde, TTilde | TLP, TLP | TRP, TRP | TComma, TComma
  | TIs, TIs | TNull, TNull | TIn, TIn | TLike, TLike | TBetween, TBetween => true
  | _, _ => false
  end.

Fixpoint expr_eqb (a b : expr) {struct a} : bool :=
  match a, b with
  | Atom n, Atom m => N.eqb n m
  | Bin o l r, Bin o' l' r' => N.eqb o o' && expr_eqb l l' && expr_eqb r r'
  | Un u x, Un u' x' => N.eqb u u' && expr_eqb x x'
  | IsNull x n, IsNull x' n' => expr_eqb x x' && Bool.eqb n n'
  | Like x p n, Like x' p' n' => expr_eqb x x' && expr_eqb p p' && Bool.eqb n n'
  | Between x l h n, Between x' l' h' n' => expr_eqb x x' && expr_eqb l l' && expr_eqb h h' && Bool.eqb n n'
  | InL x vs n, InL x' vs' n' =>
      expr_eqb x x' && Bool.eqb n n' &&
      (fix go (l1 l2 : list expr) : bool :=
         match l1, l2 with
         | [], [] => true
         | p :: ps, q :: qs => expr_eqb p q && go ps qs
         | _, _ => false
         end) vs vs'
  | Tuple es, Tuple es' =>
      (fix go (l1 l2 : list expr) : bool :=
         match l1, l2 with
         | [], [] => true
         | p :: ps, q :: qs => expr_eqb p q && go ps qs
         | _, _ => false
         end) es es'
  | _, _ => false
  end.

Definition res_eqb (a b : res) : bool :=
  match a, b with
  | Ok e r, Ok e' r' => expr_eqb e e' && list_eqb tok_eqb r r'
  | Err k r, Err k' r' => N.eqb k k' && list_eqb tok_eqb r r'
  | Fuel, Fuel | Unsup, Unsup | Overflow, Overflow => true
  | _, _ => false
  end.
