(* C16/Inst.v -- PER-RUN OBLIGATIONS over gen/Gen_C16.v (regenerated from the Rust source). *)
From NV.Common Require Import Base.
From NV.C16 Require Import Model.
From NV.gen Require Import Gen_C16.
Open Scope N_scope.

(* BlockHeader::hash and BlockHeader::signing_bytes feed exactly the fields, in the order, that the
   pre-image lemmas are proved for *)
Lemma gen_layouts_std : gen_hash_layout = std_layout /\ gen_sign_layout = std_layout.
Proof. split; reflexivity. Qed.

(* the validation steps the theorems rely on are present in the source *)
Lemma gen_flags_ok :
  f_genesis_txroot gen_flags = true /\
  f_sig_min_height gen_flags = 1 /\ f_commit_locked gen_flags = true.
Proof. repeat split; reflexivity. Qed.
