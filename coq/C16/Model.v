(* C16/Model.v -- executable model of the tensor chain
   (tensor_chain/src/{block,chain,lib,transaction,state_machine}.rs).  Definitions only.

   External code is a Section variable: SHA-256 (`Hf`), bitcode of a transaction (`ser_tx`),
   the validator registry + Ed25519 verification (`registered`, `sig_valid`), Ed25519 signing
   by the local identity (`sign`), and the state-root function (`SR`, a function of the whole
   store).  The embedding field of a header is carried as its bitcode serialisation.

   Things the model mirrors on purpose (read from the code, not from the documentation):
   * the header pre-image is the UNFRAMED concatenation
       le64 height | prev | tx_root | state_root | bitcode(embedding) | le16 codes.. | le64 timestamp | proposer
     and `signing_bytes` is the same byte string; `header.signature` and `Block.signatures`
     are outside it;
   * blocks and the chain meta record live in the SAME store as the data, so a
     `restore_from_bytes` (failed commit, rollback) rewinds stored blocks as well, while the
     in-memory height/tip of `Chain` are not rewound;
   * a workspace only records operations; nothing is written before commit; `rollback`
     restores the store image taken at `begin`;
   * the Merkle root duplicates the last node of an odd level, and a single leaf is its own root.
   The checks that were added by `fix:` commits are switched by `flags` (regenerated from the
   source on every run, gen/Gen_C16.v), so the model follows the code when one is removed. *)
From NV.Common Require Import Base.
Open Scope N_scope.

Definition bytes := list N.
Definition bytes_eqb : bytes -> bytes -> bool := list_eqb N.eqb.
Definition is_nil {A} (l : list A) : bool := match l with [] => true | _ => false end.

(* TOther: every other transaction kind (Embed, NodeCreate/Delete, EdgeCreate, TableInsert/Update/Delete,
   CompareAndSwap): they write under their own key prefixes and never touch the modelled data keys *)
Inductive tx := TPut (k : N) (v : bytes) | TDel (k : N) | TOther (kind a b : N).
Definition tx_eqb (a b : tx) : bool :=
  match a, b with
  | TPut k v, TPut k' v' => N.eqb k k' && bytes_eqb v v'
  | TDel k, TDel k' => N.eqb k k'
  | TOther x a b, TOther x' a' b' => N.eqb x x' && N.eqb a a' && N.eqb b b'
  | _, _ => false
  end.

Record vsig := VS { vs_who : bytes; vs_sig : bytes; vs_hash : bytes }.
Definition vsig_eqb (a b : vsig) : bool :=
  bytes_eqb (vs_who a) (vs_who b) && bytes_eqb (vs_sig a) (vs_sig b) && bytes_eqb (vs_hash a) (vs_hash b).

Record header := Hd {
  h_height : N; h_prev : bytes; h_txroot : bytes; h_sroot : bytes; h_emb : bytes;
  h_codes : list N; h_ts : N; h_proposer : bytes; h_sig : bytes }.
Record block := Bk { b_hdr : header; b_txs : list tx; b_sigs : list vsig }.

Definition header_eqb (a b : header) : bool :=
  N.eqb (h_height a) (h_height b) && bytes_eqb (h_prev a) (h_prev b) && bytes_eqb (h_txroot a) (h_txroot b)
  && bytes_eqb (h_sroot a) (h_sroot b) && bytes_eqb (h_emb a) (h_emb b) && list_eqb N.eqb (h_codes a) (h_codes b)
  && N.eqb (h_ts a) (h_ts b) && bytes_eqb (h_proposer a) (h_proposer b) && bytes_eqb (h_sig a) (h_sig b).
Definition block_eqb (a b : block) : bool :=
  header_eqb (b_hdr a) (b_hdr b) && list_eqb tx_eqb (b_txs a) (b_txs b) && list_eqb vsig_eqb (b_sigs a) (b_sigs b).

(* field setters (single-field mutations) *)
Definition set_height v h := Hd v (h_prev h) (h_txroot h) (h_sroot h) (h_emb h) (h_codes h) (h_ts h) (h_proposer h) (h_sig h).
Definition set_prev v h := Hd (h_height h) v (h_txroot h) (h_sroot h) (h_emb h) (h_codes h) (h_ts h) (h_proposer h) (h_sig h).
Definition set_txroot v h := Hd (h_height h) (h_prev h) v (h_sroot h) (h_emb h) (h_codes h) (h_ts h) (h_proposer h) (h_sig h).
Definition set_sroot v h := Hd (h_height h) (h_prev h) (h_txroot h) v (h_emb h) (h_codes h) (h_ts h) (h_proposer h) (h_sig h).
Definition set_emb v h := Hd (h_height h) (h_prev h) (h_txroot h) (h_sroot h) v (h_codes h) (h_ts h) (h_proposer h) (h_sig h).
Definition set_codes v h := Hd (h_height h) (h_prev h) (h_txroot h) (h_sroot h) (h_emb h) v (h_ts h) (h_proposer h) (h_sig h).
Definition set_ts v h := Hd (h_height h) (h_prev h) (h_txroot h) (h_sroot h) (h_emb h) (h_codes h) v (h_proposer h) (h_sig h).
Definition set_proposer v h := Hd (h_height h) (h_prev h) (h_txroot h) (h_sroot h) (h_emb h) (h_codes h) (h_ts h) v (h_sig h).
Definition set_sig v h := Hd (h_height h) (h_prev h) (h_txroot h) (h_sroot h) (h_emb h) (h_codes h) (h_ts h) (h_proposer h) v.
Definition with_hdr (f : header -> header) (b : block) : block := Bk (f (b_hdr b)) (b_txs b) (b_sigs b).
Definition with_txs (l : list tx) (b : block) : block := Bk (b_hdr b) l (b_sigs b).
Definition with_sigs (l : list vsig) (b : block) : block := Bk (b_hdr b) (b_txs b) l.

(* little-endian fixed-width integers (u64::to_le_bytes, u16::to_le_bytes); value taken mod 256^w *)
Fixpoint le_bytes (w : nat) (x : N) : bytes :=
  match w with
  | O => []
  | S w' => (x mod 256) :: le_bytes w' (x / 256)
  end.
Definition le64 := le_bytes 8.
Definition le16 := le_bytes 2.
Definition zeros32 : bytes := repeat 0 32.

(* header fields in the order BlockHeader::hash / signing_bytes feed them (gen/Gen_C16.v regenerates
   the two lists from the source; Inst.v proves they equal std_layout) *)
Inductive hfield := FHeight | FPrev | FTxRoot | FSRoot | FEmb | FCodes | FTs | FProposer | FSig.
Definition field_bytes (f : hfield) (h : header) : bytes :=
  match f with
  | FHeight => le64 (h_height h) | FPrev => h_prev h | FTxRoot => h_txroot h | FSRoot => h_sroot h
  | FEmb => h_emb h | FCodes => flat_map le16 (h_codes h) | FTs => le64 (h_ts h)
  | FProposer => h_proposer h | FSig => h_sig h
  end.
Definition pre_layout (l : list hfield) (h : header) : bytes := flat_map (fun f => field_bytes f h) l.
Definition std_layout : list hfield := [FHeight; FPrev; FTxRoot; FSRoot; FEmb; FCodes; FTs; FProposer].

(* error codes (0 = Ok) *)
Definition E_HEIGHT : N := 1.      (* ValidationFailed: height does not follow / expected height *)
Definition E_HASH : N := 2.        (* InvalidHash: prev_hash mismatch *)
Definition E_TXROOT : N := 3.      (* ValidationFailed: tx_root does not match transactions *)
Definition E_TS : N := 4.          (* ValidationFailed: timestamp before previous block *)
Definition E_NOSIG : N := 5.       (* ValidationFailed: missing block signature *)
Definition E_UNKNOWN : N := 6.     (* ValidationFailed: unknown proposer *)
Definition E_BADSIG : N := 7.      (* ValidationFailed: invalid block signature *)
Definition E_NOTFOUND : N := 8.    (* BlockNotFound(h) *)
Definition E_EMPTY : N := 9.       (* EmptyChain: genesis missing *)
Definition E_UNSIGNED : N := 11.   (* ValidationFailed: block must be signed by proposer *)
Definition E_NOTACTIVE : N := 20.  (* TransactionFailed: transaction is not active *)
Definition E_STATE : N := 21.      (* TransactionFailed: cannot commit transaction in state .. *)
Definition E_MAXTX : N := 22.      (* TransactionFailed: exceeds max_txs_per_block *)
Definition E_COMMITTED : N := 23.  (* TransactionFailed: cannot rollback committed transaction *)

(* which of the checks that `fix:` commits added are present in the source (gen/Gen_C16.v) *)
Record flags := Fl {
  f_append_ts : bool;           (* Chain::append rejects a timestamp below the tip's *)
  f_append_sig_all : bool;      (* Chain::append verifies the signature at every height when a registry is set *)
  f_genesis_txroot : bool;      (* Chain::verify_chain checks the genesis tx_root *)
  f_sig_min_height : N;         (* "block must be signed" is demanded when expected_height > this *)
  f_commit_locked : bool        (* TensorChain::commit holds one lock from pre-image to append *)
}.
Definition flags_fixed : flags := Fl true true true 1 true.

Definition blockmap := list (N * block).             (* key "chain:block:<h>" -> stored block *)
(* the one TensorStore: data keys, stored blocks, the chain:meta height record *)
Record store := Sto { s_data : list (N * bytes); s_blocks : blockmap; s_meta : option N }.

Section Model.
Variable Hf : bytes -> bytes.                       (* SHA-256 *)
Variable ser_tx : tx -> bytes.                      (* bitcode::serialize(&Transaction) *)
Variable registered : bytes -> bool.                (* ValidatorRegistry::get(proposer).is_some() *)
Variable sig_valid : bytes -> bytes -> bytes -> bool. (* proposer's key verifies (message, signature) *)
Variable sign : bytes -> bytes -> bytes.            (* Identity::sign of the node named by arg 1 *)
Variable SR : store -> bytes.                       (* compute_state_root: a function of the whole store image *)
Variable fl : flags.

(* ---------------------------------------------------------------- block.rs *)
(* BlockHeader::hash pre-image == BlockHeader::signing_bytes *)
Definition pre (h : header) : bytes :=
  le64 (h_height h) ++ h_prev h ++ h_txroot h ++ h_sroot h ++ h_emb h
  ++ flat_map le16 (h_codes h) ++ le64 (h_ts h) ++ h_proposer h.
Definition hhash (h : header) : bytes := Hf (pre h).
Definition tx_hash (t : tx) : bytes := Hf (ser_tx t).

(* one Merkle level: pairs hashed together, an odd last node paired with itself *)
Fixpoint pair_up (l : list bytes) : list bytes :=
  match l with
  | [] => []
  | [a] => [Hf (a ++ a)]
  | a :: b :: r => Hf (a ++ b) :: pair_up r
  end.
Fixpoint merkle_fuel (n : nat) (l : list bytes) : bytes :=
  match l with
  | [] => zeros32
  | [a] => a
  | _ => match n with O => zeros32 | S n' => merkle_fuel n' (pair_up l) end
  end.
Definition merkle_root (l : list bytes) : bytes := merkle_fuel (length l) l.
Definition compute_tx_root (txs : list tx) : bytes :=
  match txs with [] => zeros32 | _ => merkle_root (map tx_hash txs) end.
Definition tx_root_ok (b : block) : bool := bytes_eqb (h_txroot (b_hdr b)) (compute_tx_root (b_txs b)).

(* BlockHeader::verify_signature(registry) *)
Definition verify_sig (h : header) : N :=
  if is_nil (h_sig h) then E_NOSIG
  else if negb (registered (h_proposer h)) then E_UNKNOWN
  else if negb (sig_valid (h_proposer h) (pre h) (h_sig h)) then E_BADSIG
  else 0.

(* Block::verify_chain(&self = b, prev_block = p) *)
Definition block_follows (b p : block) : N :=
  if negb (N.eqb (h_height (b_hdr b)) (h_height (b_hdr p) + 1)) then E_HEIGHT
  else if negb (bytes_eqb (h_prev (b_hdr b)) (hhash (b_hdr p))) then E_HASH
  else if negb (tx_root_ok b) then E_TXROOT
  else if N.ltb (h_ts (b_hdr b)) (h_ts (b_hdr p)) then E_TS
  else 0.

(* ---------------------------------------------------------------- chain.rs *)
Record cmem := CM { m_height : N; m_tip : bytes }.   (* Chain { height, tip_hash } (in memory) *)

Fixpoint verify_from (bm : blockmap) (prev : block) (h : N) (n : nat) : N :=
  match n with
  | O => 0
  | S n' =>
      match aget bm h with
      | None => E_NOTFOUND
      | Some b =>
          let e := block_follows b prev in
          if negb (N.eqb e 0) then e
          else let e2 := verify_sig (b_hdr b) in
               if negb (N.eqb e2 0) then e2 else verify_from bm b (h + 1) n'
      end
  end.

(* Chain::verify_chain (registry present, as in every TensorChain) *)
Definition verify_chain (bm : blockmap) (height : N) : N :=
  if N.eqb height 0 then 0
  else match aget bm 0 with
       | None => E_EMPTY
       | Some g =>
           if f_genesis_txroot fl && negb (tx_root_ok g) then E_TXROOT
           else verify_from bm g 1 (N.to_nat height)
       end.

(* Chain::append: Ok -> (stored block, new memory) *)
Definition append (bm : blockmap) (m : cmem) (b0 : block) : (N + (blockmap * cmem)) :=
  let eh := m_height m + 1 in
  if negb (N.eqb (h_height (b_hdr b0)) eh) then inl E_HEIGHT
  else if negb (bytes_eqb (h_prev (b_hdr b0)) (m_tip m)) then inl E_HASH
  else if f_append_ts fl
          && match aget bm (m_height m) with
             | Some p => N.ltb (h_ts (b_hdr b0)) (h_ts (b_hdr p))
             | None => false end
       then inl E_TS
  else
    let b := if bytes_eqb (h_txroot (b_hdr b0)) zeros32 && negb (is_nil (b_txs b0))
             then with_hdr (set_txroot (compute_tx_root (b_txs b0))) b0 else b0 in
    if negb (tx_root_ok b) then inl E_TXROOT
    else if N.ltb (f_sig_min_height fl) eh && is_nil (h_sig (b_hdr b)) then inl E_UNSIGNED
    else
      let e := if f_append_sig_all fl || N.ltb (f_sig_min_height fl) eh then verify_sig (b_hdr b) else 0 in
      if negb (N.eqb e 0) then inl e
      else inr (aset bm eh b, CM eh (hhash (b_hdr b))).

(* BlockBuilder::sign_and_build as used by TensorChain::commit *)
Definition build_signed (m : cmem) (me : bytes) (txs : list tx) (sroot emb : bytes) (codes : list N) (ts : N) : block :=
  let h0 := Hd (m_height m + 1) (m_tip m) (compute_tx_root txs) sroot emb codes ts me [] in
  Bk (set_sig (sign me (pre h0)) h0) txs [].

(* ---------------------------------------------------------------- store + workspaces (lib.rs, transaction.rs) *)
Definition apply_tx (d : list (N * bytes)) (t : tx) : list (N * bytes) :=
  match t with TPut k v => aset d k v | TDel k => adel d k | TOther _ _ _ => d end.
Definition apply_txs (d : list (N * bytes)) (l : list tx) : list (N * bytes) := fold_left apply_tx l d.

(* TransactionState: Active=0 Committing=1 Committed=2 RolledBack=3 Failed=4 *)
Record wsp := W { w_ops : list tx; w_state : N; w_chk : store }.
Record st := St { t_store : store; t_mem : cmem; t_ws : list (N * wsp) }.

Definition set_ws (s : st) (w : N) (x : wsp) : st := St (t_store s) (t_mem s) (aset (t_ws s) w x).

Definition begin_ws (s : st) (w : N) : st := set_ws s w (W [] 0 (t_store s)).

Definition add_op (s : st) (w : N) (t : tx) : st * N :=
  match aget (t_ws s) w with
  | Some x => if N.eqb (w_state x) 0 then (set_ws s w (W (w_ops x ++ [t]) 0 (w_chk x)), 0) else (s, E_NOTACTIVE)
  | None => (s, 99)
  end.

(* the part of TensorChain::commit from the pre-image to append/restore, on a store *)
Definition commit_core (me : bytes) (emb : bytes) (sto : store) (m : cmem) (ops : list tx) (ts : N)
  : store * cmem * N :=
  let snap := sto in
  let d1 := apply_txs (s_data sto) ops in
  let root := SR (Sto d1 (s_blocks sto) (s_meta sto)) in
  let blk := build_signed m me ops root emb [] ts in
  match append (s_blocks sto) m blk with
  | inr (bm', m') => (Sto d1 bm' (Some (m_height m')), m', 0)
  | inl e => (snap, m, e)
  end.

(* TensorChain::commit (embeddings unset: no conflict detection, nothing to merge) *)
Definition commit (me emb : bytes) (max_txs : N) (s : st) (w : N) (ts : N) : st * N :=
  match aget (t_ws s) w with
  | None => (s, 99)
  | Some x =>
      if negb (N.eqb (w_state x) 0) then (s, E_STATE)
      else if is_nil (w_ops x) then (set_ws s w (W (w_ops x) 2 (w_chk x)), 0)
      else if N.ltb max_txs (N.of_nat (length (w_ops x))) then (set_ws s w (W (w_ops x) 4 (w_chk x)), E_MAXTX)
      else
        let '(sto', m', e) := commit_core me emb (t_store s) (t_mem s) (w_ops x) ts in
        (St sto' m' (aset (t_ws s) w (W (w_ops x) (if N.eqb e 0 then 2 else 4) (w_chk x))), e)
  end.

(* TensorChain::rollback = TransactionWorkspace::rollback: restore the begin-time image *)
Definition rollback (s : st) (w : N) : st * N :=
  match aget (t_ws s) w with
  | None => (s, 99)
  | Some x =>
      if N.eqb (w_state x) 2 then (s, E_COMMITTED)
      else (St (w_chk x) (t_mem s) (aset (t_ws s) w (W (w_ops x) 3 (w_chk x))), 0)
  end.

(* TensorChain::append_block (public raw append); a failure leaves everything as it was *)
Definition append_raw (s : st) (b : block) : st * N :=
  match append (s_blocks (t_store s)) (t_mem s) b with
  | inr (bm', m') => (St (Sto (s_data (t_store s)) bm' (Some (m_height m'))) m' (t_ws s), 0)
  | inl e => (s, e)
  end.

Definition verify (s : st) : N := verify_chain (s_blocks (t_store s)) (m_height (t_mem s)).

(* Chain::initialize on an empty store: genesis block, meta 0 *)
Definition genesis (me : bytes) (ts : N) : block := Bk (Hd 0 zeros32 zeros32 zeros32 [] [] ts me []) [] [].
Definition init (me : bytes) (g_emb : bytes) (ts : N) : st :=
  let g := with_hdr (set_emb g_emb) (genesis me ts) in
  St (Sto [] [(0, g)] (Some 0)) (CM 0 (hhash (b_hdr g))) [].

(* ---------------------------------------------------------------- replica (state_machine.rs) *)
(* TensorStateMachine::apply_block on a replica whose data image is d: the transactions are
   applied, the root is re-derived and compared, the block appended; any failure restores *)
Definition apply_block (sto : store) (m : cmem) (b : block) : store * cmem * N :=
  let d1 := apply_txs (s_data sto) (b_txs b) in
  if negb (bytes_eqb (h_sroot (b_hdr b)) (SR (Sto d1 (s_blocks sto) (s_meta sto)))) then (sto, m, 12)
  else match append (s_blocks sto) m b with
       | inr (bm', m') => (Sto d1 bm' (Some (m_height m')), m', 0)
       | inl e => (sto, m, e)
       end.
Fixpoint replay (sto : store) (m : cmem) (bs : list block) : store * cmem * list N :=
  match bs with
  | [] => (sto, m, [])
  | b :: r => let '(sto1, m1, e) := apply_block sto m b in
              let '(sto2, m2, es) := replay sto1 m1 r in (sto2, m2, e :: es)
  end.

(* ---------------------------------------------------------------- concurrent commits: interleaving semantics *)
(* A committing thread (past mark_committing and the size checks, with a non-empty operation list):
   pc 0 = before the pre-image; 1 = pre-image taken; 2 = operations applied and block built (reads
   height/tip and the clock); 3 = done.  A schedule is a list of (thread id, wall clock at that step).
   With the commit lock (f_commit_locked) a thread runs 0 -> 3 in one atomic step. *)
Record thr := Th { th_ops : list tx; th_pc : N; th_snap : store; th_blk : option block; th_res : N }.
Record cst := CS { c_store : store; c_mem : cmem; c_thr : list (N * thr) }.

Definition cstep (me emb : bytes) (s : cst) (ev : N * N) : cst :=
  let '(i, now) := ev in
  match aget (c_thr s) i with
  | None => s
  | Some t =>
      if f_commit_locked fl then
        if N.eqb (th_pc t) 3 then s
        else let '(sto', m', e) := commit_core me emb (c_store s) (c_mem s) (th_ops t) now in
             CS sto' m' (aset (c_thr s) i (Th (th_ops t) 3 (th_snap t) None e))
      else
        match th_pc t with
        | 0 => CS (c_store s) (c_mem s) (aset (c_thr s) i (Th (th_ops t) 1 (c_store s) None 0))
        | 1 => let d1 := apply_txs (s_data (c_store s)) (th_ops t) in
               let sto1 := Sto d1 (s_blocks (c_store s)) (s_meta (c_store s)) in
               let blk := build_signed (c_mem s) me (th_ops t) (SR sto1) emb [] now in
               CS sto1 (c_mem s) (aset (c_thr s) i (Th (th_ops t) 2 (th_snap t) (Some blk) 0))
        | 2 => match th_blk t with
               | None => s
               | Some blk =>
                   match append (s_blocks (c_store s)) (c_mem s) blk with
                   | inr (bm', m') =>
                       CS (Sto (s_data (c_store s)) bm' (Some (m_height m'))) m'
                          (aset (c_thr s) i (Th (th_ops t) 3 (th_snap t) None 0))
                   | inl e =>
                       CS (th_snap t) (c_mem s)
                          (aset (c_thr s) i (Th (th_ops t) 3 (th_snap t) None e))
                   end
               end
        | _ => s
        end
  end.
Definition crun (me emb : bytes) (s : cst) (sched : list (N * N)) : cst := fold_left (cstep me emb) sched s.
Definition cverify (s : cst) : N := verify_chain (s_blocks (c_store s)) (m_height (c_mem s)).

End Model.
