(* C16/Proofs.v -- lemmas and main theorems over the chain model. *)
From NV.Common Require Import Base.
From NV.C16 Require Import Model.
Open Scope N_scope.

Section Proofs.
Variable Hf : bytes -> bytes.
Variable ser_tx : tx -> bytes.
Variable registered : bytes -> bool.
Variable sig_valid : bytes -> bytes -> bytes -> bool.
Variable sign : bytes -> bytes -> bytes.
Variable SR : store -> bytes.
Variable fl : flags.

(* replay is a function of (store image, memory, block list): two replicas agree *)
Lemma replay_deterministic : forall sto1 m1 sto2 m2 bs1 bs2,
  sto1 = sto2 -> m1 = m2 -> bs1 = bs2 ->
  replay Hf ser_tx registered sig_valid SR fl sto1 m1 bs1 = replay Hf ser_tx registered sig_valid SR fl sto2 m2 bs2.
Proof. intros; subst; reflexivity. Qed.
End Proofs.
