(* C16/Proofs.v -- lemmas and main theorems over the chain model. *)
From NV.Common Require Import Base.
From NV.C16 Require Import Model.
Open Scope N_scope.

Arguments N.add : simpl never.
Arguments N.sub : simpl never.
Arguments N.mul : simpl never.
Arguments N.eqb : simpl never.
Arguments N.ltb : simpl never.
Arguments N.leb : simpl never.
Arguments N.div : simpl never.
Arguments N.modulo : simpl never.
Arguments N.pow : simpl never.

(* ------------------------------------------------------------------ generic list / byte facts *)
Lemma bytes_eqb_spec a b : bytes_eqb a b = true <-> a = b.
Proof. apply list_eqb_spec. intros; apply N.eqb_eq. Qed.
Lemma bytes_eqb_refl a : bytes_eqb a a = true.
Proof. apply bytes_eqb_spec; reflexivity. Qed.
Lemma bytes_eqb_neq a b : bytes_eqb a b = false <-> a <> b.
Proof.
  split; intros H.
  - intros E. apply bytes_eqb_spec in E. congruence.
  - destruct (bytes_eqb a b) eqn:E; [apply bytes_eqb_spec in E; contradiction|reflexivity].
Qed.

Lemma app_inj_len {A} (a a' r r' : list A) :
  length a = length a' -> a ++ r = a' ++ r' -> a = a' /\ r = r'.
Proof.
  revert a'. induction a as [|x a IH]; intros [|y a'] L E; cbn in *; try discriminate.
  - split; [reflexivity|exact E].
  - injection E as -> E. injection L as L. destruct (IH a' L E) as [-> ->]. split; reflexivity.
Qed.

Lemma le_bytes_length w x : length (le_bytes w x) = w.
Proof. revert x; induction w; intros; cbn; [reflexivity|rewrite IHw; reflexivity]. Qed.

Lemma le_bytes_inj w : forall x y, x < 256 ^ N.of_nat w -> y < 256 ^ N.of_nat w ->
  le_bytes w x = le_bytes w y -> x = y.
Proof.
  induction w as [|w IH]; intros x y Hx Hy E.
  - cbn in Hx, Hy. change (256 ^ 0) with 1 in *. lia.
  - cbn [le_bytes] in E. injection E as E0 E1.
    rewrite Nat2N.inj_succ, N.pow_succ_r' in Hx, Hy.
    assert (x / 256 = y / 256) as Hd.
    { apply IH; [apply N.div_lt_upper_bound; lia|apply N.div_lt_upper_bound; lia|exact E1]. }
    rewrite (N.div_mod x 256), (N.div_mod y 256) by lia. rewrite Hd, E0. reflexivity.
Qed.

Definition U64 : N := 256 ^ 8.
Lemma le64_inj x y : x < U64 -> y < U64 -> le64 x = le64 y -> x = y.
Proof. apply (le_bytes_inj 8). Qed.
Definition U16 : N := 256 ^ 2.
Lemma le16_inj x y : x < U16 -> y < U16 -> le16 x = le16 y -> x = y.
Proof. apply (le_bytes_inj 2). Qed.

Lemma codes_inj : forall a b, Forall (fun x => x < U16) a -> Forall (fun x => x < U16) b ->
  flat_map le16 a = flat_map le16 b -> a = b.
Proof.
  induction a as [|x a IH]; intros [|y b] Ha Hb E; cbn [flat_map] in E.
  - reflexivity.
  - exfalso. apply (f_equal (@length N)) in E. rewrite app_length in E.
    unfold le16 in E. rewrite le_bytes_length in E. cbn in E. lia.
  - exfalso. apply (f_equal (@length N)) in E. rewrite app_length in E.
    unfold le16 in E. rewrite le_bytes_length in E. cbn in E. lia.
  - inversion Ha; inversion Hb; subst.
    apply app_inj_len in E; [|unfold le16; rewrite !le_bytes_length; reflexivity].
    destruct E as [E1 E2]. apply le16_inj in E1; auto. subst. f_equal. apply IH; auto.
Qed.

Lemma NoDup_app_snoc {A} (l : list A) (x : A) : NoDup l -> ~ In x l -> NoDup (l ++ [x]).
Proof.
  induction l as [|y l IH]; intros Hn Hx; cbn.
  - constructor; [intros []|constructor].
  - inversion Hn; subst. constructor.
    + intros Hin. apply in_app_or in Hin. destruct Hin as [Hin|[->|[]]]; [contradiction|]. apply Hx. left; reflexivity.
    + apply IH; [assumption|]. intros Hin. apply Hx. right; exact Hin.
Qed.
Lemma nth_error_Some_lt {A} (l : list A) j x : nth_error l j = Some x -> (j < length l)%nat.
Proof. intros H. apply nth_error_Some. congruence. Qed.

Section Proofs.
Variable Hf : bytes -> bytes.
Variable ser_tx : tx -> bytes.
Variable registered : bytes -> bool.
Variable sig_valid : bytes -> bytes -> bytes -> bool.
Variable sign : bytes -> bytes -> bytes.
Variable SR : store -> bytes.
Variable fl : flags.

Notation hhash := (hhash Hf).
Notation tx_root_ok := (tx_root_ok Hf ser_tx).
Notation compute_tx_root := (compute_tx_root Hf ser_tx).
Notation verify_sig := (verify_sig registered sig_valid).
Notation block_follows := (block_follows Hf ser_tx).
Notation verify_from := (verify_from Hf ser_tx registered sig_valid).
Notation verify_chain := (verify_chain Hf ser_tx registered sig_valid fl).
Notation append := (append Hf ser_tx registered sig_valid fl).

(* ------------------------------------------------------------------ verify_chain = every link checks *)
Definition check1 (b p : block) : N :=
  let e := block_follows b p in if negb (N.eqb e 0) then e else verify_sig (b_hdr b).

Lemma verify_from_S bm prev h n :
  verify_from bm prev h (S n) =
  match aget bm h with
  | None => E_NOTFOUND
  | Some b => if negb (N.eqb (check1 b prev) 0) then check1 b prev else verify_from bm b (h + 1) n
  end.
Proof.
  cbn [Model.verify_from]. destruct (aget bm h) as [b|]; [|reflexivity].
  unfold check1. destruct (N.eqb (block_follows b prev) 0) eqn:E; cbn [negb].
  - reflexivity.
  - rewrite E. reflexivity.
Qed.

Definition prevof (bm : blockmap) (prev : block) (h : N) (j : nat) : option block :=
  match j with O => Some prev | S j' => aget bm (h + N.of_nat j') end.

Lemma verify_from_ok bm : forall n prev h,
  verify_from bm prev h n = 0 <->
  (forall j, (j < n)%nat -> exists b p, aget bm (h + N.of_nat j) = Some b /\ prevof bm prev h j = Some p /\ check1 b p = 0).
Proof.
  induction n as [|n IH]; intros prev h.
  - split; [intros _ j Hj; lia|reflexivity].
  - rewrite verify_from_S. split.
    + intros Hv j Hj. destruct (aget bm h) as [b|] eqn:Eb; [|discriminate].
      destruct (N.eqb (check1 b prev) 0) eqn:Ec; cbn [negb] in Hv.
      2:{ rewrite Hv in Ec. discriminate. }
      apply N.eqb_eq in Ec.
      destruct j as [|j].
      * exists b, prev. rewrite N.add_0_r. cbn. auto.
      * destruct (proj1 (IH b (h + 1)) Hv j ltac:(lia)) as (b' & p & E1 & E2 & E3).
        exists b', p. split; [|split; [|exact E3]].
        -- rewrite <- E1. f_equal. lia.
        -- destruct j as [|j']; cbn [prevof] in E2 |- *.
           ++ rewrite N.add_0_r. congruence.
           ++ rewrite <- E2. f_equal. lia.
    + intros Hall.
      destruct (Hall O ltac:(lia)) as (b & p & E1 & E2 & E3).
      rewrite N.add_0_r in E1. cbn in E2. injection E2 as <-. rewrite E1, E3. cbn.
      apply IH. intros j Hj.
      destruct (Hall (S j) ltac:(lia)) as (b' & p' & F1 & F2 & F3).
      exists b', p'. split; [|split; [|exact F3]].
      * rewrite <- F1. f_equal. lia.
      * destruct j as [|j']; cbn [prevof] in F2 |- *.
        -- rewrite N.add_0_r in F2. congruence.
        -- rewrite <- F2. f_equal. lia.
Qed.

(* the declarative reading of verify_chain(height n) *)
Definition Linked (bm : blockmap) (n : N) : Prop :=
  exists g, aget bm 0 = Some g /\ (f_genesis_txroot fl = true -> tx_root_ok g = true) /\
  forall k, 1 <= k <= n -> exists b p, aget bm k = Some b /\ aget bm (k - 1) = Some p /\ check1 b p = 0.

Lemma verify_chain_iff bm n : 0 < n -> (verify_chain bm n = 0 <-> Linked bm n).
Proof.
  intros Hn. unfold Model.verify_chain. replace (N.eqb n 0) with false by (symmetry; apply N.eqb_neq; lia).
  split.
  - destruct (aget bm 0) as [g|] eqn:Eg; [|discriminate].
    destruct (f_genesis_txroot fl && negb (tx_root_ok g)) eqn:Egen; [discriminate|].
    intros Hv. exists g. split; [exact Eg|]. split.
    + intros Hf1. rewrite Hf1 in Egen. cbn in Egen. destruct (tx_root_ok g); [reflexivity|discriminate].
    + intros k Hk. rewrite verify_from_ok in Hv.
      destruct (Hv (N.to_nat (k - 1)) ltac:(lia)) as (b & p & E1 & E2 & E3).
      exists b, p. split; [|split; [|exact E3]].
      * rewrite <- E1. f_equal. lia.
      * destruct (N.to_nat (k - 1)) as [|j] eqn:Ej; cbn [prevof] in E2.
        -- replace (k - 1) with 0 by lia. congruence.
        -- rewrite <- E2. f_equal. lia.
  - intros (g & Eg & Hgen & Hall). rewrite Eg.
    destruct (f_genesis_txroot fl) eqn:Efl; cbn [andb].
    + rewrite (Hgen eq_refl). cbn [negb]. apply verify_from_ok. intros j Hj.
      destruct (Hall (1 + N.of_nat j) ltac:(lia)) as (b & p & E1 & E2 & E3).
      exists b, p. split; [exact E1|]. split; [|exact E3].
      destruct j as [|j']; cbn [prevof].
      * replace (1 + N.of_nat 0 - 1) with 0 in E2 by lia. congruence.
      * rewrite <- E2. f_equal. lia.
    + apply verify_from_ok. intros j Hj.
      destruct (Hall (1 + N.of_nat j) ltac:(lia)) as (b & p & E1 & E2 & E3).
      exists b, p. split; [exact E1|]. split; [|exact E3].
      destruct j as [|j']; cbn [prevof].
      * replace (1 + N.of_nat 0 - 1) with 0 in E2 by lia. congruence.
      * rewrite <- E2. f_equal. lia.
Qed.

Lemma check1_ok b p : check1 b p = 0 <-> block_follows b p = 0 /\ verify_sig (b_hdr b) = 0.
Proof.
  unfold check1. destruct (N.eqb (block_follows b p) 0) eqn:E; cbn [negb].
  - apply N.eqb_eq in E. tauto.
  - apply N.eqb_neq in E. split; [intros; contradiction|tauto].
Qed.

Lemma block_follows_ok b p : block_follows b p = 0 <->
  h_height (b_hdr b) = h_height (b_hdr p) + 1 /\ h_prev (b_hdr b) = hhash (b_hdr p) /\
  tx_root_ok b = true /\ h_ts (b_hdr p) <= h_ts (b_hdr b).
Proof.
  unfold Model.block_follows, E_HEIGHT, E_HASH, E_TXROOT, E_TS.
  destruct (N.eqb_spec (h_height (b_hdr b)) (h_height (b_hdr p) + 1)) as [E1|E1]; cbn [negb].
  2:{ split; [discriminate|tauto]. }
  destruct (bytes_eqb (h_prev (b_hdr b)) (hhash (b_hdr p))) eqn:E2; cbn [negb].
  2:{ apply bytes_eqb_neq in E2. split; [discriminate|tauto]. }
  apply bytes_eqb_spec in E2.
  destruct (tx_root_ok b) eqn:E3; cbn [negb].
  2:{ split; [discriminate|intros (_ & _ & X & _); discriminate]. }
  destruct (N.ltb_spec (h_ts (b_hdr b)) (h_ts (b_hdr p))) as [E4|E4].
  - split; [discriminate|intros (_ & _ & _ & X); lia].
  - split; auto.
Qed.

Lemma verify_sig_ok h : verify_sig h = 0 <->
  h_sig h <> [] /\ registered (h_proposer h) = true /\ sig_valid (h_proposer h) (pre h) (h_sig h) = true.
Proof.
  unfold Model.verify_sig, E_NOSIG, E_UNKNOWN, E_BADSIG.
  destruct (h_sig h) as [|s0 sr] eqn:Es; cbn [is_nil].
  - split; [discriminate|intros (X & _); congruence].
  - destruct (registered (h_proposer h)); cbn [negb]; [|split; [discriminate|intros (_ & X & _); discriminate]].
    destruct (sig_valid (h_proposer h) (pre h) (s0 :: sr)); cbn [negb].
    + split; [intros _; repeat split; congruence|reflexivity].
    + split; [discriminate|intros (_ & _ & X); discriminate].
Qed.

(* ------------------------------------------------------------------ append keeps the chain verifiable *)
Definition Inv (bm : blockmap) (m : cmem) : Prop :=
  Linked bm (m_height m)
  /\ (exists t, aget bm (m_height m) = Some t /\ m_tip m = hhash (b_hdr t))
  /\ (forall k b, k <= m_height m -> aget bm k = Some b -> h_height (b_hdr b) = k).

Lemma Inv_verify bm m : Inv bm m -> verify_chain bm (m_height m) = 0.
Proof.
  intros (HL & _ & _). destruct (N.eq_dec (m_height m) 0) as [E|E].
  - unfold Model.verify_chain. rewrite E. reflexivity.
  - apply verify_chain_iff; [lia|exact HL].
Qed.

Lemma append_inr bm m b0 bm' m' :
  append bm m b0 = inr (bm', m') ->
  exists b, bm' = aset bm (m_height m + 1) b /\ m' = CM (m_height m + 1) (hhash (b_hdr b))
    /\ h_height (b_hdr b) = m_height m + 1 /\ h_prev (b_hdr b) = m_tip m /\ tx_root_ok b = true
    /\ b_txs b = b_txs b0 /\ b_sigs b = b_sigs b0 /\ h_ts (b_hdr b) = h_ts (b_hdr b0)
    /\ (f_append_ts fl = true -> forall t, aget bm (m_height m) = Some t -> h_ts (b_hdr t) <= h_ts (b_hdr b))
    /\ (f_append_sig_all fl = true \/ f_sig_min_height fl < m_height m + 1 -> verify_sig (b_hdr b) = 0)
    /\ (b_hdr b = b_hdr b0 \/ b_hdr b = set_txroot (compute_tx_root (b_txs b0)) (b_hdr b0)).
Proof.
  unfold Model.append.
  destruct (N.eqb_spec (h_height (b_hdr b0)) (m_height m + 1)) as [Eh|Eh]; cbn [negb]; [|discriminate].
  destruct (bytes_eqb (h_prev (b_hdr b0)) (m_tip m)) eqn:Ep; cbn [negb]; [|discriminate].
  apply bytes_eqb_spec in Ep.
  destruct (f_append_ts fl && match aget bm (m_height m) with Some p => N.ltb (h_ts (b_hdr b0)) (h_ts (b_hdr p)) | None => false end) eqn:Ets; [discriminate|].
  set (b := if bytes_eqb (h_txroot (b_hdr b0)) zeros32 && negb (is_nil (b_txs b0))
            then with_hdr (set_txroot (compute_tx_root (b_txs b0))) b0 else b0).
  assert (Hb : h_height (b_hdr b) = h_height (b_hdr b0) /\ h_prev (b_hdr b) = h_prev (b_hdr b0)
               /\ b_txs b = b_txs b0 /\ b_sigs b = b_sigs b0 /\ h_ts (b_hdr b) = h_ts (b_hdr b0)).
  { subst b. destruct (bytes_eqb (h_txroot (b_hdr b0)) zeros32 && negb (is_nil (b_txs b0))); cbn; auto. }
  destruct Hb as (Hb1 & Hb2 & Hb3 & Hb4 & Hb5).
  destruct (tx_root_ok b) eqn:Etr; cbn [negb]; [|discriminate].
  destruct (N.ltb (f_sig_min_height fl) (m_height m + 1) && is_nil (h_sig (b_hdr b))) eqn:Eun; [discriminate|].
  destruct (N.eqb (if f_append_sig_all fl || N.ltb (f_sig_min_height fl) (m_height m + 1) then verify_sig (b_hdr b) else 0) 0) eqn:Esg;
    cbn [negb]; [|discriminate].
  intros E. injection E as <- <-. exists b. repeat split; try congruence.
  3:{ subst b. destruct (bytes_eqb (h_txroot (b_hdr b0)) zeros32 && negb (is_nil (b_txs b0))); cbn; auto. }
  - intros Hts t Et. rewrite Hts, Et in Ets. cbn [andb] in Ets. apply N.ltb_ge in Ets. rewrite Hb5. exact Ets.
  - intros Hg. apply N.eqb_eq in Esg.
    destruct Hg as [Hg|Hg].
    + rewrite Hg in Esg. cbn [orb] in Esg. exact Esg.
    + apply N.ltb_lt in Hg. rewrite Hg, Bool.orb_true_r in Esg. exact Esg.
Qed.

Lemma append_inl bm m b0 e : append bm m b0 = inl e -> True.
Proof. trivial. Qed.

Lemma append_preserves bm m b0 bm' m' :
  Inv bm m -> append bm m b0 = inr (bm', m') ->
  (f_append_ts fl = true \/ forall t, aget bm (m_height m) = Some t -> h_ts (b_hdr t) <= h_ts (b_hdr b0)) ->
  (f_append_sig_all fl = true \/ f_sig_min_height fl < m_height m + 1 \/
   forall b, aget bm' (m_height m + 1) = Some b -> verify_sig (b_hdr b) = 0) ->
  Inv bm' m'.
Proof.
  intros (HL & (t & Et & Etip) & HH) Ha Gts Gsig.
  destruct (append_inr _ _ _ _ _ Ha) as (b & -> & -> & Bh & Bp & Btr & Btx & Bsg & Bts & Bt & Bs & _).
  cbn [m_height m_tip].
  assert (Hget : forall k, k <= m_height m -> aget (aset bm (m_height m + 1) b) k = aget bm k).
  { intros k Hk. rewrite aget_aset. destruct (N.eqb_spec (m_height m + 1) k); [lia|reflexivity]. }
  assert (Hnew : aget (aset bm (m_height m + 1) b) (m_height m + 1) = Some b).
  { rewrite aget_aset, N.eqb_refl. reflexivity. }
  split; [|split].
  - destruct HL as (g & Eg & Hgen & Hall). exists g. split; [rewrite Hget by lia; exact Eg|]. split; [exact Hgen|].
    intros k Hk. cbn [m_height] in Hk. destruct (N.eq_dec k (m_height m + 1)) as [->|Hne].
    + exists b, t. split; [exact Hnew|]. split.
      * replace (m_height m + 1 - 1) with (m_height m) by lia. rewrite Hget by lia. exact Et.
      * apply check1_ok. split.
        -- apply block_follows_ok. repeat split.
           ++ rewrite Bh. rewrite (HH (m_height m) t ltac:(lia) Et). reflexivity.
           ++ rewrite Bp. exact Etip.
           ++ exact Btr.
           ++ destruct Gts as [G|G]; [apply Bt; auto|rewrite Bts; apply G; exact Et].
        -- destruct Gsig as [G|[G|G]]; [apply Bs; auto|apply Bs; auto|apply G; exact Hnew].
    + destruct (Hall k ltac:(lia)) as (bk & pk & E1 & E2 & E3).
      exists bk, pk. rewrite !Hget by lia. auto.
  - exists b. split; [exact Hnew|reflexivity].
  - intros k bk Hk Ek. cbn [m_height] in Hk. destruct (N.eq_dec k (m_height m + 1)) as [->|Hne].
    + rewrite Hnew in Ek. injection Ek as <-. exact Bh.
    + rewrite Hget in Ek by lia. apply (HH k bk); [lia|exact Ek].
Qed.

(* chains built through the public interface: a genesis record, then successful appends *)
Inductive built : blockmap -> cmem -> Prop :=
| built_init g :
    tx_root_ok g = true -> h_height (b_hdr g) = 0 -> built [(0, g)] (CM 0 (hhash (b_hdr g)))
| built_append bm m b0 bm' m' :
    built bm m -> append bm m b0 = inr (bm', m') ->
    (f_append_ts fl = true \/ forall t, aget bm (m_height m) = Some t -> h_ts (b_hdr t) <= h_ts (b_hdr b0)) ->
    (f_append_sig_all fl = true \/ f_sig_min_height fl < m_height m + 1 \/
     forall b, aget bm' (m_height m + 1) = Some b -> verify_sig (b_hdr b) = 0) ->
    built bm' m'.

Lemma built_Inv bm m : built bm m -> Inv bm m.
Proof.
  induction 1 as [g Hg Hh|bm m b0 bm' m' _ IH Ha G1 G2].
  - cbn [m_height m_tip]. split; [|split].
    + exists g. cbn. split; [reflexivity|]. split; [auto|]. intros k Hk. lia.
    + exists g. cbn. auto.
    + intros k b Hk. cbn. destruct (N.eqb_spec 0 k); [|discriminate]. intros E; injection E as <-. lia.
  - eapply append_preserves; eauto.
Qed.

Theorem append_verifies bm m : built bm m -> verify_chain bm (m_height m) = 0.
Proof. intros Hb. apply Inv_verify, built_Inv, Hb. Qed.


(* ------------------------------------------------------------------ pre-image layout *)
Definition WellSized (h : header) : Prop :=
  h_height h < U64 /\ h_ts h < U64 /\ Forall (fun x => x < U16) (h_codes h).

Lemma pre_height_inj h h' : h_height h < U64 -> h_height h' < U64 -> pre h = pre h' -> h_height h = h_height h'.
Proof.
  intros B1 B2 E. unfold pre in E.
  apply app_inj_len in E; [|unfold le64; rewrite !le_bytes_length; reflexivity].
  destruct E as [E _]. apply le64_inj; assumption.
Qed.

(* exactly one hashed header field differs *)
Inductive mut1 (h : header) : header -> Prop :=
| mut_height v : v <> h_height h -> v < U64 -> mut1 h (set_height v h)
| mut_prev v : v <> h_prev h -> mut1 h (set_prev v h)
| mut_txroot v : v <> h_txroot h -> mut1 h (set_txroot v h)
| mut_sroot v : v <> h_sroot h -> mut1 h (set_sroot v h)
| mut_emb v : v <> h_emb h -> mut1 h (set_emb v h)
| mut_codes v : v <> h_codes h -> Forall (fun x => x < U16) v -> mut1 h (set_codes v h)
| mut_ts v : v <> h_ts h -> v < U64 -> mut1 h (set_ts v h)
| mut_proposer v : v <> h_proposer h -> mut1 h (set_proposer v h).

Lemma app_mid_inj {A} (a x y r : list A) : a ++ x ++ r = a ++ y ++ r -> x = y.
Proof. intros E. apply app_inv_head in E. apply app_inv_tail in E. exact E. Qed.

(* the concrete byte concatenation is injective in each single field *)
Lemma mut1_pre_neq h h' : WellSized h -> mut1 h h' -> pre h' <> pre h.
Proof.
  intros (W1 & W2 & W3) Hm E. destruct Hm as [v Hv Hb|v Hv|v Hv|v Hv|v Hv|v Hv Hb|v Hv Hb|v Hv]; unfold pre in E;
    cbn [set_height set_prev set_txroot set_sroot set_emb set_codes set_ts set_proposer
         h_height h_prev h_txroot h_sroot h_emb h_codes h_ts h_proposer] in E.
  - apply app_inj_len in E; [|unfold le64; rewrite !le_bytes_length; reflexivity].
    destruct E as [E _]. apply le64_inj in E; auto.
  - apply app_mid_inj in E. auto.
  - apply app_inv_head in E. apply app_mid_inj in E. auto.
  - do 2 apply app_inv_head in E. apply app_mid_inj in E. auto.
  - do 3 apply app_inv_head in E. apply app_mid_inj in E. auto.
  - do 4 apply app_inv_head in E. apply app_mid_inj in E. apply codes_inj in E; auto.
  - do 5 apply app_inv_head in E. apply app_mid_inj in E. apply le64_inj in E; auto.
  - do 7 apply app_inv_head in E. auto.
Qed.

(* companion: ACROSS fields the unframed concatenation is not injective *)
Lemma multi_field_preimage_collision : exists h h', h <> h' /\ pre h = pre h'.
Proof.
  exists (Hd 1 [] [] [] [7; 0] [] 5 [9] []), (Hd 1 [] [] [] [] [7] 5 [9] []).
  split; [discriminate|reflexivity].
Qed.

(* ------------------------------------------------------------------ tamper evidence *)
Definition entry (b : block) : bytes * bytes * bytes :=
  (h_proposer (b_hdr b), pre (b_hdr b), h_sig (b_hdr b)).
Definition blocks_of (bm : blockmap) (n : N) : list block :=
  flat_map (fun k => match aget bm k with Some b => [b] | None => [] end) (N_seq_from 1 (N.to_nat n)).
(* everything the validators signed while this chain was built: (signer, message, signature) *)
Definition siglog (bm : blockmap) (n : N) : list (bytes * bytes * bytes) := map entry (blocks_of bm n).

Definition Collision : Prop := exists x y, x <> y /\ Hf x = Hf y.
Definition Forgery (log : list (bytes * bytes * bytes)) : Prop :=
  exists p m s, registered p = true /\ sig_valid p m s = true /\ ~ In (p, m, s) log.

Lemma N_seq_from_In k : forall c s, In k (N_seq_from s c) <-> s <= k < s + N.of_nat c.
Proof.
  induction c as [|c IH]; intros s; cbn [N_seq_from].
  - cbn. lia.
  - cbn [In]. rewrite IH. lia.
Qed.

Lemma blocks_of_In bm n b : In b (blocks_of bm n) <-> exists k, 1 <= k <= n /\ aget bm k = Some b.
Proof.
  unfold blocks_of. rewrite in_flat_map. split.
  - intros (k & Hk & Hb). apply N_seq_from_In in Hk. exists k. split; [lia|].
    destruct (aget bm k) as [bk|]; cbn in Hb; [destruct Hb as [->|[]]; reflexivity|contradiction].
  - intros (k & Hk & Ek). exists k. split; [apply N_seq_from_In; lia|]. rewrite Ek. cbn. auto.
Qed.

Definition triple_eq_dec : forall x y : bytes * bytes * bytes, {x = y} + {x <> y}.
Proof. repeat decide equality. Defined.

Definition HeightsOK (bm : blockmap) (n : N) : Prop :=
  forall k b, k <= n -> aget bm k = Some b -> h_height (b_hdr b) = k.

Lemma aget_aset_ne {V} (l : list (N * V)) k v k' : k <> k' -> aget (aset l k v) k' = aget l k'.
Proof. intros H. rewrite aget_aset. destruct (N.eqb_spec k k'); [contradiction|reflexivity]. Qed.
Lemma aget_aset_eq {V} (l : list (N * V)) k v : aget (aset l k v) k = Some v.
Proof. rewrite aget_aset, N.eqb_refl. reflexivity. Qed.

(* ANY replacement of stored block i (1 <= i <= n) that still verifies either needs a signature the
   validators never produced, or has the same pre-image, signature and proposer as the original *)
Theorem forged_block bm n i b b' :
  Linked bm n -> HeightsOK bm n -> n < U64 -> 1 <= i <= n -> aget bm i = Some b ->
  verify_chain (aset bm i b') n = 0 ->
  Forgery (siglog bm n) \/
  (pre (b_hdr b') = pre (b_hdr b) /\ h_sig (b_hdr b') = h_sig (b_hdr b) /\
   h_proposer (b_hdr b') = h_proposer (b_hdr b) /\ tx_root_ok b' = true).
Proof.
  intros HL HH Hn Hi Eb Hv.
  apply verify_chain_iff in Hv; [|lia].
  destruct Hv as (_ & _ & _ & Hall').
  destruct (Hall' i Hi) as (b1 & p1 & E1 & E2 & E3).
  rewrite aget_aset_eq in E1. injection E1 as <-.
  rewrite aget_aset_ne in E2 by lia.
  apply check1_ok in E3. destruct E3 as [F1 F2].
  apply block_follows_ok in F1. destruct F1 as (Fh & _ & Ftr & _).
  apply verify_sig_ok in F2. destruct F2 as (_ & Freg & Fsig).
  assert (Hb' : h_height (b_hdr b') = i).
  { rewrite Fh. rewrite (HH (i - 1) p1 ltac:(lia) E2). lia. }
  destruct (in_dec triple_eq_dec (entry b') (siglog bm n)) as [Hin|Hnin].
  - right. unfold siglog in Hin. apply in_map_iff in Hin. destruct Hin as (bk & Eent & Hbk).
    apply blocks_of_In in Hbk. destruct Hbk as (k & Hk & Ek).
    assert (Ep : h_proposer (b_hdr bk) = h_proposer (b_hdr b')) by exact (f_equal (fun t => fst (fst t)) Eent).
    assert (Epre : pre (b_hdr bk) = pre (b_hdr b')) by exact (f_equal (fun t => snd (fst t)) Eent).
    assert (Es : h_sig (b_hdr bk) = h_sig (b_hdr b')) by exact (f_equal (fun t => snd t) Eent).
    assert (Hk2 : h_height (b_hdr bk) = k) by (apply HH; [apply Hk|exact Ek]).
    assert (Hi64 : i < U64) by (apply N.le_lt_trans with n; [apply Hi|exact Hn]).
    assert (Hk64 : k < U64) by (apply N.le_lt_trans with n; [apply Hk|exact Hn]).
    assert (Hsame : h_height (b_hdr bk) = h_height (b_hdr b')).
    { apply pre_height_inj; [rewrite Hk2; exact Hk64|rewrite Hb'; exact Hi64|exact Epre]. }
    assert (k = i) as -> by congruence.
    rewrite Eb in Ek. injection Ek as <-. auto.
  - left. exists (h_proposer (b_hdr b')), (pre (b_hdr b')), (h_sig (b_hdr b')). auto.
Qed.

(* single-field mutation of a hashed header field, or of the header signature *)
Theorem single_field_mutation bm n i b h' :
  Linked bm n -> HeightsOK bm n -> n < U64 -> 1 <= i <= n -> aget bm i = Some b ->
  WellSized (b_hdr b) ->
  (mut1 (b_hdr b) h' \/ exists v, v <> h_sig (b_hdr b) /\ h' = set_sig v (b_hdr b)) ->
  verify_chain (aset bm i (Bk h' (b_txs b) (b_sigs b))) n = 0 ->
  Forgery (siglog bm n).
Proof.
  intros HL HH Hn Hi Eb HW Hm Hv.
  destruct (forged_block bm n i b _ HL HH Hn Hi Eb Hv) as [F|(Epre & Esig & _)]; [exact F|exfalso].
  cbn [b_hdr] in Epre, Esig. destruct Hm as [Hm|(v & Hv' & ->)].
  - exact (mut1_pre_neq _ _ HW Hm Epre).
  - cbn in Esig. contradiction.
Qed.


(* ------------------------------------------------------------------ Merkle root: equal roots of equally long lists *)
Section Merkle.
Hypothesis Hlen : forall x, length (Hf x) = 32%nat.
Notation pair_up := (pair_up Hf).
Notation merkle_fuel := (merkle_fuel Hf).
Notation merkle_root := (merkle_root Hf).
Definition len32 (x : bytes) : Prop := length x = 32%nat.

Lemma bytes_eq_dec : forall x y : bytes, {x = y} + {x <> y}.
Proof. repeat decide equality. Defined.

Lemma hash_pair_inj a b a' b' : length a = length a' -> Hf (a ++ b) = Hf (a' ++ b') -> (a = a' /\ b = b') \/ Collision.
Proof using Type.
  intros L E. destruct (bytes_eq_dec (a ++ b) (a' ++ b')) as [Eq|Ne].
  - left. apply app_inj_len; assumption.
  - right. exists (a ++ b), (a' ++ b'). auto.
Qed.

Lemma pair_up_inj : forall n l l', (length l <= n)%nat -> length l = length l' ->
  Forall len32 l -> Forall len32 l' -> pair_up l = pair_up l' -> l = l' \/ Collision.
Proof using Type.
  clear Hlen registered sig_valid sign SR fl ser_tx.
  induction n as [|n IH]; intros l l' Hn HL F F' E.
  - destruct l; [|cbn in Hn; lia]. destruct l'; [left; reflexivity|discriminate].
  - destruct l as [|a [|b r]]; destruct l' as [|a' [|b' r']]; try discriminate.
    + left; reflexivity.
    + cbn in E. injection E as E. inversion F; inversion F'; subst.
      destruct (hash_pair_inj a a a' a' ltac:(congruence) E) as [[-> _]|C]; [left; reflexivity|right; exact C].
    + cbn [Model.pair_up] in E. injection E as E1 E2.
      inversion F as [|? ? Fa F1]; inversion F1 as [|? ? Fb Fr]; inversion F' as [|? ? Fa' F1']; inversion F1' as [|? ? Fb' Fr']; subst.
      destruct (hash_pair_inj a b a' b' ltac:(congruence) E1) as [[-> ->]|C]; [|right; exact C].
      cbn in Hn, HL.
      destruct (IH r r' ltac:(lia) ltac:(lia) Fr Fr' E2) as [->|C]; [left; reflexivity|right; exact C].
Qed.

Lemma pair_up_len32 : forall n l, (length l <= n)%nat -> Forall len32 (pair_up l).
Proof using Hlen.
  clear registered sig_valid sign SR fl ser_tx.
  induction n as [|n IH]; intros l Hn.
  - destruct l; [constructor|cbn in Hn; lia].
  - destruct l as [|a [|b r]]; cbn [Model.pair_up].
    + constructor.
    + constructor; [apply Hlen|constructor].
    + constructor; [apply Hlen|]. apply IH. cbn in Hn. lia.
Qed.

Lemma pair_up_length : forall n l, (length l <= n)%nat -> length (pair_up l) = Nat.div2 (S (length l)).
Proof using Type.
  clear Hlen registered sig_valid sign SR fl ser_tx.
  induction n as [|n IH]; intros l Hn.
  - destruct l; [reflexivity|cbn in Hn; lia].
  - destruct l as [|a [|b r]]; cbn [Model.pair_up length]; try reflexivity.
    rewrite IH by (cbn in Hn; lia). reflexivity.
Qed.

Lemma div2_le n : (2 <= n -> Nat.div2 (S n) <= n - 1)%nat.
Proof.
  intros H. pose proof (Nat.div2_odd (S n)) as Ho. destruct (Nat.odd (S n)); cbn [Nat.b2n] in Ho; lia.
Qed.

Lemma merkle_fuel_inj : forall n l l', length l = length l' -> (length l <= n)%nat ->
  Forall len32 l -> Forall len32 l' -> merkle_fuel n l = merkle_fuel n l' -> l = l' \/ Collision.
Proof using Hlen.
  clear registered sig_valid sign SR fl ser_tx.
  induction n as [|n IH]; intros l l' HL Hn F F' E.
  - destruct l; [|cbn in Hn; lia]. destruct l'; [left; reflexivity|discriminate].
  - destruct l as [|a [|b r]]; destruct l' as [|a' [|b' r']]; try discriminate.
    + left; reflexivity.
    + cbn in E. left. congruence.
    + assert (E' : merkle_fuel n (pair_up (a :: b :: r)) = merkle_fuel n (pair_up (a' :: b' :: r'))) by exact E.
      assert (HL2 : length (pair_up (a :: b :: r)) = length (pair_up (a' :: b' :: r'))).
      { rewrite !(pair_up_length (length (a :: b :: r))) by (rewrite <- ?HL; lia). rewrite HL. reflexivity. }
      assert (Hn2 : (length (pair_up (a :: b :: r)) <= n)%nat).
      { rewrite (pair_up_length (length (a :: b :: r))) by lia.
        pose proof (div2_le (length (a :: b :: r)) ltac:(cbn; lia)). cbn [length] in *. lia. }
      destruct (IH _ _ HL2 Hn2 (pair_up_len32 _ _ (le_n _)) (pair_up_len32 _ _ (le_n _)) E') as [Ep|C]; [|right; exact C].
      apply (pair_up_inj (length (a :: b :: r))); auto.
Qed.

Lemma merkle_root_inj l l' : length l = length l' -> Forall len32 l -> Forall len32 l' ->
  merkle_root l = merkle_root l' -> l = l' \/ Collision.
Proof using Hlen.
  clear registered sig_valid sign SR fl ser_tx.
  intros HL F F' E. unfold Model.merkle_root in E. rewrite <- HL in E.
  apply (merkle_fuel_inj (length l)); auto.
Qed.

Hypothesis ser_inj : forall a b, ser_tx a = ser_tx b -> a = b.
Notation tx_hash := (tx_hash Hf ser_tx).

Lemma leaves_inj : forall l l', map tx_hash l = map tx_hash l' -> l = l' \/ Collision.
Proof.
  induction l as [|t l IH]; intros [|t' l'] E; try discriminate.
  - left; reflexivity.
  - cbn in E. injection E as E1 E2.
    destruct (bytes_eq_dec (ser_tx t) (ser_tx t')) as [Es|Ns].
    + apply ser_inj in Es. subst. destruct (IH l' E2) as [->|C]; [left; reflexivity|right; exact C].
    + right. exists (ser_tx t), (ser_tx t'). auto.
Qed.

Lemma compute_tx_root_inj l l' : length l = length l' ->
  compute_tx_root l = compute_tx_root l' -> l = l' \/ Collision.
Proof.
  intros HL E. destruct l as [|t l]; destruct l' as [|t' l']; try discriminate.
  - left; reflexivity.
  - unfold Model.compute_tx_root in E.
    assert (F : forall x, Forall len32 (map tx_hash x)).
    { intros x. apply Forall_forall. intros y Hy. apply in_map_iff in Hy. destruct Hy as (z & <- & _). apply Hlen. }
    destruct (merkle_root_inj (map tx_hash (t :: l)) (map tx_hash (t' :: l'))) as [Em|C]; auto.
    + rewrite !map_length. exact HL.
    + apply leaves_inj. exact Em.
Qed.

(* the transaction list of stored block i replaced by a different list of the same length
   (one transaction altered, transactions reordered) *)
Theorem tx_list_mutation bm n i b l' :
  Linked bm n -> 1 <= i <= n -> aget bm i = Some b ->
  l' <> b_txs b -> length l' = length (b_txs b) ->
  verify_chain (aset bm i (with_txs l' b)) n = 0 -> Collision.
Proof.
  intros HL Hi Eb Hne HLn Hv.
  apply verify_chain_iff in Hv; [|lia].
  destruct Hv as (_ & _ & _ & Hall').
  destruct (Hall' i Hi) as (b1 & p1 & E1 & _ & E3).
  rewrite aget_aset_eq in E1. injection E1 as <-.
  apply check1_ok in E3. destruct E3 as [F1 _]. apply block_follows_ok in F1. destruct F1 as (_ & _ & Ftr & _).
  destruct HL as (_ & _ & _ & Hall). destruct (Hall i Hi) as (b2 & p2 & G1 & _ & G3).
  rewrite Eb in G1. injection G1 as <-.
  apply check1_ok in G3. destruct G3 as [G3 _]. apply block_follows_ok in G3. destruct G3 as (_ & _ & Gtr & _).
  unfold Model.tx_root_ok in Ftr, Gtr. cbn [with_txs b_hdr b_txs] in Ftr.
  apply bytes_eqb_spec in Ftr, Gtr.
  destruct (compute_tx_root_inj l' (b_txs b) HLn ltac:(congruence)) as [E|C]; [contradiction|exact C].
Qed.
End Merkle.

(* the Merkle construction itself is malleable: a duplicated tail keeps the root, for EVERY hash *)
Lemma merkle_duplicate_tail a b c :
  Model.merkle_root Hf [a; b; c; c] = Model.merkle_root Hf [a; b; c].
Proof. reflexivity. Qed.
Lemma merkle_duplicate_tail6 a b c d e f :
  Model.merkle_root Hf [a; b; c; d; e; f; e; f] = Model.merkle_root Hf [a; b; c; d; e; f].
Proof. reflexivity. Qed.

(* ------------------------------------------------------------------ genesis, removal, reorder, unauthenticated fields *)
(* the genesis record is held only by block 1's predecessor hash *)
Theorem genesis_mutation bm n g g' :
  Linked bm n -> 1 <= n -> aget bm 0 = Some g ->
  pre (b_hdr g') <> pre (b_hdr g) ->
  verify_chain (aset bm 0 g') n = 0 -> Collision.
Proof.
  intros HL Hn Eg Hne Hv.
  apply verify_chain_iff in Hv; [|lia].
  destruct Hv as (_ & _ & _ & Hall').
  destruct (Hall' 1 ltac:(lia)) as (b1 & p1 & E1 & E2 & E3).
  rewrite aget_aset_ne in E1 by lia. change (1 - 1) with 0 in E2. rewrite aget_aset_eq in E2. injection E2 as <-.
  destruct HL as (_ & _ & _ & Hall). destruct (Hall 1 ltac:(lia)) as (b2 & p2 & G1 & G2 & G3).
  change (1 - 1) with 0 in G2. rewrite Eg in G2. injection G2 as <-. rewrite E1 in G1. injection G1 as <-.
  apply check1_ok in E3, G3. destruct E3 as [E3 _]. destruct G3 as [G3 _].
  apply block_follows_ok in E3, G3. destruct E3 as (_ & Ep & _). destruct G3 as (_ & Gp & _).
  exists (pre (b_hdr g')), (pre (b_hdr g)). split; [exact Hne|]. unfold Model.hhash in *. congruence.
Qed.

Theorem removed_block_detected bm n i : 1 <= n -> i <= n -> verify_chain (adel bm i) n <> 0.
Proof.
  intros Hn Hi Hv. apply verify_chain_iff in Hv; [|lia].
  destruct Hv as (g & Eg & _ & Hall).
  destruct (N.eq_dec i 0) as [->|Hne].
  - rewrite aget_adel, N.eqb_refl in Eg. discriminate.
  - destruct (Hall i ltac:(lia)) as (b & _ & E & _). rewrite aget_adel, N.eqb_refl in E. discriminate.
Qed.

Theorem swapped_blocks_detected bm n i j bi bj :
  HeightsOK bm n -> i < j <= n -> aget bm i = Some bi -> aget bm j = Some bj ->
  verify_chain (aset (aset bm i bj) j bi) n <> 0.
Proof.
  intros HH Hij Ei Ej Hv. apply verify_chain_iff in Hv; [|lia].
  destruct Hv as (_ & _ & _ & Hall).
  destruct (Hall j ltac:(lia)) as (b & p & E1 & E2 & E3).
  rewrite aget_aset_eq in E1. injection E1 as <-.
  apply check1_ok in E3. destruct E3 as [E3 _]. apply block_follows_ok in E3. destruct E3 as (Eh & _).
  rewrite (HH i bi ltac:(lia) Ei) in Eh.
  rewrite aget_aset_ne in E2 by lia.
  destruct (N.eq_dec (j - 1) i) as [Eji|Nji].
  - rewrite Eji, aget_aset_eq in E2. injection E2 as <-. rewrite (HH j bj ltac:(lia) Ej) in Eh. lia.
  - rewrite aget_aset_ne in E2 by lia. rewrite (HH (j - 1) p ltac:(lia) E2) in Eh. lia.
Qed.

(* verify_chain never looks at Block.signatures *)
Lemma check1_sigs b p l l' : check1 (with_sigs l b) (with_sigs l' p) = check1 b p.
Proof. reflexivity. Qed.

Definition same_auth (b b' : block) : Prop := b_hdr b = b_hdr b' /\ b_txs b = b_txs b'.
Lemma check1_same_auth b b' p p' : same_auth b b' -> same_auth p p' -> check1 b p = check1 b' p'.
Proof.
  intros [H1 H2] [H3 H4]. unfold check1, Model.block_follows, Model.tx_root_ok. rewrite H1, H2, H3. reflexivity.
Qed.

Lemma verify_from_same_auth bm bm' :
  (forall k, match aget bm k, aget bm' k with
             | Some b, Some b' => same_auth b b' | None, None => True | _, _ => False end) ->
  forall n prev prev' h, same_auth prev prev' -> verify_from bm prev h n = verify_from bm' prev' h n.
Proof.
  intros Hrel. induction n as [|n IH]; intros prev prev' h Hp; [reflexivity|].
  rewrite !verify_from_S. specialize (Hrel h) as Hh.
  destruct (aget bm h) as [b|]; destruct (aget bm' h) as [b'|]; try contradiction; [|reflexivity].
  rewrite (check1_same_auth b b' prev prev' Hh Hp). destruct (negb (N.eqb (check1 b' prev') 0)); [reflexivity|].
  apply IH. exact Hh.
Qed.

Theorem block_signatures_unauthenticated bm n i b l :
  aget bm i = Some b -> verify_chain (aset bm i (with_sigs l b)) n = verify_chain bm n.
Proof.
  intros Eb. unfold Model.verify_chain. destruct (N.eqb n 0); [reflexivity|].
  assert (Hrel : forall k, match aget (aset bm i (with_sigs l b)) k, aget bm k with
             | Some x, Some x' => same_auth x x' | None, None => True | _, _ => False end).
  { intros k. rewrite aget_aset. destruct (N.eqb_spec i k) as [<-|Hne].
    - rewrite Eb. split; reflexivity.
    - destruct (aget bm k); [split; reflexivity|exact I]. }
  specialize (Hrel 0) as H0.
  destruct (aget (aset bm i (with_sigs l b)) 0) as [g'|]; destruct (aget bm 0) as [g|]; try contradiction; [|reflexivity].
  assert (Etr : tx_root_ok g' = tx_root_ok g).
  { destruct H0 as [H1 H2]. unfold Model.tx_root_ok. rewrite H1, H2. reflexivity. }
  rewrite Etr. destruct (f_genesis_txroot fl && negb (tx_root_ok g)); [reflexivity|].
  apply verify_from_same_auth; assumption.
Qed.


(* ------------------------------------------------------------------ commit: all or nothing *)
Notation commit_core := (commit_core Hf ser_tx registered sig_valid sign SR fl).
Notation commit := (commit Hf ser_tx registered sig_valid sign SR fl).

Lemma append_inl_nonzero bm m b0 e : append bm m b0 = inl e -> e <> 0.
Proof.
  unfold Model.append, E_HEIGHT, E_HASH, E_TS, E_TXROOT, E_UNSIGNED.
  repeat match goal with
         | |- context [if ?c then _ else _] => destruct c eqn:?
         end; intros E; try discriminate; injection E as <-; try discriminate.
  all: match goal with H : negb (N.eqb ?x 0) = true |- _ => destruct (N.eqb_spec x 0); [discriminate|assumption] end.
Qed.

Theorem commit_core_atomic me emb sto m ops ts sto' m' e :
  commit_core me emb sto m ops ts = (sto', m', e) ->
  (e = 0 /\ s_data sto' = apply_txs (s_data sto) ops /\ m_height m' = m_height m + 1 /\
   s_meta sto' = Some (m_height m + 1) /\
   exists blk, s_blocks sto' = aset (s_blocks sto) (m_height m + 1) blk /\ b_txs blk = ops)
  \/ (e <> 0 /\ sto' = sto /\ m' = m).
Proof.
  unfold Model.commit_core.
  destruct (append (s_blocks sto) m _) as [e0|[bm' m'']] eqn:Ea; intros E; injection E as <- <- <-.
  - right. split; [eapply append_inl_nonzero; exact Ea|auto].
  - left. destruct (append_inr _ _ _ _ _ Ea) as (b & -> & -> & _ & _ & _ & Btx & _).
    cbn. repeat split; auto. exists b. split; [reflexivity|exact Btx].
Qed.

(* a workspace either becomes one new block with all its writes applied, or chain and store are untouched *)
Theorem commit_all_or_nothing me emb maxtx s w ts s' e :
  commit me emb maxtx s w ts = (s', e) ->
  (e = 0 /\ exists x, aget (t_ws s) w = Some x /\
     ((w_ops x = [] /\ t_store s' = t_store s /\ t_mem s' = t_mem s) \/
      (w_ops x <> [] /\ s_data (t_store s') = apply_txs (s_data (t_store s)) (w_ops x) /\
       m_height (t_mem s') = m_height (t_mem s) + 1 /\
       exists blk, s_blocks (t_store s') = aset (s_blocks (t_store s)) (m_height (t_mem s) + 1) blk /\ b_txs blk = w_ops x)))
  \/ (e <> 0 /\ t_store s' = t_store s /\ t_mem s' = t_mem s).
Proof.
  unfold Model.commit. destruct (aget (t_ws s) w) as [x|] eqn:Ex.
  2:{ intros E; injection E as <- <-. right. repeat split; discriminate. }
  destruct (N.eqb (w_state x) 0); cbn [negb].
  2:{ intros E; injection E as <- <-. right. repeat split; discriminate. }
  destruct (w_ops x) as [|o ops] eqn:Eops; cbn [is_nil].
  { intros E; injection E as <- <-. left. split; [reflexivity|]. exists x. split; [reflexivity|]. left. rewrite Eops. auto. }
  destruct (N.ltb maxtx (N.of_nat (length (o :: ops)))).
  { intros E; injection E as <- <-. right. repeat split; discriminate. }
  destruct (commit_core me emb (t_store s) (t_mem s) (o :: ops) ts) as [[sto' m'] e0] eqn:Ec.
  intros E; injection E as <- <-. cbn [t_store t_mem].
  destruct (commit_core_atomic _ _ _ _ _ _ _ _ _ Ec) as [(-> & Hd & Hh & _ & Hb)|(Hne & -> & ->)].
  - left. split; [reflexivity|]. exists x. split; [reflexivity|]. right. rewrite Eops. split; [discriminate|auto].
  - right. auto.
Qed.

Notation rollback := Model.rollback.
(* rollback leaves chain and store untouched WHEN nothing was committed since the workspace began *)
Theorem rollback_untouched s w s' x :
  aget (t_ws s) w = Some x -> w_chk x = t_store s -> rollback s w = (s', 0) ->
  t_store s' = t_store s /\ t_mem s' = t_mem s.
Proof.
  intros Ex Hc. unfold Model.rollback. rewrite Ex. destruct (N.eqb (w_state x) 2); intros E; injection E as <-; cbn; auto.
Qed.


(* ------------------------------------------------------------------ concurrent commits, serialised variant *)
Section Serialised.
Variable me emb : bytes.
Hypothesis Hlocked : f_commit_locked fl = true.
Hypothesis Hreg : registered me = true.
Hypothesis Hsigok : forall m, sig_valid me m (sign me m) = true.
Hypothesis Hsigne : forall m, sign me m <> [].
Notation cstep := (cstep Hf ser_tx registered sig_valid sign SR fl me emb).
Notation crun := (crun Hf ser_tx registered sig_valid sign SR fl me emb).
Notation build_signed := (build_signed Hf ser_tx sign).

Lemma set_txroot_same h : set_txroot (h_txroot h) h = h.
Proof. destruct h; reflexivity. Qed.

Lemma built_block_sig m ops root ts : verify_sig (b_hdr (build_signed m me ops root emb [] ts)) = 0.
Proof.
  apply verify_sig_ok. cbn. repeat split; first [apply Hsigne | exact Hreg | apply Hsigok].
Qed.

Definition tip_ts_le (bm : blockmap) (m : cmem) (lo : N) : Prop :=
  forall t, aget bm (m_height m) = Some t -> h_ts (b_hdr t) <= lo.

Lemma commit_core_inv sto m ops now sto' m' e :
  Inv (s_blocks sto) m -> tip_ts_le (s_blocks sto) m now ->
  commit_core me emb sto m ops now = (sto', m', e) ->
  (e = 0 /\ Inv (s_blocks sto') m' /\ m_height m' = m_height m + 1 /\ tip_ts_le (s_blocks sto') m' now /\
   exists blk, s_blocks sto' = aset (s_blocks sto) (m_height m + 1) blk /\ b_txs blk = ops)
  \/ (e <> 0 /\ sto' = sto /\ m' = m).
Proof.
  intros HI Hts. unfold Model.commit_core.
  set (blk := build_signed m me ops _ emb [] now).
  destruct (append (s_blocks sto) m blk) as [e0|[bm' m'']] eqn:Ea; intros E; injection E as <- <- <-.
  - right. split; [eapply append_inl_nonzero; exact Ea|auto].
  - left. split; [reflexivity|].
    destruct (append_inr _ _ _ _ _ Ea) as (b & Ebm & Em & _ & _ & _ & Btx & _ & Bts & _ & _ & Bshape).
    assert (Hhdr : b_hdr b = b_hdr blk).
    { destruct Bshape as [H|H]; [exact H|]. rewrite H. subst blk. cbn [Model.build_signed b_txs b_hdr].
      unfold set_sig at 1. cbn. reflexivity. }
    cbn [s_blocks]. split; [|split; [|split]].
    + eapply append_preserves; [exact HI|exact Ea| |].
      * right. intros t Et. subst blk. cbn. apply Hts. exact Et.
      * right. right. intros b1 E1. subst bm'. rewrite aget_aset_eq in E1. injection E1 as <-.
        rewrite Hhdr. apply built_block_sig.
    + subst m''. reflexivity.
    + intros t Et. subst m'' bm'. cbn [m_height] in Et. rewrite aget_aset_eq in Et. injection Et as <-.
      rewrite Bts. subst blk. cbn. lia.
    + exists b. subst bm'. split; [reflexivity|]. rewrite Btx. reflexivity.
Qed.

Definition fin_succ (s : cst) (i : N) : Prop :=
  exists t, aget (c_thr s) i = Some t /\ th_pc t = 3 /\ th_res t = 0.

(* commit log: thread ids in the order their blocks were appended *)
Definition CI (h0 : N) (s : cst) : Prop :=
  Inv (s_blocks (c_store s)) (c_mem s) /\
  exists log, NoDup log /\ m_height (c_mem s) = h0 + N.of_nat (length log) /\
    (forall j i, nth_error log j = Some i ->
       exists t b, aget (c_thr s) i = Some t /\ aget (s_blocks (c_store s)) (h0 + 1 + N.of_nat j) = Some b /\ b_txs b = th_ops t) /\
    (forall i, In i log <-> fin_succ s i).

Fixpoint clock_mono (lo : N) (sched : list (N * N)) : Prop :=
  match sched with [] => True | (_, now) :: r => lo <= now /\ clock_mono now r end.

Lemma cstep_CI h0 s i now :
  CI h0 s -> tip_ts_le (s_blocks (c_store s)) (c_mem s) now ->
  CI h0 (cstep s (i, now)) /\ tip_ts_le (s_blocks (c_store (cstep s (i, now)))) (c_mem (cstep s (i, now))) now.
Proof.
  intros (HI & log & Hnd & Hh & Hblk & Hfin) Hts. unfold Model.cstep. rewrite Hlocked.
  destruct (aget (c_thr s) i) as [t|] eqn:Et.
  2:{ split; [|exact Hts]. split; [exact HI|]. exists log. auto. }
  destruct (N.eqb_spec (th_pc t) 3) as [Epc|Epc].
  { split; [|exact Hts]. split; [exact HI|]. exists log. auto. }
  destruct (commit_core me emb (c_store s) (c_mem s) (th_ops t) now) as [[sto' m'] e] eqn:Ec.
  cbn [c_store c_mem c_thr].
  assert (Hother : forall k, k <> i ->
            aget (aset (c_thr s) i (Th (th_ops t) 3 (th_snap t) None e)) k = aget (c_thr s) k).
  { intros k Hk. apply aget_aset_ne. congruence. }
  assert (Hnotin : ~ In i log).
  { intros Hin. apply Hfin in Hin. destruct Hin as (t' & Et' & Epc' & _). rewrite Et in Et'. injection Et' as <-. contradiction. }
  destruct (commit_core_inv _ _ _ _ _ _ _ HI Hts Ec) as [(-> & HI' & Hh' & Hts' & blk & Ebm & Etx)|(Hne & -> & ->)].
  - split; [|exact Hts']. split; [exact HI'|]. exists (log ++ [i]). repeat split; cbn [c_store c_mem c_thr].
    + apply NoDup_app_snoc; assumption.
    + rewrite Hh', Hh, app_length. cbn. lia.
    + intros j k Hj. destruct (Nat.lt_ge_cases j (length log)) as [Hlt|Hge].
      * rewrite nth_error_app1 in Hj by exact Hlt.
        destruct (Hblk j k Hj) as (tk & bk & Ek & Ebk & Etxk).
        assert (k <> i) by (intros ->; apply Hnotin; eapply nth_error_In; exact Hj).
        exists tk, bk. rewrite Hother by assumption. split; [exact Ek|]. split; [|exact Etxk].
        rewrite Ebm. rewrite aget_aset_ne; [exact Ebk|]. rewrite Hh. apply nth_error_Some_lt in Hj. lia.
      * rewrite nth_error_app2 in Hj by exact Hge.
        destruct (j - length log)%nat as [|x] eqn:Ej; [|destruct x; discriminate].
        cbn in Hj. injection Hj as <-.
        exists (Th (th_ops t) 3 (th_snap t) None 0), blk. rewrite aget_aset_eq. split; [reflexivity|].
        split; [|exact Etx]. rewrite Ebm. replace (h0 + 1 + N.of_nat j) with (m_height (c_mem s) + 1) by lia.
        apply aget_aset_eq.
    + intros Hin. apply in_app_or in Hin. destruct Hin as [Hin|[<-|[]]].
      * assert (i0 <> i) by (intros ->; contradiction).
        apply Hfin in Hin. destruct Hin as (t' & Et' & P1 & P2). exists t'. cbn [c_thr]. rewrite Hother by assumption. auto.
      * exists (Th (th_ops t) 3 (th_snap t) None 0). cbn [c_thr]. rewrite aget_aset_eq. auto.
    + intros (t' & Et' & P1 & P2). cbn [c_thr] in Et'. apply in_or_app.
      destruct (N.eq_dec i0 i) as [->|Hne]; [right; left; reflexivity|].
      left. apply Hfin. exists t'. rewrite Hother in Et' by assumption. auto.
  - split; [|exact Hts]. split; [exact HI|]. exists log. repeat split; auto.
    + intros j k Hj. destruct (Hblk j k Hj) as (tk & bk & Ek & Ebk & Etxk).
      assert (k <> i) by (intros ->; apply Hnotin; eapply nth_error_In; exact Hj).
      exists tk, bk. cbn [c_thr]. rewrite Hother by assumption. auto.
    + intros Hin. assert (i0 <> i) by (intros ->; contradiction).
      apply Hfin in Hin. destruct Hin as (t' & Et' & P1 & P2). exists t'. cbn [c_thr]. rewrite Hother by assumption. auto.
    + intros (t' & Et' & P1 & P2). cbn [c_thr] in Et'.
      destruct (N.eq_dec i0 i) as [->|Hne'].
      * rewrite aget_aset_eq in Et'. injection Et' as <-. cbn in P2. contradiction.
      * apply Hfin. exists t'. rewrite Hother in Et' by assumption. auto.
Qed.

Lemma tip_ts_le_mono bm m a b : tip_ts_le bm m a -> a <= b -> tip_ts_le bm m b.
Proof. intros H L t Et. specialize (H t Et). lia. Qed.

(* for EVERY schedule of the serialised commits (clock non-decreasing): the chain verifies and the blocks
   above the initial height are exactly the successfully committed workspaces, each once, in commit order *)
Theorem serialised_commits h0 : forall sched s lo,
  CI h0 s -> tip_ts_le (s_blocks (c_store s)) (c_mem s) lo -> clock_mono lo sched ->
  CI h0 (crun s sched).
Proof.
  induction sched as [|[i now] r IH]; intros s lo HC Hts Hm; [exact HC|].
  cbn [clock_mono] in Hm. destruct Hm as [Hlo Hm].
  unfold Model.crun. cbn [fold_left].
  destruct (cstep_CI h0 s i now HC (tip_ts_le_mono _ _ _ _ Hts Hlo)) as [HC' Hts'].
  apply (IH _ now); assumption.
Qed.

Corollary serialised_commits_verify h0 sched s lo :
  CI h0 s -> tip_ts_le (s_blocks (c_store s)) (c_mem s) lo -> clock_mono lo sched ->
  cverify Hf ser_tx registered sig_valid fl (crun s sched) = 0.
Proof. intros HC Hts Hm. apply Inv_verify. apply (serialised_commits h0 sched s lo HC Hts Hm). Qed.

End Serialised.


(* statements with the honest chain given by "verify_chain = Ok" instead of Linked *)
Theorem forged_block_v bm n i b b' :
  verify_chain bm n = 0 -> HeightsOK bm n -> n < U64 -> 1 <= i <= n -> aget bm i = Some b ->
  verify_chain (aset bm i b') n = 0 ->
  Forgery (siglog bm n) \/
  (pre (b_hdr b') = pre (b_hdr b) /\ h_sig (b_hdr b') = h_sig (b_hdr b) /\
   h_proposer (b_hdr b') = h_proposer (b_hdr b) /\ tx_root_ok b' = true).
Proof. intros Hv. intros. eapply forged_block; eauto. apply verify_chain_iff; [lia|exact Hv]. Qed.

Theorem single_field_mutation_v bm n i b h' :
  verify_chain bm n = 0 -> HeightsOK bm n -> n < U64 -> 1 <= i <= n -> aget bm i = Some b ->
  WellSized (b_hdr b) ->
  (mut1 (b_hdr b) h' \/ exists v, v <> h_sig (b_hdr b) /\ h' = set_sig v (b_hdr b)) ->
  verify_chain (aset bm i (Bk h' (b_txs b) (b_sigs b))) n = 0 ->
  Forgery (siglog bm n).
Proof. intros Hv. intros. eapply single_field_mutation; eauto. apply verify_chain_iff; [lia|exact Hv]. Qed.

Theorem tx_list_mutation_v bm n i b l' :
  (forall x, length (Hf x) = 32%nat) -> (forall a b, ser_tx a = ser_tx b -> a = b) ->
  verify_chain bm n = 0 -> 1 <= i <= n -> aget bm i = Some b ->
  l' <> b_txs b -> length l' = length (b_txs b) ->
  verify_chain (aset bm i (with_txs l' b)) n = 0 -> Collision.
Proof. intros H1 H2 Hv. intros. eapply tx_list_mutation; eauto. apply verify_chain_iff; [lia|exact Hv]. Qed.

Theorem genesis_mutation_v bm n g g' :
  verify_chain bm n = 0 -> 1 <= n -> aget bm 0 = Some g ->
  pre (b_hdr g') <> pre (b_hdr g) ->
  verify_chain (aset bm 0 g') n = 0 -> Collision.
Proof. intros Hv. intros. eapply genesis_mutation; eauto. apply verify_chain_iff; [lia|exact Hv]. Qed.

Lemma built_heights bm m : built bm m -> HeightsOK bm (m_height m).
Proof. intros Hb. destruct (built_Inv _ _ Hb) as (_ & _ & H). exact H. Qed.

End Proofs.

(* ------------------------------------------------------------------ concrete witnesses (ideal symbolic hash / signature) *)
Module Wit.
Definition Hc (x : bytes) : bytes := 1000 :: x.
Definition serc (t : tx) : bytes := match t with TPut k v => 0 :: k :: N.of_nat (length v) :: v | TDel k => [1; k] | TOther x a b => [2; x; a; b] end.
Definition signc (p m : bytes) : bytes := 2000 :: p ++ 2001 :: m.
Definition sigvc (p m s : bytes) : bool := bytes_eqb s (signc p m).
Definition regc (p : bytes) : bool := bytes_eqb p [1].
Definition SRc (_ : store) : bytes := [3000].
Definition me : bytes := [1].
(* the flags of the present source: no timestamp rule in append, signature demanded above height 1,
   genesis tx_root checked, commit locked *)
Definition fl_now : flags := Fl false false true 1 true.
Definition fl_racy : flags := Fl false false true 1 false.

Definition s0 : st := init Hc me [] 100.
Definition commit1 (s : st) (w : N) (ts : N) := commit Hc serc regc sigvc signc SRc fl_now me [] 8 s w ts.
Definition put1 (s : st) (w k : N) (v : bytes) := fst (add_op s w (TPut k v)).
Definition verify1 (s : st) := verify Hc serc regc sigvc fl_now s.

(* a 3-block chain built by commits: used as the non-trivial instance of the hypotheses *)
Definition s3 : st :=
  let s := begin_ws s0 0 in let s := put1 s 0 1 [7] in let s := fst (commit1 s 0 101) in
  let s := begin_ws s 1 in let s := put1 (put1 (put1 s 1 2 [8]) 1 3 [9]) 1 4 [10] in let s := fst (commit1 s 1 102) in
  let s := begin_ws s 2 in let s := put1 s 2 1 [11] in fst (commit1 s 2 103).
Definition bm3 : blockmap := s_blocks (t_store s3).

Lemma s3_verifies : verify1 s3 = 0 /\ m_height (t_mem s3) = 3.
Proof. vm_compute. split; reflexivity. Qed.

Lemma s3_heights : HeightsOK bm3 3.
Proof.
  intros k b Hk. assert (k = 0 \/ k = 1 \/ k = 2 \/ k = 3) as [-> | [-> | [-> | ->]]] by lia;
    vm_compute; intros E; injection E as <-; reflexivity.
Qed.

(* F-C16-rollback *)
Lemma rollback_stale_checkpoint_refuted :
  exists s w, verify1 s = 0 /\ snd (rollback s w) = 0 /\ verify1 (fst (rollback s w)) <> 0.
Proof.
  exists (let s := begin_ws s0 0 in let s := begin_ws s 1 in let s := put1 s 1 1 [7] in fst (commit1 s 1 101)), 0.
  vm_compute. repeat split; discriminate.
Qed.

(* unsigned first block accepted by append, refused by verify *)
Lemma first_block_unsigned_refuted :
  exists b s', append_raw Hc serc regc sigvc fl_now s0 b = (s', 0) /\ verify1 s' <> 0.
Proof.
  eexists (Bk (Hd 1 (m_tip (t_mem s0)) zeros32 [] [] [] 100 me []) [] []), _.
  vm_compute. split; [reflexivity|discriminate].
Qed.

(* timestamp regression accepted by append, refused by verify *)
Lemma append_timestamp_regression_refuted :
  exists s b s', verify1 s = 0 /\ append_raw Hc serc regc sigvc fl_now s b = (s', 0) /\ verify1 s' <> 0.
Proof.
  pose (s := fst (commit1 (put1 (begin_ws s0 0) 0 1 [7]) 0 101)).
  pose (h := Hd 2 (m_tip (t_mem s)) zeros32 [] [] [] 50 me []).
  exists s, (Bk (set_sig (signc me (pre h)) h) [] []). eexists.
  vm_compute. split; [reflexivity|split; [reflexivity|discriminate]].
Qed.

(* the header signature of the genesis record and everything on a genesis-only chain is unauthenticated *)
Lemma genesis_unlinked_refuted :
  (exists g, aget bm3 0 = Some g /\
     verify_chain Hc serc regc sigvc fl_now (aset bm3 0 (with_hdr (set_sig [1]) g)) 3 = 0) /\
  (forall bm, verify_chain Hc serc regc sigvc fl_now bm 0 = 0).
Proof. split; [eexists; split; [reflexivity|vm_compute; reflexivity]|reflexivity]. Qed.

(* Merkle duplicate tail at chain level: block 2 holds 3 transactions; a 4th (copy of the last) is undetected *)
Lemma merkle_duplicate_tail_refuted :
  exists b, aget bm3 2 = Some b /\
    verify_chain Hc serc regc sigvc fl_now (aset bm3 2 (with_txs (b_txs b ++ [TPut 4 [10]]) b)) 3 = 0.
Proof. eexists; split; [reflexivity|vm_compute; reflexivity]. Qed.

(* F-C16-race: without the commit lock two commits interleave so that the loser's restore erases the
   winner's stored block *)
Definition c0 : cst :=
  CS (t_store s0) (t_mem s0)
     [(1, Th [TPut 0 [0]] 0 (t_store s0) None 0); (2, Th [TPut 1 [1]] 0 (t_store s0) None 0)].
Lemma racy_commits_refuted :
  exists sched, clock_mono 100 sched /\
    cverify Hc serc regc sigvc fl_racy (crun Hc serc regc sigvc signc SRc fl_racy me [] c0 sched) <> 0.
Proof.
  exists [(1, 101); (2, 101); (1, 102); (2, 102); (1, 103); (2, 103)].
  split; [cbn; lia|vm_compute; discriminate].
Qed.
(* ... and the same schedule is harmless with the lock *)
Lemma locked_same_schedule :
  cverify Hc serc regc sigvc fl_now
    (crun Hc serc regc sigvc signc SRc fl_now me [] c0 [(1, 101); (2, 101); (1, 102); (2, 102); (1, 103); (2, 103)]) = 0.
Proof. vm_compute. reflexivity. Qed.

(* a 32-byte "hash" exists: the length hypothesis of the Merkle theorem is satisfiable *)
Definition H32 (x : bytes) : bytes := firstn 32 (x ++ repeat 0 32).
Lemma H32_len x : length (H32 x) = 32%nat.
Proof. unfold H32. rewrite firstn_length, app_length, repeat_length. lia. Qed.
Lemma serc_inj a b : serc a = serc b -> a = b.
Proof.
  destruct a as [k v|k|x a1 a2], b as [k' v'|k'|x' b1 b2]; cbn; intros E; try discriminate; injection E; intros; subst; reflexivity.
Qed.
End Wit.

(* replay is a function of (store image, memory, block list): two replicas agree on everything *)
Lemma replay_deterministic : forall Hf ser_tx registered sig_valid SR fl sto1 m1 sto2 m2 bs1 bs2,
  sto1 = sto2 -> m1 = m2 -> bs1 = bs2 ->
  replay Hf ser_tx registered sig_valid SR fl sto1 m1 bs1 = replay Hf ser_tx registered sig_valid SR fl sto2 m2 bs2.
Proof. intros; subst; reflexivity. Qed.
