(* C16/Props.v -- pinned property theorems; nothing but statements closed by `exact`.
   External functions (SHA-256 `Hf`, bitcode `ser_tx`, the validator registry + Ed25519 `registered` /
   `sig_valid` / `sign`, the state-root function `SR`) are universally quantified; every cryptographic
   premise is a visible hypothesis and every conclusion about tampering is in collision-or form:
     Collision Hf          = exists x y, x <> y /\ Hf x = Hf y
     Forgery reg sv log    = exists p m s, reg p = true /\ sv p m s = true /\ ~ In (p, m, s) log
   where `siglog` lists every (signer, message, signature) the chain's own blocks carry. *)
From NV.Common Require Import Base.
From NV.C16 Require Import Model Proofs Inst.
From NV.gen Require Import Gen_C16.
Open Scope N_scope.

(* 1. every chain built through append verifies.  `built` = a genesis record followed by successful
   Chain::append calls; the two side conditions of an append step are discharged by the flags when the
   source contains the corresponding check and are otherwise explicit (known findings
   append-timestamp-regression and first-block-unsigned: see the _refuted witnesses below). *)
Theorem C16_append_built_chain_verifies : forall Hf ser_tx registered sig_valid fl bm m,
  built Hf ser_tx registered sig_valid fl bm m ->
  verify_chain Hf ser_tx registered sig_valid fl bm (m_height m) = 0.
Proof. exact append_verifies. Qed.
Example C16_built_nonvacuous : Wit.verify1 Wit.s3 = 0 /\ m_height (t_mem Wit.s3) = 3.
Proof. exact Wit.s3_verifies. Qed.

Theorem C16_first_block_unsigned_refuted :
  exists b s', append_raw Wit.Hc Wit.serc Wit.regc Wit.sigvc Wit.fl_now Wit.s0 b = (s', 0) /\ Wit.verify1 s' <> 0.
Proof. exact Wit.first_block_unsigned_refuted. Qed.
Theorem C16_append_timestamp_regression_refuted :
  exists s b s', Wit.verify1 s = 0 /\ append_raw Wit.Hc Wit.serc Wit.regc Wit.sigvc Wit.fl_now s b = (s', 0) /\ Wit.verify1 s' <> 0.
Proof. exact Wit.append_timestamp_regression_refuted. Qed.

(* 2. forgery: ANY record written over stored block i (1 <= i <= n) that still verifies needs a signature
   the validators never produced, or carries the same pre-image, signature and proposer *)
Theorem C16_forged_block : forall Hf ser_tx registered sig_valid fl bm n i b b',
  verify_chain Hf ser_tx registered sig_valid fl bm n = 0 -> HeightsOK bm n -> n < U64 -> 1 <= i <= n ->
  aget bm i = Some b ->
  verify_chain Hf ser_tx registered sig_valid fl (aset bm i b') n = 0 ->
  Forgery registered sig_valid (siglog bm n) \/
  (pre (b_hdr b') = pre (b_hdr b) /\ h_sig (b_hdr b') = h_sig (b_hdr b) /\
   h_proposer (b_hdr b') = h_proposer (b_hdr b) /\ tx_root_ok Hf ser_tx b' = true).
Proof. exact forged_block_v. Qed.

(* 3. single-field mutation of any hashed header field (height, prev_hash, tx_root, state_root,
   delta_embedding, quantized_codes, timestamp, proposer -- `mut1`, on the concrete byte concatenation)
   or of header.signature *)
Theorem C16_single_field_mutation : forall Hf ser_tx registered sig_valid fl bm n i b h',
  verify_chain Hf ser_tx registered sig_valid fl bm n = 0 -> HeightsOK bm n -> n < U64 -> 1 <= i <= n ->
  aget bm i = Some b -> WellSized (b_hdr b) ->
  (mut1 (b_hdr b) h' \/ exists v, v <> h_sig (b_hdr b) /\ h' = set_sig v (b_hdr b)) ->
  verify_chain Hf ser_tx registered sig_valid fl (aset bm i (Bk h' (b_txs b) (b_sigs b))) n = 0 ->
  Forgery registered sig_valid (siglog bm n).
Proof. exact single_field_mutation_v. Qed.
Example C16_tamper_hypotheses_nonvacuous :
  verify_chain Wit.Hc Wit.serc Wit.regc Wit.sigvc Wit.fl_now Wit.bm3 3 = 0 /\ HeightsOK Wit.bm3 3.
Proof. split; [exact (proj1 Wit.s3_verifies)|exact Wit.s3_heights]. Qed.

Theorem C16_single_field_preimage_injective : forall h h', WellSized h -> mut1 h h' -> pre h' <> pre h.
Proof. exact mut1_pre_neq. Qed.
Theorem C16_multi_field_preimage_collision : exists h h', h <> h' /\ pre h = pre h'.
Proof. exact multi_field_preimage_collision. Qed.

(* 4. the transaction list replaced by a different list of the same length (altered or reordered) *)
Theorem C16_tx_list_mutation : forall Hf ser_tx registered sig_valid fl bm n i b l',
  (forall x, length (Hf x) = 32%nat) -> (forall a b, ser_tx a = ser_tx b -> a = b) ->
  verify_chain Hf ser_tx registered sig_valid fl bm n = 0 -> 1 <= i <= n -> aget bm i = Some b ->
  l' <> b_txs b -> length l' = length (b_txs b) ->
  verify_chain Hf ser_tx registered sig_valid fl (aset bm i (with_txs l' b)) n = 0 -> Collision Hf.
Proof. exact tx_list_mutation_v. Qed.
Example C16_merkle_hypotheses_nonvacuous :
  (forall x, length (Wit.H32 x) = 32%nat) /\ (forall a b, Wit.serc a = Wit.serc b -> a = b).
Proof. split; [exact Wit.H32_len|exact Wit.serc_inj]. Qed.
(* ... a list of DIFFERENT length can keep the root without any collision (known finding merkle-duplicate-tail) *)
Theorem C16_merkle_duplicate_tail_refuted :
  (forall Hf a b c, merkle_root Hf [a; b; c; c] = merkle_root Hf [a; b; c]) /\
  exists b, aget Wit.bm3 2 = Some b /\
    verify_chain Wit.Hc Wit.serc Wit.regc Wit.sigvc Wit.fl_now (aset Wit.bm3 2 (with_txs (b_txs b ++ [TPut 4 [10]]) b)) 3 = 0.
Proof. split; [exact merkle_duplicate_tail|exact Wit.merkle_duplicate_tail_refuted]. Qed.

(* 5. the genesis record is held by block 1's predecessor hash *)
Theorem C16_genesis_mutation : forall Hf ser_tx registered sig_valid fl bm n g g',
  verify_chain Hf ser_tx registered sig_valid fl bm n = 0 -> 1 <= n -> aget bm 0 = Some g ->
  pre (b_hdr g') <> pre (b_hdr g) ->
  verify_chain Hf ser_tx registered sig_valid fl (aset bm 0 g') n = 0 -> Collision Hf.
Proof. exact genesis_mutation_v. Qed.
Theorem C16_genesis_unlinked_refuted :
  (exists g, aget Wit.bm3 0 = Some g /\
     verify_chain Wit.Hc Wit.serc Wit.regc Wit.sigvc Wit.fl_now (aset Wit.bm3 0 (with_hdr (set_sig [1]) g)) 3 = 0) /\
  (forall bm, verify_chain Wit.Hc Wit.serc Wit.regc Wit.sigvc Wit.fl_now bm 0 = 0).
Proof. exact Wit.genesis_unlinked_refuted. Qed.

(* 6. removal and reordering are detected outright *)
Theorem C16_removed_block_detected : forall Hf ser_tx registered sig_valid fl bm n i,
  1 <= n -> i <= n -> verify_chain Hf ser_tx registered sig_valid fl (adel bm i) n <> 0.
Proof. exact removed_block_detected. Qed.
Theorem C16_swapped_blocks_detected : forall Hf ser_tx registered sig_valid fl bm n i j bi bj,
  HeightsOK bm n -> i < j <= n -> aget bm i = Some bi -> aget bm j = Some bj ->
  verify_chain Hf ser_tx registered sig_valid fl (aset (aset bm i bj) j bi) n <> 0.
Proof. exact swapped_blocks_detected. Qed.

(* 7. Block.signatures is outside hash and signature: altering it is never noticed (known finding) *)
Theorem C16_block_signatures_refuted : forall Hf ser_tx registered sig_valid fl bm n i b l,
  aget bm i = Some b ->
  verify_chain Hf ser_tx registered sig_valid fl (aset bm i (with_sigs l b)) n =
  verify_chain Hf ser_tx registered sig_valid fl bm n.
Proof. exact block_signatures_unauthenticated. Qed.

(* 8. a sequential commit is all-or-nothing *)
Theorem C16_commit_all_or_nothing : forall Hf ser_tx registered sig_valid sign SR fl me emb maxtx s w ts s' e,
  commit Hf ser_tx registered sig_valid sign SR fl me emb maxtx s w ts = (s', e) ->
  (e = 0 /\ exists x, aget (t_ws s) w = Some x /\
     ((w_ops x = [] /\ t_store s' = t_store s /\ t_mem s' = t_mem s) \/
      (w_ops x <> [] /\ s_data (t_store s') = apply_txs (s_data (t_store s)) (w_ops x) /\
       m_height (t_mem s') = m_height (t_mem s) + 1 /\
       exists blk, s_blocks (t_store s') = aset (s_blocks (t_store s)) (m_height (t_mem s) + 1) blk /\ b_txs blk = w_ops x)))
  \/ (e <> 0 /\ t_store s' = t_store s /\ t_mem s' = t_mem s).
Proof. exact commit_all_or_nothing. Qed.
(* rollback leaves everything untouched when nothing was committed since the workspace began ... *)
Theorem C16_rollback_untouched : forall s w s' x,
  aget (t_ws s) w = Some x -> w_chk x = t_store s -> rollback s w = (s', 0) ->
  t_store s' = t_store s /\ t_mem s' = t_mem s.
Proof. exact rollback_untouched. Qed.
(* ... and destroys later commits otherwise (known finding rollback-stale-checkpoint) *)
Theorem C16_rollback_stale_checkpoint_refuted :
  exists s w, Wit.verify1 s = 0 /\ snd (rollback s w) = 0 /\ Wit.verify1 (fst (rollback s w)) <> 0.
Proof. exact Wit.rollback_stale_checkpoint_refuted. Qed.

(* 9. replaying equal block lists from equal images gives equal stores (hence equal state roots), memories and verdicts *)
Theorem C16_replay_deterministic : forall Hf ser_tx registered sig_valid SR fl sto1 m1 sto2 m2 bs1 bs2,
  sto1 = sto2 -> m1 = m2 -> bs1 = bs2 ->
  replay Hf ser_tx registered sig_valid SR fl sto1 m1 bs1 = replay Hf ser_tx registered sig_valid SR fl sto2 m2 bs2.
Proof. exact replay_deterministic. Qed.

(* 10. concurrent commits, serialised variant (commit lock held from pre-image to append): for EVERY schedule
   with a non-decreasing clock the chain stays valid and the blocks above the initial height h0 are exactly the
   successfully committed workspaces, each once, in commit order (CI) *)
Theorem C16_serialised_commits : forall Hf ser_tx registered sig_valid sign SR fl me emb,
  f_commit_locked fl = true -> registered me = true ->
  (forall m, sig_valid me m (sign me m) = true) -> (forall m, sign me m <> []) ->
  forall h0 sched s lo,
  CI Hf ser_tx registered sig_valid fl h0 s -> tip_ts_le (s_blocks (c_store s)) (c_mem s) lo -> clock_mono lo sched ->
  CI Hf ser_tx registered sig_valid fl h0 (crun Hf ser_tx registered sig_valid sign SR fl me emb s sched).
Proof. exact serialised_commits. Qed.
Theorem C16_serialised_commits_verify : forall Hf ser_tx registered sig_valid sign SR fl me emb,
  f_commit_locked fl = true -> registered me = true ->
  (forall m, sig_valid me m (sign me m) = true) -> (forall m, sign me m <> []) ->
  forall h0 sched s lo,
  CI Hf ser_tx registered sig_valid fl h0 s -> tip_ts_le (s_blocks (c_store s)) (c_mem s) lo -> clock_mono lo sched ->
  cverify Hf ser_tx registered sig_valid fl (crun Hf ser_tx registered sig_valid sign SR fl me emb s sched) = 0.
Proof. exact serialised_commits_verify. Qed.
(* the racy variant (no lock) is refuted: F-C16-race, repaired by bc26b986; the per-run obligation
   Inst.gen_flags_ok says the lock is present in the source *)
Theorem C16_racy_commits_refuted :
  exists sched, clock_mono 100 sched /\
    cverify Wit.Hc Wit.serc Wit.regc Wit.sigvc Wit.fl_racy
      (crun Wit.Hc Wit.serc Wit.regc Wit.sigvc Wit.signc Wit.SRc Wit.fl_racy Wit.me [] Wit.c0 sched) <> 0.
Proof. exact Wit.racy_commits_refuted. Qed.
Theorem C16_source_is_serialised : f_commit_locked gen_flags = true /\ f_genesis_txroot gen_flags = true.
Proof. destruct gen_flags_ok as (A & B & C). split; assumption. Qed.

Print Assumptions C16_append_built_chain_verifies.
Print Assumptions C16_first_block_unsigned_refuted.
Print Assumptions C16_append_timestamp_regression_refuted.
Print Assumptions C16_forged_block.
Print Assumptions C16_single_field_mutation.
Print Assumptions C16_single_field_preimage_injective.
Print Assumptions C16_multi_field_preimage_collision.
Print Assumptions C16_tx_list_mutation.
Print Assumptions C16_merkle_duplicate_tail_refuted.
Print Assumptions C16_genesis_mutation.
Print Assumptions C16_genesis_unlinked_refuted.
Print Assumptions C16_removed_block_detected.
Print Assumptions C16_swapped_blocks_detected.
Print Assumptions C16_block_signatures_refuted.
Print Assumptions C16_commit_all_or_nothing.
Print Assumptions C16_rollback_untouched.
Print Assumptions C16_rollback_stale_checkpoint_refuted.
Print Assumptions C16_replay_deterministic.
Print Assumptions C16_serialised_commits.
Print Assumptions C16_serialised_commits_verify.
Print Assumptions C16_racy_commits_refuted.
Print Assumptions C16_source_is_serialised.
