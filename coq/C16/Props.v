(* C16/Props.v -- pinned property theorems; nothing but statements closed by `exact`. *)
From NV.Common Require Import Base.
From NV.C16 Require Import Model Proofs Inst.
From NV.gen Require Import Gen_C16.
Open Scope N_scope.

Theorem C16_replay_deterministic : forall Hf ser_tx registered sig_valid SR fl sto1 m1 sto2 m2 bs1 bs2,
  sto1 = sto2 -> m1 = m2 -> bs1 = bs2 ->
  replay Hf ser_tx registered sig_valid SR fl sto1 m1 bs1 = replay Hf ser_tx registered sig_valid SR fl sto2 m2 bs2.
Proof. exact replay_deterministic. Qed.

Print Assumptions C16_replay_deterministic.
