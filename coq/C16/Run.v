(* C16/Run.v -- executable entry points for the correspondence check and the property oracles.
   Depends on Model + the regenerated flags only (NOT on the proofs).

   The external functions are instantiated SYMBOLICALLY: the digest of x is the term `1000 :: x`
   (an ideal, collision-free hash), a signature of m by p is `2000 :: p ++ 2001 :: m`, the
   serialisation of a transaction is an injective tagging.  Verdicts compared with the
   implementation are error kinds, heights, store contents and tx lists -- never digests.  The
   concrete byte layout of the header pre-image is compared byte-for-byte in `check_layout`. *)
From NV.Common Require Import Base.
From NV.C16 Require Import Model.
From NV.gen Require Import Gen_C16.
Open Scope N_scope.

Definition Hsym (x : bytes) : bytes := 1000 :: x.
Definition ser_sym (t : tx) : bytes :=
  match t with TPut k v => 0 :: k :: N.of_nat (length v) :: v | TDel k => [1; k] | TOther x a b => [2; x; a; b] end.
Definition sign_sym (p m : bytes) : bytes := 2000 :: p ++ 2001 :: m.
Definition sigv_sym (p m s : bytes) : bool := bytes_eqb s (sign_sym p m).
Definition SR_sym (s : store) : bytes :=
  3000 :: flat_map (fun kv => fst kv :: N.of_nat (length (snd kv)) :: snd kv) (s_data s)
  ++ 3001 :: map fst (s_blocks s).
(* node ids: me = [1]; other registered validators [2], [3]; unknown [9] *)
Definition me : bytes := [1].
Definition reg_sym (extra : N) (p : bytes) : bool :=
  match p with [i] => (1 <=? i) && (i <=? 1 + extra) | _ => false end.

Notation fl := gen_flags.
Definition emb0 : bytes := [6; 128; 0; 0].   (* bitcode(SparseVector::new(128)) as commit produces it *)

Section Inst.
Variable extra : N.    (* number of additional registered validators *)
Notation Vverify := (verify Hsym ser_sym (reg_sym extra) sigv_sym fl).
Notation Vcommit := (commit Hsym ser_sym (reg_sym extra) sigv_sym sign_sym SR_sym fl me emb0).
Notation Vappend_raw := (append_raw Hsym ser_sym (reg_sym extra) sigv_sym fl).
(* the local validator key taken out of the registry for the duration of one commit *)
Definition reg_off (p : bytes) : bool := if bytes_eqb p me then false else reg_sym extra p.
Notation VcommitU := (commit Hsym ser_sym reg_off sigv_sym sign_sym SR_sym fl me emb0).
Notation Vroot := (compute_tx_root Hsym ser_sym).
Notation Vpre := pre.

(* ------------------------------------------------------------ raw (crafted) blocks for append_block *)
(* height: 0 = tip+1, 1 = tip+2, 2 = tip;  prev: 0 = tip hash, 1 = zeros, 2 = garbage;
   txroot: 0 = correct, 1 = zeros (append fills it in), 2 = garbage;
   sig: 0 = valid by me, 1 = empty, 2 = garbage, 3 = valid by an unregistered key (proposer = that key),
        4 = valid by registered validator [2] (proposer [2]) *)
Record rawdesc := RD { rd_height : N; rd_prev : N; rd_txroot : N; rd_txs : list tx; rd_sig : N; rd_ts : N }.
Definition mk_raw (s : st) (d : rawdesc) : block :=
  let m := t_mem s in
  let hgt := match rd_height d with 0 => m_height m + 1 | 1 => m_height m + 2 | _ => m_height m end in
  let prv := match rd_prev d with 0 => m_tip m | 1 => zeros32 | _ => [4000] end in
  let root := match rd_txroot d with 0 => Vroot (rd_txs d) | 1 => zeros32 | _ => [4001] end in
  let who := match rd_sig d with 3 => [9] | 4 => [2] | _ => me end in
  let h0 := Hd hgt prv root [4002] emb0 [] (rd_ts d) who [] in
  (* the harness signs AFTER the fields are final; for txroot = zeros the signature therefore covers
     the zero root and becomes invalid once append fills the root in *)
  let sg := match rd_sig d with 1 => [] | 2 => [4003] | _ => sign_sym who (Vpre h0) end in
  Bk (set_sig sg h0) (rd_txs d) [].

Inductive op :=
| OBegin (w : N) | OPut (w k : N) (v : bytes) | ODel (w k : N)
| OCommit (w ts : N) | ORollback (w : N) | ORaw (d : rawdesc)
| OCommitU (w ts : N).   (* registry.remove(me); commit(w); register(me) *)

Definition step (maxtx : N) (s : st) (o : op) : st * N :=
  match o with
  | OBegin w => (begin_ws s w, 0)
  | OPut w k v => add_op s w (TPut k v)
  | ODel w k => add_op s w (TDel k)
  | OCommit w ts => Vcommit maxtx s w ts
  | OCommitU w ts => VcommitU maxtx s w ts
  | ORollback w => rollback s w
  | ORaw d => Vappend_raw s (mk_raw s d)
  end.

(* observation after each call: result code, height, verify() code, data dump over keys 0..K-1,
   transactions of the block stored at the current height *)
Definition obs := (N * N * N * list (option bytes) * list tx)%type.
Definition dump (K : N) (d : list (N * bytes)) : list (option bytes) := map (aget d) (N_seq K).
Definition tip_txs (s : st) : list tx :=
  match aget (s_blocks (t_store s)) (m_height (t_mem s)) with Some b => b_txs b | None => [] end.
Definition observe (K : N) (s : st) (r : N) : obs :=
  (r, m_height (t_mem s), Vverify s, dump K (s_data (t_store s)), tip_txs s).
Definition dump_eqb := list_eqb (option_eqb bytes_eqb).
Definition obs_eqb (a b : obs) : bool :=
  let '(r1, h1, v1, d1, t1) := a in let '(r2, h2, v2, d2, t2) := b in
  N.eqb r1 r2 && N.eqb h1 h2 && N.eqb v1 v2 && dump_eqb d1 d2 && list_eqb tx_eqb t1 t2.

Definition init_st (gts : N) : st := init Hsym me [] gts.

Fixpoint run_obs (K maxtx : N) (s : st) (ops : list op) : list obs :=
  match ops with
  | [] => []
  | o :: r => let '(s', res) := step maxtx s o in observe K s' res :: run_obs K maxtx s' r
  end.
Fixpoint run_st (maxtx : N) (s : st) (ops : list op) : st :=
  match ops with [] => s | o :: r => run_st maxtx (fst (step maxtx s o)) r end.

(* ------------------------------------------------------------ the property oracle on the IMPLEMENTATION's observations *)
(* per workspace, from the implementation's own answers: recorded ops, height at begin *)
Definition wtrack := list (N * (list tx * N)).
Definition apply_dump (K : N) (d : list (option bytes)) (l : list tx) : list (option bytes) :=
  fold_left (fun d t =>
    map (fun ki => match t with
                   | TPut k v => if N.eqb (fst ki) k then Some v else snd ki
                   | TDel k => if N.eqb (fst ki) k then None else snd ki
                   | TOther _ _ _ => snd ki end)
        (combine (N_seq K) d)) l d.

(* verdict of one step: 0 fine, 2 violation, 10+k known class *)
Definition K_ROLLBACK : N := 3.
Definition K_FIRSTSIG : N := 4.
Definition K_TSREG : N := 6.
Definition step_oracle (K : N) (tr : wtrack) (ph : N) (pd : list (option bytes)) (o : op) (ob : obs) : N :=
  let '(r, h, v, d, btx) := ob in
  let same := N.eqb h ph && dump_eqb d pd in
  let ok :=
    match o with
    | OCommit w _ | OCommitU w _ =>
        match aget tr w with
        | Some (l, _) =>
            if N.eqb r 0 then
              (if is_nil l then same
               else N.eqb h (ph + 1) && dump_eqb d (apply_dump K pd l) && list_eqb tx_eqb btx l)
            else same
        | None => same
        end
    | ORaw _ => if N.eqb r 0 then N.eqb h (ph + 1) && dump_eqb d pd else same
    | _ => same
    end in
  if ok && N.eqb v 0 then 0
  else match o with
       | ORollback w =>
           match aget tr w with
           | Some (_, h0) => if N.ltb h0 ph then V_KNOWN K_ROLLBACK else V_VIOLATION
           | None => V_VIOLATION
           end
       | ORaw _ =>
           if N.eqb ph 0 && N.eqb r 0 && ok && (N.eqb v E_NOSIG || N.eqb v E_UNKNOWN || N.eqb v E_BADSIG)
           then V_KNOWN K_FIRSTSIG
           else if N.eqb r 0 && ok && N.eqb v E_TS then V_KNOWN K_TSREG else V_VIOLATION
       | OCommit _ _ | OCommitU _ _ => if N.eqb r 0 && ok && N.eqb v E_TS then V_KNOWN K_TSREG else V_VIOLATION
       | _ => V_VIOLATION
       end.
Definition track (tr : wtrack) (ph : N) (o : op) (r : N) : wtrack :=
  match o with
  | OBegin w => aset tr w ([], ph)
  | OPut w k v => if N.eqb r 0 then match aget tr w with Some (l, h0) => aset tr w (l ++ [TPut k v], h0) | None => tr end else tr
  | ODel w k => if N.eqb r 0 then match aget tr w with Some (l, h0) => aset tr w (l ++ [TDel k], h0) | None => tr end else tr
  | _ => tr
  end.
Fixpoint seq_oracle (K : N) (tr : wtrack) (ph : N) (pd : list (option bytes)) (ops : list op) (os : list obs) : N :=
  match ops, os with
  | [], [] => 0
  | o :: ops', ob :: os' =>
      let e := step_oracle K tr ph pd o ob in
      if negb (N.eqb e 0) then e
      else let '(r, h, _, d, _) := ob in seq_oracle K (track tr ph o r) h d ops' os'
  | _, _ => 9
  end.

(* (K keys, max_txs_per_block, genesis timestamp, ops, implementation observations) *)
Definition seq_case := (N * N * N * list op * list obs)%type.
Definition check_seq (c : seq_case) : N :=
  let '(K, maxtx, gts, ops, os) := c in
  let e := seq_oracle K [] 0 (dump K []) ops os in
  if negb (N.eqb e 0) then e
  else if list_eqb obs_eqb (run_obs K maxtx (init_st gts) ops) os then V_OK else V_MISMATCH.

(* ------------------------------------------------------------ tampering with stored blocks *)
Inductive mut :=
| MHeight (i v : N) | MPrev (i : N) | MTxRoot (i : N) | MSRoot (i : N) | MEmb (i : N)
| MCodes (i : N) (cs : list N) | MTs (i v : N)
| MProposer (i p : N)         (* p: 9 = unknown id, 2 = another registered validator *)
| MSig (i k : N)              (* k: 0 = emptied, 1 = altered *)
| MTxs (i : N) (l : list tx)
| MVSigs (i : N)              (* a bogus ValidatorSignature pushed onto Block.signatures *)
| MRemove (i : N)
| MSwap (i j : N)
| MCopy (i j : N)             (* block j's record written under key i *)
| MForge (i : N) (l : list tx) (k : N).  (* a fresh self-consistent block at i: k = 0 garbage signature by me,
                                           1 = validly signed by an unregistered key, 2 = by registered validator [2] *)

Definition upd_block (bm : blockmap) (i : N) (f : block -> block) : blockmap :=
  match aget bm i with Some b => aset bm i (f b) | None => bm end.
Definition apply_mut (bm : blockmap) (m : mut) : blockmap :=
  match m with
  | MHeight i v => upd_block bm i (with_hdr (set_height v))
  | MPrev i => upd_block bm i (with_hdr (fun h => set_prev (4000 :: h_prev h) h))
  | MTxRoot i => upd_block bm i (with_hdr (fun h => set_txroot (4000 :: h_txroot h) h))
  | MSRoot i => upd_block bm i (with_hdr (fun h => set_sroot (4000 :: h_sroot h) h))
  | MEmb i => upd_block bm i (with_hdr (fun h => set_emb (4000 :: h_emb h) h))
  | MCodes i cs => upd_block bm i (with_hdr (set_codes cs))
  | MTs i v => upd_block bm i (with_hdr (set_ts v))
  | MProposer i p => upd_block bm i (with_hdr (set_proposer [p]))
  | MSig i k => upd_block bm i (with_hdr (fun h => set_sig (if N.eqb k 0 then [] else 4000 :: h_sig h) h))
  | MTxs i l => upd_block bm i (with_txs l)
  | MVSigs i => upd_block bm i (fun b => with_sigs (b_sigs b ++ [VS [9] [1; 2; 3] [9]]) b)
  | MRemove i => adel bm i
  | MSwap i j =>
      match aget bm i, aget bm j with
      | Some bi, Some bj => aset (aset bm i bj) j bi
      | _, _ => bm
      end
  | MCopy i j => match aget bm j with Some bj => aset bm i bj | None => bm end
  | MForge i l k =>
      upd_block bm i (fun b =>
        let who := match k with 1 => [9] | 2 => [2] | _ => me end in
        let h0 := set_sig [] (set_proposer who (set_txroot (Vroot l) (b_hdr b))) in
        Bk (set_sig (if N.eqb k 0 then [4003] else sign_sym who (Vpre h0)) h0) l [])
  end.

Definition K_VSIGS : N := 0.
Definition K_GENESIS : N := 1.
Definition K_MERKLE : N := 2.
(* class of an UNDETECTED mutation (None = no known class) *)
Definition mut_class (s : st) (m : mut) : option N :=
  let bm := s_blocks (t_store s) in
  match m with
  | MVSigs _ => Some K_VSIGS
  | MSig 0 _ => Some K_GENESIS
  | MTxs i l =>
      match aget bm i with
      | Some b =>
          if negb (list_eqb tx_eqb l (b_txs b)) && negb (is_nil (b_txs b)) && negb (N.eqb (N.of_nat (length l)) (N.of_nat (length (b_txs b))))
             && bytes_eqb (Vroot l) (Vroot (b_txs b))
          then Some K_MERKLE else (if N.eqb (m_height (t_mem s)) 0 then Some K_GENESIS else None)
      | None => None
      end
  | _ => if N.eqb (m_height (t_mem s)) 0 then Some K_GENESIS else None
  end.

(* worst verdict: 2 beats 1 beats known beats 0 *)
Definition worse (a b : N) : N :=
  if N.eqb a 2 || N.eqb b 2 then 2 else if N.eqb a 1 || N.eqb b 1 then 1
  else if N.eqb a 9 || N.eqb b 9 then 9 else N.max a b.

Definition check_mut (s : st) (mc : mut * N) : N :=
  let '(m, code) := mc in
  let o := if N.eqb code 0 then match mut_class s m with Some k => V_KNOWN k | None => V_VIOLATION end else 0 in
  let bm' := apply_mut (s_blocks (t_store s)) m in
  let mv := verify_chain Hsym ser_sym (reg_sym extra) sigv_sym fl bm' (m_height (t_mem s)) in
  worse o (if N.eqb mv code then 0 else 1).

(* (max_txs, genesis ts, ops building the chain, [(mutation, verify() code of the implementation)]) *)
Definition tamper_case := (N * N * list op * list (mut * N))%type.
Definition check_tamper (c : tamper_case) : N :=
  let '(maxtx, gts, ops, ms) := c in
  let s := run_st maxtx (init_st gts) ops in
  (* a model whose own chain does not verify is a mismatch, but the oracle is still evaluated on every mutation *)
  fold_left (fun acc mc => worse acc (check_mut s mc)) ms (if N.eqb (Vverify s) 0 then 0 else 1).

(* ------------------------------------------------------------ concurrent commits *)
(* (K, max_txs, genesis ts, workspace op lists, commit timestamps by chain position,
    commit results per workspace, tx lists of blocks 1..n of the final chain, final verify code, final dump) *)
Definition conc_case := (N * N * N * list (list tx) * list N * list N * list (list tx) * N * list (option bytes))%type.
Fixpoint index_of (l : list tx) (ws : list (list tx)) (i : N) : option N :=
  match ws with
  | [] => None
  | x :: r => if list_eqb (tx_eqb) x l then Some i else index_of l r (i + 1)
  end.
Definition count_eq (l : list tx) (bs : list (list tx)) : N :=
  N.of_nat (length (filter (fun x => list_eqb tx_eqb x l) bs)).
Definition conc_oracle (K : N) (wss : list (list tx)) (res : list N) (chain : list (list tx)) (ver : N) (d : list (option bytes)) : bool :=
  N.eqb ver 0
  && forallb (fun wr => let '(l, _) := wr in
                if is_nil l then true
                else N.eqb (count_eq l chain)
                           (N.of_nat (length (filter (fun wr' => list_eqb tx_eqb (fst wr') l && N.eqb (snd wr') 0) (combine wss res)))))
             (combine wss res)
  && forallb (fun b => match index_of b wss 0 with Some _ => true | None => false end) chain
  && dump_eqb d (apply_dump K (dump K []) (concat chain)).
Definition check_conc (c : conc_case) : N :=
  let '(K, maxtx, gts, wss, tss, res, chain, ver, d) := c in
  if negb (conc_oracle K wss res chain ver d) then V_VIOLATION
  else
    (* model: begin + record every workspace, then commit in chain order, failed ones last *)
    let n := N.of_nat (length wss) in
    let setup := flat_map (fun iw => OBegin (fst iw) :: map (fun t => match t with TPut k v => OPut (fst iw) k v | TDel k => ODel (fst iw) k | TOther _ _ _ => ODel (fst iw) 999 end) (snd iw))
                          (combine (N_seq n) wss) in
    let order := flat_map (fun bt => match index_of (fst bt) wss 0 with Some i => [OCommit i (snd bt)] | None => [] end) (combine chain tss) in
    let failed := flat_map (fun ir => if N.eqb (snd ir) 0 then [] else [OCommit (fst ir) 0]) (combine (N_seq n) res) in
    let s := run_st maxtx (init_st gts) (setup ++ order ++ failed) in
    if N.eqb (m_height (t_mem s)) (N.of_nat (length chain)) && N.eqb (Vverify s) ver && dump_eqb (dump K (s_data (t_store s))) d
    then V_OK else V_MISMATCH.

(* ------------------------------------------------------------ commits with embeddings (conflict detection, auto-merge) *)
(* Implementation-only oracle: with auto-merge a block may hold the operations of SEVERAL workspaces (the
   committing one followed by the orthogonal ones it absorbed).  "Each committed workspace exactly once":
   every block is a concatenation of op lists of workspaces whose state is Committed, each used once overall,
   no other workspace's operations appear, the chain verifies, the data is the replay of the blocks. *)
Definition memN (x : N) (l : list N) : bool := existsb (N.eqb x) l.
Fixpoint strip_prefix (l pre : list tx) : option (list tx) :=
  match pre, l with
  | [], _ => Some l
  | a :: pr, x :: xs => if tx_eqb a x then strip_prefix xs pr else None
  | _ :: _, [] => None
  end.
Fixpoint parse_block (fuel : nat) (cands : list (N * list tx)) (used : list N) (blk : list tx) : option (list N) :=
  match fuel with
  | O => None
  | S f =>
      match blk with
      | [] => Some used
      | _ =>
          match find (fun c => negb (memN (fst c) used) && negb (is_nil (snd c))
                               && match strip_prefix blk (snd c) with Some _ => true | None => false end) cands with
          | Some (i, l) => match strip_prefix blk l with Some rest => parse_block f cands (i :: used) rest | None => None end
          | None => None
          end
      end
  end.
Fixpoint parse_chain (cands : list (N * list tx)) (used : list N) (chain : list (list tx)) : option (list N) :=
  match chain with
  | [] => Some used
  | b :: r => match b with
              | [] => None
              | _ => match parse_block (S (length b)) cands used b with Some u => parse_chain cands u r | None => None end
              end
  end.
(* (K, workspace op lists, committed flags (state() = Committed), commit results, block tx lists, verify code, dump) *)
Definition merge_case := (N * list (list tx) * list bool * list N * list (list tx) * N * list (option bytes))%type.
Definition check_merge (c : merge_case) : N :=
  let '(K, wss, comm, res, chain, ver, d) := c in
  let n := N.of_nat (length wss) in
  let idx := combine (N_seq n) (combine wss comm) in
  let cands : list (N * list tx) := flat_map (fun x : N * (list tx * bool) => if snd (snd x) then [(fst x, fst (snd x))] else []) idx in
  let must := map fst (filter (fun c : N * list tx => negb (is_nil (snd c))) cands) in
  if negb (N.eqb ver 0) then V_VIOLATION
  else if negb (forallb (fun rc => negb (N.eqb (fst rc) 0) || snd rc) (combine res comm)) then V_VIOLATION  (* Ok => Committed *)
  else match parse_chain cands [] chain with
       | None => V_VIOLATION
       | Some used =>
           if forallb (fun i => memN i used) must && N.eqb (N.of_nat (length used)) (N.of_nat (length must))
              && dump_eqb d (apply_dump K (dump K []) (concat chain))
           then V_OK else V_VIOLATION
       end.

(* ------------------------------------------------------------ several commit() calls on ONE workspace *)
(* (operations of the workspace, result of every commit() call, block tx lists of the final chain, verify code):
   at most one call returns Ok, the operations are in exactly as many blocks as calls returned Ok (0 or 1) *)
Definition dup_case := (list tx * list N * list (list tx) * N)%type.
Definition check_dup (c : dup_case) : N :=
  let '(ops, res, chain, ver) := c in
  let oks := N.of_nat (length (filter (fun r => N.eqb r 0) res)) in
  (* blocks that hold any of the workspace's (uniquely valued) operations *)
  let occ := N.of_nat (length (filter (fun b => existsb (fun t => existsb (tx_eqb t) ops) b) chain)) in
  if N.eqb ver 0 && N.leb oks 1 && N.eqb occ oks then V_OK else V_VIOLATION.

(* ------------------------------------------------------------ one commit, every transaction kind *)
(* (K, commit result, dump before, the workspace's operations, dump after, 0 iff the header's state root equals the
   root of a store that restores the pre-commit image and replays the block's transactions in order, verify code) *)
Definition croot_case := (N * N * list (option bytes) * list tx * list (option bytes) * N * N)%type.
Definition check_croot (c : croot_case) : N :=
  let '(K, r, pre, l, post, rootdiff, ver) := c in
  if negb (N.eqb r 0) then (if dump_eqb pre post && N.eqb ver 0 then V_OK else V_VIOLATION)
  else if N.eqb ver 0 && N.eqb rootdiff 0 && dump_eqb post (apply_dump K pre l) then V_OK else V_VIOLATION.
Definition check_croot1 (c : N * croot_case) : N := check_croot (snd c).

(* ------------------------------------------------------------ replicas *)
(* a block offered to both replicas: (txs, root_good, raw description of the rest) *)
Definition rblock := (list tx * bool * rawdesc)%type.
Definition mk_rblock (sto : store) (m : cmem) (rb : rblock) : block :=
  let '(txs, good, d) := rb in
  let s := St sto m [] in
  let b := mk_raw s (RD (rd_height d) (rd_prev d) (rd_txroot d) txs (rd_sig d) (rd_ts d)) in
  let d1 := apply_txs (s_data sto) txs in
  let root := if good then SR_sym (Sto d1 (s_blocks sto) (s_meta sto)) else [4004] in
  let h0 := set_sig [] (set_sroot root (b_hdr b)) in
  let sg := match rd_sig d with 1 => [] | 2 => [4003] | _ => sign_sym (h_proposer h0) (Vpre h0) end in
  Bk (set_sig sg h0) txs [].
Fixpoint replay_sym (sto : store) (m : cmem) (bs : list rblock) : store * list N :=
  match bs with
  | [] => (sto, [])
  | rb :: r =>
      let b := mk_rblock sto m rb in
      let '(sto1, m1, e) := apply_block Hsym ser_sym (reg_sym extra) sigv_sym SR_sym fl sto m b in
      let '(sto2, es) := replay_sym sto1 m1 r in (sto2, e :: es)
  end.
(* roots may differ between the replicas only after a block was accepted (class K_ROOT, shared store only) *)
Definition K_ROOT : N := 5.
Fixpoint untouched (prev : N) (r : list (N * N)) : bool :=
  match r with
  | [] => true
  | (c, i) :: t => (N.eqb c 0 || N.eqb i prev) && untouched i t
  end.
Fixpoint roots_agree (acc : bool) (r1 r2 : list (N * N)) : N :=   (* 0 agree, 1 differ after an accept, 2 differ before *)
  match r1, r2 with
  | (c1, i1) :: t1, (c2, i2) :: t2 =>
      let acc' := acc || N.eqb c1 0 in
      if N.eqb i1 i2 then roots_agree acc' t1 t2
      else if acc' then N.max 1 (roots_agree acc' t1 t2) else 2
  | _, _ => 0
  end.
(* (K, genesis ts, shared store?, blocks, replica 1: [(result, root id after the block)], replica 2 likewise, dump 1, dump 2) *)
(* ... and (direct 1, direct 2): state-root ids after applying ALL offered transaction lists, in order, straight to two
   fresh stores with apply_transaction_to_store (what every replica does with a block) *)
Definition replay_case := (N * N * bool * list rblock * list (N * N) * list (N * N) * list (option bytes) * list (option bytes) * (N * N) * list N * (N * N))%type.
Definition check_replay (c : replay_case) : N :=
  let '(K, gts, shared, bs, r1, r2, d1, d2, dr, only, ini) := c in
  (* `only`: 0 = the block went to both replicas, 1 / 2 = to replica 0 / 1 alone (an earlier block delivered again);
     `ini`: root ids before the first block *)
  let both := fun {A} (l : list A) => map snd (filter (fun ox => N.eqb (fst ox) 0) (combine only l)) in
  let ra := roots_agree false r1 r2 in
  (* a refused block leaves that replica's store untouched *)
  if negb (untouched (fst ini) r1 && untouched (snd ini) r2) then (if shared then V_KNOWN K_ROOT else V_VIOLATION) else
  if negb (N.eqb (fst dr) (snd dr)) then V_VIOLATION else
  (* a block the harness gave a false state root is accepted by NO replica *)
  if negb (forallb (fun br => snd (fst (fst br)) || (negb (N.eqb (fst (fst (snd br))) 0) && negb (N.eqb (fst (snd (snd br))) 0)))
                   (combine bs (combine r1 r2))) then V_VIOLATION else
  if negb (list_eqb N.eqb (map fst (both r1)) (map fst (both r2)) && dump_eqb d1 d2 && N.eqb (N.of_nat (length r1)) (N.of_nat (length r2))) then V_VIOLATION
  else if N.eqb ra 2 then V_VIOLATION
  else if N.eqb ra 1 then (if shared then V_KNOWN K_ROOT else V_VIOLATION)
  else
    let s0 := init_st gts in
    let '(sto, es) := replay_sym (t_store s0) (t_mem s0) (both bs) in
    if list_eqb N.eqb es (map fst (both r1)) && dump_eqb (dump K (s_data sto)) d1 then V_OK else V_MISMATCH.

End Inst.

(* ------------------------------------------------------------ concrete pre-image layout *)
(* (height, prev, tx_root, state_root, bitcode(embedding), codes, timestamp, proposer bytes,
    signing_bytes() of the implementation) *)
Definition layout_case := (N * bytes * bytes * bytes * bytes * list N * N * bytes * bytes)%type.
Definition check_layout (c : layout_case) : N :=
  let '(hg, pv, tr, sr, em, cs, ts, pr, impl) := c in
  if bytes_eqb (pre (Hd hg pv tr sr em cs ts pr [])) impl then V_OK else V_MISMATCH.

Definition check_seq1 (c : N * seq_case) : N := check_seq (fst c) (snd c).
Definition check_tamper1 (c : N * tamper_case) : N := check_tamper (fst c) (snd c).
Definition check_conc1 (c : N * conc_case) : N := check_conc (fst c) (snd c).
Definition check_replay1 (c : N * replay_case) : N := check_replay (fst c) (snd c).
Definition check_merge1 (c : N * merge_case) : N := check_merge (snd c).
Definition check_dup1 (c : N * dup_case) : N := check_dup (snd c).
