(* C17/Inst.v -- PER-RUN OBLIGATION: the `supersedes` regenerated from the Rust source is the
   strict lexicographic order on (incarnation, timestamp).  Re-proved on every run against
   gen/Gen_C17.v; a harmless rewrite of the Rust function re-proves; a semantic change fails. *)
From NV.Common Require Import Base.
From NV.C17 Require Import Types Model Proofs.
From NV.gen Require Import Gen_C17.
Open Scope N_scope.

Lemma gen_sup_spec : SupSpec gen_supersedes.
Proof.
  intros a b. unfold gen_supersedes, klt.
  repeat match goal with |- context [if ?c then _ else _] => destruct c eqn:? end; lia.
Qed.
