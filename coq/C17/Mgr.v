(* C17/Mgr.v -- executable model of the message layer around LWWMembershipState:
   GossipMembershipManager (tensor_chain/src/gossip.rs): new, add_peer, handle_gossip
   (handle_sync / handle_suspect / handle_alive / handle_ping_req / handle_ping_ack),
   gossip_round (+ expire_suspicions), suspect_node (+ try_indirect_ping).
   Definitions only.  Not in the model: signatures (create_gossip_message with an identity),
   geometric target selection, callbacks, flap / heal / bidirectional-probe bookkeeping (none of
   them touches the membership view), wall-clock suspicion timeouts (the configuration flag
   `expire` says whether a round finds every pending suspicion timed out or none). *)
From NV.Common Require Import Base.
From NV.C17 Require Import Types Model.
Open Scope N_scope.

Inductive gmsg :=
| GSync (sender : N) (states : list (N * upd)) (stime : N)
| GSusp (reporter suspect i : N)
| GAliv (node i : N)
| GPReq (origin target sq : N)
| GPAck (origin target sq : N) (ok : bool).

(* susp: keys of the `suspicions` map (the stored incarnation is dead code);
   myinc: the AtomicU64 `incarnation`; pseq: `ping_sequence`; peers: `known_peers` *)
Record mgr := Mg { me : N; lww : st; susp : list N; myinc : N; pseq : N; peers : list N }.

Definition memN (k : N) (l : list N) : bool := existsb (N.eqb k) l.
Definition delN (k : N) (l : list N) : list N := filter (fun x => negb (N.eqb x k)) l.

Section Mgr.
Variable sup : upd -> upd -> bool.
Variable maxd : N.          (* config.max_incarnation_delta *)
Variable expire : bool.     (* suspicion_timeout_ms = 0 (every pending suspicion has timed out) or huge (none) *)

(* GossipMembershipManager::new : the local node registered Healthy at incarnation 0 *)
Definition mgr_init (i : N) : mgr := Mg i (update_local init i 0 0) [] 0 0 [].

Definition inc_of (s : st) (m : N) : N := match get s m with Some e => inc e | None => 0 end.

Fixpoint ins_sorted (p : N) (l : list N) : list N :=
  match l with
  | [] => [p]
  | x :: r => if N.leb p x then p :: l else x :: ins_sorted p r
  end.

(* known_peers is kept as a set (ascending order here; the order only decides in which order the envelopes of
   one step are handed to the transport, which the correspondence check canonicalises) *)
Definition add_peer (g : mgr) (p : N) : mgr :=
  let ps := if memN p (peers g) then peers g else ins_sorted p (peers g) in
  let s := match get (lww g) p with
           | Some _ => lww g
           | None => let s1 := tick (lww g) in fst (merge sup s1 [(p, U 3 (clock s1) 0)])
           end in
  Mg (me g) s (susp g) (myinc g) (pseq g) ps.

(* select_gossip_targets with fanout >= |known_peers| and no geometric manager: every peer but self *)
Definition targets (g : mgr) : list N := filter (fun p => negb (N.eqb p (me g))) (peers g).

(* the max_incarnation_delta filter of handle_sync (saturating_sub = truncated N subtraction) *)
Definition delta_ok (s : st) (mu : N * upd) : bool :=
  N.leb (match get s (fst mu) with None => inc (snd mu) | Some e => inc (snd mu) - inc e end) maxd.

Definition handle_sync (g : mgr) (sender : N) (states : list (N * upd)) (stime : N) : mgr :=
  let s1 := sync_time (lww g) stime in
  let s2 := fst (merge sup s1 (filter (delta_ok s1) states)) in
  let s3 := fst (merge sup s2 [(sender, U 0 (clock s2 + 1) (inc_of s2 sender))]) in
  Mg (me g) s3 (delN sender (susp g)) (myinc g) (pseq g) (peers g).

Definition handle_suspect (g : mgr) (suspect_id i : N) : mgr * list (N * gmsg) :=
  if N.eqb suspect_id (me g) then
    let ni := myinc g + 1 in
    (Mg (me g) (lww g) (susp g) ni (pseq g) (peers g), map (fun t => (t, GAliv (me g) ni)) (targets g))
  else if memN suspect_id (susp g) then (g, [])
  else (Mg (me g) (fst (suspect (lww g) suspect_id i)) (susp g ++ [suspect_id]) (myinc g) (pseq g) (peers g), []).

Definition handle_alive (g : mgr) (node i : N) : mgr :=
  if N.ltb maxd (i - inc_of (lww g) node) then g
  else let '(s, b) := refute (lww g) node i in
       Mg (me g) s (if b then delN node (susp g) else susp g) (myinc g) (pseq g) (peers g).

Definition handle_ping_ack (g : mgr) (target : N) (ok : bool) : mgr :=
  if ok then
    match get (lww g) target with
    | Some _ => Mg (me g) (fst (mark_healthy (lww g) target)) (delN target (susp g)) (myinc g) (pseq g) (peers g)
    | None => g
    end
  else g.

(* handle_gossip: new manager state and the envelopes (destination, message) it sends *)
Definition handle (g : mgr) (m : gmsg) : mgr * list (N * gmsg) :=
  match m with
  | GSync sender states stime => (handle_sync g sender states stime, [])
  | GSusp _ s i => handle_suspect g s i
  | GAliv n i => (handle_alive g n i, [])
  | GPReq origin target sq => (g, [(origin, GPAck (me g) target sq true)])
  | GPAck _ target _ ok => (handle_ping_ack g target ok, [])
  end.

(* expire_suspicions when every pending suspicion has timed out.  The HashMap iteration order is
   an input (`order`): the members failed first; the remaining keys follow in list order. *)
Definition expire_all (g : mgr) (order : list N) : mgr :=
  let ks := order ++ filter (fun k => negb (memN k order)) (susp g) in
  Mg (me g) (fold_left (fun s k => fst (fail s k)) ks (lww g)) [] (myinc g) (pseq g) (peers g).

Definition gossip_round (g : mgr) (order : list N) : mgr * list (N * gmsg) :=
  match targets g with
  | [] => (g, [])
  | ts => (if expire then expire_all g order else g,
           map (fun t => (t, GSync (me g) (regs (lww g)) (clock (lww g)))) ts)
  end.

Definition suspect_node (g : mgr) (m : N) : mgr * list (N * gmsg) :=
  let i := inc_of (lww g) m in
  let g1 := if memN m (susp g) then g
            else Mg (me g) (fst (suspect (lww g) m i)) (susp g ++ [m]) (myinc g) (pseq g) (peers g) in
  let out1 := map (fun t => (t, GSusp (me g) m i)) (targets g) in
  match targets g with
  | [] => (g1, out1)
  | ts => (Mg (me g1) (lww g1) (susp g1) (myinc g1) (pseq g1 + 1) (peers g1),
           out1 ++ map (fun t => (t, GPReq (me g) m (pseq g1))) ts)
  end.

(* ---------------- a cluster of managers and the network between them ---------------- *)
Record msys := MS { mgrs : list mgr; mpool : list (N * gmsg) }.

Definition nth_mgr (l : list mgr) (r : N) : mgr := nth (N.to_nat r) l (Mg r init [] 0 0 []).
Fixpoint set_mgr (l : list mgr) (r : nat) (g : mgr) : list mgr :=
  match l, r with
  | [], _ => []
  | _ :: t, O => g :: t
  | h :: t, S k => h :: set_mgr t k g
  end.

(* R managers; manager i starts out knowing the peers pf i (registered with add_peer in that order) *)
Definition minitP (R : N) (pf : N -> list N) : msys :=
  MS (map (fun i => fold_left add_peer (pf i) (mgr_init i)) (N_seq R)) [].
Definition all_others (R : N) (i : N) : list N := filter (fun p => negb (N.eqb p i)) (N_seq R).
Definition minit (R : N) : msys := minitP R (all_others R).

Inductive mop :=
| MRound (r : N) (order : list N)       (* gossip_round on manager r *)
| MSuspectNode (r m : N)                (* suspect_node(m) on manager r *)
| MAddPeer (r p : N)                    (* add_peer(p) on manager r, at any time *)
| MDeliver (k : N).                     (* the network hands envelope k to its destination (it stays in the pool:
                                           duplication; never chosen: loss; any k: reordering) *)

Definition inb (s : msys) (r : N) : bool := N.ltb r (N.of_nat (length (mgrs s))).
Definition upd_sys (s : msys) (r : N) (go : mgr * list (N * gmsg)) : msys :=
  MS (set_mgr (mgrs s) (N.to_nat r) (fst go)) (mpool s ++ snd go).

(* new system and the manager the step touched (steps naming a manager that does not exist do nothing) *)
Definition mstep (s : msys) (o : mop) : msys * N :=
  match o with
  | MRound r order =>
      if inb s r then (upd_sys s r (gossip_round (nth_mgr (mgrs s) r) order), r) else (s, r)
  | MSuspectNode r m =>
      if inb s r then (upd_sys s r (suspect_node (nth_mgr (mgrs s) r) m), r) else (s, r)
  | MAddPeer r p =>
      if inb s r then (upd_sys s r (add_peer (nth_mgr (mgrs s) r) p, []), r) else (s, r)
  | MDeliver k =>
      match nth_error (mpool s) (N.to_nat k) with
      | Some (dst, m) => if inb s dst then (upd_sys s dst (handle (nth_mgr (mgrs s) dst) m), dst) else (s, dst)
      | None => (s, 0)
      end
  end.

Definition mrun (s : msys) (ops : list mop) : msys := fold_left (fun s o => fst (mstep s o)) ops s.

End Mgr.
