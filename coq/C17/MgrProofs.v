(* C17/MgrProofs.v -- the never-backwards and failed-incarnation clauses lifted from
   LWWMembershipState to the GossipMembershipManager message layer (Mgr.v): every handler is a
   composition of LWW operations, so the clock and every recorded incarnation are monotone along
   every manager step; and in a cluster of managers exchanging only the messages managers send,
   no replica ever records a member above the incarnation counter of that member's own manager
   (the counter it broadcasts in Alive when it refutes a suspicion). *)
From NV.Common Require Import Base.
From NV.C17 Require Import Types Model Proofs Mgr.
Open Scope N_scope.

Section MP.
Variable sup : upd -> upd -> bool.
Hypothesis sup_spec : SupSpec sup.
Variable maxd : N.
Variable expire : bool.

Notation merge := (merge sup).
Notation handle := (handle sup maxd).
Notation gossip_round := (gossip_round expire).
Notation suspect_node := suspect_node.
Notation add_peer := (add_peer sup).
Notation mstep := (mstep sup maxd expire).
Notation mrun := (mrun sup maxd expire).

(* ---------------- monotonicity ---------------- *)
Definition mono (s s' : st) : Prop := clock s <= clock s' /\ inc_le s s'.
Lemma mono_refl s : mono s s.
Proof. split; [lia|apply inc_le_refl]. Qed.
Lemma mono_trans a b c : mono a b -> mono b c -> mono a c.
Proof. intros [C1 I1] [C2 I2]. split; [lia|eapply inc_le_trans; eassumption]. Qed.

Lemma mono_op s o : listed o = true -> mono s (fst (step sup s o)).
Proof. intros L. exact (step_mono sup sup_spec s o L). Qed.

Lemma mono_merge s us : mono s (fst (merge s us)).
Proof. exact (mono_op s (OMerge us) eq_refl). Qed.
Lemma mono_suspect s m i : mono s (fst (suspect s m i)).
Proof. generalize (mono_op s (OSuspect m i) eq_refl). cbn [step]. destruct (suspect s m i). exact (fun H => H). Qed.
Lemma mono_fail s m : mono s (fst (fail s m)).
Proof. generalize (mono_op s (OFail m) eq_refl). cbn [step]. destruct (fail s m). exact (fun H => H). Qed.
Lemma mono_refute s m i : mono s (fst (refute s m i)).
Proof. generalize (mono_op s (ORefute m i) eq_refl). cbn [step]. destruct (refute s m i). exact (fun H => H). Qed.
Lemma mono_mark_healthy s m : mono s (fst (mark_healthy s m)).
Proof. generalize (mono_op s (OMarkHealthy m) eq_refl). cbn [step]. destruct (mark_healthy s m). exact (fun H => H). Qed.
Lemma mono_sync s t : mono s (sync_time s t).
Proof. exact (mono_op s (OSyncTime t) eq_refl). Qed.
Lemma mono_tick s : mono s (tick s).
Proof. exact (mono_op s OTick eq_refl). Qed.

Lemma mono_fails : forall ks s, mono s (fold_left (fun s k => fst (fail s k)) ks s).
Proof.
  induction ks as [|k ks IH]; intros s; cbn [fold_left]; [apply mono_refl|].
  eapply mono_trans; [apply mono_fail|apply IH].
Qed.

Lemma handle_mono g m : mono (lww g) (lww (fst (handle g m))).
Proof.
  destruct m as [sender states stime|rp sid i|n i|o t q|o t q ok]; cbn [Mgr.handle fst].
  - unfold handle_sync. cbn [lww].
    eapply mono_trans; [apply mono_sync|]. eapply mono_trans; [apply mono_merge|apply mono_merge].
  - unfold handle_suspect. destruct (N.eqb sid (me g)); cbn [fst lww]; [apply mono_refl|].
    destruct (memN sid (susp g)); cbn [fst lww]; [apply mono_refl|apply mono_suspect].
  - unfold handle_alive. destruct (N.ltb maxd _); [apply mono_refl|].
    generalize (mono_refute (lww g) n i). destruct (refute (lww g) n i) as [s b]. cbn [fst lww]. exact (fun H => H).
  - apply mono_refl.
  - unfold handle_ping_ack. destruct ok; [|apply mono_refl].
    destruct (get (lww g) t); cbn [lww]; [apply mono_mark_healthy|apply mono_refl].
Qed.

Lemma round_mono g order : mono (lww g) (lww (fst (gossip_round g order))).
Proof.
  unfold Mgr.gossip_round. destruct (targets g); cbn [fst]; [apply mono_refl|].
  destruct expire; [|apply mono_refl]. unfold expire_all. cbn [lww]. apply mono_fails.
Qed.

Lemma suspect_node_mono g m : mono (lww g) (lww (fst (suspect_node g m))).
Proof.
  unfold Mgr.suspect_node.
  assert (H : mono (lww g) (lww (if memN m (susp g) then g
     else Mg (me g) (fst (suspect (lww g) m (inc_of (lww g) m))) (susp g ++ [m]) (myinc g) (pseq g) (peers g)))).
  { destruct (memN m (susp g)); cbn [lww]; [apply mono_refl|apply mono_suspect]. }
  destruct (targets g); cbn [fst lww]; exact H.
Qed.

Lemma add_peer_mono g p : mono (lww g) (lww (add_peer g p)).
Proof.
  unfold Mgr.add_peer. cbn [lww]. destruct (get (lww g) p); [apply mono_refl|].
  eapply mono_trans; [apply mono_tick|apply mono_merge].
Qed.

(* list plumbing *)
Lemma set_mgr_length : forall l r g, length (set_mgr l r g) = length l.
Proof. induction l as [|h t IH]; intros [|r] g; cbn; auto. Qed.
Lemma nth_set_same : forall l r g d, (r < length l)%nat -> nth r (set_mgr l r g) d = g.
Proof. induction l as [|h t IH]; intros [|r] g d L; cbn in *; try lia; auto. apply IH. lia. Qed.
Lemma nth_set_other : forall l r r' g d, r <> r' -> nth r' (set_mgr l r g) d = nth r' l d.
Proof. induction l as [|h t IH]; intros [|r] [|r'] g d Ne; cbn; auto; try congruence. Qed.

Lemma inb_lt s r : inb s r = true -> (N.to_nat r < length (mgrs s))%nat.
Proof. unfold inb. rewrite N.ltb_lt. lia. Qed.

Lemma nth_mgr_upd s r go r' : inb s r = true ->
  nth_mgr (mgrs (upd_sys s r go)) r' = if N.eqb r' r then fst go else nth_mgr (mgrs s) r'.
Proof.
  intros I. apply inb_lt in I. unfold nth_mgr, upd_sys. cbn [mgrs].
  destruct (N.eqb_spec r' r) as [->|Ne].
  - apply nth_set_same. exact I.
  - apply nth_set_other. lia.
Qed.

(* one step touches one manager, by one of the three local transitions *)
Lemma mstep_cases s o :
  fst (mstep s o) = s \/
  exists r go, inb s r = true /\ fst (mstep s o) = upd_sys s r go /\
    let g := nth_mgr (mgrs s) r in
    (exists order, go = gossip_round g order) \/ (exists m, go = suspect_node g m) \/
    (exists p, go = (add_peer g p, [])) \/
    (exists k m, nth_error (mpool s) k = Some (r, m) /\ go = handle g m).
Proof.
  destruct o as [r order|r m|r p|k]; cbn [Mgr.mstep].
  - destruct (inb s r) eqn:I; [|left; reflexivity]. right. exists r, (gossip_round (nth_mgr (mgrs s) r) order).
    cbn [fst]. repeat split; auto. left. eexists; reflexivity.
  - destruct (inb s r) eqn:I; [|left; reflexivity]. right. exists r, (suspect_node (nth_mgr (mgrs s) r) m).
    cbn [fst]. repeat split; auto. right; left. eexists; reflexivity.
  - destruct (inb s r) eqn:I; [|left; reflexivity]. right. exists r, (add_peer (nth_mgr (mgrs s) r) p, []).
    cbn [fst]. repeat split; auto. right; right; left. eexists; reflexivity.
  - destruct (nth_error (mpool s) (N.to_nat k)) as [[dst m]|] eqn:E; [|left; reflexivity].
    destruct (inb s dst) eqn:I; [|left; reflexivity]. right. exists dst, (handle (nth_mgr (mgrs s) dst) m).
    cbn [fst]. repeat split; auto. right; right; right. exists (N.to_nat k), m. split; [exact E|reflexivity].
Qed.

Lemma mstep_mono s o r : mono (lww (nth_mgr (mgrs s) r)) (lww (nth_mgr (mgrs (fst (mstep s o))) r)).
Proof.
  destruct (mstep_cases s o) as [->|[r0 [go [I [-> H]]]]]; [apply mono_refl|].
  rewrite nth_mgr_upd by exact I. destruct (N.eqb_spec r r0) as [->|]; [|apply mono_refl].
  cbn zeta in H. destruct H as [[order ->]|[[m ->]|[[p ->]|[k [m [_ ->]]]]]].
  - apply round_mono.
  - apply suspect_node_mono.
  - cbn [fst]. apply add_peer_mono.
  - apply handle_mono.
Qed.

(* NEVER BACKWARDS at the manager layer: along any schedule of rounds, local suspicions and message
   deliveries (any order, duplication, loss), on every manager the Lamport clock and every recorded
   incarnation are non-decreasing and a recorded member never disappears. *)
Theorem mrun_mono : forall ops s r,
  mono (lww (nth_mgr (mgrs s) r)) (lww (nth_mgr (mgrs (mrun s ops)) r)).
Proof.
  induction ops as [|o ops IH]; intros s r; cbn [Mgr.mrun fold_left]; [apply mono_refl|].
  eapply mono_trans; [apply (mstep_mono s o r)|apply IH].
Qed.

(* ---------------- the incarnation bound ---------------- *)
(* EB a s: no binding in the register list of replica state s is above the bound a (element-wise, so
   it also covers what a Sync message copies out of the list); RB: the same for what `get` returns *)
Definition EB (a : N -> N) (s : st) : Prop := forall m u, In (m, u) (regs s) -> inc u <= a m.
Definition RB (a : N -> N) (s : st) : Prop := forall m e, get s m = Some e -> inc e <= a m.
Definition us_ok (a : N -> N) (us : list (N * upd)) : Prop := forall m u, In (m, u) us -> inc u <= a m.
Definition msg_ok (a : N -> N) (m : gmsg) : Prop :=
  match m with
  | GSync _ states _ => us_ok a states
  | GAliv n i => i <= a n
  | _ => True
  end.
Definition out_ok (a : N -> N) (out : list (N * gmsg)) : Prop := forall d m, In (d, m) out -> msg_ok a m.

Lemma aget_in {V} : forall (l : list (N * V)) k v, aget l k = Some v -> In (k, v) l.
Proof.
  induction l as [|[k0 v0] l IH]; intros k v; cbn; [discriminate|].
  destruct (N.eqb_spec k0 k) as [->|]; [intros [= ->]; left; reflexivity|intros H; right; apply IH; exact H].
Qed.
Lemma in_aset {V} : forall (l : list (N * V)) k v x, In x (aset l k v) -> x = (k, v) \/ In x l.
Proof.
  induction l as [|[k0 v0] l IH]; intros k v x; cbn.
  - intros [<-|[]]. left; reflexivity.
  - destruct (N.eqb k0 k); cbn.
    + intros [<-|H]; [left; reflexivity|right; right; exact H].
    + intros [<-|H]; [right; left; reflexivity|]. destruct (IH _ _ _ H); [left; assumption|right; right; assumption].
Qed.

Lemma EB_RB a s : EB a s -> RB a s.
Proof. intros H m e G. apply H. apply aget_in. exact G. Qed.
Lemma EB_weaken a a' s : (forall k, a k <= a' k) -> EB a s -> EB a' s.
Proof. intros L H m e G. specialize (H _ _ G). specialize (L m). lia. Qed.
Lemma msg_ok_weaken a a' m : (forall k, a k <= a' k) -> msg_ok a m -> msg_ok a' m.
Proof.
  intros L. destruct m; cbn; auto.
  - intros H m u I. specialize (H _ _ I). specialize (L m). lia.
  - intros H. specialize (L node). lia.
Qed.

Lemma EB_set a s m u c : EB a s -> inc u <= a m -> EB a (St (aset (regs s) m u) c).
Proof.
  intros H Hu k e I. cbn [regs] in I. destruct (in_aset _ _ _ _ I) as [[= -> ->]|I']; [exact Hu|apply H; exact I'].
Qed.

Lemma EB_merge a s us : EB a s -> us_ok a us -> EB a (fst (merge s us)).
Proof.
  intros H U. unfold Model.merge.
  assert (F : forall us0 acc, (forall m u, In (m, u) us0 -> inc u <= a m) ->
                              (forall m u, In (m, u) (fst acc) -> inc u <= a m) ->
                              forall m u, In (m, u) (fst (fold_left (merge1 sup) us0 acc)) -> inc u <= a m).
  { induction us0 as [|[k v] us0 IH]; intros acc U0 A0; cbn [fold_left]; [exact A0|].
    apply IH; [intros m u I; apply U0; right; exact I|].
    destruct acc as [rg ch]. cbn [merge1 fst] in *.
    assert (S : forall m u, In (m, u) (aset rg k v) -> inc u <= a m).
    { intros m u I. destruct (in_aset _ _ _ _ I) as [[= -> ->]|I']; [apply U0; left; reflexivity|apply A0; exact I']. }
    destruct (aget rg k); [destruct (sup v u)|]; cbn [fst]; auto. }
  specialize (F us (regs s, []) U H).
  destruct (fold_left (merge1 sup) us (regs s, [])) as [rg ch]. cbn [fst] in F.
  destruct (max_ts us); cbn [fst]; intros m u I; apply F; exact I.
Qed.
Lemma EB_suspect a s m i : EB a s -> EB a (fst (suspect s m i)).
Proof.
  intros H. unfold suspect. destruct (get s m) as [e0|] eqn:G0; [|exact H].
  destruct (_ && _); cbn [fst]; [|exact H]. apply EB_set; [exact H|cbn; eapply (EB_RB _ _ H); exact G0].
Qed.
Lemma EB_fail a s m : EB a s -> EB a (fst (fail s m)).
Proof.
  intros H. unfold fail. destruct (get s m) as [e0|] eqn:G0; [|exact H].
  destruct (negb _); cbn [fst]; [|exact H]. apply EB_set; [exact H|cbn; eapply (EB_RB _ _ H); exact G0].
Qed.
Lemma EB_mark_healthy a s m : EB a s -> EB a (fst (mark_healthy s m)).
Proof.
  intros H. unfold mark_healthy. destruct (get s m) as [e0|] eqn:G0; [|exact H].
  destruct (negb _); cbn [fst]; [|exact H]. apply EB_set; [exact H|cbn; eapply (EB_RB _ _ H); exact G0].
Qed.
Lemma EB_refute a s m i : EB a s -> i <= a m -> EB a (fst (refute s m i)).
Proof.
  intros H Hi. unfold refute. destruct (get s m) as [e0|] eqn:G0; [|exact H].
  destruct (N.ltb (inc e0) i); cbn [fst]; [|exact H]. apply EB_set; [exact H|cbn; exact Hi].
Qed.
Lemma EB_fails a : forall ks s, EB a s -> EB a (fold_left (fun s k => fst (fail s k)) ks s).
Proof. induction ks as [|k ks IH]; intros s H; cbn [fold_left]; [exact H|]. apply IH. apply EB_fail. exact H. Qed.

(* ---- one manager: each local transition keeps the bound, and what it sends respects it ---- *)
(* the bound after manager g moved to g': its own entry follows its incarnation counter *)
Definition bump (a : N -> N) (g' : mgr) : N -> N := fun k => if N.eqb k (me g') then myinc g' else a k.

Definition local_ok (a : N -> N) (g : mgr) (go : mgr * list (N * gmsg)) : Prop :=
  me (fst go) = me g /\ myinc g <= myinc (fst go) /\ EB (bump a (fst go)) (lww (fst go)) /\ out_ok (bump a (fst go)) (snd go).

Lemma bump_ge a g g' : a (me g) = myinc g -> me g' = me g -> myinc g <= myinc g' -> forall k, a k <= bump a g' k.
Proof. intros A M L k. unfold bump. rewrite M. destruct (N.eqb_spec k (me g)) as [->|]; lia. Qed.

Lemma bump_same a g g' : a (me g) = myinc g -> me g' = me g -> myinc g' = myinc g -> forall k, bump a g' k = a k.
Proof. intros A M L k. unfold bump. rewrite M, L. destruct (N.eqb_spec k (me g)) as [->|]; auto. Qed.

(* transitions that leave the counter alone *)
Lemma local_same a g g' out :
  a (me g) = myinc g -> me g' = me g -> myinc g' = myinc g -> EB a (lww g') -> out_ok a out ->
  local_ok a g (g', out).
Proof.
  intros A M L E O. unfold local_ok. cbn [fst snd]. split; [exact M|]. split; [lia|].
  assert (B : forall k, a k <= bump a g' k) by (intros k; rewrite (bump_same a g g' A M L); lia).
  split; [eapply EB_weaken; [exact B|exact E]|].
  intros d m I. eapply msg_ok_weaken; [exact B|]. eapply O; exact I.
Qed.

Lemma out_nil a : out_ok a [].
Proof. intros d m []. Qed.

Lemma handle_ok a g m : a (me g) = myinc g -> EB a (lww g) -> msg_ok a m -> local_ok a g (handle g m).
Proof.
  intros A E Mo.
  destruct m as [sender states stime|rp sid i|n i|o t q|o t q ok]; cbn [Mgr.handle].
  - apply local_same; auto; [|apply out_nil]. unfold handle_sync. cbn [lww].
    set (s1 := sync_time (lww g) stime).
    assert (E1 : EB a s1) by exact E.
    assert (E2 : EB a (fst (merge s1 (filter (delta_ok maxd s1) states)))).
    { apply EB_merge; [exact E1|]. intros m u I. apply filter_In in I. destruct I as [I _]. exact (Mo _ _ I). }
    apply EB_merge; [exact E2|]. intros m u [[= <- <-]|[]]. cbn [inc]. unfold inc_of.
    destruct (get _ sender) as [e|] eqn:G; [eapply (EB_RB _ _ E2); exact G|lia].
  - unfold handle_suspect. destruct (N.eqb_spec sid (me g)) as [->|Ne].
    + unfold local_ok. cbn [fst snd me myinc lww]. split; [reflexivity|]. split; [lia|].
      assert (B : forall k, a k <= bump a (Mg (me g) (lww g) (susp g) (myinc g + 1) (pseq g) (peers g)) k).
      { apply (bump_ge a g); cbn; auto; lia. }
      split; [eapply EB_weaken; [exact B|exact E]|].
      intros d m I. apply in_map_iff in I. destruct I as [t [[= <- <-] _]]. cbn. unfold bump. cbn. rewrite N.eqb_refl. lia.
    + destruct (memN sid (susp g)); [apply local_same; auto; apply out_nil|].
      apply local_same; auto; [|apply out_nil]. cbn [lww]. apply EB_suspect. exact E.
  - unfold handle_alive. destruct (N.ltb maxd _); [apply local_same; auto; apply out_nil|].
    destruct (refute (lww g) n i) as [s b] eqn:R.
    apply local_same; auto; [|apply out_nil]. cbn [lww].
    change s with (fst (s, b)). rewrite <- R. apply EB_refute; [exact E|exact Mo].
  - apply local_same; auto. intros d m [[= <- <-]|[]]. exact Logic.I.
  - unfold handle_ping_ack. destruct ok; [|apply local_same; auto; apply out_nil].
    destruct (get (lww g) t); [|apply local_same; auto; apply out_nil].
    apply local_same; auto; [|apply out_nil]. cbn [lww]. apply EB_mark_healthy. exact E.
Qed.

Lemma regs_us_ok a s : EB a s -> us_ok a (regs s).
Proof. intros H m u I. apply H. exact I. Qed.

Lemma round_ok a g order : a (me g) = myinc g -> EB a (lww g) -> local_ok a g (gossip_round g order).
Proof.
  intros A E. unfold Mgr.gossip_round. destruct (targets g) as [|t ts] eqn:T; [apply local_same; auto; apply out_nil|].
  apply local_same; auto.
  - destruct expire; reflexivity.
  - destruct expire; reflexivity.
  - destruct expire; [|exact E]. unfold expire_all. cbn [lww]. apply EB_fails. exact E.
  - intros d m I. apply in_map_iff in I. destruct I as [x [[= <- <-] _]]. cbn. apply regs_us_ok. exact E.
Qed.

Lemma suspect_node_ok a g m : a (me g) = myinc g -> EB a (lww g) -> local_ok a g (suspect_node g m).
Proof.
  intros A E. unfold Mgr.suspect_node.
  set (g1 := if memN m (susp g) then g else _).
  assert (M1 : me g1 = me g) by (unfold g1; destruct (memN m (susp g)); reflexivity).
  assert (I1 : myinc g1 = myinc g) by (unfold g1; destruct (memN m (susp g)); reflexivity).
  assert (E1 : EB a (lww g1)).
  { unfold g1; destruct (memN m (susp g)); [exact E|]. cbn [lww]. apply EB_suspect. exact E. }
  assert (O1 : out_ok a (map (fun t => (t, GSusp (me g) m (inc_of (lww g) m))) (targets g))).
  { intros d x I. apply in_map_iff in I. destruct I as [t [[= <- <-] _]]. exact Logic.I. }
  destruct (targets g) as [|t ts] eqn:T; [apply local_same; auto|].
  apply local_same; auto. intros d x I. apply in_app_or in I. destruct I as [I|I]; [eapply O1; exact I|].
  apply in_map_iff in I. destruct I as [y [[= <- <-] _]]. exact Logic.I.
Qed.

Lemma add_peer_ok a g p : a (me g) = myinc g -> EB a (lww g) -> local_ok a g (add_peer g p, []).
Proof.
  intros A E. apply local_same; auto; [|apply out_nil].
  unfold Mgr.add_peer. cbn [lww]. destruct (get (lww g) p); [exact E|].
  apply EB_merge; [exact E|]. intros m u [[= <- <-]|[]]. cbn. apply N.le_0_l.
Qed.

(* ---- the cluster ---- *)
Definition A (s : msys) (m : N) : N := myinc (nth_mgr (mgrs s) m).

Record MInv (s : msys) : Prop := {
  mi_regs : forall r, EB (A s) (lww (nth_mgr (mgrs s) r));
  mi_pool : out_ok (A s) (mpool s);
  mi_me : forall r, me (nth_mgr (mgrs s) r) = r
}.

Lemma A_upd s r go : inb s r = true -> me (fst go) = r ->
  forall k, A (upd_sys s r go) k = bump (A s) (fst go) k.
Proof.
  intros I M k. unfold A, bump. rewrite nth_mgr_upd by exact I. rewrite M. destruct (N.eqb k r); reflexivity.
Qed.

Lemma upd_inv s r go : inb s r = true -> MInv s -> local_ok (A s) (nth_mgr (mgrs s) r) go -> MInv (upd_sys s r go).
Proof.
  intros I [Hr Hp Hm] [M [L [E O]]]. rewrite Hm in M.
  assert (AE : forall k, A (upd_sys s r go) k = bump (A s) (fst go) k) by (apply A_upd; auto).
  assert (B : forall k, A s k <= A (upd_sys s r go) k).
  { intros k. rewrite AE. apply (bump_ge (A s) (nth_mgr (mgrs s) r)); auto.
    - unfold A. rewrite Hm. reflexivity.
    - rewrite Hm. exact M. }
  split.
  - intros r'. rewrite nth_mgr_upd by exact I. destruct (N.eqb_spec r' r) as [->|].
    + eapply EB_weaken; [|exact E]. intros k. rewrite AE. lia.
    + eapply EB_weaken; [exact B|apply Hr].
  - intros d m In0. cbn [upd_sys mpool] in In0. apply in_app_or in In0. destruct In0 as [In0|In0].
    + eapply msg_ok_weaken; [exact B|]. eapply Hp; exact In0.
    + eapply msg_ok_weaken; [|eapply O; exact In0]. intros k. rewrite AE. lia.
  - intros r'. rewrite nth_mgr_upd by exact I. destruct (N.eqb_spec r' r) as [->|]; [exact M|apply Hm].
Qed.

Lemma mstep_inv s o : MInv s -> MInv (fst (mstep s o)).
Proof.
  intros H. destruct (mstep_cases s o) as [->|[r [go [I [-> C]]]]]; [exact H|].
  apply upd_inv; auto. cbn zeta in C.
  assert (Aeq : A s (me (nth_mgr (mgrs s) r)) = myinc (nth_mgr (mgrs s) r)).
  { rewrite (mi_me _ H). reflexivity. }
  destruct C as [[order ->]|[[m ->]|[[p ->]|[k [m [E ->]]]]]].
  - apply round_ok; [exact Aeq|apply (mi_regs _ H)].
  - apply suspect_node_ok; [exact Aeq|apply (mi_regs _ H)].
  - apply add_peer_ok; [exact Aeq|apply (mi_regs _ H)].
  - apply handle_ok; [exact Aeq|apply (mi_regs _ H)|]. eapply (mi_pool _ H). eapply nth_error_In. exact E.
Qed.

Lemma mrun_inv : forall ops s, MInv s -> MInv (mrun s ops).
Proof. induction ops as [|o ops IH]; intros s H; cbn [Mgr.mrun fold_left]; [exact H|]. apply IH. apply mstep_inv. exact H. Qed.

(* the initial cluster: R managers, each knowing every other one as a peer *)
Lemma add_peer_me g p : me (add_peer g p) = me g /\ myinc (add_peer g p) = myinc g.
Proof. split; reflexivity. Qed.

Lemma add_peers_init : forall ps g a, EB a (lww g) ->
  let g' := fold_left add_peer ps g in EB a (lww g') /\ me g' = me g /\ myinc g' = myinc g.
Proof.
  induction ps as [|p ps IH]; intros g a E; cbn [fold_left]; [auto|].
  destruct (IH (add_peer g p) a) as [E' [M' I']].
  - unfold Mgr.add_peer. cbn [lww]. destruct (get (lww g) p); [exact E|].
    apply EB_merge; [exact E|]. intros m u [[= <- <-]|[]]. cbn. lia.
  - cbn zeta. split; [exact E'|]. split; [rewrite M'|rewrite I']; reflexivity.
Qed.

Lemma N_seq_from_nth : forall c st k d, (k < c)%nat -> nth k (N_seq_from st c) d = st + N.of_nat k.
Proof.
  induction c as [|c IH]; intros st k d L; [lia|]. cbn [N_seq_from]. destruct k as [|k]; cbn [nth]; [lia|].
  rewrite IH by lia. lia.
Qed.
Lemma N_seq_from_length : forall c st, length (N_seq_from st c) = c.
Proof. induction c as [|c IH]; intros st; cbn; auto. Qed.

Lemma minit_inv R pf : MInv (minitP sup R pf).
Proof.
  assert (Nth : forall r, let g := nth_mgr (mgrs (minitP sup R pf)) r in
                          me g = r /\ myinc g = 0 /\ EB (fun _ => 0) (lww g)).
  { intros r. unfold nth_mgr, minitP. cbn [mgrs].
    destruct (Nat.lt_ge_cases (N.to_nat r) (N.to_nat R)) as [L|L].
    - set (f := fun i => fold_left add_peer (pf i) (mgr_init i)).
      rewrite (nth_indep _ _ (f 0)) by (rewrite map_length; unfold N_seq; rewrite N_seq_from_length; exact L).
      rewrite (map_nth f). unfold N_seq. rewrite N_seq_from_nth by exact L.
      replace (0 + N.of_nat (N.to_nat r)) with r by lia. unfold f.
      destruct (add_peers_init (pf r) (mgr_init r) (fun _ => 0)) as [E [M I]].
      + unfold mgr_init, update_local. cbn [lww]. apply EB_set; [intros m u []|cbn; lia].
      + cbn zeta in *. split; [exact M|]. split; [exact I|exact E].
    - rewrite nth_overflow by (rewrite map_length; unfold N_seq; rewrite N_seq_from_length; exact L).
      cbn. repeat split; auto. intros m u []. }
  split.
  - intros r. destruct (Nth r) as [_ [_ E]]. eapply EB_weaken; [|exact E]. intros k. cbv beta. apply N.le_0_l.
  - intros d m [].
  - intros r. apply (Nth r).
Qed.

(* FAILED-INCARNATION BOUND at the manager layer: in every state a cluster of R managers can reach
   (rounds, local suspicions, deliveries in any order with duplication and loss), no manager records a
   member -- as Failed or otherwise -- above the incarnation counter of that member's own manager,
   i.e. above the highest incarnation that member announced in an Alive message. *)
Theorem mgr_failed_inc_bounded : forall R pf ops r m e,
  get (lww (nth_mgr (mgrs (mrun (minitP sup R pf) ops)) r)) m = Some e -> health e = 2 ->
  inc e <= myinc (nth_mgr (mgrs (mrun (minitP sup R pf) ops)) m).
Proof.
  intros R pf ops r m e G _. pose proof (mrun_inv ops _ (minit_inv R pf)) as H.
  exact (EB_RB _ _ (mi_regs _ H r) m e G).
Qed.

(* every Alive a manager has in flight was sent by its subject and carries at most that manager's counter *)
Theorem mgr_alive_announced : forall R pf ops d n i,
  In (d, GAliv n i) (mpool (mrun (minitP sup R pf) ops)) -> i <= myinc (nth_mgr (mgrs (mrun (minitP sup R pf) ops)) n).
Proof.
  intros R pf ops d n i I. pose proof (mrun_inv ops _ (minit_inv R pf)) as H. exact (mi_pool _ H _ _ I).
Qed.

End MP.
