(* C17/Model.v -- executable model of LWWMembershipState (tensor_chain/src/gossip.rs).
   Definitions only.  `sup` is GossipNodeState::supersedes; the instance used by the
   theorems and by the correspondence runs is the one the translator regenerates from
   the Rust source on every run (gen/Gen_C17.v, tied in Inst.v). *)
From NV.Common Require Import Base.
From NV.C17 Require Import Types.
Open Scope N_scope.

Section Model.
Variable sup : upd -> upd -> bool.

(* LWWMembershipState { states: HashMap<NodeId, GossipNodeState>, lamport_time } *)
Record st := St { regs : list (N * upd); clock : N }.
Definition init : st := St [] 0.
Definition get (s : st) (m : N) : option upd := aget (regs s) m.

(* one incoming state in merge(): insert when absent or when it supersedes *)
Definition merge1_reg (r : option upd) (u : upd) : option upd :=
  match r with
  | None => Some u
  | Some e => if sup u e then Some u else Some e
  end.

(* (regs, changed-so-far) after one incoming (member, state) *)
Definition merge1 (acc : list (N * upd) * list N) (mu : N * upd) : list (N * upd) * list N :=
  let '(rg, ch) := acc in
  let '(m, u) := mu in
  match aget rg m with
  | None => (aset rg m u, ch ++ [m])
  | Some e => if sup u e then (aset rg m u, ch ++ [m]) else (rg, ch)
  end.

Definition max_ts (us : list (N * upd)) : option N :=
  match us with
  | [] => None
  | _ => Some (fold_left (fun a mu => N.max a (ts (snd mu))) us 0)
  end.

Definition sync_time (s : st) (t : N) : st := St (regs s) (N.max (clock s) t + 1).
Definition tick (s : st) : st := St (regs s) (clock s + 1).

(* merge(&mut self, incoming) -> changed *)
Definition merge (s : st) (us : list (N * upd)) : st * list N :=
  let '(rg, ch) := fold_left merge1 us (regs s, []) in
  let s1 := St rg (clock s) in
  match max_ts us with
  | Some t => (sync_time s1 t, ch)
  | None => (s1, ch)
  end.

Definition update_local (s : st) (m h i : N) : st :=
  let s1 := tick s in
  St (aset (regs s1) m (U h (clock s1) i)) (clock s1).

Definition suspect (s : st) (m i : N) : st * bool :=
  match get s m with
  | Some e =>
      if N.eqb (inc e) i && negb (N.eqb (health e) 2) then
        let s1 := tick s in
        (St (aset (regs s1) m (U 1 (clock s1) (inc e))) (clock s1), true)
      else (s, false)
  | None => (s, false)
  end.

Definition fail (s : st) (m : N) : st * bool :=
  match get s m with
  | Some e =>
      if negb (N.eqb (health e) 2) then
        let s1 := tick s in
        (St (aset (regs s1) m (U 2 (clock s1) (inc e))) (clock s1), true)
      else (s, false)
  | None => (s, false)
  end.

Definition refute (s : st) (m i : N) : st * bool :=
  match get s m with
  | Some e =>
      if N.ltb (inc e) i then
        let s1 := tick s in
        (St (aset (regs s1) m (U 0 (clock s1) i)) (clock s1), true)
      else (s, false)
  | None => (s, false)
  end.

Definition mark_healthy (s : st) (m : N) : st * bool :=
  match get s m with
  | Some e =>
      if negb (N.eqb (health e) 0) then
        let s1 := tick s in
        (St (aset (regs s1) m (U 0 (clock s1) (inc e))) (clock s1), true)
      else (s, false)
  | None => (s, false)
  end.

Inductive op :=
| OMerge (us : list (N * upd))
| OSuspect (m i : N)
| OFail (m : N)
| ORefute (m i : N)
| OMarkHealthy (m : N)
| OUpdateLocal (m h i : N)
| OSyncTime (t : N)
| OTick.

(* the return value of each call, as a list of N: changed ids, or [0]/[1] for bool *)
Definition b2l (b : bool) : list N := if b then [1] else [0].

Definition step (s : st) (o : op) : st * list N :=
  match o with
  | OMerge us => merge s us
  | OSuspect m i => let '(s', b) := suspect s m i in (s', b2l b)
  | OFail m => let '(s', b) := fail s m in (s', b2l b)
  | ORefute m i => let '(s', b) := refute s m i in (s', b2l b)
  | OMarkHealthy m => let '(s', b) := mark_healthy s m in (s', b2l b)
  | OUpdateLocal m h i => (update_local s m h i, [])
  | OSyncTime t => (sync_time s t, [])
  | OTick => (tick s, [])
  end.

Definition run (s : st) (ops : list op) : st := fold_left (fun s o => fst (step s o)) ops s.

(* the events the property lists (update_local with a caller-chosen incarnation is not
   one of them: it can lower an incarnation by construction) *)
Definition listed (o : op) : bool :=
  match o with OUpdateLocal _ _ _ => false | _ => true end.

End Model.
