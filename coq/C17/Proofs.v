(* C17/Proofs.v -- lemmas about the LWW membership model, for ANY `sup` that is the
   strict lexicographic order on (incarnation, timestamp). *)
From NV.Common Require Import Base.
From NV.C17 Require Import Types Model.
From Coq Require Import Permutation.
Open Scope N_scope.

Definition klt (a b : upd) : Prop := inc a < inc b \/ (inc a = inc b /\ ts a < ts b).
Definition keq (a b : upd) : Prop := inc a = inc b /\ ts a = ts b.
Definition SupSpec (sup : upd -> upd -> bool) : Prop := forall a b, sup a b = true <-> klt b a.

(* the known class: two updates for one member with equal (incarnation, timestamp)
   and different health *)
Definition tie_conflict (a b : upd) : Prop := keq a b /\ health a <> health b.
Definition NoTie (l : list upd) : Prop :=
  forall a b, In a l -> In b l -> keq a b -> health a = health b.

Lemma klt_total a b : klt a b \/ keq a b \/ klt b a.
Proof. unfold klt, keq. lia. Qed.
Lemma upd_eq a b : keq a b -> health a = health b -> a = b.
Proof. destruct a, b; unfold keq; cbn; intros [-> ->] ->; reflexivity. Qed.

Section P.
Variable sup : upd -> upd -> bool.
Hypothesis sup_spec : SupSpec sup.

Notation merge1_reg := (merge1_reg sup).
Notation merge1 := (merge1 sup).
Notation merge := (merge sup).
Notation step := (step sup).
Notation run := (run sup).

Definition mreg (r : option upd) (us : list upd) : option upd := fold_left merge1_reg us r.

Lemma mreg_char : forall us r0 r, mreg r0 us = Some r ->
  (r0 = Some r \/ In r us) /\
  (forall e, r0 = Some e -> ~ klt r e) /\ (forall u, In u us -> ~ klt r u).
Proof.
  unfold mreg. induction us as [|u us IH]; intros r0 r H; cbn in H.
  - subst r0. repeat split; auto. intros e [= ->]. unfold klt; lia.
  - apply IH in H. destruct H as [Hin [Hst Hus]].
    destruct r0 as [e|]; cbn [Model.merge1_reg] in *.
    + destruct (sup u e) eqn:S.
      * apply sup_spec in S. repeat split.
        -- destruct Hin as [[= <-]|Hin]; [right; left; reflexivity|right; right; exact Hin].
        -- intros e' [= <-]. specialize (Hst u eq_refl). unfold klt in *. lia.
        -- intros x [<-|Hx]; [apply Hst; reflexivity|apply Hus; exact Hx].
      * assert (~ klt e u) as Neu by (intro K; apply sup_spec in K; congruence).
        repeat split.
        -- destruct Hin as [Hin|Hin]; [left; exact Hin|right; right; exact Hin].
        -- exact Hst.
        -- intros x [<-|Hx]; [|apply Hus; exact Hx]. specialize (Hst e eq_refl). unfold klt in *. lia.
    + repeat split.
      * destruct Hin as [[= <-]|Hin]; [right; left; reflexivity|right; right; exact Hin].
      * intros e [=].
      * intros x [<-|Hx]; [apply Hst; reflexivity|apply Hus; exact Hx].
Qed.

Lemma mreg_some : forall us r0, (r0 <> None \/ us <> []) -> exists r, mreg r0 us = Some r.
Proof.
  unfold mreg. induction us as [|u us IH]; intros r0 H; cbn.
  - destruct r0; [eauto|destruct H; congruence].
  - apply IH. left. destruct r0 as [e|]; cbn; [destruct (sup u e)|]; discriminate.
Qed.

(* Same SET of updates (order, grouping, repetition all free) => same register,
   unless the set (with the initial entry) contains a tie-conflict. *)
Lemma mreg_set_independent : forall r0 us us',
  (forall x, In x us <-> In x us') ->
  NoTie (match r0 with Some e => e :: us | None => us end) ->
  mreg r0 us = mreg r0 us'.
Proof.
  intros r0 us us' P NT.
  destruct us as [|u0 us0] eqn:Eus.
  - destruct us' as [|x ?]; [reflexivity|]. exfalso. apply (P x). left; reflexivity.
  - rewrite <- Eus in *. assert (Hne : us <> []) by (rewrite Eus; discriminate).
    assert (Hne' : us' <> []).
    { intro. subst us'. rewrite Eus in P. apply (P u0). left; reflexivity. }
    destruct (mreg_some us r0) as [r Hr]; [right; exact Hne|].
    destruct (mreg_some us' r0) as [r' Hr']; [right; exact Hne'|].
    rewrite Hr, Hr'. f_equal.
    destruct (mreg_char _ _ _ Hr) as [Hin [Hst Hus]].
    destruct (mreg_char _ _ _ Hr') as [Hin' [Hst' Hus']].
    set (all := match r0 with Some e => e :: us | None => us end) in *.
    assert (A: In r all).
    { unfold all. destruct Hin as [->|Hin]; [left; reflexivity|destruct r0; [right|]; exact Hin]. }
    assert (A': In r' all).
    { unfold all. destruct Hin' as [->|Hin']; [left; reflexivity|].
      apply P in Hin'. destruct r0; [right|]; exact Hin'. }
    assert (M: forall x, In x all -> ~ klt r x).
    { unfold all. intros x Hx. destruct r0 as [e|];
        [destruct Hx as [<-|Hx]; [apply Hst; reflexivity|]|]; apply Hus; exact Hx. }
    assert (M': forall x, In x all -> ~ klt r' x).
    { unfold all. intros x Hx. destruct r0 as [e|];
        [destruct Hx as [<-|Hx]; [apply Hst'; reflexivity|]|]; apply Hus'; apply P; exact Hx. }
    destruct (klt_total r r') as [K|[K|K]].
    + exfalso. exact (M _ A' K).
    + apply upd_eq; [exact K|]. apply NT; auto.
    + exfalso. exact (M' _ A K).
Qed.

(* ---- lifting to the member map ---- *)
Definition proj (m : N) (us : list (N * upd)) : list upd :=
  map snd (filter (fun mu => N.eqb (fst mu) m) us).

Lemma proj_app m a b : proj m (a ++ b) = proj m a ++ proj m b.
Proof. unfold proj. rewrite filter_app, map_app. reflexivity. Qed.

Lemma fold_merge1_get : forall us rg ch m,
  aget (fst (fold_left merge1 us (rg, ch))) m = mreg (aget rg m) (proj m us).
Proof.
  induction us as [|[k u] us IH]; intros rg ch m; [reflexivity|].
  cbn [fold_left]. unfold proj, mreg in *. cbn [filter fst].
  unfold Model.merge1 at 2.
  destruct (N.eqb_spec k m) as [->|Hne].
  - cbn [map snd fold_left].
    destruct (aget rg m) as [e|] eqn:G; cbn [Model.merge1_reg].
    + destruct (sup u e); rewrite IH; [rewrite aget_aset, N.eqb_refl|rewrite G]; reflexivity.
    + rewrite IH, aget_aset, N.eqb_refl. reflexivity.
  - destruct (aget rg k) as [e|] eqn:G.
    + destruct (sup u e); rewrite IH; [rewrite aget_aset|]; [|reflexivity].
      destruct (N.eqb_spec k m); [contradiction|reflexivity].
    + rewrite IH, aget_aset. destruct (N.eqb_spec k m); [contradiction|reflexivity].
Qed.

Lemma merge_get s us m : get (fst (merge s us)) m = mreg (get s m) (proj m us).
Proof.
  unfold Model.merge, get.
  pose proof (fold_merge1_get us (regs s) [] m) as H.
  destruct (fold_left merge1 us (regs s, [])) as [rg ch]. cbn [fst] in H.
  destruct (max_ts us); cbn; exact H.
Qed.

Definition merge_batches (s : st) (bs : list (list (N * upd))) : st :=
  fold_left (fun s b => fst (merge s b)) bs s.

Lemma merge_batches_get : forall bs s m,
  get (merge_batches s bs) m = mreg (get s m) (proj m (concat bs)).
Proof.
  induction bs as [|b bs IH]; intros s m; [reflexivity|].
  cbn [merge_batches fold_left concat]. fold (merge_batches (fst (merge s b)) bs).
  rewrite IH, merge_get, proj_app. unfold mreg. rewrite fold_left_app. reflexivity.
Qed.

Lemma in_proj m u us : In u (proj m us) <-> In (m, u) us.
Proof.
  unfold proj. rewrite in_map_iff. split.
  - intros [[k v] [E H]]. cbn in E. subst v. apply filter_In in H. destruct H as [H K].
    cbn in K. apply N.eqb_eq in K. subst k. exact H.
  - intros H. exists (m, u). split; [reflexivity|]. apply filter_In. split; [exact H|].
    cbn. apply N.eqb_refl.
Qed.

(* CONVERGENCE.  Two replicas starting from equal views of member m that receive the same
   SET of updates -- in any order, any grouping into merge batches, any repetition --
   end with the identical register for m (health, timestamp and incarnation), provided the
   updates for m (and the initial entry) contain no tie-conflict. *)
Theorem convergence : forall s s' bs bs' m,
  get s m = get s' m ->
  (forall x, In x (concat bs) <-> In x (concat bs')) ->
  NoTie (match get s m with Some e => e :: proj m (concat bs) | None => proj m (concat bs) end) ->
  get (merge_batches s bs) m = get (merge_batches s' bs') m.
Proof.
  intros s s' bs bs' m E P NT. rewrite !merge_batches_get, <- E.
  apply mreg_set_independent; [|exact NT].
  intros x. rewrite !in_proj. apply P.
Qed.

(* ---- monotonicity of the clock and of recorded incarnations ---- *)
Definition inc_le (s s' : st) : Prop :=
  forall m e, get s m = Some e -> exists e', get s' m = Some e' /\ inc e <= inc e'.

Lemma inc_le_refl s : inc_le s s.
Proof. intros m e H. exists e. split; [exact H|lia]. Qed.
Lemma inc_le_regs s s' : regs s' = regs s -> inc_le s s'.
Proof. intros E m e H. exists e. unfold get in *. rewrite E. split; [exact H|lia]. Qed.
Lemma inc_le_trans a b c : inc_le a b -> inc_le b c -> inc_le a c.
Proof.
  intros H1 H2 m e G. destruct (H1 _ _ G) as [e1 [G1 L1]]. destruct (H2 _ _ G1) as [e2 [G2 L2]].
  exists e2. split; [exact G2|lia].
Qed.

Lemma inc_le_set s m e0 u c :
  get s m = Some e0 -> inc e0 <= inc u -> inc_le s (St (aset (regs s) m u) c).
Proof.
  intros G L k e Gk. unfold get in *. cbn [regs]. rewrite aget_aset.
  destruct (N.eqb_spec m k) as [<-|Hne].
  - exists u. split; [reflexivity|]. rewrite G in Gk. injection Gk as <-. exact L.
  - exists e. split; [exact Gk|lia].
Qed.

Lemma mreg_inc_mono us e r : mreg (Some e) us = Some r -> inc e <= inc r.
Proof.
  intros H. destruct (mreg_char _ _ _ H) as [_ [Hst _]]. specialize (Hst e eq_refl).
  unfold klt in Hst. lia.
Qed.

Lemma merge_inc_le s us : inc_le s (fst (merge s us)).
Proof.
  intros m e G. rewrite merge_get, G.
  destruct (mreg_some (proj m us) (Some e)) as [r Hr]; [left; discriminate|].
  exists r. split; [exact Hr|]. eapply mreg_inc_mono; exact Hr.
Qed.

Lemma fold_max_ge : forall (us : list (N * upd)) a, a <= fold_left (fun a mu => N.max a (ts (snd mu))) us a.
Proof.
  induction us as [|u us IH]; intros a; cbn [fold_left]; [lia|].
  specialize (IH (N.max a (ts (snd u)))). lia.
Qed.

Lemma merge_clock s us : clock s <= clock (fst (merge s us)).
Proof.
  unfold Model.merge. destruct (fold_left merge1 us (regs s, [])) as [rg ch].
  destruct (max_ts us); cbn; lia.
Qed.

Lemma step_mono s o : listed o = true ->
  clock s <= clock (fst (step s o)) /\ inc_le s (fst (step s o)).
Proof.
  destruct o; cbn [listed Model.step]; intros L; try discriminate.
  - split; [apply merge_clock|apply merge_inc_le].
  - unfold suspect. destruct (get s m) as [e|] eqn:G; [|split; [cbn; lia|apply inc_le_refl]].
    destruct (_ && _); cbn; [|split; [lia|apply inc_le_refl]].
    split; [lia|]. eapply inc_le_set; [exact G|cbn; lia].
  - unfold fail. destruct (get s m) as [e|] eqn:G; [|split; [cbn; lia|apply inc_le_refl]].
    destruct (negb _); cbn; [|split; [lia|apply inc_le_refl]].
    split; [lia|]. eapply inc_le_set; [exact G|cbn; lia].
  - unfold refute. destruct (get s m) as [e|] eqn:G; [|split; [cbn; lia|apply inc_le_refl]].
    destruct (N.ltb_spec (inc e) i); cbn; [|split; [lia|apply inc_le_refl]].
    split; [lia|]. eapply inc_le_set; [exact G|cbn; lia].
  - unfold mark_healthy. destruct (get s m) as [e|] eqn:G; [|split; [cbn; lia|apply inc_le_refl]].
    destruct (negb _); cbn; [|split; [lia|apply inc_le_refl]].
    split; [lia|]. eapply inc_le_set; [exact G|cbn; lia].
  - cbn. split; [lia|apply inc_le_regs; reflexivity].
  - cbn. split; [lia|apply inc_le_regs; reflexivity].
Qed.

(* NEVER BACKWARDS: along any sequence of the listed events, the clock and every recorded
   incarnation are non-decreasing (and a recorded member never disappears). *)
Theorem run_mono : forall ops s, forallb listed ops = true ->
  clock s <= clock (run s ops) /\ inc_le s (run s ops).
Proof.
  induction ops as [|o ops IH]; intros s L; cbn [Model.run fold_left].
  - split; [lia|apply inc_le_refl].
  - cbn in L. apply andb_true_iff in L. destruct L as [Lo Ls].
    destruct (step_mono s o Lo) as [C I]. destruct (IH (fst (step s o)) Ls) as [C' I'].
    fold (run (fst (step s o)) ops). split; [lia|eapply inc_le_trans; eassumption].
Qed.

(* ---- third clause: no record above the member's own announcements ---- *)
(* Global system: replicas r hold LWW states; member m announces incarnations itself
   (update of its own entry on its own replica); other replicas learn about m only through
   gossip of states some replica already holds, or through m's Alive(incarnation). *)
Record gsys := G { rep : N -> st; ann : N -> N }.
Definition upd_rep (g : gsys) (r : N) (s : st) : N -> st :=
  fun r' => if N.eqb r' r then s else rep g r'.

Definition held (s : st) (mu : N * upd) : Prop := get s (fst mu) = Some (snd mu).

Inductive gstep : gsys -> gsys -> Prop :=
| GAnnounce g m h i :           (* m bumps / restates its own incarnation on its own replica *)
    gstep g (G (upd_rep g m (update_local (rep g m) m h i)) (fun k => if N.eqb k m then N.max (ann g k) i else ann g k))
| GGossip g src dst us :        (* dst merges any batch of states currently held by src *)
    Forall (held (rep g src)) us ->
    gstep g (G (upd_rep g dst (fst (merge (rep g dst) us))) (ann g))
| GAlive g r m i :              (* r processes Alive{m, i}: i was announced by m *)
    i <= ann g m ->
    gstep g (G (upd_rep g r (fst (refute (rep g r) m i))) (ann g))
| GSuspect g r m i : gstep g (G (upd_rep g r (fst (suspect (rep g r) m i))) (ann g))
| GFail g r m : gstep g (G (upd_rep g r (fst (fail (rep g r) m))) (ann g))
| GMarkHealthy g r m : gstep g (G (upd_rep g r (fst (mark_healthy (rep g r) m))) (ann g))
| GClock g r t : gstep g (G (upd_rep g r (sync_time (rep g r) t)) (ann g)).

Definition Bounded (g : gsys) : Prop :=
  forall r m e, get (rep g r) m = Some e -> inc e <= ann g m.

Lemma bounded_upd g r s a :
  Bounded g -> (forall k, ann g k <= a k) ->
  (forall m e, get s m = Some e -> inc e <= a m) ->
  Bounded (G (upd_rep g r s) a).
Proof.
  intros B A H r' m e. cbn. unfold upd_rep. destruct (N.eqb r' r); [apply H|].
  intros Ge. specialize (B _ _ _ Ge). specialize (A m). lia.
Qed.

Lemma set_bound s m u c a :
  (forall k e, get s k = Some e -> inc e <= a k) -> inc u <= a m ->
  forall k e, get (St (aset (regs s) m u) c) k = Some e -> inc e <= a k.
Proof.
  intros H Hu k e. unfold get. cbn. rewrite aget_aset. destruct (N.eqb_spec m k) as [<-|].
  - intros [= <-]. exact Hu.
  - apply H.
Qed.

Lemma gstep_bounded g g' : gstep g g' -> Bounded g -> Bounded g'.
Proof.
  intros S B. destruct S.
  - apply bounded_upd; [exact B| |].
    + intros k. destruct (N.eqb k m); lia.
    + unfold update_local. apply set_bound.
      * intros k e Gk. specialize (B m k e). cbn in Gk. specialize (B Gk).
        destruct (N.eqb k m); lia.
      * cbn. rewrite N.eqb_refl. lia.
  - apply bounded_upd; [exact B|intros; lia|].
    intros m e Ge. rewrite merge_get in Ge.
    destruct (mreg_char _ _ _ Ge) as [[Hin|Hin] _].
    + eapply B; exact Hin.
    + apply in_proj in Hin. rewrite Forall_forall in H. specialize (H _ Hin). unfold held in H. cbn in H.
      eapply B; exact H.
  - apply bounded_upd; [exact B|intros; lia|].
    unfold refute. destruct (get (rep g r) m) as [e0|] eqn:G0; [|intros ? ?; apply B].
    destruct (N.ltb (inc e0) i); cbn [fst]; [|intros ? ?; apply B].
    apply set_bound; [intros k e; apply B|cbn; exact H].
  - apply bounded_upd; [exact B|intros; lia|].
    unfold suspect. destruct (get (rep g r) m) as [e0|] eqn:G0; [|intros ? ?; apply B].
    destruct (_ && _); cbn [fst]; [|intros ? ?; apply B].
    apply set_bound; [intros k e; apply B|cbn; eapply B; exact G0].
  - apply bounded_upd; [exact B|intros; lia|].
    unfold fail. destruct (get (rep g r) m) as [e0|] eqn:G0; [|intros ? ?; apply B].
    destruct (negb _); cbn [fst]; [|intros ? ?; apply B].
    apply set_bound; [intros k e; apply B|cbn; eapply B; exact G0].
  - apply bounded_upd; [exact B|intros; lia|].
    unfold mark_healthy. destruct (get (rep g r) m) as [e0|] eqn:G0; [|intros ? ?; apply B].
    destruct (negb _); cbn [fst]; [|intros ? ?; apply B].
    apply set_bound; [intros k e; apply B|cbn; eapply B; exact G0].
  - apply bounded_upd; [exact B|intros; lia|]. intros m e. apply B.
Qed.

Inductive greach : gsys -> Prop :=
| greach_init : greach (G (fun _ => init) (fun _ => 0))
| greach_step g g' : greach g -> gstep g g' -> greach g'.

(* In every reachable global state no replica records ANY health (in particular Failed)
   for a member at an incarnation above what that member itself announced. *)
Theorem failed_inc_bounded : forall g, greach g ->
  forall r m e, get (rep g r) m = Some e -> health e = 2 -> inc e <= ann g m.
Proof.
  intros g R. assert (B : Bounded g).
  { induction R as [|g g' R IH S]; [|eapply gstep_bounded; eassumption].
    intros r m e. cbn. unfold get. cbn. discriminate. }
  intros r m e Ge _. eapply B; exact Ge.
Qed.

End P.

(* the unrestricted convergence statement is false for the strict order: the witness that
   was reproduced on the real code (Healthy vs Failed at (inc 1, ts 5)) *)
Definition sup_ref (a b : upd) : bool :=
  if N.eqb (inc a) (inc b) then N.ltb (ts b) (ts a) else N.ltb (inc b) (inc a).

Lemma sup_ref_spec : SupSpec sup_ref.
Proof.
  intros a b. unfold sup_ref, klt. destruct (N.eqb_spec (inc a) (inc b)); rewrite N.ltb_lt; lia.
Qed.

Lemma convergence_refuted : exists a b, tie_conflict a b /\
  get (merge_batches sup_ref init [[(0, a)]; [(0, b)]]) 0 <> get (merge_batches sup_ref init [[(0, b)]; [(0, a)]]) 0.
Proof.
  exists (U 0 5 1), (U 2 5 1). split; [split; [split; reflexivity|discriminate]|].
  vm_compute. discriminate.
Qed.

(* non-vacuity: a concrete multi-member batch set meets the convergence hypotheses *)
Example convergence_nonvacuous :
  let bs := [[(0, U 0 3 1); (1, U 1 4 1)]; [(0, U 2 6 1); (1, U 0 2 2)]] in
  NoTie (proj 0 (concat bs)) /\ NoTie (proj 1 (concat bs)).
Proof.
  cbn. split; intros a b Ha Hb K; cbn in *;
    repeat match goal with H : _ \/ _ |- _ => destruct H end; subst; try contradiction;
    try reflexivity; destruct K as [K1 K2]; cbn in *; discriminate.
Qed.
