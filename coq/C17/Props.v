(* C17/Props.v -- pinned property theorems; nothing but statements closed by `exact`. *)
From NV.Common Require Import Base.
From NV.C17 Require Import Types Model Proofs Mgr MgrProofs Inst.
From NV.gen Require Import Gen_C17.
Open Scope N_scope.

(* Clause 1: same set of updates => identical views, any order/grouping/repetition,
   outside the known tie-conflict class. *)
Theorem C17_convergence : forall s s' bs bs' m,
  get s m = get s' m ->
  (forall x, In x (concat bs) <-> In x (concat bs')) ->
  NoTie (match get s m with Some e => e :: proj m (concat bs) | None => proj m (concat bs) end) ->
  get (merge_batches gen_supersedes s bs) m = get (merge_batches gen_supersedes s' bs') m.
Proof. exact (convergence gen_supersedes gen_sup_spec). Qed.

(* the unrestricted statement is false (known finding F-C17-tie) *)
Theorem C17_convergence_refuted : exists a b, tie_conflict a b /\
  get (merge_batches sup_ref init [[(0, a)]; [(0, b)]]) 0 <> get (merge_batches sup_ref init [[(0, b)]; [(0, a)]]) 0.
Proof. exact convergence_refuted. Qed.

(* Clause 2: clock and recorded incarnations never decrease under the listed events. *)
Theorem C17_never_backwards : forall ops s, forallb listed ops = true ->
  clock s <= clock (run gen_supersedes s ops) /\ inc_le s (run gen_supersedes s ops).
Proof. exact (run_mono gen_supersedes gen_sup_spec). Qed.

(* Clause 3: no replica records a member as failed above that member's own announcements. *)
Theorem C17_failed_inc_bounded : forall g, greach gen_supersedes g ->
  forall r m e, get (rep g r) m = Some e -> health e = 2 -> inc e <= ann g m.
Proof. exact (failed_inc_bounded gen_supersedes gen_sup_spec). Qed.

(* Clauses 2 and 3 again, one layer up: the GossipMembershipManager message layer (Mgr.v) -- handle_gossip
   (Sync with the incarnation-delta filter and the sender-is-alive mark, Suspect incl. self-refutation,
   Alive, PingReq/PingAck), gossip_round with suspicion expiry, suspect_node -- for a cluster of R managers
   (manager i starting out with any list pf i of registered peers) and every schedule of rounds, local suspicions,
   add_peer calls and deliveries (any order, duplication, loss), for every max_incarnation_delta and both expiry
   settings. *)
Theorem C17_manager_never_backwards : forall maxd expire ops s r,
  clock (lww (nth_mgr (mgrs s) r)) <= clock (lww (nth_mgr (mgrs (mrun gen_supersedes maxd expire s ops)) r)) /\
  inc_le (lww (nth_mgr (mgrs s) r)) (lww (nth_mgr (mgrs (mrun gen_supersedes maxd expire s ops)) r)).
Proof. exact (mrun_mono gen_supersedes gen_sup_spec). Qed.

Theorem C17_manager_failed_inc_bounded : forall maxd expire R pf ops r m e,
  get (lww (nth_mgr (mgrs (mrun gen_supersedes maxd expire (minitP gen_supersedes R pf) ops)) r)) m = Some e ->
  health e = 2 ->
  inc e <= myinc (nth_mgr (mgrs (mrun gen_supersedes maxd expire (minitP gen_supersedes R pf) ops)) m).
Proof. exact (mgr_failed_inc_bounded gen_supersedes). Qed.

(* non-vacuity: a two-manager schedule after which manager 0 records member 1 as Failed, and one in which
   a self-refutation raised member 1's counter and manager 0 recorded the announced incarnation *)
Example C17_manager_nonvacuous :
  (exists e, get (lww (nth_mgr (mgrs (mrun gen_supersedes 100 true (minit gen_supersedes 2)
                 [MSuspectNode 0 1; MRound 0 [1]])) 0)) 1 = Some e /\ health e = 2) /\
  (exists e, get (lww (nth_mgr (mgrs (mrun gen_supersedes 100 true (minit gen_supersedes 2)
                 [MSuspectNode 0 1; MDeliver 0; MDeliver 2])) 0)) 1 = Some e /\ inc e = 1).
Proof. split; eexists; vm_compute; split; reflexivity. Qed.

Print Assumptions C17_convergence.
Print Assumptions C17_convergence_refuted.
Print Assumptions C17_never_backwards.
Print Assumptions C17_failed_inc_bounded.
Print Assumptions C17_manager_never_backwards.
Print Assumptions C17_manager_failed_inc_bounded.
