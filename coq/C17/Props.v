(* C17/Props.v -- pinned property theorems; nothing but statements closed by `exact`. *)
From NV.Common Require Import Base.
From NV.C17 Require Import Types Model Proofs Inst.
From NV.gen Require Import Gen_C17.
Open Scope N_scope.

(* Clause 1: same set of updates => identical views, any order/grouping/repetition,
   outside the known tie-conflict class. *)
Theorem C17_convergence : forall s s' bs bs' m,
  get s m = get s' m ->
  (forall x, In x (concat bs) <-> In x (concat bs')) ->
  NoTie (match get s m with Some e => e :: proj m (concat bs) | None => proj m (concat bs) end) ->
  get (merge_batches gen_supersedes s bs) m = get (merge_batches gen_supersedes s' bs') m.
Proof. exact (convergence gen_supersedes gen_sup_spec). Qed.

(* the unrestricted statement is false (known finding F-C17-tie) *)
Theorem C17_convergence_refuted : exists a b, tie_conflict a b /\
  get (merge_batches sup_ref init [[(0, a)]; [(0, b)]]) 0 <> get (merge_batches sup_ref init [[(0, b)]; [(0, a)]]) 0.
Proof. exact convergence_refuted. Qed.

(* Clause 2: clock and recorded incarnations never decrease under the listed events. *)
Theorem C17_never_backwards : forall ops s, forallb listed ops = true ->
  clock s <= clock (run gen_supersedes s ops) /\ inc_le s (run gen_supersedes s ops).
Proof. exact (run_mono gen_supersedes gen_sup_spec). Qed.

(* Clause 3: no replica records a member as failed above that member's own announcements. *)
Theorem C17_failed_inc_bounded : forall g, greach gen_supersedes g ->
  forall r m e, get (rep g r) m = Some e -> health e = 2 -> inc e <= ann g m.
Proof. exact (failed_inc_bounded gen_supersedes gen_sup_spec). Qed.

Print Assumptions C17_convergence.
Print Assumptions C17_convergence_refuted.
Print Assumptions C17_never_backwards.
Print Assumptions C17_failed_inc_bounded.
