(* C17/Run.v -- executable entry points for the correspondence check and the property oracles.
   Depends on Model + the regenerated `supersedes` only (NOT on the proofs), so the model
   still runs when a proof obligation breaks. *)
From NV.Common Require Import Base.
From NV.C17 Require Import Types Model.
From NV.gen Require Import Gen_C17.
Open Scope N_scope.

Notation sup := gen_supersedes.

Definition dump (M : N) (s : st) : list (option upd) := map (get s) (N_seq M).
Definition obs := (list N * N * list (option upd))%type.
Definition obs_eqb (a b : obs) : bool :=
  let '(r1, c1, d1) := a in let '(r2, c2, d2) := b in
  list_eqb N.eqb r1 r2 && N.eqb c1 c2 && list_eqb (option_eqb upd_eqb) d1 d2.

Fixpoint run_obs (M : N) (s : st) (ops : list op) : list obs :=
  match ops with
  | [] => []
  | o :: r => let '(s', ret) := step sup s o in (ret, clock s', dump M s') :: run_obs M s' r
  end.

(* --- oracle for "never backwards", evaluated on the IMPLEMENTATION's observations --- *)
Definition reg_mono (a b : option upd) : bool :=
  match a, b with
  | None, _ => true
  | Some e, Some e' => N.leb (inc e) (inc e')
  | Some _, None => false
  end.
Fixpoint dump_mono (d d' : list (option upd)) : bool :=
  match d, d' with
  | a :: r, b :: r' => reg_mono a b && dump_mono r r'
  | [], [] => true
  | _, _ => false
  end.
Fixpoint mono_ok (c : N) (d : list (option upd)) (ops : list op) (os : list obs) : bool :=
  match ops, os with
  | o :: ops', (_, c', d') :: os' =>
      (if listed o then N.leb c c' && dump_mono d d' else true) && mono_ok c' d' ops' os'
  | [], [] => true
  | _, _ => false
  end.

(* trace case: (member universe size, ops, implementation observations) *)
Definition trace_case := (N * list op * list obs)%type.
Definition check_trace (c : trace_case) : N :=
  let '(M, ops, os) := c in
  if negb (mono_ok 0 (dump M init) ops os) then V_VIOLATION
  else if list_eqb obs_eqb (run_obs M init ops) os then V_OK else V_MISMATCH.

(* --- convergence case --- *)
Definition keqb (a b : upd) : bool := N.eqb (inc a) (inc b) && N.eqb (ts a) (ts b).
Definition tie_conflictb (a b : N * upd) : bool :=
  N.eqb (fst a) (fst b) && keqb (snd a) (snd b) && negb (N.eqb (health (snd a)) (health (snd b))).
Definition has_tie (us : list (N * upd)) : bool :=
  existsb (fun a => existsb (tie_conflictb a) us) us.
Definition mu_eqb (a b : N * upd) : bool := N.eqb (fst a) (fst b) && upd_eqb (snd a) (snd b).
Definition subset (a b : list (N * upd)) : bool := forallb (fun x => existsb (mu_eqb x) b) a.
Definition view (d : list (option upd)) : list (option (N * N)) :=
  map (fun o => match o with Some e => Some (health e, inc e) | None => None end) d.
Definition view_eqb := list_eqb (option_eqb (pair_eqb N.eqb N.eqb)).
Definition merge_batches (s : st) (bs : list (list (N * upd))) : st :=
  fold_left (fun s b => fst (merge sup s b)) bs s.

(* (M, delivery 1, delivery 2, implementation dump 1, implementation dump 2):
   both deliveries must carry the same SET of updates (checked here, code 9 otherwise) *)
Definition conv_case :=
  (N * list (list (N * upd)) * list (list (N * upd)) * list (option upd) * list (option upd))%type.
Definition check_conv (c : conv_case) : N :=
  let '(M, b1, b2, d1, d2) := c in
  let u1 := concat b1 in let u2 := concat b2 in
  if negb (subset u1 u2 && subset u2 u1) then 9
  else if negb (view_eqb (view d1) (view d2)) then
    (if has_tie u1 then V_KNOWN 0 else V_VIOLATION)
  else if list_eqb (option_eqb upd_eqb) (dump M (merge_batches init b1)) d1
       && list_eqb (option_eqb upd_eqb) (dump M (merge_batches init b2)) d2
  then V_OK else V_MISMATCH.

(* --- global case for clause 3: R replicas (index = replica id = member id) --- *)
Inductive gop :=
| GoAnnounce (m h i : N)                 (* update_local(m, h, i) on replica m *)
| GoGossip (src dst : N) (ms : list N)   (* dst.merge(states src holds for members ms) *)
| GoAlive (r m i : N)                    (* r.refute(m, i) *)
| GoSuspect (r m i : N)
| GoFail (r m : N)
| GoMarkHealthy (r m : N).

Definition nth_st (rs : list st) (r : N) : st := nth (N.to_nat r) rs init.
Fixpoint set_nth (rs : list st) (r : nat) (s : st) : list st :=
  match rs, r with
  | [], _ => []
  | _ :: t, O => s :: t
  | h :: t, S r' => h :: set_nth t r' s
  end.
Definition gstate := (list st * list (N * N))%type.   (* replicas, announced max per member *)
Definition ann_of (a : list (N * N)) (m : N) : N := match aget a m with Some i => i | None => 0 end.

(* returns (state, affected replica, precondition-ok) *)
Definition gstep_run (g : gstate) (o : gop) : gstate * N * bool :=
  let '(rs, an) := g in
  match o with
  | GoAnnounce m h i =>
      ((set_nth rs (N.to_nat m) (update_local (nth_st rs m) m h i), aset an m (N.max (ann_of an m) i)), m, true)
  | GoGossip src dst ms =>
      let us := flat_map (fun m => match get (nth_st rs src) m with Some e => [(m, e)] | None => [] end) ms in
      ((set_nth rs (N.to_nat dst) (fst (merge sup (nth_st rs dst) us)), an), dst, true)
  | GoAlive r m i =>
      ((set_nth rs (N.to_nat r) (fst (refute (nth_st rs r) m i)), an), r, N.leb i (ann_of an m))
  | GoSuspect r m i => ((set_nth rs (N.to_nat r) (fst (suspect (nth_st rs r) m i)), an), r, true)
  | GoFail r m => ((set_nth rs (N.to_nat r) (fst (fail (nth_st rs r) m)), an), r, true)
  | GoMarkHealthy r m => ((set_nth rs (N.to_nat r) (fst (mark_healthy (nth_st rs r) m)), an), r, true)
  end.

(* oracle on an implementation dump: every member recorded as Failed has an incarnation <= announced *)
Fixpoint bounded_dump (an : list (N * N)) (m : N) (d : list (option upd)) : bool :=
  match d with
  | [] => true
  | o :: r => (match o with
               | Some e => if N.eqb (health e) 2 then N.leb (inc e) (ann_of an m) else true
               | None => true end)
              && bounded_dump an (N.succ m) r
  end.

(* walk: returns verdict.  The oracle is evaluated on EVERY implementation dump, also after the model
   and the implementation have started to disagree (the announced maxima depend on the ops only). *)
Fixpoint grun (M : N) (g : gstate) (ops : list gop) (ds : list (list (option upd))) (mm : bool) : N :=
  match ops, ds with
  | [], [] => if mm then V_MISMATCH else V_OK
  | o :: ops', d :: ds' =>
      let '(g', r, pre) := gstep_run g o in
      if negb (bounded_dump (snd g') 0 d) then V_VIOLATION
      else grun M g' ops' ds'
                (mm || negb pre || negb (list_eqb (option_eqb upd_eqb) (dump M (nth_st (fst g') r)) d))
  | _, _ => 9
  end.

Definition global_case := (N * list gop * list (list (option upd)))%type.
Definition check_global (c : global_case) : N :=
  let '(M, ops, ds) := c in
  grun M (map (fun _ => init) (N_seq M), []) ops ds false.

(* --- manager case: a cluster of real GossipMembershipManagers joined by a captured transport --- *)
From NV.C17 Require Import Mgr.

Definition states_view (R : N) (us : list (N * upd)) : list (option upd) := map (aget us) (N_seq R).
Definition gmsg_eqb (R : N) (a b : gmsg) : bool :=
  match a, b with
  | GSync s us t, GSync s' us' t' =>
      N.eqb s s' && N.eqb t t' && list_eqb (option_eqb upd_eqb) (states_view R us) (states_view R us')
      && N.eqb (N.of_nat (length us)) (N.of_nat (length us'))
  | GSusp r s i, GSusp r' s' i' => N.eqb r r' && N.eqb s s' && N.eqb i i'
  | GAliv n i, GAliv n' i' => N.eqb n n' && N.eqb i i'
  | GPReq o t q, GPReq o' t' q' => N.eqb o o' && N.eqb t t' && N.eqb q q'
  | GPAck o t q k, GPAck o' t' q' k' => N.eqb o o' && N.eqb t t' && N.eqb q q' && Bool.eqb k k'
  | _, _ => false
  end.
Definition genv_eqb (R : N) (a b : N * gmsg) : bool := N.eqb (fst a) (fst b) && gmsg_eqb R (snd a) (snd b).

(* per step: Lamport clock and per-member dump of the touched manager, envelopes it sent *)
Definition mobs := (N * list (option upd) * list (N * gmsg))%type.
(* (R, max_incarnation_delta, expire, full: every manager starts out knowing every other one (else: none), ops, obs) *)
Definition mgr_case := (N * N * bool * bool * list mop * list mobs)%type.

(* oracle state over the implementation's observations: last (clock, dump) seen per manager and the
   highest incarnation each member announced in an Alive of its own *)
Definition ostate := (list (N * (N * list (option upd))) * list (N * N))%type.
Definition announce (r : N) (an : list (N * N)) (out : list (N * gmsg)) : list (N * N) :=
  fold_left (fun an dm => match snd dm with
                          | GAliv n i => if N.eqb n r then aset an n (N.max (ann_of an n) i) else an
                          | _ => an end) out an.
(* a member's own announcements move forward: every Alive it sends about itself in one step carries a higher
   incarnation than anything it announced in earlier steps (first clause of oracle_mgr) *)
Definition oracle_mgr (o : ostate) (r : N) (ob : mobs) : option ostate :=
  let '(last, an) := o in
  let '(c, d, out) := ob in
  let an' := announce r an out in
  if negb (forallb (fun dm => match snd dm with GAliv n i => if N.eqb n r then N.ltb (ann_of an r) i else true | _ => true end) out) then None
  else if negb (match aget last r with Some (c0, d0) => N.leb c0 c && dump_mono d0 d | None => true end) then None
  else if negb (bounded_dump an' 0 d) then None
  else Some (aset last r (c, d), an').

Definition touched_of (s : msys) (o : mop) : N :=
  match o with
  | MRound r _ | MSuspectNode r _ | MAddPeer r _ => r
  | MDeliver k => match nth_error (mpool s) (N.to_nat k) with Some (dst, _) => dst | None => 0 end
  end.

Fixpoint mwalk (R maxd : N) (ex : bool) (s : msys) (o : ostate) (ops : list mop) (os : list mobs) (mm : bool) : N :=
  match ops, os with
  | [], [] => if mm then V_MISMATCH else V_OK
  | op :: ops', ob :: os' =>
      let r := touched_of s op in
      match oracle_mgr o r ob with
      | None => V_VIOLATION
      | Some o' =>
          let '(s', _) := mstep sup maxd ex s op in
          let '(c, d, out) := ob in
          let g := nth_mgr (mgrs s') r in
          let added := skipn (length (mpool s)) (mpool s') in
          let agree := N.eqb (clock (lww g)) c && list_eqb (option_eqb upd_eqb) (dump R (lww g)) d
                       && list_eqb (genv_eqb R) added out in
          mwalk R maxd ex s' o' ops' os' (mm || negb agree)
      end
  | _, _ => 9
  end.

Definition check_mgr (c : mgr_case) : N :=
  let '(R, maxd, ex, full, ops, os) := c in
  mwalk R maxd ex (minitP sup R (if full then all_others R else fun _ => [])) ([], []) ops os false.
