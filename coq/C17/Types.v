(* C17/Types.v -- the per-member register of tensor_chain/src/gossip.rs (GossipNodeState),
   without node_id (the map key) and updated_at (wall clock, never compared). *)
From NV.Common Require Import Base.
Open Scope N_scope.

(* NodeHealth: Healthy=0 Degraded=1 Failed=2 Unknown=3 *)
Record upd := U { health : N; ts : N; inc : N }.

Definition upd_eqb (a b : upd) : bool :=
  N.eqb (health a) (health b) && N.eqb (ts a) (ts b) && N.eqb (inc a) (inc b).

Lemma upd_eqb_spec a b : upd_eqb a b = true <-> a = b.
Proof.
  destruct a, b; unfold upd_eqb; cbn. rewrite !andb_true_iff, !N.eqb_eq.
  split; [intros [[-> ->] ->]; reflexivity|intros [= -> -> ->]; auto].
Qed.
