(* C18/Dijkstra.v -- find_weighted_path: the binary-heap Dijkstra of the model (lazy deletion, strict
   improvement, early exit when the target is popped) returns a real walk of minimum total weight,
   and reports "no path" only when there is none.  Weights are naturals (non-negative). *)
From NV.Common Require Import Base.
From NV.C18 Require Import Model Proofs.
Open Scope N_scope.

Arguments N.add : simpl never.
Arguments N.eqb : simpl never.
Arguments N.ltb : simpl never.
Arguments N.leb : simpl never.

(* ---------------------------------------------------------------- the heap as a list *)
Lemma entry_eqb_eq a b : entry_eqb a b = true <-> a = b.
Proof.
  destruct a as [a1 a2], b as [b1 b2]. unfold entry_eqb. cbn [fst snd].
  rewrite andb_true_iff, !N.eqb_eq. split; [intros [-> ->]; reflexivity|intros E; inversion E; auto].
Qed.

Lemma heap_best_spec h : forall x, In (heap_best x h) (x :: h) /\ forall y, In y (x :: h) -> fst (heap_best x h) <= fst y.
Proof.
  induction h as [|z h IH]; intros x; cbn [heap_best].
  - split; [left; reflexivity|]. intros y [<-|[]]. lia.
  - destruct (IH (if pops_before z x then z else x)) as [H1 H2]. split.
    + destruct H1 as [H1|H1]; [|right; right; assumption].
      rewrite <- H1. destruct (pops_before z x); [right; left|left]; reflexivity.
    + intros y Hy.
      assert (Hm : fst (if pops_before z x then z else x) <= fst x /\ fst (if pops_before z x then z else x) <= fst z).
      { unfold pops_before. destruct (N.ltb_spec (fst z) (fst x)); cbn [orb]; [lia|].
        destruct (N.eqb_spec (fst z) (fst x)); cbn [andb]; [destruct (N.ltb (snd x) (snd z)); lia|lia]. }
      destruct Hy as [<-|[<-|Hy]].
      * pose proof (H2 _ (or_introl eq_refl)). lia.
      * pose proof (H2 _ (or_introl eq_refl)). lia.
      * apply H2. right. assumption.
Qed.

Lemma heap_remove_spec m h : In m h ->
  (forall y, In y (heap_remove m h) -> In y h) /\ (forall y, In y h -> y = m \/ In y (heap_remove m h)).
Proof.
  induction h as [|z h IH]; intros Hin; [destruct Hin|]. cbn [heap_remove].
  destruct (entry_eqb m z) eqn:E.
  - apply entry_eqb_eq in E. subst z. split; [intros y Hy; right; assumption|].
    intros y [<-|Hy]; [left; reflexivity|right; assumption].
  - assert (Hne : m <> z) by (intros ->; rewrite (proj2 (entry_eqb_eq z z) eq_refl) in E; discriminate).
    destruct Hin as [Hin|Hin]; [congruence|]. destruct (IH Hin) as [I1 I2]. split.
    + intros y [<-|Hy]; [left; reflexivity|right; apply I1; assumption].
    + intros y [<-|Hy]; [right; left; reflexivity|]. destruct (I2 y Hy) as [->|H]; [left; reflexivity|right; right; assumption].
Qed.

Lemma heap_pop_spec h m h' : heap_pop h = Some (m, h') ->
  In m h /\ (forall y, In y h -> fst m <= fst y) /\ (forall y, In y h' -> In y h) /\ (forall y, In y h -> y = m \/ In y h').
Proof.
  destruct h as [|x r]; [discriminate|]. cbn [heap_pop]. intros E. inversion E; subst. clear E.
  destruct (heap_best_spec r x) as [H1 H2].
  destruct (heap_remove_spec (heap_best x r) (x :: r) H1) as [H3 H4].
  repeat split; assumption.
Qed.
Lemma heap_pop_none h : heap_pop h = None -> h = [].
Proof. destruct h; [reflexivity|discriminate]. Qed.

(* ---------------------------------------------------------------- weighted walks *)
Section Dijkstra.
  Variable ws : N -> list (N * N * N).          (* node -> [(neighbour, edge id, weight)] *)
  Variable from to : N.
  Hypothesis from_ne_to : from <> to.

  Definition nbr (s : N * N * N) : N := fst (fst s).
  Definition sid (s : N * N * N) : N := snd (fst s).
  Definition swt (s : N * N * N) : N := snd s.

  Inductive wwalk : N -> list (N * N * N) -> N -> Prop :=
  | ww_nil : forall u, wwalk u [] u
  | ww_cons : forall u s r v, In s (ws u) -> wwalk (nbr s) r v -> wwalk u (s :: r) v.
  Fixpoint wsum (l : list (N * N * N)) : N := match l with [] => 0 | s :: r => swt s + wsum r end.

  Lemma wwalk_app u l1 w l2 v : wwalk u l1 w -> wwalk w l2 v -> wwalk u (l1 ++ l2) v.
  Proof. induction 1; cbn; intros; [assumption|constructor; auto]. Qed.
  Lemma wsum_app l1 l2 : wsum (l1 ++ l2) = wsum l1 + wsum l2.
  Proof. induction l1 as [|s l1 IH]; cbn [app wsum]; [lia|rewrite IH; lia]. Qed.

  (* S: settled nodes (popped with their final distance and expanded); C: nodes all of whose
     out-edges have been relaxed; rk: hop count along the parent chain (ghost) *)
  Record DI (S C : list N) (rk : N -> nat) (dist : dmap) (par : pmap) (heap : list (N * N)) : Prop := {
    d_from : aget dist from = Some 0;
    d_settled : forall u, In u S -> exists du, aget dist u = Some du
                  /\ (forall c v, In (c, v) heap -> du <= c)
                  /\ (forall steps, wwalk from steps u -> du <= wsum steps);
    d_heap : forall v dv, aget dist v = Some dv -> In v S \/ In (dv, v) heap;
    d_entry : forall c v, In (c, v) heap -> exists dv, aget dist v = Some dv /\ dv <= c;
    d_closed : forall u, In u C -> forall s, In s (ws u) ->
                 exists du dv, aget dist u = Some du /\ aget dist (nbr s) = Some dv /\ dv <= du + swt s;
    d_par : forall v dv, aget dist v = Some dv -> v <> from ->
              exists p e w dp, aget par v = Some (p, e) /\ In p S /\ In (v, e, w) (ws p)
                               /\ aget dist p = Some dp /\ dv = dp + w /\ (rk p < rk v)%nat;
    d_rk : forall v dv, aget dist v = Some dv -> (rk v <= length par)%nat;
    d_noto : ~ In to S;
    d_CS : forall u, In u C -> In u S
  }.

  (* a walk leaving the settled set passes a labelled unsettled node that is not farther than the walk *)
  Lemma escape S rk dist par heap : DI S S rk dist par heap ->
    forall steps x v, wwalk x steps v -> In x S -> ~ In v S ->
    exists y dy dx, ~ In y S /\ aget dist y = Some dy /\ aget dist x = Some dx /\ dy <= dx + wsum steps.
  Proof.
    intros I steps x v W. induction W as [u|u s r v Hin W IH]; intros Hx Hv; [contradiction|].
    destruct (d_closed _ _ _ _ _ _ I u Hx s Hin) as (du & dv & Hdu & Hdv & Hle).
    destruct (in_dec N.eq_dec (nbr s) S) as [Hs|Hs].
    - destruct (IH Hs Hv) as (y & dy & dx & Hy & Hdy & Hdx & Hle2).
      exists y, dy, du. repeat split; try assumption. cbn [wsum]. assert (dx = dv) by congruence. lia.
    - exists (nbr s), dv, du. repeat split; try assumption. cbn [wsum]. lia.
  Qed.

  (* the entry popped from the heap is not larger than any walk to its node *)
  Lemma pop_opt S rk dist par heap c u heap' : DI S S rk dist par heap ->
    heap_pop heap = Some ((c, u), heap') -> ~ In u S ->
    forall steps, wwalk from steps u -> c <= wsum steps.
  Proof.
    intros I Hp Hu steps W. destruct (heap_pop_spec _ _ _ Hp) as (Hin & Hmin & _ & _).
    destruct (in_dec N.eq_dec from S) as [Hf|Hf].
    - destruct (escape _ _ _ _ _ I steps from u W Hf Hu) as (y & dy & dx & Hy & Hdy & Hdx & Hle).
      rewrite (d_from _ _ _ _ _ _ I) in Hdx. inversion Hdx; subst dx.
      destruct (d_heap _ _ _ _ _ _ I y dy Hdy) as [Hys|Hyh]; [contradiction|].
      specialize (Hmin _ Hyh). cbn [fst] in Hmin. lia.
    - destruct (d_heap _ _ _ _ _ _ I from 0 (d_from _ _ _ _ _ _ I)) as [Hys|Hyh]; [contradiction|].
      specialize (Hmin _ Hyh). cbn [fst] in Hmin. lia.
  Qed.

  (* following the parent map back from a labelled node *)
  Lemma chain_ok S C rk dist par heap : DI S C rk dist par heap ->
    forall n v dv ns es fuel, (rk v <= n)%nat -> aget dist v = Some dv -> (n <= fuel)%nat ->
    exists steps, wwalk from steps v /\ wsum steps = dv /\
      rebuild fuel from v par ns es = (from :: map nbr steps ++ ns, map sid steps ++ es).
  Proof.
    intros I. induction n as [|n IH]; intros v dv ns es fuel Hrk Hd Hf.
    - assert (v = from) as ->.
      { destruct (N.eq_dec v from) as [|Hne]; [assumption|].
        destruct (d_par _ _ _ _ _ _ I v dv Hd Hne) as (p & e & w & dp & _ & _ & _ & _ & _ & Hlt). lia. }
      rewrite (d_from _ _ _ _ _ _ I) in Hd. inversion Hd; subst.
      exists []. repeat split; [constructor|]. destruct fuel; cbn [rebuild]; rewrite N.eqb_refl; reflexivity.
    - destruct (N.eq_dec v from) as [->|Hne].
      + rewrite (d_from _ _ _ _ _ _ I) in Hd. inversion Hd; subst.
        exists []. repeat split; [constructor|]. destruct fuel; cbn [rebuild]; rewrite N.eqb_refl; reflexivity.
      + destruct (d_par _ _ _ _ _ _ I v dv Hd Hne) as (p & e & w & dp & Hg & Hp & Hin & Hdp & E & Hlt).
        destruct fuel as [|fuel]; [lia|].
        destruct (IH p dp (v :: ns) (e :: es) fuel) as (steps & W & Sm & R); [lia|assumption|lia|].
        exists (steps ++ [(v, e, w)]). split; [|split].
        * eapply wwalk_app; [eassumption|]. constructor; [assumption|constructor].
        * rewrite wsum_app. cbn [wsum swt snd]. lia.
        * cbn [rebuild]. destruct (N.eqb_spec v from) as [|_]; [contradiction|].
          rewrite Hg, R. rewrite !map_app. cbn [map nbr sid fst snd]. rewrite <- !app_assoc. reflexivity.
  Qed.

  (* ---- one relaxation *)
  Record RI (S1 C : list N) (rk : N -> nat) (dist : dmap) (par : pmap) (heap : list (N * N))
            (u c : N) (pre : list (N * N * N)) : Prop := {
    r_di : DI S1 C rk dist par heap;
    r_u : aget dist u = Some c;
    r_uS : In u S1;
    r_le : forall s ds, In s S1 -> aget dist s = Some ds -> ds <= c;
    r_pre : forall s, In s pre -> exists dv, aget dist (nbr s) = Some dv /\ dv <= c + swt s
  }.

  Lemma relax_step S1 C rk dist par heap u c pre s0 :
    RI S1 C rk dist par heap u c pre -> In s0 (ws u) ->
    let '(dist', par', heap') := relax u c (dist, par, heap) s0 in
    exists rk', RI S1 C rk' dist' par' heap' u c (pre ++ [s0]).
  Proof.
    intros R Hs0. destruct s0 as [[v e] w]. cbn [relax].
    pose proof (r_di _ _ _ _ _ _ _ _ _ R) as I.
    set (nc := c + w).
    destruct (match aget dist v with Some d => N.ltb nc d | None => true end) eqn:Hb.
    - (* strictly better: update v *)
      assert (Hvd : forall d, aget dist v = Some d -> nc < d).
      { intros d Hd. rewrite Hd in Hb. apply N.ltb_lt. assumption. }
      assert (HvS : ~ In v S1).
      { intros Hin. destruct (d_settled _ _ _ _ _ _ I v Hin) as (dv & Hdv & _).
        pose proof (r_le _ _ _ _ _ _ _ _ _ R v dv Hin Hdv). pose proof (Hvd dv Hdv). unfold nc in *. lia. }
      assert (Hvu : v <> u) by (intros ->; apply HvS; apply (r_uS _ _ _ _ _ _ _ _ _ R)).
      assert (Hvf : v <> from).
      { intros ->. pose proof (Hvd 0 (d_from _ _ _ _ _ _ I)). lia. }
      set (rk' := fun x => if N.eqb x v then S (rk u) else rk x).
      assert (Hrk : forall x, x <> v -> rk' x = rk x).
      { intros x Hx. unfold rk'. destruct (N.eqb_spec x v); [contradiction|reflexivity]. }
      assert (Hrkv : rk' v = S (rk u)) by (unfold rk'; rewrite N.eqb_refl; reflexivity).
      assert (Hd' : forall x, aget (aset dist v nc) x = if N.eqb v x then Some nc else aget dist x) by (intros; apply aget_aset).
      assert (HdS : forall x, In x S1 -> aget (aset dist v nc) x = aget dist x).
      { intros x Hx. rewrite Hd'. destruct (N.eqb_spec v x) as [->|]; [contradiction|reflexivity]. }
      exists rk'. constructor.
      + constructor.
        * rewrite Hd'. destruct (N.eqb_spec v from); [contradiction|]. apply (d_from _ _ _ _ _ _ I).
        * intros x Hx. destruct (d_settled _ _ _ _ _ _ I x Hx) as (dx & Hdx & Hh & Hw).
          exists dx. rewrite (HdS x Hx). split; [assumption|split; [|assumption]].
          intros c' v' [Hin|Hin]; [|apply (Hh c' v' Hin)]. inversion Hin; subst c' v'.
          pose proof (r_le _ _ _ _ _ _ _ _ _ R x dx Hx Hdx). unfold nc. lia.
        * intros x dx Hdx. rewrite Hd' in Hdx. destruct (N.eqb_spec v x) as [<-|Hne].
          -- inversion Hdx; subst dx. right. left. reflexivity.
          -- destruct (d_heap _ _ _ _ _ _ I x dx Hdx) as [H|H]; [left; assumption|right; right; assumption].
        * intros c' x [Hin|Hin].
          -- inversion Hin; subst c' x. exists nc. rewrite Hd', N.eqb_refl. split; [reflexivity|lia].
          -- destruct (d_entry _ _ _ _ _ _ I c' x Hin) as (dx & Hdx & Hle). rewrite Hd'.
             destruct (N.eqb_spec v x) as [<-|Hne].
             ++ exists nc. split; [reflexivity|]. pose proof (Hvd dx Hdx). lia.
             ++ exists dx. split; assumption.
        * intros x Hx s Hs. destruct (d_closed _ _ _ _ _ _ I x Hx s Hs) as (dx & dv & Hdx & Hdv & Hle).
          assert (HxS : In x S1) by (apply (d_CS _ _ _ _ _ _ I); assumption).
          exists dx. rewrite (HdS x HxS). rewrite Hd'. destruct (N.eqb_spec v (nbr s)) as [E|Hne].
          -- exists nc. repeat split; try assumption. rewrite <- E in Hdv. pose proof (Hvd dv Hdv). lia.
          -- exists dv. repeat split; assumption.
        * intros x dx Hdx Hxf. rewrite Hd' in Hdx. destruct (N.eqb_spec v x) as [<-|Hne].
          -- inversion Hdx; subst dx. exists u, e, w, c. cbn [aget]. rewrite N.eqb_refl.
             repeat split; try reflexivity.
             ++ apply (r_uS _ _ _ _ _ _ _ _ _ R).
             ++ assumption.
             ++ rewrite (HdS u (r_uS _ _ _ _ _ _ _ _ _ R)). apply (r_u _ _ _ _ _ _ _ _ _ R).
             ++ rewrite Hrkv, (Hrk u) by congruence. lia.
          -- destruct (d_par _ _ _ _ _ _ I x dx Hdx Hxf) as (p & e' & w' & dp & Hg & Hp & Hin & Hdp & E & Hlt).
             exists p, e', w', dp. cbn [aget]. destruct (N.eqb_spec v x) as [|_]; [contradiction|].
             assert (Hpv : p <> v) by (intros ->; contradiction).
             repeat split; try assumption.
             ++ rewrite (HdS p Hp). assumption.
             ++ rewrite (Hrk p Hpv), (Hrk x) by congruence. assumption.
        * intros x dx Hdx. cbn [length]. rewrite Hd' in Hdx. destruct (N.eqb_spec v x) as [<-|Hne].
          -- rewrite Hrkv. pose proof (d_rk _ _ _ _ _ _ I u c (r_u _ _ _ _ _ _ _ _ _ R)). lia.
          -- rewrite (Hrk x) by congruence. pose proof (d_rk _ _ _ _ _ _ I x dx Hdx). lia.
        * apply (d_noto _ _ _ _ _ _ I).
        * apply (d_CS _ _ _ _ _ _ I).
      + rewrite (HdS u (r_uS _ _ _ _ _ _ _ _ _ R)). apply (r_u _ _ _ _ _ _ _ _ _ R).
      + apply (r_uS _ _ _ _ _ _ _ _ _ R).
      + intros x dx Hx Hdx. rewrite (HdS x Hx) in Hdx. apply (r_le _ _ _ _ _ _ _ _ _ R x dx Hx Hdx).
      + intros s Hs. apply in_app_or in Hs. destruct Hs as [Hs|[<-|[]]].
        * destruct (r_pre _ _ _ _ _ _ _ _ _ R s Hs) as (dv & Hdv & Hle). rewrite Hd'.
          destruct (N.eqb_spec v (nbr s)) as [E|Hne].
          -- exists nc. split; [reflexivity|]. rewrite <- E in Hdv. pose proof (Hvd dv Hdv). lia.
          -- exists dv. split; assumption.
        * cbn [nbr swt fst snd]. exists nc. rewrite Hd', N.eqb_refl. split; [reflexivity|unfold nc; lia].
    - (* not better: nothing changes *)
      exists rk. destruct R as [R1 R2 R3 R4 R5]. constructor; try assumption.
      intros s Hs. apply in_app_or in Hs. destruct Hs as [Hs|[<-|[]]]; [apply R5; assumption|].
      cbn [nbr swt fst snd]. destruct (aget dist v) as [d|]; [|discriminate].
      exists d. split; [reflexivity|]. apply N.ltb_ge in Hb. unfold nc in Hb. lia.
  Qed.

  Lemma relax_fold : forall rest S1 C rk dist par heap u c pre,
    RI S1 C rk dist par heap u c pre -> ws u = pre ++ rest ->
    let '(dist', par', heap') := fold_left (relax u c) rest (dist, par, heap) in
    exists rk', RI S1 C rk' dist' par' heap' u c (ws u).
  Proof.
    induction rest as [|s0 rest IH]; intros S1 C rk dist par heap u c pre R Hws.
    - cbn [fold_left]. exists rk. rewrite app_nil_r in Hws. rewrite Hws. assumption.
    - cbn [fold_left].
      assert (Hs0 : In s0 (ws u)) by (rewrite Hws; apply in_or_app; right; left; reflexivity).
      pose proof (relax_step _ _ _ _ _ _ _ _ _ s0 R Hs0) as Hst.
      destruct (relax u c (dist, par, heap) s0) as [[dist1 par1] heap1].
      destruct Hst as [rk1 R1].
      apply (IH S1 C rk1 dist1 par1 heap1 u c (pre ++ [s0]) R1). rewrite <- app_assoc. assumption.
  Qed.

  (* ---- the loop *)
  Lemma di_stale S rk dist par heap c u heap' d :
    DI S S rk dist par heap -> heap_pop heap = Some ((c, u), heap') ->
    aget dist u = Some d -> d < c -> DI S S rk dist par heap'.
  Proof.
    intros I Hp Hd Hlt. destruct (heap_pop_spec _ _ _ Hp) as (Hin & Hmin & Hsub & Hrest).
    destruct I as [I1 I2 I3 I4 I5 I6 I7 I8 I9]. constructor; try assumption.
    - intros x Hx. destruct (I2 x Hx) as (dx & Hdx & Hh & Hw). exists dx. repeat split; try assumption.
      intros c' v' Hin'. apply (Hh c' v'). apply Hsub. assumption.
    - intros x dx Hdx. destruct (I3 x dx Hdx) as [H|H]; [left; assumption|].
      destruct (Hrest _ H) as [E|H']; [|right; assumption]. inversion E; subst. rewrite Hd in Hdx. inversion Hdx. lia.
    - intros c' x Hin'. apply I4. apply Hsub. assumption.
  Qed.

  Lemma ri_start S rk dist par heap c u heap' :
    DI S S rk dist par heap -> heap_pop heap = Some ((c, u), heap') -> u <> to ->
    aget dist u = Some c -> RI (u :: S) S rk dist par heap' u c [].
  Proof.
    intros I Hp Hut Hd. destruct (heap_pop_spec _ _ _ Hp) as (Hin & Hmin & Hsub & Hrest).
    assert (Hopt : forall steps, wwalk from steps u -> c <= wsum steps).
    { destruct (in_dec N.eq_dec u S) as [Hu|Hu].
      - destruct (d_settled _ _ _ _ _ _ I u Hu) as (du & Hdu & _ & Hw). assert (du = c) by congruence. subst du. assumption.
      - apply (pop_opt _ _ _ _ _ _ _ _ I Hp Hu). }
    assert (HleS : forall x dx, In x S -> aget dist x = Some dx -> dx <= c).
    { intros x dx Hx Hdx. destruct (d_settled _ _ _ _ _ _ I x Hx) as (dx' & Hdx' & Hh & _).
      assert (dx' = dx) by congruence. subst dx'. apply (Hh c u Hin). }
    constructor.
    - constructor.
      + apply (d_from _ _ _ _ _ _ I).
      + intros x [<-|Hx].
        * exists c. repeat split; try assumption. intros c' v' Hin'. apply Hsub in Hin'. specialize (Hmin _ Hin'). cbn [fst] in Hmin. assumption.
        * destruct (d_settled _ _ _ _ _ _ I x Hx) as (dx & Hdx & Hh & Hw). exists dx. repeat split; try assumption.
          intros c' v' Hin'. apply (Hh c' v'). apply Hsub. assumption.
      + intros x dx Hdx. destruct (d_heap _ _ _ _ _ _ I x dx Hdx) as [H|H]; [left; right; assumption|].
        destruct (Hrest _ H) as [E|H']; [inversion E; subst; left; left; reflexivity|right; assumption].
      + intros c' x Hin'. apply (d_entry _ _ _ _ _ _ I). apply Hsub. assumption.
      + apply (d_closed _ _ _ _ _ _ I).
      + intros x dx Hdx Hxf. destruct (d_par _ _ _ _ _ _ I x dx Hdx Hxf) as (p & e & w & dp & H1 & H2 & H3 & H4 & H5 & H6).
        exists p, e, w, dp. repeat split; try assumption. right. assumption.
      + apply (d_rk _ _ _ _ _ _ I).
      + intros [E|H]; [congruence|]. apply (d_noto _ _ _ _ _ _ I). assumption.
      + intros x Hx. right. assumption.
    - assumption.
    - left. reflexivity.
    - intros x dx [<-|Hx] Hdx; [assert (dx = c) by congruence; lia|apply (HleS x dx Hx Hdx)].
    - intros s [].
  Qed.

  Lemma ri_close S rk dist par heap u c :
    RI (u :: S) S rk dist par heap u c (ws u) -> DI (u :: S) (u :: S) rk dist par heap.
  Proof.
    intros [I R2 R3 R4 R5]. destruct I as [I1 I2 I3 I4 I5 I6 I7 I8 I9]. constructor; try assumption.
    - intros x [<-|Hx] s Hs.
      + destruct (R5 s Hs) as (dv & Hdv & Hle). exists c, dv. repeat split; assumption.
      + apply (I5 x Hx s Hs).
    - intros x Hx. assumption.
  Qed.

  Definition dres_ok (r : option (option (N * pmap))) : Prop :=
    match r with
    | Some (Some (c, par')) =>
        exists steps, wwalk from steps to /\ wsum steps = c /\
          rebuild (S (length par')) from to par' [] [] = (from :: map nbr steps, map sid steps) /\
          forall steps', wwalk from steps' to -> c <= wsum steps'
    | Some None => forall steps, ~ wwalk from steps to
    | None => True
    end.

  Lemma dloop_ok : forall fuel Sd rk dist par heap,
    DI Sd Sd rk dist par heap -> dres_ok (dijkstra_gen ws to fuel (dist, par, heap)).
  Proof.
    induction fuel as [|fuel IH]; intros Sd rk dist par heap I; [exact Logic.I|].
    cbn [dijkstra_gen]. destruct (heap_pop heap) as [[[c u] heap']|] eqn:Hp.
    - destruct (heap_pop_spec _ _ _ Hp) as (Hin & Hmin & Hsub & Hrest).
      destruct (d_entry _ _ _ _ _ _ I c u Hin) as (d & Hd & Hle).
      destruct (N.eqb_spec u to) as [->|Hut].
      + (* the target is popped *)
        cbn [dres_ok].
        destruct (chain_ok _ _ _ _ _ _ I (rk to) to d [] [] (S (length par))) as (steps & W & Sm & R);
          [lia|assumption|pose proof (d_rk _ _ _ _ _ _ I to d Hd); lia|].
        pose proof (pop_opt _ _ _ _ _ _ _ _ I Hp (d_noto _ _ _ _ _ _ I)) as Hopt.
        pose proof (Hopt steps W) as Hc. exists steps. rewrite !app_nil_r in R.
        repeat split; try assumption. lia.
      + rewrite Hd. destruct (N.ltb_spec d c) as [Hlt|Hge].
        * apply (IH Sd rk). apply (di_stale _ _ _ _ _ _ _ _ _ I Hp Hd Hlt).
        * assert (d = c) by lia. subst d.
          pose proof (ri_start _ _ _ _ _ _ _ _ I Hp Hut Hd) as R0.
          pose proof (relax_fold (ws u) _ _ _ _ _ _ _ _ [] R0 eq_refl) as Hf.
          destruct (fold_left (relax u c) (ws u) (dist, par, heap')) as [[dist1 par1] heap1].
          destruct Hf as [rk1 R1]. apply (IH (u :: Sd) rk1). apply (ri_close _ _ _ _ _ _ _ R1).
    - (* empty heap *)
      cbn [dres_ok]. apply heap_pop_none in Hp. subst heap. intros steps W.
      assert (Hf : In from Sd).
      { destruct (d_heap _ _ _ _ _ _ I from 0 (d_from _ _ _ _ _ _ I)) as [H|[]]. assumption. }
      destruct (escape _ _ _ _ _ I steps from to W Hf (d_noto _ _ _ _ _ _ I)) as (y & dy & dx & Hy & Hdy & _ & _).
      destruct (d_heap _ _ _ _ _ _ I y dy Hdy) as [H|[]]. contradiction.
  Qed.

  (* Dijkstra started as the code starts it *)
  Theorem dijkstra_correct : forall fuel,
    dres_ok (dijkstra_gen ws to fuel ([(from, 0)], [], [(0, from)])).
  Proof.
    intros fuel. apply (dloop_ok fuel [] (fun _ => 0%nat)).
    constructor.
    - cbn. rewrite N.eqb_refl. reflexivity.
    - intros u [].
    - intros v dv Hd. cbn in Hd. destruct (N.eqb_spec from v) as [<-|]; [|discriminate]. inversion Hd; subst. right. left. reflexivity.
    - intros c v [Hin|[]]. inversion Hin; subst. exists 0. cbn. rewrite N.eqb_refl. split; [reflexivity|lia].
    - intros u [].
    - intros v dv Hd Hne. cbn in Hd. destruct (N.eqb_spec from v) as [<-|]; [contradiction|discriminate].
    - intros v dv _. cbn. lia.
    - intros [].
    - intros u [].
  Qed.
End Dijkstra.

(* ---------------------------------------------------------------- find_weighted_path *)
(* one weighted step the property allows from u: an existing edge followed in its direction
   (undirected edges either way), at its weight (property w, default 1) *)
Definition wstep (g : graph) (u : N) (s : N * N * N) : Prop :=
  exists e, In e (gedges g) /\ eid e = sid s /\ weight e = swt s /\ dir_step e u (nbr s).
Inductive rww (R : N -> N * N * N -> Prop) : N -> list (N * N * N) -> N -> Prop :=
| rww_nil : forall u, rww R u [] u
| rww_cons : forall u s r v, R u s -> rww R (nbr s) r v -> rww R u (s :: r) v.

Lemma wwalk_rww ws (R : N -> N * N * N -> Prop) :
  (forall u s, In s (ws u) <-> R u s) -> forall u l v, wwalk ws u l v <-> rww R u l v.
Proof.
  intros H u l v. split.
  - induction 1; [constructor|]. constructor; [apply H; assumption|assumption].
  - induction 1; [constructor|]. constructor; [apply H; assumption|assumption].
Qed.

Lemma w_succs_spec nb g u s : NbSpec nb -> (In s (w_succs nb g u) <-> wstep g u s).
Proof.
  intros Hnb. destruct s as [[v i] w]. unfold w_succs, wstep. cbn [nbr sid swt fst snd].
  rewrite in_app_iff, !in_flat_map. split.
  - intros [(e & He & Hin)|(e & He & Hin)].
    + unfold out_list in He. apply filter_In in He. destruct He as [Hg _].
      rewrite Hnb in Hin. unfold fp_neighbor_default in Hin. exists e.
      destruct (N.eqb_spec (efrom e) u) as [Hf|Hf].
      * destruct Hin as [Hin|[]]. inversion Hin; subst. repeat split; try assumption; try reflexivity. left. split; reflexivity.
      * destruct (N.eqb_spec (eto e) u) as [Ht|Ht]; cbn [andb] in Hin; [|destruct Hin].
        destruct (edir e) eqn:Hd; cbn [negb] in Hin; [destruct Hin|].
        destruct Hin as [Hin|[]]. inversion Hin; subst. repeat split; try assumption; try reflexivity. right. repeat split; reflexivity || assumption.
    + unfold in_list in He. apply filter_In in He. destruct He as [Hg _]. exists e.
      destruct (edir e) eqn:Hd; [destruct Hin|].
      destruct (N.eqb_spec (eto e) u) as [Ht|Ht]; [|destruct Hin].
      destruct Hin as [Hin|[]]. inversion Hin; subst. repeat split; try assumption; try reflexivity. right. repeat split; reflexivity || assumption.
  - intros (e & Hg & <- & <- & Hd). left. exists e. split.
    + unfold out_list. apply filter_In. split; [assumption|]. unfold in_out_list.
      destruct Hd as [[<- _]|(Hd & <- & _)]; [rewrite N.eqb_refl; reflexivity|rewrite Hd, N.eqb_refl; cbn; apply orb_true_r].
    + rewrite Hnb. unfold fp_neighbor_default. destruct Hd as [[Hu Hw]|(Hd & Hu & Hw)].
      * rewrite Hu, N.eqb_refl, Hw. left. reflexivity.
      * destruct (N.eqb_spec (efrom e) u) as [E|E].
        -- assert (Ew : eto e = v) by congruence. rewrite Ew. left. reflexivity.
        -- rewrite Hu, N.eqb_refl, Hd. cbn. rewrite Hw. left. reflexivity.
Qed.

Theorem weighted_path_correct nb : NbSpec nb -> forall g from to,
  match find_weighted_path_with nb g from to with
  | WOk ns es total =>
      node_exists g from = true /\ node_exists g to = true /\
      exists steps, ns = from :: map nbr steps /\ es = map sid steps /\
        rww (wstep g) from steps to /\ wsum steps = total /\
        forall steps', rww (wstep g) from steps' to -> total <= wsum steps'
  | WNotFound =>
      node_exists g from = true /\ node_exists g to = true /\
      forall steps, ~ rww (wstep g) from steps to
  | WNoNode n => (node_exists g from = false /\ n = from) \/ (node_exists g from = true /\ node_exists g to = false /\ n = to)
  | WErr => False
  | WFuel => True
  end.
Proof.
  intros Hnb g from to. unfold find_weighted_path_with.
  destruct (node_exists g from) eqn:Hf; cbn [negb]; [|left; split; reflexivity].
  destruct (node_exists g to) eqn:Ht; cbn [negb]; [|right; repeat split; reflexivity].
  destruct (N.eqb_spec from to) as [<-|Hne].
  - repeat split. exists []. repeat split; [constructor|]. intros. cbn. lia.
  - unfold dijkstra_loop.
    pose proof (dijkstra_correct (w_succs nb g) from to Hne (dijkstra_fuel g)) as H.
    pose proof (wwalk_rww (w_succs nb g) (wstep g) (fun u s => w_succs_spec nb g u s Hnb)) as WR.
    destruct (dijkstra_gen (w_succs nb g) to (dijkstra_fuel g) ([(from, 0)], [], [(0, from)])) as [[[c par]|]|]; cbn [dres_ok] in H.
    + destruct H as (steps & W & Sm & R & Hopt). rewrite R. repeat split.
      exists steps. repeat split; try assumption.
      * apply WR. assumption.
      * intros steps' W'. apply Hopt. apply WR. assumption.
    + repeat split. intros steps W. apply (H steps). apply WR. assumption.
    + exact Logic.I.
Qed.
