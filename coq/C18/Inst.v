(* C18/Inst.v -- PER-RUN OBLIGATIONS over gen/Gen_C18.v (regenerated from graph_engine/src/lib.rs on
   every run): the neighbour rules of find_path / find_weighted_path / find_all_paths follow a
   directed edge only from `from` to `to` and an undirected edge either way.  A harmless rewrite of
   the Rust expressions re-proves; following incoming lists of directed edges does not. *)
From NV.Common Require Import Base.
From NV.C18 Require Import Model Proofs.
From NV.gen Require Import Gen_C18.
Open Scope N_scope.

Ltac nb_cases e cur :=
  destruct (N.eqb (efrom e) cur), (N.eqb (eto e) cur), (edir e); reflexivity.

Lemma gen_fp_spec : NbSpec gen_fp_neighbor.
Proof. intros e cur. unfold gen_fp_neighbor, fp_neighbor_default. nb_cases e cur. Qed.
Lemma gen_wp_spec : NbSpec gen_wp_neighbor.
Proof. intros e cur. unfold gen_wp_neighbor, fp_neighbor_default. nb_cases e cur. Qed.
Lemma gen_ap_spec : NbSpec gen_ap_neighbor.
Proof. intros e cur. unfold gen_ap_neighbor, fp_neighbor_default. nb_cases e cur. Qed.
