(* C18/Model.v -- executable model of the path queries of graph_engine/src/lib.rs.
   Definitions only.  The graph is the multigraph the engine's public reads return: nodes with an
   optional integer property "p", edges (in id order) with direction flag, type, optional integer
   weight property "w" and optional integer filter property "q".  Adjacency lists are derived the
   way create_edge/delete_edge maintain them (C05): the outgoing list of n holds, in id order, the
   edges with from = n plus the undirected edges with to = n; the incoming list symmetrically. *)
From NV.Common Require Import Base.
Open Scope N_scope.

Record edge := E { eid : N; efrom : N; eto : N; edir : bool; ety : N; ew : option N; eqp : option N }.
Record graph := G { gnodes : list (N * option N); gedges : list edge }.
(* TraversalFilter: conjunction of (op, value) conditions on node property p / edge property q.
   op: 0 Eq, 1 Ne, 2 Lt, 3 Le, 4 Gt, 5 Ge (CompareOp) *)
Record filt := F { fnode : list (N * N); fedge : list (N * N) }.
Definition no_filt : filt := F [] [].

Definition mem (x : N) (l : list N) : bool := existsb (N.eqb x) l.

Definition node_exists (g : graph) (n : N) : bool := existsb (fun p => N.eqb (fst p) n) (gnodes g).
Definition node_prop (g : graph) (n : N) : option (option N) := aget (gnodes g) n.

(* PropertyCondition::evaluate_properties on an Int property *)
Definition cond_ok (p : option N) (c : N * N) : bool :=
  let '(op, v) := c in
  match p with
  | None => N.eqb op 1
  | Some a =>
      match op with
      | 0 => N.eqb a v
      | 1 => negb (N.eqb a v)
      | 2 => N.ltb a v
      | 3 => N.leb a v
      | 4 => N.ltb v a
      | _ => N.leb v a
      end
  end.
Definition edge_ok (f : filt) (e : edge) : bool := forallb (cond_ok (eqp e)) (fedge f).
(* `if let Ok(node) = self.get_node(n) { if !f.matches_node(&node) { continue } }`: a missing node passes *)
Definition node_ok (g : graph) (f : filt) (n : N) : bool :=
  match node_prop g n with
  | Some p => forallb (cond_ok p) (fnode f)
  | None => true
  end.

Definition weight (e : edge) : N := match ew e with Some w => w | None => 1 end.

(* adjacency lists (as edge records, in id order) *)
Definition in_out_list (e : edge) (n : N) : bool := N.eqb (efrom e) n || (negb (edir e) && N.eqb (eto e) n).
Definition in_in_list (e : edge) (n : N) : bool := N.eqb (eto e) n || (negb (edir e) && N.eqb (efrom e) n).
Definition out_list (g : graph) (n : N) : list edge := filter (fun e => in_out_list e n) (gedges g).
Definition in_list (g : graph) (n : N) : list edge := filter (fun e => in_in_list e n) (gedges g).

(* ------------------------------------------------------------------------------------------ *)
(* find_path: breadth-first search with a FIFO queue, a visited set and a parent map, returning
   as soon as the target is discovered.  Generic in the successor function. *)
Definition pmap := list (N * (N * N)).     (* node -> (parent node, edge id); newest first *)
Inductive scan_res := SFound (par : pmap) | SCont (q vis : list N) (par : pmap).
Inductive loop_res := LFound (par : pmap) | LNotFound | LFuel.

Section BFS.
  Variable succs : N -> list (N * N).      (* (neighbour, edge id) in expansion order *)
  Variable target : N.

  Fixpoint scan (cur : N) (ss : list (N * N)) (q vis : list N) (par : pmap) : scan_res :=
    match ss with
    | [] => SCont q vis par
    | (w, e) :: r =>
        if mem w vis then scan cur r q vis par
        else let par' := (w, (cur, e)) :: par in
             if N.eqb w target then SFound par'
             else scan cur r (q ++ [w]) (vis ++ [w]) par'
    end.

  Fixpoint bfs_loop (fuel : nat) (q vis : list N) (par : pmap) : loop_res :=
    match fuel with
    | O => LFuel
    | S f =>
        match q with
        | [] => LNotFound
        | cur :: q' =>
            match scan cur (succs cur) q' vis par with
            | SFound par' => LFound par'
            | SCont q2 vis2 par2 => bfs_loop f q2 vis2 par2
            end
        end
    end.
End BFS.

(* reconstruct_path: follow the parent map back from `to` *)
Fixpoint rebuild (fuel : nat) (from cur : N) (par : pmap) (ns es : list N) : list N * list N :=
  if N.eqb cur from then (from :: ns, es)
  else match fuel with
       | O => (from :: cur :: ns, es)
       | S f =>
           match aget par cur with
           | Some (p, e) => rebuild f from p par (cur :: ns) (e :: es)
           | None => (from :: cur :: ns, es)
           end
       end.

Inductive pres := POk (ns es : list N) | PNotFound | PNoNode (n : N) | PErr | PFuel.

(* the edges find_path looks at from `cur`: the outgoing list, then the incoming entries not yet seen *)
Definition fp_edges (g : graph) (cur : N) : list edge :=
  let o := out_list g cur in
  o ++ filter (fun e => negb (mem (eid e) (map eid o))) (in_list g cur).

(* nb e cur = the neighbour the code derives from edge e when standing on cur (None = `continue`) *)
Definition fp_succs (nb : edge -> N -> option N) (g : graph) (f : filt) (to cur : N) : list (N * N) :=
  flat_map (fun e =>
              if edge_ok f e then
                match nb e cur with
                | Some w => if N.eqb w to || node_ok g f w then [(w, eid e)] else []
                | None => []
                end
              else []) (fp_edges g cur).

(* hand-written default of the neighbour rule (used when the translator misses) *)
Definition fp_neighbor_default (e : edge) (cur : N) : option N :=
  if N.eqb (efrom e) cur then Some (eto e)
  else if N.eqb (eto e) cur && negb (edir e) then Some (efrom e)
  else None.

Definition bfs_fuel (g : graph) : nat := S (S (2 * length (gedges g))).

Definition find_path_with (nb : edge -> N -> option N) (g : graph) (f : filt) (from to : N) : pres :=
  if negb (node_exists g from) then PNoNode from
  else if negb (node_exists g to) then PNoNode to
  else if N.eqb from to then POk [from] []
  else match bfs_loop (fp_succs nb g f to) to (bfs_fuel g) [from] [from] [] with
       | LFuel => PFuel
       | LNotFound => PNotFound
       | LFound par => let '(ns, es) := rebuild (S (length par)) from to par [] [] in POk ns es
       end.

(* ------------------------------------------------------------------------------------------ *)
(* find_weighted_path: Dijkstra with a binary heap of (cost, node); weights are naturals here
   (the harness uses integer-valued non-negative weights, so f64 sums are exact) *)
Inductive wres := WOk (ns es : list N) (total : N) | WNotFound | WNoNode (n : N) | WErr | WFuel.

(* neighbours in the order the code relaxes them: outgoing list, then incoming list (undirected only) *)
Definition w_succs (nb : edge -> N -> option N) (g : graph) (cur : N) : list (N * N * N) :=   (* (neighbour, edge id, weight) *)
  flat_map (fun e => match nb e cur with Some w => [(w, eid e, weight e)] | None => [] end) (out_list g cur)
  ++ flat_map (fun e =>
              if edir e then []
              else if N.eqb (eto e) cur then [(efrom e, eid e, weight e)]
              else []) (in_list g cur).

(* DijkstraEntry::cmp : smallest cost first, ties: larger node id first *)
Definition pops_before (a b : N * N) : bool :=
  N.ltb (fst a) (fst b) || (N.eqb (fst a) (fst b) && N.ltb (snd b) (snd a)).
Fixpoint heap_best (x : N * N) (h : list (N * N)) : N * N :=
  match h with
  | [] => x
  | y :: r => heap_best (if pops_before y x then y else x) r
  end.
Definition entry_eqb (a b : N * N) : bool := N.eqb (fst a) (fst b) && N.eqb (snd a) (snd b).
Fixpoint heap_remove (x : N * N) (h : list (N * N)) : list (N * N) :=
  match h with
  | [] => []
  | y :: r => if entry_eqb x y then r else y :: heap_remove x r
  end.
Definition heap_pop (h : list (N * N)) : option ((N * N) * list (N * N)) :=
  match h with
  | [] => None
  | x :: r => let m := heap_best x r in Some (m, heap_remove m h)
  end.

Definition dmap := list (N * N).
Definition dstate := (dmap * pmap * list (N * N))%type.     (* dist, parent, heap *)

Definition relax (cur cost : N) (st : dstate) (s : N * N * N) : dstate :=
  let '(dist, par, heap) := st in
  let '(w, e, wt) := s in
  let nc := cost + wt in
  let better := match aget dist w with Some d => N.ltb nc d | None => true end in
  if better then (aset dist w nc, (w, (cur, e)) :: par, (nc, w) :: heap) else st.

(* generic in the weighted successor function ws : node -> [(neighbour, edge id, weight)] *)
Fixpoint dijkstra_gen (ws : N -> list (N * N * N)) (to : N) (fuel : nat) (st : dstate) : option (option (N * pmap)) :=
  match fuel with
  | O => None
  | S f =>
      let '(dist, par, heap) := st in
      match heap_pop heap with
      | None => Some None
      | Some ((cost, u), heap') =>
          if N.eqb u to then Some (Some (cost, par))
          else if match aget dist u with Some d => N.ltb d cost | None => false end
               then dijkstra_gen ws to f (dist, par, heap')
               else dijkstra_gen ws to f (fold_left (relax u cost) (ws u) (dist, par, heap'))
      end
  end.
Definition dijkstra_loop (nb : edge -> N -> option N) (g : graph) := dijkstra_gen (w_succs nb g).

Definition dijkstra_fuel (g : graph) : nat :=
  let m := length (gedges g) in S (S (2 * m)) * S (S (2 * m)).

Definition find_weighted_path_with (nb : edge -> N -> option N) (g : graph) (from to : N) : wres :=
  if negb (node_exists g from) then WNoNode from
  else if negb (node_exists g to) then WNoNode to
  else if N.eqb from to then WOk [from] [] 0
  else match dijkstra_loop nb g to (dijkstra_fuel g) ([(from, 0)], [], [(0, from)]) with
       | None => WFuel
       | Some None => WNotFound
       | Some (Some (cost, par)) =>
           let '(ns, es) := rebuild (S (length par)) from to par [] [] in WOk ns es cost
       end.

(* ------------------------------------------------------------------------------------------ *)
(* find_all_paths: level-synchronous BFS with multi-parent tracking over outgoing lists, then
   enumeration of all parent chains (stack order), capped by max_paths / max_parents_per_node *)
Inductive ares := AOk (hops : N) (ps : list (list N * list N)) | ANotFound | ANoNode (n : N) | AErr | AFuel.

Definition ap_succs (nb : edge -> N -> option N) (g : graph) (cur : N) : list (N * N) :=
  flat_map (fun e => match nb e cur with Some w => [(w, eid e)] | None => [] end) (out_list g cur).

Definition parents_map := list (N * list (N * N)).
(* state of one level: visited_level (node -> level), parents, next level queue, destination reached *)
Definition ap_state := (list (N * N) * parents_map * list N * bool)%type.

Definition ap_visit (to level maxpar cur : N) (st : ap_state) (s : N * N) : ap_state :=
  let '(vl, pars, next, found) := st in
  let '(w, e) := s in
  match aget vl w with
  | None => (aset vl w level, aset pars w [(cur, e)], next ++ [w], found || N.eqb w to)
  | Some l =>
      if N.eqb l level then
        match aget pars w with
        | Some p => if N.ltb (N.of_nat (length p)) maxpar then (vl, aset pars w (p ++ [(cur, e)]), next, found) else st
        | None => st
        end
      else st
  end.

Fixpoint ap_levels (nb : edge -> N -> option N) (g : graph) (to maxpar : N) (fuel : nat) (level : N) (cur_level : list N) (vl : list (N * N)) (pars : parents_map)
  : option (option (N * parents_map)) :=
  match fuel with
  | O => None
  | S f =>
      match cur_level with
      | [] => Some None
      | _ =>
          let level' := level + 1 in
          let '(vl', pars', next, found) :=
            fold_left (fun st cur => fold_left (ap_visit to level' maxpar cur) (ap_succs nb g cur) st) cur_level (vl, pars, [], false) in
          if found then Some (Some (level', pars')) else ap_levels nb g to maxpar f level' next vl' pars'
      end
  end.

(* enumerate_paths: explicit stack; a node's parents are pushed in list order, so the LAST parent is
   expanded first.  depth-bounded structural version of the same order. *)
Fixpoint ap_enum (depth : nat) (from : N) (pars : parents_map) (cur : N) (ns es : list N) : list (list N * list N) :=
  if N.eqb cur from then [(ns, es)]
  else match depth with
       | O => []
       | S d =>
           match aget pars cur with
           | Some pl => flat_map (fun pe => ap_enum d from pars (fst pe) (fst pe :: ns) (snd pe :: es)) (rev pl)
           | None => []
           end
       end.

Definition find_all_paths_with (nb : edge -> N -> option N) (g : graph) (maxpaths maxpar from to : N) : ares :=
  if negb (node_exists g from) then ANoNode from
  else if negb (node_exists g to) then ANoNode to
  else if N.eqb from to then AOk 0 [([from], [])]
  else match ap_levels nb g to maxpar (bfs_fuel g) 0 [from] [(from, 0)] [] with
       | None => AFuel
       | Some None => ANotFound
       | Some (Some (hops, pars)) =>
           AOk hops (firstn (N.to_nat maxpaths) (ap_enum (N.to_nat hops) from pars to [to] []))
       end.

(* ------------------------------------------------------------------------------------------ *)
(* find_variable_paths: iterative-deepening DFS with backtracking *)
Record vcfg := VC { vmin : N; vmax : N; vdir : N; vtypes : option (list N); vmaxpaths : N; vcycles : bool; vfilt : option filt }.
Inductive vres := VOk (ps : list (list N * list N)) | VNoNode (n : N) | VErr.

Definition type_ok (ts : option (list N)) (e : edge) : bool :=
  match ts with Some l => mem (ety e) l | None => true end.
Definition vfilt_of (c : vcfg) : filt := match vfilt c with Some f => f | None => no_filt end.

(* get_variable_path_neighbors_filtered; dir: 0 Outgoing, 1 Incoming, 2 Both *)
Definition vp_succs (g : graph) (c : vcfg) (cur : N) : list (N * N) :=
  let f := vfilt_of c in
  (if N.eqb (vdir c) 0 || N.eqb (vdir c) 2 then
     flat_map (fun e =>
                 if type_ok (vtypes c) e && edge_ok f e then
                   if N.eqb (efrom e) cur then [(eto e, eid e)]
                   else if negb (edir e) && N.eqb (eto e) cur then [(efrom e, eid e)]
                   else []
                 else []) (out_list g cur)
   else [])
  ++
  (if N.eqb (vdir c) 1 || N.eqb (vdir c) 2 then
     flat_map (fun e =>
                 if type_ok (vtypes c) e && edge_ok f e then
                   if N.eqb (eto e) cur || (negb (edir e) && N.eqb (efrom e) cur) then
                     if N.eqb (vdir c) 2 && negb (edir e) then []
                     else [(if N.eqb (eto e) cur then efrom e else eto e, eid e)]
                   else []
                 else []) (in_list g cur)
   else []).

(* one DFS to exactly `rem` more hops; ns/es are the path so far, reversed *)
Fixpoint vp_dfs (g : graph) (c : vcfg) (to : N) (rem : nat) (cur : N) (visited rns res : list N) : list (list N * list N) :=
  match rem with
  | O => if N.eqb cur to then [(rev rns, rev res)] else []
  | S r =>
      flat_map (fun s =>
                  let '(w, e) := s in
                  if negb (vcycles c) && mem w visited then []
                  else if negb (N.eqb w to) && negb (node_ok g (vfilt_of c) w) then []
                  else vp_dfs g c to r w (if vcycles c then visited else w :: visited) (w :: rns) (e :: res))
               (vp_succs g c cur)
  end.

Definition find_variable_paths (g : graph) (c : vcfg) (from to : N) : vres :=
  if negb (node_exists g from) then VNoNode from
  else if negb (node_exists g to) then VNoNode to
  else
    let zero := if N.eqb from to && N.eqb (vmin c) 0 then [([from], [])] else [] in
    if N.eqb from to && N.eqb (vmin c) 0 && N.eqb (vmax c) 0 then VOk zero
    else
      let lo := N.max (vmin c) 1 in
      let depths := map (fun k => N.to_nat (lo + k)) (N_seq (N.succ (vmax c) - lo)) in
      let all := flat_map (fun d => vp_dfs g c to d from (if vcycles c then [] else [from]) [from] []) depths in
      VOk (firstn (N.to_nat (vmaxpaths c)) (zero ++ all)).

(* ------------------------------------------------------------------------------------------ *)
(* traverse: BFS to max_depth; the result ORDER depends on HashSet iteration, so the model returns
   the node set (sorted by the harness): every node within max_depth hops under
   get_neighbor_ids_filtered, the node filter deciding inclusion only (start always included). *)
Inductive tres := TOk (first_is_start : bool) (ns : list N) | TNoNode (n : N) | TErr.
Definition tcfg := (N * N * option N * option filt)%type.    (* direction, max depth, edge type, filter *)

Definition tr_succs (g : graph) (dir : N) (ty : option N) (f : filt) (cur : N) : list N :=
  let tok e := match ty with Some t => N.eqb (ety e) t | None => true end in
  filter (fun w => negb (N.eqb w cur))
    ((if N.eqb dir 0 || N.eqb dir 2 then
        flat_map (fun e => if tok e && edge_ok f e then
                             (if N.eqb (efrom e) cur then [eto e] else []) ++
                             (if negb (edir e) && N.eqb (eto e) cur then [efrom e] else [])
                           else []) (out_list g cur)
      else [])
     ++
     (if N.eqb dir 1 || N.eqb dir 2 then
        flat_map (fun e => if tok e && edge_ok f e then
                             (if N.eqb (eto e) cur then [efrom e] else []) ++
                             (if negb (edir e) && N.eqb (efrom e) cur then [eto e] else [])
                           else []) (in_list g cur)
      else [])).

Fixpoint add_new (seen : list N) (xs : list N) : list N * list N :=    (* (seen', newly added) *)
  match xs with
  | [] => (seen, [])
  | x :: r => if mem x seen then add_new seen r
              else let '(s, nw) := add_new (seen ++ [x]) r in (s, x :: nw)
  end.

Fixpoint tr_levels (step : N -> list N) (depth : nat) (seen frontier : list N) : list N :=
  match depth with
  | O => seen
  | S d => let '(seen', nw) := add_new seen (flat_map step frontier) in
           match nw with [] => seen' | _ => tr_levels step d seen' nw end
  end.

Fixpoint insert_sorted (x : N) (l : list N) : list N :=
  match l with
  | [] => [x]
  | y :: r => if N.leb x y then x :: l else y :: insert_sorted x r
  end.
Definition sort_N (l : list N) : list N := fold_right insert_sorted [] l.

Definition traverse (g : graph) (c : tcfg) (start : N) : tres :=
  let '(dir, depth, ty, fo) := c in
  let f := match fo with Some f => f | None => no_filt end in
  if negb (node_exists g start) then TNoNode start
  else
    let reached := tr_levels (tr_succs g dir ty f) (N.to_nat depth) [start] [start] in
    TOk true (sort_N (filter (fun v => N.eqb v start || node_ok g f v) reached)).
