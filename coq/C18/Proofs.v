(* C18/Proofs.v -- lemmas and main theorems about the path-query model. *)
From NV.Common Require Import Base.
From NV.C18 Require Import Model.
From Coq Require Import Sorting.Sorted.
Open Scope N_scope.

Arguments N.add : simpl never.
Arguments N.sub : simpl never.
Arguments N.mul : simpl never.
Arguments N.eqb : simpl never.
Arguments N.ltb : simpl never.
Arguments N.leb : simpl never.

(* ------------------------------------------------------------------------------------------ *)
(* walks over an abstract successor function: a list of (node entered, edge used) steps *)
Inductive walk (succs : N -> list (N * N)) : N -> list (N * N) -> N -> Prop :=
| walk_nil : forall u, walk succs u [] u
| walk_cons : forall u w e r v, In (w, e) (succs u) -> walk succs w r v -> walk succs u ((w, e) :: r) v.

Lemma walk_app succs u l1 w l2 v : walk succs u l1 w -> walk succs w l2 v -> walk succs u (l1 ++ l2) v.
Proof. induction 1; cbn; intros; [assumption|constructor; auto]. Qed.

Lemma mem_In x l : mem x l = true <-> In x l.
Proof.
  unfold mem. rewrite existsb_exists. split.
  - intros [y [Hy E]]. apply N.eqb_eq in E. subst. assumption.
  - intros H. exists x. split; [assumption|apply N.eqb_refl].
Qed.
Lemma mem_nIn x l : mem x l = false <-> ~ In x l.
Proof. rewrite <- mem_In. destruct (mem x l); split; congruence. Qed.

Lemma NoDup_app_snoc {A} (l : list A) (x : A) : NoDup l -> ~ In x l -> NoDup (l ++ [x]).
Proof.
  induction 1 as [|a l Ha Hn IH]; cbn; intros Hx.
  - constructor; [intros []|constructor].
  - constructor.
    + intros Hin. apply in_app_or in Hin. destruct Hin as [Hin|[<-|[]]]; [contradiction|]. apply Hx. left. reflexivity.
    + apply IH. intros Hin. apply Hx. right. assumption.
Qed.

(* ------------------------------------------------------------------------------------------ *)
Section BFS_correct.
  Variable succs : N -> list (N * N).
  Variable from to : N.
  Hypothesis from_ne_to : from <> to.
  Variable U : list N.                       (* a finite universe closed under succs *)
  Hypothesis U_from : In from U.
  Hypothesis U_closed : forall u w e, In (w, e) (succs u) -> In w U.

  Notation walk' := (walk succs).
  Definition le_d (d : N -> nat) (a b : N) : Prop := (d a <= d b)%nat.

  (* state in the middle of expanding `cur`: `pre` are the successors of cur already looked at *)
  Record sinv (d : N -> nat) (done : list N) (cur : N) (pre : list (N * N)) (q vis : list N) (par : pmap) : Prop := {
    s_vis : vis = done ++ cur :: q;
    s_nodup : NoDup vis;
    s_from : In from vis /\ d from = 0%nat;
    s_par : forall v, In v vis -> v <> from ->
            exists p e, aget par v = Some (p, e) /\ In p (done ++ [cur]) /\ In (v, e) (succs p) /\ d v = S (d p);
    s_sorted : StronglySorted (le_d d) vis;
    s_bound : forall v, In v vis -> (d v <= S (d cur))%nat;
    s_closed : forall u, In u done -> forall w e, In (w, e) (succs u) -> In w vis /\ (d w <= S (d u))%nat;
    s_pre : forall w e, In (w, e) pre -> In w vis /\ (d w <= S (d cur))%nat;
    s_noto : ~ In to vis;
    s_len : forall v, In v vis -> (d v <= length par)%nat;
    s_univ : incl vis U
  }.

  Lemma sorted_app_le (d : N -> nat) l1 x l2 : StronglySorted (le_d d) (l1 ++ x :: l2) ->
    (forall y, In y l1 -> (d y <= d x)%nat) /\ (forall y, In y l2 -> (d x <= d y)%nat).
  Proof.
    induction l1 as [|a l1 IH]; cbn; intros H.
    - inversion H as [|? ? Hs Hf]; subst. split; [intros ? []|]. intros y Hy.
      rewrite Forall_forall in Hf. apply Hf. assumption.
    - inversion H as [|? ? Hs Hf]; subst. destruct (IH Hs) as [I1 I2]. split; [|assumption].
      intros y [->|Hy]; [|auto]. rewrite Forall_forall in Hf. apply Hf. apply in_or_app. right. left. reflexivity.
  Qed.

  Lemma sorted_snoc (d : N -> nat) l x : StronglySorted (le_d d) l -> (forall y, In y l -> (d y <= d x)%nat) ->
    StronglySorted (le_d d) (l ++ [x]).
  Proof.
    induction 1 as [|a l Hs IH Hf]; cbn; intros Hle.
    - constructor; constructor.
    - constructor.
      + apply IH. intros y Hy. apply Hle. right. assumption.
      + rewrite Forall_forall in *. intros y Hy. apply in_app_or in Hy. destruct Hy as [Hy|[<-|[]]].
        * apply Hf. assumption.
        * apply Hle. left. reflexivity.
  Qed.

  Lemma sorted_ext (d d' : N -> nat) l : (forall x, In x l -> d' x = d x) -> StronglySorted (le_d d) l -> StronglySorted (le_d d') l.
  Proof.
    intros He H. induction H as [|a l Hs IH Hf]; [constructor|].
    constructor.
    - apply IH. intros x Hx. apply He. right. assumption.
    - rewrite Forall_forall in *. intros y Hy. unfold le_d. rewrite (He a), (He y); [|right; assumption|left; reflexivity].
      apply Hf. assumption.
  Qed.

  (* nodes not yet expanded are at least as deep as cur *)
  Lemma s_cur_le (d : N -> nat) done cur pre q vis par : sinv d done cur pre q vis par ->
    forall x, In x vis -> ~ In x done -> (d cur <= d x)%nat.
  Proof.
    intros I x Hx Hnd. pose proof (s_sorted _ _ _ _ _ _ _ I) as Hs. rewrite (s_vis _ _ _ _ _ _ _ I) in Hs, Hx.
    destruct (sorted_app_le _ _ _ _ Hs) as [_ H2].
    apply in_app_or in Hx. destruct Hx as [Hx|[<-|Hx]]; [contradiction|apply le_n|apply H2; assumption].
  Qed.

  (* a walk that starts inside vis and ends outside it is long *)
  Lemma escape_long (d : N -> nat) done cur pre q vis par : sinv d done cur pre q vis par ->
    forall steps u v, walk' u steps v -> In u vis -> ~ In v vis -> (S (d cur) <= d u + length steps)%nat.
  Proof.
    intros I steps u v W. induction W as [u|u w e r v Hin W IH]; intros Hu Hv.
    - contradiction.
    - destruct (in_dec N.eq_dec u done) as [Hd|Hnd].
      + destruct (s_closed _ _ _ _ _ _ _ I u Hd w e Hin) as [Hw Hle].
        specialize (IH Hw Hv). cbn [length]. lia.
      + pose proof (s_cur_le _ _ _ _ _ _ _ I u Hu Hnd). cbn [length]. lia.
  Qed.

  (* every walk from an expanded region stays inside vis when all nodes are expanded *)
  Lemma closed_reach (done vis : list N) : (forall u, In u done -> forall w e, In (w, e) (succs u) -> In w vis) ->
    (forall u, In u vis -> In u done) ->
    forall steps u v, walk' u steps v -> In u vis -> In v vis.
  Proof.
    intros Hc Hall steps u v W. induction W; intros Hu; [assumption|].
    apply IHW. eapply Hc; [apply Hall; eassumption|eassumption].
  Qed.

  (* following the parent map back from v *)
  Lemma rebuild_ok (d : N -> nat) (V : list N) (par : pmap) :
    d from = 0%nat ->
    (forall v, In v V -> v <> from ->
       exists p e, aget par v = Some (p, e) /\ In p V /\ In (v, e) (succs p) /\ d v = S (d p)) ->
    forall n v ns es fuel, In v V -> d v = n -> (n <= fuel)%nat ->
      exists steps, walk' from steps v /\ length steps = n /\
        rebuild fuel from v par ns es = (from :: map fst steps ++ ns, map snd steps ++ es).
  Proof.
    intros H0 Hp. induction n as [|n IH]; intros v ns es fuel Hv Hd Hf.
    - assert (v = from) as ->.
      { destruct (N.eq_dec v from) as [|Hne]; [assumption|]. destruct (Hp v Hv Hne) as (p & e & _ & _ & _ & E). lia. }
      exists []. split; [constructor|]. split; [reflexivity|].
      destruct fuel; cbn; rewrite N.eqb_refl; reflexivity.
    - assert (Hne : v <> from) by (intros ->; lia).
      destruct (Hp v Hv Hne) as (p & e & Hg & HpV & Hin & E).
      destruct fuel as [|fuel]; [lia|].
      destruct (IH p (v :: ns) (e :: es) fuel HpV) as (steps & W & L & R); [lia|lia|].
      exists (steps ++ [(v, e)]). split; [|split].
      + eapply walk_app; [eassumption|]. constructor; [assumption|constructor].
      + rewrite app_length. cbn. lia.
      + cbn [rebuild]. destruct (N.eqb_spec v from) as [->|_]; [congruence|].
        rewrite Hg, R. rewrite !map_app. cbn. rewrite <- !app_assoc. reflexivity.
  Qed.

  Definition found_ok (par : pmap) : Prop :=
    exists steps, walk' from steps to /\
      rebuild (S (length par)) from to par [] [] = (from :: map fst steps, map snd steps) /\
      forall steps', walk' from steps' to -> (length steps <= length steps')%nat.

  (* the scan of cur's successors *)
  Lemma scan_ok : forall ss d done cur pre q vis par,
    sinv d done cur pre q vis par -> succs cur = pre ++ ss ->
    match scan to cur ss q vis par with
    | SFound par' => found_ok par'
    | SCont q2 vis2 par2 => exists d2, sinv d2 done cur (succs cur) q2 vis2 par2
    end.
  Proof.
    induction ss as [|[w e] ss IH]; intros d done cur pre q vis par I Hs.
    - cbn. exists d. rewrite app_nil_r in Hs. rewrite Hs. assumption.
    - cbn [scan]. destruct (mem w vis) eqn:Hm.
      + (* already visited *)
        apply mem_In in Hm.
        apply (IH d done cur (pre ++ [(w, e)])); [|rewrite <- app_assoc; assumption].
        destruct I as [Hvis Hnd Hfr Hpar Hsort Hbnd Hcl Hpre Hnt Hlen Hun]. constructor; try assumption.
        intros w' e' Hin. apply in_app_or in Hin. destruct Hin as [Hin|[Hin|[]]]; [apply Hpre with e'; assumption|].
        inversion Hin; subst. split; [assumption|apply Hbnd; assumption].
      + apply mem_nIn in Hm.
        assert (Hcs : In (w, e) (succs cur)) by (rewrite Hs; apply in_or_app; right; left; reflexivity).
        assert (Hcv : In cur vis) by (rewrite (s_vis _ _ _ _ _ _ _ I); apply in_or_app; right; left; reflexivity).
        set (d' := fun x => if N.eqb x w then S (d cur) else d x).
        assert (Hd' : forall x, In x vis -> d' x = d x).
        { intros x Hx. unfold d'. destruct (N.eqb_spec x w) as [->|]; [contradiction|reflexivity]. }
        assert (Hd'w : d' w = S (d cur)) by (unfold d'; rewrite N.eqb_refl; reflexivity).
        assert (Hwf : w <> from) by (intros ->; apply Hm; apply (s_from _ _ _ _ _ _ _ I)).
        destruct (N.eqb_spec w to) as [->|Hwt].
        * (* found *)
          unfold found_ok.
          destruct (rebuild_ok d' (vis ++ [to]) ((to, (cur, e)) :: par)) with (n := S (d cur)) (v := to) (ns := @nil N) (es := @nil N)
            (fuel := S (length ((to, (cur, e)) :: par))) as (steps & W & L & R).
          { rewrite Hd'; apply (s_from _ _ _ _ _ _ _ I). }
          { intros v Hv Hne. apply in_app_or in Hv. destruct Hv as [Hv|[<-|[]]].
            - destruct (s_par _ _ _ _ _ _ _ I v Hv Hne) as (p & e' & Hg & Hp & Hin & E).
              exists p, e'. cbn [aget]. destruct (N.eqb_spec to v) as [->|_]; [contradiction|].
              assert (Hpv : In p vis).
              { rewrite (s_vis _ _ _ _ _ _ _ I). apply in_app_or in Hp. apply in_or_app. destruct Hp as [Hp|[<-|[]]]; [left; assumption|right; left; reflexivity]. }
              repeat split; [assumption|apply in_or_app; left; assumption|assumption|rewrite !Hd' by assumption; assumption].
            - exists cur, e. cbn [aget]. rewrite N.eqb_refl.
              repeat split; [apply in_or_app; left; assumption|assumption|rewrite Hd'w, Hd' by assumption; reflexivity]. }
          { apply in_or_app. right. left. reflexivity. }
          { assumption. }
          { cbn [length]. pose proof (s_len _ _ _ _ _ _ _ I cur Hcv). lia. }
          exists steps. split; [assumption|]. split; [rewrite !app_nil_r in R; exact R|].
          intros steps' W'. rewrite L.
          pose proof (escape_long _ _ _ _ _ _ _ I steps' from to W' (proj1 (s_from _ _ _ _ _ _ _ I)) (s_noto _ _ _ _ _ _ _ I)) as HL.
          rewrite (proj2 (s_from _ _ _ _ _ _ _ I)) in HL. lia.
        * (* enqueue w *)
          apply (IH d' done cur (pre ++ [(w, e)])); [|rewrite <- app_assoc; assumption].
          destruct I as [Hvis Hnd Hfr Hpar Hsort Hbnd Hcl Hpre Hnt Hlen Hun].
          constructor.
          -- rewrite Hvis. rewrite <- app_assoc. reflexivity.
          -- apply NoDup_app_snoc; assumption || idtac.
          -- split; [apply in_or_app; left; apply Hfr|rewrite Hd'; apply Hfr].
          -- intros v Hv Hne. apply in_app_or in Hv. destruct Hv as [Hv|[<-|[]]].
             ++ destruct (Hpar v Hv Hne) as (p & e' & Hg & Hp & Hin & E).
                exists p, e'. cbn [aget]. destruct (N.eqb_spec w v) as [->|_]; [contradiction|].
                assert (Hpv : In p vis).
                { rewrite Hvis. apply in_app_or in Hp. apply in_or_app. destruct Hp as [Hp|[<-|[]]]; [left; assumption|right; left; reflexivity]. }
                repeat split; [assumption|assumption|assumption|rewrite !Hd' by assumption; assumption].
             ++ exists cur, e. cbn [aget]. rewrite N.eqb_refl.
                repeat split; [apply in_or_app; right; left; reflexivity|assumption|rewrite Hd'w, Hd' by assumption; reflexivity].
          -- apply sorted_snoc.
             ++ apply (sorted_ext d); assumption.
             ++ intros y Hy. rewrite Hd'w, Hd' by assumption. apply Hbnd. assumption.
          -- intros v Hv. rewrite (Hd' cur Hcv). apply in_app_or in Hv. destruct Hv as [Hv|[<-|[]]].
             ++ rewrite Hd' by assumption. apply Hbnd. assumption.
             ++ rewrite Hd'w. apply le_n.
          -- intros u Hu w' e' Hin. destruct (Hcl u Hu w' e' Hin) as [Hw' Hle].
             assert (Huv : In u vis) by (rewrite Hvis; apply in_or_app; left; assumption).
             split; [apply in_or_app; left; assumption|rewrite !Hd' by assumption; assumption].
          -- intros w' e' Hin. rewrite (Hd' cur Hcv). apply in_app_or in Hin. destruct Hin as [Hin|[Hin|[]]].
             ++ destruct (Hpre w' e' Hin) as [Hw' Hle]. split; [apply in_or_app; left; assumption|rewrite Hd' by assumption; assumption].
             ++ inversion Hin; subst. split; [apply in_or_app; right; left; reflexivity|rewrite Hd'w; apply le_n].
          -- intros Hin. apply in_app_or in Hin. destruct Hin as [Hin|[Hin|[]]]; [contradiction|congruence].
          -- intros v Hv. cbn [length]. apply in_app_or in Hv. destruct Hv as [Hv|[<-|[]]].
             ++ rewrite Hd' by assumption. specialize (Hlen v Hv). lia.
             ++ rewrite Hd'w. specialize (Hlen cur Hcv). lia.
          -- intros v Hv. apply in_app_or in Hv. destruct Hv as [Hv|[<-|[]]]; [apply Hun; assumption|].
             apply (U_closed cur w e). assumption.
  Qed.

  Lemma sinv_pop d done cur cur' q vis par :
    sinv d done cur (succs cur) (cur' :: q) vis par -> sinv d (done ++ [cur]) cur' [] q vis par.
  Proof.
    intros I. pose proof I as [Hvis Hnd Hfr Hpar Hsort Hbnd Hcl Hpre Hnt Hlen Hun].
    assert (Hcc : (d cur <= d cur')%nat).
    { apply (s_cur_le _ _ _ _ _ _ _ I).
      - rewrite Hvis. apply in_or_app. right. right. left. reflexivity.
      - intros Hin. rewrite Hvis in Hnd.
        change (done ++ cur :: cur' :: q) with (done ++ [cur] ++ cur' :: q) in Hnd.
        rewrite app_assoc in Hnd. apply NoDup_remove_2 in Hnd. apply Hnd.
        apply in_or_app. left. apply in_or_app. left. assumption. }
    constructor.
    - rewrite Hvis, <- app_assoc. reflexivity.
    - assumption.
    - assumption.
    - intros v Hv Hne. destruct (Hpar v Hv Hne) as (p & e & Hg & Hp & Hin & E).
      exists p, e. repeat split; try assumption. apply in_or_app. left. assumption.
    - assumption.
    - intros v Hv. specialize (Hbnd v Hv). lia.
    - intros u Hu w e Hin. apply in_app_or in Hu. destruct Hu as [Hu|[<-|[]]].
      + apply (Hcl u Hu w e Hin).
      + apply (Hpre w e Hin).
    - intros w e [].
    - assumption.
    - assumption.
    - assumption.
  Qed.

  Lemma loop_ok : forall fuel d done cur q vis par,
    sinv d done cur [] q vis par ->
    match bfs_loop succs to fuel (cur :: q) vis par with
    | LFound par' => found_ok par'
    | LNotFound => forall steps, ~ walk' from steps to
    | LFuel => (fuel + length done <= length U)%nat
    end.
  Proof.
    induction fuel as [|fuel IH]; intros d done cur q vis par I.
    { cbn. pose proof (NoDup_incl_length (s_nodup _ _ _ _ _ _ _ I) (s_univ _ _ _ _ _ _ _ I)) as HL.
      rewrite (s_vis _ _ _ _ _ _ _ I), app_length in HL. cbn in HL. lia. }
    cbn [bfs_loop].
    pose proof (scan_ok (succs cur) d done cur [] q vis par I eq_refl) as Hs.
    destruct (scan to cur (succs cur) q vis par) as [par'|q2 vis2 par2]; [assumption|].
    destruct Hs as [d2 I2].
    destruct q2 as [|cur' q2].
    - pose proof I2 as [Hvis Hnd Hfr Hpar Hsort Hbnd Hcl Hpre Hnt Hlen Hun].
      destruct fuel.
      { cbn. pose proof (NoDup_incl_length Hnd Hun) as HL. rewrite Hvis, app_length in HL. cbn in HL. lia. }
      cbn [bfs_loop].
      intros steps W.
      apply Hnt. apply (closed_reach (done ++ [cur]) vis2) with (steps := steps) (u := from).
      + intros u Hu w e Hin. apply in_app_or in Hu. destruct Hu as [Hu|[<-|[]]].
        * apply (Hcl u Hu w e Hin).
        * apply (Hpre w e Hin).
      + intros u Hu. rewrite Hvis in Hu. assumption.
      + assumption.
      + apply Hfr.
    - specialize (IH d2 (done ++ [cur]) cur' q2 vis2 par2 (sinv_pop _ _ _ _ _ _ _ I2)).
      destruct (bfs_loop succs to fuel (cur' :: q2) vis2 par2); try assumption.
      rewrite app_length in IH. cbn in IH. lia.
  Qed.

  (* find_path's search, started as the code starts it *)
  Theorem bfs_correct : forall fuel,
    match bfs_loop succs to fuel [from] [from] [] with
    | LFound par => found_ok par
    | LNotFound => forall steps, ~ walk' from steps to
    | LFuel => (fuel <= length U)%nat
    end.
  Proof.
    intros fuel.
    assert (I0 : sinv (fun _ => 0%nat) [] from [] [] [from] []).
    { constructor; cbn.
      - reflexivity.
      - constructor; [intros []|constructor].
      - split; [left; reflexivity|reflexivity].
      - intros v [<-|[]] Hne. congruence.
      - constructor; constructor.
      - intros v _. lia.
      - intros u [].
      - intros w e [].
      - intros [H|[]]. apply from_ne_to. assumption.
      - intros v _. lia.
      - intros v [<-|[]]. assumption. }
    pose proof (loop_ok fuel _ _ _ _ _ _ I0) as H.
    destruct (bfs_loop succs to fuel [from] [from] []); try assumption.
    cbn in H. lia.
  Qed.
End BFS_correct.

(* ------------------------------------------------------------------------------------------ *)
(* the relation the property demands: edges are followed in their direction (undirected ones
   either way), the edge filter holds on every edge used, the node filter on every node entered
   except the requested end *)
Definition dir_step (e : edge) (u v : N) : Prop :=
  (efrom e = u /\ eto e = v) \/ (edir e = false /\ eto e = u /\ efrom e = v).
Definition qstep (g : graph) (f : filt) (to : N) (u : N) (s : N * N) : Prop :=
  exists e, In e (gedges g) /\ eid e = snd s /\ edge_ok f e = true /\ dir_step e u (fst s)
            /\ (fst s = to \/ node_ok g f (fst s) = true).

Inductive rwalk (R : N -> N * N -> Prop) : N -> list (N * N) -> N -> Prop :=
| rwalk_nil : forall u, rwalk R u [] u
| rwalk_cons : forall u s r v, R u s -> rwalk R (fst s) r v -> rwalk R u (s :: r) v.

Lemma walk_rwalk succs (R : N -> N * N -> Prop) :
  (forall u s, In s (succs u) <-> R u s) -> forall u l v, walk succs u l v <-> rwalk R u l v.
Proof.
  intros H u l v. split.
  - induction 1; [constructor|]. constructor; [apply H; assumption|assumption].
  - induction 1 as [|u [w e] r v HR W IH]; [constructor|]. constructor; [apply H; assumption|assumption].
Qed.

(* the neighbour rule find_path must implement for the property to hold *)
Definition NbSpec (nb : edge -> N -> option N) : Prop := forall e cur, nb e cur = fp_neighbor_default e cur.

Lemma fp_succs_spec nb g f to u s : NbSpec nb -> (In s (fp_succs nb g f to u) <-> qstep g f to u s).
Proof.
  intros Hnb. destruct s as [w i]. unfold fp_succs, qstep. rewrite in_flat_map. cbn [fst snd]. split.
  - intros (e & He & Hin).
    assert (Hg : In e (gedges g)).
    { unfold fp_edges, out_list, in_list in He. apply in_app_or in He.
      destruct He as [He|He]; [|apply filter_In in He; destruct He as [He _]]; apply filter_In in He; apply He. }
    destruct (edge_ok f e) eqn:Heo; [|destruct Hin].
    rewrite Hnb in Hin. unfold fp_neighbor_default in Hin.
    destruct (N.eqb_spec (efrom e) u) as [Hf|Hf].
    + destruct (N.eqb (eto e) to || node_ok g f (eto e)) eqn:Hno; [|destruct Hin].
      destruct Hin as [Hin|[]]. inversion Hin; subst. exists e. repeat split; try assumption.
      * left. split; reflexivity.
      * apply orb_true_iff in Hno. destruct Hno as [Hno|Hno]; [left; apply N.eqb_eq; assumption|right; assumption].
    + destruct (N.eqb_spec (eto e) u) as [Ht|Ht]; cbn [andb] in Hin; [|destruct Hin].
      destruct (edir e) eqn:Hd; cbn [negb] in Hin; [destruct Hin|].
      destruct (N.eqb (efrom e) to || node_ok g f (efrom e)) eqn:Hno; [|destruct Hin].
      destruct Hin as [Hin|[]]. inversion Hin; subst. exists e. repeat split; try assumption.
      * right. repeat split; reflexivity || assumption.
      * apply orb_true_iff in Hno. destruct Hno as [Hno|Hno]; [left; apply N.eqb_eq; assumption|right; assumption].
  - intros (e & Hg & <- & Heo & Hd & Hno). exists e. split.
    + unfold fp_edges. apply in_or_app. left. unfold out_list. apply filter_In. split; [assumption|].
      unfold in_out_list. destruct Hd as [[<- _]|(Hd & <- & _)].
      * rewrite N.eqb_refl. reflexivity.
      * rewrite Hd, N.eqb_refl. cbn. apply orb_true_r.
    + rewrite Heo, Hnb. unfold fp_neighbor_default.
      assert (Hno' : N.eqb w to || node_ok g f w = true).
      { apply orb_true_iff. destruct Hno as [->|Hno]; [left; apply N.eqb_refl|right; assumption]. }
      destruct Hd as [[Hu Hw]|(Hd & Hu & Hw)].
      * rewrite Hu, N.eqb_refl, Hw, Hno'. left. reflexivity.
      * destruct (N.eqb_spec (efrom e) u) as [E|E].
        -- assert (Ew : eto e = w) by congruence. rewrite Ew, Hno'. left. reflexivity.
        -- rewrite Hu, N.eqb_refl, Hd. cbn. rewrite Hw, Hno'. left. reflexivity.
Qed.

Definition fp_universe (g : graph) (from : N) : list N := from :: flat_map (fun e => [efrom e; eto e]) (gedges g).
Lemma endpoints_length (l : list edge) : length (flat_map (fun e => [efrom e; eto e]) l) = (2 * length l)%nat.
Proof. induction l as [|e l IH]; cbn [flat_map length app]; [reflexivity|]. rewrite IH. lia. Qed.

(* find_path: the walk returned is a real, direction- and filter-respecting walk from `from` to `to`
   with the minimum number of hops; "not found" is answered exactly when no such walk exists *)
Theorem find_path_correct nb : NbSpec nb -> forall g f from to,
  match find_path_with nb g f from to with
  | POk ns es =>
      node_exists g from = true /\ node_exists g to = true /\
      exists steps, ns = from :: map fst steps /\ es = map snd steps /\
        rwalk (qstep g f to) from steps to /\
        forall steps', rwalk (qstep g f to) from steps' to -> (length steps <= length steps')%nat
  | PNotFound =>
      node_exists g from = true /\ node_exists g to = true /\
      forall steps, ~ rwalk (qstep g f to) from steps to
  | PNoNode n => (node_exists g from = false /\ n = from) \/ (node_exists g from = true /\ node_exists g to = false /\ n = to)
  | PErr => False
  | PFuel => False
  end.
Proof.
  intros Hnb g f from to. unfold find_path_with.
  destruct (node_exists g from) eqn:Hf; cbn [negb]; [|left; split; reflexivity].
  destruct (node_exists g to) eqn:Ht; cbn [negb]; [|right; repeat split; reflexivity].
  destruct (N.eqb_spec from to) as [<-|Hne].
  - repeat split. exists []. repeat split; [constructor|]. intros; cbn; lia.
  - pose proof (bfs_correct (fp_succs nb g f to) from to Hne (fp_universe g from)) as H.
    assert (HU1 : In from (fp_universe g from)) by (left; reflexivity).
    assert (HU2 : forall u w e, In (w, e) (fp_succs nb g f to u) -> In w (fp_universe g from)).
    { intros u w e Hin. apply (fp_succs_spec nb g f to u (w, e) Hnb) in Hin.
      destruct Hin as (e0 & Hg & _ & _ & Hd & _). cbn [fst] in Hd. right. apply in_flat_map. exists e0. split; [assumption|].
      destruct Hd as [[_ <-]|(_ & _ & <-)]; cbn; auto. }
    specialize (H HU1 HU2 (bfs_fuel g)).
    pose proof (walk_rwalk (fp_succs nb g f to) (qstep g f to) (fun u s => fp_succs_spec nb g f to u s Hnb)) as WR.
    destruct (bfs_loop (fp_succs nb g f to) to (bfs_fuel g) [from] [from] []) as [par| |].
    + destruct H as (steps & W & R & Hmin). unfold found_ok in *. rewrite R.
      repeat split. exists steps. repeat split.
      * apply WR. assumption.
      * intros steps' W'. apply Hmin. apply WR. assumption.
    + repeat split. intros steps W. apply (H steps). apply WR. assumption.
    + unfold bfs_fuel, fp_universe in H. cbn [length] in H. rewrite endpoints_length in H. lia.
Qed.

(* ------------------------------------------------------------------------------------------ *)
(* find_variable_paths: the enumeration is exactly the set of qualifying walks *)
Lemma N_seq_from_In x s cnt : In x (N_seq_from s cnt) <-> s <= x /\ x < s + N.of_nat cnt.
Proof.
  revert s. induction cnt as [|cnt IH]; intros s; cbn [N_seq_from In].
  - lia.
  - rewrite IH. lia.
Qed.
Lemma N_seq_In x n : In x (N_seq n) <-> x < n.
Proof. unfold N_seq. rewrite N_seq_from_In. lia. Qed.

Lemma firstn_incl {A} (n : nat) (l : list A) x : In x (firstn n l) -> In x l.
Proof. revert l. induction n as [|n IH]; intros [|a l]; cbn; try tauto. intros [H|H]; [left; assumption|right; apply IH; assumption]. Qed.
Lemma firstn_short {A} (n : nat) (l : list A) : (length (firstn n l) < n)%nat -> firstn n l = l.
Proof. intros H. apply firstn_all2. rewrite firstn_length in H. lia. Qed.

Section VarPaths.
  Variable g : graph.
  Variable c : vcfg.
  Variable to : N.

  (* a qualifying walk from `cur`: every step is offered by get_variable_path_neighbors_filtered,
     entered nodes pass the node filter (the destination excepted) and, unless cycles are allowed,
     no node is entered twice (`visited` = nodes already on the path) *)
  Fixpoint okwalk (visited : list N) (cur : N) (steps : list (N * N)) : Prop :=
    match steps with
    | [] => True
    | (w, e) :: r =>
        In (w, e) (vp_succs g c cur) /\ (vcycles c = false -> ~ In w visited)
        /\ (w <> to -> node_ok g (vfilt_of c) w = true)
        /\ okwalk (if vcycles c then visited else w :: visited) w r
    end.
  Fixpoint end_of (cur : N) (steps : list (N * N)) : N :=
    match steps with [] => cur | (w, _) :: r => end_of w r end.

  Lemma vp_dfs_spec : forall rem cur visited rns res p,
    In p (vp_dfs g c to rem cur visited rns res) <->
    exists steps, length steps = rem /\ okwalk visited cur steps /\ end_of cur steps = to /\
                  p = (rev rns ++ map fst steps, rev res ++ map snd steps).
  Proof.
    induction rem as [|rem IH]; intros cur visited rns res p; cbn [vp_dfs].
    - destruct (N.eqb_spec cur to) as [E|E]; cbn [In].
      + split.
        * intros [<-|[]]. exists []. cbn. rewrite !app_nil_r. tauto.
        * intros (steps & L & _ & _ & ->). destruct steps; [|discriminate]. cbn. rewrite !app_nil_r. left. reflexivity.
      + split; [intros []|]. intros (steps & L & _ & Hend & _). destruct steps; [|discriminate]. cbn in Hend. contradiction.
    - rewrite in_flat_map. split.
      + intros ([w e] & Hs & Hin).
        destruct (vcycles c) eqn:Hcy; cbn [negb andb] in Hin.
        * destruct (N.eqb_spec w to) as [Ew|Ew]; cbn [negb andb] in Hin.
          -- apply IH in Hin. destruct Hin as (steps & L & Hok & Hend & ->).
             exists ((w, e) :: steps). cbn [length okwalk end_of map fst snd]. rewrite Hcy.
             repeat split; try assumption; try congruence.
             ++ cbn [rev]. rewrite <- !app_assoc. reflexivity.
          -- destruct (node_ok g (vfilt_of c) w) eqn:Hno; cbn [negb] in Hin; [|destruct Hin].
             apply IH in Hin. destruct Hin as (steps & L & Hok & Hend & ->).
             exists ((w, e) :: steps). cbn [length okwalk end_of map fst snd]. rewrite Hcy.
             repeat split; try assumption; try congruence.
             ++ cbn [rev]. rewrite <- !app_assoc. reflexivity.
        * destruct (mem w visited) eqn:Hm; [destruct Hin|].
          apply mem_nIn in Hm.
          destruct (N.eqb_spec w to) as [Ew|Ew]; cbn [negb andb] in Hin.
          -- apply IH in Hin. destruct Hin as (steps & L & Hok & Hend & ->).
             exists ((w, e) :: steps). cbn [length okwalk end_of map fst snd]. rewrite Hcy.
             repeat split; try assumption; try congruence.
             ++ cbn [rev]. rewrite <- !app_assoc. reflexivity.
          -- destruct (node_ok g (vfilt_of c) w) eqn:Hno; cbn [negb] in Hin; [|destruct Hin].
             apply IH in Hin. destruct Hin as (steps & L & Hok & Hend & ->).
             exists ((w, e) :: steps). cbn [length okwalk end_of map fst snd]. rewrite Hcy.
             repeat split; try assumption; try congruence.
             ++ cbn [rev]. rewrite <- !app_assoc. reflexivity.
      + intros (steps & L & Hok & Hend & ->). destruct steps as [|[w e] steps]; [discriminate|].
        cbn [okwalk] in Hok. destruct Hok as (Hs & Hvis & Hno & Hok). cbn [end_of] in Hend.
        exists (w, e). split; [assumption|].
        assert (Hrec : In (rev rns ++ map fst ((w, e) :: steps), rev res ++ map snd ((w, e) :: steps))
                          (vp_dfs g c to rem w (if vcycles c then visited else w :: visited) (w :: rns) (e :: res))).
        { apply IH. exists steps. cbn [length] in L. repeat split; try lia; try assumption.
          cbn [rev map fst snd]. rewrite <- !app_assoc. reflexivity. }
        destruct (vcycles c) eqn:Hcy; cbn [negb andb].
        * destruct (N.eqb_spec w to) as [Ew|Ew]; cbn [negb andb]; [assumption|].
          rewrite (Hno Ew). cbn [negb]. assumption.
        * assert (Hm : mem w visited = false) by (apply mem_nIn; apply Hvis; reflexivity).
          rewrite Hm. destruct (N.eqb_spec w to) as [Ew|Ew]; cbn [negb andb]; [assumption|].
          rewrite (Hno Ew). cbn [negb]. assumption.
  Qed.
End VarPaths.

Definition dstep (dir : N) (e : edge) (u w : N) : Prop :=
  (dir = 0 /\ dir_step e u w) \/ (dir = 1 /\ dir_step e w u) \/ (dir = 2 /\ (dir_step e u w \/ dir_step e w u)).

Lemma out_part_spec g (ok : edge -> bool) cur w i :
  In (w, i) (flat_map (fun e => if ok e then
                                  if N.eqb (efrom e) cur then [(eto e, eid e)]
                                  else if negb (edir e) && N.eqb (eto e) cur then [(efrom e, eid e)] else []
                                else []) (out_list g cur))
  <-> exists e, In e (gedges g) /\ eid e = i /\ ok e = true /\ dir_step e cur w.
Proof.
  rewrite in_flat_map. split.
  - intros (e & He & Hin). unfold out_list in He. apply filter_In in He. destruct He as [Hg _].
    destruct (ok e) eqn:Hok; [|destruct Hin]. exists e.
    destruct (N.eqb_spec (efrom e) cur) as [Hf|Hf].
    + destruct Hin as [Hin|[]]. inversion Hin; subst. repeat split; try assumption. left. split; reflexivity.
    + destruct (edir e) eqn:Hd; cbn [negb andb] in Hin; [destruct Hin|].
      destruct (N.eqb_spec (eto e) cur) as [Ht|Ht]; [|destruct Hin].
      destruct Hin as [Hin|[]]. inversion Hin; subst. repeat split; try assumption. right. repeat split; reflexivity || assumption.
  - intros (e & Hg & <- & Hok & Hd). exists e. split.
    + unfold out_list. apply filter_In. split; [assumption|]. unfold in_out_list.
      destruct Hd as [[<- _]|(Hd & <- & _)]; [rewrite N.eqb_refl; reflexivity|rewrite Hd, N.eqb_refl; cbn; apply orb_true_r].
    + rewrite Hok. destruct Hd as [[Hu Hw]|(Hd & Hu & Hw)].
      * rewrite Hu, N.eqb_refl, Hw. left. reflexivity.
      * destruct (N.eqb_spec (efrom e) cur) as [E|E].
        -- assert (Ew : eto e = w) by congruence. rewrite Ew. left. reflexivity.
        -- rewrite Hd, Hu, N.eqb_refl. cbn. rewrite Hw. left. reflexivity.
Qed.

Lemma in_part_spec g (ok : edge -> bool) (both : bool) cur w i :
  In (w, i) (flat_map (fun e => if ok e then
                                  if N.eqb (eto e) cur || (negb (edir e) && N.eqb (efrom e) cur) then
                                    if both && negb (edir e) then []
                                    else [(if N.eqb (eto e) cur then efrom e else eto e, eid e)]
                                  else []
                                else []) (in_list g cur))
  <-> exists e, In e (gedges g) /\ eid e = i /\ ok e = true /\ dir_step e w cur /\ (both = true -> edir e = true).
Proof.
  rewrite in_flat_map. split.
  - intros (e & He & Hin). unfold in_list in He. apply filter_In in He. destruct He as [Hg _].
    destruct (ok e) eqn:Hok; [|destruct Hin]. exists e.
    destruct (N.eqb (eto e) cur || (negb (edir e) && N.eqb (efrom e) cur)) eqn:Hc; [|destruct Hin].
    destruct (both && negb (edir e)) eqn:Hb; [destruct Hin|].
    destruct Hin as [Hin|[]]. inversion Hin; subst. clear Hin.
    assert (Hbb : both = true -> edir e = true).
    { intros ->. cbn in Hb. destruct (edir e); [reflexivity|discriminate]. }
    repeat split; try assumption; try reflexivity.
    destruct (N.eqb_spec (eto e) cur) as [Ht|Ht].
    + left. split; [reflexivity|assumption].
    + cbn [orb] in Hc. apply andb_true_iff in Hc. destruct Hc as [Hd Hf].
      apply N.eqb_eq in Hf. destruct (edir e) eqn:Hdir; [discriminate Hd|]. right. repeat split; reflexivity || assumption.
  - intros (e & Hg & <- & Hok & Hd & Hb). exists e.
    assert (Hin : in_in_list e cur = true).
    { unfold in_in_list. destruct Hd as [[_ <-]|(Hd & _ & <-)]; [rewrite N.eqb_refl; reflexivity|rewrite Hd, N.eqb_refl; cbn; apply orb_true_r]. }
    split; [unfold in_list; apply filter_In; split; assumption|].
    rewrite Hok. unfold in_in_list in Hin. rewrite Hin.
    assert (Hbf : both && negb (edir e) = false).
    { destruct both; [rewrite (Hb eq_refl)|]; reflexivity. }
    rewrite Hbf. left. f_equal.
    destruct Hd as [[Hw Hu]|(Hdd & Hw & Hu)].
    + rewrite Hu, N.eqb_refl. assumption.
    + destruct (N.eqb_spec (eto e) cur) as [E|E]; congruence.
Qed.

Lemma vp_succs_spec g c cur w i :
  In (w, i) (vp_succs g c cur) <->
  exists e, In e (gedges g) /\ eid e = i /\ type_ok (vtypes c) e = true /\ edge_ok (vfilt_of c) e = true
            /\ dstep (vdir c) e cur w.
Proof.
  unfold vp_succs. rewrite in_app_iff.
  set (ok := fun e => type_ok (vtypes c) e && edge_ok (vfilt_of c) e).
  assert (Hok : forall e, ok e = true <-> type_ok (vtypes c) e = true /\ edge_ok (vfilt_of c) e = true).
  { intros e. unfold ok. apply andb_true_iff. }
  pose proof (out_part_spec g ok cur w i) as HA.
  pose proof (in_part_spec g ok (N.eqb (vdir c) 2) cur w i) as HB.
  fold ok. unfold dstep.
  destruct (N.eqb_spec (vdir c) 0) as [E0|N0]; [rewrite E0 in *; cbn [N.eqb orb] in *|];
  [|destruct (N.eqb_spec (vdir c) 1) as [E1|N1]; [rewrite E1 in *; cbn [N.eqb orb] in *|];
    [|destruct (N.eqb_spec (vdir c) 2) as [E2|N2]; [rewrite E2 in *; cbn [N.eqb orb] in *|]]].
  - (* Outgoing *)
    change (N.eqb 0 2) with false. change (N.eqb 0 1) with false. cbn [orb].
    split.
    + intros [H|[]]. apply HA in H. destruct H as (e & H1 & H2 & H3 & H4). apply Hok in H3. exists e. tauto.
    + intros (e & H1 & H2 & H3 & H4 & [[_ H5]|[[H5 _]|[H5 _]]]); try discriminate H5.
      left. apply HA. exists e. rewrite Hok. tauto.
  - (* Incoming *)
    change (N.eqb 1 0) with false. change (N.eqb 1 2) with false. cbn [orb].
    split.
    + intros [[]|H]. change (N.eqb 1 2) with false in HB. apply HB in H. destruct H as (e & H1 & H2 & H3 & H4 & _). apply Hok in H3. exists e. tauto.
    + intros (e & H1 & H2 & H3 & H4 & [[H5 _]|[[_ H5]|[H5 _]]]); try discriminate H5.
      right. change (N.eqb 1 2) with false in HB. apply HB. exists e. rewrite Hok. repeat split; try tauto. discriminate.
  - (* Both *)
    change (N.eqb 2 0) with false. change (N.eqb 2 1) with false. change (N.eqb 2 2) with true in *. cbn [orb].
    split.
    + intros [H|H].
      * apply HA in H. destruct H as (e & H1 & H2 & H3 & H4). apply Hok in H3. exists e. tauto.
      * apply HB in H. destruct H as (e & H1 & H2 & H3 & H4 & _). apply Hok in H3. exists e. tauto.
    + intros (e & H1 & H2 & H3 & H4 & [[H5 _]|[[H5 _]|[_ H5]]]); try discriminate H5.
      destruct H5 as [H5|H5].
      * left. apply HA. exists e. rewrite Hok. tauto.
      * destruct (edir e) eqn:Hd.
        -- right. apply HB. exists e. rewrite Hok. tauto.
        -- left. apply HA. exists e. rewrite Hok. repeat split; try tauto.
           destruct H5 as [[Hw Hu]|(_ & Hw & Hu)]; [right; tauto|left; tauto].
  - (* no such direction *)
    cbn [orb]. split; [intros [[]|[]]|].
    intros (e & _ & _ & _ & _ & [[H _]|[[H _]|[H _]]]); contradiction.
Qed.

(* one step a variable-length match may take from u: an existing edge of an allowed type passing the
   edge filter, followed in the configured direction *)
Definition vstep (g : graph) (c : vcfg) (u : N) (s : N * N) : Prop :=
  exists e, In e (gedges g) /\ eid e = snd s /\ type_ok (vtypes c) e = true /\ edge_ok (vfilt_of c) e = true
            /\ dstep (vdir c) e u (fst s).
Fixpoint qwalk (g : graph) (c : vcfg) (to : N) (visited : list N) (cur : N) (steps : list (N * N)) : Prop :=
  match steps with
  | [] => True
  | s :: r =>
      vstep g c cur s /\ (vcycles c = false -> ~ In (fst s) visited)
      /\ (fst s <> to -> node_ok g (vfilt_of c) (fst s) = true)
      /\ qwalk g c to (if vcycles c then visited else fst s :: visited) (fst s) r
  end.
Lemma okwalk_qwalk g c to steps : forall visited cur, okwalk g c to visited cur steps <-> qwalk g c to visited cur steps.
Proof.
  induction steps as [|[w e] r IH]; intros visited cur; cbn [okwalk qwalk fst]; [tauto|].
  rewrite IH. unfold vstep. cbn [fst snd]. rewrite vp_succs_spec. tauto.
Qed.

Definition var_qualifies (g : graph) (c : vcfg) (from to : N) (p : list N * list N) : Prop :=
  exists steps, vmin c <= N.of_nat (length steps) /\ N.of_nat (length steps) <= vmax c
    /\ qwalk g c to (if vcycles c then [] else [from]) from steps /\ end_of from steps = to
    /\ p = (from :: map fst steps, map snd steps).

Theorem var_paths_exact g c from to :
  match find_variable_paths g c from to with
  | VOk ps =>
      node_exists g from = true /\ node_exists g to = true /\
      (forall p, In p ps -> var_qualifies g c from to p) /\
      ((length ps < N.to_nat (vmaxpaths c))%nat -> forall p, var_qualifies g c from to p -> In p ps)
  | VNoNode n => (node_exists g from = false /\ n = from) \/ (node_exists g from = true /\ node_exists g to = false /\ n = to)
  | VErr => False
  end.
Proof.
  unfold find_variable_paths.
  destruct (node_exists g from) eqn:Hf; cbn [negb]; [|left; split; reflexivity].
  destruct (node_exists g to) eqn:Ht; cbn [negb]; [|right; repeat split; reflexivity].
  set (init := if vcycles c then [] else [from]).
  set (zero := if N.eqb from to && N.eqb (vmin c) 0 then [([from], [])] else []).
  set (lo := N.max (vmin c) 1).
  set (depths := map (fun k => N.to_nat (lo + k)) (N_seq (N.succ (vmax c) - lo))).
  set (all := flat_map (fun d => vp_dfs g c to d from init [from] []) depths).
  assert (HL : forall p, In p (zero ++ all) <-> var_qualifies g c from to p).
  { intros p. rewrite in_app_iff. unfold var_qualifies. split.
    - intros [Hz|Ha].
      + unfold zero in Hz. destruct (N.eqb_spec from to) as [E|E]; cbn [andb] in Hz; [|destruct Hz].
        destruct (N.eqb_spec (vmin c) 0) as [E0|E0]; [|destruct Hz]. destruct Hz as [<-|[]].
        exists []. cbn. repeat split; try lia; try assumption.
      + unfold all in Ha. apply in_flat_map in Ha. destruct Ha as (d & Hd & Hin).
        unfold depths in Hd. apply in_map_iff in Hd. destruct Hd as (k & <- & Hk). apply N_seq_In in Hk.
        apply vp_dfs_spec in Hin. destruct Hin as (steps & L & Hok & Hend & ->).
        exists steps. apply okwalk_qwalk in Hok. fold init. repeat split; try assumption; try lia.
    - intros (steps & Hlo & Hhi & Hq & Hend & ->).
      destruct steps as [|s0 steps0] eqn:Hs.
      + left. cbn in Hend, Hlo. unfold zero. subst to. rewrite N.eqb_refl.
        assert (E0 : vmin c = 0) by lia. rewrite E0. cbn. left. reflexivity.
      + right. rewrite <- Hs in *. unfold all. apply in_flat_map. exists (length steps). split.
        * unfold depths. apply in_map_iff. exists (N.of_nat (length steps) - lo). split.
          -- assert (1 <= N.of_nat (length steps)) by (rewrite Hs; cbn [length]; lia). lia.
          -- apply N_seq_In. assert (1 <= N.of_nat (length steps)) by (rewrite Hs; cbn [length]; lia). lia.
        * apply vp_dfs_spec. exists steps. repeat split; try assumption. apply okwalk_qwalk. assumption. }
  destruct (N.eqb from to && N.eqb (vmin c) 0 && N.eqb (vmax c) 0) eqn:Hsp.
  - (* the early return: max_hops = 0 *)
    apply andb_true_iff in Hsp. destruct Hsp as [_ Hmx]. apply N.eqb_eq in Hmx.
    assert (Hall : all = []).
    { unfold all, depths. replace (N.succ (vmax c) - lo) with 0 by lia. reflexivity. }
    rewrite Hall, app_nil_r in HL. repeat split; intros; apply HL; assumption.
  - repeat split.
    + intros p Hp. apply HL. eapply firstn_incl. eassumption.
    + intros Hlen p Hp. rewrite (firstn_short _ _ Hlen). apply HL. assumption.
Qed.

(* without allow_cycles the qualifying walks are simple paths *)
Lemma qwalk_simple g c to : vcycles c = false -> forall steps visited cur,
  qwalk g c to visited cur steps -> NoDup (map fst steps) /\ forall x, In x (map fst steps) -> ~ In x visited.
Proof.
  intros Hcy. induction steps as [|s r IH]; intros visited cur Hq; cbn [map].
  - split; [constructor|intros x []].
  - cbn [qwalk] in Hq. destruct Hq as (_ & Hv & _ & Hq). rewrite Hcy in Hq.
    destruct (IH _ _ Hq) as [Hnd Hdis]. split.
    + constructor; [|assumption]. intros Hin. apply (Hdis _ Hin). left. reflexivity.
    + intros x [<-|Hx]; [apply Hv; assumption|]. intros Hxv. apply (Hdis x Hx). right. assumption.
Qed.

(* ------------------------------------------------------------------------------------------ *)
(* traverse: level-synchronous search = exactly the nodes within the hop bound *)
Section Levels.
  Variable step : N -> list N.

  Inductive nwalk : N -> nat -> N -> Prop :=
  | nw_0 : forall u, nwalk u 0 u
  | nw_S : forall u w n v, In w (step u) -> nwalk w n v -> nwalk u (S n) v.

  Lemma nwalk_snoc u n w v : nwalk u n w -> In v (step w) -> nwalk u (S n) v.
  Proof. induction 1; intros Hv; [econstructor; [eassumption|constructor]|econstructor; [eassumption|auto]]. Qed.
  Lemma nwalk_last u n v : nwalk u (S n) v -> exists w, nwalk u n w /\ In v (step w).
  Proof.
    revert u v. induction n as [|n IH]; intros u v H; inversion H; subst.
    - match goal with H1 : nwalk _ 0 _ |- _ => inversion H1; subst end. exists u. split; [constructor|assumption].
    - match goal with H1 : nwalk _ (S n) _ |- _ => destruct (IH _ _ H1) as (x & Hx & Hin) end.
      exists x. split; [econstructor; eassumption|assumption].
  Qed.

  Definition ball (start : N) (k : nat) (v : N) : Prop := exists n, (n <= k)%nat /\ nwalk start n v.

  Lemma add_new_spec : forall xs seen seen' nw, add_new seen xs = (seen', nw) ->
    seen' = seen ++ nw /\ (forall v, In v nw <-> In v xs /\ ~ In v seen).
  Proof.
    induction xs as [|x xs IH]; intros seen seen' nw H; cbn [add_new] in H.
    - inversion H; subst. rewrite app_nil_r. split; [reflexivity|]. intros v. cbn. tauto.
    - destruct (mem x seen) eqn:Hm.
      + apply mem_In in Hm. destruct (IH _ _ _ H) as [E Hn]. split; [assumption|].
        intros v. rewrite Hn. cbn [In]. split; [tauto|]. intros [[<-|Hv] Hns]; [contradiction|tauto].
      + apply mem_nIn in Hm. destruct (add_new (seen ++ [x]) xs) as [s1 n1] eqn:Hr. inversion H; subst.
        destruct (IH _ _ _ Hr) as [E Hn]. split; [rewrite E, <- app_assoc; reflexivity|].
        intros v. cbn [In]. rewrite Hn, in_app_iff. cbn [In]. split.
        * intros [<-|[Hv Hns]]; [tauto|]. split; [tauto|]. intros Hs. apply Hns. left. assumption.
        * intros [[<-|Hv] Hns]; [left; reflexivity|].
          destruct (N.eq_dec x v) as [->|Hne]; [left; reflexivity|]. right. split; [assumption|].
          intros [Hs|[Hs|[]]]; [contradiction|congruence].
  Qed.

  (* seen = ball k, prev = ball (k-1), frontier = seen minus prev *)
  Record LI (start : N) (k : nat) (prev seen frontier : list N) : Prop := {
    l_seen : forall v, In v seen <-> ball start k v;
    l_prev : forall v, In v prev <-> exists n, (n < k)%nat /\ nwalk start n v;
    l_front : forall v, In v frontier <-> In v seen /\ ~ In v prev
  }.

  Lemma LI_next start k prev seen frontier seen' nw :
    LI start k prev seen frontier -> add_new seen (flat_map step frontier) = (seen', nw) ->
    LI start (S k) seen seen' nw.
  Proof.
    intros [Hs Hp Hf] Ha. destruct (add_new_spec _ _ _ _ Ha) as [E Hn]. constructor.
    - intros v. rewrite E, in_app_iff, Hn, in_flat_map. split.
      + intros [Hv|[(u & Hu & Hin) _]].
        * apply Hs in Hv. destruct Hv as (n & Hle & W). exists n. split; [lia|assumption].
        * apply Hf in Hu. destruct Hu as [Hu _]. apply Hs in Hu. destruct Hu as (n & Hle & W).
          exists (S n). split; [lia|]. eapply nwalk_snoc; eassumption.
      + intros (n & Hle & W). destruct (in_dec N.eq_dec v seen) as [Hv|Hv]; [left; assumption|right].
        split; [|assumption].
        destruct n as [|n]; [exfalso; apply Hv; apply Hs; exists 0%nat; split; [lia|assumption]|].
        destruct (nwalk_last _ _ _ W) as (u & Wu & Hin). exists u. split; [|assumption].
        apply Hf. split.
        * apply Hs. exists n. split; [lia|assumption].
        * intros Hup. apply Hp in Hup. destruct Hup as (m & Hlt & Wm). apply Hv. apply Hs.
          exists (S m). split; [lia|]. eapply nwalk_snoc; eassumption.
    - intros v. rewrite Hs. unfold ball. split; intros (n & Hn' & W); exists n; (split; [lia|assumption]).
    - intros v. rewrite Hn, E, in_app_iff, Hn. tauto.
  Qed.

  (* once a round adds nothing, no longer walk reaches anything new *)
  Lemma closed_ball start k seen : (forall v, In v seen <-> ball start k v) ->
    (forall v, ball start (S k) v -> In v seen) -> forall j v, ball start (k + j) v -> In v seen.
  Proof.
    intros Hs Hc. induction j as [|j IH]; intros v (n & Hle & W).
    - apply Hs. exists n. split; [lia|assumption].
    - destruct (Nat.le_gt_cases n (k + j)) as [H|H]; [apply IH; exists n; split; assumption|].
      assert (n = S (k + j)) by lia. subst n. destruct (nwalk_last _ _ _ W) as (u & Wu & Hin).
      assert (Hu : In u seen) by (apply IH; exists (k + j)%nat; split; [lia|assumption]).
      apply Hs in Hu. destruct Hu as (m & Hm & Wm). apply Hc. exists (S m). split; [lia|]. eapply nwalk_snoc; eassumption.
  Qed.

  Lemma tr_levels_spec start : forall depth k prev seen frontier,
    LI start k prev seen frontier ->
    forall v, In v (tr_levels step depth seen frontier) <-> ball start (k + depth) v.
  Proof.
    induction depth as [|depth IH]; intros k prev seen frontier I v; cbn [tr_levels].
    - rewrite Nat.add_0_r. apply (l_seen _ _ _ _ _ I).
    - destruct (add_new seen (flat_map step frontier)) as [seen' nw] eqn:Ha.
      pose proof (LI_next _ _ _ _ _ _ _ I Ha) as I'.
      destruct nw as [|x nw].
      + (* nothing new: the ball has stopped growing *)
        destruct (add_new_spec _ _ _ _ Ha) as [E _]. rewrite app_nil_r in E. subst seen'.
        split.
        * intros Hv. apply (l_seen _ _ _ _ _ I) in Hv. destruct Hv as (n & Hle & W). exists n. split; [lia|assumption].
        * intros Hb. apply (closed_ball start k seen (l_seen _ _ _ _ _ I)) with (j := S depth); [|assumption].
          intros u Hu. apply (l_seen _ _ _ _ _ I'). assumption.
      + rewrite (IH (S k) seen seen' (x :: nw) I' v). replace (S k + depth)%nat with (k + S depth)%nat by lia. tauto.
  Qed.

  Theorem levels_exact start depth v :
    In v (tr_levels step depth [start] [start]) <-> ball start depth v.
  Proof.
    apply (tr_levels_spec start depth 0 []). constructor.
    - intros u. split.
      + intros [<-|[]]. exists 0%nat. split; [lia|constructor].
      + intros (n & Hle & W). assert (n = 0%nat) by lia. subst n. inversion W; subst. left. reflexivity.
    - intros u. split; [intros []|]. intros (n & Hlt & _). lia.
    - intros u. cbn [In]. tauto.
  Qed.
End Levels.

Lemma insert_sorted_In x y l : In x (insert_sorted y l) <-> x = y \/ In x l.
Proof.
  induction l as [|z l IH]; cbn [insert_sorted In]; [intuition|].
  destruct (N.leb y z); cbn [In]; [intuition|]. rewrite IH. intuition.
Qed.
Lemma sort_N_In x l : In x (sort_N l) <-> In x l.
Proof.
  unfold sort_N. induction l as [|y l IH]; cbn [fold_right In]; [tauto|].
  rewrite insert_sorted_In, IH. intuition.
Qed.

(* one hop traverse may take from u: an existing edge of the requested type passing the edge filter,
   followed in the requested direction, to a different node *)
Definition tstep (g : graph) (dir : N) (ty : option N) (f : filt) (u w : N) : Prop :=
  w <> u /\ exists e, In e (gedges g) /\ match ty with Some t => ety e = t | None => True end
                      /\ edge_ok f e = true /\ dstep dir e u w.

Lemma tr_succs_spec g dir ty f cur w : In w (tr_succs g dir ty f cur) <-> tstep g dir ty f cur w.
Proof.
  unfold tr_succs, tstep. cbv zeta beta. rewrite filter_In, in_app_iff.
  set (tok := fun e : edge => match ty with Some t => N.eqb (ety e) t | None => true end).
  assert (Htok : forall e, tok e = true <-> match ty with Some t => ety e = t | None => True end).
  { intros e. unfold tok. destruct ty; [apply N.eqb_eq|tauto]. }
  assert (HA : In w (flat_map (fun e => if tok e && edge_ok f e then
                       (if N.eqb (efrom e) cur then [eto e] else []) ++
                       (if negb (edir e) && N.eqb (eto e) cur then [efrom e] else []) else []) (out_list g cur))
               <-> exists e, In e (gedges g) /\ tok e = true /\ edge_ok f e = true /\ dir_step e cur w).
  { rewrite in_flat_map. split.
    - intros (e & He & Hin). unfold out_list in He. apply filter_In in He. destruct He as [Hg _].
      destruct (tok e && edge_ok f e) eqn:Hok; [|destruct Hin]. apply andb_true_iff in Hok. destruct Hok as [H1 H2].
      exists e. repeat split; try assumption. apply in_app_or in Hin. destruct Hin as [Hin|Hin].
      + destruct (N.eqb_spec (efrom e) cur) as [Hf|]; [|destruct Hin]. destruct Hin as [<-|[]]. left. split; [assumption|reflexivity].
      + destruct (edir e) eqn:Hd; cbn [negb andb] in Hin; [destruct Hin|].
        destruct (N.eqb_spec (eto e) cur) as [Ht|]; [|destruct Hin]. destruct Hin as [<-|[]]. right. repeat split; reflexivity || assumption.
    - intros (e & Hg & H1 & H2 & Hd). exists e. split.
      + unfold out_list. apply filter_In. split; [assumption|]. unfold in_out_list.
        destruct Hd as [[<- _]|(Hd & <- & _)]; [rewrite N.eqb_refl; reflexivity|rewrite Hd, N.eqb_refl; cbn; apply orb_true_r].
      + rewrite H1, H2. cbn [andb]. apply in_or_app. destruct Hd as [[Hu Hw]|(Hd & Hu & Hw)].
        * left. rewrite Hu, N.eqb_refl. left. assumption.
        * right. rewrite Hd, Hu, N.eqb_refl. cbn. left. assumption. }
  assert (HB : In w (flat_map (fun e => if tok e && edge_ok f e then
                       (if N.eqb (eto e) cur then [efrom e] else []) ++
                       (if negb (edir e) && N.eqb (efrom e) cur then [eto e] else []) else []) (in_list g cur))
               <-> exists e, In e (gedges g) /\ tok e = true /\ edge_ok f e = true /\ dir_step e w cur).
  { rewrite in_flat_map. split.
    - intros (e & He & Hin). unfold in_list in He. apply filter_In in He. destruct He as [Hg _].
      destruct (tok e && edge_ok f e) eqn:Hok; [|destruct Hin]. apply andb_true_iff in Hok. destruct Hok as [H1 H2].
      exists e. repeat split; try assumption. apply in_app_or in Hin. destruct Hin as [Hin|Hin].
      + destruct (N.eqb_spec (eto e) cur) as [Ht|]; [|destruct Hin]. destruct Hin as [<-|[]]. left. split; [reflexivity|assumption].
      + destruct (edir e) eqn:Hd; cbn [negb andb] in Hin; [destruct Hin|].
        destruct (N.eqb_spec (efrom e) cur) as [Hf|]; [|destruct Hin]. destruct Hin as [<-|[]]. right. repeat split; reflexivity || assumption.
    - intros (e & Hg & H1 & H2 & Hd). exists e. split.
      + unfold in_list. apply filter_In. split; [assumption|]. unfold in_in_list.
        destruct Hd as [[_ <-]|(Hd & _ & <-)]; [rewrite N.eqb_refl; reflexivity|rewrite Hd, N.eqb_refl; cbn; apply orb_true_r].
      + rewrite H1, H2. cbn [andb]. apply in_or_app. destruct Hd as [[Hw Hu]|(Hd & Hw & Hu)].
        * left. rewrite Hu, N.eqb_refl. left. assumption.
        * right. rewrite Hd, Hu, N.eqb_refl. cbn. left. assumption. }
  unfold tok in HA, HB. cbv beta in HA, HB. unfold dstep.
  assert (Hne : negb (N.eqb w cur) = true <-> w <> cur).
  { destruct (N.eqb_spec w cur); cbn; split; congruence. }
  rewrite Hne.
  destruct (N.eqb_spec dir 0) as [->|N0]; [|destruct (N.eqb_spec dir 1) as [->|N1]; [|destruct (N.eqb_spec dir 2) as [->|N2]]];
    cbn [N.eqb orb].
  - change (N.eqb 0 0) with true. change (N.eqb 0 1) with false. change (N.eqb 0 2) with false. cbn [orb]. rewrite HA. split.
    + intros [[(e & H1 & H2 & H3 & H4)|[]] Hw]. split; [assumption|]. exists e. pose proof (proj1 (Htok e) H2). tauto.
    + intros [Hw (e & H1 & H2 & H3 & [[_ H4]|[[H4 _]|[H4 _]]])]; try discriminate H4.
      split; [|assumption]. left. exists e. pose proof (proj2 (Htok e) H2). tauto.
  - change (N.eqb 1 1) with true. change (N.eqb 1 0) with false. change (N.eqb 1 2) with false. cbn [orb]. rewrite HB. split.
    + intros [[[]|(e & H1 & H2 & H3 & H4)] Hw]. split; [assumption|]. exists e. pose proof (proj1 (Htok e) H2). tauto.
    + intros [Hw (e & H1 & H2 & H3 & [[H4 _]|[[_ H4]|[H4 _]]])]; try discriminate H4.
      split; [|assumption]. right. exists e. pose proof (proj2 (Htok e) H2). tauto.
  - change (N.eqb 2 2) with true. change (N.eqb 2 0) with false. change (N.eqb 2 1) with false. cbn [orb]. rewrite HA, HB. split.
    + intros [[(e & H1 & H2 & H3 & H4)|(e & H1 & H2 & H3 & H4)] Hw]; (split; [assumption|]); exists e; pose proof (proj1 (Htok e) H2); tauto.
    + intros [Hw (e & H1 & H2 & H3 & [[H4 _]|[[H4 _]|[_ [H4|H4]]]])]; try discriminate H4;
        (split; [|assumption]); [left|right]; exists e; pose proof (proj2 (Htok e) H2); tauto.
  - cbn [orb]. split; [intros [[[]|[]] _]|]. intros [_ (e & _ & _ & _ & [[H _]|[[H _]|[H _]]])]; contradiction.
Qed.

Inductive rnw (R : N -> N -> Prop) : N -> nat -> N -> Prop :=
| rnw_0 : forall u, rnw R u 0 u
| rnw_S : forall u w n v, R u w -> rnw R w n v -> rnw R u (S n) v.
Lemma nwalk_rnw step (R : N -> N -> Prop) : (forall u w, In w (step u) <-> R u w) ->
  forall u n v, nwalk step u n v <-> rnw R u n v.
Proof.
  intros H u n v. split; induction 1; try constructor; econstructor; try eassumption; apply H; assumption.
Qed.

Theorem traverse_exact g dir depth ty fo start :
  let f := match fo with Some f => f | None => no_filt end in
  match traverse g (dir, depth, ty, fo) start with
  | TOk _ ns =>
      node_exists g start = true /\
      forall v, In v ns <-> (v = start \/ node_ok g f v = true)
                          /\ exists n, (n <= N.to_nat depth)%nat /\ rnw (tstep g dir ty f) start n v
  | TNoNode n => node_exists g start = false /\ n = start
  | TErr => False
  end.
Proof.
  cbn zeta. unfold traverse. set (f := match fo with Some f => f | None => no_filt end).
  destruct (node_exists g start) eqn:Hs; cbn [negb]; [|split; reflexivity].
  split; [reflexivity|]. intros v. rewrite sort_N_In, filter_In, levels_exact.
  pose proof (nwalk_rnw (tr_succs g dir ty f) (tstep g dir ty f) (fun u w => tr_succs_spec g dir ty f u w)) as WR.
  unfold ball. split.
  - intros [(n & Hle & W) Hok]. split.
    + apply orb_true_iff in Hok. destruct Hok as [Hok|Hok]; [left; apply N.eqb_eq; assumption|right; assumption].
    + exists n. split; [assumption|apply WR; assumption].
  - intros [Hok (n & Hle & W)]. split.
    + exists n. split; [assumption|apply WR; assumption].
    + apply orb_true_iff. destruct Hok as [->|Hok]; [left; apply N.eqb_refl|right; assumption].
Qed.
