(* C18/Proofs.v -- lemmas and main theorems about the path-query model. *)
From NV.Common Require Import Base.
From NV.C18 Require Import Model.
From Coq Require Import Sorting.Sorted.
Open Scope N_scope.

Arguments N.add : simpl never.
Arguments N.sub : simpl never.
Arguments N.mul : simpl never.
Arguments N.eqb : simpl never.
Arguments N.ltb : simpl never.
Arguments N.leb : simpl never.

(* ------------------------------------------------------------------------------------------ *)
(* walks over an abstract successor function: a list of (node entered, edge used) steps *)
Inductive walk (succs : N -> list (N * N)) : N -> list (N * N) -> N -> Prop :=
| walk_nil : forall u, walk succs u [] u
| walk_cons : forall u w e r v, In (w, e) (succs u) -> walk succs w r v -> walk succs u ((w, e) :: r) v.

Lemma walk_app succs u l1 w l2 v : walk succs u l1 w -> walk succs w l2 v -> walk succs u (l1 ++ l2) v.
Proof. induction 1; cbn; intros; [assumption|constructor; auto]. Qed.

Lemma mem_In x l : mem x l = true <-> In x l.
Proof.
  unfold mem. rewrite existsb_exists. split.
  - intros [y [Hy E]]. apply N.eqb_eq in E. subst. assumption.
  - intros H. exists x. split; [assumption|apply N.eqb_refl].
Qed.
Lemma mem_nIn x l : mem x l = false <-> ~ In x l.
Proof. rewrite <- mem_In. destruct (mem x l); split; congruence. Qed.

Lemma NoDup_app_snoc {A} (l : list A) (x : A) : NoDup l -> ~ In x l -> NoDup (l ++ [x]).
Proof.
  induction 1 as [|a l Ha Hn IH]; cbn; intros Hx.
  - constructor; [intros []|constructor].
  - constructor.
    + intros Hin. apply in_app_or in Hin. destruct Hin as [Hin|[<-|[]]]; [contradiction|]. apply Hx. left. reflexivity.
    + apply IH. intros Hin. apply Hx. right. assumption.
Qed.

(* ------------------------------------------------------------------------------------------ *)
Section BFS_correct.
  Variable succs : N -> list (N * N).
  Variable from to : N.
  Hypothesis from_ne_to : from <> to.
  Variable U : list N.                       (* a finite universe closed under succs *)
  Hypothesis U_from : In from U.
  Hypothesis U_closed : forall u w e, In (w, e) (succs u) -> In w U.

  Notation walk' := (walk succs).
  Definition le_d (d : N -> nat) (a b : N) : Prop := (d a <= d b)%nat.

  (* state in the middle of expanding `cur`: `pre` are the successors of cur already looked at *)
  Record sinv (d : N -> nat) (done : list N) (cur : N) (pre : list (N * N)) (q vis : list N) (par : pmap) : Prop := {
    s_vis : vis = done ++ cur :: q;
    s_nodup : NoDup vis;
    s_from : In from vis /\ d from = 0%nat;
    s_par : forall v, In v vis -> v <> from ->
            exists p e, aget par v = Some (p, e) /\ In p (done ++ [cur]) /\ In (v, e) (succs p) /\ d v = S (d p);
    s_sorted : StronglySorted (le_d d) vis;
    s_bound : forall v, In v vis -> (d v <= S (d cur))%nat;
    s_closed : forall u, In u done -> forall w e, In (w, e) (succs u) -> In w vis /\ (d w <= S (d u))%nat;
    s_pre : forall w e, In (w, e) pre -> In w vis /\ (d w <= S (d cur))%nat;
    s_noto : ~ In to vis;
    s_len : forall v, In v vis -> (d v <= length par)%nat;
    s_univ : incl vis U
  }.

  Lemma sorted_app_le (d : N -> nat) l1 x l2 : StronglySorted (le_d d) (l1 ++ x :: l2) ->
    (forall y, In y l1 -> (d y <= d x)%nat) /\ (forall y, In y l2 -> (d x <= d y)%nat).
  Proof.
    induction l1 as [|a l1 IH]; cbn; intros H.
    - inversion H as [|? ? Hs Hf]; subst. split; [intros ? []|]. intros y Hy.
      rewrite Forall_forall in Hf. apply Hf. assumption.
    - inversion H as [|? ? Hs Hf]; subst. destruct (IH Hs) as [I1 I2]. split; [|assumption].
      intros y [->|Hy]; [|auto]. rewrite Forall_forall in Hf. apply Hf. apply in_or_app. right. left. reflexivity.
  Qed.

  Lemma sorted_snoc (d : N -> nat) l x : StronglySorted (le_d d) l -> (forall y, In y l -> (d y <= d x)%nat) ->
    StronglySorted (le_d d) (l ++ [x]).
  Proof.
    induction 1 as [|a l Hs IH Hf]; cbn; intros Hle.
    - constructor; constructor.
    - constructor.
      + apply IH. intros y Hy. apply Hle. right. assumption.
      + rewrite Forall_forall in *. intros y Hy. apply in_app_or in Hy. destruct Hy as [Hy|[<-|[]]].
        * apply Hf. assumption.
        * apply Hle. left. reflexivity.
  Qed.

  Lemma sorted_ext (d d' : N -> nat) l : (forall x, In x l -> d' x = d x) -> StronglySorted (le_d d) l -> StronglySorted (le_d d') l.
  Proof.
    intros He H. induction H as [|a l Hs IH Hf]; [constructor|].
    constructor.
    - apply IH. intros x Hx. apply He. right. assumption.
    - rewrite Forall_forall in *. intros y Hy. unfold le_d. rewrite (He a), (He y); [|right; assumption|left; reflexivity].
      apply Hf. assumption.
  Qed.

  (* nodes not yet expanded are at least as deep as cur *)
  Lemma s_cur_le (d : N -> nat) done cur pre q vis par : sinv d done cur pre q vis par ->
    forall x, In x vis -> ~ In x done -> (d cur <= d x)%nat.
  Proof.
    intros I x Hx Hnd. pose proof (s_sorted _ _ _ _ _ _ _ I) as Hs. rewrite (s_vis _ _ _ _ _ _ _ I) in Hs, Hx.
    destruct (sorted_app_le _ _ _ _ Hs) as [_ H2].
    apply in_app_or in Hx. destruct Hx as [Hx|[<-|Hx]]; [contradiction|apply le_n|apply H2; assumption].
  Qed.

  (* a walk that starts inside vis and ends outside it is long *)
  Lemma escape_long (d : N -> nat) done cur pre q vis par : sinv d done cur pre q vis par ->
    forall steps u v, walk' u steps v -> In u vis -> ~ In v vis -> (S (d cur) <= d u + length steps)%nat.
  Proof.
    intros I steps u v W. induction W as [u|u w e r v Hin W IH]; intros Hu Hv.
    - contradiction.
    - destruct (in_dec N.eq_dec u done) as [Hd|Hnd].
      + destruct (s_closed _ _ _ _ _ _ _ I u Hd w e Hin) as [Hw Hle].
        specialize (IH Hw Hv). cbn [length]. lia.
      + pose proof (s_cur_le _ _ _ _ _ _ _ I u Hu Hnd). cbn [length]. lia.
  Qed.

  (* every walk from an expanded region stays inside vis when all nodes are expanded *)
  Lemma closed_reach (done vis : list N) : (forall u, In u done -> forall w e, In (w, e) (succs u) -> In w vis) ->
    (forall u, In u vis -> In u done) ->
    forall steps u v, walk' u steps v -> In u vis -> In v vis.
  Proof.
    intros Hc Hall steps u v W. induction W; intros Hu; [assumption|].
    apply IHW. eapply Hc; [apply Hall; eassumption|eassumption].
  Qed.

  (* following the parent map back from v *)
  Lemma rebuild_ok (d : N -> nat) (V : list N) (par : pmap) :
    d from = 0%nat ->
    (forall v, In v V -> v <> from ->
       exists p e, aget par v = Some (p, e) /\ In p V /\ In (v, e) (succs p) /\ d v = S (d p)) ->
    forall n v ns es fuel, In v V -> d v = n -> (n <= fuel)%nat ->
      exists steps, walk' from steps v /\ length steps = n /\
        rebuild fuel from v par ns es = (from :: map fst steps ++ ns, map snd steps ++ es).
  Proof.
    intros H0 Hp. induction n as [|n IH]; intros v ns es fuel Hv Hd Hf.
    - assert (v = from) as ->.
      { destruct (N.eq_dec v from) as [|Hne]; [assumption|]. destruct (Hp v Hv Hne) as (p & e & _ & _ & _ & E). lia. }
      exists []. split; [constructor|]. split; [reflexivity|].
      destruct fuel; cbn; rewrite N.eqb_refl; reflexivity.
    - assert (Hne : v <> from) by (intros ->; lia).
      destruct (Hp v Hv Hne) as (p & e & Hg & HpV & Hin & E).
      destruct fuel as [|fuel]; [lia|].
      destruct (IH p (v :: ns) (e :: es) fuel HpV) as (steps & W & L & R); [lia|lia|].
      exists (steps ++ [(v, e)]). split; [|split].
      + eapply walk_app; [eassumption|]. constructor; [assumption|constructor].
      + rewrite app_length. cbn. lia.
      + cbn [rebuild]. destruct (N.eqb_spec v from) as [->|_]; [congruence|].
        rewrite Hg, R. rewrite !map_app. cbn. rewrite <- !app_assoc. reflexivity.
  Qed.

  Definition found_ok (par : pmap) : Prop :=
    exists steps, walk' from steps to /\
      rebuild (S (length par)) from to par [] [] = (from :: map fst steps, map snd steps) /\
      forall steps', walk' from steps' to -> (length steps <= length steps')%nat.

  (* the scan of cur's successors *)
  Lemma scan_ok : forall ss d done cur pre q vis par,
    sinv d done cur pre q vis par -> succs cur = pre ++ ss ->
    match scan to cur ss q vis par with
    | SFound par' => found_ok par'
    | SCont q2 vis2 par2 => exists d2, sinv d2 done cur (succs cur) q2 vis2 par2
    end.
  Proof.
    induction ss as [|[w e] ss IH]; intros d done cur pre q vis par I Hs.
    - cbn. exists d. rewrite app_nil_r in Hs. rewrite Hs. assumption.
    - cbn [scan]. destruct (mem w vis) eqn:Hm.
      + (* already visited *)
        apply mem_In in Hm.
        apply (IH d done cur (pre ++ [(w, e)])); [|rewrite <- app_assoc; assumption].
        destruct I as [Hvis Hnd Hfr Hpar Hsort Hbnd Hcl Hpre Hnt Hlen Hun]. constructor; try assumption.
        intros w' e' Hin. apply in_app_or in Hin. destruct Hin as [Hin|[Hin|[]]]; [apply Hpre with e'; assumption|].
        inversion Hin; subst. split; [assumption|apply Hbnd; assumption].
      + apply mem_nIn in Hm.
        assert (Hcs : In (w, e) (succs cur)) by (rewrite Hs; apply in_or_app; right; left; reflexivity).
        assert (Hcv : In cur vis) by (rewrite (s_vis _ _ _ _ _ _ _ I); apply in_or_app; right; left; reflexivity).
        set (d' := fun x => if N.eqb x w then S (d cur) else d x).
        assert (Hd' : forall x, In x vis -> d' x = d x).
        { intros x Hx. unfold d'. destruct (N.eqb_spec x w) as [->|]; [contradiction|reflexivity]. }
        assert (Hd'w : d' w = S (d cur)) by (unfold d'; rewrite N.eqb_refl; reflexivity).
        assert (Hwf : w <> from) by (intros ->; apply Hm; apply (s_from _ _ _ _ _ _ _ I)).
        destruct (N.eqb_spec w to) as [->|Hwt].
        * (* found *)
          unfold found_ok.
          destruct (rebuild_ok d' (vis ++ [to]) ((to, (cur, e)) :: par)) with (n := S (d cur)) (v := to) (ns := @nil N) (es := @nil N)
            (fuel := S (length ((to, (cur, e)) :: par))) as (steps & W & L & R).
          { rewrite Hd'; apply (s_from _ _ _ _ _ _ _ I). }
          { intros v Hv Hne. apply in_app_or in Hv. destruct Hv as [Hv|[<-|[]]].
            - destruct (s_par _ _ _ _ _ _ _ I v Hv Hne) as (p & e' & Hg & Hp & Hin & E).
              exists p, e'. cbn [aget]. destruct (N.eqb_spec to v) as [->|_]; [contradiction|].
              assert (Hpv : In p vis).
              { rewrite (s_vis _ _ _ _ _ _ _ I). apply in_app_or in Hp. apply in_or_app. destruct Hp as [Hp|[<-|[]]]; [left; assumption|right; left; reflexivity]. }
              repeat split; [assumption|apply in_or_app; left; assumption|assumption|rewrite !Hd' by assumption; assumption].
            - exists cur, e. cbn [aget]. rewrite N.eqb_refl.
              repeat split; [apply in_or_app; left; assumption|assumption|rewrite Hd'w, Hd' by assumption; reflexivity]. }
          { apply in_or_app. right. left. reflexivity. }
          { assumption. }
          { cbn [length]. pose proof (s_len _ _ _ _ _ _ _ I cur Hcv). lia. }
          exists steps. split; [assumption|]. split; [rewrite !app_nil_r in R; exact R|].
          intros steps' W'. rewrite L.
          pose proof (escape_long _ _ _ _ _ _ _ I steps' from to W' (proj1 (s_from _ _ _ _ _ _ _ I)) (s_noto _ _ _ _ _ _ _ I)) as HL.
          rewrite (proj2 (s_from _ _ _ _ _ _ _ I)) in HL. lia.
        * (* enqueue w *)
          apply (IH d' done cur (pre ++ [(w, e)])); [|rewrite <- app_assoc; assumption].
          destruct I as [Hvis Hnd Hfr Hpar Hsort Hbnd Hcl Hpre Hnt Hlen Hun].
          constructor.
          -- rewrite Hvis. rewrite <- app_assoc. reflexivity.
          -- apply NoDup_app_snoc; assumption || idtac.
          -- split; [apply in_or_app; left; apply Hfr|rewrite Hd'; apply Hfr].
          -- intros v Hv Hne. apply in_app_or in Hv. destruct Hv as [Hv|[<-|[]]].
             ++ destruct (Hpar v Hv Hne) as (p & e' & Hg & Hp & Hin & E).
                exists p, e'. cbn [aget]. destruct (N.eqb_spec w v) as [->|_]; [contradiction|].
                assert (Hpv : In p vis).
                { rewrite Hvis. apply in_app_or in Hp. apply in_or_app. destruct Hp as [Hp|[<-|[]]]; [left; assumption|right; left; reflexivity]. }
                repeat split; [assumption|assumption|assumption|rewrite !Hd' by assumption; assumption].
             ++ exists cur, e. cbn [aget]. rewrite N.eqb_refl.
                repeat split; [apply in_or_app; right; left; reflexivity|assumption|rewrite Hd'w, Hd' by assumption; reflexivity].
          -- apply sorted_snoc.
             ++ apply (sorted_ext d); assumption.
             ++ intros y Hy. rewrite Hd'w, Hd' by assumption. apply Hbnd. assumption.
          -- intros v Hv. rewrite (Hd' cur Hcv). apply in_app_or in Hv. destruct Hv as [Hv|[<-|[]]].
             ++ rewrite Hd' by assumption. apply Hbnd. assumption.
             ++ rewrite Hd'w. apply le_n.
          -- intros u Hu w' e' Hin. destruct (Hcl u Hu w' e' Hin) as [Hw' Hle].
             assert (Huv : In u vis) by (rewrite Hvis; apply in_or_app; left; assumption).
             split; [apply in_or_app; left; assumption|rewrite !Hd' by assumption; assumption].
          -- intros w' e' Hin. rewrite (Hd' cur Hcv). apply in_app_or in Hin. destruct Hin as [Hin|[Hin|[]]].
             ++ destruct (Hpre w' e' Hin) as [Hw' Hle]. split; [apply in_or_app; left; assumption|rewrite Hd' by assumption; assumption].
             ++ inversion Hin; subst. split; [apply in_or_app; right; left; reflexivity|rewrite Hd'w; apply le_n].
          -- intros Hin. apply in_app_or in Hin. destruct Hin as [Hin|[Hin|[]]]; [contradiction|congruence].
          -- intros v Hv. cbn [length]. apply in_app_or in Hv. destruct Hv as [Hv|[<-|[]]].
             ++ rewrite Hd' by assumption. specialize (Hlen v Hv). lia.
             ++ rewrite Hd'w. specialize (Hlen cur Hcv). lia.
          -- intros v Hv. apply in_app_or in Hv. destruct Hv as [Hv|[<-|[]]]; [apply Hun; assumption|].
             apply (U_closed cur w e). assumption.
  Qed.

  Lemma sinv_pop d done cur cur' q vis par :
    sinv d done cur (succs cur) (cur' :: q) vis par -> sinv d (done ++ [cur]) cur' [] q vis par.
  Proof.
    intros I. pose proof I as [Hvis Hnd Hfr Hpar Hsort Hbnd Hcl Hpre Hnt Hlen Hun].
    assert (Hcc : (d cur <= d cur')%nat).
    { apply (s_cur_le _ _ _ _ _ _ _ I).
      - rewrite Hvis. apply in_or_app. right. right. left. reflexivity.
      - intros Hin. rewrite Hvis in Hnd.
        change (done ++ cur :: cur' :: q) with (done ++ [cur] ++ cur' :: q) in Hnd.
        rewrite app_assoc in Hnd. apply NoDup_remove_2 in Hnd. apply Hnd.
        apply in_or_app. left. apply in_or_app. left. assumption. }
    constructor.
    - rewrite Hvis, <- app_assoc. reflexivity.
    - assumption.
    - assumption.
    - intros v Hv Hne. destruct (Hpar v Hv Hne) as (p & e & Hg & Hp & Hin & E).
      exists p, e. repeat split; try assumption. apply in_or_app. left. assumption.
    - assumption.
    - intros v Hv. specialize (Hbnd v Hv). lia.
    - intros u Hu w e Hin. apply in_app_or in Hu. destruct Hu as [Hu|[<-|[]]].
      + apply (Hcl u Hu w e Hin).
      + apply (Hpre w e Hin).
    - intros w e [].
    - assumption.
    - assumption.
    - assumption.
  Qed.

  Lemma loop_ok : forall fuel d done cur q vis par,
    sinv d done cur [] q vis par ->
    match bfs_loop succs to fuel (cur :: q) vis par with
    | LFound par' => found_ok par'
    | LNotFound => forall steps, ~ walk' from steps to
    | LFuel => (fuel + length done <= length U)%nat
    end.
  Proof.
    induction fuel as [|fuel IH]; intros d done cur q vis par I.
    { cbn. pose proof (NoDup_incl_length (s_nodup _ _ _ _ _ _ _ I) (s_univ _ _ _ _ _ _ _ I)) as HL.
      rewrite (s_vis _ _ _ _ _ _ _ I), app_length in HL. cbn in HL. lia. }
    cbn [bfs_loop].
    pose proof (scan_ok (succs cur) d done cur [] q vis par I eq_refl) as Hs.
    destruct (scan to cur (succs cur) q vis par) as [par'|q2 vis2 par2]; [assumption|].
    destruct Hs as [d2 I2].
    destruct q2 as [|cur' q2].
    - pose proof I2 as [Hvis Hnd Hfr Hpar Hsort Hbnd Hcl Hpre Hnt Hlen Hun].
      destruct fuel.
      { cbn. pose proof (NoDup_incl_length Hnd Hun) as HL. rewrite Hvis, app_length in HL. cbn in HL. lia. }
      cbn [bfs_loop].
      intros steps W.
      apply Hnt. apply (closed_reach (done ++ [cur]) vis2) with (steps := steps) (u := from).
      + intros u Hu w e Hin. apply in_app_or in Hu. destruct Hu as [Hu|[<-|[]]].
        * apply (Hcl u Hu w e Hin).
        * apply (Hpre w e Hin).
      + intros u Hu. rewrite Hvis in Hu. assumption.
      + assumption.
      + apply Hfr.
    - specialize (IH d2 (done ++ [cur]) cur' q2 vis2 par2 (sinv_pop _ _ _ _ _ _ _ I2)).
      destruct (bfs_loop succs to fuel (cur' :: q2) vis2 par2); try assumption.
      rewrite app_length in IH. cbn in IH. lia.
  Qed.

  (* find_path's search, started as the code starts it *)
  Theorem bfs_correct : forall fuel,
    match bfs_loop succs to fuel [from] [from] [] with
    | LFound par => found_ok par
    | LNotFound => forall steps, ~ walk' from steps to
    | LFuel => (fuel <= length U)%nat
    end.
  Proof.
    intros fuel.
    assert (I0 : sinv (fun _ => 0%nat) [] from [] [] [from] []).
    { constructor; cbn.
      - reflexivity.
      - constructor; [intros []|constructor].
      - split; [left; reflexivity|reflexivity].
      - intros v [<-|[]] Hne. congruence.
      - constructor; constructor.
      - intros v _. lia.
      - intros u [].
      - intros w e [].
      - intros [H|[]]. apply from_ne_to. assumption.
      - intros v _. lia.
      - intros v [<-|[]]. assumption. }
    pose proof (loop_ok fuel _ _ _ _ _ _ I0) as H.
    destruct (bfs_loop succs to fuel [from] [from] []); try assumption.
    cbn in H. lia.
  Qed.
End BFS_correct.

(* ------------------------------------------------------------------------------------------ *)
(* the relation the property demands: edges are followed in their direction (undirected ones
   either way), the edge filter holds on every edge used, the node filter on every node entered
   except the requested end *)
Definition dir_step (e : edge) (u v : N) : Prop :=
  (efrom e = u /\ eto e = v) \/ (edir e = false /\ eto e = u /\ efrom e = v).
Definition qstep (g : graph) (f : filt) (to : N) (u : N) (s : N * N) : Prop :=
  exists e, In e (gedges g) /\ eid e = snd s /\ edge_ok f e = true /\ dir_step e u (fst s)
            /\ (fst s = to \/ node_ok g f (fst s) = true).

Inductive rwalk (R : N -> N * N -> Prop) : N -> list (N * N) -> N -> Prop :=
| rwalk_nil : forall u, rwalk R u [] u
| rwalk_cons : forall u s r v, R u s -> rwalk R (fst s) r v -> rwalk R u (s :: r) v.

Lemma walk_rwalk succs (R : N -> N * N -> Prop) :
  (forall u s, In s (succs u) <-> R u s) -> forall u l v, walk succs u l v <-> rwalk R u l v.
Proof.
  intros H u l v. split.
  - induction 1; [constructor|]. constructor; [apply H; assumption|assumption].
  - induction 1 as [|u [w e] r v HR W IH]; [constructor|]. constructor; [apply H; assumption|assumption].
Qed.

(* the neighbour rule find_path must implement for the property to hold *)
Definition NbSpec (nb : edge -> N -> option N) : Prop := forall e cur, nb e cur = fp_neighbor_default e cur.

Lemma fp_succs_spec nb g f to u s : NbSpec nb -> (In s (fp_succs nb g f to u) <-> qstep g f to u s).
Proof.
  intros Hnb. destruct s as [w i]. unfold fp_succs, qstep. rewrite in_flat_map. cbn [fst snd]. split.
  - intros (e & He & Hin).
    assert (Hg : In e (gedges g)).
    { unfold fp_edges, out_list, in_list in He. apply in_app_or in He.
      destruct He as [He|He]; [|apply filter_In in He; destruct He as [He _]]; apply filter_In in He; apply He. }
    destruct (edge_ok f e) eqn:Heo; [|destruct Hin].
    rewrite Hnb in Hin. unfold fp_neighbor_default in Hin.
    destruct (N.eqb_spec (efrom e) u) as [Hf|Hf].
    + destruct (N.eqb (eto e) to || node_ok g f (eto e)) eqn:Hno; [|destruct Hin].
      destruct Hin as [Hin|[]]. inversion Hin; subst. exists e. repeat split; try assumption.
      * left. split; reflexivity.
      * apply orb_true_iff in Hno. destruct Hno as [Hno|Hno]; [left; apply N.eqb_eq; assumption|right; assumption].
    + destruct (N.eqb_spec (eto e) u) as [Ht|Ht]; cbn [andb] in Hin; [|destruct Hin].
      destruct (edir e) eqn:Hd; cbn [negb] in Hin; [destruct Hin|].
      destruct (N.eqb (efrom e) to || node_ok g f (efrom e)) eqn:Hno; [|destruct Hin].
      destruct Hin as [Hin|[]]. inversion Hin; subst. exists e. repeat split; try assumption.
      * right. repeat split; reflexivity || assumption.
      * apply orb_true_iff in Hno. destruct Hno as [Hno|Hno]; [left; apply N.eqb_eq; assumption|right; assumption].
  - intros (e & Hg & <- & Heo & Hd & Hno). exists e. split.
    + unfold fp_edges. apply in_or_app. left. unfold out_list. apply filter_In. split; [assumption|].
      unfold in_out_list. destruct Hd as [[<- _]|(Hd & <- & _)].
      * rewrite N.eqb_refl. reflexivity.
      * rewrite Hd, N.eqb_refl. cbn. apply orb_true_r.
    + rewrite Heo, Hnb. unfold fp_neighbor_default.
      assert (Hno' : N.eqb w to || node_ok g f w = true).
      { apply orb_true_iff. destruct Hno as [->|Hno]; [left; apply N.eqb_refl|right; assumption]. }
      destruct Hd as [[Hu Hw]|(Hd & Hu & Hw)].
      * rewrite Hu, N.eqb_refl, Hw, Hno'. left. reflexivity.
      * destruct (N.eqb_spec (efrom e) u) as [E|E].
        -- assert (Ew : eto e = w) by congruence. rewrite Ew, Hno'. left. reflexivity.
        -- rewrite Hu, N.eqb_refl, Hd. cbn. rewrite Hw, Hno'. left. reflexivity.
Qed.

Definition fp_universe (g : graph) (from : N) : list N := from :: flat_map (fun e => [efrom e; eto e]) (gedges g).
Lemma endpoints_length (l : list edge) : length (flat_map (fun e => [efrom e; eto e]) l) = (2 * length l)%nat.
Proof. induction l as [|e l IH]; cbn [flat_map length app]; [reflexivity|]. rewrite IH. lia. Qed.

(* find_path: the walk returned is a real, direction- and filter-respecting walk from `from` to `to`
   with the minimum number of hops; "not found" is answered exactly when no such walk exists *)
Theorem find_path_correct nb : NbSpec nb -> forall g f from to,
  match find_path_with nb g f from to with
  | POk ns es =>
      node_exists g from = true /\ node_exists g to = true /\
      exists steps, ns = from :: map fst steps /\ es = map snd steps /\
        rwalk (qstep g f to) from steps to /\
        forall steps', rwalk (qstep g f to) from steps' to -> (length steps <= length steps')%nat
  | PNotFound =>
      node_exists g from = true /\ node_exists g to = true /\
      forall steps, ~ rwalk (qstep g f to) from steps to
  | PNoNode n => (node_exists g from = false /\ n = from) \/ (node_exists g from = true /\ node_exists g to = false /\ n = to)
  | PErr => False
  | PFuel => False
  end.
Proof.
  intros Hnb g f from to. unfold find_path_with.
  destruct (node_exists g from) eqn:Hf; cbn [negb]; [|left; split; reflexivity].
  destruct (node_exists g to) eqn:Ht; cbn [negb]; [|right; repeat split; reflexivity].
  destruct (N.eqb_spec from to) as [<-|Hne].
  - repeat split. exists []. repeat split; [constructor|]. intros; cbn; lia.
  - pose proof (bfs_correct (fp_succs nb g f to) from to Hne (fp_universe g from)) as H.
    assert (HU1 : In from (fp_universe g from)) by (left; reflexivity).
    assert (HU2 : forall u w e, In (w, e) (fp_succs nb g f to u) -> In w (fp_universe g from)).
    { intros u w e Hin. apply (fp_succs_spec nb g f to u (w, e) Hnb) in Hin.
      destruct Hin as (e0 & Hg & _ & _ & Hd & _). cbn [fst] in Hd. right. apply in_flat_map. exists e0. split; [assumption|].
      destruct Hd as [[_ <-]|(_ & _ & <-)]; cbn; auto. }
    specialize (H HU1 HU2 (bfs_fuel g)).
    pose proof (walk_rwalk (fp_succs nb g f to) (qstep g f to) (fun u s => fp_succs_spec nb g f to u s Hnb)) as WR.
    destruct (bfs_loop (fp_succs nb g f to) to (bfs_fuel g) [from] [from] []) as [par| |].
    + destruct H as (steps & W & R & Hmin). unfold found_ok in *. rewrite R.
      repeat split. exists steps. repeat split.
      * apply WR. assumption.
      * intros steps' W'. apply Hmin. apply WR. assumption.
    + repeat split. intros steps W. apply (H steps). apply WR. assumption.
    + unfold bfs_fuel, fp_universe in H. cbn [length] in H. rewrite endpoints_length in H. lia.
Qed.

(* ------------------------------------------------------------------------------------------ *)
(* find_variable_paths: the enumeration is exactly the set of qualifying walks *)
Lemma N_seq_from_In x s cnt : In x (N_seq_from s cnt) <-> s <= x /\ x < s + N.of_nat cnt.
Proof.
  revert s. induction cnt as [|cnt IH]; intros s; cbn [N_seq_from In].
  - lia.
  - rewrite IH. lia.
Qed.
Lemma N_seq_In x n : In x (N_seq n) <-> x < n.
Proof. unfold N_seq. rewrite N_seq_from_In. lia. Qed.

Lemma firstn_incl {A} (n : nat) (l : list A) x : In x (firstn n l) -> In x l.
Proof. revert l. induction n as [|n IH]; intros [|a l]; cbn; try tauto. intros [H|H]; [left; assumption|right; apply IH; assumption]. Qed.
Lemma firstn_short {A} (n : nat) (l : list A) : (length (firstn n l) < n)%nat -> firstn n l = l.
Proof. intros H. apply firstn_all2. rewrite firstn_length in H. lia. Qed.

Section VarPaths.
  Variable g : graph.
  Variable c : vcfg.
  Variable to : N.

  (* a qualifying walk from `cur`: every step is offered by get_variable_path_neighbors_filtered,
     entered nodes pass the node filter (the destination excepted) and, unless cycles are allowed,
     no node is entered twice (`visited` = nodes already on the path) *)
  Fixpoint okwalk (visited : list N) (cur : N) (steps : list (N * N)) : Prop :=
    match steps with
    | [] => True
    | (w, e) :: r =>
        In (w, e) (vp_succs g c cur) /\ (vcycles c = false -> ~ In w visited)
        /\ (w <> to -> node_ok g (vfilt_of c) w = true)
        /\ okwalk (if vcycles c then visited else w :: visited) w r
    end.
  Fixpoint end_of (cur : N) (steps : list (N * N)) : N :=
    match steps with [] => cur | (w, _) :: r => end_of w r end.

  Lemma vp_dfs_spec : forall rem cur visited rns res p,
    In p (vp_dfs g c to rem cur visited rns res) <->
    exists steps, length steps = rem /\ okwalk visited cur steps /\ end_of cur steps = to /\
                  p = (rev rns ++ map fst steps, rev res ++ map snd steps).
  Proof.
    induction rem as [|rem IH]; intros cur visited rns res p; cbn [vp_dfs].
    - destruct (N.eqb_spec cur to) as [E|E]; cbn [In].
      + split.
        * intros [<-|[]]. exists []. cbn. rewrite !app_nil_r. tauto.
        * intros (steps & L & _ & _ & ->). destruct steps; [|discriminate]. cbn. rewrite !app_nil_r. left. reflexivity.
      + split; [intros []|]. intros (steps & L & _ & Hend & _). destruct steps; [|discriminate]. cbn in Hend. contradiction.
    - rewrite in_flat_map. split.
      + intros ([w e] & Hs & Hin).
        destruct (vcycles c) eqn:Hcy; cbn [negb andb] in Hin.
        * destruct (N.eqb_spec w to) as [Ew|Ew]; cbn [negb andb] in Hin.
          -- apply IH in Hin. destruct Hin as (steps & L & Hok & Hend & ->).
             exists ((w, e) :: steps). cbn [length okwalk end_of map fst snd]. rewrite Hcy.
             repeat split; try assumption; try congruence.
             ++ cbn [rev]. rewrite <- !app_assoc. reflexivity.
          -- destruct (node_ok g (vfilt_of c) w) eqn:Hno; cbn [negb] in Hin; [|destruct Hin].
             apply IH in Hin. destruct Hin as (steps & L & Hok & Hend & ->).
             exists ((w, e) :: steps). cbn [length okwalk end_of map fst snd]. rewrite Hcy.
             repeat split; try assumption; try congruence.
             ++ cbn [rev]. rewrite <- !app_assoc. reflexivity.
        * destruct (mem w visited) eqn:Hm; [destruct Hin|].
          apply mem_nIn in Hm.
          destruct (N.eqb_spec w to) as [Ew|Ew]; cbn [negb andb] in Hin.
          -- apply IH in Hin. destruct Hin as (steps & L & Hok & Hend & ->).
             exists ((w, e) :: steps). cbn [length okwalk end_of map fst snd]. rewrite Hcy.
             repeat split; try assumption; try congruence.
             ++ cbn [rev]. rewrite <- !app_assoc. reflexivity.
          -- destruct (node_ok g (vfilt_of c) w) eqn:Hno; cbn [negb] in Hin; [|destruct Hin].
             apply IH in Hin. destruct Hin as (steps & L & Hok & Hend & ->).
             exists ((w, e) :: steps). cbn [length okwalk end_of map fst snd]. rewrite Hcy.
             repeat split; try assumption; try congruence.
             ++ cbn [rev]. rewrite <- !app_assoc. reflexivity.
      + intros (steps & L & Hok & Hend & ->). destruct steps as [|[w e] steps]; [discriminate|].
        cbn [okwalk] in Hok. destruct Hok as (Hs & Hvis & Hno & Hok). cbn [end_of] in Hend.
        exists (w, e). split; [assumption|].
        assert (Hrec : In (rev rns ++ map fst ((w, e) :: steps), rev res ++ map snd ((w, e) :: steps))
                          (vp_dfs g c to rem w (if vcycles c then visited else w :: visited) (w :: rns) (e :: res))).
        { apply IH. exists steps. cbn [length] in L. repeat split; try lia; try assumption.
          cbn [rev map fst snd]. rewrite <- !app_assoc. reflexivity. }
        destruct (vcycles c) eqn:Hcy; cbn [negb andb].
        * destruct (N.eqb_spec w to) as [Ew|Ew]; cbn [negb andb]; [assumption|].
          rewrite (Hno Ew). cbn [negb]. assumption.
        * assert (Hm : mem w visited = false) by (apply mem_nIn; apply Hvis; reflexivity).
          rewrite Hm. destruct (N.eqb_spec w to) as [Ew|Ew]; cbn [negb andb]; [assumption|].
          rewrite (Hno Ew). cbn [negb]. assumption.
  Qed.
End VarPaths.

Definition dstep (dir : N) (e : edge) (u w : N) : Prop :=
  (dir = 0 /\ dir_step e u w) \/ (dir = 1 /\ dir_step e w u) \/ (dir = 2 /\ (dir_step e u w \/ dir_step e w u)).

Lemma out_part_spec g (ok : edge -> bool) cur w i :
  In (w, i) (flat_map (fun e => if ok e then
                                  if N.eqb (efrom e) cur then [(eto e, eid e)]
                                  else if negb (edir e) && N.eqb (eto e) cur then [(efrom e, eid e)] else []
                                else []) (out_list g cur))
  <-> exists e, In e (gedges g) /\ eid e = i /\ ok e = true /\ dir_step e cur w.
Proof.
  rewrite in_flat_map. split.
  - intros (e & He & Hin). unfold out_list in He. apply filter_In in He. destruct He as [Hg _].
    destruct (ok e) eqn:Hok; [|destruct Hin]. exists e.
    destruct (N.eqb_spec (efrom e) cur) as [Hf|Hf].
    + destruct Hin as [Hin|[]]. inversion Hin; subst. repeat split; try assumption. left. split; reflexivity.
    + destruct (edir e) eqn:Hd; cbn [negb andb] in Hin; [destruct Hin|].
      destruct (N.eqb_spec (eto e) cur) as [Ht|Ht]; [|destruct Hin].
      destruct Hin as [Hin|[]]. inversion Hin; subst. repeat split; try assumption. right. repeat split; reflexivity || assumption.
  - intros (e & Hg & <- & Hok & Hd). exists e. split.
    + unfold out_list. apply filter_In. split; [assumption|]. unfold in_out_list.
      destruct Hd as [[<- _]|(Hd & <- & _)]; [rewrite N.eqb_refl; reflexivity|rewrite Hd, N.eqb_refl; cbn; apply orb_true_r].
    + rewrite Hok. destruct Hd as [[Hu Hw]|(Hd & Hu & Hw)].
      * rewrite Hu, N.eqb_refl, Hw. left. reflexivity.
      * destruct (N.eqb_spec (efrom e) cur) as [E|E].
        -- assert (Ew : eto e = w) by congruence. rewrite Ew. left. reflexivity.
        -- rewrite Hd, Hu, N.eqb_refl. cbn. rewrite Hw. left. reflexivity.
Qed.

Lemma in_part_spec g (ok : edge -> bool) (both : bool) cur w i :
  In (w, i) (flat_map (fun e => if ok e then
                                  if N.eqb (eto e) cur || (negb (edir e) && N.eqb (efrom e) cur) then
                                    if both && negb (edir e) then []
                                    else [(if N.eqb (eto e) cur then efrom e else eto e, eid e)]
                                  else []
                                else []) (in_list g cur))
  <-> exists e, In e (gedges g) /\ eid e = i /\ ok e = true /\ dir_step e w cur /\ (both = true -> edir e = true).
Proof.
  rewrite in_flat_map. split.
  - intros (e & He & Hin). unfold in_list in He. apply filter_In in He. destruct He as [Hg _].
    destruct (ok e) eqn:Hok; [|destruct Hin]. exists e.
    destruct (N.eqb (eto e) cur || (negb (edir e) && N.eqb (efrom e) cur)) eqn:Hc; [|destruct Hin].
    destruct (both && negb (edir e)) eqn:Hb; [destruct Hin|].
    destruct Hin as [Hin|[]]. inversion Hin; subst. clear Hin.
    assert (Hbb : both = true -> edir e = true).
    { intros ->. cbn in Hb. destruct (edir e); [reflexivity|discriminate]. }
    repeat split; try assumption.
    destruct (N.eqb_spec (eto e) cur) as [Ht|Ht].
    + left. split; [reflexivity|assumption].
    + cbn [orb] in Hc. apply andb_true_iff in Hc. destruct Hc as [Hd Hf].
      apply N.eqb_eq in Hf. destruct (edir e); [discriminate|]. right. repeat split; reflexivity || assumption.
  - intros (e & Hg & <- & Hok & Hd & Hb). exists e.
    assert (Hin : in_in_list e cur = true).
    { unfold in_in_list. destruct Hd as [[_ <-]|(Hd & _ & <-)]; [rewrite N.eqb_refl; reflexivity|rewrite Hd, N.eqb_refl; cbn; apply orb_true_r]. }
    split; [unfold in_list; apply filter_In; split; assumption|].
    rewrite Hok. unfold in_in_list in Hin. rewrite Hin.
    assert (Hbf : both && negb (edir e) = false).
    { destruct both; [rewrite (Hb eq_refl)|]; reflexivity. }
    rewrite Hbf. left. f_equal.
    destruct Hd as [[Hw Hu]|(Hdd & Hw & Hu)].
    + rewrite Hu, N.eqb_refl. assumption.
    + destruct (N.eqb_spec (eto e) cur) as [E|E]; congruence.
Qed.

Lemma vp_succs_spec g c cur w i :
  In (w, i) (vp_succs g c cur) <->
  exists e, In e (gedges g) /\ eid e = i /\ type_ok (vtypes c) e = true /\ edge_ok (vfilt_of c) e = true
            /\ dstep (vdir c) e cur w.
Proof.
  unfold vp_succs. rewrite in_app_iff.
  set (ok := fun e => type_ok (vtypes c) e && edge_ok (vfilt_of c) e).
  assert (Hok : forall e, ok e = true <-> type_ok (vtypes c) e = true /\ edge_ok (vfilt_of c) e = true).
  { intros e. unfold ok. apply andb_true_iff. }
  pose proof (out_part_spec g ok cur w i) as HA.
  pose proof (in_part_spec g ok (N.eqb (vdir c) 2) cur w i) as HB.
  fold ok. unfold dstep.
  destruct (N.eqb_spec (vdir c) 0) as [E0|N0]; [rewrite E0 in *; cbn [N.eqb orb] in *|];
  [|destruct (N.eqb_spec (vdir c) 1) as [E1|N1]; [rewrite E1 in *; cbn [N.eqb orb] in *|];
    [|destruct (N.eqb_spec (vdir c) 2) as [E2|N2]; [rewrite E2 in *; cbn [N.eqb orb] in *|]]].
  - (* Outgoing *)
    change (N.eqb 0 2) with false. change (N.eqb 0 1) with false. cbn [orb].
    split.
    + intros [H|[]]. apply HA in H. destruct H as (e & H1 & H2 & H3 & H4). apply Hok in H3. exists e. tauto.
    + intros (e & H1 & H2 & H3 & H4 & [[_ H5]|[[H5 _]|[H5 _]]]); try discriminate H5.
      left. apply HA. exists e. rewrite Hok. tauto.
  - (* Incoming *)
    change (N.eqb 1 0) with false. change (N.eqb 1 2) with false. cbn [orb].
    split.
    + intros [[]|H]. change (N.eqb 1 2) with false in HB. apply HB in H. destruct H as (e & H1 & H2 & H3 & H4 & _). apply Hok in H3. exists e. tauto.
    + intros (e & H1 & H2 & H3 & H4 & [[H5 _]|[[_ H5]|[H5 _]]]); try discriminate H5.
      right. change (N.eqb 1 2) with false in HB. apply HB. exists e. rewrite Hok. repeat split; try tauto. discriminate.
  - (* Both *)
    change (N.eqb 2 0) with false. change (N.eqb 2 1) with false. change (N.eqb 2 2) with true in *. cbn [orb].
    split.
    + intros [H|H].
      * apply HA in H. destruct H as (e & H1 & H2 & H3 & H4). apply Hok in H3. exists e. tauto.
      * apply HB in H. destruct H as (e & H1 & H2 & H3 & H4 & _). apply Hok in H3. exists e. tauto.
    + intros (e & H1 & H2 & H3 & H4 & [[H5 _]|[[H5 _]|[_ H5]]]); try discriminate H5.
      destruct H5 as [H5|H5].
      * left. apply HA. exists e. rewrite Hok. tauto.
      * destruct (edir e) eqn:Hd.
        -- right. apply HB. exists e. rewrite Hok. tauto.
        -- left. apply HA. exists e. rewrite Hok. repeat split; try tauto.
           destruct H5 as [[Hw Hu]|(_ & Hw & Hu)]; [right; tauto|left; tauto].
  - (* no such direction *)
    assert (F0 : N.eqb (vdir c) 0 = false) by (apply N.eqb_neq; assumption).
    assert (F1 : N.eqb (vdir c) 1 = false) by (apply N.eqb_neq; assumption).
    assert (F2 : N.eqb (vdir c) 2 = false) by (apply N.eqb_neq; assumption).
    rewrite F0, F1, F2. cbn [orb]. split; [intros [[]|[]]|].
    intros (e & _ & _ & _ & _ & [[H _]|[[H _]|[H _]]]); contradiction.
Qed.
