(* C18/Props.v -- pinned property theorems; nothing but statements closed by `exact`. *)
From NV.Common Require Import Base.
From NV.C18 Require Import Model Proofs Inst.
From NV.gen Require Import Gen_C18.
Open Scope N_scope.

(* find_path (BFS as the code does it, with the neighbour rule regenerated from the source):
   a returned path is a walk from `from` to `to` in the current graph that follows every directed
   edge forwards, uses only edges passing the edge filter and enters only nodes passing the node
   filter (the requested end excepted), and no such walk has fewer hops; PathNotFound is answered
   exactly when no such walk exists; NodeNotFound exactly for a missing endpoint; the search never
   runs out of fuel. *)
Theorem C18_find_path_real_and_shortest : forall g f from to,
  match find_path_with gen_fp_neighbor g f from to with
  | POk ns es =>
      node_exists g from = true /\ node_exists g to = true /\
      exists steps, ns = from :: map fst steps /\ es = map snd steps /\
        rwalk (qstep g f to) from steps to /\
        forall steps', rwalk (qstep g f to) from steps' to -> (length steps <= length steps')%nat
  | PNotFound =>
      node_exists g from = true /\ node_exists g to = true /\
      forall steps, ~ rwalk (qstep g f to) from steps to
  | PNoNode n => (node_exists g from = false /\ n = from) \/ (node_exists g from = true /\ node_exists g to = false /\ n = to)
  | PErr => False
  | PFuel => False
  end.
Proof. exact (find_path_correct gen_fp_neighbor gen_fp_spec). Qed.

(* non-vacuity: a directed chain 1->2->3 plus 3->1; forwards 2 hops, backwards the long way round,
   and a filtered query with no qualifying path *)
Example C18_find_path_example :
  let g := G [(1, Some 0); (2, Some 1); (3, Some 0)]
             [E 1 1 2 true 0 None None; E 2 2 3 true 0 None None; E 3 3 1 true 0 None None] in
  find_path_with gen_fp_neighbor g no_filt 1 3 = POk [1; 2; 3] [1; 2]
  /\ find_path_with gen_fp_neighbor g no_filt 2 1 = POk [2; 3; 1] [2; 3]
  /\ find_path_with gen_fp_neighbor g (F [(0, 0)] []) 1 3 = PNotFound.
Proof. vm_compute. repeat split. Qed.

Print Assumptions C18_find_path_real_and_shortest.
